(* Extract.v — extraction of the executable models and specifications to OCaml for the
   correspondence check.  ExtrOcamlBasic only: bool/option/unit/prod/list/sumbool/sumor map to
   the OCaml builtins; N, positive, nat stay the extracted inductive types. *)
From Coq Require Import Extraction ExtrOcamlBasic.
From Pocket Require Import Bytes Layout Access MatchSpec Hex Hll Ctor.
Extraction "../runner/model.ml"
  N.of_nat N.to_nat N.add N.mul N.div N.modulo N.eqb N.ltb N.leb N.sub
  len beq
  enc_tags enc_event enc_filter
  wf_aeventb fits_eventb wf_afilterb fits_filterb fits_tagsb named_constraintsb
  event_matches spec_matches
  tags_iter_all tags_get_string tags_get_value tags_matches
  ev_kind ev_created ev_id ev_pk ev_sig ev_tags ev_content ev_delineate
  fl_ids fl_authors fl_kinds fl_tags fl_limit fl_since fl_until
  tags_from_parts event_from_parts filter_from_parts
  read_hex write_hex hll_new add_element merge from_hex to_hex zero_count.
