(* Extract.v — extraction of the executable models and specifications to OCaml for the
   correspondence check.  ExtrOcamlBasic only: bool/option/unit/prod/list/sumbool/sumor map to
   the OCaml builtins; N, positive, nat stay the extracted inductive types. *)
From Coq Require Import Extraction ExtrOcamlBasic.
From Pocket Require Import Bytes Layout Access MatchSpec Hex Hll Ctor Keys Db ADb Escape JsonParse Codec Crash LogBytes.
Extraction "../runner/model.ml"
  N.of_nat N.to_nat N.add N.mul N.div N.modulo N.eqb N.ltb N.leb N.sub
  len beq
  enc_tags enc_event enc_filter
  wf_aeventb fits_eventb wf_afilterb fits_filterb fits_tagsb named_constraintsb
  event_matches spec_matches
  tags_iter_all tags_get_string tags_get_value tags_matches
  ev_kind ev_created ev_id ev_pk ev_sig ev_tags ev_content ev_delineate
  fl_ids fl_authors fl_kinds fl_tags fl_limit fl_since fl_until
  tags_from_parts event_from_parts filter_from_parts
  db_init store_event remove_event vanish find_events get_event_by_id get_event_by_offset has_event
  event_is_deleted naddr_is_deleted_asof find_replaceable_event find_param_replaceable_event stats
  db_extra_put reopen rebuild is_replaceable is_param_replaceable is_ephemeral addr_parse
  a_init a_store a_remove a_vanish a_qualifying a_query a_redactable scrape_covered is_scrape a_extra_put
  has_id find_id del_time at_addr addr_of
  json_escape json_unescape next_code_point encode_utf8 event_from_json filter_from_json tags_from_json
  decode_event decode_filter event_bytes_as_json filter_bytes_as_json tags_bytes_as_json canon
  event_as_json filter_as_json tags_as_json
  crash_states_store crash_states_remove crash_states_vanish recover_create pre_checks
  es_open es_store es_get get_end replay_log bytes_of_log crash_files create_files
  read_hex write_hex hll_new add_element merge from_hex to_hex zero_count.
