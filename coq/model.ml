
(** val negb : bool -> bool **)

let negb = function
| true -> false
| false -> true

type nat =
| O
| S of nat

(** val fst : ('a1 * 'a2) -> 'a1 **)

let fst = function
| (x, _) -> x

(** val snd : ('a1 * 'a2) -> 'a2 **)

let snd = function
| (_, y) -> y

(** val length : 'a1 list -> nat **)

let rec length = function
| [] -> O
| _ :: l' -> S (length l')

(** val app : 'a1 list -> 'a1 list -> 'a1 list **)

let rec app l m =
  match l with
  | [] -> m
  | a :: l1 -> a :: (app l1 m)

type comparison =
| Eq
| Lt
| Gt

module Coq__1 = struct
 (** val add : nat -> nat -> nat **)
 let rec add n0 m =
   match n0 with
   | O -> m
   | S p -> S (add p m)
end
include Coq__1

(** val concat : 'a1 list list -> 'a1 list **)

let rec concat = function
| [] -> []
| x :: l0 -> app x (concat l0)

(** val map : ('a1 -> 'a2) -> 'a1 list -> 'a2 list **)

let rec map f = function
| [] -> []
| a :: t -> (f a) :: (map f t)

(** val existsb : ('a1 -> bool) -> 'a1 list -> bool **)

let rec existsb f = function
| [] -> false
| a :: l0 -> (||) (f a) (existsb f l0)

(** val forallb : ('a1 -> bool) -> 'a1 list -> bool **)

let rec forallb f = function
| [] -> true
| a :: l0 -> (&&) (f a) (forallb f l0)

(** val firstn : nat -> 'a1 list -> 'a1 list **)

let rec firstn n0 l =
  match n0 with
  | O -> []
  | S n1 -> (match l with
             | [] -> []
             | a :: l0 -> a :: (firstn n1 l0))

(** val skipn : nat -> 'a1 list -> 'a1 list **)

let rec skipn n0 l =
  match n0 with
  | O -> l
  | S n1 -> (match l with
             | [] -> []
             | _ :: l0 -> skipn n1 l0)

type positive =
| XI of positive
| XO of positive
| XH

type n =
| N0
| Npos of positive

module Pos =
 struct
  type mask =
  | IsNul
  | IsPos of positive
  | IsNeg
 end

module Coq_Pos =
 struct
  (** val succ : positive -> positive **)

  let rec succ = function
  | XI p -> XO (succ p)
  | XO p -> XI p
  | XH -> XO XH

  (** val add : positive -> positive -> positive **)

  let rec add x y =
    match x with
    | XI p ->
      (match y with
       | XI q -> XO (add_carry p q)
       | XO q -> XI (add p q)
       | XH -> XO (succ p))
    | XO p ->
      (match y with
       | XI q -> XI (add p q)
       | XO q -> XO (add p q)
       | XH -> XI p)
    | XH -> (match y with
             | XI q -> XO (succ q)
             | XO q -> XI q
             | XH -> XO XH)

  (** val add_carry : positive -> positive -> positive **)

  and add_carry x y =
    match x with
    | XI p ->
      (match y with
       | XI q -> XI (add_carry p q)
       | XO q -> XO (add_carry p q)
       | XH -> XI (succ p))
    | XO p ->
      (match y with
       | XI q -> XO (add_carry p q)
       | XO q -> XI (add p q)
       | XH -> XO (succ p))
    | XH ->
      (match y with
       | XI q -> XI (succ q)
       | XO q -> XO (succ q)
       | XH -> XI XH)

  (** val pred_double : positive -> positive **)

  let rec pred_double = function
  | XI p -> XI (XO p)
  | XO p -> XI (pred_double p)
  | XH -> XH

  type mask = Pos.mask =
  | IsNul
  | IsPos of positive
  | IsNeg

  (** val succ_double_mask : mask -> mask **)

  let succ_double_mask = function
  | IsNul -> IsPos XH
  | IsPos p -> IsPos (XI p)
  | IsNeg -> IsNeg

  (** val double_mask : mask -> mask **)

  let double_mask = function
  | IsPos p -> IsPos (XO p)
  | x0 -> x0

  (** val double_pred_mask : positive -> mask **)

  let double_pred_mask = function
  | XI p -> IsPos (XO (XO p))
  | XO p -> IsPos (XO (pred_double p))
  | XH -> IsNul

  (** val sub_mask : positive -> positive -> mask **)

  let rec sub_mask x y =
    match x with
    | XI p ->
      (match y with
       | XI q -> double_mask (sub_mask p q)
       | XO q -> succ_double_mask (sub_mask p q)
       | XH -> IsPos (XO p))
    | XO p ->
      (match y with
       | XI q -> succ_double_mask (sub_mask_carry p q)
       | XO q -> double_mask (sub_mask p q)
       | XH -> IsPos (pred_double p))
    | XH -> (match y with
             | XH -> IsNul
             | _ -> IsNeg)

  (** val sub_mask_carry : positive -> positive -> mask **)

  and sub_mask_carry x y =
    match x with
    | XI p ->
      (match y with
       | XI q -> succ_double_mask (sub_mask_carry p q)
       | XO q -> double_mask (sub_mask p q)
       | XH -> IsPos (pred_double p))
    | XO p ->
      (match y with
       | XI q -> double_mask (sub_mask_carry p q)
       | XO q -> succ_double_mask (sub_mask_carry p q)
       | XH -> double_pred_mask p)
    | XH -> IsNeg

  (** val mul : positive -> positive -> positive **)

  let rec mul x y =
    match x with
    | XI p -> add y (XO (mul p y))
    | XO p -> XO (mul p y)
    | XH -> y

  (** val compare_cont : comparison -> positive -> positive -> comparison **)

  let rec compare_cont r x y =
    match x with
    | XI p ->
      (match y with
       | XI q -> compare_cont r p q
       | XO q -> compare_cont Gt p q
       | XH -> Gt)
    | XO p ->
      (match y with
       | XI q -> compare_cont Lt p q
       | XO q -> compare_cont r p q
       | XH -> Gt)
    | XH -> (match y with
             | XH -> r
             | _ -> Lt)

  (** val compare : positive -> positive -> comparison **)

  let compare =
    compare_cont Eq

  (** val eqb : positive -> positive -> bool **)

  let rec eqb p q =
    match p with
    | XI p0 -> (match q with
                | XI q0 -> eqb p0 q0
                | _ -> false)
    | XO p0 -> (match q with
                | XO q0 -> eqb p0 q0
                | _ -> false)
    | XH -> (match q with
             | XH -> true
             | _ -> false)

  (** val iter_op : ('a1 -> 'a1 -> 'a1) -> positive -> 'a1 -> 'a1 **)

  let rec iter_op op p a =
    match p with
    | XI p0 -> op a (iter_op op p0 (op a a))
    | XO p0 -> iter_op op p0 (op a a)
    | XH -> a

  (** val to_nat : positive -> nat **)

  let to_nat x =
    iter_op Coq__1.add x (S O)

  (** val of_succ_nat : nat -> positive **)

  let rec of_succ_nat = function
  | O -> XH
  | S x -> succ (of_succ_nat x)
 end

module N =
 struct
  (** val succ_double : n -> n **)

  let succ_double = function
  | N0 -> Npos XH
  | Npos p -> Npos (XI p)

  (** val double : n -> n **)

  let double = function
  | N0 -> N0
  | Npos p -> Npos (XO p)

  (** val add : n -> n -> n **)

  let add n0 m =
    match n0 with
    | N0 -> m
    | Npos p -> (match m with
                 | N0 -> n0
                 | Npos q -> Npos (Coq_Pos.add p q))

  (** val sub : n -> n -> n **)

  let sub n0 m =
    match n0 with
    | N0 -> N0
    | Npos n' ->
      (match m with
       | N0 -> n0
       | Npos m' ->
         (match Coq_Pos.sub_mask n' m' with
          | Coq_Pos.IsPos p -> Npos p
          | _ -> N0))

  (** val mul : n -> n -> n **)

  let mul n0 m =
    match n0 with
    | N0 -> N0
    | Npos p -> (match m with
                 | N0 -> N0
                 | Npos q -> Npos (Coq_Pos.mul p q))

  (** val compare : n -> n -> comparison **)

  let compare n0 m =
    match n0 with
    | N0 -> (match m with
             | N0 -> Eq
             | Npos _ -> Lt)
    | Npos n' -> (match m with
                  | N0 -> Gt
                  | Npos m' -> Coq_Pos.compare n' m')

  (** val eqb : n -> n -> bool **)

  let eqb n0 m =
    match n0 with
    | N0 -> (match m with
             | N0 -> true
             | Npos _ -> false)
    | Npos p -> (match m with
                 | N0 -> false
                 | Npos q -> Coq_Pos.eqb p q)

  (** val leb : n -> n -> bool **)

  let leb x y =
    match compare x y with
    | Gt -> false
    | _ -> true

  (** val ltb : n -> n -> bool **)

  let ltb x y =
    match compare x y with
    | Lt -> true
    | _ -> false

  (** val pos_div_eucl : positive -> n -> n * n **)

  let rec pos_div_eucl a b =
    match a with
    | XI a' ->
      let (q, r) = pos_div_eucl a' b in
      let r' = succ_double r in
      if leb b r' then ((succ_double q), (sub r' b)) else ((double q), r')
    | XO a' ->
      let (q, r) = pos_div_eucl a' b in
      let r' = double r in
      if leb b r' then ((succ_double q), (sub r' b)) else ((double q), r')
    | XH ->
      (match b with
       | N0 -> (N0, (Npos XH))
       | Npos p -> (match p with
                    | XH -> ((Npos XH), N0)
                    | _ -> (N0, (Npos XH))))

  (** val div_eucl : n -> n -> n * n **)

  let div_eucl a b =
    match a with
    | N0 -> (N0, N0)
    | Npos na -> (match b with
                  | N0 -> (N0, a)
                  | Npos _ -> pos_div_eucl na b)

  (** val div : n -> n -> n **)

  let div a b =
    fst (div_eucl a b)

  (** val modulo : n -> n -> n **)

  let modulo a b =
    snd (div_eucl a b)

  (** val to_nat : n -> nat **)

  let to_nat = function
  | N0 -> O
  | Npos p -> Coq_Pos.to_nat p

  (** val of_nat : nat -> n **)

  let of_nat = function
  | O -> N0
  | S n' -> Npos (Coq_Pos.of_succ_nat n')
 end

type bytes = n list

type err =
| EBuf
| EEnd
| EHex
| EUtf8
| EJson
| ERange
| EAddr
| EDup
| EDeleted
| EReplaced
| EInvalidDelete
| EScraper
| EWrongKind
| EKeySize
| EOther

type 'a res =
| Ok of 'a
| Err of err
| Panic
| OutOfFuel

(** val bind : 'a1 res -> ('a1 -> 'a2 res) -> 'a2 res **)

let bind r f =
  match r with
  | Ok a -> f a
  | Err e -> Err e
  | Panic -> Panic
  | OutOfFuel -> OutOfFuel

(** val len : 'a1 list -> n **)

let len l =
  N.of_nat (length l)

(** val drop : n -> 'a1 list -> 'a1 list **)

let drop n0 l =
  skipn (N.to_nat n0) l

(** val take : n -> 'a1 list -> 'a1 list **)

let take n0 l =
  firstn (N.to_nat n0) l

(** val slice : bytes -> n -> n -> bytes res **)

let slice b off n0 =
  if N.leb (N.add off n0) (len b) then Ok (take n0 (drop off b)) else Panic

(** val le16 : n -> bytes **)

let le16 x =
  (N.modulo x (Npos (XO (XO (XO (XO (XO (XO (XO (XO XH)))))))))) :: (
    (N.modulo (N.div x (Npos (XO (XO (XO (XO (XO (XO (XO (XO XH))))))))))
      (Npos (XO (XO (XO (XO (XO (XO (XO (XO XH)))))))))) :: [])

(** val le32 : n -> bytes **)

let le32 x =
  (N.modulo x (Npos (XO (XO (XO (XO (XO (XO (XO (XO XH)))))))))) :: (
    (N.modulo (N.div x (Npos (XO (XO (XO (XO (XO (XO (XO (XO XH))))))))))
      (Npos (XO (XO (XO (XO (XO (XO (XO (XO XH)))))))))) :: ((N.modulo
                                                               (N.div x (Npos
                                                                 (XO (XO (XO
                                                                 (XO (XO (XO
                                                                 (XO (XO (XO
                                                                 (XO (XO (XO
                                                                 (XO (XO (XO
                                                                 (XO
                                                                 XH))))))))))))))))))
                                                               (Npos (XO (XO
                                                               (XO (XO (XO
                                                               (XO (XO (XO
                                                               XH)))))))))) :: (
    (N.modulo
      (N.div x (Npos (XO (XO (XO (XO (XO (XO (XO (XO (XO (XO (XO (XO (XO (XO
        (XO (XO (XO (XO (XO (XO (XO (XO (XO (XO XH))))))))))))))))))))))))))
      (Npos (XO (XO (XO (XO (XO (XO (XO (XO XH)))))))))) :: [])))

(** val le64 : n -> bytes **)

let le64 x =
  app
    (le32
      (N.modulo x (Npos (XO (XO (XO (XO (XO (XO (XO (XO (XO (XO (XO (XO (XO
        (XO (XO (XO (XO (XO (XO (XO (XO (XO (XO (XO (XO (XO (XO (XO (XO (XO
        (XO (XO XH)))))))))))))))))))))))))))))))))))
    (le32
      (N.div x (Npos (XO (XO (XO (XO (XO (XO (XO (XO (XO (XO (XO (XO (XO (XO
        (XO (XO (XO (XO (XO (XO (XO (XO (XO (XO (XO (XO (XO (XO (XO (XO (XO
        (XO XH)))))))))))))))))))))))))))))))))))

(** val rd16 : bytes -> n option **)

let rd16 = function
| [] -> None
| a :: l0 ->
  (match l0 with
   | [] -> None
   | b :: _ ->
     Some
       (N.add a (N.mul (Npos (XO (XO (XO (XO (XO (XO (XO (XO XH))))))))) b)))

(** val rd32 : bytes -> n option **)

let rd32 = function
| [] -> None
| a :: l0 ->
  (match l0 with
   | [] -> None
   | b :: l1 ->
     (match l1 with
      | [] -> None
      | c :: l2 ->
        (match l2 with
         | [] -> None
         | d :: _ ->
           Some
             (N.add
               (N.add
                 (N.add a
                   (N.mul (Npos (XO (XO (XO (XO (XO (XO (XO (XO XH))))))))) b))
                 (N.mul (Npos (XO (XO (XO (XO (XO (XO (XO (XO (XO (XO (XO (XO
                   (XO (XO (XO (XO XH))))))))))))))))) c))
               (N.mul (Npos (XO (XO (XO (XO (XO (XO (XO (XO (XO (XO (XO (XO
                 (XO (XO (XO (XO (XO (XO (XO (XO (XO (XO (XO (XO
                 XH))))))))))))))))))))))))) d)))))

(** val rd64 : bytes -> n option **)

let rd64 l =
  match rd32 l with
  | Some lo ->
    (match rd32 (drop (Npos (XO (XO XH))) l) with
     | Some hi ->
       Some
         (N.add lo
           (N.mul (Npos (XO (XO (XO (XO (XO (XO (XO (XO (XO (XO (XO (XO (XO
             (XO (XO (XO (XO (XO (XO (XO (XO (XO (XO (XO (XO (XO (XO (XO (XO
             (XO (XO (XO XH))))))))))))))))))))))))))))))))) hi))
     | None -> None)
  | None -> None

(** val get16 : bytes -> n -> n res **)

let get16 b off =
  match rd16 (drop off b) with
  | Some v -> Ok v
  | None -> Panic

(** val get32 : bytes -> n -> n res **)

let get32 b off =
  match rd32 (drop off b) with
  | Some v -> Ok v
  | None -> Panic

(** val get64 : bytes -> n -> n res **)

let get64 b off =
  match rd64 (drop off b) with
  | Some v -> Ok v
  | None -> Panic

(** val beq : bytes -> bytes -> bool **)

let rec beq a b =
  match a with
  | [] -> (match b with
           | [] -> true
           | _ :: _ -> false)
  | x :: a' ->
    (match b with
     | [] -> false
     | y :: b' -> (&&) (N.eqb x y) (beq a' b'))

type atags = bytes list list

(** val sumN : n list -> n **)

let rec sumN = function
| [] -> N0
| x :: r -> N.add x (sumN r)

(** val enc_str : bytes -> bytes **)

let enc_str s =
  app (le16 (len s)) s

(** val str_size : bytes -> n **)

let str_size s =
  N.add (Npos (XO XH)) (len s)

(** val enc_tag : bytes list -> bytes **)

let enc_tag t =
  app (le16 (len t)) (concat (map enc_str t))

(** val tag_size : bytes list -> n **)

let tag_size t =
  N.add (Npos (XO XH)) (sumN (map str_size t))

(** val offsets : n -> atags -> n list **)

let rec offsets base = function
| [] -> []
| t :: r -> base :: (offsets (N.add base (tag_size t)) r)

(** val tags_hdr : atags -> n **)

let tags_hdr ts =
  N.add (Npos (XO (XO XH))) (N.mul (Npos (XO XH)) (len ts))

(** val tags_size : atags -> n **)

let tags_size ts =
  N.add (tags_hdr ts) (sumN (map tag_size ts))

(** val enc_tags : atags -> bytes **)

let enc_tags ts =
  app (le16 (tags_size ts))
    (app (le16 (len ts))
      (app (concat (map le16 (offsets (tags_hdr ts) ts)))
        (concat (map enc_tag ts))))

(** val fits_tagsb : atags -> bool **)

let fits_tagsb ts =
  N.ltb (tags_size ts) (Npos (XO (XO (XO (XO (XO (XO (XO (XO (XO (XO (XO (XO
    (XO (XO (XO (XO XH)))))))))))))))))

type aevent = { e_id : bytes; e_pk : bytes; e_sig : bytes; e_kind : n;
                e_created : n; e_tags : atags; e_content : bytes }

(** val event_size : aevent -> n **)

let event_size e =
  N.add
    (N.add
      (N.add (Npos (XO (XO (XO (XO (XI (XO (XO XH))))))))
        (tags_size e.e_tags)) (Npos (XO (XO XH)))) (len e.e_content)

(** val enc_event : aevent -> bytes **)

let enc_event e =
  app (le32 (event_size e))
    (app (le16 e.e_kind)
      (app (N0 :: (N0 :: []))
        (app (le64 e.e_created)
          (app e.e_id
            (app e.e_pk
              (app e.e_sig
                (app (enc_tags e.e_tags)
                  (app (le32 (len e.e_content)) e.e_content))))))))

(** val wf_aeventb : aevent -> bool **)

let wf_aeventb e =
  (&&)
    ((&&)
      ((&&)
        ((&&) (N.eqb (len e.e_id) (Npos (XO (XO (XO (XO (XO XH)))))))
          (N.eqb (len e.e_pk) (Npos (XO (XO (XO (XO (XO XH))))))))
        (N.eqb (len e.e_sig) (Npos (XO (XO (XO (XO (XO (XO XH)))))))))
      (N.ltb e.e_kind (Npos (XO (XO (XO (XO (XO (XO (XO (XO (XO (XO (XO (XO
        (XO (XO (XO (XO XH)))))))))))))))))))
    (N.ltb e.e_created (Npos (XO (XO (XO (XO (XO (XO (XO (XO (XO (XO (XO (XO
      (XO (XO (XO (XO (XO (XO (XO (XO (XO (XO (XO (XO (XO (XO (XO (XO (XO (XO
      (XO (XO (XO (XO (XO (XO (XO (XO (XO (XO (XO (XO (XO (XO (XO (XO (XO (XO
      (XO (XO (XO (XO (XO (XO (XO (XO (XO (XO (XO (XO (XO (XO (XO (XO
      XH))))))))))))))))))))))))))))))))))))))))))))))))))))))))))))))))))

(** val fits_eventb : aevent -> bool **)

let fits_eventb e =
  (&&) (fits_tagsb e.e_tags)
    (N.ltb (event_size e) (Npos (XO (XO (XO (XO (XO (XO (XO (XO (XO (XO (XO
      (XO (XO (XO (XO (XO (XO (XO (XO (XO (XO (XO (XO (XO (XO (XO (XO (XO (XO
      (XO (XO (XO XH))))))))))))))))))))))))))))))))))

type afilter = { f_ids : bytes list; f_authors : bytes list;
                 f_kinds : n list; f_tags : atags; f_since : n; f_until : 
                 n; f_limit : n }

(** val filter_size : afilter -> n **)

let filter_size f =
  N.add
    (N.add
      (N.add
        (N.add (Npos (XO (XO (XO (XO (XO XH))))))
          (N.mul (Npos (XO (XO (XO (XO (XO XH)))))) (len f.f_ids)))
        (N.mul (Npos (XO (XO (XO (XO (XO XH)))))) (len f.f_authors)))
      (N.mul (Npos (XO XH)) (len f.f_kinds))) (tags_size f.f_tags)

(** val enc_filter : afilter -> bytes **)

let enc_filter f =
  app (le32 (filter_size f))
    (app (le16 (len f.f_ids))
      (app (le16 (len f.f_authors))
        (app (le16 (len f.f_kinds))
          (app (N0 :: (N0 :: []))
            (app (le32 f.f_limit)
              (app (le64 f.f_since)
                (app (le64 f.f_until)
                  (app (concat f.f_ids)
                    (app (concat f.f_authors)
                      (app (concat (map le16 f.f_kinds)) (enc_tags f.f_tags)))))))))))

(** val wf_afilterb : afilter -> bool **)

let wf_afilterb f =
  (&&)
    ((&&)
      ((&&)
        ((&&)
          ((&&)
            (forallb (fun i ->
              N.eqb (len i) (Npos (XO (XO (XO (XO (XO XH))))))) f.f_ids)
            (forallb (fun a ->
              N.eqb (len a) (Npos (XO (XO (XO (XO (XO XH))))))) f.f_authors))
          (forallb (fun k ->
            N.ltb k (Npos (XO (XO (XO (XO (XO (XO (XO (XO (XO (XO (XO (XO (XO
              (XO (XO (XO XH)))))))))))))))))) f.f_kinds))
        (N.ltb f.f_since (Npos (XO (XO (XO (XO (XO (XO (XO (XO (XO (XO (XO
          (XO (XO (XO (XO (XO (XO (XO (XO (XO (XO (XO (XO (XO (XO (XO (XO (XO
          (XO (XO (XO (XO (XO (XO (XO (XO (XO (XO (XO (XO (XO (XO (XO (XO (XO
          (XO (XO (XO (XO (XO (XO (XO (XO (XO (XO (XO (XO (XO (XO (XO (XO (XO
          (XO (XO
          XH)))))))))))))))))))))))))))))))))))))))))))))))))))))))))))))))))))
      (N.ltb f.f_until (Npos (XO (XO (XO (XO (XO (XO (XO (XO (XO (XO (XO (XO
        (XO (XO (XO (XO (XO (XO (XO (XO (XO (XO (XO (XO (XO (XO (XO (XO (XO
        (XO (XO (XO (XO (XO (XO (XO (XO (XO (XO (XO (XO (XO (XO (XO (XO (XO
        (XO (XO (XO (XO (XO (XO (XO (XO (XO (XO (XO (XO (XO (XO (XO (XO (XO
        (XO
        XH)))))))))))))))))))))))))))))))))))))))))))))))))))))))))))))))))))
    (N.ltb f.f_limit (Npos (XO (XO (XO (XO (XO (XO (XO (XO (XO (XO (XO (XO
      (XO (XO (XO (XO (XO (XO (XO (XO (XO (XO (XO (XO (XO (XO (XO (XO (XO (XO
      (XO (XO XH))))))))))))))))))))))))))))))))))

(** val fits_filterb : afilter -> bool **)

let fits_filterb f =
  (&&)
    ((&&)
      ((&&)
        ((&&)
          (N.ltb (len f.f_ids) (Npos (XO (XO (XO (XO (XO (XO (XO (XO (XO (XO
            (XO (XO (XO (XO (XO (XO XH))))))))))))))))))
          (N.ltb (len f.f_authors) (Npos (XO (XO (XO (XO (XO (XO (XO (XO (XO
            (XO (XO (XO (XO (XO (XO (XO XH)))))))))))))))))))
        (N.ltb (len f.f_kinds) (Npos (XO (XO (XO (XO (XO (XO (XO (XO (XO (XO
          (XO (XO (XO (XO (XO (XO XH))))))))))))))))))) (fits_tagsb f.f_tags))
    (N.ltb (filter_size f) (Npos (XO (XO (XO (XO (XO (XO (XO (XO (XO (XO (XO
      (XO (XO (XO (XO (XO (XO (XO (XO (XO (XO (XO (XO (XO (XO (XO (XO (XO (XO
      (XO (XO (XO XH))))))))))))))))))))))))))))))))))

(** val tags_count : bytes -> n res **)

let tags_count t =
  get16 t (Npos (XO XH))

(** val tags_delineate : bytes -> bytes res **)

let tags_delineate input =
  if N.ltb (len input) (Npos (XO XH))
  then Err EEnd
  else bind (get16 input N0) (fun l ->
         if N.ltb (len input) l then Err EEnd else Ok (take l input))

(** val skip_strings : bytes -> n -> nat -> n -> n option res **)

let rec skip_strings t endp k offset =
  match k with
  | O -> Ok (Some offset)
  | S k' ->
    bind (get16 t offset) (fun l ->
      let offset' = N.add (N.add offset (Npos (XO XH))) l in
      if N.ltb endp offset' then Ok None else skip_strings t endp k' offset')

(** val tags_get_string : bytes -> n -> n -> bytes option res **)

let tags_get_string t tag string =
  bind (tags_count t) (fun c ->
    if N.leb c tag
    then Ok None
    else bind
           (get16 t (N.add (Npos (XO (XO XH))) (N.mul tag (Npos (XO XH)))))
           (fun offset ->
           bind (get16 t offset) (fun count ->
             let offset0 = N.add offset (Npos (XO XH)) in
             if N.leb count string
             then Ok None
             else bind (get16 t N0) (fun endp ->
                    bind (skip_strings t endp (N.to_nat string) offset0)
                      (fun o ->
                      match o with
                      | Some offset1 ->
                        bind (get16 t offset1) (fun l ->
                          let offset2 = N.add offset1 (Npos (XO XH)) in
                          if N.ltb endp (N.add offset2 l)
                          then Ok None
                          else bind (slice t offset2 l) (fun s -> Ok (Some s)))
                      | None -> Ok None)))))

(** val tag_start : bytes -> n -> (n * n) res **)

let tag_start t i =
  bind (get16 t (N.add (Npos (XO (XO XH))) (N.mul i (Npos (XO XH)))))
    (fun off ->
    bind (get16 t off) (fun c -> Ok (c, (N.add off (Npos (XO XH))))))

(** val str_at : bytes -> n -> (bytes * n) res **)

let str_at t cur =
  bind (get16 t cur) (fun l ->
    bind (slice t (N.add cur (Npos (XO XH))) l) (fun s -> Ok (s,
      (N.add (N.add cur (Npos (XO XH))) l))))

(** val strs_from : bytes -> nat -> n -> bytes list res **)

let rec strs_from t k cur =
  match k with
  | O -> Ok []
  | S k' ->
    bind (str_at t cur) (fun pat ->
      let (s, cur') = pat in bind (strs_from t k' cur') (fun r -> Ok (s :: r)))

(** val tags_from : bytes -> nat -> n -> atags res **)

let rec tags_from t k i =
  match k with
  | O -> Ok []
  | S k' ->
    bind (tag_start t i) (fun pat ->
      let (c, cur) = pat in
      bind (strs_from t (N.to_nat c) cur) (fun ss ->
        bind (tags_from t k' (N.add i (Npos XH))) (fun r -> Ok (ss :: r))))

(** val tags_iter_all : bytes -> atags res **)

let tags_iter_all t =
  bind (tags_count t) (fun c -> tags_from t (N.to_nat c) N0)

(** val tag_first : bytes -> n -> ((bytes * n) * n) option res **)

let tag_first t i =
  bind (tag_start t i) (fun pat ->
    let (c, cur) = pat in
    if N.eqb c N0
    then Ok None
    else bind (str_at t cur) (fun pat0 ->
           let (s, cur') = pat0 in Ok (Some ((s, c), cur'))))

(** val tags_matches_from :
    bytes -> nat -> n -> bytes -> bytes -> bool res **)

let rec tags_matches_from t k i letter value =
  match k with
  | O -> Ok false
  | S k' ->
    bind (tag_first t i) (fun o ->
      match o with
      | Some p ->
        let (p0, cur1) = p in
        let (s0, c) = p0 in
        if beq s0 letter
        then if N.ltb c (Npos (XO XH))
             then tags_matches_from t k' (N.add i (Npos XH)) letter value
             else bind (str_at t cur1) (fun pat ->
                    let (s1, _) = pat in
                    if beq s1 value
                    then Ok true
                    else tags_matches_from t k' (N.add i (Npos XH)) letter
                           value)
        else tags_matches_from t k' (N.add i (Npos XH)) letter value
      | None -> tags_matches_from t k' (N.add i (Npos XH)) letter value)

(** val tags_matches : bytes -> bytes -> bytes -> bool res **)

let tags_matches t letter value =
  bind (tags_count t) (fun c ->
    tags_matches_from t (N.to_nat c) N0 letter value)

(** val tags_get_value_from :
    bytes -> nat -> n -> bytes -> bytes option res **)

let rec tags_get_value_from t k i key =
  match k with
  | O -> Ok None
  | S k' ->
    bind (tags_get_string t i N0) (fun o ->
      match o with
      | Some thing ->
        if beq thing key
        then tags_get_string t i (Npos XH)
        else tags_get_value_from t k' (N.add i (Npos XH)) key
      | None -> tags_get_value_from t k' (N.add i (Npos XH)) key)

(** val tags_get_value : bytes -> bytes -> bytes option res **)

let tags_get_value t key =
  bind (tags_count t) (fun c -> tags_get_value_from t (N.to_nat c) N0 key)

(** val ev_kind : bytes -> n res **)

let ev_kind e =
  get16 e (Npos (XO (XO XH)))

(** val ev_created : bytes -> n res **)

let ev_created e =
  get64 e (Npos (XO (XO (XO XH))))

(** val ev_id : bytes -> bytes res **)

let ev_id e =
  slice e (Npos (XO (XO (XO (XO XH))))) (Npos (XO (XO (XO (XO (XO XH))))))

(** val ev_pk : bytes -> bytes res **)

let ev_pk e =
  slice e (Npos (XO (XO (XO (XO (XI XH)))))) (Npos (XO (XO (XO (XO (XO
    XH))))))

(** val ev_sig : bytes -> bytes res **)

let ev_sig e =
  slice e (Npos (XO (XO (XO (XO (XI (XO XH))))))) (Npos (XO (XO (XO (XO (XO
    (XO XH)))))))

(** val ev_tags : bytes -> bytes res **)

let ev_tags e =
  if N.ltb (len e) (Npos (XO (XO (XO (XO (XI (XO (XO XH))))))))
  then Panic
  else tags_delineate (drop (Npos (XO (XO (XO (XO (XI (XO (XO XH)))))))) e)

(** val ev_content : bytes -> bytes res **)

let ev_content e =
  bind (get16 e (Npos (XO (XO (XO (XO (XI (XO (XO XH))))))))) (fun t ->
    bind (get32 e (N.add (Npos (XO (XO (XO (XO (XI (XO (XO XH)))))))) t))
      (fun c ->
      slice e
        (N.add (N.add (Npos (XO (XO (XO (XO (XI (XO (XO XH)))))))) t) (Npos
          (XO (XO XH)))) c))

(** val ev_delineate : bytes -> bytes res **)

let ev_delineate input =
  if N.ltb (len input) (Npos (XO (XO (XO (XI (XI (XO (XO XH))))))))
  then Err EEnd
  else bind (get32 input N0) (fun l ->
         if N.ltb (len input) l then Err EEnd else Ok (take l input))

(** val fl_num_ids : bytes -> n res **)

let fl_num_ids f =
  get16 f (Npos (XO (XO XH)))

(** val fl_num_authors : bytes -> n res **)

let fl_num_authors f =
  get16 f (Npos (XO (XI XH)))

(** val fl_num_kinds : bytes -> n res **)

let fl_num_kinds f =
  get16 f (Npos (XO (XO (XO XH))))

(** val fl_limit : bytes -> n res **)

let fl_limit f =
  get32 f (Npos (XO (XO (XI XH))))

(** val fl_since : bytes -> n res **)

let fl_since f =
  get64 f (Npos (XO (XO (XO (XO XH)))))

(** val fl_until : bytes -> n res **)

let fl_until f =
  get64 f (Npos (XO (XO (XO (XI XH)))))

(** val fl_items32 : bytes -> nat -> n -> bytes list res **)

let rec fl_items32 f k off =
  match k with
  | O -> Ok []
  | S k' ->
    if N.ltb (len f) (N.add off (Npos (XO (XO (XO (XO (XO XH)))))))
    then Ok []
    else bind (slice f off (Npos (XO (XO (XO (XO (XO XH))))))) (fun s ->
           bind
             (fl_items32 f k' (N.add off (Npos (XO (XO (XO (XO (XO XH))))))))
             (fun r -> Ok (s :: r)))

(** val fl_items16 : bytes -> nat -> n -> n list res **)

let rec fl_items16 f k off =
  match k with
  | O -> Ok []
  | S k' ->
    if N.ltb (len f) (N.add off (Npos (XO XH)))
    then Ok []
    else bind (get16 f off) (fun s ->
           bind (fl_items16 f k' (N.add off (Npos (XO XH)))) (fun r -> Ok
             (s :: r)))

(** val fl_ids : bytes -> bytes list res **)

let fl_ids f =
  bind (fl_num_ids f) (fun n0 ->
    fl_items32 f (N.to_nat n0) (Npos (XO (XO (XO (XO (XO XH)))))))

(** val fl_authors : bytes -> bytes list res **)

let fl_authors f =
  bind (fl_num_ids f) (fun ni ->
    bind (fl_num_authors f) (fun n0 ->
      fl_items32 f (N.to_nat n0)
        (N.add (Npos (XO (XO (XO (XO (XO XH))))))
          (N.mul ni (Npos (XO (XO (XO (XO (XO XH))))))))))

(** val fl_kinds : bytes -> n list res **)

let fl_kinds f =
  bind (fl_num_ids f) (fun ni ->
    bind (fl_num_authors f) (fun na ->
      bind (fl_num_kinds f) (fun n0 ->
        fl_items16 f (N.to_nat n0)
          (N.add
            (N.add (Npos (XO (XO (XO (XO (XO XH))))))
              (N.mul ni (Npos (XO (XO (XO (XO (XO XH))))))))
            (N.mul na (Npos (XO (XO (XO (XO (XO XH)))))))))))

(** val fl_tags : bytes -> bytes res **)

let fl_tags f =
  bind (fl_num_ids f) (fun ni ->
    bind (fl_num_authors f) (fun na ->
      bind (fl_num_kinds f) (fun nk ->
        let start =
          N.add
            (N.add
              (N.add (Npos (XO (XO (XO (XO (XO XH))))))
                (N.mul ni (Npos (XO (XO (XO (XO (XO XH))))))))
              (N.mul na (Npos (XO (XO (XO (XO (XO XH))))))))
            (N.mul nk (Npos (XO XH)))
        in
        if N.ltb (len f) start then Panic else tags_delineate (drop start f))))

(** val match_values :
    nat -> bytes -> bytes -> n -> n -> bytes -> bool res **)

let rec match_values fuel ft et i j letter =
  match fuel with
  | O -> OutOfFuel
  | S fuel' ->
    bind (tags_get_string ft i j) (fun o ->
      match o with
      | Some value ->
        bind (tags_matches et letter value) (fun m ->
          if m
          then Ok true
          else match_values fuel' ft et i (N.add j (Npos XH)) letter)
      | None -> Ok false)

(** val match_constraints : nat -> bytes -> bytes -> n -> bool res **)

let rec match_constraints fuel ft et i =
  match fuel with
  | O -> OutOfFuel
  | S fuel' ->
    bind (tags_get_string ft i N0) (fun o ->
      match o with
      | Some letter ->
        bind (match_values (S (N.to_nat (len ft))) ft et i (Npos XH) letter)
          (fun found ->
          if found
          then match_constraints fuel' ft et (N.add i (Npos XH))
          else Ok false)
      | None -> Ok true)

(** val event_matches : bytes -> bytes -> bool res **)

let event_matches f e =
  bind (fl_num_ids f) (fun ni ->
    bind (if N.eqb ni N0 then Ok [] else fl_ids f) (fun ids ->
      bind (match ids with
            | [] -> Ok []
            | _ :: _ -> ev_id e) (fun eid ->
        if (&&) (negb (N.eqb ni N0)) (negb (existsb (fun i -> beq i eid) ids))
        then Ok false
        else bind (fl_num_authors f) (fun na ->
               bind (if N.eqb na N0 then Ok [] else fl_authors f) (fun aus ->
                 bind (match aus with
                       | [] -> Ok []
                       | _ :: _ -> ev_pk e) (fun epk ->
                   if (&&) (negb (N.eqb na N0))
                        (negb (existsb (fun a -> beq a epk) aus))
                   then Ok false
                   else bind (fl_num_kinds f) (fun nk ->
                          bind (if N.eqb nk N0 then Ok [] else fl_kinds f)
                            (fun ks ->
                            bind
                              (match ks with
                               | [] -> Ok N0
                               | _ :: _ -> ev_kind e) (fun ek ->
                              if (&&) (negb (N.eqb nk N0))
                                   (negb (existsb (fun k -> N.eqb k ek) ks))
                              then Ok false
                              else bind (ev_created e) (fun ec ->
                                     bind (fl_since f) (fun since ->
                                       if N.ltb ec since
                                       then Ok false
                                       else bind (ev_created e) (fun ec0 ->
                                              bind (fl_until f) (fun until ->
                                                if N.ltb until ec0
                                                then Ok false
                                                else bind (fl_tags f)
                                                       (fun ft ->
                                                       bind (tags_count ft)
                                                         (fun fc ->
                                                         if N.eqb fc N0
                                                         then Ok true
                                                         else bind
                                                                (ev_tags e)
                                                                (fun et ->
                                                                bind
                                                                  (tags_count
                                                                    et)
                                                                  (fun etc ->
                                                                  if 
                                                                    N.eqb etc
                                                                    N0
                                                                  then 
                                                                    Ok false
                                                                  else 
                                                                    match_constraints
                                                                    (S
                                                                    (N.to_nat
                                                                    (len ft)))
                                                                    ft et N0)))))))))))))))))

(** val mem_bytes : bytes -> bytes list -> bool **)

let mem_bytes x l =
  existsb (fun y -> beq y x) l

(** val mem_N : n -> n list -> bool **)

let mem_N x l =
  existsb (fun y -> N.eqb y x) l

(** val tag_hits : bytes -> bytes list -> bytes list -> bool **)

let tag_hits name vals = function
| [] -> false
| n0 :: l ->
  (match l with
   | [] -> false
   | v :: _ -> (&&) (beq n0 name) (mem_bytes v vals))

(** val constraint_ok : atags -> bytes list -> bool **)

let constraint_ok etags = function
| [] -> true
| name :: vals -> existsb (tag_hits name vals) etags

(** val spec_matches : afilter -> aevent -> bool **)

let spec_matches f e =
  (&&)
    ((&&)
      ((&&)
        ((&&)
          ((&&)
            (match f.f_ids with
             | [] -> true
             | b :: l0 -> mem_bytes e.e_id (b :: l0))
            (match f.f_authors with
             | [] -> true
             | b :: l0 -> mem_bytes e.e_pk (b :: l0)))
          (match f.f_kinds with
           | [] -> true
           | n0 :: l0 -> mem_N e.e_kind (n0 :: l0)))
        (N.leb f.f_since e.e_created)) (N.leb e.e_created f.f_until))
    (forallb (constraint_ok e.e_tags) f.f_tags)

(** val named_constraintsb : afilter -> bool **)

let named_constraintsb f =
  forallb (fun c -> match c with
                    | [] -> false
                    | _ :: _ -> true) f.f_tags
