
val negb : bool -> bool

type nat =
| O
| S of nat

val fst : ('a1 * 'a2) -> 'a1

val snd : ('a1 * 'a2) -> 'a2

val length : 'a1 list -> nat

val app : 'a1 list -> 'a1 list -> 'a1 list

type comparison =
| Eq
| Lt
| Gt

val add : nat -> nat -> nat

val concat : 'a1 list list -> 'a1 list

val map : ('a1 -> 'a2) -> 'a1 list -> 'a2 list

val existsb : ('a1 -> bool) -> 'a1 list -> bool

val forallb : ('a1 -> bool) -> 'a1 list -> bool

val firstn : nat -> 'a1 list -> 'a1 list

val skipn : nat -> 'a1 list -> 'a1 list

type positive =
| XI of positive
| XO of positive
| XH

type n =
| N0
| Npos of positive

module Pos :
 sig
  type mask =
  | IsNul
  | IsPos of positive
  | IsNeg
 end

module Coq_Pos :
 sig
  val succ : positive -> positive

  val add : positive -> positive -> positive

  val add_carry : positive -> positive -> positive

  val pred_double : positive -> positive

  type mask = Pos.mask =
  | IsNul
  | IsPos of positive
  | IsNeg

  val succ_double_mask : mask -> mask

  val double_mask : mask -> mask

  val double_pred_mask : positive -> mask

  val sub_mask : positive -> positive -> mask

  val sub_mask_carry : positive -> positive -> mask

  val mul : positive -> positive -> positive

  val compare_cont : comparison -> positive -> positive -> comparison

  val compare : positive -> positive -> comparison

  val eqb : positive -> positive -> bool

  val iter_op : ('a1 -> 'a1 -> 'a1) -> positive -> 'a1 -> 'a1

  val to_nat : positive -> nat

  val of_succ_nat : nat -> positive
 end

module N :
 sig
  val succ_double : n -> n

  val double : n -> n

  val add : n -> n -> n

  val sub : n -> n -> n

  val mul : n -> n -> n

  val compare : n -> n -> comparison

  val eqb : n -> n -> bool

  val leb : n -> n -> bool

  val ltb : n -> n -> bool

  val pos_div_eucl : positive -> n -> n * n

  val div_eucl : n -> n -> n * n

  val div : n -> n -> n

  val modulo : n -> n -> n

  val to_nat : n -> nat

  val of_nat : nat -> n
 end

type bytes = n list

type err =
| EBuf
| EEnd
| EHex
| EUtf8
| EJson
| ERange
| EAddr
| EDup
| EDeleted
| EReplaced
| EInvalidDelete
| EScraper
| EWrongKind
| EKeySize
| EOther

type 'a res =
| Ok of 'a
| Err of err
| Panic
| OutOfFuel

val bind : 'a1 res -> ('a1 -> 'a2 res) -> 'a2 res

val len : 'a1 list -> n

val drop : n -> 'a1 list -> 'a1 list

val take : n -> 'a1 list -> 'a1 list

val slice : bytes -> n -> n -> bytes res

val le16 : n -> bytes

val le32 : n -> bytes

val le64 : n -> bytes

val rd16 : bytes -> n option

val rd32 : bytes -> n option

val rd64 : bytes -> n option

val get16 : bytes -> n -> n res

val get32 : bytes -> n -> n res

val get64 : bytes -> n -> n res

val beq : bytes -> bytes -> bool

type atags = bytes list list

val sumN : n list -> n

val enc_str : bytes -> bytes

val str_size : bytes -> n

val enc_tag : bytes list -> bytes

val tag_size : bytes list -> n

val offsets : n -> atags -> n list

val tags_hdr : atags -> n

val tags_size : atags -> n

val enc_tags : atags -> bytes

val fits_tagsb : atags -> bool

type aevent = { e_id : bytes; e_pk : bytes; e_sig : bytes; e_kind : n;
                e_created : n; e_tags : atags; e_content : bytes }

val event_size : aevent -> n

val enc_event : aevent -> bytes

val wf_aeventb : aevent -> bool

val fits_eventb : aevent -> bool

type afilter = { f_ids : bytes list; f_authors : bytes list;
                 f_kinds : n list; f_tags : atags; f_since : n; f_until : 
                 n; f_limit : n }

val filter_size : afilter -> n

val enc_filter : afilter -> bytes

val wf_afilterb : afilter -> bool

val fits_filterb : afilter -> bool

val tags_count : bytes -> n res

val tags_delineate : bytes -> bytes res

val skip_strings : bytes -> n -> nat -> n -> n option res

val tags_get_string : bytes -> n -> n -> bytes option res

val tag_start : bytes -> n -> (n * n) res

val str_at : bytes -> n -> (bytes * n) res

val strs_from : bytes -> nat -> n -> bytes list res

val tags_from : bytes -> nat -> n -> atags res

val tags_iter_all : bytes -> atags res

val tag_first : bytes -> n -> ((bytes * n) * n) option res

val tags_matches_from : bytes -> nat -> n -> bytes -> bytes -> bool res

val tags_matches : bytes -> bytes -> bytes -> bool res

val tags_get_value_from : bytes -> nat -> n -> bytes -> bytes option res

val tags_get_value : bytes -> bytes -> bytes option res

val ev_kind : bytes -> n res

val ev_created : bytes -> n res

val ev_id : bytes -> bytes res

val ev_pk : bytes -> bytes res

val ev_sig : bytes -> bytes res

val ev_tags : bytes -> bytes res

val ev_content : bytes -> bytes res

val ev_delineate : bytes -> bytes res

val fl_num_ids : bytes -> n res

val fl_num_authors : bytes -> n res

val fl_num_kinds : bytes -> n res

val fl_limit : bytes -> n res

val fl_since : bytes -> n res

val fl_until : bytes -> n res

val fl_items32 : bytes -> nat -> n -> bytes list res

val fl_items16 : bytes -> nat -> n -> n list res

val fl_ids : bytes -> bytes list res

val fl_authors : bytes -> bytes list res

val fl_kinds : bytes -> n list res

val fl_tags : bytes -> bytes res

val match_values : nat -> bytes -> bytes -> n -> n -> bytes -> bool res

val match_constraints : nat -> bytes -> bytes -> n -> bool res

val event_matches : bytes -> bytes -> bool res

val mem_bytes : bytes -> bytes list -> bool

val mem_N : n -> n list -> bool

val tag_hits : bytes -> bytes list -> bytes list -> bool

val constraint_ok : atags -> bytes list -> bool

val spec_matches : afilter -> aevent -> bool

val named_constraintsb : afilter -> bool
