(* Props_C06.v — property C06: the filter/event match predicate equals NIP-01 semantics.
   Only the property statements live here; proofs are in theories/MatchProofs.v. *)
From Pocket Require Import Access MatchSpec MatchProofs.

(* For every well-formed filter (each tag constraint has a name) and every well-formed event,
   of any sizes that fit the binary length fields, the code's match predicate run on the two
   *binary* values returns exactly the specification's answer - never an error, panic or
   non-termination. *)
Theorem C06_matches_spec :
  forall (f : afilter) (e : aevent),
    wf_afilter f -> fits_filter f -> named_constraints f ->
    wf_aevent e -> fits_event e ->
    event_matches (enc_filter f) (enc_event e) = Ok (spec_matches f e).
Proof. exact event_matches_spec. Qed.

Check C06_matches_spec :
  forall (f : afilter) (e : aevent),
    wf_afilter f -> fits_filter f -> named_constraints f ->
    wf_aevent e -> fits_event e ->
    event_matches (enc_filter f) (enc_event e) = Ok (spec_matches f e).
Print Assumptions C06_matches_spec.

(* Non-vacuity: a concrete filter/event pair with two constraints (one multi-valued), repeated
   tag names and a one-string tag satisfies all hypotheses, and the predicate is true on it. *)
Definition ex_id : bytes := repeat 7 32.
Definition ex_pk : bytes := repeat 9 32.
Definition ex_event : aevent :=
  mkE ex_id ex_pk (repeat 1 64) 1 1000
      [[ [101]; [1;2;3] ]; [ [112] ]; [ [101]; [4] ; [5] ]; [ [116]; [] ]] [104; 105].
Definition ex_filter : afilter :=
  mkF [repeat 8 32; ex_id] [ex_pk] [0; 1] [[ [101]; [9]; [4] ]; [ [116]; [] ]] 1000 1000 10.

Example C06_nonvacuous :
  wf_afilterb ex_filter = true /\ fits_filterb ex_filter = true /\ named_constraintsb ex_filter = true /\
  wf_aeventb ex_event = true /\ fits_eventb ex_event = true /\
  event_matches (enc_filter ex_filter) (enc_event ex_event) = Ok true /\
  spec_matches ex_filter ex_event = true.
Proof. vm_compute. repeat split. Qed.

(* Boundary surfaced by the proof (reported, not a violation): a *nameless* constraint (a
   filter tag with zero strings, constructible only through from_parts) ends the code's
   constraint loop, so later constraints are ignored.  [named_constraints] excludes it. *)
Example C06_nameless_boundary :
  let f := mkF [] [] [] [[]; [[101]; [9]]] 0 18446744073709551615 4294967295 in
  event_matches (enc_filter f) (enc_event ex_event) = Ok true /\ named_constraintsb f = false.
Proof. vm_compute. split; reflexivity. Qed.
