(* Props_C19.v — property C19: constructors yield faithful well-formed values or an error,
   never truncation.  Statements only; proofs in theories/CtorProofs.v (which rest on the
   accessor theorems of AccessProofs.v).  Sizes are unbounded N.
   This file covers the from_parts / Owned*::new constructors; the JSON constructors are
   covered by the C01/C03/C07 developments. *)
From Pocket Require Import Ctor Access CtorProofs.

Theorem C19_tags_faithful : forall ts out,
  fits_tags ts -> tags_size ts <= len out ->
  exists b, tags_from_parts ts out = Ok b /\
            take (tags_size ts) b = enc_tags ts /\ drop (tags_size ts) b = drop (tags_size ts) out /\
            len b = len out /\ tags_iter_all (enc_tags ts) = Ok ts.
Proof. exact tags_ctor_faithful. Qed.
Check C19_tags_faithful : forall ts out,
  fits_tags ts -> tags_size ts <= len out ->
  exists b, tags_from_parts ts out = Ok b /\
            take (tags_size ts) b = enc_tags ts /\ drop (tags_size ts) b = drop (tags_size ts) out /\
            len b = len out /\ tags_iter_all (enc_tags ts) = Ok ts.
Print Assumptions C19_tags_faithful.

Theorem C19_tags_too_big_refused : forall ts out, ~ fits_tags ts -> tags_from_parts ts out = Err ERange.
Proof. exact tags_ctor_too_big. Qed.
Check C19_tags_too_big_refused : forall ts out, ~ fits_tags ts -> tags_from_parts ts out = Err ERange.
Print Assumptions C19_tags_too_big_refused.

Theorem C19_tags_small_buffer_err : forall ts out, fits_tags ts -> len out < tags_size ts -> tags_from_parts ts out = Err EBuf.
Proof. exact tags_ctor_small_buffer. Qed.
Check C19_tags_small_buffer_err : forall ts out, fits_tags ts -> len out < tags_size ts -> tags_from_parts ts out = Err EBuf.
Print Assumptions C19_tags_small_buffer_err.

Theorem C19_event_faithful : forall e out,
  wf_aevent e -> fits_event e -> event_size e <= len out ->
  exists b, event_from_parts e out = Ok b /\
            take (event_size e) b = enc_event e /\ drop (event_size e) b = drop (event_size e) out /\
            len b = len out /\ ev_delineate b = Ok (enc_event e) /\ event_accessors_ok e (enc_event e).
Proof. exact event_ctor_faithful. Qed.
Check C19_event_faithful : forall e out,
  wf_aevent e -> fits_event e -> event_size e <= len out ->
  exists b, event_from_parts e out = Ok b /\
            take (event_size e) b = enc_event e /\ drop (event_size e) b = drop (event_size e) out /\
            len b = len out /\ ev_delineate b = Ok (enc_event e) /\ event_accessors_ok e (enc_event e).
Print Assumptions C19_event_faithful.

Theorem C19_event_too_big_refused : forall e out, 4294967296 <= event_size e -> event_from_parts e out = Err ERange.
Proof. exact event_ctor_too_big. Qed.
Check C19_event_too_big_refused : forall e out, 4294967296 <= event_size e -> event_from_parts e out = Err ERange.
Print Assumptions C19_event_too_big_refused.

Theorem C19_event_small_buffer_err : forall e out,
  event_size e < 4294967296 -> len out < event_size e -> event_from_parts e out = Err EBuf.
Proof. exact event_ctor_small_buffer. Qed.
Check C19_event_small_buffer_err : forall e out,
  event_size e < 4294967296 -> len out < event_size e -> event_from_parts e out = Err EBuf.
Print Assumptions C19_event_small_buffer_err.

Theorem C19_filter_faithful : forall f out,
  wf_afilter f -> fits_filter f -> filter_size f <= len out ->
  exists b, filter_from_parts f out = Ok b /\
            take (filter_size f) b = enc_filter f /\ drop (filter_size f) b = drop (filter_size f) out /\
            len b = len out /\ filter_accessors_ok f (enc_filter f).
Proof. exact filter_ctor_faithful. Qed.
Check C19_filter_faithful : forall f out,
  wf_afilter f -> fits_filter f -> filter_size f <= len out ->
  exists b, filter_from_parts f out = Ok b /\
            take (filter_size f) b = enc_filter f /\ drop (filter_size f) b = drop (filter_size f) out /\
            len b = len out /\ filter_accessors_ok f (enc_filter f).
Print Assumptions C19_filter_faithful.

Theorem C19_filter_too_big_refused : forall f out,
  fits_tags (f_tags f) -> ~ fits_filter f -> filter_from_parts f out = Err ERange.
Proof. exact filter_ctor_too_big. Qed.
Check C19_filter_too_big_refused : forall f out,
  fits_tags (f_tags f) -> ~ fits_filter f -> filter_from_parts f out = Err ERange.
Print Assumptions C19_filter_too_big_refused.

Theorem C19_filter_small_buffer_err : forall f out,
  fits_filter f -> len out < filter_size f -> filter_from_parts f out = Err EBuf.
Proof. exact filter_ctor_small_buffer. Qed.
Check C19_filter_small_buffer_err : forall f out,
  fits_filter f -> len out < filter_size f -> filter_from_parts f out = Err EBuf.
Print Assumptions C19_filter_small_buffer_err.

(* non-vacuity: a tag list right at the u16 boundary fits, one byte more does not *)
Example C19_boundary :
  fits_tagsb [[repeat 65 (N.to_nat 65525)]] = true /\ fits_tagsb [[repeat 65 (N.to_nat 65526)]] = false.
Proof. vm_compute. split; reflexivity. Qed.
