(* Props_C20.v — property C20: HyperLogLog sketches merge like sets; hex export/import is the
   identity; import never fails badly.  Statements only; proofs in theories/HllProofs.v.
   The floating-point estimator (never panics, empty = 0, 40% envelope) is NOT a theorem:
   it is checked on the implementation by the correspondence run (DESIGN.md C20, partial). *)
From Pocket Require Import Hll HllProofs.
From Coq Require Import Permutation.

Theorem C20_merge_comm : forall a b : regs, merge a b = merge b a.
Proof. exact merge_comm. Qed.
Check C20_merge_comm : forall a b : regs, merge a b = merge b a.
Print Assumptions C20_merge_comm.

Theorem C20_merge_assoc : forall a b c : regs, merge a (merge b c) = merge (merge a b) c.
Proof. exact merge_assoc. Qed.
Check C20_merge_assoc : forall a b c : regs, merge a (merge b c) = merge (merge a b) c.
Print Assumptions C20_merge_assoc.

Theorem C20_merge_idem : forall a : regs, merge a a = a.
Proof. exact merge_idem. Qed.
Check C20_merge_idem : forall a : regs, merge a a = a.
Print Assumptions C20_merge_idem.

(* add_element with an in-range offset is the pure update [add1]; out of range is an error *)
Theorem C20_add_is_add1 : forall r e, ok_elem e -> add_element r (fst e) (snd e) = Ok (add1 r e).
Proof. exact add_element_add1. Qed.
Check C20_add_is_add1 : forall r e, ok_elem e -> add_element r (fst e) (snd e) = Ok (add1 r e).
Print Assumptions C20_add_is_add1.

Theorem C20_add_offset_range : forall r input offset, 24 <= offset <-> add_element r input offset = Err ERange.
Proof. exact add_element_range. Qed.
Check C20_add_offset_range : forall r input offset, 24 <= offset <-> add_element r input offset = Err ERange.
Print Assumptions C20_add_offset_range.

Theorem C20_add_idem : forall r e, add1 (add1 r e) e = add1 r e.
Proof. exact add1_idem. Qed.
Check C20_add_idem : forall r e, add1 (add1 r e) e = add1 r e.
Print Assumptions C20_add_idem.

(* order independence, for whole insertion sequences *)
Theorem C20_add_order_independent : forall r es es', Permutation es es' -> sketch_from r es = sketch_from r es'.
Proof. exact sketch_perm. Qed.
Check C20_add_order_independent : forall r es es', Permutation es es' -> sketch_from r es = sketch_from r es'.
Print Assumptions C20_add_order_independent.

Theorem C20_sketch_union : forall A B, sketch (A ++ B) = merge (sketch A) (sketch B).
Proof. exact sketch_union. Qed.
Check C20_sketch_union : forall A B, sketch (A ++ B) = merge (sketch A) (sketch B).
Print Assumptions C20_sketch_union.

(* the u8 zero counter cannot overflow: rho <= 8*31+1 *)
Theorem C20_rho_fits_u8 : forall input offset, len input = 32 -> snd (elem_ir input offset) <= 249.
Proof. exact rho_fits_u8. Qed.
Check C20_rho_fits_u8 : forall input offset, len input = 32 -> snd (elem_ir input offset) <= 249.
Print Assumptions C20_rho_fits_u8.

Theorem C20_hex_roundtrip : forall r, wf_regs r -> wf_bytes r -> from_hex (to_hex r) = Ok r.
Proof. exact hex_roundtrip. Qed.
Check C20_hex_roundtrip : forall r, wf_regs r -> wf_bytes r -> from_hex (to_hex r) = Ok r.
Print Assumptions C20_hex_roundtrip.

(* import is total on arbitrary bytes (incl. >= 0x80) and yields 256 well-formed registers *)
Theorem C20_from_hex_total : forall s, from_hex s <> Panic /\ from_hex s <> OutOfFuel.
Proof. exact from_hex_total. Qed.
Check C20_from_hex_total : forall s, from_hex s <> Panic /\ from_hex s <> OutOfFuel.
Print Assumptions C20_from_hex_total.

Theorem C20_from_hex_wf : forall s r, from_hex s = Ok r -> wf_regs r /\ wf_bytes r.
Proof. exact from_hex_wf. Qed.
Check C20_from_hex_wf : forall s r, from_hex s = Ok r -> wf_regs r /\ wf_bytes r.
Print Assumptions C20_from_hex_wf.

(* non-vacuity: the all-zero key at offset 0 really reaches register value 249 *)
Example C20_rho_249 : add_element hll_new (repeat 0 32) 0 = Ok (249 :: repeat 0 255).
Proof. vm_compute. reflexivity. Qed.
