(* ADb.v — the ABSTRACT store: what a pocket-db Store is, stripped of indexes, offsets,
   transactions and byte layouts.  Short enough to read in minutes.  The property statements
   of C05, C09-C12, C16-C18 are about this file; Db.v (the model of the code) is related to it
   by the abstraction function of DbInv.v.

   State: the set of retrievable events, the ids marked deleted, the deletion time of each
   address marked deleted, and the extra tables. *)
From Pocket Require Export Keys MatchSpec Hex Db.

Record astate := mkA {
  live : list aevent;
  del_ids : list bytes;
  del_addrs : list (addr * N);
  a_extra : list (bytes * list (bytes * bytes)) }.

Definition a_init (names : list bytes) : astate := mkA [] [] [] (map (fun n => (n, [])) names).

Definition addr_eqb (a b : addr) : bool :=
  (a_kind a =? a_kind b) && beq (a_author a) (a_author b) && beq (a_d a) (a_d b).

(* the replaceable address of an event, if it has one *)
Definition addr_of (e : aevent) : option addr :=
  if is_replaceable (e_kind e) then Some (mkAddr (e_kind e) (e_pk e) [])
  else if is_param_replaceable (e_kind e) then
    match d_of e with Some d => Some (mkAddr (e_kind e) (e_pk e) d) | None => None end
  else None.
Definition at_addr (a : addr) (e : aevent) : bool :=
  match addr_of e with Some b => addr_eqb a b | None => false end.

Definition has_id (id : bytes) (l : list aevent) : bool := existsb (fun e => beq (e_id e) id) l.
Definition find_id (id : bytes) (l : list aevent) : option aevent := find (fun e => beq (e_id e) id) l.
Definition remove_id (id : bytes) (l : list aevent) : list aevent := filter (fun e => negb (beq (e_id e) id)) l.

Fixpoint del_time (l : list (addr * N)) (a : addr) : option N :=
  match l with
  | [] => None
  | (b, t) :: r => if addr_eqb a b then Some t else del_time r a
  end.
Definition set_del_time (l : list (addr * N)) (a : addr) (t : N) : list (addr * N) :=
  (a, t) :: filter (fun bt => negb (addr_eqb a (fst bt))) l.

(* a deletion of the event's address covers it *)
Definition covered (st : astate) (e : aevent) : bool :=
  match addr_of e with
  | Some a => match del_time (del_addrs st) a with Some t => e_created e <=? t | None => false end
  | None => false
  end.

(* which events a deletion request naming address [a] at time [t] removes: every retrievable
   event of that author and kind up to t - for parameterized kinds only those with that d *)
Definition deletion_removes (a : addr) (t : N) (e : aevent) : bool :=
  (e_created e <=? t) &&
  (if is_replaceable (a_kind a) then (e_kind e =? a_kind a) && beq (e_pk e) (a_author a)
   else if is_param_replaceable (a_kind a) then at_addr a e
   else false).

(* the longest d value the deleted-address table can record (LMDB key limit) *)
Definition MAX_D : N := 476.

Definition remove_bytes (id : bytes) (l : list bytes) : list bytes := filter (fun x => negb (beq x id)) l.
Definition add_del_id (id : bytes) (l : list bytes) : list bytes := id :: remove_bytes id l.

(* one tag of a deletion request [ev]; [st0] is the state before the request was stored
   (the code looks the targets of `e` tags up in the committed state) *)
Definition a_delete_tag (st0 st : astate) (ev : aevent) (tag : list bytes) : res astate :=
  match tag with
  | name :: arg :: _ =>
      if beq name [101] then
        match read_hex arg 32 with
        | Ok id =>
            match find_id id (live st0) with
            | Some tg =>
                if beq (e_pk tg) (e_pk ev)
                then Ok (mkA (remove_id id (live st)) (add_del_id id (del_ids st)) (del_addrs st) (a_extra st))
                else Err EInvalidDelete
            | None => Ok (mkA (live st) (add_del_id id (del_ids st)) (del_addrs st) (a_extra st))
            end
        | _ => Ok st
        end
      else if beq name [97] then
        match addr_parse arg with
        | Ok a =>
            if negb (beq (a_author a) (e_pk ev)) then Err EInvalidDelete else
            let newer := match del_time (del_addrs st) a with Some old => e_created ev <=? old | None => false end in
            if negb newer && (MAX_D <? len (a_d a)) then Err EKeySize else
            let da := if newer then del_addrs st else set_del_time (del_addrs st) a (e_created ev) in
            Ok (mkA (filter (fun e => negb (deletion_removes a (e_created ev) e)) (live st))
                    (del_ids st) da (a_extra st))
        | _ => Ok st
        end
      else Ok st
  | _ => Ok st
  end.

Fixpoint a_delete_tags (st0 st : astate) (ev : aevent) (tags : atags) : res astate :=
  match tags with
  | [] => Ok st
  | t :: r => st' <- a_delete_tag st0 st ev t ;; a_delete_tags st0 st' ev r
  end.

(* storing an event *)
Definition a_store (st : astate) (e : aevent) : astate * res unit :=
  if has_id (e_id e) (live st) then (st, Err EDup) else
  if mem_bytes (e_id e) (del_ids st) then (st, Err EDeleted) else
  if covered st e then (st, Err EDeleted) else
  let holders := match addr_of e with Some a => filter (at_addr a) (live st) | None => [] end in
  if existsb (fun h => e_created e <? e_created h) holders then (st, Err EReplaced) else
  let live1 := match addr_of e with Some a => filter (fun x => negb (at_addr a x)) (live st) | None => live st end in
  let live2 := if is_ephemeral (e_kind e) then live1 else e :: live1 in
  let st1 := mkA live2 (del_ids st) (del_addrs st) (a_extra st) in
  if e_kind e =? 5 then
    match a_delete_tags st st1 e (e_tags e) with
    | Ok st2 => (st2, Ok tt)
    | Err x => (st, Err x) | Panic => (st, Panic) | OutOfFuel => (st, OutOfFuel)
    end
  else (st1, Ok tt).

Definition a_remove (st : astate) (id : bytes) : astate :=
  mkA (remove_id id (live st)) (del_ids st) (del_addrs st) (a_extra st).

(* NIP-62 vanish: the author's events, and gift wraps (kind 1059) whose p tag names the key *)
Definition vanishes (pk : bytes) (e : aevent) : bool :=
  beq (e_pk e) pk || ((e_kind e =? 1059) && existsb (tag_is [112] (write_hex pk)) (e_tags e)).
Definition a_vanish (st : astate) (pk : bytes) : astate :=
  mkA (filter (fun e => negb (vanishes pk e)) (live st)) (del_ids st) (del_addrs st) (a_extra st).

(* queries: everything retrievable that matches and passes the screen, newest first *)
Definition a_qualifying (st : astate) (f : afilter) (screen : aevent -> sres) : list aevent :=
  sort_desc (filter (fun e => spec_matches f e && match screen e with SMatch => true | _ => false end) (live st)).
Definition a_query (st : astate) (f : afilter) (screen : aevent -> sres) : list aevent :=
  ltake (f_limit f) (a_qualifying st f screen).
Definition a_redactable (st : astate) (f : afilter) (screen : aevent -> sres) : bool :=
  existsb (fun e => spec_matches f e && match screen e with SRedacted => true | _ => false end) (live st).
Definition scrape_covered (f : afilter) (now : N) (allow : bool) (lim secs : N) : bool :=
  allow || (f_limit f <=? lim) || (N.min (f_until f) now - f_since f <? secs).
Definition is_scrape (f : afilter) : bool :=
  match f_ids f, f_authors f, f_tags f with [], [], [] => true | _, _, _ => false end.

Definition a_extra_put (st : astate) (name k v : bytes) : astate :=
  mkA (live st) (del_ids st) (del_addrs st) (extra_put (a_extra st) name k v).
