(* ADbProofs.v — theorems about the abstract store ADb.v, for ALL histories (induction over
   arbitrary operation lists): ids unique, at most one event per replaceable address (C09),
   foreign deletion requests cannot remove or mark (C10), deletion markers are permanent and
   monotone and covered events are never retrievable (C11), failed stores are no-ops (C12),
   removal/vanish are exact (C18). *)
From Pocket Require Import ADb.
From Coq Require Import Permutation.

(* ---------- small facts ---------- *)
Lemma addr_eqb_eq a b : addr_eqb a b = true <-> a = b.
Proof.
  destruct a as [k1 a1 d1], b as [k2 a2 d2]. unfold addr_eqb. cbn [a_kind a_author a_d].
  rewrite !andb_true_iff, N.eqb_eq, !beq_eq. split.
  - intros [[-> ->] ->]. reflexivity.
  - intros [= -> -> ->]. auto.
Qed.
Lemma addr_eqb_refl a : addr_eqb a a = true. Proof. apply addr_eqb_eq. reflexivity. Qed.
Lemma addr_eqb_sym a b : addr_eqb a b = addr_eqb b a.
Proof.
  destruct (addr_eqb a b) eqn:E.
  - apply addr_eqb_eq in E. subst. symmetry. apply addr_eqb_refl.
  - destruct (addr_eqb b a) eqn:E2; auto. apply addr_eqb_eq in E2. subst. rewrite addr_eqb_refl in E. discriminate.
Qed.

Lemma at_addr_iff a e : at_addr a e = true <-> addr_of e = Some a.
Proof.
  unfold at_addr. destruct (addr_of e) as [b|]; split; intros H; try discriminate.
  - apply addr_eqb_eq in H. subst. reflexivity.
  - injection H as ->. apply addr_eqb_refl.
Qed.

Lemma addr_of_author e a : addr_of e = Some a -> a_author a = e_pk e /\ a_kind a = e_kind e.
Proof.
  unfold addr_of. destruct (is_replaceable (e_kind e)).
  - intros [= <-]. auto.
  - destruct (is_param_replaceable (e_kind e)); [|discriminate].
    destruct (d_of e); [|discriminate]. intros [= <-]. auto.
Qed.

Lemma has_id_In id l : has_id id l = true <-> exists e, In e l /\ e_id e = id.
Proof.
  unfold has_id. rewrite existsb_exists. split; intros (e & H1 & H2); exists e; split; auto.
  - apply beq_eq. exact H2.
  - apply beq_eq. exact H2.
Qed.
Lemma mem_bytes_In x l : mem_bytes x l = true <-> In x l.
Proof.
  unfold mem_bytes. rewrite existsb_exists. split.
  - intros (y & H1 & H2). apply beq_eq in H2. subst. exact H1.
  - intros H. exists x. split; auto. apply beq_refl.
Qed.

(* ---------- invariants ---------- *)
Definition ids_unique (l : list aevent) : Prop := NoDup (map e_id l).
Definition one_per_addr (l : list aevent) : Prop :=
  forall e1 e2 a, In e1 l -> In e2 l -> addr_of e1 = Some a -> addr_of e2 = Some a -> e1 = e2.
(* no retrievable event is covered by a deletion of its address, or marked deleted by id *)
Definition none_covered (st : astate) : Prop := forall e, In e (live st) -> covered st e = false.

Record AInv (st : astate) : Prop := {
  inv_ids : ids_unique (live st);
  inv_addr : one_per_addr (live st);
  inv_cov : none_covered st }.

Lemma ids_unique_filter p l : ids_unique l -> ids_unique (filter p l).
Proof.
  unfold ids_unique. induction l as [|x l IH]; cbn [filter map]; auto.
  intros H. inversion H as [|? ? Hn Hd]; subst. destruct (p x); cbn [map]; auto.
  constructor; auto. intros Hin. apply Hn. apply in_map_iff in Hin. destruct Hin as (y & Hy & Hin).
  apply filter_In in Hin. apply in_map_iff. exists y. tauto.
Qed.
Lemma one_per_addr_filter p l : one_per_addr l -> one_per_addr (filter p l).
Proof.
  unfold one_per_addr. intros H e1 e2 a H1 H2. apply filter_In in H1, H2. apply H; tauto.
Qed.
Lemma ids_unique_same l e1 e2 : ids_unique l -> In e1 l -> In e2 l -> e_id e1 = e_id e2 -> e1 = e2.
Proof.
  unfold ids_unique. induction l as [|x l IH]; cbn [map In]; [tauto|].
  intros H H1 H2 E. inversion H as [|? ? Hn Hd]; subst.
  destruct H1 as [->|H1], H2 as [->|H2]; auto.
  - exfalso. apply Hn. rewrite E. apply in_map. exact H2.
  - exfalso. apply Hn. rewrite <- E. apply in_map. exact H1.
Qed.

Lemma filter_true_id {A} (l : list A) : filter (fun _ => true) l = l.
Proof. induction l as [|x l IH]; cbn [filter]; congruence. Qed.

(* every step of a deletion request only filters the retrievable set *)
Ltac triv_filter := intros [= <-]; exists (fun _ => true); symmetry; apply filter_true_id.

Lemma a_delete_tag_filter st0 st ev t st' :
  a_delete_tag st0 st ev t = Ok st' -> exists p, live st' = filter p (live st).
Proof.
  unfold a_delete_tag. destruct t as [|name [|arg rest]]; [triv_filter|triv_filter|].
  destruct (beq name [101]).
  - destruct (read_hex arg 32) as [id| | |]; [|triv_filter|triv_filter|triv_filter].
    destruct (find_id id (live st0)) as [tg|]; [|triv_filter].
    destruct (beq (e_pk tg) (e_pk ev)); [|discriminate]. intros [= <-]. cbn [live]. eexists. reflexivity.
  - destruct (beq name [97]); [|triv_filter].
    destruct (addr_parse arg) as [a| | |]; [|triv_filter|triv_filter|triv_filter].
    destruct (negb (beq (a_author a) (e_pk ev))); [discriminate|].
    match goal with |- context [if ?c then Err EKeySize else _] => destruct c end; [discriminate|].
    intros [= <-]. cbn [live]. eexists. reflexivity.
Qed.

Lemma a_delete_tags_filter st0 ev ts : forall st st',
  a_delete_tags st0 st ev ts = Ok st' -> exists p, live st' = filter p (live st).
Proof.
  induction ts as [|t r IH]; intros st st'; cbn [a_delete_tags].
  - triv_filter.
  - destruct (a_delete_tag st0 st ev t) as [st1| | |] eqn:E1; cbn [bind]; try discriminate.
    intros H. destruct (a_delete_tag_filter _ _ _ _ _ E1) as (p1 & H1).
    destruct (IH _ _ H) as (p2 & H2). exists (fun x => p1 x && p2 x).
    rewrite H2, H1. clear. induction (live st) as [|x l IHl]; cbn [filter]; auto.
    destruct (p1 x); cbn [filter andb]; [destruct (p2 x); congruence|exact IHl].
Qed.

(* ---------- deletion times ---------- *)
Lemma del_time_set_same l a t : del_time (set_del_time l a t) a = Some t.
Proof. unfold set_del_time. cbn [del_time]. rewrite addr_eqb_refl. reflexivity. Qed.
Lemma del_time_filter_other l a b :
  addr_eqb b a = false -> del_time (filter (fun bt => negb (addr_eqb a (fst bt))) l) b = del_time l b.
Proof.
  intros H. induction l as [|[c t] l IH]; cbn [filter del_time fst]; auto.
  destruct (addr_eqb a c) eqn:E; cbn [negb del_time].
  - apply addr_eqb_eq in E. subst c. rewrite H. exact IH.
  - destruct (addr_eqb b c); auto.
Qed.
Lemma del_time_set_other l a b t : addr_eqb b a = false -> del_time (set_del_time l a t) b = del_time l b.
Proof. intros H. unfold set_del_time. cbn [del_time]. rewrite H. apply del_time_filter_other. exact H. Qed.

Lemma deletion_removes_at a t x :
  addr_of x = Some a -> deletion_removes a t x = (e_created x <=? t).
Proof.
  intros H. unfold deletion_removes. destruct (addr_of_author _ _ H) as [Ha Hk].
  assert (Hat : at_addr a x = true) by (apply at_addr_iff; exact H).
  unfold addr_of in H. rewrite <- Hk in H |- *.
  destruct (is_replaceable (a_kind a)).
  - rewrite Hk, N.eqb_refl, Ha, beq_refl. cbn. apply andb_true_r.
  - destruct (is_param_replaceable (a_kind a)); [|discriminate]. rewrite Hat. apply andb_true_r.
Qed.

Definition times_monotone (l l' : list (addr * N)) : Prop :=
  forall b t0, del_time l b = Some t0 -> exists t1, del_time l' b = Some t1 /\ t0 <= t1.
Lemma times_monotone_refl l : times_monotone l l.
Proof. intros b t0 H. exists t0. split; auto. lia. Qed.
Lemma times_monotone_trans l1 l2 l3 : times_monotone l1 l2 -> times_monotone l2 l3 -> times_monotone l1 l3.
Proof.
  intros H1 H2 b t0 H. destruct (H1 _ _ H) as (t1 & E1 & L1). destruct (H2 _ _ E1) as (t2 & E2 & L2).
  exists t2. split; auto. lia.
Qed.

Lemma covered_filter st st' e :
  del_addrs st' = del_addrs st -> covered st' e = covered st e.
Proof. intros H. unfold covered. rewrite H. reflexivity. Qed.

Record tag_facts (st st' : astate) : Prop := {
  tf_live : exists p, live st' = filter p (live st);
  tf_ids : forall id, In id (del_ids st) -> In id (del_ids st');
  tf_times : times_monotone (del_addrs st) (del_addrs st');
  tf_cov : none_covered st -> none_covered st';
  tf_extra : a_extra st' = a_extra st }.

Lemma tag_facts_refl st : tag_facts st st.
Proof.
  constructor; auto.
  - exists (fun _ => true). symmetry. apply filter_true_id.
  - apply times_monotone_refl.
Qed.

Lemma In_add_del_id id x l : In x l -> In x (add_del_id id l).
Proof.
  intros H. unfold add_del_id, remove_bytes. destruct (beq x id) eqn:E.
  - apply beq_eq in E. subst. left. reflexivity.
  - right. apply filter_In. split; auto. rewrite E. reflexivity.
Qed.

Lemma a_delete_tag_facts st0 st ev t st' : a_delete_tag st0 st ev t = Ok st' -> tag_facts st st'.
Proof.
  unfold a_delete_tag. destruct t as [|name [|arg rest]]; try (intros [= <-]; apply tag_facts_refl).
  destruct (beq name [101]).
  - destruct (read_hex arg 32) as [id| | |]; try (intros [= <-]; apply tag_facts_refl).
    destruct (find_id id (live st0)) as [tg|].
    + destruct (beq (e_pk tg) (e_pk ev)); [|discriminate]. intros [= <-]. constructor; cbn [live del_ids del_addrs a_extra]; auto.
      * eexists. reflexivity.
      * intros x. apply In_add_del_id.
      * apply times_monotone_refl.
      * intros H e He. unfold remove_id in He. apply filter_In in He. destruct He as [He _].
        rewrite <- (H e He). apply covered_filter. reflexivity.
    + intros [= <-]. constructor; cbn [live del_ids del_addrs a_extra]; auto.
      * exists (fun _ => true). symmetry. apply filter_true_id.
      * intros x. apply In_add_del_id.
      * apply times_monotone_refl.
  - destruct (beq name [97]); [|intros [= <-]; apply tag_facts_refl].
    destruct (addr_parse arg) as [a| | |]; try (intros [= <-]; apply tag_facts_refl).
    destruct (negb (beq (a_author a) (e_pk ev))); [discriminate|].
    match goal with |- context [if ?c then Err EKeySize else _] => destruct c end; [discriminate|].
    intros [= <-]. constructor; cbn [live del_ids del_addrs a_extra]; auto.
    + eexists. reflexivity.
    + (* times monotone *)
      intros b t0 Hb. destruct (del_time (del_addrs st) a) as [old|] eqn:Eold.
      * destruct (N.leb_spec (e_created ev) old) as [Hle|Hgt].
        -- exists t0. split; auto. lia.
        -- destruct (addr_eqb b a) eqn:Eba.
           ++ apply addr_eqb_eq in Eba. subst b. rewrite Eold in Hb. injection Hb as <-.
              exists (e_created ev). rewrite del_time_set_same. split; auto. lia.
           ++ exists t0. rewrite del_time_set_other by exact Eba. split; auto. lia.
      * destruct (addr_eqb b a) eqn:Eba.
        -- apply addr_eqb_eq in Eba. subst b. congruence.
        -- exists t0. rewrite del_time_set_other by exact Eba. split; auto. lia.
    + (* none covered *)
      intros H e He. apply filter_In in He. destruct He as [He Hrm].
      apply negb_true_iff in Hrm. specialize (H e He). unfold covered in *. cbn [del_addrs].
      destruct (addr_of e) as [b|] eqn:Eb; auto.
      destruct (addr_eqb b a) eqn:Eba.
      * apply addr_eqb_eq in Eba. subst b. rewrite (deletion_removes_at _ _ _ Eb) in Hrm.
        destruct (del_time (del_addrs st) a) as [old|] eqn:Eold.
        -- destruct (e_created ev <=? old) eqn:El; [rewrite Eold; exact H|].
           rewrite del_time_set_same. exact Hrm.
        -- rewrite del_time_set_same. exact Hrm.
      * destruct (match del_time (del_addrs st) a with Some old => e_created ev <=? old | None => false end); auto.
        rewrite del_time_set_other by exact Eba. exact H.
Qed.

Lemma tag_facts_trans s1 s2 s3 : tag_facts s1 s2 -> tag_facts s2 s3 -> tag_facts s1 s3.
Proof.
  intros [[p1 L1] I1 T1 C1 X1] [[p2 L2] I2 T2 C2 X2]. constructor; auto.
  - exists (fun x => p1 x && p2 x). rewrite L2, L1. clear.
    induction (live s1) as [|x l IHl]; cbn [filter]; auto.
    destruct (p1 x); cbn [filter andb]; [destruct (p2 x); congruence|exact IHl].
  - eapply times_monotone_trans; eauto.
  - congruence.
Qed.

Lemma a_delete_tags_facts st0 ev ts : forall st st', a_delete_tags st0 st ev ts = Ok st' -> tag_facts st st'.
Proof.
  induction ts as [|t r IH]; intros st st'; cbn [a_delete_tags].
  - intros [= <-]. apply tag_facts_refl.
  - destruct (a_delete_tag st0 st ev t) as [st1| | |] eqn:E1; cbn [bind]; try discriminate.
    intros H. eapply tag_facts_trans; [eapply a_delete_tag_facts; eauto|eapply IH; eauto].
Qed.

(* ---------- C12 at the abstract level: a failed store changes nothing ---------- *)
Theorem a_store_err_noop st e st' x : a_store st e = (st', Err x) -> st' = st.
Proof.
  unfold a_store.
  repeat match goal with
  | |- context [if ?c then _ else _] => destruct c; try (intros [= <- _]; reflexivity); try (intros [= <-]; reflexivity)
  end.
  all: try (destruct (a_delete_tags _ _ _ _); intros H; inversion H; subst; reflexivity).
  all: intros H; inversion H.
Qed.

(* ---------- the invariant is preserved by every operation ---------- *)
Lemma AInv_filter st p :
  AInv st -> AInv (mkA (filter p (live st)) (del_ids st) (del_addrs st) (a_extra st)).
Proof.
  intros [I A C]. constructor; cbn [live].
  - apply ids_unique_filter. exact I.
  - apply one_per_addr_filter. exact A.
  - intros e He. cbn [live] in He. apply filter_In in He. destruct He as [He _].
    rewrite <- (C e He). apply covered_filter. reflexivity.
Qed.

Definition at_addr_opt (o : option addr) (h : aevent) : bool :=
  match o with Some a => at_addr a h | None => false end.
Lemma existsb_false_iff {A} (f : A -> bool) l : existsb f l = false <-> forall x, In x l -> f x = false.
Proof.
  induction l as [|y l IH]; cbn [existsb In]; split; intros H; auto.
  - tauto.
  - apply orb_false_iff in H. destruct H as [H1 H2]. intros x [->|Hx]; auto. apply IH; auto.
  - apply orb_false_iff. split; [apply H; auto|apply IH; intros; apply H; auto].
Qed.

Lemma a_store_ok_shape st e st' :
  a_store st e = (st', Ok tt) ->
  has_id (e_id e) (live st) = false /\ mem_bytes (e_id e) (del_ids st) = false /\ covered st e = false /\
  (forall h, In h (live st) -> at_addr_opt (addr_of e) h = true -> e_created h <= e_created e) /\
  let live1 := match addr_of e with Some a => filter (fun x => negb (at_addr a x)) (live st) | None => live st end in
  let live2 := if is_ephemeral (e_kind e) then live1 else e :: live1 in
  let st1 := mkA live2 (del_ids st) (del_addrs st) (a_extra st) in
  (if e_kind e =? 5 then a_delete_tags st st1 e (e_tags e) = Ok st' else st' = st1).
Proof.
  unfold a_store.
  destruct (has_id (e_id e) (live st)); [discriminate|].
  destruct (mem_bytes (e_id e) (del_ids st)); [discriminate|].
  destruct (covered st e); [discriminate|].
  match goal with |- context [if existsb ?f ?l then _ else _] => destruct (existsb f l) eqn:Eh end; [discriminate|].
  intros H. repeat split; auto.
  - intros h Hh Hat. destruct (addr_of e) as [a|]; cbn [at_addr_opt] in Hat; [|discriminate].
    assert (Hn := proj1 (existsb_false_iff _ _) Eh h).
    assert (In h (filter (at_addr a) (live st))) by (apply filter_In; auto).
    specialize (Hn H0). apply N.ltb_ge in Hn. exact Hn.
  - cbv zeta. destruct (e_kind e =? 5).
    + destruct (a_delete_tags st _ e (e_tags e)) as [s2| | |]; inversion H; subst; reflexivity.
    + inversion H; subst; reflexivity.
Qed.

Lemma a_store_nonok_noop st e st' r : a_store st e = (st', r) -> (forall u, r <> Ok u) -> st' = st.
Proof.
  unfold a_store.
  repeat match goal with
  | |- context [if ?c then _ else _] => destruct c; try (intros [= <- _]; reflexivity)
  end.
  all: try (destruct (a_delete_tags _ _ _ _) as [s2| | |]).
  all: intros H Hn; inversion H; subst; try reflexivity; exfalso; eapply Hn; reflexivity.
Qed.

Lemma a_store_inv st e : AInv st -> AInv (fst (a_store st e)).
Proof.
  intros Hinv. destruct (a_store st e) as [st' r] eqn:E. cbn [fst].
  destruct r as [[]| | |].
  2-4: erewrite (a_store_nonok_noop _ _ _ _ E); [exact Hinv|intros u; discriminate].
  destruct (a_store_ok_shape _ _ _ E) as (Hid & Hdel & Hcov & Hold & Hshape). cbv zeta in Hshape.
  set (live1 := match addr_of e with Some a => filter (fun x => negb (at_addr a x)) (live st) | None => live st end) in *.
  set (live2 := if is_ephemeral (e_kind e) then live1 else e :: live1) in *.
  assert (Hsub : forall x, In x live1 -> In x (live st)).
  { unfold live1. destruct (addr_of e); auto. intros x Hx. apply filter_In in Hx. tauto. }
  destruct Hinv as [I A C].
  assert (I1 : ids_unique live1).
  { unfold live1. destruct (addr_of e); auto. apply ids_unique_filter. exact I. }
  assert (A1 : one_per_addr live1).
  { unfold live1. destruct (addr_of e); auto. apply one_per_addr_filter. exact A. }
  assert (Hinv1 : AInv (mkA live2 (del_ids st) (del_addrs st) (a_extra st))).
  { unfold live2. destruct (is_ephemeral (e_kind e)).
    - constructor; cbn [live]; auto. intros x Hx. cbn [live] in Hx. rewrite <- (C x (Hsub x Hx)). apply covered_filter. reflexivity.
    - constructor; cbn [live].
      + unfold ids_unique. cbn [map]. constructor; [|exact I1].
        intros Hin. apply in_map_iff in Hin. destruct Hin as (x & Hx1 & Hx2).
        assert (has_id (e_id e) (live st) = true) by (apply has_id_In; exists x; split; auto).
        congruence.
      + intros e1 e2 a [<-|H1] [<-|H2] Ha1 Ha2; auto.
        * exfalso. unfold live1 in H2. rewrite Ha1 in H2. apply filter_In in H2. destruct H2 as [_ H2].
          apply negb_true_iff in H2. assert (at_addr a e2 = true) by (apply at_addr_iff; exact Ha2). congruence.
        * exfalso. unfold live1 in H1. rewrite Ha2 in H1. apply filter_In in H1. destruct H1 as [_ H1].
          apply negb_true_iff in H1. assert (at_addr a e1 = true) by (apply at_addr_iff; exact Ha1). congruence.
        * eapply A1; eauto.
      + intros x [<-|Hx].
        * rewrite <- Hcov. apply covered_filter. reflexivity.
        * rewrite <- (C x (Hsub x Hx)). apply covered_filter. reflexivity. }
  destruct (e_kind e =? 5).
  - apply a_delete_tags_facts in Hshape. destruct Hshape as [[p L] _ _ Cv _].
    destruct Hinv1 as [I2 A2 C2]. constructor.
    + rewrite L. apply ids_unique_filter. exact I2.
    + rewrite L. apply one_per_addr_filter. exact A2.
    + apply Cv. exact C2.
  - subst st'. exact Hinv1.
Qed.

(* ---------- histories ---------- *)
Inductive aop := AStore (e : aevent) | ARemove (id : bytes) | AVanish (pk : bytes) | AXput (name k v : bytes).
Definition a_step (st : astate) (op : aop) : astate :=
  match op with
  | AStore e => fst (a_store st e)
  | ARemove id => a_remove st id
  | AVanish pk => a_vanish st pk
  | AXput n k v => a_extra_put st n k v
  end.
Definition a_run (ops : list aop) (st : astate) : astate := fold_left a_step ops st.

Lemma a_step_inv st op : AInv st -> AInv (a_step st op).
Proof.
  destruct op; cbn [a_step].
  - apply a_store_inv.
  - intros H. apply (AInv_filter st _ H).
  - intros H. apply (AInv_filter st _ H).
  - intros [I A C]. constructor; auto.
Qed.
Lemma a_init_inv names : AInv (a_init names).
Proof.
  constructor; cbn.
  - constructor.
  - intros e1 e2 a [].
  - intros e [].
Qed.
Theorem a_run_inv ops st : AInv st -> AInv (a_run ops st).
Proof.
  revert st. induction ops as [|op ops IH]; intros st H; cbn [a_run fold_left]; auto.
  apply IH. apply a_step_inv. exact H.
Qed.

(* ---------- C09 ---------- *)
Theorem at_most_one_per_address ops names e1 e2 a :
  let st := a_run ops (a_init names) in
  In e1 (live st) -> In e2 (live st) -> addr_of e1 = Some a -> addr_of e2 = Some a -> e1 = e2.
Proof. intros st. apply (inv_addr _ (a_run_inv ops _ (a_init_inv names))). Qed.

Theorem ids_unique_reachable ops names e1 e2 :
  let st := a_run ops (a_init names) in
  In e1 (live st) -> In e2 (live st) -> e_id e1 = e_id e2 -> e1 = e2.
Proof. intros st. apply ids_unique_same. apply (inv_ids _ (a_run_inv ops _ (a_init_inv names))). Qed.

(* a successful store of a non-deletion event: exactly the holders of its address go, it comes *)
Theorem store_displaces_exactly st e st' :
  a_store st e = (st', Ok tt) -> e_kind e <> 5 ->
  live st' = (if is_ephemeral (e_kind e) then (fun l => l) else cons e)
               (match addr_of e with Some a => filter (fun x => negb (at_addr a x)) (live st) | None => live st end)
  /\ del_ids st' = del_ids st /\ del_addrs st' = del_addrs st /\ a_extra st' = a_extra st.
Proof.
  intros H Hk. destruct (a_store_ok_shape _ _ _ H) as (_ & _ & _ & _ & Hs). cbv zeta in Hs.
  destruct (N.eqb_spec (e_kind e) 5); [contradiction|]. subst st'. cbn [live del_ids del_addrs a_extra].
  destruct (is_ephemeral (e_kind e)); auto.
Qed.

(* an event strictly older than the holder of its address is refused and changes nothing *)
Theorem older_refused st e h a :
  In h (live st) -> addr_of e = Some a -> addr_of h = Some a -> e_created e < e_created h ->
  exists x, a_store st e = (st, Err x) /\ (x = EDup \/ x = EDeleted \/ x = EReplaced).
Proof.
  intros Hh Ha Hha Hlt. unfold a_store.
  destruct (has_id (e_id e) (live st)); [exists EDup; auto|].
  destruct (mem_bytes (e_id e) (del_ids st)); [exists EDeleted; auto|].
  destruct (covered st e); [exists EDeleted; auto|].
  rewrite Ha.
  assert (E : existsb (fun h0 => e_created e <? e_created h0) (filter (at_addr a) (live st)) = true).
  { apply existsb_exists. exists h. split.
    - apply filter_In. split; auto. apply at_addr_iff. exact Hha.
    - apply N.ltb_lt. exact Hlt. }
  rewrite E. exists EReplaced. auto.
Qed.

(* events at other addresses (or with no address) are untouched by a non-deletion store *)
Theorem other_addresses_untouched st e st' x :
  a_store st e = (st', Ok tt) -> e_kind e <> 5 -> In x (live st) -> addr_of x <> addr_of e -> In x (live st').
Proof.
  intros H Hk Hx Hne. destruct (store_displaces_exactly _ _ _ H Hk) as (L & _).
  rewrite L. assert (Hin : In x (match addr_of e with Some a => filter (fun y => negb (at_addr a y)) (live st) | None => live st end)).
  { destruct (addr_of e) as [a|] eqn:Ea; auto. apply filter_In. split; auto.
    apply negb_true_iff. destruct (at_addr a x) eqn:Eat; auto. apply at_addr_iff in Eat. congruence. }
  destruct (is_ephemeral (e_kind e)); [exact Hin|right; exact Hin].
Qed.

(* kind classes *)
Theorem kind_classes k :
  (is_replaceable k = true <-> k = 0 \/ k = 3 \/ (10000 <= k < 20000)) /\
  (is_ephemeral k = true <-> 20000 <= k < 30000) /\
  (is_param_replaceable k = true <-> 30000 <= k < 40000).
Proof.
  unfold is_replaceable, is_ephemeral, is_param_replaceable.
  rewrite !orb_true_iff, !andb_true_iff, !N.leb_le, !N.ltb_lt, !N.eqb_eq. repeat split; intros; lia.
Qed.

(* ---------- C10: a deletion request cannot touch another author's events ---------- *)
Lemma find_id_In id l tg : find_id id l = Some tg -> In tg l /\ e_id tg = id.
Proof. unfold find_id. intros H. apply find_some in H. destruct H as [H1 H2]. apply beq_eq in H2. auto. Qed.
Lemma find_id_None id l x : find_id id l = None -> In x l -> e_id x <> id.
Proof.
  unfold find_id. intros H Hx E. pose proof (find_none _ _ H x Hx) as Hn. cbv beta in Hn.
  rewrite E, beq_refl in Hn. discriminate.
Qed.

Record foreign_facts (st0 st st' : astate) (ev v : aevent) : Prop := {
  ff_live : In v (live st) -> In v (live st');
  ff_ids : In (e_id v) (del_ids st') -> In (e_id v) (del_ids st);
  ff_times : forall a, a_author a <> e_pk ev -> del_time (del_addrs st') a = del_time (del_addrs st) a }.

Lemma In_add_del_id_inv id x l : In x (add_del_id id l) -> x = id \/ In x l.
Proof.
  unfold add_del_id, remove_bytes. intros [<-|H]; auto. apply filter_In in H. tauto.
Qed.

Lemma deletion_removes_author a t x : deletion_removes a t x = true -> e_pk x = a_author a.
Proof.
  unfold deletion_removes. rewrite andb_true_iff. intros [_ H].
  destruct (is_replaceable (a_kind a)).
  - apply andb_true_iff in H. destruct H as [_ H]. apply beq_eq in H. exact H.
  - destruct (is_param_replaceable (a_kind a)); [|discriminate].
    apply at_addr_iff in H. apply addr_of_author in H. destruct H as [H _]. auto.
Qed.

Lemma a_delete_tag_foreign st0 st ev v t st' :
  ids_unique (live st0) -> In v (live st0) -> e_pk v <> e_pk ev ->
  a_delete_tag st0 st ev t = Ok st' -> foreign_facts st0 st st' ev v.
Proof.
  intros Huniq Hv0 Hpk. unfold a_delete_tag.
  destruct t as [|name [|arg rest]]; try (intros [= <-]; constructor; auto).
  destruct (beq name [101]).
  - destruct (read_hex arg 32) as [id| | |]; try (intros [= <-]; constructor; auto).
    destruct (find_id id (live st0)) as [tg|] eqn:Ef.
    + destruct (beq (e_pk tg) (e_pk ev)) eqn:Ep; [|discriminate]. apply beq_eq in Ep.
      destruct (find_id_In _ _ _ Ef) as [Htg Hid].
      assert (Hne : e_id v <> id).
      { intros E. assert (v = tg) by (eapply ids_unique_same; eauto; congruence). subst. congruence. }
      intros [= <-]. constructor; cbn [live del_ids del_addrs]; auto.
      * intros H. unfold remove_id. apply filter_In. split; auto. apply negb_true_iff. apply beq_neq. exact Hne.
      * intros H. apply In_add_del_id_inv in H. destruct H; [congruence|auto].
    + pose proof (find_id_None _ _ _ Ef Hv0) as Hne.
      intros [= <-]. constructor; cbn [live del_ids del_addrs]; auto.
      intros H. apply In_add_del_id_inv in H. destruct H; [congruence|auto].
  - destruct (beq name [97]); [|intros [= <-]; constructor; auto].
    destruct (addr_parse arg) as [a| | |]; try (intros [= <-]; constructor; auto).
    destruct (beq (a_author a) (e_pk ev)) eqn:Ea; cbn [negb]; [|discriminate]. apply beq_eq in Ea.
    match goal with |- context [if ?c then Err EKeySize else _] => destruct c end; [discriminate|].
    intros [= <-]. constructor; cbn [live del_ids del_addrs]; auto.
    + intros H. apply filter_In. split; auto. apply negb_true_iff.
      destruct (deletion_removes a (e_created ev) v) eqn:Er; auto.
      apply deletion_removes_author in Er. congruence.
    + intros b Hb.
      destruct (match del_time (del_addrs st) a with Some old => e_created ev <=? old | None => false end); auto.
      apply del_time_set_other. destruct (addr_eqb b a) eqn:E; auto. apply addr_eqb_eq in E. subst. congruence.
Qed.

Lemma a_delete_tags_foreign st0 ev v ts : forall st st',
  ids_unique (live st0) -> In v (live st0) -> e_pk v <> e_pk ev ->
  a_delete_tags st0 st ev ts = Ok st' -> foreign_facts st0 st st' ev v.
Proof.
  induction ts as [|t r IH]; intros st st' Hu Hv Hp; cbn [a_delete_tags].
  - intros [= <-]. constructor; auto.
  - destruct (a_delete_tag st0 st ev t) as [st1| | |] eqn:E1; cbn [bind]; try discriminate.
    intros H. destruct (a_delete_tag_foreign _ _ _ _ _ _ Hu Hv Hp E1) as [L1 I1 T1].
    destruct (IH _ _ Hu Hv Hp H) as [L2 I2 T2]. constructor; auto.
    intros a Ha. rewrite T2, T1; auto.
Qed.

Lemma kind5_no_addr r : e_kind r = 5 -> addr_of r = None /\ is_ephemeral (e_kind r) = false.
Proof. intros H. unfold addr_of. rewrite H. split; reflexivity. Qed.

Theorem victim_survives st r v :
  AInv st -> In v (live st) -> e_pk v <> e_pk r -> e_kind r = 5 ->
  In v (live (fst (a_store st r))).
Proof.
  intros Hinv Hv Hpk Hk. destruct (a_store st r) as [st' res] eqn:E. cbn [fst].
  destruct res as [[]| | |].
  2-4: erewrite (a_store_nonok_noop _ _ _ _ E); [exact Hv|intros u; discriminate].
  destruct (a_store_ok_shape _ _ _ E) as (_ & _ & _ & _ & Hs). cbv zeta in Hs.
  destruct (kind5_no_addr r Hk) as [Ha He]. rewrite Ha, He, Hk in Hs. cbn [N.eqb] in Hs. rewrite N.eqb_refl in Hs.
  apply (a_delete_tags_foreign st r v) in Hs; auto; [|apply (inv_ids _ Hinv)].
  apply (ff_live _ _ _ _ _ Hs). cbn [live]. right. exact Hv.
Qed.

Theorem no_foreign_marker st r v st' :
  AInv st -> In v (live st) -> e_pk v <> e_pk r -> e_kind r = 5 -> a_store st r = (st', Ok tt) ->
  (In (e_id v) (del_ids st') -> In (e_id v) (del_ids st)) /\
  (forall a, a_author a <> e_pk r -> del_time (del_addrs st') a = del_time (del_addrs st) a).
Proof.
  intros Hinv Hv Hpk Hk E.
  destruct (a_store_ok_shape _ _ _ E) as (_ & _ & _ & _ & Hs). cbv zeta in Hs.
  destruct (kind5_no_addr r Hk) as [Ha He]. rewrite Ha, He, Hk in Hs. rewrite N.eqb_refl in Hs.
  apply (a_delete_tags_foreign st r v) in Hs; auto; [|apply (inv_ids _ Hinv)].
  destruct Hs as [_ I T]. split; auto.
Qed.

(* non-deletion stores never touch markers at all; so a later store by the victim's author is
   refused as deleted only if it was already refused before the foreign request *)
Theorem foreign_request_never_blocks st r v st' e :
  AInv st -> In v (live st) -> e_pk v <> e_pk r -> e_kind r = 5 -> a_store st r = (st', Ok tt) ->
  e_pk e = e_pk v -> e_id e = e_id v \/ True ->
  covered st' e = covered st e.
Proof.
  intros Hinv Hv Hpk Hk E Hpe _. destruct (no_foreign_marker _ _ _ _ Hinv Hv Hpk Hk E) as [_ T].
  unfold covered. destruct (addr_of e) as [a|] eqn:Ea; auto.
  rewrite T; auto. apply addr_of_author in Ea. destruct Ea as [Ea _]. congruence.
Qed.

(* ---------- C11: deletions are permanent, times monotone ---------- *)
Record step_mono (st st' : astate) : Prop := {
  sm_ids : forall id, In id (del_ids st) -> In id (del_ids st');
  sm_times : times_monotone (del_addrs st) (del_addrs st') }.

Lemma a_store_mono st e : step_mono st (fst (a_store st e)).
Proof.
  destruct (a_store st e) as [st' r] eqn:E. cbn [fst].
  destruct r as [[]| | |].
  2-4: erewrite (a_store_nonok_noop _ _ _ _ E); [constructor; auto; apply times_monotone_refl|intros u; discriminate].
  destruct (a_store_ok_shape _ _ _ E) as (_ & _ & _ & _ & Hs). cbv zeta in Hs.
  destruct (e_kind e =? 5).
  - apply a_delete_tags_facts in Hs. destruct Hs as [_ I T _ _]. constructor; auto.
  - subst st'. constructor; cbn [del_ids del_addrs]; auto. apply times_monotone_refl.
Qed.
Lemma a_step_mono st op : step_mono st (a_step st op).
Proof.
  destruct op; cbn [a_step]; [apply a_store_mono| | |]; constructor; cbn [del_ids del_addrs]; auto; apply times_monotone_refl.
Qed.
Theorem a_run_mono ops st : step_mono st (a_run ops st).
Proof.
  revert st. induction ops as [|op ops IH]; intros st; cbn [a_run fold_left].
  - constructor; auto. apply times_monotone_refl.
  - destruct (a_step_mono st op) as [I1 T1]. destruct (IH (a_step st op)) as [I2 T2].
    constructor; auto. eapply times_monotone_trans; eauto.
Qed.

(* an id marked deleted is refused (as duplicate if somehow retrievable, else as deleted) *)
Theorem deleted_id_refused st e :
  In (e_id e) (del_ids st) ->
  exists x, a_store st e = (st, Err x) /\ (x = EDup \/ x = EDeleted).
Proof.
  intros H. unfold a_store. destruct (has_id (e_id e) (live st)); [exists EDup; auto|].
  assert (mem_bytes (e_id e) (del_ids st) = true) as -> by (apply mem_bytes_In; exact H).
  exists EDeleted; auto.
Qed.
Theorem covered_refused st e :
  covered st e = true -> exists x, a_store st e = (st, Err x) /\ (x = EDup \/ x = EDeleted).
Proof.
  intros H. unfold a_store. destruct (has_id (e_id e) (live st)); [exists EDup; auto|].
  destruct (mem_bytes (e_id e) (del_ids st)); [exists EDeleted; auto|]. rewrite H. exists EDeleted; auto.
Qed.

Lemma covered_mono st st' e : times_monotone (del_addrs st) (del_addrs st') -> covered st e = true -> covered st' e = true.
Proof.
  unfold covered. intros T. destruct (addr_of e) as [a|]; auto.
  destruct (del_time (del_addrs st) a) as [t|] eqn:E; [|discriminate].
  intros H. destruct (T _ _ E) as (t1 & E1 & L). rewrite E1. apply N.leb_le in H. apply N.leb_le. lia.
Qed.

(* once covered / marked, unretrievable and refused in EVERY continuation *)
Theorem covered_forever st e ops :
  AInv st -> covered st e = true ->
  let st' := a_run ops st in
  ~ In e (live st') /\ exists x, a_store st' e = (st', Err x) /\ (x = EDup \/ x = EDeleted).
Proof.
  intros Hinv Hc st'. destruct (a_run_mono ops st) as [_ T].
  assert (Hc' : covered st' e = true) by (eapply covered_mono; eauto).
  split.
  - intros Hin. pose proof (inv_cov _ (a_run_inv ops st Hinv) e Hin). unfold st' in Hc'. congruence.
  - apply covered_refused. exact Hc'.
Qed.
Theorem deleted_id_forever st e ops :
  In (e_id e) (del_ids st) ->
  let st' := a_run ops st in exists x, a_store st' e = (st', Err x) /\ (x = EDup \/ x = EDeleted).
Proof.
  intros H st'. apply deleted_id_refused. apply (sm_ids _ _ (a_run_mono ops st)). exact H.
Qed.

(* the deletion time reported for an address never decreases *)
Theorem deletion_time_monotone st ops a t :
  del_time (del_addrs st) a = Some t ->
  exists t', del_time (del_addrs (a_run ops st)) a = Some t' /\ t <= t'.
Proof. intros H. apply (sm_times _ _ (a_run_mono ops st)). exact H. Qed.

(* a deletion request can only fail with InvalidDelete or KeySize *)
Lemma a_delete_tags_err_class st0 ev ts : forall s1 x,
  a_delete_tags st0 s1 ev ts = Err x -> x = EInvalidDelete \/ x = EKeySize.
Proof.
  induction ts as [|t r IH]; intros s1 x; cbn [a_delete_tags]; [discriminate|].
  destruct (a_delete_tag st0 s1 ev t) as [s2|y| |] eqn:E1; cbn [bind]; try discriminate; [apply IH|].
  intros [= ->]. unfold a_delete_tag in E1.
  destruct t as [|name [|arg rest]]; try discriminate.
  destruct (beq name [101]).
  - destruct (read_hex arg 32); try discriminate. destruct (find_id _ _); try discriminate.
    destruct (beq _ _); try discriminate. injection E1 as <-. auto.
  - destruct (beq name [97]); try discriminate. destruct (addr_parse arg); try discriminate.
    destruct (negb _); [injection E1 as <-; auto|].
    match goal with H : context [if ?c then Err EKeySize else _] |- _ => destruct c end; [injection E1 as <-; auto|discriminate].
Qed.

(* events newer than every accepted deletion of their address are never refused as deleted *)
Theorem newer_not_refused st e st' :
  ~ In (e_id e) (del_ids st) -> covered st e = false -> a_store st e = (st', Err EDeleted) -> False.
Proof.
  intros Hid Hc. unfold a_store.
  destruct (has_id (e_id e) (live st)); [discriminate|].
  destruct (mem_bytes (e_id e) (del_ids st)) eqn:Em; [apply mem_bytes_In in Em; contradiction|].
  rewrite Hc.
  repeat match goal with |- context [if ?c then _ else _] => destruct c; try discriminate end.
  all: destruct (a_delete_tags _ _ _ _) as [s2|x| |] eqn:Ed; try discriminate.
  all: intros [= _ ->]; apply a_delete_tags_err_class in Ed; destruct Ed; discriminate.
Qed.

(* an accepted request that names an id by a well-formed `e` tag marks that id *)
Lemma a_delete_tags_marks st0 ev id hexid rest : forall ts st st',
  read_hex hexid 32 = Ok id -> In ([101] :: hexid :: rest) ts ->
  a_delete_tags st0 st ev ts = Ok st' -> In id (del_ids st').
Proof.
  induction ts as [|t r IH]; intros st st' Hh Hin; [destruct Hin|]. cbn [a_delete_tags].
  destruct (a_delete_tag st0 st ev t) as [s1| | |] eqn:E1; cbn [bind]; try discriminate. intros H.
  destruct Hin as [->|Hin]; [|eapply IH; eauto].
  assert (In id (del_ids s1)).
  { unfold a_delete_tag in E1. cbn [beq] in E1. rewrite N.eqb_refl in E1. cbn [andb] in E1. rewrite Hh in E1.
    destruct (find_id id (live st0)); [destruct (beq _ _); [|discriminate]|]; injection E1 as <-; cbn [del_ids]; left; reflexivity. }
  apply (tf_ids _ _ (a_delete_tags_facts _ _ _ _ _ H)). exact H0.
Qed.

Theorem accepted_request_marks_id st r st' hexid id rest :
  e_kind r = 5 -> a_store st r = (st', Ok tt) ->
  In ([101] :: hexid :: rest) (e_tags r) -> read_hex hexid 32 = Ok id ->
  In id (del_ids st').
Proof.
  intros Hk E Hin Hh. destruct (a_store_ok_shape _ _ _ E) as (_ & _ & _ & _ & Hs). cbv zeta in Hs.
  rewrite Hk, N.eqb_refl in Hs. eapply a_delete_tags_marks; eauto.
Qed.

(* ---------- C18: removal and vanish are exact ---------- *)
Theorem remove_exact st id x :
  (In x (live (a_remove st id)) <-> In x (live st) /\ e_id x <> id) /\
  del_ids (a_remove st id) = del_ids st /\ del_addrs (a_remove st id) = del_addrs st /\ a_extra (a_remove st id) = a_extra st.
Proof.
  unfold a_remove, remove_id. cbn [live del_ids del_addrs a_extra].
  split; [|auto]. rewrite filter_In, negb_true_iff, beq_neq. tauto.
Qed.
Theorem vanish_exact st pk x :
  (In x (live (a_vanish st pk)) <-> In x (live st) /\ vanishes pk x = false) /\
  del_ids (a_vanish st pk) = del_ids st /\ del_addrs (a_vanish st pk) = del_addrs st /\ a_extra (a_vanish st pk) = a_extra st.
Proof.
  unfold a_vanish. cbn [live del_ids del_addrs a_extra].
  split; [|auto]. rewrite filter_In, negb_true_iff. tauto.
Qed.
(* removal leaves no marker: the removed event is not refused as duplicate, and is refused as
   deleted only if it would have been before it was ever stored *)
Theorem removed_event_resubmittable st e st' x :
  a_store (a_remove st (e_id e)) e = (st', Err x) -> x <> EDup /\
  (x = EDeleted -> In (e_id e) (del_ids st) \/ covered st e = true).
Proof.
  unfold a_store.
  assert (has_id (e_id e) (live (a_remove st (e_id e))) = false) as ->.
  { destruct (has_id _ _) eqn:E; auto. apply has_id_In in E. destruct E as (y & Hy & E).
    apply (proj1 (remove_exact st (e_id e) y)) in Hy. tauto. }
  cbn [a_remove del_ids]. destruct (mem_bytes (e_id e) (del_ids st)) eqn:Em.
  { intros [= _ <-]. split; [discriminate|]. intros _. left. apply mem_bytes_In. exact Em. }
  change (covered (a_remove st (e_id e)) e) with (covered st e).
  destruct (covered st e) eqn:Ec.
  { intros [= _ <-]. split; [discriminate|]. auto. }
  repeat match goal with |- context [if ?c then _ else _] => destruct c; try discriminate end.
  all: try (intros [= _ <-]; split; discriminate).
  all: destruct (a_delete_tags _ _ _ _) as [s2|y| |] eqn:Ed; try discriminate.
  all: intros [= _ ->]; apply a_delete_tags_err_class in Ed; split; [destruct Ed; subst; discriminate|intros ->; destruct Ed; discriminate].
Qed.
(* ephemeral events are accepted but never retrievable *)
Theorem ephemeral_never_retrievable st e st' :
  a_store st e = (st', Ok tt) -> is_ephemeral (e_kind e) = true -> live st' = live st /\ ~ In e (live st').
Proof.
  intros H He.
  assert (Hk : e_kind e <> 5).
  { intros E. rewrite E in He. discriminate. }
  destruct (store_displaces_exactly _ _ _ H Hk) as (L & _). rewrite He in L.
  assert (Ha : addr_of e = None).
  { unfold addr_of. unfold is_ephemeral in He. apply andb_true_iff in He. destruct He as [H1 H2].
    apply N.leb_le in H1. apply N.ltb_lt in H2.
    unfold is_replaceable, is_param_replaceable.
    destruct (N.leb_spec 10000 (e_kind e)), (N.ltb_spec (e_kind e) 20000), (N.eqb_spec (e_kind e) 0), (N.eqb_spec (e_kind e) 3),
             (N.leb_spec 30000 (e_kind e)), (N.ltb_spec (e_kind e) 40000); cbn; try lia; reflexivity. }
  rewrite Ha in L. split; auto. rewrite L.
  destruct (a_store_ok_shape _ _ _ H) as (Hid & _). intros Hin.
  assert (has_id (e_id e) (live st) = true) by (apply has_id_In; exists e; auto). congruence.
Qed.

(* ---------- C05: what the specification of a query means ---------- *)
Lemma insert_desc_In x e l : In x (insert_desc e l) <-> e = x \/ In x l.
Proof.
  induction l as [|y l IH]; cbn [insert_desc In]; [tauto|].
  destruct (ev_lt e y); cbn [In]; rewrite ?IH; tauto.
Qed.
Lemma sort_desc_In x l : In x (sort_desc l) <-> In x l.
Proof. induction l as [|y l IH]; cbn [sort_desc In]; [tauto|]. rewrite insert_desc_In, IH. intuition. Qed.
Lemma ltake_In {A} n (l : list A) x : In x (ltake n l) -> In x l.
Proof.
  revert n; induction l as [|y l IH]; intros n; cbn [ltake]; auto.
  destruct (n =? 0); [intros []|]. intros [->|H]; [left; reflexivity|right; eapply IH; eauto].
Qed.
Lemma ltake_length {A} n (l : list A) : len (ltake n l) = N.min n (len l).
Proof.
  revert n; induction l as [|y l IH]; intros n; cbn [ltake].
  - unfold len; cbn [length]; lia.
  - destruct (N.eqb_spec n 0) as [->|Hn]; [unfold len; cbn [length]; lia|].
    rewrite !len_cons, IH. lia.
Qed.

(* newest first: created_at never increases along the result *)
Inductive desc_sorted : list aevent -> Prop :=
| ds_nil : desc_sorted []
| ds_cons e l : (forall x, In x l -> ev_lt e x = false) -> desc_sorted l -> desc_sorted (e :: l).

Lemma ev_lt_false_iff a b :
  ev_lt a b = false <-> e_created b < e_created a \/ (e_created a = e_created b /\ lex_lt (e_id a) (e_id b) = false).
Proof.
  unfold ev_lt. destruct (N.ltb_spec (e_created a) (e_created b)) as [L1|L1].
  - split; [discriminate|]. intros [X|[X _]]; lia.
  - destruct (N.ltb_spec (e_created b) (e_created a)) as [L2|L2].
    + split; auto.
    + split; [intros X; right; split; [lia|exact X]|]. intros [X|[_ X]]; [lia|exact X].
Qed.
Lemma ev_lt_trans_false a b c : ev_lt a b = false -> ev_lt b c = false -> ev_lt a c = false.
Proof.
  rewrite !ev_lt_false_iff. intros [X|[X1 X2]] [Y|[Y1 Y2]]; try (left; lia).
  right. split; [lia|].
  destruct (lex_lt (e_id a) (e_id c)) eqn:E; auto.
  destruct (lex_lt (e_id c) (e_id b)) eqn:E2.
  - pose proof (lex_lt_trans _ _ _ E E2). congruence.
  - assert (e_id b = e_id c) by (apply lex_total; auto). congruence.
Qed.

Lemma insert_desc_sorted e l : desc_sorted l -> desc_sorted (insert_desc e l).
Proof.
  induction 1 as [|y l Hy Hs IH]; cbn [insert_desc].
  - constructor; [intros x []|constructor].
  - destruct (ev_lt e y) eqn:E.
    + constructor; auto. intros x Hx. apply insert_desc_In in Hx. destruct Hx as [<-|Hx]; auto.
      (* ev_lt y e = false since ev_lt e y = true *)
      unfold ev_lt in *.
      destruct (N.ltb_spec (e_created e) (e_created y)), (N.ltb_spec (e_created y) (e_created e)); try lia; try discriminate; auto.
      apply lex_lt_asym. exact E.
    + constructor; [|constructor; auto]. intros x [<-|Hx]; auto.
      eapply ev_lt_trans_false; eauto.
Qed.
Lemma sort_desc_sorted l : desc_sorted (sort_desc l).
Proof. induction l as [|e l IH]; cbn [sort_desc]; [constructor|apply insert_desc_sorted; exact IH]. Qed.

Lemma desc_sorted_ltake n l : desc_sorted l -> desc_sorted (ltake n l).
Proof.
  intros H. revert n. induction H as [|e l He Hs IH]; intros n; cbn [ltake]; [constructor|].
  destruct (n =? 0); constructor; auto. intros x Hx. apply He. eapply ltake_In; eauto.
Qed.

Theorem a_query_meaning st f screen :
  (forall x, In x (a_query st f screen) ->
     In x (live st) /\ spec_matches f x = true /\ screen x = SMatch) /\
  desc_sorted (a_query st f screen) /\
  len (a_query st f screen) = N.min (f_limit f) (len (a_qualifying st f screen)) /\
  (forall x, In x (live st) -> spec_matches f x = true -> screen x = SMatch -> In x (a_qualifying st f screen)) /\
  a_query st f screen = ltake (f_limit f) (a_qualifying st f screen).
Proof.
  unfold a_query. split; [|split; [|split; [|split]]].
  - intros x H. apply ltake_In in H. unfold a_qualifying in H.
    apply (proj1 (sort_desc_In _ _)) in H. apply filter_In in H. destruct H as [H1 H2].
    apply andb_true_iff in H2. destruct H2 as [H2 H3]. repeat split; auto. destruct (screen x); auto; discriminate.
  - apply desc_sorted_ltake. apply sort_desc_sorted.
  - apply ltake_length.
  - intros x H1 H2 H3. unfold a_qualifying. apply (proj2 (sort_desc_In _ _)). apply filter_In. split; auto. rewrite H2, H3. reflexivity.
  - reflexivity.
Qed.

Theorem none_covered_reachable ops names e :
  let st := a_run ops (a_init names) in In e (live st) -> covered st e = false.
Proof. intros st. apply (inv_cov _ (a_run_inv ops _ (a_init_inv names))). Qed.
