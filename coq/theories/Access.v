(* Access.v — executable models of the accessors over the *raw bytes* of Tags, Event and
   Filter values (tags.rs 152-257, 268-320; event.rs 150-193; filter.rs 196-345, 526-605).
   Every Rust index/slice is a checked [get16]/[slice] here that yields [Panic] exactly when
   the Rust expression would panic.  No proofs in this file. *)
From Pocket Require Export Layout.

(* ---------------- Tags ---------------- *)
Definition tags_count (t : bytes) : res N := get16 t 2.

(* Tags::delineate(input) *)
Definition tags_delineate (input : bytes) : res bytes :=
  if len input <? 2 then Err EEnd else
  l <- get16 input 0 ;;
  if len input <? l then Err EEnd else Ok (take l input).

Fixpoint skip_strings (t : bytes) (endp : N) (k : nat) (offset : N) : res (option N) :=
  match k with
  | O => Ok (Some offset)
  | S k' =>
      l <- get16 t offset ;;
      let offset' := offset + 2 + l in
      if endp <? offset' then Ok None else skip_strings t endp k' offset'
  end.

(* Tags::get_string(tag, string) *)
Definition tags_get_string (t : bytes) (tag string : N) : res (option bytes) :=
  c <- tags_count t ;;
  if c <=? tag then Ok None else
  offset <- get16 t (4 + tag * 2) ;;
  count <- get16 t offset ;;
  let offset := offset + 2 in
  if count <=? string then Ok None else
  endp <- get16 t 0 ;;
  o <- skip_strings t endp (N.to_nat string) offset ;;
  match o with
  | None => Ok None
  | Some offset =>
      l <- get16 t offset ;;
      let offset := offset + 2 in
      if endp <? offset + l then Ok None else
      s <- slice t offset l ;; Ok (Some s)
  end.

(* TagsIter::next for tag number i: (count, cur_offset) *)
Definition tag_start (t : bytes) (i : N) : res (N * N) :=
  off <- get16 t (4 + i * 2) ;;
  c <- get16 t off ;;
  Ok (c, off + 2).

(* TagsStringIter::next at cur_offset: (string, next cur_offset) *)
Definition str_at (t : bytes) (cur : N) : res (bytes * N) :=
  l <- get16 t cur ;;
  s <- slice t (cur + 2) l ;;
  Ok (s, cur + 2 + l).

Fixpoint strs_from (t : bytes) (k : nat) (cur : N) : res (list bytes) :=
  match k with
  | O => Ok []
  | S k' => '(s, cur') <- str_at t cur ;; r <- strs_from t k' cur' ;; Ok (s :: r)
  end.

Fixpoint tags_from (t : bytes) (k : nat) (i : N) : res atags :=
  match k with
  | O => Ok []
  | S k' =>
      '(c, cur) <- tag_start t i ;;
      ss <- strs_from t (N.to_nat c) cur ;;
      r <- tags_from t k' (i + 1) ;;
      Ok (ss :: r)
  end.

(* full iteration: tags.iter().map(|t| t.collect()).collect() *)
Definition tags_iter_all (t : bytes) : res atags :=
  c <- tags_count t ;; tags_from t (N.to_nat c) 0.

(* first two strings of tag i, lazily as `tag.next()`, `tag.next()` do *)
Definition tag_first (t : bytes) (i : N) : res (option (bytes * N * N)) :=
  '(c, cur) <- tag_start t i ;;
  if c =? 0 then Ok None else
  '(s, cur') <- str_at t cur ;; Ok (Some (s, c, cur')).

(* Tags::matches(letter, value) *)
Fixpoint tags_matches_from (t : bytes) (k : nat) (i : N) (letter value : bytes) : res bool :=
  match k with
  | O => Ok false
  | S k' =>
      o <- tag_first t i ;;
      match o with
      | None => tags_matches_from t k' (i + 1) letter value
      | Some (s0, c, cur1) =>
          if beq s0 letter then
            if c <? 2 then tags_matches_from t k' (i + 1) letter value
            else
              '(s1, _) <- str_at t cur1 ;;
              if beq s1 value then Ok true else tags_matches_from t k' (i + 1) letter value
          else tags_matches_from t k' (i + 1) letter value
      end
  end.
Definition tags_matches (t : bytes) (letter value : bytes) : res bool :=
  c <- tags_count t ;; tags_matches_from t (N.to_nat c) 0 letter value.

(* Tags::get_value(key) *)
Fixpoint tags_get_value_from (t : bytes) (k : nat) (i : N) (key : bytes) : res (option bytes) :=
  match k with
  | O => Ok None
  | S k' =>
      o <- tags_get_string t i 0 ;;
      match o with
      | Some thing => if beq thing key then tags_get_string t i 1
                      else tags_get_value_from t k' (i + 1) key
      | None => tags_get_value_from t k' (i + 1) key
      end
  end.
Definition tags_get_value (t : bytes) (key : bytes) : res (option bytes) :=
  c <- tags_count t ;; tags_get_value_from t (N.to_nat c) 0 key.

(* ---------------- Event ---------------- *)
Definition ev_kind (e : bytes) : res N := get16 e 4.
Definition ev_created (e : bytes) : res N := get64 e 8.
Definition ev_id (e : bytes) : res bytes := slice e 16 32.
Definition ev_pk (e : bytes) : res bytes := slice e 48 32.
Definition ev_sig (e : bytes) : res bytes := slice e 80 64.
Definition ev_tags (e : bytes) : res bytes :=
  if len e <? 144 then Panic else tags_delineate (drop 144 e).
Definition ev_content (e : bytes) : res bytes :=
  t <- get16 e 144 ;; c <- get32 e (144 + t) ;; slice e (144 + t + 4) c.

(* Event::delineate(input) *)
Definition ev_delineate (input : bytes) : res bytes :=
  if len input <? 152 then Err EEnd else
  l <- get32 input 0 ;;
  if len input <? l then Err EEnd else Ok (take l input).

(* ---------------- Filter ---------------- *)
Definition fl_num_ids (f : bytes) : res N := get16 f 4.
Definition fl_num_authors (f : bytes) : res N := get16 f 6.
Definition fl_num_kinds (f : bytes) : res N := get16 f 8.
Definition fl_limit (f : bytes) : res N := get32 f 12.
Definition fl_since (f : bytes) : res N := get64 f 16.
Definition fl_until (f : bytes) : res N := get64 f 24.

(* the three bounded iterators: item number i at [start + i*size]; `None` (end of
   iteration) when the structure is too short *)
Fixpoint fl_items32 (f : bytes) (k : nat) (off : N) : res (list bytes) :=
  match k with
  | O => Ok []
  | S k' => if len f <? off + 32 then Ok [] else
            s <- slice f off 32 ;; r <- fl_items32 f k' (off + 32) ;; Ok (s :: r)
  end.
Fixpoint fl_items16 (f : bytes) (k : nat) (off : N) : res (list N) :=
  match k with
  | O => Ok []
  | S k' => if len f <? off + 2 then Ok [] else
            s <- get16 f off ;; r <- fl_items16 f k' (off + 2) ;; Ok (s :: r)
  end.
Definition fl_ids (f : bytes) : res (list bytes) :=
  n <- fl_num_ids f ;; fl_items32 f (N.to_nat n) 32.
Definition fl_authors (f : bytes) : res (list bytes) :=
  ni <- fl_num_ids f ;; n <- fl_num_authors f ;; fl_items32 f (N.to_nat n) (32 + ni * 32).
Definition fl_kinds (f : bytes) : res (list N) :=
  ni <- fl_num_ids f ;; na <- fl_num_authors f ;; n <- fl_num_kinds f ;;
  fl_items16 f (N.to_nat n) (32 + ni * 32 + na * 32).
Definition fl_tags (f : bytes) : res bytes :=
  ni <- fl_num_ids f ;; na <- fl_num_authors f ;; nk <- fl_num_kinds f ;;
  let start := 32 + ni * 32 + na * 32 + nk * 2 in
  if len f <? start then Panic else tags_delineate (drop start f).

(* ---------------- Filter::event_matches ---------------- *)
(* inner loop: `while let Some(value) = filter_tags.get_string(i, j)` *)
Fixpoint match_values (fuel : nat) (ft et : bytes) (i j : N) (letter : bytes) : res bool :=
  match fuel with
  | O => OutOfFuel
  | S fuel' =>
      o <- tags_get_string ft i j ;;
      match o with
      | None => Ok false
      | Some value =>
          m <- tags_matches et letter value ;;
          if m then Ok true else match_values fuel' ft et i (j + 1) letter
      end
  end.

(* outer loop: `while let Some(letter) = filter_tags.get_string(i, 0)` *)
Fixpoint match_constraints (fuel : nat) (ft et : bytes) (i : N) : res bool :=
  match fuel with
  | O => OutOfFuel
  | S fuel' =>
      o <- tags_get_string ft i 0 ;;
      match o with
      | None => Ok true
      | Some letter =>
          found <- match_values (S (N.to_nat (len ft))) ft et i 1 letter ;;
          if found then match_constraints fuel' ft et (i + 1) else Ok false
      end
  end.

Definition event_matches (f e : bytes) : res bool :=
  ni <- fl_num_ids f ;;
  ids <- (if ni =? 0 then Ok [] else fl_ids f) ;;
  eid <- (match ids with [] => Ok [] | _ => ev_id e end) ;;
  if negb (ni =? 0) && negb (existsb (fun i => beq i eid) ids) then Ok false else
  na <- fl_num_authors f ;;
  aus <- (if na =? 0 then Ok [] else fl_authors f) ;;
  epk <- (match aus with [] => Ok [] | _ => ev_pk e end) ;;
  if negb (na =? 0) && negb (existsb (fun a => beq a epk) aus) then Ok false else
  nk <- fl_num_kinds f ;;
  ks <- (if nk =? 0 then Ok [] else fl_kinds f) ;;
  ek <- (match ks with [] => Ok 0 | _ => ev_kind e end) ;;
  if negb (nk =? 0) && negb (existsb (fun k => k =? ek) ks) then Ok false else
  ec <- ev_created e ;;
  since <- fl_since f ;;
  if ec <? since then Ok false else
  ec <- ev_created e ;;
  until <- fl_until f ;;
  if until <? ec then Ok false else
  ft <- fl_tags f ;;
  fc <- tags_count ft ;;
  if fc =? 0 then Ok true else
  et <- ev_tags e ;;
  etc <- tags_count et ;;
  if etc =? 0 then Ok false else
  match_constraints (S (N.to_nat (len ft))) ft et 0.
