(* AccessProofs.v — the accessor models of Access.v, run on the specification encodings of
   Layout.v, return the abstract parts (for all sizes that fit the length fields). *)
From Pocket Require Import Access.

(* [at_pos w p suf]: [suf] is the suffix of [w] that starts at offset [p] *)
Definition at_pos (w : bytes) (p : N) (suf : bytes) : Prop :=
  exists pre, w = pre ++ suf /\ len pre = p.

Lemma at_pos_0 w : at_pos w 0 w.
Proof. exists []. split; reflexivity. Qed.
Lemma at_pos_drop w p suf : at_pos w p suf -> drop p w = suf.
Proof. intros (pre & -> & <-). apply drop_app_len. Qed.
Lemma at_pos_len w p suf : at_pos w p suf -> p + len suf = len w.
Proof. intros (pre & -> & <-). rewrite len_app. reflexivity. Qed.
Lemma at_pos_shift w p a r : at_pos w p (a ++ r) -> at_pos w (p + len a) r.
Proof.
  intros (pre & -> & <-). exists (pre ++ a). split.
  - rewrite <- app_assoc. reflexivity.
  - apply len_app.
Qed.
Lemma at_pos_get16 w p v r : at_pos w p (le16 v ++ r) -> v < 65536 -> get16 w p = Ok v.
Proof. intros H Hv. unfold get16. rewrite (at_pos_drop _ _ _ H), rd16_le16; auto. Qed.
Lemma at_pos_get32 w p v r : at_pos w p (le32 v ++ r) -> v < 4294967296 -> get32 w p = Ok v.
Proof. intros H Hv. unfold get32. rewrite (at_pos_drop _ _ _ H), rd32_le32; auto. Qed.
Lemma at_pos_get64 w p v r : at_pos w p (le64 v ++ r) -> v < 18446744073709551616 -> get64 w p = Ok v.
Proof. intros H Hv. unfold get64. rewrite (at_pos_drop _ _ _ H), rd64_le64; auto. Qed.
Lemma at_pos_slice w p s r n : at_pos w p (s ++ r) -> n = len s -> slice w p n = Ok s.
Proof.
  intros H ->. unfold slice. pose proof (at_pos_len _ _ _ H) as L. rewrite len_app in L.
  destruct (N.leb_spec (p + len s) (len w)) as [_|C]; [|lia].
  rewrite (at_pos_drop _ _ _ H), take_app_len. reflexivity.
Qed.
Lemma at_pos_app w p a r : at_pos w p (a ++ r) -> at_pos w p (a ++ r). Proof. auto. Qed.

Lemma get16_pre (a r : bytes) x p : len a = p -> x < 65536 -> get16 (a ++ le16 x ++ r) p = Ok x.
Proof. intros <-. apply get16_at. Qed.
Lemma get32_pre (a r : bytes) x p : len a = p -> x < 4294967296 -> get32 (a ++ le32 x ++ r) p = Ok x.
Proof. intros <-. apply get32_at. Qed.
Lemma get64_pre (a r : bytes) x p : len a = p -> x < 18446744073709551616 -> get64 (a ++ le64 x ++ r) p = Ok x.
Proof. intros <-. apply get64_at. Qed.
Lemma slice_pre (a m r : bytes) p n : len a = p -> len m = n -> slice (a ++ m ++ r) p n = Ok m.
Proof. intros <- <-. apply slice_app_mid. Qed.

(* ---------- offsets ---------- *)
Lemma offsets_nth base ts i t :
  nth_error ts i = Some t ->
  nth_error (offsets base ts) i = Some (base + sumN (map tag_size (firstn i ts))).
Proof.
  revert base i; induction ts as [|t0 r IH]; intros base [|i]; cbn [nth_error offsets firstn map sumN]; try discriminate.
  - intros _. f_equal. lia.
  - intros H. rewrite (IH _ _ H). f_equal. lia.
Qed.

Lemma sumN_firstn_le (l : list N) i : sumN (firstn i l) <= sumN l.
Proof.
  revert i; induction l as [|x l IH]; intros [|i]; cbn [firstn sumN]; try lia.
  specialize (IH i). lia.
Qed.

Lemma rd16_table (offs : list N) r i v :
  nth_error offs i = Some v -> v < 65536 ->
  rd16 (drop (2 * N.of_nat i) (concat (map le16 offs) ++ r)) = Some v.
Proof.
  revert i; induction offs as [|o offs IH]; intros [|i]; cbn [nth_error]; try discriminate.
  - intros [= ->] Hv. cbn [map concat]. rewrite <- app_assoc. apply rd16_le16. exact Hv.
  - intros H Hv. cbn [map concat]. rewrite <- app_assoc.
    replace (2 * N.of_nat (S i)) with (len (le16 o) + 2 * N.of_nat i) by (rewrite len_le16; lia).
    rewrite drop_add_app. apply IH; auto.
Qed.

Section TagsEnc.
  Variable ts : atags.
  Hypothesis Hfit : fits_tags ts.
  Let w := enc_tags ts.

  Lemma tags_count_enc : tags_count w = Ok (len ts).
  Proof.
    unfold tags_count, w, enc_tags.
    change 2 with (len (le16 (tags_size ts))). apply get16_at.
    unfold fits_tags, tags_size, tags_hdr in Hfit. lia.
  Qed.

  Lemma tags_end_enc : get16 w 0 = Ok (tags_size ts).
  Proof.
    unfold w, enc_tags. apply (get16_at []). exact Hfit.
  Qed.

  Definition tag_off (i : nat) : N := tags_hdr ts + sumN (map tag_size (firstn i ts)).

  Lemma tag_off_lt i : tag_off i <= tags_size ts.
  Proof.
    unfold tag_off, tags_size. rewrite <- firstn_map.
    pose proof (sumN_firstn_le (map tag_size ts) i). lia.
  Qed.

  Lemma tag_off_read i t : nth_error ts i = Some t -> get16 w (4 + N.of_nat i * 2) = Ok (tag_off i).
  Proof.
    intros H. unfold get16, w, enc_tags.
    rewrite app_assoc.
    replace (4 + N.of_nat i * 2) with (len (le16 (tags_size ts) ++ le16 (len ts)) + 2 * N.of_nat i)
      by (rewrite len_app, !len_le16; lia).
    rewrite drop_add_app.
    rewrite (rd16_table _ _ i (tag_off i)); auto.
    - apply offsets_nth with (t := t). exact H.
    - pose proof (tag_off_lt i). unfold fits_tags in Hfit. lia.
  Qed.

  Lemma tag_at i t :
    nth_error ts i = Some t ->
    at_pos w (tag_off i) (enc_tag t ++ concat (map enc_tag (skipn (S i) ts))).
  Proof.
    intros H. unfold w, enc_tags.
    exists (le16 (tags_size ts) ++ le16 (len ts) ++ concat (map le16 (offsets (tags_hdr ts) ts))
            ++ concat (map enc_tag (firstn i ts))).
    split.
    - rewrite <- !app_assoc. do 3 f_equal.
      rewrite <- (firstn_skipn i ts) at 1. rewrite map_app, concat_app. f_equal.
      assert (E : skipn i ts = t :: skipn (S i) ts).
      { clear -H. revert i H; induction ts as [|x l IH]; intros [|i]; cbn [nth_error skipn]; try discriminate.
        - intros [= ->]. reflexivity.
        - intros H. apply IH. exact H. }
      rewrite E. reflexivity.
    - rewrite !len_app, !len_le16, len_offtab.
      rewrite (len_concat_map enc_tag tag_size) by apply len_enc_tag.
      unfold tag_off, tags_hdr. lia.
  Qed.

  Lemma tag_start_enc i t :
    nth_error ts i = Some t ->
    tag_start w (N.of_nat i) = Ok (len t, tag_off i + 2) /\
    at_pos w (tag_off i + 2) (concat (map enc_str t) ++ concat (map enc_tag (skipn (S i) ts))).
  Proof.
    intros H. pose proof (tag_at i t H) as A. unfold enc_tag in A. rewrite <- app_assoc in A.
    assert (Ht : len t < 65536).
    { pose proof (at_pos_len _ _ _ A) as L. unfold w in L. rewrite len_enc_tags in L.
      rewrite !len_app, len_le16 in L.
      assert (len t <= len (concat (map enc_str t))).
      { rewrite (len_concat_map enc_str str_size) by apply len_enc_str.
        clear. induction t as [|s l IH]; cbn [map sumN]; [rewrite len_nil; lia|].
        rewrite len_cons. unfold str_size at 1. lia. }
      unfold fits_tags in Hfit. lia. }
    split.
    - unfold tag_start. rewrite (tag_off_read i t H). cbn [bind].
      rewrite (at_pos_get16 _ _ _ _ A Ht). reflexivity.
    - apply at_pos_shift in A. rewrite len_le16 in A. exact A.
  Qed.

  (* walking the strings of one tag *)
  Lemma str_at_enc cur s r :
    at_pos w cur (enc_str s ++ r) ->
    str_at w cur = Ok (s, cur + 2 + len s) /\ at_pos w (cur + 2 + len s) r.
  Proof.
    intros A. unfold enc_str in A. rewrite <- app_assoc in A.
    assert (Hs : len s < 65536).
    { pose proof (at_pos_len _ _ _ A) as L. unfold w in L. rewrite len_enc_tags in L.
      rewrite !len_app, len_le16 in L. unfold fits_tags in Hfit. lia. }
    pose proof (at_pos_shift _ _ _ _ A) as B. rewrite len_le16 in B.
    split.
    - unfold str_at. rewrite (at_pos_get16 _ _ _ _ A Hs). cbn [bind].
      rewrite (at_pos_slice _ _ _ _ _ B eq_refl). reflexivity.
    - apply at_pos_shift in B. rewrite <- N.add_assoc in B |- *. exact B.
  Qed.

  Lemma strs_from_enc t cur r :
    at_pos w cur (concat (map enc_str t) ++ r) ->
    strs_from w (length t) cur = Ok t.
  Proof.
    revert cur; induction t as [|s l IH]; intros cur A; cbn [length strs_from]; auto.
    cbn [map concat] in A. rewrite <- app_assoc in A.
    destruct (str_at_enc _ _ _ A) as [E B]. rewrite E. cbn [bind].
    rewrite (IH _ B). reflexivity.
  Qed.

  Lemma tags_from_enc k i :
    (i + k = length ts)%nat ->
    tags_from w k (N.of_nat i) = Ok (skipn i ts).
  Proof.
    revert i; induction k as [|k IH]; intros i Hik; cbn [tags_from].
    - rewrite skipn_all2 by lia. reflexivity.
    - destruct (nth_error ts i) as [t|] eqn:Ht.
      2:{ apply nth_error_None in Ht. lia. }
      destruct (tag_start_enc i t Ht) as [E A]. rewrite E. cbn [bind].
      unfold len at 1. rewrite Nat2N.id. rewrite (strs_from_enc _ _ _ A). cbn [bind].
      replace (N.of_nat i + 1) with (N.of_nat (S i)) by lia.
      rewrite IH by lia. cbn [bind].
      f_equal. clear -Ht. revert i Ht; induction ts as [|x l IH]; intros [|i]; cbn [nth_error skipn]; try discriminate.
      + intros [= ->]. reflexivity.
      + intros H. apply IH. exact H.
  Qed.

  Theorem tags_iter_all_enc : tags_iter_all w = Ok ts.
  Proof.
    unfold tags_iter_all. rewrite tags_count_enc. cbn [bind].
    unfold len. rewrite Nat2N.id. apply (tags_from_enc (length ts) 0). lia.
  Qed.

  (* skip_strings over j strings of a tag *)
  Lemma skip_strings_enc t j cur r :
    at_pos w cur (concat (map enc_str t) ++ r) -> (j <= length t)%nat ->
    exists cur', skip_strings w (tags_size ts) j cur = Ok (Some cur') /\
                 at_pos w cur' (concat (map enc_str (skipn j t)) ++ r).
  Proof.
    revert t cur; induction j as [|j IH]; intros t cur A Hj; cbn [skip_strings skipn].
    - exists cur. split; auto.
    - destruct t as [|s l]; [cbn in Hj; lia|].
      cbn [map concat] in A. rewrite <- app_assoc in A.
      destruct (str_at_enc _ _ _ A) as [_ B].
      unfold enc_str in A. rewrite <- app_assoc in A.
      assert (Hs : len s < 65536).
      { pose proof (at_pos_len _ _ _ A) as L. unfold w in L. rewrite len_enc_tags in L.
        rewrite !len_app, len_le16 in L. unfold fits_tags in Hfit. lia. }
      rewrite (at_pos_get16 _ _ _ _ A Hs). cbn [bind].
      pose proof (at_pos_len _ _ _ B) as LB. unfold w in LB. rewrite len_enc_tags in LB.
      destruct (N.ltb_spec (tags_size ts) (cur + 2 + len s)) as [C|_]; [lia|].
      cbn [length] in Hj. apply (IH l _ B). lia.
  Qed.

  Theorem tags_get_string_enc i j :
    tags_get_string w (N.of_nat i) (N.of_nat j) =
    Ok (match nth_error ts i with Some t => nth_error t j | None => None end).
  Proof.
    unfold tags_get_string. rewrite tags_count_enc. cbn [bind].
    destruct (nth_error ts i) as [t|] eqn:Ht.
    2:{ apply nth_error_None in Ht.
        destruct (N.leb_spec (len ts) (N.of_nat i)) as [_|C]; [reflexivity|unfold len in C; lia]. }
    assert (Hi : (i < length ts)%nat) by (apply nth_error_Some; congruence).
    destruct (N.leb_spec (len ts) (N.of_nat i)) as [C|_]; [unfold len in C; lia|].
    rewrite (tag_off_read i t Ht). cbn [bind].
    destruct (tag_start_enc i t Ht) as [E A]. unfold tag_start in E.
    rewrite (tag_off_read i t Ht) in E. cbn [bind] in E.
    destruct (get16 w (tag_off i)) as [c| | |] eqn:Ec; cbn [bind] in E; try discriminate.
    injection E as ->. cbn [bind].
    destruct (nth_error t j) as [s|] eqn:Hs.
    2:{ apply nth_error_None in Hs.
        destruct (N.leb_spec (len t) (N.of_nat j)) as [_|C]; [reflexivity|unfold len in C; lia]. }
    assert (Hj : (j < length t)%nat) by (apply nth_error_Some; congruence).
    destruct (N.leb_spec (len t) (N.of_nat j)) as [C|_]; [unfold len in C; lia|].
    rewrite tags_end_enc. cbn [bind]. rewrite Nat2N.id.
    destruct (skip_strings_enc t j _ _ A) as (cur' & Ek & B); [lia|].
    rewrite Ek. cbn [bind].
    assert (Es : skipn j t = s :: skipn (S j) t).
    { clear -Hs. revert j Hs; induction t as [|x l IH]; intros [|j]; cbn [nth_error skipn]; try discriminate.
      - intros [= ->]. reflexivity.
      - intros H. apply IH. exact H. }
    rewrite Es in B. cbn [map concat] in B. rewrite <- app_assoc in B.
    destruct (str_at_enc _ _ _ B) as [E2 B2]. unfold str_at in E2.
    destruct (get16 w cur') as [l| | |] eqn:El; cbn [bind] in E2; try discriminate.
    cbn [bind].
    destruct (slice w (cur' + 2) l) as [s'| | |] eqn:Esl; cbn [bind] in E2; try discriminate.
    injection E2 as -> E3.
    pose proof (at_pos_len _ _ _ B2) as LB. unfold w in LB. rewrite len_enc_tags in LB.
    assert (l = len s) by lia. subst l.
    destruct (N.ltb_spec (tags_size ts) (cur' + 2 + len s)) as [C|_]; [lia|].
    reflexivity.
  Qed.

  (* Tags::matches *)

  Lemma tags_matches_from_enc letter value k i :
    (i + k = length ts)%nat ->
    tags_matches_from w k (N.of_nat i) letter value = Ok (existsb (tag_is letter value) (skipn i ts)).
  Proof.
    revert i; induction k as [|k IH]; intros i Hik; cbn [tags_matches_from].
    - rewrite skipn_all2 by lia. reflexivity.
    - destruct (nth_error ts i) as [t|] eqn:Ht.
      2:{ apply nth_error_None in Ht. lia. }
      assert (Es : skipn i ts = t :: skipn (S i) ts).
      { clear -Ht. revert i Ht; induction ts as [|x l IH']; intros [|i]; cbn [nth_error skipn]; try discriminate.
        - intros [= ->]. reflexivity.
        - intros H. apply IH'. exact H. }
      rewrite Es. cbn [existsb].
      replace (N.of_nat i + 1) with (N.of_nat (S i)) by lia.
      specialize (IH (S i) ltac:(lia)).
      destruct (tag_start_enc i t Ht) as [E A].
      unfold tag_first. rewrite E. cbn [bind].
      destruct t as [|s0 t'].
      + cbn [tag_is]. change (len (@nil bytes)) with 0. cbn [N.eqb bind orb].
        rewrite N.eqb_refl. cbn [bind]. exact IH.
      + rewrite len_cons.
        destruct (N.eqb_spec (1 + len t') 0) as [C|_]; [lia|].
        cbn [map concat] in A. rewrite <- app_assoc in A.
        destruct (str_at_enc _ _ _ A) as [E1 B]. rewrite E1. cbn [bind].
        destruct (beq s0 letter) eqn:Eb.
        * destruct t' as [|s1 t''].
          -- change (len (@nil bytes)) with 0.
             destruct (N.ltb_spec (1 + 0) 2) as [_|C]; [|lia].
             cbn [tag_is orb]. exact IH.
          -- rewrite len_cons.
             destruct (N.ltb_spec (1 + (1 + len t'')) 2) as [C|_]; [lia|].
             cbn [map concat] in B. rewrite <- app_assoc in B.
             destruct (str_at_enc _ _ _ B) as [E2 _]. rewrite E2. cbn [bind].
             cbn [tag_is]. rewrite Eb. cbn [andb].
             destruct (beq s1 value); cbn [orb]; [reflexivity|exact IH].
        * assert (tag_is letter value (s0 :: t') = false) as ->.
          { destruct t'; cbn [tag_is]; auto. rewrite Eb. reflexivity. }
          cbn [orb]. exact IH.
  Qed.

  Theorem tags_matches_enc letter value :
    tags_matches w letter value = Ok (existsb (tag_is letter value) ts).
  Proof.
    unfold tags_matches. rewrite tags_count_enc. cbn [bind]. unfold len. rewrite Nat2N.id.
    apply (tags_matches_from_enc letter value (length ts) 0). lia.
  Qed.

  (* Tags::get_value *)
  Lemma tags_get_value_from_enc key k i :
    (i + k = length ts)%nat ->
    tags_get_value_from w k (N.of_nat i) key = Ok (spec_get_value key (skipn i ts)).
  Proof.
    revert i; induction k as [|k IH]; intros i Hik; cbn [tags_get_value_from].
    - rewrite skipn_all2 by lia. reflexivity.
    - destruct (nth_error ts i) as [t|] eqn:Ht.
      2:{ apply nth_error_None in Ht. lia. }
      assert (Es : skipn i ts = t :: skipn (S i) ts).
      { clear -Ht. revert i Ht; induction ts as [|x l IH']; intros [|i]; cbn [nth_error skipn]; try discriminate.
        - intros [= ->]. reflexivity.
        - intros H. apply IH'. exact H. }
      rewrite Es.
      replace (N.of_nat i + 1) with (N.of_nat (S i)) by lia.
      specialize (IH (S i) ltac:(lia)).
      change 0 with (N.of_nat 0). rewrite tags_get_string_enc, Ht. cbn [bind].
      destruct t as [|n rest]; cbn [nth_error spec_get_value]; [exact IH|].
      destruct (beq n key); [|exact IH].
      change 1 with (N.of_nat 1). rewrite tags_get_string_enc, Ht. reflexivity.
  Qed.

  Theorem tags_get_value_enc key :
    tags_get_value w key = Ok (spec_get_value key ts).
  Proof.
    unfold tags_get_value. rewrite tags_count_enc. cbn [bind]. unfold len. rewrite Nat2N.id.
    apply (tags_get_value_from_enc key (length ts) 0). lia.
  Qed.

  Lemma tags_delineate_enc r : tags_delineate (w ++ r) = Ok w.
  Proof.
    unfold tags_delineate. rewrite len_app. subst w. rewrite len_enc_tags.
    assert (4 <= tags_size ts) by (unfold tags_size, tags_hdr; lia).
    destruct (N.ltb_spec (tags_size ts + len r) 2) as [C|_]; [lia|].
    assert (E : get16 (enc_tags ts ++ r) 0 = Ok (tags_size ts)).
    { unfold enc_tags. rewrite <- app_assoc. apply (get16_at []). exact Hfit. }
    rewrite E. cbn [bind].
    destruct (N.ltb_spec (tags_size ts + len r) (tags_size ts)) as [C|_]; [lia|].
    rewrite <- (len_enc_tags ts). rewrite take_app_len. reflexivity.
  Qed.
End TagsEnc.

(* ---------- events ---------- *)
Section EventEnc.
  Variable e : aevent.
  Hypothesis Hwf : wf_aevent e.
  Hypothesis Hfit : fits_event e.
  Let w := enc_event e.

  Lemma ev_kind_enc : ev_kind w = Ok (e_kind e).
  Proof.
    destruct Hwf as (_ & _ & _ & Hk & _).
    unfold ev_kind, w, enc_event. apply get16_pre; [reflexivity|exact Hk].
  Qed.
  Lemma ev_created_enc : ev_created w = Ok (e_created e).
  Proof.
    destruct Hwf as (_ & _ & _ & _ & Hc). unfold ev_created.
    replace w with ((le32 (event_size e) ++ le16 (e_kind e) ++ [0; 0]) ++ le64 (e_created e)
      ++ e_id e ++ e_pk e ++ e_sig e ++ enc_tags (e_tags e) ++ le32 (len (e_content e)) ++ e_content e)
      by (unfold w, enc_event; rewrite <- !app_assoc; reflexivity).
    apply get64_pre; [reflexivity|exact Hc].
  Qed.
  Lemma ev_id_enc : ev_id w = Ok (e_id e).
  Proof.
    destruct Hwf as (Hi & _). unfold ev_id.
    replace w with ((le32 (event_size e) ++ le16 (e_kind e) ++ [0; 0] ++ le64 (e_created e))
      ++ e_id e ++ e_pk e ++ e_sig e ++ enc_tags (e_tags e) ++ le32 (len (e_content e)) ++ e_content e)
      by (unfold w, enc_event; rewrite <- !app_assoc; reflexivity).
    apply slice_pre; [reflexivity|exact Hi].
  Qed.
  Lemma ev_pk_enc : ev_pk w = Ok (e_pk e).
  Proof.
    destruct Hwf as (Hi & Hp & _). unfold ev_pk.
    replace w with ((le32 (event_size e) ++ le16 (e_kind e) ++ [0; 0] ++ le64 (e_created e) ++ e_id e)
      ++ e_pk e ++ e_sig e ++ enc_tags (e_tags e) ++ le32 (len (e_content e)) ++ e_content e)
      by (unfold w, enc_event; rewrite <- !app_assoc; reflexivity).
    apply slice_pre; [rewrite !len_app, Hi; reflexivity|exact Hp].
  Qed.
  Lemma ev_sig_enc : ev_sig w = Ok (e_sig e).
  Proof.
    destruct Hwf as (Hi & Hp & Hs & _). unfold ev_sig.
    replace w with ((le32 (event_size e) ++ le16 (e_kind e) ++ [0; 0] ++ le64 (e_created e) ++ e_id e ++ e_pk e)
      ++ e_sig e ++ enc_tags (e_tags e) ++ le32 (len (e_content e)) ++ e_content e)
      by (unfold w, enc_event; rewrite <- !app_assoc; reflexivity).
    apply slice_pre; [rewrite !len_app, Hi, Hp; reflexivity|exact Hs].
  Qed.

  Lemma ev_split :
    w = (le32 (event_size e) ++ le16 (e_kind e) ++ [0; 0] ++ le64 (e_created e)
         ++ e_id e ++ e_pk e ++ e_sig e)
        ++ enc_tags (e_tags e) ++ le32 (len (e_content e)) ++ e_content e /\
    len (le32 (event_size e) ++ le16 (e_kind e) ++ [0; 0] ++ le64 (e_created e)
         ++ e_id e ++ e_pk e ++ e_sig e) = 144.
  Proof.
    destruct Hwf as (Hi & Hp & Hs & _). split.
    - unfold w, enc_event. rewrite <- !app_assoc. reflexivity.
    - rewrite !len_app, Hi, Hp, Hs. reflexivity.
  Qed.

  Lemma ev_tags_enc : ev_tags w = Ok (enc_tags (e_tags e)).
  Proof.
    destruct ev_split as [E L]. destruct Hfit as [Ht _].
    unfold ev_tags. change (len w) with (len (enc_event e)). rewrite (len_enc_event _ Hwf).
    destruct (N.ltb_spec (event_size e) 144) as [C|_]; [unfold event_size in C; lia|].
    rewrite E. rewrite <- L. rewrite drop_app_len. apply tags_delineate_enc. exact Ht.
  Qed.

  Lemma ev_content_enc : ev_content w = Ok (e_content e).
  Proof.
    destruct ev_split as [E L]. destruct Hfit as [Ht Hs].
    unfold ev_content.
    assert (A : at_pos w 144 (enc_tags (e_tags e) ++ le32 (len (e_content e)) ++ e_content e)).
    { eexists. split; [exact E|exact L]. }
    assert (G : get16 w 144 = Ok (tags_size (e_tags e))).
    { unfold enc_tags in A. rewrite <- app_assoc in A. apply (at_pos_get16 _ _ _ _ A). exact Ht. }
    rewrite G. cbn [bind].
    apply at_pos_shift in A. rewrite len_enc_tags in A.
    assert (Hc : len (e_content e) < 4294967296) by (unfold event_size in Hs; lia).
    rewrite (at_pos_get32 _ _ _ _ A Hc). cbn [bind].
    apply at_pos_shift in A. rewrite len_le32 in A.
    rewrite <- (app_nil_r (e_content e)) in A.
    apply (at_pos_slice _ _ _ _ _ A). reflexivity.
  Qed.

  Lemma ev_delineate_enc r : ev_delineate (w ++ r) = Ok w.
  Proof.
    destruct Hfit as [_ Hs].
    unfold ev_delineate. rewrite len_app. subst w. rewrite (len_enc_event _ Hwf).
    destruct (N.ltb_spec (event_size e + len r) 152) as [C|_].
    { unfold event_size, tags_size, tags_hdr in C. lia. }
    assert (G : get32 (enc_event e ++ r) 0 = Ok (event_size e)).
    { unfold enc_event. rewrite <- app_assoc. apply (get32_at []). exact Hs. }
    rewrite G. cbn [bind].
    destruct (N.ltb_spec (event_size e + len r) (event_size e)) as [C|_]; [lia|].
    rewrite <- (len_enc_event _ Hwf). rewrite take_app_len. reflexivity.
  Qed.
End EventEnc.

(* ---------- filters ---------- *)
Lemma fl_items32_enc (w : bytes) (l : list bytes) off r :
  Forall (fun x => len x = 32) l -> at_pos w off (concat l ++ r) ->
  fl_items32 w (length l) off = Ok l.
Proof.
  intros Hl. revert off. induction Hl as [|x l Hx _ IH]; intros off A; cbn [length fl_items32]; auto.
  cbn [concat] in A. rewrite <- app_assoc in A.
  pose proof (at_pos_len _ _ _ A) as L. rewrite len_app, Hx in L.
  destruct (N.ltb_spec (len w) (off + 32)) as [C|_]; [lia|].
  rewrite (at_pos_slice _ _ _ _ _ A) by (symmetry; exact Hx). cbn [bind].
  apply at_pos_shift in A. rewrite Hx in A. rewrite (IH _ A). reflexivity.
Qed.
Lemma fl_items16_enc (w : bytes) (l : list N) off r :
  Forall (fun x => x < 65536) l -> at_pos w off (concat (map le16 l) ++ r) ->
  fl_items16 w (length l) off = Ok l.
Proof.
  intros Hl. revert off. induction Hl as [|x l Hx _ IH]; intros off A; cbn [length fl_items16]; auto.
  cbn [map concat] in A. rewrite <- app_assoc in A.
  pose proof (at_pos_len _ _ _ A) as L. rewrite len_app, len_le16 in L.
  destruct (N.ltb_spec (len w) (off + 2)) as [C|_]; [lia|].
  rewrite (at_pos_get16 _ _ _ _ A Hx). cbn [bind].
  apply at_pos_shift in A. rewrite len_le16 in A. rewrite (IH _ A). reflexivity.
Qed.

Section FilterEnc.
  Variable f : afilter.
  Hypothesis Hwf : wf_afilter f.
  Hypothesis Hfit : fits_filter f.
  Let w := enc_filter f.

  Let hdr := le32 (filter_size f) ++ le16 (len (f_ids f)) ++ le16 (len (f_authors f))
             ++ le16 (len (f_kinds f)) ++ [0; 0] ++ le32 (f_limit f) ++ le64 (f_since f) ++ le64 (f_until f).
  Lemma fl_split :
    w = hdr ++ concat (f_ids f) ++ concat (f_authors f) ++ concat (map le16 (f_kinds f)) ++ enc_tags (f_tags f)
    /\ len hdr = 32.
  Proof. split; [unfold w, enc_filter, hdr; rewrite <- !app_assoc; reflexivity | reflexivity]. Qed.

  Lemma fl_num_ids_enc : fl_num_ids w = Ok (len (f_ids f)).
  Proof.
    destruct Hfit as (H & _). unfold fl_num_ids, w, enc_filter.
    apply get16_pre; [reflexivity|exact H].
  Qed.
  Lemma fl_num_authors_enc : fl_num_authors w = Ok (len (f_authors f)).
  Proof.
    destruct Hfit as (_ & H & _). unfold fl_num_authors.
    replace w with ((le32 (filter_size f) ++ le16 (len (f_ids f))) ++ le16 (len (f_authors f)) ++ le16 (len (f_kinds f))
      ++ [0; 0] ++ le32 (f_limit f) ++ le64 (f_since f) ++ le64 (f_until f)
      ++ concat (f_ids f) ++ concat (f_authors f) ++ concat (map le16 (f_kinds f)) ++ enc_tags (f_tags f))
      by (unfold w, enc_filter; rewrite <- !app_assoc; reflexivity).
    apply get16_pre; [reflexivity|exact H].
  Qed.
  Lemma fl_num_kinds_enc : fl_num_kinds w = Ok (len (f_kinds f)).
  Proof.
    destruct Hfit as (_ & _ & H & _). unfold fl_num_kinds.
    replace w with ((le32 (filter_size f) ++ le16 (len (f_ids f)) ++ le16 (len (f_authors f))) ++ le16 (len (f_kinds f))
      ++ [0; 0] ++ le32 (f_limit f) ++ le64 (f_since f) ++ le64 (f_until f)
      ++ concat (f_ids f) ++ concat (f_authors f) ++ concat (map le16 (f_kinds f)) ++ enc_tags (f_tags f))
      by (unfold w, enc_filter; rewrite <- !app_assoc; reflexivity).
    apply get16_pre; [reflexivity|exact H].
  Qed.
  Lemma fl_limit_enc : fl_limit w = Ok (f_limit f).
  Proof.
    destruct Hwf as (_ & _ & _ & _ & _ & H). unfold fl_limit.
    replace w with ((le32 (filter_size f) ++ le16 (len (f_ids f)) ++ le16 (len (f_authors f)) ++ le16 (len (f_kinds f))
      ++ [0; 0]) ++ le32 (f_limit f) ++ le64 (f_since f) ++ le64 (f_until f)
      ++ concat (f_ids f) ++ concat (f_authors f) ++ concat (map le16 (f_kinds f)) ++ enc_tags (f_tags f))
      by (unfold w, enc_filter; rewrite <- !app_assoc; reflexivity).
    apply get32_pre; [reflexivity|exact H].
  Qed.
  Lemma fl_since_enc : fl_since w = Ok (f_since f).
  Proof.
    destruct Hwf as (_ & _ & _ & H & _). unfold fl_since.
    replace w with ((le32 (filter_size f) ++ le16 (len (f_ids f)) ++ le16 (len (f_authors f)) ++ le16 (len (f_kinds f))
      ++ [0; 0] ++ le32 (f_limit f)) ++ le64 (f_since f) ++ le64 (f_until f)
      ++ concat (f_ids f) ++ concat (f_authors f) ++ concat (map le16 (f_kinds f)) ++ enc_tags (f_tags f))
      by (unfold w, enc_filter; rewrite <- !app_assoc; reflexivity).
    apply get64_pre; [reflexivity|exact H].
  Qed.
  Lemma fl_until_enc : fl_until w = Ok (f_until f).
  Proof.
    destruct Hwf as (_ & _ & _ & _ & H & _). unfold fl_until.
    replace w with ((le32 (filter_size f) ++ le16 (len (f_ids f)) ++ le16 (len (f_authors f)) ++ le16 (len (f_kinds f))
      ++ [0; 0] ++ le32 (f_limit f) ++ le64 (f_since f)) ++ le64 (f_until f)
      ++ concat (f_ids f) ++ concat (f_authors f) ++ concat (map le16 (f_kinds f)) ++ enc_tags (f_tags f))
      by (unfold w, enc_filter; rewrite <- !app_assoc; reflexivity).
    apply get64_pre; [reflexivity|exact H].
  Qed.

  Lemma fl_at_ids : at_pos w 32 (concat (f_ids f) ++ concat (f_authors f) ++ concat (map le16 (f_kinds f)) ++ enc_tags (f_tags f)).
  Proof. destruct fl_split as [E L]. eexists; split; [exact E|exact L]. Qed.
  Lemma fl_at_authors : at_pos w (32 + len (f_ids f) * 32) (concat (f_authors f) ++ concat (map le16 (f_kinds f)) ++ enc_tags (f_tags f)).
  Proof.
    destruct Hwf as (Hi & _). pose proof fl_at_ids as A. apply at_pos_shift in A.
    rewrite (len_concat_fixed _ 32 Hi) in A. replace (len (f_ids f) * 32) with (32 * len (f_ids f)) by lia. exact A.
  Qed.
  Lemma fl_at_kinds : at_pos w (32 + len (f_ids f) * 32 + len (f_authors f) * 32) (concat (map le16 (f_kinds f)) ++ enc_tags (f_tags f)).
  Proof.
    destruct Hwf as (_ & Ha & _). pose proof fl_at_authors as A. apply at_pos_shift in A.
    rewrite (len_concat_fixed _ 32 Ha) in A. replace (len (f_authors f) * 32) with (32 * len (f_authors f)) by lia. exact A.
  Qed.
  Lemma fl_at_tags : at_pos w (32 + len (f_ids f) * 32 + len (f_authors f) * 32 + len (f_kinds f) * 2) (enc_tags (f_tags f)).
  Proof.
    pose proof fl_at_kinds as A. apply at_pos_shift in A.
    rewrite len_concat_le16 in A. replace (len (f_kinds f) * 2) with (2 * len (f_kinds f)) by lia. exact A.
  Qed.

  Lemma fl_ids_enc : fl_ids w = Ok (f_ids f).
  Proof.
    destruct Hwf as (Hi & _). unfold fl_ids. rewrite fl_num_ids_enc. cbn [bind]. unfold len. rewrite Nat2N.id.
    apply (fl_items32_enc _ _ _ _ Hi fl_at_ids).
  Qed.
  Lemma fl_authors_enc : fl_authors w = Ok (f_authors f).
  Proof.
    destruct Hwf as (_ & Ha & _). unfold fl_authors. rewrite fl_num_ids_enc, fl_num_authors_enc. cbn [bind].
    unfold len at 1. rewrite Nat2N.id.
    apply (fl_items32_enc _ _ _ _ Ha fl_at_authors).
  Qed.
  Lemma fl_kinds_enc : fl_kinds w = Ok (f_kinds f).
  Proof.
    destruct Hwf as (_ & _ & Hk & _). unfold fl_kinds. rewrite fl_num_ids_enc, fl_num_authors_enc, fl_num_kinds_enc. cbn [bind].
    unfold len at 1. rewrite Nat2N.id.
    apply (fl_items16_enc _ _ _ _ Hk fl_at_kinds).
  Qed.
  Lemma fl_tags_enc : fl_tags w = Ok (enc_tags (f_tags f)).
  Proof.
    destruct Hfit as (_ & _ & _ & Ht & _).
    unfold fl_tags. rewrite fl_num_ids_enc, fl_num_authors_enc, fl_num_kinds_enc. cbn [bind].
    pose proof fl_at_tags as A. pose proof (at_pos_len _ _ _ A) as L.
    match goal with |- context [len w <? ?s] => destruct (N.ltb_spec (len w) s) as [C|_]; [lia|] end.
    rewrite (at_pos_drop _ _ _ A).
    pose proof (tags_delineate_enc (f_tags f) Ht []) as D. rewrite app_nil_r in D. exact D.
  Qed.
End FilterEnc.
