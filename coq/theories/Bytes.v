(* Bytes.v — layer 0: bytes, results, little/big-endian fields, slicing.
   Bytes are [N] (well-formed when < 256), byte strings are [list N].
   Everything here is executable and is extracted. *)
From Coq Require Export List Arith NArith ZArith Bool Lia ZifyN ZifyNat ZifyBool.
Export ListNotations.
Open Scope N_scope.

Arguments N.add : simpl never.
Arguments N.sub : simpl never.
Arguments N.mul : simpl never.
Arguments N.div : simpl never.
Arguments N.modulo : simpl never.
Arguments N.eqb : simpl never.
Arguments N.ltb : simpl never.
Arguments N.leb : simpl never.
Arguments N.pow : simpl never.

Definition bytes := list N.

(* Outcome of a modelled Rust call: a value, an error return, a panic
   (index/slice out of range, overflow check, explicit panic!, unwrap on None),
   or fuel exhaustion (excluded by the theorems). *)
Inductive err :=
| EBuf | EEnd | EHex | EUtf8 | EJson | ERange | EAddr
| EDup | EDeleted | EReplaced | EInvalidDelete | EScraper | EWrongKind | EKeySize | EOther.

Inductive res (A : Type) :=
| Ok (a : A) | Err (e : err) | Panic | OutOfFuel.
Arguments Ok {A} a.
Arguments Err {A} e.
Arguments Panic {A}.
Arguments OutOfFuel {A}.

Definition bind {A B} (r : res A) (f : A -> res B) : res B :=
  match r with Ok a => f a | Err e => Err e | Panic => Panic | OutOfFuel => OutOfFuel end.
Notation "x <- r ;; k" := (bind r (fun x => k)) (at level 61, r at next level, right associativity).
Notation "' p <- r ;; k" := (bind r (fun p => k)) (at level 61, p pattern, r at next level, right associativity).

Definition is_ok {A} (r : res A) : bool := match r with Ok _ => true | _ => false end.

Definition len {A} (l : list A) : N := N.of_nat (length l).
Definition drop {A} (n : N) (l : list A) : list A := skipn (N.to_nat n) l.
Definition take {A} (n : N) (l : list A) : list A := firstn (N.to_nat n) l.

(* [ltake n l]: like [take] but never converts [n] to a unary number (n may be 2^32-1) *)
Fixpoint ltake {A} (n : N) (l : list A) : list A :=
  match l with
  | [] => []
  | x :: r => if n =? 0 then [] else x :: ltake (n - 1) r
  end.

Lemma len_nil {A} : len (@nil A) = 0. Proof. reflexivity. Qed.
Lemma len_cons {A} (a : A) l : len (a :: l) = 1 + len l.
Proof. unfold len. cbn [length]. lia. Qed.
Lemma len_app {A} (l r : list A) : len (l ++ r) = len l + len r.
Proof. unfold len. rewrite app_length. lia. Qed.
Lemma drop_0 {A} (l : list A) : drop 0 l = l. Proof. reflexivity. Qed.
Lemma take_0 {A} (l : list A) : take 0 l = []. Proof. reflexivity. Qed.
Lemma drop_app_len {A} (l r : list A) : drop (len l) (l ++ r) = r.
Proof.
  unfold drop, len. rewrite Nat2N.id.
  rewrite skipn_app, skipn_all, Nat.sub_diag. reflexivity.
Qed.
Lemma take_app_len {A} (l r : list A) : take (len l) (l ++ r) = l.
Proof.
  unfold take, len. rewrite Nat2N.id.
  rewrite firstn_app, firstn_all, Nat.sub_diag. cbn. apply app_nil_r.
Qed.
Lemma drop_app_ge {A} n (l r : list A) : len l <= n -> drop n (l ++ r) = drop (n - len l) r.
Proof.
  unfold drop, len. intros H. rewrite skipn_app.
  rewrite skipn_all2 by lia. cbn [app]. f_equal. lia.
Qed.
Lemma drop_drop {A} a b (l : list A) : drop a (drop b l) = drop (b + a) l.
Proof.
  unfold drop. replace (N.to_nat (b + a)) with (N.to_nat b + N.to_nat a)%nat by lia.
  generalize (N.to_nat b) as n. intros n. revert l.
  induction n as [|n IH]; intros l; cbn [Nat.add skipn]; auto.
  destruct l as [|x l]; [destruct (N.to_nat a); reflexivity | apply IH].
Qed.
Lemma drop_add_app {A} n (l r : list A) : drop (len l + n) (l ++ r) = drop n r.
Proof. rewrite <- drop_drop, drop_app_len. reflexivity. Qed.
Lemma len_drop {A} n (l : list A) : len (drop n l) = len l - n.
Proof. unfold len, drop. rewrite skipn_length. lia. Qed.
Lemma len_take {A} n (l : list A) : len (take n l) = N.min n (len l).
Proof. unfold len, take. rewrite firstn_length. lia. Qed.
Lemma take_all {A} n (l : list A) : len l <= n -> take n l = l.
Proof. unfold take, len. intros. apply firstn_all2. lia. Qed.
Lemma take_app_le {A} n (l r : list A) : n <= len l -> take n (l ++ r) = take n l.
Proof.
  unfold take, len. intros. rewrite firstn_app.
  replace (N.to_nat n - length l)%nat with 0%nat by lia. cbn. apply app_nil_r.
Qed.
Lemma take_drop_id {A} n (l : list A) : take n l ++ drop n l = l.
Proof. apply firstn_skipn. Qed.
Lemma drop_all {A} n (l : list A) : len l <= n -> drop n l = [].
Proof. unfold drop, len. intros. apply skipn_all2. lia. Qed.
Lemma len_repeat {A} (a : A) n : len (repeat a n) = N.of_nat n.
Proof. unfold len. rewrite repeat_length. reflexivity. Qed.
Lemma len_map {A B} (f : A -> B) l : len (map f l) = len l.
Proof. unfold len. rewrite map_length. reflexivity. Qed.

(* [slice b off n] = Rust's [b[off..off+n]]: panics when off+n > len b. *)
Definition slice (b : bytes) (off n : N) : res bytes :=
  if off + n <=? len b then Ok (take n (drop off b)) else Panic.

Lemma slice_app_mid (a m r : bytes) : slice (a ++ m ++ r) (len a) (len m) = Ok m.
Proof.
  unfold slice. rewrite !len_app.
  destruct (N.leb_spec (len a + len m) (len a + (len m + len r))) as [_|H]; [|lia].
  rewrite drop_app_len, take_app_len. reflexivity.
Qed.

(* byte-wise well-formedness *)
Definition wf_byte (b : N) : Prop := b < 256.
Definition wf_bytes (l : bytes) : Prop := Forall wf_byte l.
Definition wf_byteb (b : N) : bool := b <? 256.
Definition wf_bytesb (l : bytes) : bool := forallb wf_byteb l.
Lemma wf_bytesb_iff l : wf_bytesb l = true <-> wf_bytes l.
Proof.
  unfold wf_bytesb, wf_bytes. rewrite forallb_forall, Forall_forall.
  unfold wf_byteb, wf_byte. split; intros H x Hx; specialize (H x Hx).
  - apply N.ltb_lt; exact H.
  - apply N.ltb_lt; exact H.
Qed.
Lemma wf_bytes_app a b : wf_bytes (a ++ b) <-> wf_bytes a /\ wf_bytes b.
Proof. unfold wf_bytes. apply Forall_app. Qed.

(* ---- little-endian fields (to_ne_bytes on x86-64), truncating like `as uN` ---- *)
Definition le16 (x : N) : bytes := [x mod 256; (x / 256) mod 256].
Definition le32 (x : N) : bytes :=
  [x mod 256; (x / 256) mod 256; (x / 65536) mod 256; (x / 16777216) mod 256].
Definition le64 (x : N) : bytes := le32 (x mod 4294967296) ++ le32 (x / 4294967296).

Definition rd16 (l : bytes) : option N :=
  match l with a :: b :: _ => Some (a + 256 * b) | _ => None end.
Definition rd32 (l : bytes) : option N :=
  match l with a :: b :: c :: d :: _ => Some (a + 256 * b + 65536 * c + 16777216 * d) | _ => None end.
Definition rd64 (l : bytes) : option N :=
  match rd32 l, rd32 (drop 4 l) with Some lo, Some hi => Some (lo + 4294967296 * hi) | _, _ => None end.

(* parse_uN!(b, off): slices b[off..off+N] (panics if out of range) *)
Definition get16 (b : bytes) (off : N) : res N :=
  match rd16 (drop off b) with Some v => Ok v | None => Panic end.
Definition get32 (b : bytes) (off : N) : res N :=
  match rd32 (drop off b) with Some v => Ok v | None => Panic end.
Definition get64 (b : bytes) (off : N) : res N :=
  match rd64 (drop off b) with Some v => Ok v | None => Panic end.

Ltac Zify.zify_post_hook ::= Z.div_mod_to_equations.

Lemma len_le16 x : len (le16 x) = 2. Proof. reflexivity. Qed.
Lemma len_le32 x : len (le32 x) = 4. Proof. reflexivity. Qed.
Lemma len_le64 x : len (le64 x) = 8. Proof. reflexivity. Qed.

Lemma rd16_le16 x r : x < 65536 -> rd16 (le16 x ++ r) = Some x.
Proof. intros H. unfold le16, rd16. cbn [app]. f_equal. lia. Qed.
Lemma rd32_le32 x r : x < 4294967296 -> rd32 (le32 x ++ r) = Some x.
Proof. intros H. unfold le32, rd32. cbn [app]. f_equal. lia. Qed.
Lemma rd64_le64 x r : x < 18446744073709551616 -> rd64 (le64 x ++ r) = Some x.
Proof.
  intros H. unfold rd64, le64. rewrite <- app_assoc.
  rewrite rd32_le32 by (apply N.mod_lt; lia).
  change 4 with (len (le32 (x mod 4294967296))).
  rewrite drop_app_len. rewrite rd32_le32 by lia. f_equal. lia.
Qed.

Lemma wf_le16 x : wf_bytes (le16 x).
Proof. unfold le16, wf_bytes, wf_byte. repeat constructor; apply N.mod_lt; lia. Qed.
Lemma wf_le32 x : wf_bytes (le32 x).
Proof. unfold le32, wf_bytes, wf_byte. repeat constructor; apply N.mod_lt; lia. Qed.
Lemma wf_le64 x : wf_bytes (le64 x).
Proof. unfold le64. apply wf_bytes_app. split; apply wf_le32. Qed.

Lemma get16_at (a r : bytes) x : x < 65536 -> get16 (a ++ le16 x ++ r) (len a) = Ok x.
Proof. intros. unfold get16. rewrite drop_app_len, rd16_le16; auto. Qed.
Lemma get32_at (a r : bytes) x : x < 4294967296 -> get32 (a ++ le32 x ++ r) (len a) = Ok x.
Proof. intros. unfold get32. rewrite drop_app_len, rd32_le32; auto. Qed.
Lemma get64_at (a r : bytes) x : x < 18446744073709551616 -> get64 (a ++ le64 x ++ r) (len a) = Ok x.
Proof. intros. unfold get64. rewrite drop_app_len, rd64_le64; auto. Qed.

(* ---- big-endian fields (index keys) ---- *)
Definition be16 (x : N) : bytes := [(x / 256) mod 256; x mod 256].
Definition be32 (x : N) : bytes :=
  [(x / 16777216) mod 256; (x / 65536) mod 256; (x / 256) mod 256; x mod 256].
Definition be64 (x : N) : bytes := be32 (x / 4294967296) ++ be32 (x mod 4294967296).
Definition rdbe16 (l : bytes) : option N :=
  match l with a :: b :: _ => Some (256 * a + b) | _ => None end.

(* byte-string equality and lexicographic order (LMDB's default key order: memcmp,
   shorter string first on a tie) *)
Fixpoint beq (a b : bytes) : bool :=
  match a, b with
  | [], [] => true
  | x :: a', y :: b' => (x =? y) && beq a' b'
  | _, _ => false
  end.
Lemma beq_eq a b : beq a b = true <-> a = b.
Proof.
  revert b; induction a as [|x a IH]; intros [|y b]; cbn [beq]; split; intros H; try congruence; auto.
  - apply andb_true_iff in H. destruct H as [H1 H2]. apply N.eqb_eq in H1. apply IH in H2. congruence.
  - inversion H; subst. rewrite N.eqb_refl. cbn. apply IH. reflexivity.
Qed.
Lemma beq_refl a : beq a a = true. Proof. apply beq_eq. reflexivity. Qed.
Lemma beq_neq a b : beq a b = false <-> a <> b.
Proof.
  split; intros H.
  - intros E. apply beq_eq in E. congruence.
  - destruct (beq a b) eqn:E; auto. apply beq_eq in E. contradiction.
Qed.

Fixpoint lex_lt (a b : bytes) : bool :=
  match a, b with
  | [], [] => false
  | [], _ :: _ => true
  | _ :: _, [] => false
  | x :: a', y :: b' => if x <? y then true else if y <? x then false else lex_lt a' b'
  end.
Definition lex_le (a b : bytes) : bool := negb (lex_lt b a).

Lemma lex_lt_irrefl a : lex_lt a a = false.
Proof. induction a as [|x a IH]; cbn [lex_lt]; auto. rewrite N.ltb_irrefl. exact IH. Qed.
Lemma lex_lt_trans a b c : lex_lt a b = true -> lex_lt b c = true -> lex_lt a c = true.
Proof.
  revert b c; induction a as [|x a IH]; intros [|y b] [|z c]; cbn [lex_lt]; try congruence; auto.
  destruct (N.ltb_spec x y), (N.ltb_spec y x), (N.ltb_spec y z), (N.ltb_spec z y),
           (N.ltb_spec x z), (N.ltb_spec z x); try congruence; try lia; eauto.
Qed.
Lemma lex_lt_asym a b : lex_lt a b = true -> lex_lt b a = false.
Proof.
  intros H. destruct (lex_lt b a) eqn:E; auto.
  pose proof (lex_lt_trans _ _ _ H E) as T. rewrite lex_lt_irrefl in T. discriminate.
Qed.
Lemma lex_total a b : lex_lt a b = false -> lex_lt b a = false -> a = b.
Proof.
  revert b; induction a as [|x a IH]; intros [|y b]; cbn [lex_lt]; try congruence.
  destruct (N.ltb_spec x y), (N.ltb_spec y x); try congruence; try lia.
  intros. f_equal; [lia | auto].
Qed.
Lemma lex_lt_app_same p a b : lex_lt (p ++ a) (p ++ b) = lex_lt a b.
Proof. induction p as [|x p IH]; cbn [app lex_lt]; auto. rewrite N.ltb_irrefl. exact IH. Qed.
Lemma lex_lt_app_diff p q a b :
  length p = length q -> lex_lt p q = true -> lex_lt (p ++ a) (q ++ b) = true.
Proof.
  revert q; induction p as [|x p IH]; intros [|y q]; cbn [length app lex_lt]; try discriminate.
  intros L. destruct (x <? y); auto. destruct (y <? x); try discriminate. apply IH. lia.
Qed.
