(* CanonInj.v — the NIP-01 canonical serialisation (the text whose SHA-256 is the event id) determines
   pubkey, created_at, kind, the whole tag structure, every tag string and the content:
   two well-formed events with the same canonical text have the same six hashed fields.
   Hence any single-field mutation changes the hashed text (the model half of C08's mutation clause;
   that a different text has a different SHA-256 is collision resistance, an assumption). *)
From Pocket Require Import Codec EscapeProofs EscapeRoundTrip HexProofs NumProofs.

(* ---------- uniquely parseable prefixes ---------- *)
Definition UP (x y : bytes) : Prop := forall r1 r2, x ++ r1 = y ++ r2 -> x = y /\ r1 = r2.

Lemma app_eq_len {A} (a b c d : list A) : length a = length b -> a ++ c = b ++ d -> a = b /\ c = d.
Proof.
  revert b; induction a as [|x a IH]; intros [|y b] Hl H; cbn in *; try lia.
  - split; [reflexivity|exact H].
  - injection H as -> H. destruct (IH b ltac:(lia) H) as [-> ->]. split; reflexivity.
Qed.

(* separator-terminated runs *)
Lemma split_at_sep (sep : N) l1 : forall l2 r1 r2,
  Forall (fun c => c <> sep) l1 -> Forall (fun c => c <> sep) l2 ->
  l1 ++ sep :: r1 = l2 ++ sep :: r2 -> l1 = l2 /\ r1 = r2.
Proof.
  induction l1 as [|a l1 IH]; intros [|b l2] r1 r2 H1 H2 H; cbn [app] in H.
  - injection H as ->. split; reflexivity.
  - injection H as <- _. inversion H2; subst. congruence.
  - injection H as -> _. inversion H1; subst. congruence.
  - injection H as -> H. inversion H1; subst. inversion H2; subst.
    destruct (IH l2 r1 r2 ltac:(assumption) ltac:(assumption) H) as [-> ->]. split; reflexivity.
Qed.

(* ---------- decimal numbers ---------- *)
Lemma num_from_app acc a b : num_from acc (a ++ b) = num_from (num_from acc a) b.
Proof. revert acc; induction a as [|c a IH]; intros acc; cbn [app num_from]; [reflexivity|apply IH]. Qed.

Lemma dec_digits_spec fuel : forall n acc, n < 10 ^ N.of_nat fuel ->
  exists ds, dec_digits fuel n acc = ds ++ acc /\ Forall (fun c => is_digit c = true) ds /\ num_of ds = n.
Proof.
  induction fuel as [|f IH]; intros n acc Hn.
  - change (10 ^ N.of_nat 0) with 1 in Hn. assert (n = 0) by lia. subst n.
    exists []. split; [reflexivity|]. split; [constructor|reflexivity].
  - cbn [dec_digits]. destruct (n <? 10) eqn:E.
    + exists [48 + n mod 10]. split; [reflexivity|]. split.
      * repeat constructor. unfold is_digit. lia.
      * unfold num_of. cbn [num_from]. lia.
    + rewrite Nat2N.inj_succ, N.pow_succ_r' in Hn.
      destruct (IH (n / 10) ((48 + n mod 10) :: acc) ltac:(lia)) as [ds [-> [Hd Hv]]].
      exists (ds ++ [48 + n mod 10]). split; [rewrite <- app_assoc; reflexivity|]. split.
      * apply Forall_app. split; [exact Hd|]. repeat constructor. unfold is_digit. lia.
      * unfold num_of in *. rewrite num_from_app, Hv. cbn [num_from]. lia.
Qed.

Lemma dec_spec n : n < 10 ^ 25 -> Forall (fun c => is_digit c = true) (dec n) /\ num_of (dec n) = n.
Proof.
  intros H. unfold dec. destruct (dec_digits_spec 25 n [] H) as [ds [-> [Hd Hv]]].
  rewrite app_nil_r. split; assumption.
Qed.

Lemma dec_inj a b : a < 10 ^ 25 -> b < 10 ^ 25 -> dec a = dec b -> a = b.
Proof. intros Ha Hb H. rewrite <- (proj2 (dec_spec a Ha)), <- (proj2 (dec_spec b Hb)), H. reflexivity. Qed.

Lemma digits_not_sep l sep : (sep < 48 \/ 57 < sep) -> Forall (fun c => is_digit c = true) l -> Forall (fun c => c <> sep) l.
Proof. intros Hs H. eapply Forall_impl; [|exact H]. intros c Hc. unfold is_digit in Hc. lia. Qed.

Lemma dec_sep_unique a b r1 r2 : a < 10 ^ 25 -> b < 10 ^ 25 ->
  dec a ++ 44 :: r1 = dec b ++ 44 :: r2 -> a = b /\ r1 = r2.
Proof.
  intros Ha Hb H.
  destruct (split_at_sep 44 (dec a) (dec b) r1 r2) as [Hd ->]; [| |exact H|].
  - apply digits_not_sep; [lia|apply dec_spec; exact Ha].
  - apply digits_not_sep; [lia|apply dec_spec; exact Hb].
  - split; [apply dec_inj; assumption|reflexivity].
Qed.

(* ---------- hex ---------- *)
Lemma write_hex_inj a b : wf_bytes a -> wf_bytes b -> write_hex a = write_hex b -> a = b.
Proof.
  intros Ha Hb H. pose proof (read_write_pairs a Ha) as Ra. pose proof (read_write_pairs b Hb) as Rb.
  rewrite H in Ra. rewrite Ra in Rb. injection Rb as ->. reflexivity.
Qed.

(* ---------- JSON strings ---------- *)
Definition is_jstring (x : bytes) : Prop := exists s e, valid_utf8 s /\ json_escape s = Ok e /\ x = [34] ++ e ++ [34].

Lemma jstring_UP x y : is_jstring x -> is_jstring y -> UP x y.
Proof.
  intros [s1 [e1 [V1 [E1 ->]]]] [s2 [e2 [V2 [E2 ->]]]] r1 r2 H.
  cbn [app] in H. injection H as H. rewrite <- !app_assoc in H. cbn [app] in H.
  pose proof (escape_unescape_roundtrip s1 e1 r1 (N.max (len s1) (len s2)) V1 E1 ltac:(lia)) as R1.
  pose proof (escape_unescape_roundtrip s2 e2 r2 (N.max (len s1) (len s2)) V2 E2 ltac:(lia)) as R2.
  rewrite H in R1. rewrite R1 in R2. injection R2 as Hl Hs.
  assert (Hlen : length e1 = length e2) by (unfold len in Hl; lia).
  destruct (app_eq_len e1 e2 _ _ Hlen H) as [-> Hr]. injection Hr as ->. split; reflexivity.
Qed.

Lemma jstring_source s1 s2 e1 e2 : valid_utf8 s1 -> valid_utf8 s2 -> json_escape s1 = Ok e1 -> json_escape s2 = Ok e2 ->
  [34] ++ e1 ++ [34] = [34] ++ e2 ++ [34] -> s1 = s2.
Proof.
  intros V1 V2 E1 E2 H. apply app_inv_head in H. apply app_inv_tail in H. subst e2.
  eapply json_escape_injective; eauto.
Qed.

(* ---------- bracketed, comma-separated lists of uniquely parseable items ---------- *)
Fixpoint rest_close (xs : list bytes) : bytes :=
  match xs with [] => [93] | x :: r => 44 :: x ++ rest_close r end.
Definition list_body (xs : list bytes) : bytes :=
  match xs with [] => [93] | x :: r => x ++ rest_close r end.

Lemma join_close xs : join [44] xs ++ [93] = list_body xs.
Proof.
  destruct xs as [|x r]; [reflexivity|]. cbn [list_body].
  revert x; induction r as [|y r IH]; intros x; [reflexivity|].
  change (join [44] (x :: y :: r)) with (x ++ [44] ++ join [44] (y :: r)).
  rewrite <- !app_assoc. cbn [rest_close app]. rewrite IH. reflexivity.
Qed.

Section Lists.
Variable C : bytes -> Prop.
Hypothesis C_UP : forall x y, C x -> C y -> UP x y.
Hypothesis C_head : forall x, C x -> exists b t, x = b :: t /\ b <> 93.

Lemma rest_close_UP xs : forall ys r1 r2, Forall C xs -> Forall C ys ->
  rest_close xs ++ r1 = rest_close ys ++ r2 -> xs = ys /\ r1 = r2.
Proof.
  induction xs as [|x xs IH]; intros [|y ys] r1 r2 Hx Hy H; cbn [rest_close app] in H.
  - injection H as ->. split; reflexivity.
  - discriminate.
  - discriminate.
  - injection H as H. rewrite <- !app_assoc in H. inversion Hx; subst. inversion Hy; subst.
    destruct (C_UP x y ltac:(assumption) ltac:(assumption) _ _ H) as [-> H'].
    destruct (IH ys r1 r2 ltac:(assumption) ltac:(assumption) H') as [-> ->]. split; reflexivity.
Qed.

Lemma list_body_UP xs ys r1 r2 : Forall C xs -> Forall C ys ->
  list_body xs ++ r1 = list_body ys ++ r2 -> xs = ys /\ r1 = r2.
Proof.
  intros Hx Hy H. destruct xs as [|x xs], ys as [|y ys]; cbn [list_body app] in H.
  - injection H as ->. split; reflexivity.
  - inversion Hy; subst. destruct (C_head y ltac:(assumption)) as [b [t [-> Hb]]]. cbn [app] in H. injection H as <- _. congruence.
  - inversion Hx; subst. destruct (C_head x ltac:(assumption)) as [b [t [-> Hb]]]. cbn [app] in H. injection H as -> _. congruence.
  - rewrite <- !app_assoc in H. inversion Hx; subst. inversion Hy; subst.
    destruct (C_UP x y ltac:(assumption) ltac:(assumption) _ _ H) as [-> H'].
    destruct (rest_close_UP xs ys r1 r2 ltac:(assumption) ltac:(assumption) H') as [-> ->]. split; reflexivity.
Qed.

Definition bracketed (xs : list bytes) : bytes := [91] ++ join [44] xs ++ [93].

Lemma bracketed_UP xs ys : Forall C xs -> Forall C ys -> forall r1 r2,
  bracketed xs ++ r1 = bracketed ys ++ r2 -> xs = ys /\ r1 = r2.
Proof.
  intros Hx Hy r1 r2 H. unfold bracketed in H. rewrite !join_close in H. cbn [app] in H. injection H as H.
  apply list_body_UP; assumption.
Qed.
End Lists.

Lemma jstring_head x : is_jstring x -> exists b t, x = b :: t /\ b <> 93.
Proof. intros [s [e [_ [_ ->]]]]. exists 34, (e ++ [34]). split; [reflexivity|lia]. Qed.

Definition is_jtag (x : bytes) : Prop := exists ss, Forall is_jstring ss /\ x = bracketed ss.
Lemma jtag_UP x y : is_jtag x -> is_jtag y -> UP x y.
Proof.
  intros [xs [Hx ->]] [ys [Hy ->]] r1 r2 H.
  destruct (bracketed_UP is_jstring jstring_UP jstring_head xs ys Hx Hy r1 r2 H) as [-> ->]. split; reflexivity.
Qed.
Lemma jtag_head x : is_jtag x -> exists b t, x = b :: t /\ b <> 93.
Proof. intros [ss [_ ->]]. unfold bracketed. cbn [app]. eexists _, _. split; [reflexivity|lia]. Qed.

(* ---------- map_res as a relation ---------- *)
Lemma map_res_Forall2 {A B} (f : A -> res B) l : forall ys, map_res f l = Ok ys -> Forall2 (fun a y => f a = Ok y) l ys.
Proof.
  induction l as [|a l IH]; intros ys H; cbn [map_res] in H.
  - injection H as <-. constructor.
  - destruct (f a) as [y| | |] eqn:Ea; cbn [bind] in H; try discriminate.
    destruct (map_res f l) as [ys'| | |]; cbn [bind] in H; try discriminate.
    injection H as <-. constructor; [exact Ea|apply IH; reflexivity].
Qed.

Definition valid_tag (t : list bytes) : Prop := Forall valid_utf8 t.
Definition valid_tags (ts : atags) : Prop := Forall valid_tag ts.

Lemma json_string_is_jstring s x : valid_utf8 s -> json_string s = Ok x -> is_jstring x.
Proof.
  intros V H. unfold json_string in H. destruct (json_escape s) as [e| | |] eqn:E; cbn [bind] in H; try discriminate.
  injection H as <-. exists s, e. repeat split; assumption.
Qed.
Lemma json_string_inj s1 s2 x : valid_utf8 s1 -> valid_utf8 s2 -> json_string s1 = Ok x -> json_string s2 = Ok x -> s1 = s2.
Proof.
  intros V1 V2 H1 H2. unfold json_string in *.
  destruct (json_escape s1) as [e1| | |] eqn:E1; cbn [bind] in H1; try discriminate.
  destruct (json_escape s2) as [e2| | |] eqn:E2; cbn [bind] in H2; try discriminate.
  injection H1 as <-. injection H2 as H2. symmetry in H2. apply (jstring_source s1 s2 e1 e2 V1 V2 E1 E2). cbn [app]. f_equal. exact H2.
Qed.

Lemma strings_of_tag t ss : valid_tag t -> map_res json_string t = Ok ss -> Forall is_jstring ss.
Proof.
  intros V H. apply map_res_Forall2 in H. induction H as [|s x t ss Hs _ IH]; [constructor|].
  inversion V; subst. constructor; [eapply json_string_is_jstring; eauto|apply IH; assumption].
Qed.
Lemma strings_inj t1 t2 ss : valid_tag t1 -> valid_tag t2 ->
  map_res json_string t1 = Ok ss -> map_res json_string t2 = Ok ss -> t1 = t2.
Proof.
  intros V1 V2 H1 H2. apply map_res_Forall2 in H1. apply map_res_Forall2 in H2.
  revert t2 V2 H2. induction H1 as [|s x t ss Hs _ IH]; intros t2 V2 H2.
  - inversion H2. reflexivity.
  - inversion H2 as [|s2 x2 t2' ss2 Hs2 H2']; subst. inversion V1; subst. inversion V2; subst.
    f_equal; [eapply json_string_inj; eauto|apply IH; assumption].
Qed.

Definition tag_json (t : list bytes) : res bytes :=
  match map_res json_string t with Ok ss => Ok ([91] ++ join [44] ss ++ [93]) | _ => Panic end.

Lemma tag_json_is_jtag t x : valid_tag t -> tag_json t = Ok x -> is_jtag x.
Proof.
  intros V H. unfold tag_json in H. destruct (map_res json_string t) as [ss| | |] eqn:E; try discriminate.
  injection H as <-. exists ss. split; [eapply strings_of_tag; eauto|reflexivity].
Qed.
Lemma tag_json_inj t1 t2 x : valid_tag t1 -> valid_tag t2 -> tag_json t1 = Ok x -> tag_json t2 = Ok x -> t1 = t2.
Proof.
  intros V1 V2 H1 H2. unfold tag_json in *.
  destruct (map_res json_string t1) as [ss1| | |] eqn:E1; try discriminate.
  destruct (map_res json_string t2) as [ss2| | |] eqn:E2; try discriminate.
  injection H1 as <-. injection H2 as H2.
  pose proof (strings_of_tag _ _ V1 E1) as J1. pose proof (strings_of_tag _ _ V2 E2) as J2.
  destruct (bracketed_UP is_jstring jstring_UP jstring_head ss2 ss1 J2 J1 [] []) as [-> _].
  { unfold bracketed. rewrite H2. reflexivity. }
  eapply strings_inj; eauto.
Qed.

Lemma tags_as_json_unfold ts : tags_as_json ts =
  match map_res tag_json ts with Ok tgs => Ok (bracketed tgs) | _ => Panic end.
Proof. reflexivity. Qed.

Lemma tags_json_UP ts1 ts2 j1 j2 r1 r2 : valid_tags ts1 -> valid_tags ts2 ->
  tags_as_json ts1 = Ok j1 -> tags_as_json ts2 = Ok j2 -> j1 ++ r1 = j2 ++ r2 -> ts1 = ts2 /\ r1 = r2.
Proof.
  intros V1 V2 H1 H2 H. rewrite tags_as_json_unfold in H1, H2.
  destruct (map_res tag_json ts1) as [g1| | |] eqn:E1; try discriminate.
  destruct (map_res tag_json ts2) as [g2| | |] eqn:E2; try discriminate.
  injection H1 as <-. injection H2 as <-.
  apply map_res_Forall2 in E1. apply map_res_Forall2 in E2.
  assert (J1 : Forall is_jtag g1).
  { clear -E1 V1. induction E1 as [|t x ts g Ht _ IH]; [constructor|]. inversion V1; subst.
    constructor; [eapply tag_json_is_jtag; eauto|apply IH; assumption]. }
  assert (J2 : Forall is_jtag g2).
  { clear -E2 V2. induction E2 as [|t x ts g Ht _ IH]; [constructor|]. inversion V2; subst.
    constructor; [eapply tag_json_is_jtag; eauto|apply IH; assumption]. }
  destruct (bracketed_UP is_jtag jtag_UP jtag_head g1 g2 J1 J2 r1 r2 H) as [-> ->].
  split; [|reflexivity].
  clear -E1 E2 V1 V2. revert ts2 V2 E2. induction E1 as [|t x ts g Ht _ IH]; intros ts2 V2 E2.
  - inversion E2. reflexivity.
  - inversion E2 as [|t2 x2 ts2' g2' Ht2 E2']; subst. inversion V1; subst. inversion V2; subst.
    f_equal; [eapply tag_json_inj; eauto|apply IH; assumption].
Qed.

(* ---------- the canonical text determines the hashed fields ---------- *)
Definition canon_wf (e : aevent) : Prop :=
  len (e_pk e) = 32 /\ wf_bytes (e_pk e) /\ e_created e < 18446744073709551616 /\ e_kind e < 65536 /\
  valid_tags (e_tags e) /\ valid_utf8 (e_content e).

Theorem canon_injective e1 e2 c : canon_wf e1 -> canon_wf e2 -> canon e1 = Ok c -> canon e2 = Ok c ->
  e_pk e1 = e_pk e2 /\ e_created e1 = e_created e2 /\ e_kind e1 = e_kind e2 /\
  e_tags e1 = e_tags e2 /\ e_content e1 = e_content e2.
Proof.
  intros [Lp1 [Wp1 [Hc1 [Hk1 [Vt1 Vc1]]]]] [Lp2 [Wp2 [Hc2 [Hk2 [Vt2 Vc2]]]]] H1 H2.
  unfold canon in H1, H2.
  destruct (tags_as_json (e_tags e1)) as [tj1| | |] eqn:T1; cbn [bind] in H1; try discriminate.
  destruct (json_escape (e_content e1)) as [cj1| | |] eqn:C1; cbn [bind] in H1; try discriminate.
  destruct (tags_as_json (e_tags e2)) as [tj2| | |] eqn:T2; cbn [bind] in H2; try discriminate.
  destruct (json_escape (e_content e2)) as [cj2| | |] eqn:C2; cbn [bind] in H2; try discriminate.
  injection H1 as <-. injection H2 as H.
  (* pubkey: 64 hex characters on both sides *)
  assert (Hl : length (write_hex (e_pk e2)) = length (write_hex (e_pk e1))).
  { pose proof (len_write_hex (e_pk e1)) as A. pose proof (len_write_hex (e_pk e2)) as B. unfold len in *. lia. }
  destruct (app_eq_len _ _ _ _ Hl H) as [Hpk H']. clear H.
  apply write_hex_inj in Hpk; [|assumption|assumption].
  injection H' as H'.
  (* created_at, kind *)
  assert (P64 : 18446744073709551616 < 10 ^ 25) by (vm_compute; reflexivity).
  destruct (dec_sep_unique (e_created e2) (e_created e1) _ _ ltac:(lia) ltac:(lia) H') as [Hcr H''].
  destruct (dec_sep_unique (e_kind e2) (e_kind e1) _ _ ltac:(lia) ltac:(lia) H'') as [Hkd H3].
  (* tags *)
  destruct (tags_json_UP _ _ _ _ _ _ Vt2 Vt1 T2 T1 H3) as [Htg H4].
  (* content *)
  injection H4 as H4.
  assert (Hct : e_content e2 = e_content e1).
  { assert (J2 : is_jstring ([34] ++ cj2 ++ [34])) by (exists (e_content e2), cj2; repeat split; assumption).
    assert (J1 : is_jstring ([34] ++ cj1 ++ [34])) by (exists (e_content e1), cj1; repeat split; assumption).
    destruct (jstring_UP _ _ J2 J1 [93] [93]) as [Hj _].
    { cbn [app]. f_equal. rewrite <- !app_assoc. exact H4. }
    eapply jstring_source; eauto. }
  repeat split; congruence.
Qed.

(* every single-field mutation of a well-formed event changes the canonical text *)
Corollary canon_mutation_changes_text e1 e2 c1 c2 : canon_wf e1 -> canon_wf e2 -> canon e1 = Ok c1 -> canon e2 = Ok c2 ->
  (e_pk e1 <> e_pk e2 \/ e_created e1 <> e_created e2 \/ e_kind e1 <> e_kind e2 \/
   e_tags e1 <> e_tags e2 \/ e_content e1 <> e_content e2) -> c1 <> c2.
Proof.
  intros W1 W2 H1 H2 Hd ->. destruct (canon_injective e1 e2 c2 W1 W2 H1 H2) as [A [B [C [D E]]]]. tauto.
Qed.

(* canon succeeds on every well-formed event *)
Lemma map_res_ok {A B} (f : A -> res B) l : (forall a, In a l -> exists y, f a = Ok y) -> exists ys, map_res f l = Ok ys.
Proof.
  induction l as [|a l IH]; intros H; [eexists; reflexivity|].
  destruct (H a (or_introl eq_refl)) as [y Hy]. destruct IH as [ys Hys]. { intros b Hb. apply H. right. exact Hb. }
  cbn [map_res]. rewrite Hy, Hys. eexists. reflexivity.
Qed.
Theorem canon_succeeds e : canon_wf e -> exists c, canon e = Ok c.
Proof.
  intros [_ [_ [_ [_ [Vt Vc]]]]]. unfold canon.
  assert (Ht : exists tj, tags_as_json (e_tags e) = Ok tj).
  { rewrite tags_as_json_unfold.
    destruct (map_res_ok tag_json (e_tags e)) as [g ->]; [|eexists; reflexivity].
    intros t Ht. unfold tag_json.
    destruct (map_res_ok json_string t) as [ss ->]; [|eexists; reflexivity].
    intros s Hs. unfold json_string.
    assert (V : valid_utf8 s).
    { unfold valid_tags, valid_tag in Vt. rewrite Forall_forall in Vt. specialize (Vt t Ht). rewrite Forall_forall in Vt. apply Vt. exact Hs. }
    destruct (json_escape_succeeds_on_valid s V) as [x ->]. eexists. reflexivity. }
  destruct Ht as [tj ->]. destruct (json_escape_succeeds_on_valid _ Vc) as [cj ->]. cbn [bind]. eexists. reflexivity.
Qed.
