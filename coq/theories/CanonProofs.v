From Pocket Require Import Codec EscapeProofs.

Lemma map_res_no_fuel {A B} (f : A -> res B) l : (forall x, f x <> OutOfFuel) -> map_res f l <> OutOfFuel.
Proof.
  intros H. induction l as [|x l IH]; cbn [map_res]; [discriminate|].
  specialize (H x). destruct (f x); cbn [bind]; try congruence; try discriminate.
  destruct (map_res f l); cbn [bind]; try congruence; discriminate.
Qed.
Lemma tags_as_json_no_fuel ts : tags_as_json ts <> OutOfFuel.
Proof.
  unfold tags_as_json. destruct (map_res _ ts); discriminate.
Qed.
Theorem canon_no_fuel e : canon e <> OutOfFuel.
Proof.
  unfold canon. pose proof (tags_as_json_no_fuel (e_tags e)).
  destruct (tags_as_json (e_tags e)); cbn [bind]; try congruence; try discriminate.
  pose proof (proj2 (json_escape_total (e_content e))).
  destruct (json_escape (e_content e)); cbn [bind]; try congruence; discriminate.
Qed.
Theorem canon_shape e tj cj :
  tags_as_json (e_tags e) = Ok tj -> json_escape (e_content e) = Ok cj ->
  canon e = Ok ([91; 48; 44; 34] ++ write_hex (e_pk e) ++ [34; 44] ++ dec (e_created e) ++ [44] ++ dec (e_kind e)
                ++ [44] ++ tj ++ [44; 34] ++ cj ++ [34; 93]).
Proof. intros H1 H2. unfold canon. rewrite H1, H2. reflexivity. Qed.
