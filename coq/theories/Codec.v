(* Codec.v — binary value -> abstract value (through the accessor models of Access.v), and the
   serialisers of binary values. *)
From Pocket Require Export Access JsonParse.

Definition decode_event (b : bytes) : res aevent :=
  id <- ev_id b ;; pk <- ev_pk b ;; sg <- ev_sig b ;; k <- ev_kind b ;; c <- ev_created b ;;
  t <- ev_tags b ;; ts <- tags_iter_all t ;; ct <- ev_content b ;;
  Ok (mkE id pk sg k c ts ct).

Definition decode_filter (b : bytes) : res afilter :=
  ids <- fl_ids b ;; aus <- fl_authors b ;; ks <- fl_kinds b ;;
  t <- fl_tags b ;; ts <- tags_iter_all t ;;
  s <- fl_since b ;; u <- fl_until b ;; l <- fl_limit b ;;
  Ok (mkF ids aus ks ts s u l).

(* Event::as_json / Filter::as_json / Tags::as_json on binary values *)
Definition event_bytes_as_json (b : bytes) : res bytes := e <- decode_event b ;; event_as_json e.
Definition filter_bytes_as_json (b : bytes) : res bytes := f <- decode_filter b ;; filter_as_json f.
Definition tags_bytes_as_json (b : bytes) : res bytes := ts <- tags_iter_all b ;; tags_as_json ts.

(* the NIP-01 canonical serialisation hashed by Event::verify / sign_new:
   [0,"<pubkey hex>",<created_at>,<kind>,<tags>,"<content>"] *)
Definition canon (e : aevent) : res bytes :=
  tj <- tags_as_json (e_tags e) ;;
  cj <- json_escape (e_content e) ;;
  Ok ([91; 48; 44; 34] ++ write_hex (e_pk e) ++ [34; 44] ++ dec (e_created e) ++ [44] ++ dec (e_kind e)
      ++ [44] ++ tj ++ [44; 34] ++ cj ++ [34; 93]).
