(* Conc.v — threads sharing one store (C14).
   Each operation is two atomic steps.  A WRITER (store / remove) first acquires the single LMDB
   write lock - it blocks while another thread holds it - and at its second step applies the whole
   operation to the current state, commits and releases the lock (everything in between is private
   to its transaction; the append to the event map precedes the commit).  A READER (query) first
   takes a read transaction - a snapshot of the committed state - and at its second step answers from
   that snapshot.  A schedule is any list of thread ids.  The linearization point of a writer is its
   commit step, of a reader its snapshot step. *)
From Pocket Require Export Db.

Inductive cop := OStore (e : aevent) | ORemove (id : bytes) | OQuery (f : afilter).
Inductive cresp := RStore (r : res N) | RRemove (r : res unit) | RQuery (r : res (list aevent * bool)).

Definition is_writer (o : cop) : bool := match o with OQuery _ => false | _ => true end.

(* the sequential meaning of one operation *)
Definition apply_op (now : N) (s : db) (o : cop) : db * cresp :=
  match o with
  | OStore e => let '(s', r) := store_event s e in (s', RStore r)
  | ORemove id => let '(s', r) := remove_event s id in (s', RRemove r)
  | OQuery f => (s, RQuery (find_events s f all_match now true 0 0))
  end.

Record thread := mkTh {
  th_prog : list cop;                       (* operations still to issue *)
  th_cur : option (cop * option cresp);     (* the operation in flight; a reader carries its answer *)
  th_resps : list cresp }.                  (* responses delivered, oldest first *)

Record gstate := mkG {
  g_db : db;
  g_lock : option nat;
  g_threads : list thread;
  g_lin : list (nat * cop * cresp) }.       (* linearization: (thread, op, response), oldest first *)

Fixpoint set_nth {A} (l : list A) (n : nat) (x : A) : list A :=
  match l, n with
  | [], _ => []
  | _ :: r, O => x :: r
  | y :: r, S n' => y :: set_nth r n' x
  end.

Section Exec.
  Variable now : N.

  Definition step (g : gstate) (tid : nat) : gstate :=
    match nth_error (g_threads g) tid with
    | None => g
    | Some t =>
        match th_cur t with
        | None =>
            match th_prog t with
            | [] => g
            | o :: rest =>
                if is_writer o then
                  match g_lock g with
                  | Some _ => g                                   (* blocked on the write lock *)
                  | None => mkG (g_db g) (Some tid)
                                (set_nth (g_threads g) tid (mkTh rest (Some (o, None)) (th_resps t))) (g_lin g)
                  end
                else
                  (* snapshot: the reader's answer is determined here *)
                  let '(_, r) := apply_op now (g_db g) o in
                  mkG (g_db g) (g_lock g)
                      (set_nth (g_threads g) tid (mkTh rest (Some (o, Some r)) (th_resps t)))
                      (g_lin g ++ [(tid, o, r)])
            end
        | Some (o, Some r) =>
            (* a reader delivers the answer of its snapshot *)
            mkG (g_db g) (g_lock g) (set_nth (g_threads g) tid (mkTh (th_prog t) None (th_resps t ++ [r]))) (g_lin g)
        | Some (o, None) =>
            (* a writer commits and releases the lock *)
            let '(s', r) := apply_op now (g_db g) o in
            mkG s' None (set_nth (g_threads g) tid (mkTh (th_prog t) None (th_resps t ++ [r]))) (g_lin g ++ [(tid, o, r)])
        end
    end.

  Definition exec (sched : list nat) (g : gstate) : gstate := fold_left step sched g.

  (* sequential replay of a linearization *)
  Fixpoint replay (s : db) (l : list (nat * cop * cresp)) : db * list cresp :=
    match l with
    | [] => (s, [])
    | (_, o, _) :: r => let '(s1, x) := apply_op now s o in let '(s2, xs) := replay s1 r in (s2, x :: xs)
    end.

  Definition g_init (s : db) (progs : list (list cop)) : gstate :=
    mkG s None (map (fun p => mkTh p None []) progs) [].
End Exec.
