From Pocket Require Import Conc DbProofs.

Section Lin.
  Variable now : N.

  (* queries do not change the state *)
  Lemma apply_query_state s f : fst (apply_op now s (OQuery f)) = s.
  Proof. reflexivity. Qed.

  Lemma replay_app s l1 l2 :
    replay now s (l1 ++ l2) =
    let '(s1, r1) := replay now s l1 in let '(s2, r2) := replay now s1 l2 in (s2, r1 ++ r2).
  Proof.
    revert s. induction l1 as [|[[t o] x] l1 IH]; intros s; cbn [app replay].
    - destruct (replay now s l2). reflexivity.
    - destruct (apply_op now s o) as [s1 y]. rewrite IH.
      destruct (replay now s1 l1) as [s2 r1]. destruct (replay now s2 l2) as [s3 r2]. reflexivity.
  Qed.

  (* invariant: the shared state is the sequential replay of the linearization so far, and the
     recorded responses are the sequential responses *)
  Definition lin_ok (s0 : db) (g : gstate) : Prop :=
    replay now s0 (g_lin g) = (g_db g, map (fun x => snd x) (g_lin g)).

  Lemma step_lin_ok s0 g tid : lin_ok s0 g -> lin_ok s0 (step now g tid).
  Proof.
    unfold lin_ok, step. intros H.
    destruct (nth_error (g_threads g) tid) as [t|]; [|exact H].
    destruct (th_cur t) as [[o [r|]]|].
    - exact H.
    - destruct (apply_op now (g_db g) o) as [s' r] eqn:E. cbn [g_lin g_db].
      rewrite replay_app, H. cbn [replay]. rewrite E. rewrite map_app. reflexivity.
    - destruct (th_prog t) as [|o rest]; [exact H|].
      destruct (is_writer o) eqn:W.
      + destruct (g_lock g); exact H.
      + destruct o as [e|id|f]; try discriminate. cbn [apply_op g_lin g_db].
        rewrite replay_app, H. cbn [replay apply_op]. rewrite map_app. reflexivity.
  Qed.

  (* C14: for EVERY schedule, the responses recorded at the linearization points are exactly those
     of executing the operations one at a time in linearization order, and the final shared state is
     the final state of that sequential execution *)
  Theorem exec_linearizable s0 progs sched :
    let g := exec now sched (g_init s0 progs) in
    replay now s0 (g_lin g) = (g_db g, map (fun x => snd x) (g_lin g)).
  Proof.
    cbv zeta. unfold exec.
    assert (H0 : lin_ok s0 (g_init s0 progs)) by reflexivity.
    revert H0. generalize (g_init s0 progs) as g.
    induction sched as [|tid r IH]; intros g H; cbn [fold_left]; [exact H|].
    apply IH. apply step_lin_ok. exact H.
  Qed.

  (* only the lock holder changes the shared state: a step of a thread that is not at its commit
     point leaves the state as it is (readers never change it) *)
  Theorem step_state_changes_only_at_commit g tid :
    g_db (step now g tid) <> g_db g ->
    exists t o, nth_error (g_threads g) tid = Some t /\ th_cur t = Some (o, None).
  Proof.
    unfold step. destruct (nth_error (g_threads g) tid) as [t|] eqn:Et; [|congruence].
    destruct (th_cur t) as [[o [r|]]|] eqn:Ec.
    - cbn [g_db]. congruence.
    - intros _. exists t, o. auto.
    - destruct (th_prog t) as [|o rest]; [congruence|].
      destruct (is_writer o).
      + destruct (g_lock g); cbn [g_db]; congruence.
      + destruct (apply_op now (g_db g) o). cbn [g_db]. congruence.
  Qed.

  (* a reader's answer, once taken, stays readable: every offset its snapshot can reach reads the
     same event in every later state (the append precedes the commit; the log only grows) *)
  Theorem snapshot_bytes_stay_readable s off e ops :
    get_event_by_offset s off = Ok e -> get_event_by_offset (c_run ops s) off = Ok e.
  Proof. apply readback_forever. Qed.
End Lin.
