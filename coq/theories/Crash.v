(* Crash.v — what a process kill can leave behind (C13).
   What survives a kill: bytes already written through the shared mapping or the descriptor,
   set_len, directory entries, and every COMMITTED LMDB transaction; an uncommitted one vanishes.
   The write path is therefore a sequence of persistent steps:
     store  : [txn-local work] ; pad the end marker? ; (grow the file)* ; copy the bytes beyond the
              marker ; move the marker past the event ; [txn-local indexing] ; commit
     remove : [txn-local deindexing] ; commit
     vanish : one remove transaction per targeted event
     create : mkdir ; mkdir lmdb ; create event.map ; size it ; write marker = 8 ; create tables
   At the object level of Db.v the persistent state after a kill inside `store_event s e` is one of
   [crash_states_store s e]; reopening is the identity on it. *)
From Pocket Require Export Db.

Definition pad_only (s : db) : db := mkDb (committed s) (log s) (align8 (log_end s)) (bak s).

Definition crash_states_store (s : db) (e : aevent) : list db :=
  match pre_checks s e with
  | Ok _ =>
      (* killed before the pad / after the pad / after the marker moved past the event but before
         commit / after commit (or after a failure in handle_deletion: then the last state is the
         appended-but-uncommitted one again) *)
      [s; pad_only s; fst (log_append s e); fst (store_event s e)]
  | _ => [s]
  end.

Definition crash_states_remove (s : db) (id : bytes) : list db := [s; fst (remove_event s id)].

(* the states a vanish passes through: after each committed removal *)
Fixpoint remove_events_trace (s : db) (ids : list bytes) : list db :=
  match ids with
  | [] => [s]
  | id :: r => s :: (match remove_event s id with
                     | (s', Ok _) => remove_events_trace s' r
                     | (s', _) => [s']
                     end)
  end.
Definition crash_states_vanish (s : db) (pk : bytes) : list db :=
  let f1 := mkF [] [pk] [] [] 0 U64MAX 4294967295 in
  match find_events s f1 all_match 0 true 0 0 with
  | Ok (evs, _) =>
      let t1 := remove_events_trace s (map e_id evs) in
      let s1 := last t1 s in
      let f2 := mkF [] [] [1059] [[ [112]; write_hex pk ]] 0 U64MAX 4294967295 in
      match find_events s1 f2 all_match 0 true 0 0 with
      | Ok (gws, _) => t1 ++ remove_events_trace s1 (map e_id gws)
      | _ => t1
      end
  | _ => [s]
  end.

(* creation: every interruption of Store::new recovers to the empty store *)
Inductive create_state :=
| CNothing | CDir | CLmdbDir | CFileEmpty | CFileSizedNoMarker | CFileInit | CTables.
Definition event_map_bytes (c : create_state) : option (N * N) :=   (* (file length, end marker) *)
  match c with
  | CNothing | CDir | CLmdbDir => None
  | CFileEmpty => Some (0, 0)
  | CFileSizedNoMarker => Some (2048, 0)
  | CFileInit | CTables => Some (2048, HEADER)
  end.
(* EventStore::new on what is there: the end marker it will use *)
Definition es_open_marker (file : option (N * N)) : N :=
  match file with
  | None => HEADER
  | Some (flen, marker) => if flen <? 8 then HEADER else if marker <? HEADER then HEADER else marker
  end.
Definition recover_create (names : list bytes) (c : create_state) : db :=
  mkDb (empty_tables names) [] (es_open_marker (event_map_bytes c)) None.
