From Pocket Require Import Crash DbProofs.

(* every state a kill inside store_event can leave: the committed tables are those before or those
   after the call (never a mixture), the log only grew, and the log invariant still holds - so every
   index entry of the recovered store points below the end marker at a whole event *)
Theorem crash_store_atomic s e r :
  log_inv s -> In r (crash_states_store s e) ->
  (committed r = committed s \/ committed r = committed (fst (store_event s e))) /\
  log_extends s r /\ log_inv r /\ log_end r <= log_end (fst (store_event s e)).
Proof.
  intros Hinv Hin.
  pose proof (store_event_log s e) as [Hext Hfin]. specialize (Hfin Hinv).
  assert (Hfinal : forall r0, r0 = fst (store_event s e) ->
     (committed r0 = committed s \/ committed r0 = committed (fst (store_event s e))) /\
     log_extends s r0 /\ log_inv r0 /\ log_end r0 <= log_end (fst (store_event s e))).
  { intros r0 ->. split; [right; reflexivity|split; [exact Hext|split; [exact Hfin|lia]]]. }
  assert (Hstart : (committed s = committed s \/ committed s = committed (fst (store_event s e))) /\
     log_extends s s /\ log_inv s /\ log_end s <= log_end (fst (store_event s e))).
  { split; [left; reflexivity|split; [apply log_extends_refl|split; [exact Hinv|destruct Hext as [L _]; exact L]]]. }
  unfold crash_states_store in Hin.
  destruct (pre_checks s e) as [txn|x| |] eqn:Ep.
  2-4: destruct Hin as [<-|[]]; exact Hstart.
  assert (Hend : align8 (log_end s) + event_size e <= log_end (fst (store_event s e))).
  { unfold store_event. rewrite Ep. unfold log_append.
    match goal with |- context [match ?X with Ok _ => _ | Err _ => _ | Panic => _ | OutOfFuel => _ end] => destruct X end;
    cbn [fst with_committed log_end]; lia. }
  pose proof (align8_ge (log_end s)) as (A & B & C). pose proof (event_size_pos e) as Hsz.
  destruct Hin as [<-|[<-|[<-|[<-|[]]]]].
  - exact Hstart.
  - split; [left; reflexivity|split; [|split]].
    + unfold pad_only, log_extends. cbn [log_end log]. split; [lia|]. exists []. split; auto. intros o x [].
    + destruct Hinv as [H0 H]. split; cbn [pad_only log_end log]; [lia|].
      intros o x Hx. destruct (H _ _ Hx) as (X & Y & Z). repeat split; auto; lia.
    + cbn [pad_only log_end]. lia.
  - split; [left; unfold log_append; reflexivity|split; [|split]].
    + apply log_append_extends.
    + apply log_append_inv. exact Hinv.
    + unfold log_append. cbn [fst log_end]. exact Hend.
  - apply Hfinal. reflexivity.
Qed.

(* a kill inside remove_event: before or after, nothing in between *)
Theorem crash_remove_atomic s id r :
  In r (crash_states_remove s id) -> r = s \/ r = fst (remove_event s id).
Proof. intros [<-|[<-|[]]]; auto. Qed.

(* a kill inside vanish: every state on the way has the same log and is reached by whole
   removals only *)
Lemma remove_events_trace_log ids : forall s r, In r (remove_events_trace s ids) -> log r = log s /\ log_end r = log_end s.
Proof.
  induction ids as [|id rest IH]; intros s r; cbn [remove_events_trace].
  - intros [<-|[]]. auto.
  - intros [<-|Hin]; auto.
    pose proof (remove_event_log s id) as [A B].
    destruct (remove_event s id) as [s1 [u|x| |]]; cbn [fst] in *.
    + destruct (IH _ _ Hin) as [C D]. split; congruence.
    + destruct Hin as [<-|[]]; auto.
    + destruct Hin as [<-|[]]; auto.
    + destruct Hin as [<-|[]]; auto.
Qed.

(* creation: whatever point Store::new was killed at, reopening yields the empty store with the
   end marker right after the header - in particular a file that was sized but whose marker was
   never written is NOT trusted *)
Theorem crash_create_recovers names c : recover_create names c = db_init names.
Proof. destruct c; reflexivity. Qed.
