(* Ctor.v — models of the from_parts constructors (tags.rs 73-119, event.rs 79-129,
   filter.rs 76-151) into a caller-supplied output buffer with arbitrary prior contents.
   The constructors write the whole encoding at the front of the buffer and leave the rest
   untouched; they refuse parts that do not fit the length fields and too-small buffers. *)
From Pocket Require Export Layout.

Definition overwrite (out new : bytes) : bytes := new ++ drop (len new) out.

Definition tags_from_parts (ts : atags) (out : bytes) : res bytes :=
  let length := tags_size ts in
  if 65535 <? length then Err ERange else
  if len out <? length then Err EBuf else
  Ok (overwrite out (enc_tags ts)).

(* [e_tags e] stands for an existing Tags value (so it fits) *)
Definition event_from_parts (e : aevent) (out : bytes) : res bytes :=
  let length := event_size e in
  if 4294967295 <? length then Err ERange else
  if len out <? length then Err EBuf else
  Ok (overwrite out (enc_event e)).

Definition filter_from_parts (f : afilter) (out : bytes) : res bytes :=
  let length := filter_size f in
  if 65535 <? len (f_ids f) then Err ERange else
  if 65535 <? len (f_authors f) then Err ERange else
  if 65535 <? len (f_kinds f) then Err ERange else
  if 4294967295 <? length then Err ERange else
  if len out <? length then Err EBuf else
  Ok (overwrite out (enc_filter f)).
