From Pocket Require Import Ctor Access AccessProofs.

Lemma overwrite_take out new : len new <= len out -> take (len new) (overwrite out new) = new.
Proof. intros _. unfold overwrite. apply take_app_len. Qed.
Lemma overwrite_drop out new : drop (len new) (overwrite out new) = drop (len new) out.
Proof. unfold overwrite. apply drop_app_len. Qed.
Lemma overwrite_len out new : len new <= len out -> len (overwrite out new) = len out.
Proof. intros H. unfold overwrite. rewrite len_app, len_drop. lia. Qed.

(* ---- tags ---- *)
Theorem tags_ctor_faithful ts out :
  fits_tags ts -> tags_size ts <= len out ->
  exists b, tags_from_parts ts out = Ok b /\
            take (tags_size ts) b = enc_tags ts /\ drop (tags_size ts) b = drop (tags_size ts) out /\
            len b = len out /\
            tags_iter_all (enc_tags ts) = Ok ts.
Proof.
  intros Hf Hl. unfold tags_from_parts. unfold fits_tags in Hf.
  destruct (N.ltb_spec 65535 (tags_size ts)); [lia|].
  destruct (N.ltb_spec (len out) (tags_size ts)); [lia|].
  eexists; split; [reflexivity|]. rewrite <- (len_enc_tags ts).
  repeat apply conj.
  - apply overwrite_take. rewrite len_enc_tags. exact Hl.
  - apply overwrite_drop.
  - apply overwrite_len. rewrite len_enc_tags. exact Hl.
  - apply tags_iter_all_enc. exact Hf.
Qed.
Theorem tags_ctor_too_big ts out : ~ fits_tags ts -> tags_from_parts ts out = Err ERange.
Proof.
  unfold fits_tags, tags_from_parts. intros H. destruct (N.ltb_spec 65535 (tags_size ts)); [reflexivity|lia].
Qed.
Theorem tags_ctor_small_buffer ts out : fits_tags ts -> len out < tags_size ts -> tags_from_parts ts out = Err EBuf.
Proof.
  unfold fits_tags, tags_from_parts. intros H1 H2.
  destruct (N.ltb_spec 65535 (tags_size ts)); [lia|]. destruct (N.ltb_spec (len out) (tags_size ts)); [reflexivity|lia].
Qed.

(* ---- events ---- *)
Record event_accessors_ok (e : aevent) (b : bytes) : Prop := {
  ea_id : ev_id b = Ok (e_id e); ea_pk : ev_pk b = Ok (e_pk e); ea_sig : ev_sig b = Ok (e_sig e);
  ea_kind : ev_kind b = Ok (e_kind e); ea_created : ev_created b = Ok (e_created e);
  ea_content : ev_content b = Ok (e_content e);
  ea_tags : (t <- ev_tags b ;; tags_iter_all t) = Ok (e_tags e) }.

Lemma event_accessors_enc e : wf_aevent e -> fits_event e -> event_accessors_ok e (enc_event e).
Proof.
  intros W F. constructor.
  - apply ev_id_enc; auto. - apply ev_pk_enc; auto. - apply ev_sig_enc; auto.
  - apply ev_kind_enc; auto. - apply ev_created_enc; auto. - apply ev_content_enc; auto.
  - rewrite ev_tags_enc by auto. cbn [bind]. apply tags_iter_all_enc. destruct F; auto.
Qed.

Theorem event_ctor_faithful e out :
  wf_aevent e -> fits_event e -> event_size e <= len out ->
  exists b, event_from_parts e out = Ok b /\
            take (event_size e) b = enc_event e /\ drop (event_size e) b = drop (event_size e) out /\
            len b = len out /\
            ev_delineate b = Ok (enc_event e) /\ event_accessors_ok e (enc_event e).
Proof.
  intros W F Hl. unfold event_from_parts. destruct F as [Ft Fs] eqn:EF. clear EF.
  destruct (N.ltb_spec 4294967295 (event_size e)); [lia|].
  destruct (N.ltb_spec (len out) (event_size e)); [lia|].
  eexists; split; [reflexivity|]. rewrite <- (len_enc_event e W).
  repeat apply conj.
  - apply overwrite_take. rewrite len_enc_event by auto. exact Hl.
  - apply overwrite_drop.
  - apply overwrite_len. rewrite len_enc_event by auto. exact Hl.
  - unfold overwrite. apply ev_delineate_enc; auto; try (split; auto).
  - apply event_accessors_enc; auto; try (split; auto).
Qed.
Theorem event_ctor_too_big e out : 4294967296 <= event_size e -> event_from_parts e out = Err ERange.
Proof. unfold event_from_parts. intros H. destruct (N.ltb_spec 4294967295 (event_size e)); [reflexivity|lia]. Qed.
Theorem event_ctor_small_buffer e out :
  event_size e < 4294967296 -> len out < event_size e -> event_from_parts e out = Err EBuf.
Proof.
  unfold event_from_parts. intros H1 H2.
  destruct (N.ltb_spec 4294967295 (event_size e)); [lia|]. destruct (N.ltb_spec (len out) (event_size e)); [reflexivity|lia].
Qed.

(* ---- filters ---- *)
Record filter_accessors_ok (f : afilter) (b : bytes) : Prop := {
  fa_ids : fl_ids b = Ok (f_ids f); fa_authors : fl_authors b = Ok (f_authors f);
  fa_kinds : fl_kinds b = Ok (f_kinds f);
  fa_since : fl_since b = Ok (f_since f); fa_until : fl_until b = Ok (f_until f); fa_limit : fl_limit b = Ok (f_limit f);
  fa_tags : (t <- fl_tags b ;; tags_iter_all t) = Ok (f_tags f) }.

Lemma filter_accessors_enc f : wf_afilter f -> fits_filter f -> filter_accessors_ok f (enc_filter f).
Proof.
  intros W F. constructor.
  - apply fl_ids_enc; auto. - apply fl_authors_enc; auto. - apply fl_kinds_enc; auto.
  - apply fl_since_enc; auto. - apply fl_until_enc; auto. - apply fl_limit_enc; auto.
  - rewrite fl_tags_enc by auto. cbn [bind]. apply tags_iter_all_enc. destruct F as (_ & _ & _ & H & _); auto.
Qed.

Lemma len_enc_filter f : wf_afilter f -> len (enc_filter f) = filter_size f.
Proof.
  intros (Hi & Ha & _). unfold enc_filter, filter_size.
  rewrite !len_app, !len_le32, !len_le16, !len_le64, len_enc_tags.
  rewrite (len_concat_fixed _ 32 Hi), (len_concat_fixed _ 32 Ha), len_concat_le16.
  change (len [0; 0]) with 2. lia.
Qed.

Theorem filter_ctor_faithful f out :
  wf_afilter f -> fits_filter f -> filter_size f <= len out ->
  exists b, filter_from_parts f out = Ok b /\
            take (filter_size f) b = enc_filter f /\ drop (filter_size f) b = drop (filter_size f) out /\
            len b = len out /\ filter_accessors_ok f (enc_filter f).
Proof.
  intros W F Hl. unfold filter_from_parts. destruct F as (F1 & F2 & F3 & F4 & F5) eqn:EF. clear EF.
  destruct (N.ltb_spec 65535 (len (f_ids f))); [lia|].
  destruct (N.ltb_spec 65535 (len (f_authors f))); [lia|].
  destruct (N.ltb_spec 65535 (len (f_kinds f))); [lia|].
  destruct (N.ltb_spec 4294967295 (filter_size f)); [lia|].
  destruct (N.ltb_spec (len out) (filter_size f)); [lia|].
  eexists; split; [reflexivity|]. rewrite <- (len_enc_filter f W).
  repeat apply conj.
  - apply overwrite_take. rewrite len_enc_filter by auto. exact Hl.
  - apply overwrite_drop.
  - apply overwrite_len. rewrite len_enc_filter by auto. exact Hl.
  - apply filter_accessors_enc; auto; try (repeat split; auto).
Qed.
Theorem filter_ctor_too_big f out :
  fits_tags (f_tags f) -> ~ fits_filter f -> filter_from_parts f out = Err ERange.
Proof.
  unfold fits_filter, filter_from_parts. intros Ht H.
  destruct (N.ltb_spec 65535 (len (f_ids f))); [reflexivity|].
  destruct (N.ltb_spec 65535 (len (f_authors f))); [reflexivity|].
  destruct (N.ltb_spec 65535 (len (f_kinds f))); [reflexivity|].
  destruct (N.ltb_spec 4294967295 (filter_size f)); [reflexivity|].
  exfalso. apply H. repeat split; try lia. exact Ht.
Qed.
Theorem filter_ctor_small_buffer f out :
  fits_filter f -> len out < filter_size f -> filter_from_parts f out = Err EBuf.
Proof.
  unfold fits_filter, filter_from_parts. intros (F1 & F2 & F3 & F4 & F5) H.
  destruct (N.ltb_spec 65535 (len (f_ids f))); [lia|].
  destruct (N.ltb_spec 65535 (len (f_authors f))); [lia|].
  destruct (N.ltb_spec 65535 (len (f_kinds f))); [lia|].
  destruct (N.ltb_spec 4294967295 (filter_size f)); [lia|].
  destruct (N.ltb_spec (len out) (filter_size f)); [reflexivity|lia].
Qed.
