(* Db.v — executable model of pocket-db's Store (lib.rs) over the table abstraction of
   Keys.v and an object-level event log (event_store.rs; the byte level is LogBytes.v).
   Events and filters are the abstract values of Layout.v: by C06/C19 (AccessProofs.v,
   MatchProofs.v) the binary accessors and the match predicate return exactly these fields
   for well-formed values, which is all the store ever reads.  A write transaction is an
   explicit private copy [txn] of the committed tables; helpers that open their own read
   transaction in the code read [committed] here.  No proofs in this file. *)
From Pocket Require Export Keys MatchSpec Hex.

(* ---------- Addr::try_from_bytes ---------- *)
Fixpoint split_colon (l : bytes) : bytes * option bytes :=
  match l with
  | [] => ([], None)
  | c :: r => if c =? 58 then ([], Some r)
              else let '(a, b) := split_colon r in (c :: a, b)
  end.
Fixpoint parse_digits (l : bytes) (acc : N) : option N :=
  match l with
  | [] => Some acc
  | c :: r => if (48 <=? c) && (c <=? 57) then
                let acc' := acc * 10 + (c - 48) in
                if 65535 <? acc' then None else parse_digits r acc'
              else None
  end.
(* str::parse::<u16>: optional '+', at least one digit, no overflow *)
Definition parse_u16 (l : bytes) : option N :=
  match l with
  | [] => None
  | c :: r => if c =? 43 then (match r with [] => None | _ => parse_digits r 0 end)
              else parse_digits l 0
  end.
Definition addr_parse (input : bytes) : res addr :=
  let '(kb, r1) := split_colon input in
  match parse_u16 kb with
  | None => Err EAddr
  | Some k =>
      match r1 with
      | None => Err EAddr
      | Some r1 =>
          let '(ab, r2) := split_colon r1 in
          author <- read_hex ab 32 ;;
          match r2 with
          | None => Err EAddr
          | Some d => Ok (mkAddr k author d)
          end
      end
  end.

(* ---------- state ---------- *)
Record tables := mkT {
  t_i : table; t_ci : table; t_tc : table; t_ac : table; t_akc : table; t_atc : table; t_ktc : table;
  t_delids : table; t_naddr : table;
  t_extra : list (bytes * list (bytes * bytes)) }.

Definition empty_tables (names : list bytes) : tables :=
  mkT [] [] [] [] [] [] [] [] [] (map (fun n => (n, [])) names).

Record db := mkDb {
  committed : tables;
  log : list (N * aevent);     (* offset, event; newest first *)
  log_end : N;                 (* the end marker of the event map *)
  bak : option (list (N * aevent) * tables) }.

Definition HEADER : N := 8.
Definition db_init (names : list bytes) : db := mkDb (empty_tables names) [] HEADER None.

Definition align8 (x : N) : N := if x mod 8 =? 0 then x else x + (8 - x mod 8).

Fixpoint log_find (l : list (N * aevent)) (off : N) : option aevent :=
  match l with
  | [] => None
  | (o, e) :: r => if o =? off then Some e else log_find r off
  end.

(* EventStore::get_event_by_offset *)
Definition get_event_by_offset (s : db) (off : N) : res aevent :=
  if log_end s <=? off then Err EEnd else
  match log_find (log s) off with Some e => Ok e | None => Err EOther end.

(* EventStore::store_event *)
Definition log_append (s : db) (e : aevent) : db * N :=
  let off := align8 (log_end s) in
  (mkDb (committed s) ((off, e) :: log s) (off + event_size e) (bak s), off).

(* ---------- index / deindex ---------- *)
(* the (letter, value) pairs the tag indexes hold for an event: one-byte names with a value *)
Fixpoint indexable_tags (ts : atags) : list (N * bytes) :=
  match ts with
  | [] => []
  | (name :: v :: _) :: r =>
      match name with
      | [c] => (c, v) :: indexable_tags r
      | _ => indexable_tags r
      end
  | _ :: r => indexable_tags r
  end.

Definition index_tags (tb : tables) (e : aevent) (off : N) : tables :=
  fold_left (fun tb lv =>
    let '(c, v) := lv in
    mkT (t_i tb) (t_ci tb)
        (t_put (t_tc tb) (key_tc c v (e_created e) (e_id e)) off)
        (t_ac tb) (t_akc tb)
        (t_put (t_atc tb) (key_atc (e_pk e) c v (e_created e) (e_id e)) off)
        (t_put (t_ktc tb) (key_ktc (e_kind e) c v (e_created e) (e_id e)) off)
        (t_delids tb) (t_naddr tb) (t_extra tb))
    (indexable_tags (e_tags e)) tb.

(* Lmdb::index *)
Definition index (tb : tables) (e : aevent) (off : N) : tables :=
  let tb1 := mkT (t_put (t_i tb) (e_id e) off)
                 (t_put (t_ci tb) (key_ci (e_created e) (e_id e)) off)
                 (t_tc tb)
                 (t_put (t_ac tb) (key_ac (e_pk e) (e_created e) (e_id e)) off)
                 (t_put (t_akc tb) (key_akc (e_pk e) (e_kind e) (e_created e) (e_id e)) off)
                 (t_atc tb) (t_ktc tb) (t_delids tb) (t_naddr tb) (t_extra tb) in
  index_tags tb1 e off.

(* Lmdb::deindex (everything except the id index) *)
Definition deindex (tb : tables) (e : aevent) : tables :=
  let tb1 := fold_left (fun tb lv =>
    let '(c, v) := lv in
    mkT (t_i tb) (t_ci tb)
        (t_del (t_tc tb) (key_tc c v (e_created e) (e_id e)))
        (t_ac tb) (t_akc tb)
        (t_del (t_atc tb) (key_atc (e_pk e) c v (e_created e) (e_id e)))
        (t_del (t_ktc tb) (key_ktc (e_kind e) c v (e_created e) (e_id e)))
        (t_delids tb) (t_naddr tb) (t_extra tb))
    (indexable_tags (e_tags e)) tb in
  mkT (t_i tb1)
      (t_del (t_ci tb1) (key_ci (e_created e) (e_id e)))
      (t_tc tb1)
      (t_del (t_ac tb1) (key_ac (e_pk e) (e_created e) (e_id e)))
      (t_del (t_akc tb1) (key_akc (e_pk e) (e_kind e) (e_created e) (e_id e)))
      (t_atc tb1) (t_ktc tb1) (t_delids tb1) (t_naddr tb1) (t_extra tb1).

Definition deindex_id (tb : tables) (id : bytes) : tables :=
  mkT (t_del (t_i tb) id) (t_ci tb) (t_tc tb) (t_ac tb) (t_akc tb) (t_atc tb) (t_ktc tb)
      (t_delids tb) (t_naddr tb) (t_extra tb).

Definition is_deleted (tb : tables) (id : bytes) : bool :=
  match t_get (t_delids tb) id with Some _ => true | None => false end.
Definition mark_deleted (tb : tables) (id : bytes) : tables :=
  mkT (t_i tb) (t_ci tb) (t_tc tb) (t_ac tb) (t_akc tb) (t_atc tb) (t_ktc tb)
      (t_put (t_delids tb) id 0) (t_naddr tb) (t_extra tb).
Definition when_naddr_deleted (tb : tables) (a : addr) : option N := t_get (t_naddr tb) (key_naddr a).
(* mark_naddr_deleted keeps the latest deletion time *)
Definition mark_naddr_deleted (tb : tables) (a : addr) (when : N) : res tables :=
  match when_naddr_deleted tb a with
  | Some old => if when <=? old then Ok tb else
      nt <- t_put_checked (t_naddr tb) (key_naddr a) when ;;
      Ok (mkT (t_i tb) (t_ci tb) (t_tc tb) (t_ac tb) (t_akc tb) (t_atc tb) (t_ktc tb) (t_delids tb) nt (t_extra tb))
  | None =>
      nt <- t_put_checked (t_naddr tb) (key_naddr a) when ;;
      Ok (mkT (t_i tb) (t_ci tb) (t_tc tb) (t_ac tb) (t_akc tb) (t_atc tb) (t_ktc tb) (t_delids tb) nt (t_extra tb))
  end.

(* ---------- range scans (ascending key = newest first, then ascending id) ---------- *)
Definition akc_range (tb : tables) (a : bytes) (k : N) (since until : N) : table :=
  t_range (t_akc tb) (key_akc a k until zeros32) (key_akc a k since ffs32).
Definition atc_range (tb : tables) (a : bytes) (c : N) (v : bytes) (since until : N) : table :=
  t_range (t_atc tb) (key_atc a c v until zeros32) (key_atc a c v since ffs32).
Definition ktc_range (tb : tables) (k : N) (c : N) (v : bytes) (since until : N) : table :=
  t_range (t_ktc tb) (key_ktc k c v until zeros32) (key_ktc k c v since ffs32).
Definition tc_range (tb : tables) (c : N) (v : bytes) (since until : N) : table :=
  t_range (t_tc tb) (key_tc c v until zeros32) (key_tc c v since ffs32).
Definition ac_range (tb : tables) (a : bytes) (since until : N) : table :=
  t_range (t_ac tb) (key_ac a until zeros32) (key_ac a since ffs32).
Definition ci_range (tb : tables) (since until : N) : table :=
  t_range (t_ci tb) (key_ci until zeros32) (key_ci since ffs32).

(* ---------- removal ---------- *)
(* Store::remove_by_offset *)
Definition remove_by_offset (s : db) (txn : tables) (off : N) : res tables :=
  e <- get_event_by_offset s off ;;
  Ok (deindex_id (deindex txn e) (e_id e)).
(* Store::remove_by_id *)
Definition remove_by_id (s : db) (txn : tables) (id : bytes) : res tables :=
  match t_get (t_i txn) id with
  | Some off => remove_by_offset s txn off
  | None => Ok txn
  end.

Fixpoint remove_offsets (s : db) (txn : tables) (offs : list N) : res tables :=
  match offs with
  | [] => Ok txn
  | o :: r => txn' <- remove_by_offset s txn o ;; remove_offsets s txn' r
  end.

(* Store::remove_replaceable: the scan reads the COMMITTED tables (its own read txn) *)
Definition remove_replaceable (s : db) (txn : tables) (author : bytes) (k : N) (until : N) : res tables :=
  if negb (is_replaceable k) then Err EWrongKind else
  remove_offsets s txn (map snd (akc_range (committed s) author k 0 until)).

Definition d_of (e : aevent) : option bytes := spec_get_value [100] (e_tags e).

(* Store::remove_parameterized_replaceable: scan of the COMMITTED atc index under the padded
   d value; kind and the real d value are compared on each candidate *)
Definition same_addr (a : addr) (e : aevent) : bool :=
  (e_kind e =? a_kind a) && match d_of e with Some d => beq d (a_d a) | None => false end.

Fixpoint remove_param_offsets (s : db) (txn : tables) (a : addr) (offs : list N) : res tables :=
  match offs with
  | [] => Ok txn
  | o :: r =>
      e <- get_event_by_offset s o ;;
      if same_addr a e then txn' <- remove_by_offset s txn o ;; remove_param_offsets s txn' a r
      else remove_param_offsets s txn a r
  end.
Definition remove_param_replaceable (s : db) (txn : tables) (a : addr) (until : N) : res tables :=
  if negb (is_param_replaceable (a_kind a)) then Err EWrongKind else
  remove_param_offsets s txn a (map snd (atc_range (committed s) (a_author a) 100 (a_d a) 0 until)).

(* find_replaceable_event_inner / find_parameterized_replaceable_event_inner on tables [tb] *)
Definition find_replaceable (s : db) (tb : tables) (author : bytes) (k : N) : res (option aevent) :=
  if negb (is_replaceable k) then Err EWrongKind else
  match akc_range tb author k 0 U64MAX with
  | [] => Ok None
  | (_, off) :: _ => e <- get_event_by_offset s off ;; Ok (Some e)
  end.
Fixpoint first_same_addr (s : db) (a : addr) (entries : table) : res (option aevent) :=
  match entries with
  | [] => Ok None
  | (_, off) :: r =>
      e <- get_event_by_offset s off ;;
      if same_addr a e then Ok (Some e) else first_same_addr s a r
  end.
Definition find_param_replaceable (s : db) (tb : tables) (a : addr) : res (option aevent) :=
  if negb (is_param_replaceable (a_kind a)) then Err EWrongKind else
  first_same_addr s a (atc_range tb (a_author a) 100 (a_d a) 0 U64MAX).

(* Store::get_event_by_id (own read transaction: committed tables) *)
Definition get_event_by_id (s : db) (id : bytes) : res (option aevent) :=
  match t_get (t_i (committed s)) id with
  | Some off => e <- get_event_by_offset s off ;; Ok (Some e)
  | None => Ok None
  end.

(* ---------- Store::handle_deletion_event ---------- *)
Definition handle_one_tag (s : db) (txn : tables) (ev : aevent) (tag : list bytes) : res tables :=
  match tag with
  | name :: arg :: _ =>
      if beq name [101] then
        match read_hex arg 32 with
        | Ok id =>
            target <- get_event_by_id s id ;;
            txn1 <- (match target with
                     | Some tg => if beq (e_pk tg) (e_pk ev) then remove_by_id s txn id else Err EInvalidDelete
                     | None => Ok txn
                     end) ;;
            Ok (mark_deleted txn1 id)
        | _ => Ok txn
        end
      else if beq name [97] then
        match addr_parse arg with
        | Ok a =>
            if negb (beq (a_author a) (e_pk ev)) then Err EInvalidDelete else
            txn1 <- mark_naddr_deleted txn a (e_created ev) ;;
            if is_replaceable (a_kind a) then remove_replaceable s txn1 (a_author a) (a_kind a) (e_created ev)
            else if is_param_replaceable (a_kind a) then remove_param_replaceable s txn1 a (e_created ev)
            else Ok txn1
        | _ => Ok txn
        end
      else Ok txn
  | _ => Ok txn
  end.
Fixpoint handle_deletion (s : db) (txn : tables) (ev : aevent) (tags : atags) : res tables :=
  match tags with
  | [] => Ok txn
  | t :: r => txn' <- handle_one_tag s txn ev t ;; handle_deletion s txn' ev r
  end.

(* ---------- Store::store_event ---------- *)
Definition with_committed (s : db) (tb : tables) : db := mkDb tb (log s) (log_end s) (bak s).

Definition pre_checks (s : db) (e : aevent) : res tables :=
  let txn := committed s in
  match t_get (t_i txn) (e_id e) with Some _ => Err EDup | None =>
  if is_deleted txn (e_id e) then Err EDeleted else
  if is_replaceable (e_kind e) &&
     match when_naddr_deleted txn (mkAddr (e_kind e) (e_pk e) []) with
     | Some t => e_created e <=? t | None => false end
  then Err EDeleted else
  if is_param_replaceable (e_kind e) &&
     match d_of e with
     | Some d => match when_naddr_deleted txn (mkAddr (e_kind e) (e_pk e) d) with
                 | Some t => e_created e <=? t | None => false end
     | None => false end
  then Err EDeleted else
  (* pre-remove what this event replaces *)
  txn1 <- (if is_replaceable (e_kind e) then
             t1 <- remove_replaceable s txn (e_pk e) (e_kind e) (e_created e) ;;
             h <- find_replaceable s t1 (e_pk e) (e_kind e) ;;
             match h with Some _ => Err EReplaced | None => Ok t1 end
           else Ok txn) ;;
  if is_param_replaceable (e_kind e) then
    match d_of e with
    | Some d =>
        let a := mkAddr (e_kind e) (e_pk e) d in
        t2 <- remove_param_replaceable s txn1 a (e_created e) ;;
        h <- find_param_replaceable s t2 a ;;
        match h with Some _ => Err EReplaced | None => Ok t2 end
    | None => Ok txn1
    end
  else Ok txn1
  end.

Definition store_event (s : db) (e : aevent) : db * res N :=
  match pre_checks s e with
  | Ok txn =>
      let '(s1, off) := log_append s e in
      let txn2 := if is_ephemeral (e_kind e) then txn else index txn e off in
      match (if e_kind e =? 5 then handle_deletion s1 txn2 e (e_tags e) else Ok txn2) with
      | Ok txn3 => (with_committed s1 txn3, Ok off)
      | Err x => (s1, Err x)
      | Panic => (s1, Panic)
      | OutOfFuel => (s1, OutOfFuel)
      end
  | Err x => (s, Err x)
  | Panic => (s, Panic)
  | OutOfFuel => (s, OutOfFuel)
  end.

(* Store::remove_event *)
Definition remove_event (s : db) (id : bytes) : db * res unit :=
  match remove_by_id s (committed s) id with
  | Ok tb => (with_committed s tb, Ok tt)
  | Err x => (s, Err x) | Panic => (s, Panic) | OutOfFuel => (s, OutOfFuel)
  end.

(* ---------- Store::find_events ---------- *)
Inductive sres := SMatch | SMismatch | SRedacted.

Record qstate := mkQ { q_out : list aevent; q_red : bool; q_since : N }.

Definition same_ord (a b : aevent) : bool := (e_created a =? e_created b) && beq (e_id a) (e_id b).
Definition out_insert (out : list aevent) (e : aevent) : list aevent :=
  if existsb (same_ord e) out then out else e :: out.

(* Event::cmp: created_at then id *)
Definition ev_lt (a b : aevent) : bool :=
  if e_created a <? e_created b then true
  else if e_created b <? e_created a then false else lex_lt (e_id a) (e_id b).
Fixpoint insert_desc (e : aevent) (l : list aevent) : list aevent :=
  match l with
  | [] => [e]
  | x :: r => if ev_lt e x then x :: insert_desc e r else e :: l
  end.
Fixpoint sort_desc (l : list aevent) : list aevent :=
  match l with [] => [] | e :: r => insert_desc e (sort_desc r) end.

Section Query.
  Variable s : db.
  Variable f : afilter.
  Variable screen : aevent -> sres.

  (* `filter.event_matches(event)? && screen(event)`; the screen runs only on matching events *)
  Definition accept (q : qstate) (e : aevent) : qstate * bool :=
    if spec_matches f e then
      match screen e with
      | SMatch => (mkQ (out_insert (q_out q) e) (q_red q) (q_since q), true)
      | SMismatch => (q, false)
      | SRedacted => (mkQ (q_out q) true (q_since q), false)
      end
    else (q, false).

  (* one range scan of the author-kind / author-tag / kind-tag / tag plans.
     [repl]: stop after the first accepted event (author-kind plan, replaceable kind). *)
  Fixpoint scan_pair (entries : table) (repl : bool) (q : qstate) (count : N) : res qstate :=
    match entries with
    | [] => Ok q
    | (_, off) :: r =>
        e <- get_event_by_offset s off ;;
        if e_created e <? q_since q then Ok q else
        let '(q', acc) := accept q e in
        if acc then
          let count' := count + 1 in
          if f_limit f <=? count' then
            Ok (mkQ (q_out q') (q_red q') (if q_since q' <? e_created e then e_created e else q_since q'))
          else if repl then Ok q'
          else scan_pair r repl q' count'
        else scan_pair r repl q' count
    end.

  (* author-only plan: the break test uses filter.since(), not the moving since *)
  Fixpoint scan_author (entries : table) (q : qstate) (count : N) : res qstate :=
    match entries with
    | [] => Ok q
    | (_, off) :: r =>
        e <- get_event_by_offset s off ;;
        if e_created e <? f_since f then Ok q else
        let '(q', acc) := accept q e in
        if acc then
          let count' := count + 1 in
          if f_limit f <=? count' then
            Ok (mkQ (q_out q') (q_red q') (if q_since q' <? e_created e then e_created e else q_since q'))
          else scan_author r q' count'
        else scan_author r q' count
    end.

  (* scrape plan: stops when the output holds `limit` events *)
  Fixpoint scan_scrape (entries : table) (q : qstate) : res qstate :=
    match entries with
    | [] => Ok q
    | (_, off) :: r =>
        if f_limit f <=? len (q_out q) then Ok q else
        e <- get_event_by_offset s off ;;
        let '(q', _) := accept q e in scan_scrape r q'
    end.

  Fixpoint scan_ids (ids : list bytes) (q : qstate) : res qstate :=
    match ids with
    | [] => Ok q
    | id :: r =>
        o <- get_event_by_id s id ;;
        match o with
        | Some e => let '(q', _) := accept q e in scan_ids r q'
        | None => scan_ids r q
        end
    end.

  Definition fold_res {A} (g : qstate -> A -> res qstate) (l : list A) (q : qstate) : res qstate :=
    fold_left (fun r x => q <- r ;; g q x) l (Ok q).

  (* the (letter, value) ranges a tag plan scans: every value of every constraint; the index
     letter is the first byte of the constraint's name (`tag0[0]`: panics on an empty name) *)
  Definition tag_ranges : res (list (N * bytes)) :=
    fold_left (fun r (c : list bytes) =>
      acc <- r ;;
      match c with
      | [] => Ok acc
      | name :: vals =>
          match vals with
          | [] => Ok acc
          | _ => match name with
                 | [] => Panic
                 | letter :: _ => Ok (acc ++ map (fun v => (letter, v)) vals)
                 end
          end
      end) (f_tags f) (Ok []).

  Variable now : N.
  Variables (allow_scraping : bool) (allow_limit : N) (allow_seconds : N).

  Definition find_events_q : res qstate :=
    let q0 := mkQ [] false (f_since f) in
    match f_ids f with
    | _ :: _ => scan_ids (f_ids f) q0
    | [] =>
      match f_authors f, f_kinds f, f_tags f with
      | _ :: _, _ :: _, _ =>
          fold_res (fun q a =>
            fold_res (fun q k =>
              scan_pair (akc_range (committed s) a k (q_since q) (f_until f)) (is_replaceable k) q 0)
              (f_kinds f) q) (f_authors f) q0
      | _ :: _, [], _ :: _ =>
          rs <- tag_ranges ;;
          fold_res (fun q a =>
            fold_res (fun q (lv : N * bytes) =>
              scan_pair (atc_range (committed s) a (fst lv) (snd lv) (q_since q) (f_until f)) false q 0)
              rs q) (f_authors f) q0
      | [], _ :: _, _ :: _ =>
          rs <- tag_ranges ;;
          fold_res (fun q k =>
            fold_res (fun q (lv : N * bytes) =>
              scan_pair (ktc_range (committed s) k (fst lv) (snd lv) (q_since q) (f_until f)) false q 0)
              rs q) (f_kinds f) q0
      | [], [], _ :: _ =>
          rs <- tag_ranges ;;
          fold_res (fun q (lv : N * bytes) =>
            scan_pair (tc_range (committed s) (fst lv) (snd lv) (q_since q) (f_until f)) false q 0) rs q0
      | _ :: _, [], [] =>
          fold_res (fun q a => scan_author (ac_range (committed s) a (q_since q) (f_until f)) q 0) (f_authors f) q0
      | [], _, [] =>
          let maxtime := N.min (f_until f) now in
          let allow := allow_scraping || (f_limit f <=? allow_limit) || (maxtime - f_since f <? allow_seconds) in
          if negb allow then Err EScraper else
          scan_scrape (ci_range (committed s) (f_since f) (f_until f)) q0
      end
    end.

  Definition find_events : res (list aevent * bool) :=
    q <- find_events_q ;;
    Ok (ltake (f_limit f) (sort_desc (q_out q)), q_red q).
End Query.

(* ---------- Store::vanish ---------- *)
Fixpoint remove_events (s : db) (ids : list bytes) : db * res unit :=
  match ids with
  | [] => (s, Ok tt)
  | id :: r => match remove_event s id with
               | (s', Ok _) => remove_events s' r
               | (s', x) => (s', x)
               end
  end.
Definition all_match (_ : aevent) : sres := SMatch.
Definition vanish (s : db) (pk : bytes) : db * res unit :=
  let f1 := mkF [] [pk] [] [] 0 U64MAX 4294967295 in
  match find_events s f1 all_match 0 true 0 0 with
  | Ok (evs, _) =>
      match remove_events s (map e_id evs) with
      | (s1, Ok _) =>
          let f2 := mkF [] [] [1059] [[ [112]; write_hex pk ]] 0 U64MAX 4294967295 in
          match find_events s1 f2 all_match 0 true 0 0 with
          | Ok (gws, _) => remove_events s1 (map e_id gws)
          | Err x => (s1, Err x) | Panic => (s1, Panic) | OutOfFuel => (s1, OutOfFuel)
          end
      | (s1, x) => (s1, x)
      end
  | Err x => (s, Err x) | Panic => (s, Panic) | OutOfFuel => (s, OutOfFuel)
  end.

(* ---------- lookups / statistics ---------- *)
Definition has_event (s : db) (id : bytes) : bool :=
  match t_get (t_i (committed s)) id with Some _ => true | None => false end.
Definition event_is_deleted (s : db) (id : bytes) : bool := is_deleted (committed s) id.
Definition naddr_is_deleted_asof (s : db) (a : addr) : option N := when_naddr_deleted (committed s) a.
Definition find_replaceable_event (s : db) (author : bytes) (k : N) : res (option aevent) :=
  find_replaceable s (committed s) author k.
Definition find_param_replaceable_event (s : db) (a : addr) : res (option aevent) :=
  find_param_replaceable s (committed s) a.

(* the nine entry counters + event_bytes *)
Definition stats (s : db) : list N :=
  let tb := committed s in
  [len (t_i tb); len (t_ci tb); len (t_tc tb); len (t_ac tb); len (t_akc tb); len (t_atc tb);
   len (t_ktc tb); len (t_delids tb); len (t_naddr tb); log_end s].

(* extra tables *)
Fixpoint extra_put (x : list (bytes * list (bytes * bytes))) (name k v : bytes) : list (bytes * list (bytes * bytes)) :=
  match x with
  | [] => []
  | (n, rows) :: r =>
      if beq n name then (n, (k, v) :: filter (fun kv => negb (beq (fst kv) k)) rows) :: r
      else (n, rows) :: extra_put r name k v
  end.
Definition db_extra_put (s : db) (name k v : bytes) : db :=
  let tb := committed s in
  with_committed s (mkT (t_i tb) (t_ci tb) (t_tc tb) (t_ac tb) (t_akc tb) (t_atc tb) (t_ktc tb)
                        (t_delids tb) (t_naddr tb) (extra_put (t_extra tb) name k v)).

(* ---------- reopen / rebuild ---------- *)
Definition reopen (s : db) : db := s.

(* dump_naddr_deleted: decode a deleted-naddr key back into an Addr (by key length) *)
Definition decode_naddr (key : bytes) : addr :=
  let k := match rdbe16 key with Some v => v | None => 0 end in
  let author := take 32 (drop 2 key) in
  let dlen := nth 34 key 0 in
  let d := if 217 <? len key then drop 35 key else take dlen (drop 35 key) in
  mkAddr k author d.

Fixpoint rebuild_events (old : db) (news : db) (entries : table) : res db :=
  match entries with
  | [] => Ok news
  | (_, off) :: r =>
      e <- get_event_by_offset old off ;;
      let '(n1, noff) := log_append news e in
      rebuild_events old (with_committed n1 (index (committed n1) e noff)) r
  end.
Fixpoint rebuild_naddrs (tb : tables) (entries : table) : res tables :=
  match entries with
  | [] => Ok tb
  | (k, when) :: r => tb' <- mark_naddr_deleted tb (decode_naddr k) when ;; rebuild_naddrs tb' r
  end.

Definition rebuild (s : db) : res db :=
  let old := committed s in
  let fresh := mkDb (empty_tables (map fst (t_extra old))) [] HEADER (Some (log s, old)) in
  n1 <- rebuild_events s fresh (t_iter (t_i old)) ;;
  let tb1 := fold_left (fun tb (kv : bytes * N) => mark_deleted tb (fst kv)) (t_iter (t_delids old)) (committed n1) in
  tb2 <- rebuild_naddrs tb1 (t_iter (t_naddr old)) ;;
  let tb3 := mkT (t_i tb2) (t_ci tb2) (t_tc tb2) (t_ac tb2) (t_akc tb2) (t_atc tb2) (t_ktc tb2)
                 (t_delids tb2) (t_naddr tb2) (t_extra old) in
  Ok (with_committed n1 tb3).
