(* DbAddr.v — at most one retrievable event per replaceable address, on the CONCRETE store, all histories (C09):
   in every reachable state two retrievable events with the same author and the same replaceable kind, or the
   same author, the same parameterized-replaceable kind and the same d identifier (compared in full: every
   byte and the length), are the same event.
   Needs the memcmp order of the index keys (KeyOrder.v): the scan that looks for a remaining holder of the
   address really sees every retrievable event of that address. *)
From Pocket Require Import Db DbProofs TableProofs DbIdInv DbIndexInv KeyOrder.

(* what every stored event satisfies: a 32-byte id and pubkey, created_at and kind within their fields *)
Definition wf_ev (e : aevent) : Prop :=
  wf_id32 (e_id e) /\ e_created e <= U64MAX /\ length (e_pk e) = 32%nat /\ e_kind e < 65536.
Definition log_wfe (L : logt) : Prop := forall off e, log_find L off = Some e -> wf_ev e.
Lemma wf_ev_wf_id e : wf_ev e -> wf_id e. Proof. intros [[L _] _]. exact L. Qed.
Lemma wf_ev_created e : wf_ev e -> e_created e <= U64MAX. Proof. intros (_ & H & _). exact H. Qed.
Lemma log_wfe_wf L : log_wfe L -> log_wf L. Proof. intros H off e Hf. apply wf_ev_wf_id. eapply H; eauto. Qed.

(* ---------- range scans see every retrievable event whose key lies in the interval ---------- *)
Lemma range_complete L ti T K lo hi id off e k : TabInv L ti T K -> In (id, off) ti -> log_find L off = Some e ->
  In k (K e) -> lex_lt k lo = false -> lex_lt hi k = false -> In (k, off) (t_range T lo hi).
Proof. intros [_ [_ C]] Hi Hf Hk H1 H2. apply t_range_spec. split; [eapply C; eauto|split; assumption]. Qed.

Lemma key_akc_assoc a k t id : key_akc a k t id = (a ++ be16 k) ++ rev_time t ++ id.
Proof. unfold key_akc. rewrite <- app_assoc. reflexivity. Qed.
Lemma key_atc_assoc a c v t id : key_atc a c v t id = (a ++ [c] ++ pad182 v) ++ rev_time t ++ id.
Proof. unfold key_atc. rewrite <- !app_assoc. reflexivity. Qed.
Lemma key_ktc_assoc k c v t id : key_ktc k c v t id = (be16 k ++ [c] ++ pad182 v) ++ rev_time t ++ id.
Proof. unfold key_ktc. rewrite <- !app_assoc. reflexivity. Qed.
Lemma key_tc_assoc c v t id : key_tc c v t id = ([c] ++ pad182 v) ++ rev_time t ++ id.
Proof. unfold key_tc. rewrite <- !app_assoc. reflexivity. Qed.
Lemma key_ac_assoc a t id : key_ac a t id = a ++ rev_time t ++ id.
Proof. reflexivity. Qed.

Lemma akc_range_complete L tb id off e since until : AllInv L tb -> In (id, off) (t_i tb) -> log_find L off = Some e ->
  wf_ev e -> since <= e_created e -> e_created e <= until -> until <= U64MAX ->
  In (key_akc (e_pk e) (e_kind e) (e_created e) (e_id e), off) (akc_range tb (e_pk e) (e_kind e) since until).
Proof.
  intros (_ & _ & _ & B3 & _) Hi Hf (Wid & Wc & _) H1 H2 H3. unfold akc_range.
  eapply (range_complete L _ _ keys_akc); eauto.
  - left. reflexivity.
  - rewrite !key_akc_assoc. apply (proj1 (key_in_range _ since _ until _ Wid H1 H2 H3)).
  - rewrite !key_akc_assoc. apply (proj2 (key_in_range _ since _ until _ Wid H1 H2 H3)).
Qed.

(* ---------- indexable tags and the d identifier ---------- *)
Lemma d_of_indexable e d : d_of e = Some d -> In (100, d) (indexable_tags (e_tags e)).
Proof.
  unfold d_of. induction (e_tags e) as [|t r IH]; cbn [spec_get_value indexable_tags]; [discriminate|].
  destruct t as [|n rest]; [exact IH|].
  destruct (beq n [100]) eqn:E.
  - apply beq_eq in E. subst n. destruct rest as [|v rest']; cbn [nth_error]; [discriminate|].
    intros [= ->]. left. reflexivity.
  - intros H. specialize (IH H). destruct rest as [|v rest']; [exact IH|].
    destruct n as [|c [|c2 n']]; try exact IH. right. exact IH.
Qed.

Lemma atc_range_complete L tb id off e d since until : AllInv L tb -> In (id, off) (t_i tb) -> log_find L off = Some e ->
  wf_ev e -> d_of e = Some d -> since <= e_created e -> e_created e <= until -> until <= U64MAX ->
  In (key_atc (e_pk e) 100 d (e_created e) (e_id e), off) (atc_range tb (e_pk e) 100 d since until).
Proof.
  intros (_ & _ & _ & _ & _ & B5 & _) Hi Hf (Wid & Wc & _) Hd H1 H2 H3. unfold atc_range.
  eapply (range_complete L _ _ keys_atc); eauto.
  - unfold keys_atc. apply in_map_iff. exists (100, d). split; [reflexivity|apply d_of_indexable; exact Hd].
  - rewrite !key_atc_assoc. apply (proj1 (key_in_range _ since _ until _ Wid H1 H2 H3)).
  - rewrite !key_atc_assoc. apply (proj2 (key_in_range _ since _ until _ Wid H1 H2 H3)).
Qed.

(* ---------- addresses ---------- *)
Definition same_address (x y : aevent) : Prop :=
  e_pk x = e_pk y /\ e_kind x = e_kind y /\
  (is_replaceable (e_kind x) = true \/
   (is_param_replaceable (e_kind x) = true /\ d_of x = d_of y /\ d_of x <> None)).

Lemma same_address_sym x y : same_address x y -> same_address y x.
Proof.
  intros (A & B & C). split; [symmetry; exact A|]. split; [symmetry; exact B|]. rewrite <- B.
  destruct C as [C|[C [D E]]]; [left; exact C|right]. split; [exact C|]. split; [symmetry; exact D|congruence].
Qed.

Definition RepInv (L : logt) (tb : tables) : Prop :=
  forall id1 off1 e1 id2 off2 e2, In (id1, off1) (t_i tb) -> In (id2, off2) (t_i tb) ->
    log_find L off1 = Some e1 -> log_find L off2 = Some e2 -> same_address e1 e2 -> off1 = off2.

Definition NoHolder (L : logt) (tb : tables) (e : aevent) : Prop :=
  forall id off x, In (id, off) (t_i tb) -> log_find L off = Some x -> same_address x e -> False.

Lemma RepInv_ile L tb tb' : ile tb tb' -> RepInv L tb -> RepInv L tb'.
Proof. intros I R id1 off1 e1 id2 off2 e2 H1 H2 F1 F2 SA. apply (R id1 off1 e1 id2 off2 e2); auto; eapply ile_In; eauto. Qed.
Lemma NoHolder_ile L tb tb' e : ile tb tb' -> NoHolder L tb e -> NoHolder L tb' e.
Proof. intros I R id off x H F SA. apply (R id off x); [eapply ile_In; eauto|exact F|exact SA]. Qed.
Lemma RepInv_same_ti L tb tb' : t_i tb' = t_i tb -> RepInv L tb -> RepInv L tb'.
Proof. intros E R. unfold RepInv. rewrite E. exact R. Qed.

(* ---------- what a failed search for a holder means ---------- *)
Section Search.
  Variable s : db.
  Let L := log s.
  Hypothesis Hwe : log_wfe L.

  Lemma find_replaceable_none tb a k : AllInv L tb -> find_replaceable s tb a k = Ok None ->
    forall id off x, In (id, off) (t_i tb) -> log_find L off = Some x -> e_pk x = a -> e_kind x = k -> False.
  Proof.
    intros Hi H id off x Hin Hf <- <-. unfold find_replaceable in H. destruct (negb _); [discriminate|].
    pose proof (akc_range_complete L tb id off x 0 U64MAX Hi Hin Hf (Hwe _ _ Hf)) as Hr.
    pose proof (wf_ev_created _ (Hwe _ _ Hf)) as Hc. specialize (Hr ltac:(lia) Hc ltac:(lia)).
    destruct (akc_range tb (e_pk x) (e_kind x) 0 U64MAX) as [|[k0 o0] r]; [destruct Hr|].
    destruct (get_event_by_offset s o0); cbn [bind] in H; discriminate.
  Qed.

  Lemma first_same_addr_none a entries : first_same_addr s a entries = Ok None ->
    forall k off x, In (k, off) entries -> log_find L off = Some x -> same_addr a x = false.
  Proof.
    induction entries as [|[k0 o0] r IH]; intros H k off x Hin Hf; [destruct Hin|].
    cbn [first_same_addr] in H. destruct (get_event_by_offset s o0) as [x0| | |] eqn:Eo; cbn [bind] in H; try discriminate.
    destruct (same_addr a x0) eqn:Es; [discriminate|].
    destruct Hin as [[= -> ->]|Hin]; [|eapply IH; eauto].
    assert (log_find L off = Some x0).
    { unfold get_event_by_offset in Eo. destruct (log_end s <=? off); [discriminate|]. subst L.
      destruct (log_find (log s) off); [injection Eo as ->; reflexivity|discriminate]. }
    assert (x0 = x) by congruence. subst x0. exact Es.
  Qed.

  Lemma find_param_replaceable_none tb a : AllInv L tb -> find_param_replaceable s tb a = Ok None ->
    forall id off x, In (id, off) (t_i tb) -> log_find L off = Some x ->
      e_pk x = a_author a -> e_kind x = a_kind a -> d_of x = Some (a_d a) -> False.
  Proof.
    intros Hi H id off x Hin Hf Hpk Hk Hd. unfold find_param_replaceable in H. destruct (negb _); [discriminate|].
    pose proof (atc_range_complete L tb id off x (a_d a) 0 U64MAX Hi Hin Hf (Hwe _ _ Hf) Hd) as Hr.
    pose proof (wf_ev_created _ (Hwe _ _ Hf)) as Hc. specialize (Hr ltac:(lia) Hc ltac:(lia)). rewrite Hpk in Hr.
    pose proof (first_same_addr_none a _ H _ _ x Hr Hf) as Hs.
    unfold same_addr in Hs. rewrite Hk, N.eqb_refl, Hd, beq_refl in Hs. discriminate.
  Qed.
End Search.

(* ---------- pre_checks leaves no holder of the new event's address ---------- *)
Lemma pre_checks_no_holder s e txn : log_wfe (log s) -> AllInv (log s) (committed s) ->
  pre_checks s e = Ok txn -> NoHolder (log s) txn e.
Proof.
  intros Hwe Hc Hp.
  assert (Hw : log_wf (log s)) by (apply log_wfe_wf; exact Hwe).
  assert (T0 : TI s (committed s)). { split; [exact Hc|apply rel_refl; destruct Hc as [[U _] _]; exact U]. }
  unfold pre_checks in Hp. destruct (t_get (t_i (committed s)) (e_id e)); [discriminate|].
  destruct (is_deleted _ _); [discriminate|].
  destruct (_ && _); [discriminate|]. destruct (_ && _); [discriminate|].
  (* first stage *)
  assert (Stage1 : forall txn1,
     (if is_replaceable (e_kind e)
      then t1 <- remove_replaceable s (committed s) (e_pk e) (e_kind e) (e_created e) ;;
           h <- find_replaceable s t1 (e_pk e) (e_kind e) ;;
           match h with Some _ => Err EReplaced | None => Ok t1 end
      else Ok (committed s)) = Ok txn1 ->
     TI s txn1 /\ (is_replaceable (e_kind e) = true ->
                   forall id off x, In (id, off) (t_i txn1) -> log_find (log s) off = Some x -> e_pk x = e_pk e -> e_kind x = e_kind e -> False)).
  { intros txn1 H1. destruct (is_replaceable (e_kind e)) eqn:Er; [|injection H1 as <-; split; [exact T0|discriminate]].
    destruct (remove_replaceable s (committed s) (e_pk e) (e_kind e) (e_created e)) as [t1| | |] eqn:E1; cbn [bind] in H1; try discriminate.
    destruct (find_replaceable s t1 (e_pk e) (e_kind e)) as [h| | |] eqn:Ef; cbn [bind] in H1; try discriminate.
    destruct h; [discriminate|]. injection H1 as <-.
    pose proof (remove_replaceable_inv s Hw Hc _ _ _ _ _ T0 E1) as T1. split; [exact T1|].
    intros _. apply (find_replaceable_none s Hwe t1 (e_pk e) (e_kind e) (proj1 T1) Ef). }
  match type of Hp with (txn1 <- ?X ;; _) = _ => destruct X as [txn1| | |] eqn:E1; cbn [bind] in Hp; try discriminate end.
  destruct (Stage1 txn1 eq_refl) as [T1 N1]. clear Stage1.
  intros id off x Hin Hf (Hpk & Hk & Hcase).
  destruct (is_param_replaceable (e_kind e)) eqn:Ep.
  - destruct (d_of e) as [d|] eqn:Ed.
    + destruct (remove_param_replaceable s txn1 _ (e_created e)) as [t2| | |] eqn:E2; cbn [bind] in Hp; try discriminate.
      destruct (find_param_replaceable s t2 _) as [h| | |] eqn:Ef; cbn [bind] in Hp; try discriminate.
      destruct h; [discriminate|]. injection Hp as <-.
      pose proof (remove_param_replaceable_inv s Hw Hc _ _ _ _ T1 E2) as T2.
      destruct Hcase as [Hr|[_ [Hd _]]].
      * rewrite Hk in Hr. apply (N1 Hr id off x); auto. eapply ile_In; [eapply remove_param_replaceable_ile; eauto|exact Hin].
      * apply (find_param_replaceable_none s Hwe t2 _ (proj1 T2) Ef id off x Hin Hf); cbn [a_author a_kind a_d]; congruence.
    + injection Hp as <-. destruct Hcase as [Hr|[_ [Hd2 Hd3]]].
      * rewrite Hk in Hr. apply (N1 Hr id off x); auto.
      * congruence.
  - injection Hp as <-. destruct Hcase as [Hr|[Hpr _]]; [|rewrite Hk in Hpr; congruence].
    rewrite Hk in Hr. apply (N1 Hr id off x); auto.
Qed.

(* ---------- the invariant over all histories ---------- *)
Definition StoreInv (s : db) : Prop := SInv s /\ id_inv s /\ log_wfe (log s) /\ RepInv (log s) (committed s).

Lemma RepInv_log L L' tb : id_ok L (t_i tb) -> (forall id off, In (id, off) (t_i tb) -> log_find L' off = log_find L off) ->
  RepInv L tb -> RepInv L' tb.
Proof.
  intros _ Hs R id1 off1 e1 id2 off2 e2 H1 H2 F1 F2. rewrite (Hs _ _ H1) in F1. rewrite (Hs _ _ H2) in F2. eapply R; eauto.
Qed.

Lemma remove_event_StoreInv s id : StoreInv s -> StoreInv (fst (remove_event s id)).
Proof.
  intros (Hs & Hid & Hwe & Hr).
  pose proof (remove_event_SInv s id Hs) as Hs'. pose proof (remove_event_id_inv s id Hid) as Hid'.
  unfold remove_event in *. destruct (remove_by_id s (committed s) id) as [tb| | |] eqn:E; cbn [fst] in *;
    try exact (conj Hs (conj Hid (conj Hwe Hr))).
  refine (conj Hs' (conj Hid' (conj Hwe _))). cbn [with_committed committed log].
  eapply RepInv_ile; [eapply remove_by_id_ile; eauto|exact Hr].
Qed.
Lemma remove_events_StoreInv ids : forall s, StoreInv s -> StoreInv (fst (remove_events s ids)).
Proof.
  induction ids as [|id r IH]; intros s Hi; cbn [remove_events fst]; [exact Hi|].
  pose proof (remove_event_StoreInv s id Hi) as H1.
  destruct (remove_event s id) as [s' [u|x| |]]; cbn [fst] in *; auto.
Qed.
Lemma vanish_StoreInv s pk : StoreInv s -> StoreInv (fst (vanish s pk)).
Proof.
  intros Hi. unfold vanish.
  destruct (find_events s _ all_match 0 true 0 0) as [[evs red]|x| |]; cbn [fst]; auto.
  pose proof (remove_events_StoreInv (map e_id evs) s Hi) as H1.
  destruct (remove_events s (map e_id evs)) as [s1 [u|x| |]]; cbn [fst] in *; auto.
  destruct (find_events s1 _ all_match 0 true 0 0) as [[gws red2]|x| |]; cbn [fst]; auto.
  apply remove_events_StoreInv. exact H1.
Qed.

Lemma store_event_StoreInv s e : wf_ev e -> StoreInv s -> StoreInv (fst (store_event s e)).
Proof.
  intros We (Hs & Hid & Hwe & Hr).
  pose proof (store_event_SInv s e (wf_ev_wf_id e We) Hs) as Hs'.
  destruct Hs as (Hl & Hw & Hi).
  pose proof (store_event_id_inv s e Hl Hid) as Hid'.
  refine (conj Hs' (conj Hid' _)). clear Hs' Hid'.
  unfold store_event.
  destruct (pre_checks s e) as [txn|x| |] eqn:Ep; cbn [fst]; try (split; assumption).
  pose proof (pre_checks_no_holder s e txn Hwe Hi Ep) as NH.
  destruct (pre_checks_ile _ _ _ Ep) as [I0 Hnone].
  destruct (pre_checks_inv s Hw Hi e txn Ep) as [Ht Rt].
  unfold log_append. set (off := align8 (log_end s)).
  set (s1 := mkDb (committed s) ((off, e) :: log s) (off + event_size e) (bak s)).
  pose proof (align8_ge (log_end s)) as (A & B & _). fold off in A.
  assert (Hfind : forall o x, log_find (log s) o = Some x -> log_find (log s1) o = Some x).
  { intros o x Hf. subst s1. cbn [log log_find]. destruct (N.eqb_spec off o) as [Heq|_]; [|exact Hf].
    exfalso. apply log_find_In in Hf. destruct Hl as [_ Hl]. destruct (Hl _ _ Hf) as (_ & _ & Z).
    pose proof (event_size_pos x). lia. }
  assert (Hwe1 : log_wfe (log s1)).
  { intros o x Hf. subst s1. cbn [log log_find] in Hf. destruct (off =? o); [injection Hf as <-; exact We|eapply Hwe; eauto]. }
  (* every entry of a table below the committed one reads the same in the grown log *)
  assert (Hold : forall tb, ile (committed s) tb -> forall id o, In (id, o) (t_i tb) -> log_find (log s1) o = log_find (log s) o).
  { intros tb I id o Hin. apply (ile_In _ _ _ _ I) in Hin. destruct Hid as [_ Hid]. destruct (Hid id o Hin) as [_ [x [Hf _]]].
    rewrite Hf. apply Hfind. exact Hf. }
  assert (Rt1 : RepInv (log s1) txn).
  { intros id1 o1 e1 id2 o2 e2 H1 H2 F1 F2. rewrite (Hold txn I0 _ _ H1) in F1. rewrite (Hold txn I0 _ _ H2) in F2.
    eapply (RepInv_ile _ _ _ I0 Hr); eauto. }
  set (txn2 := if is_ephemeral (e_kind e) then txn else index txn e off).
  assert (R2 : RepInv (log s1) txn2).
  { subst txn2. destruct (is_ephemeral (e_kind e)); [exact Rt1|].
    intros id1 o1 e1 id2 o2 e2 H1 H2 F1 F2 SA. rewrite index_ti in H1, H2. apply In_t_put in H1. apply In_t_put in H2.
    assert (Hself : log_find (log s1) off = Some e) by (subst s1; cbn [log log_find]; rewrite N.eqb_refl; reflexivity).
    destruct H1 as [[-> ->]|[H1 _]], H2 as [[-> ->]|[H2 _]].
    - reflexivity.
    - exfalso. assert (e1 = e) by congruence. subst e1. rewrite (Hold txn I0 _ _ H2) in F2.
      apply (NH id2 o2 e2 H2 F2). apply same_address_sym. exact SA.
    - exfalso. assert (e2 = e) by congruence. subst e2. rewrite (Hold txn I0 _ _ H1) in F1.
      apply (NH id1 o1 e1 H1 F1). exact SA.
    - eapply Rt1; eauto. }
  match goal with |- context [match ?X with Ok _ => _ | Err _ => _ | Panic => _ | OutOfFuel => _ end] => destruct X as [txn3|x| |] eqn:Eh end;
    cbn [fst]; try (split; [exact Hwe1|]; cbn [committed log];
      intros id1 o1 e1 id2 o2 e2 H1 H2 F1 F2; rewrite (Hold _ (ile_refl _) _ _ H1) in F1; rewrite (Hold _ (ile_refl _) _ _ H2) in F2; eapply Hr; eauto).
  split; [exact Hwe1|]. cbn [with_committed committed log].
  destruct (e_kind e =? 5); [|injection Eh as <-; exact R2].
  eapply RepInv_ile; [eapply handle_deletion_ile; eauto|exact R2].
Qed.

Definition ops_wfe (ops : list cop) : Prop :=
  Forall (fun op => match op with CStore e => wf_ev e | _ => True end) ops.
Lemma ops_wfe_wf ops : ops_wfe ops -> ops_wf ops.
Proof. intros H. eapply Forall_impl; [|exact H]. intros [e| | | |]; auto. apply wf_ev_wf_id. Qed.

Lemma StoreInv_init names : StoreInv (db_init names).
Proof.
  split; [apply SInv_init|]. split; [apply id_inv_init|]. split; [intros off e H; discriminate H|].
  intros id1 off1 e1 id2 off2 e2 [].
Qed.
Lemma c_step_StoreInv s op : (match op with CStore e => wf_ev e | _ => True end) -> StoreInv s -> StoreInv (c_step s op).
Proof.
  intros Wop Hs. destruct op; cbn [c_step].
  - apply store_event_StoreInv; assumption.
  - apply remove_event_StoreInv; assumption.
  - apply vanish_StoreInv; assumption.
  - destruct Hs as (Hs & Hid & Hwe & Hr). split; [apply (c_step_SInv s (CXput n k v) I Hs)|]. split; [exact Hid|]. split; [exact Hwe|exact Hr].
  - exact Hs.
Qed.
Lemma c_run_StoreInv ops : forall s, ops_wfe ops -> StoreInv s -> StoreInv (c_run ops s).
Proof.
  induction ops as [|op ops IH]; intros s Hw Hs; cbn [c_run fold_left]; [exact Hs|].
  inversion Hw as [|? ? Hop Hr]; subst. apply IH; [exact Hr|]. apply c_step_StoreInv; assumption.
Qed.

Lemma by_id_entry s id e : id_inv s -> get_event_by_id s id = Ok (Some e) ->
  exists off, In (id, off) (t_i (committed s)) /\ log_find (log s) off = Some e.
Proof.
  intros [U _] H. unfold get_event_by_id in H. destruct (t_get (t_i (committed s)) id) as [off|] eqn:Eg; [|discriminate].
  exists off. split; [apply (t_get_In _ _ _ U); exact Eg|].
  destruct (get_event_by_offset s off) as [x| | |] eqn:Eo; cbn [bind] in H; try discriminate. injection H as ->.
  unfold get_event_by_offset in Eo. destruct (log_end s <=? off); [discriminate|].
  destruct (log_find (log s) off); [injection Eo as ->; reflexivity|discriminate].
Qed.

(* C09 on the concrete store: at most one retrievable event per replaceable address, every reachable state *)
Theorem at_most_one_per_address_concrete ops names e1 e2 :
  ops_wfe ops -> let s := c_run ops (db_init names) in
  get_event_by_id s (e_id e1) = Ok (Some e1) -> get_event_by_id s (e_id e2) = Ok (Some e2) ->
  same_address e1 e2 -> e1 = e2.
Proof.
  intros Hops s H1 H2 SA. destruct (c_run_StoreInv ops _ Hops (StoreInv_init names)) as (_ & Hid & _ & Hr). fold s in Hid, Hr.
  destruct (by_id_entry s _ _ Hid H1) as [o1 [I1 F1]]. destruct (by_id_entry s _ _ Hid H2) as [o2 [I2 F2]].
  assert (o1 = o2) by (eapply Hr; eauto). subst o2. congruence.
Qed.
