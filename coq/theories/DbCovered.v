(* DbCovered.v — C11 on the CONCRETE store: no retrievable event is covered by an accepted address deletion.
   In every reachable state, an event returned by the id lookup whose address (replaceable: kind+author;
   parameterized: kind+author+d) carries a deletion time t has created_at > t.  With the monotonicity of the
   deletion times (DbDeletion.v) this is the permanence of accepted address deletions: once a request with
   created_at w has been accepted for an address, no event of that address created at or before w is retrievable
   in any continuation - whatever is stored, deleted, removed, vanished or reopened afterwards.
   The heart is the completeness of the removal scans of handle_deletion_event: the author-kind range (and, for
   parameterized kinds, the author-#d range filtered by kind and exact d) of the COMMITTED tables holds every
   covered event the transaction can still see. *)
From Pocket Require Import Db DbProofs TableProofs HexProofs DbIdInv DbIndexInv KeyOrder DbAddr DbQuerySound DbQueryComplete DbDeletion DbForeign.

(* ---------- key_naddr is injective on addresses of well-formed events (lengths only) ---------- *)
Lemma key_naddr_inj_len a b : length (a_author a) = 32%nat -> length (a_author b) = 32%nat ->
  a_kind a < 65536 -> a_kind b < 65536 -> key_naddr a = key_naddr b -> a = b.
Proof.
  intros La Lb Ka Kb H. destruct a as [ka aa da], b as [kb ab db]. cbn [a_kind a_author a_d] in *. unfold key_naddr in H. cbn [a_kind a_author a_d] in H.
  apply app_inj_len in H; [|reflexivity]. destruct H as [Hk H]. apply be16_inj in Hk; [|assumption|assumption]. subst kb.
  apply app_inj_len in H; [|congruence]. destruct H as [-> H]. cbn [app] in H. injection H as Hd H.
  f_equal.
  destruct (N.lt_ge_cases (len da) 182) as [Hlt|Hge].
  - rewrite N.min_l in Hd by lia.
    destruct (N.lt_ge_cases (len db) 182) as [Hlt'|Hge']; [rewrite N.min_l in Hd by lia|rewrite N.min_r in Hd by lia; lia].
    apply app_inj_len in H; [apply H|unfold len in Hd; lia].
  - rewrite N.min_r in Hd by lia.
    destruct (N.lt_ge_cases (len db) 182) as [Hlt'|Hge']; [rewrite N.min_l in Hd by lia; lia|].
    rewrite !N.min_r in H by lia. unfold PADLEN in H. change (N.to_nat (182 - 182)) with 0%nat in H. cbn [repeat] in H.
    rewrite !app_nil_r in H. exact H.
Qed.

(* the address of an event of the log is well-formed in that sense *)
Lemma addr_of_wf e a : wf_ev e -> addr_of e = Some a -> length (a_author a) = 32%nat /\ a_kind a < 65536 /\ a_author a = e_pk e /\ a_kind a = e_kind e.
Proof.
  intros (_ & _ & Hp & Hk) H. unfold addr_of in H. destruct (is_replaceable (e_kind e)).
  - injection H as <-. cbn. repeat split; assumption.
  - destruct (is_param_replaceable (e_kind e)); [|discriminate]. destruct (d_of e); [|discriminate]. injection H as <-. cbn. repeat split; assumption.
Qed.

(* ---------- what a marker update does to the marker table ---------- *)
Lemma mark_naddr_spec tb a w tb' : mark_naddr_deleted tb a w = Ok tb' ->
  t_i tb' = t_i tb /\
  (forall K, K <> key_naddr a -> t_get (t_naddr tb') K = t_get (t_naddr tb) K) /\
  (t_get (t_naddr tb') (key_naddr a) = t_get (t_naddr tb) (key_naddr a) \/
   (t_get (t_naddr tb') (key_naddr a) = Some w)).
Proof.
  unfold mark_naddr_deleted, when_naddr_deleted.
  assert (Put : forall nt, t_put_checked (t_naddr tb) (key_naddr a) w = Ok nt ->
            let tb2 := mkT (t_i tb) (t_ci tb) (t_tc tb) (t_ac tb) (t_akc tb) (t_atc tb) (t_ktc tb) (t_delids tb) nt (t_extra tb) in
            t_i tb2 = t_i tb /\ (forall K, K <> key_naddr a -> t_get (t_naddr tb2) K = t_get (t_naddr tb) K) /\
            (t_get (t_naddr tb2) (key_naddr a) = t_get (t_naddr tb) (key_naddr a) \/ t_get (t_naddr tb2) (key_naddr a) = Some w)).
  { intros nt Hp. unfold t_put_checked in Hp. destruct (MAXKEY <? len (key_naddr a)); [discriminate|]. injection Hp as <-.
    cbv zeta. cbn [t_i t_naddr]. split; [reflexivity|]. split.
    - intros K HK. apply t_get_put_other. exact HK.
    - right. apply t_get_put_same. }
  destruct (t_get (t_naddr tb) (key_naddr a)) as [old|] eqn:Eo.
  - destruct (w <=? old).
    + intros [= <-]. split; [reflexivity|]. split; [reflexivity|]. left. exact Eo.
    + destruct (t_put_checked (t_naddr tb) (key_naddr a) w) as [nt| | |] eqn:Ep; cbn [bind]; try discriminate.
      intros [= <-]. apply (Put nt eq_refl).
  - destruct (t_put_checked (t_naddr tb) (key_naddr a) w) as [nt| | |] eqn:Ep; cbn [bind]; try discriminate.
    intros [= <-]. apply (Put nt eq_refl).
Qed.

(* ---------- what the removal scans take out ---------- *)
Lemma remove_by_offset_gone s txn off txn' e : remove_by_offset s txn off = Ok txn' -> get_event_by_offset s off = Ok e ->
  forall o, ~ In (e_id e, o) (t_i txn').
Proof.
  unfold remove_by_offset. intros H He. rewrite He in H. cbn [bind] in H. injection H as <-.
  intros o Hin. cbn [deindex_id t_i] in Hin. rewrite deindex_ti in Hin. apply In_t_del in Hin. destruct Hin as [_ Hne]. apply Hne. reflexivity.
Qed.

Lemma remove_offsets_gone s offs : forall txn txn', remove_offsets s txn offs = Ok txn' ->
  forall off e, In off offs -> get_event_by_offset s off = Ok e -> forall o, ~ In (e_id e, o) (t_i txn').
Proof.
  induction offs as [|o0 r IH]; intros txn txn' H off e Hin He o; [destruct Hin|]. cbn [remove_offsets] in H.
  destruct (remove_by_offset s txn o0) as [t1| | |] eqn:E; cbn [bind] in H; try discriminate.
  destruct Hin as [->|Hin].
  - intros Hi. apply (ile_In _ _ _ _ (remove_offsets_ile _ _ _ _ H)) in Hi. exact (remove_by_offset_gone s txn off t1 e E He o Hi).
  - exact (IH t1 txn' H off e Hin He o).
Qed.

Lemma remove_param_offsets_gone s a offs : forall txn txn', remove_param_offsets s txn a offs = Ok txn' ->
  forall off e, In off offs -> get_event_by_offset s off = Ok e -> same_addr a e = true -> forall o, ~ In (e_id e, o) (t_i txn').
Proof.
  induction offs as [|o0 r IH]; intros txn txn' H off e Hin He Hsa o; [destruct Hin|]. cbn [remove_param_offsets] in H.
  destruct (get_event_by_offset s o0) as [e0| | |] eqn:E0; cbn [bind] in H; try discriminate.
  destruct Hin as [->|Hin].
  - assert (e0 = e) by congruence. subst e0. rewrite Hsa in H.
    destruct (remove_by_offset s txn off) as [t1| | |] eqn:E; cbn [bind] in H; try discriminate.
    intros Hi. apply (ile_In _ _ _ _ (remove_param_offsets_ile _ _ _ _ _ H)) in Hi. exact (remove_by_offset_gone s txn off t1 e E He o Hi).
  - destruct (same_addr a e0).
    + destruct (remove_by_offset s txn o0) as [t1| | |] eqn:E; cbn [bind] in H; try discriminate.
      exact (IH t1 txn' H off e Hin He Hsa o).
    + exact (IH txn txn' H off e Hin He Hsa o).
Qed.

(* ---------- the invariant ---------- *)
Definition CovInv (L : logt) (tb : tables) : Prop :=
  forall x off a t, In (e_id x, off) (t_i tb) -> log_find L off = Some x -> addr_of x = Some a ->
    when_naddr_deleted tb a = Some t -> t < e_created x.

(* the id table of a transaction: the committed one minus some ids, plus possibly the event being stored *)
Definition NewOnly (c tb : tables) (id0 : bytes) (o0 : N) : Prop :=
  forall id off, In (id, off) (t_i tb) -> In (id, off) (t_i c) \/ (id = id0 /\ off = o0).

Lemma CovInv_shrink L tb tb' : ile tb tb' -> t_naddr tb' = t_naddr tb -> CovInv L tb -> CovInv L tb'.
Proof.
  intros I M H x off a t Hi Hf Ha Hw. apply (H x off a t); try assumption; [eapply ile_In; eauto|].
  unfold when_naddr_deleted in *. rewrite <- M. exact Hw.
Qed.
Lemma NewOnly_shrink c tb tb' id0 o0 : ile tb tb' -> NewOnly c tb id0 o0 -> NewOnly c tb' id0 o0.
Proof. intros I H id off Hi. apply H. eapply ile_In; eauto. Qed.

Lemma spec_get_value_In key l v : spec_get_value key l = Some v -> exists rest, In (key :: v :: rest) l.
Proof.
  induction l as [|t r IH]; cbn [spec_get_value]; [discriminate|]. destruct t as [|n rest].
  - intros H. destruct (IH H) as [rs Hin]. exists rs. right. exact Hin.
  - destruct (beq n key) eqn:E.
    + apply beq_eq in E. subst n. destruct rest as [|v0 rest']; cbn [nth_error]; [discriminate|]. intros [= ->]. exists rest'. left. reflexivity.
    + intros H. destruct (IH H) as [rs Hin]. exists rs. right. exact Hin.
Qed.

Section Scan.
  Variable s : db.
  Let L := log s.
  Let c := committed s.
  Hypothesis Hwe : log_wfe L.
  Hypothesis Hc : AllInv L c.
  Hypothesis Hid : id_inv s.

  Lemma gebo_committed x off : In (e_id x, off) (t_i c) -> log_find L off = Some x -> get_event_by_offset s off = Ok x.
  Proof.
    intros Hi Hf. destruct Hid as [_ H]. destruct (H _ _ Hi) as [Hlt _]. unfold get_event_by_offset.
    destruct (N.leb_spec (log_end s) off); [lia|]. subst L. rewrite Hf. reflexivity.
  Qed.

  (* a covered event of a replaceable address lies in the author-kind range the removal scans *)
  Lemma covered_in_akc x off a w : In (e_id x, off) (t_i c) -> log_find L off = Some x -> addr_of x = Some a ->
    e_created x <= w -> w <= U64MAX -> In off (map snd (akc_range c (a_author a) (a_kind a) 0 w)).
  Proof.
    intros Hi Hf Ha Hcw Hw. destruct (addr_of_wf x a (Hwe _ _ Hf) Ha) as (_ & _ & Ea & Ek). rewrite Ea, Ek.
    destruct Hc as (_ & _ & _ & B3 & _).
    apply in_map_iff. exists (key_akc (e_pk x) (e_kind x) (e_created x) (e_id x), off). split; [reflexivity|].
    unfold akc_range. rewrite !key_akc_assoc.
    eapply (range_complete L (t_i c) (t_akc c) keys_akc); eauto; [left; apply key_akc_assoc| |].
    - apply (proj1 (key_in_range (e_pk x ++ be16 (e_kind x)) 0 _ w _ (proj1 (Hwe _ _ Hf)) ltac:(lia) Hcw Hw)).
    - apply (proj2 (key_in_range (e_pk x ++ be16 (e_kind x)) 0 _ w _ (proj1 (Hwe _ _ Hf)) ltac:(lia) Hcw Hw)).
  Qed.

  (* a covered event of a parameterized address lies in the author-#d range and passes the kind/d comparison *)
  Lemma covered_in_atc x off a w : In (e_id x, off) (t_i c) -> log_find L off = Some x -> addr_of x = Some a ->
    is_replaceable (a_kind a) = false ->
    e_created x <= w -> w <= U64MAX ->
    In off (map snd (atc_range c (a_author a) 100 (a_d a) 0 w)) /\ same_addr a x = true.
  Proof.
    intros Hi Hf Ha Hnr Hcw Hw. pose proof (addr_of_wf x a (Hwe _ _ Hf) Ha) as (_ & _ & Ea & Ek).
    unfold addr_of in Ha. rewrite Ek in Hnr. rewrite Hnr in Ha.
    destruct (is_param_replaceable (e_kind x)); [|discriminate]. destruct (d_of x) as [d|] eqn:Ed; [|discriminate].
    injection Ha as <-. cbn [a_author a_kind a_d] in *.
    split; [|unfold same_addr; cbn [a_kind a_d]; rewrite N.eqb_refl, Ed, beq_refl; reflexivity].
    destruct (spec_get_value_In _ _ _ Ed) as [rest Hin].
    destruct Hc as (_ & _ & _ & _ & _ & B5 & _).
    apply in_map_iff. exists (key_atc (e_pk x) 100 d (e_created x) (e_id x), off). split; [reflexivity|].
    unfold atc_range. rewrite !key_atc_assoc.
    eapply (range_complete L (t_i c) (t_atc c) keys_atc); eauto.
    - unfold keys_atc. apply in_map_iff. exists (100, d). split; [apply key_atc_assoc|]. eapply indexable_In. exact Hin.
    - apply (proj1 (key_in_range (e_pk x ++ [100] ++ pad182 d) 0 _ w _ (proj1 (Hwe _ _ Hf)) ltac:(lia) Hcw Hw)).
    - apply (proj2 (key_in_range (e_pk x ++ [100] ++ pad182 d) 0 _ w _ (proj1 (Hwe _ _ Hf)) ltac:(lia) Hcw Hw)).
  Qed.

  (* one tag of a deletion request keeps the invariant *)
  Variable ev : aevent.
  Variable o0 : N.
  Hypothesis Hev : log_find L o0 = Some ev.
  Hypothesis Hevk : addr_of ev = None.
  Hypothesis Hevc : e_created ev <= U64MAX.

  Lemma handle_one_tag_cov txn tag txn' : NewOnly c txn (e_id ev) o0 -> CovInv L txn ->
    handle_one_tag s txn ev tag = Ok txn' -> NewOnly c txn' (e_id ev) o0 /\ CovInv L txn'.
  Proof.
    intros Hn Hcov. unfold handle_one_tag. destruct tag as [|name [|arg rest]]; try (intros [= <-]; split; assumption).
    destruct (beq name [101]).
    - destruct (read_hex arg 32) as [id| | |]; try (intros [= <-]; split; assumption).
      destruct (get_event_by_id s id) as [target| | |]; cbn [bind]; try discriminate.
      assert (Hmk : forall t1, ile txn t1 -> t_naddr t1 = t_naddr txn ->
                NewOnly c (mark_deleted t1 id) (e_id ev) o0 /\ CovInv L (mark_deleted t1 id)).
      { intros t1 I M. split.
        - apply (NewOnly_shrink c txn); [|exact Hn]. destruct I as [ks Hks]. exists ks. exact Hks.
        - apply (CovInv_shrink L txn); [destruct I as [ks Hks]; exists ks; exact Hks|exact M|exact Hcov]. }
      destruct target as [tg|].
      + destruct (beq (e_pk tg) (e_pk ev)); cbn [bind]; [|discriminate].
        destruct (remove_by_id s txn id) as [t1| | |] eqn:E; cbn [bind]; try discriminate.
        intros [= <-]. apply Hmk; [eapply remove_by_id_ile; eauto|apply (remove_by_id_markers _ _ _ _ E)].
      + cbn [bind]. intros [= <-]. apply Hmk; [apply ile_refl|reflexivity].
    - destruct (beq name [97]); [|intros [= <-]; split; assumption].
      destruct (addr_parse arg) as [a| | |] eqn:Ea; try (intros [= <-]; split; assumption).
      destruct (addr_parse_ok _ _ Ea) as [Hal Hak].
      destruct (negb (beq (a_author a) (e_pk ev))) eqn:En; [discriminate|].
      destruct (mark_naddr_deleted txn a (e_created ev)) as [t1| | |] eqn:E; cbn [bind]; try discriminate.
      destruct (mark_naddr_spec _ _ _ _ E) as (Ti & Moth & Mown).
      (* whatever the removal, the result keeps the invariant provided the covered events are gone *)
      assert (Fin : forall t2, ile t1 t2 -> t_naddr t2 = t_naddr t1 ->
                (forall x off, In (e_id x, off) (t_i c) -> log_find L off = Some x -> addr_of x = Some a ->
                               e_created x <= e_created ev -> forall o, ~ In (e_id x, o) (t_i t2)) ->
                NewOnly c t2 (e_id ev) o0 /\ CovInv L t2).
      { intros t2 I M Gone.
        assert (I0 : ile txn t2) by (destruct I as [ks Hks]; exists ks; rewrite Hks, Ti; reflexivity).
        split; [apply (NewOnly_shrink c txn); assumption|].
        intros x off a' t Hi Hf Ha' Hw. unfold when_naddr_deleted in Hw. rewrite M in Hw.
        pose proof (ile_In _ _ _ _ I0 Hi) as Hi0.
        destruct (list_eq_dec N.eq_dec (key_naddr a') (key_naddr a)) as [EK|NK].
        - assert (a' = a).
          { destruct (addr_of_wf x a' (Hwe _ _ Hf) Ha') as (A1 & A2 & _). apply key_naddr_inj_len; assumption. }
          subst a'. destruct Mown as [Msame|Mnew].
          + rewrite Msame in Hw. apply (Hcov x off a t Hi0 Hf Ha'). exact Hw.
          + rewrite Mnew in Hw. injection Hw as <-.
            destruct (N.lt_ge_cases (e_created ev) (e_created x)) as [Hlt|Hge]; [exact Hlt|exfalso].
            destruct (Hn _ _ Hi0) as [Hic|[Eid Eoff]].
            * exact (Gone x off Hic Hf Ha' Hge off Hi).
            * subst off. assert (x = ev) by (rewrite Hev in Hf; congruence). subst x. congruence.
        - rewrite (Moth _ NK) in Hw. apply (Hcov x off a' t Hi0 Hf Ha'). exact Hw. }
      destruct (is_replaceable (a_kind a)) eqn:Er.
      { intros H. apply Fin; [eapply remove_replaceable_ile; eauto|apply (remove_replaceable_markers _ _ _ _ _ _ H)|].
        intros x off Hic Hf Hax Hcw o. unfold remove_replaceable in H. rewrite Er in H. cbn [negb] in H.
        apply (remove_offsets_gone _ _ _ _ H off x); [apply (covered_in_akc x off a (e_created ev) Hic Hf Hax Hcw Hevc)|apply (gebo_committed x off Hic Hf)]. }
      destruct (is_param_replaceable (a_kind a)) eqn:Ep.
      { intros H. apply Fin; [eapply remove_param_replaceable_ile; eauto|apply (remove_param_replaceable_markers _ _ _ _ _ H)|].
        intros x off Hic Hf Hax Hcw o. unfold remove_param_replaceable in H. rewrite Ep in H. cbn [negb] in H.
        destruct (covered_in_atc x off a (e_created ev) Hic Hf Hax Er Hcw Hevc) as [Hin Hsa].
        apply (remove_param_offsets_gone _ _ _ _ _ H off x); [exact Hin|apply (gebo_committed x off Hic Hf)|exact Hsa]. }
      intros [= <-]. apply Fin; [apply ile_refl|reflexivity|].
      (* a kind that is neither: no event has this address *)
      intros x off Hic Hf Hax _ o _. destruct (addr_of_wf x a (Hwe _ _ Hf) Hax) as (_ & _ & _ & Ek).
      unfold addr_of in Hax. rewrite <- Ek, Er, Ep in Hax. discriminate.
  Qed.

  Lemma handle_deletion_cov tags : forall txn txn', NewOnly c txn (e_id ev) o0 -> CovInv L txn ->
    handle_deletion s txn ev tags = Ok txn' -> CovInv L txn'.
  Proof.
    induction tags as [|t r IH]; intros txn txn' Hn Hcov; cbn [handle_deletion]; [intros [= <-]; exact Hcov|].
    destruct (handle_one_tag s txn ev t) as [t1| | |] eqn:E; cbn [bind]; try discriminate.
    destruct (handle_one_tag_cov txn t t1 Hn Hcov E) as [Hn1 Hc1]. apply IH; assumption.
  Qed.
End Scan.

(* ---------- every operation keeps the invariant ---------- *)
Lemma CovInv_log L L' tb : (forall id off, In (id, off) (t_i tb) -> log_find L' off = log_find L off) -> CovInv L tb -> CovInv L' tb.
Proof. intros Hs H x off a t Hi Hf. apply (H x off a t Hi). rewrite <- (Hs _ _ Hi). exact Hf. Qed.

Lemma CovInv_same L tb tb' : t_i tb' = t_i tb -> t_naddr tb' = t_naddr tb -> CovInv L tb -> CovInv L tb'.
Proof. intros E M. apply CovInv_shrink; [exists []; exact E|exact M]. Qed.

Lemma pre_checks_not_covered s e txn : pre_checks s e = Ok txn ->
  forall a t, addr_of e = Some a -> when_naddr_deleted (committed s) a = Some t -> t < e_created e.
Proof.
  unfold pre_checks, addr_of. destruct (t_get (t_i (committed s)) (e_id e)); [discriminate|].
  destruct (is_deleted _ _); [discriminate|].
  destruct (is_replaceable (e_kind e)) eqn:Er; cbn [andb].
  - destruct (when_naddr_deleted (committed s) (mkAddr (e_kind e) (e_pk e) [])) as [t0|] eqn:Ew.
    + destruct (N.leb_spec (e_created e) t0); [discriminate|]. intros _ a t [= <-] Hw. rewrite Ew in Hw. injection Hw as <-. assumption.
    + intros _ a t [= <-] Hw. rewrite Ew in Hw. discriminate.
  - destruct (is_param_replaceable (e_kind e)) eqn:Ep; cbn [andb]; [|intros _ a t H; discriminate].
    destruct (d_of e) as [d|]; [|intros _ a t H; discriminate].
    destruct (when_naddr_deleted (committed s) (mkAddr (e_kind e) (e_pk e) d)) as [t0|] eqn:Ew.
    + destruct (N.leb_spec (e_created e) t0); [discriminate|]. intros _ a t [= <-] Hw. rewrite Ew in Hw. injection Hw as <-. assumption.
    + intros _ a t [= <-] Hw. rewrite Ew in Hw. discriminate.
Qed.

Theorem store_event_CovInv s e : StoreInv s -> wf_ev e -> CovInv (log s) (committed s) ->
  CovInv (log (fst (store_event s e))) (committed (fst (store_event s e))).
Proof.
  intros ((Hl & Hw & Hi) & Hid & Hwe & _) Wev Hcov.
  unfold store_event.
  destruct (pre_checks s e) as [txn|e0| |] eqn:Ep; cbn [fst]; try exact Hcov.
  destruct (pre_checks_ile _ _ _ Ep) as [I0 Hnone].
  destruct (pre_checks_markers _ _ _ Ep) as [_ M0].
  pose proof (pre_checks_not_covered _ _ _ Ep) as Hnc.
  unfold log_append. set (o := align8 (log_end s)) in *.
  set (s1 := mkDb (committed s) ((o, e) :: log s) (o + event_size e) (bak s)) in *.
  pose proof (align8_ge (log_end s)) as (A & B & _). fold o in A. pose proof (event_size_pos e) as Hsz.
  assert (Hfind : forall p y, log_find (log s) p = Some y -> log_find (log s1) p = Some y).
  { intros p y Hf. subst s1. cbn [log log_find]. destruct (N.eqb_spec o p) as [Heq|_]; [|exact Hf].
    exfalso. apply log_find_In in Hf. destruct Hl as [_ Hl]. destruct (Hl _ _ Hf) as (_ & _ & Z). pose proof (event_size_pos y). lia. }
  assert (Hidx : forall tb, ile (committed s) tb -> forall id off, In (id, off) (t_i tb) -> log_find (log s1) off = log_find (log s) off).
  { intros tb I id off Hin. apply (ile_In _ _ _ _ I) in Hin. destruct Hid as [_ Hh]. destruct (Hh _ _ Hin) as [_ [y [Hf _]]].
    rewrite Hf. apply Hfind. exact Hf. }
  assert (Hself : log_find (log s1) o = Some e) by (subst s1; cbn [log log_find]; rewrite N.eqb_refl; reflexivity).
  (* the transaction before the request's own tags *)
  assert (Ctxn : CovInv (log s1) txn).
  { apply (CovInv_log (log s)); [apply Hidx; exact I0|]. apply (CovInv_shrink _ (committed s)); assumption. }
  assert (C2 : CovInv (log s1) (index txn e o)).
  { intros x off a t Hin Hf Ha Hwn. rewrite index_ti in Hin. apply In_t_put in Hin.
    unfold when_naddr_deleted in Hwn. rewrite (proj2 (index_markers txn e o)) in Hwn.
    destruct Hin as [[Eid ->]|[Hin _]].
    - assert (x = e) by congruence. subst x. apply (Hnc a t Ha). unfold when_naddr_deleted. rewrite <- M0. exact Hwn.
    - apply (Ctxn x off a t Hin Hf Ha). exact Hwn. }
  assert (N2 : NewOnly (committed s) (index txn e o) (e_id e) o).
  { intros id off Hin. rewrite index_ti in Hin. apply In_t_put in Hin. destruct Hin as [[-> ->]|[Hin _]]; [right; split; reflexivity|left].
    eapply ile_In; eauto. }
  set (txn2 := if is_ephemeral (e_kind e) then txn else index txn e o).
  assert (Hfail : CovInv (log s1) (committed s)).
  { apply (CovInv_log (log s)); [apply Hidx; apply ile_refl|exact Hcov]. }
  destruct (N.eqb_spec (e_kind e) 5) as [Hk|Hk].
  - (* a deletion request *)
    assert (Hwe1 : log_wfe (log s1)).
    { intros p y Hf. subst s1. cbn [log log_find] in Hf. destruct (o =? p); [injection Hf as <-; exact Wev|eapply Hwe; eauto]. }
    assert (Hgrow : AllInv (log s1) (committed s1)).
    { eapply AllInv_log; [|exact Hi]. intros id p Hin. apply (Hidx (committed s) (ile_refl _) id p Hin). }
    assert (Hid1 : id_inv s1).
    { destruct Hid as [U Hh]. split; [exact U|]. intros id p Hin. destruct (Hh id p Hin) as [Hlt [y [Hf Hy]]].
      split; [subst s1; cbn [log_end]; lia|]. exists y. split; [apply Hfind; exact Hf|exact Hy]. }
    assert (Et2 : txn2 = index txn e o) by (subst txn2; rewrite Hk; reflexivity).
    rewrite Et2.
    destruct (handle_deletion s1 (index txn e o) e (e_tags e)) as [txn3|e0| |] eqn:Eh; cbn [fst committed log with_committed]; try exact Hfail.
    apply (handle_deletion_cov s1 Hwe1 Hgrow Hid1 e o Hself) with (tags := e_tags e) (txn := index txn e o); try assumption.
    + unfold addr_of. rewrite Hk. reflexivity.
    + apply wf_ev_created. exact Wev.
  - cbn [fst committed log with_committed]. subst txn2. destruct (is_ephemeral (e_kind e)); [exact Ctxn|exact C2].
Qed.

Lemma remove_event_CovInv s id : CovInv (log s) (committed s) ->
  CovInv (log (fst (remove_event s id))) (committed (fst (remove_event s id))).
Proof.
  intros H. pose proof (remove_event_markers s id) as [_ M]. unfold remove_event in *.
  destruct (remove_by_id s (committed s) id) as [tb| | |] eqn:E; cbn [fst] in *; try exact H.
  cbn [with_committed log committed] in *. apply (CovInv_shrink _ (committed s)); [eapply remove_by_id_ile; eauto|exact M|exact H].
Qed.

Lemma remove_events_CovInv ids : forall s, CovInv (log s) (committed s) ->
  CovInv (log (fst (remove_events s ids))) (committed (fst (remove_events s ids))).
Proof.
  induction ids as [|id r IH]; intros s H; cbn [remove_events]; [exact H|].
  pose proof (remove_event_CovInv s id H) as H1. destruct (remove_event s id) as [s1 r1]. cbn [fst] in H1.
  destruct r1 as [u| | |]; try exact H1. apply IH. exact H1.
Qed.

Lemma vanish_CovInv s pk : CovInv (log s) (committed s) -> CovInv (log (fst (vanish s pk))) (committed (fst (vanish s pk))).
Proof.
  intros H. unfold vanish. destruct (find_events s _ all_match 0 true 0 0) as [[evs r1]| | |]; cbn [fst]; try exact H.
  pose proof (remove_events_CovInv (map e_id evs) s H) as H1. destruct (remove_events s (map e_id evs)) as [s1 rr]. cbn [fst] in H1.
  destruct rr as [u| | |]; cbn [fst]; try exact H1.
  destruct (find_events s1 _ all_match 0 true 0 0) as [[gws r2]| | |]; cbn [fst]; try exact H1.
  apply remove_events_CovInv. exact H1.
Qed.

Lemma c_step_CovInv s op : (match op with CStore e => wf_ev e | _ => True end) -> StoreInv s ->
  CovInv (log s) (committed s) -> CovInv (log (c_step s op)) (committed (c_step s op)).
Proof.
  intros Wop HA H. destruct op; cbn [c_step].
  - apply store_event_CovInv; assumption.
  - apply remove_event_CovInv. exact H.
  - apply vanish_CovInv. exact H.
  - unfold db_extra_put. cbn [with_committed log committed]. apply (CovInv_same _ (committed s)); [reflexivity|reflexivity|exact H].
  - exact H.
Qed.

Lemma c_run_CovInv ops : forall s, ops_wfe ops -> StoreInv s -> CovInv (log s) (committed s) ->
  CovInv (log (c_run ops s)) (committed (c_run ops s)).
Proof.
  induction ops as [|op ops IH]; intros s Hw HA H; cbn [c_run fold_left]; [exact H|].
  inversion Hw as [|? ? Hop Hr]; subst. apply IH; [exact Hr|apply c_step_StoreInv; assumption|apply c_step_CovInv; assumption].
Qed.

(* ---------- the theorems ---------- *)
Theorem no_retrievable_event_is_covered ops names x a t : ops_wfe ops -> let s := c_run ops (db_init names) in
  get_event_by_id s (e_id x) = Ok (Some x) -> addr_of x = Some a -> naddr_is_deleted_asof s a = Some t -> t < e_created x.
Proof.
  intros Hops s Hx Ha Ht.
  pose proof (c_run_StoreInv ops _ Hops (StoreInv_init names)) as HA. fold s in HA.
  assert (Hc : CovInv (log s) (committed s)).
  { apply c_run_CovInv; [exact Hops|apply StoreInv_init|]. intros y off b u []. }
  destruct (by_id_entry s _ _ (proj1 (proj2 HA)) Hx) as [off [Hi Hf]].
  apply (Hc x off a t Hi Hf Ha Ht).
Qed.

(* once an address carries a deletion time, no event of it created at or before that time is retrievable again *)
Theorem address_deletion_permanent ops names ops' x a t : ops_wfe ops -> ops_wfe ops' ->
  let s := c_run ops (db_init names) in let s' := c_run ops' s in
  naddr_is_deleted_asof s a = Some t -> addr_of x = Some a -> e_created x <= t ->
  get_event_by_id s' (e_id x) <> Ok (Some x).
Proof.
  intros H1 H2 s s' Ht Ha Hc Hx.
  destruct (naddr_time_monotone s a t ops' Ht) as [t' [Ht' Hle]]. fold s' in Ht'.
  assert (Hs' : s' = c_run (ops ++ ops') (db_init names)) by (subst s' s; unfold c_run; rewrite fold_left_app; reflexivity).
  assert (Hw : ops_wfe (ops ++ ops')) by (apply Forall_app; split; assumption).
  rewrite Hs' in Hx, Ht'.
  pose proof (no_retrievable_event_is_covered (ops ++ ops') names x a t' Hw Hx Ha Ht'). lia.
Qed.

(* ====================== the id markers ====================== *)
(* a retrievable event is never marked deleted - except a deletion request that names its own id (impossible for a
   correctly hashed event): the request is indexed before its tags are handled and the lookup of the named id reads
   the committed tables, so it marks itself and stays *)
Definition self_naming (x : aevent) : Prop :=
  e_kind x = 5 /\ exists arg rest, In ([101] :: arg :: rest) (e_tags x) /\ read_hex arg 32 = Ok (e_id x).
Definition IdCov (L : logt) (tb : tables) : Prop :=
  forall x off, In (e_id x, off) (t_i tb) -> log_find L off = Some x -> is_deleted tb (e_id x) = true -> self_naming x.

Lemma IdCov_shrink L tb tb' : ile tb tb' -> t_delids tb' = t_delids tb -> IdCov L tb -> IdCov L tb'.
Proof.
  intros I M H x off Hi Hf Hd. apply (H x off); [eapply ile_In; eauto|exact Hf|]. unfold is_deleted in *. rewrite <- M. exact Hd.
Qed.
Lemma IdCov_log L L' tb : (forall id off, In (id, off) (t_i tb) -> log_find L' off = log_find L off) -> IdCov L tb -> IdCov L' tb.
Proof. intros Hs H x off Hi Hf. apply (H x off Hi). rewrite <- (Hs _ _ Hi). exact Hf. Qed.

Lemma mark_naddr_delids tb a w tb' : mark_naddr_deleted tb a w = Ok tb' -> t_delids tb' = t_delids tb.
Proof.
  unfold mark_naddr_deleted. destruct (when_naddr_deleted tb a) as [old|].
  - destruct (w <=? old); [intros [= <-]; reflexivity|].
    destruct (t_put_checked _ _ _); cbn [bind]; try discriminate. intros [= <-]. reflexivity.
  - destruct (t_put_checked _ _ _); cbn [bind]; try discriminate. intros [= <-]. reflexivity.
Qed.

Section IdScan.
  Variable s : db.
  Let L := log s.
  Let c := committed s.
  Hypothesis Hw : log_wf L.
  Hypothesis Hc : AllInv L c.
  Variable ev : aevent.
  Variable o0 : N.
  Hypothesis Hev : log_find L o0 = Some ev.
  Hypothesis Hevk : e_kind ev = 5.

  Lemma handle_one_tag_idcov txn tag txn' : In tag (e_tags ev) -> TI s txn -> NewOnly c txn (e_id ev) o0 -> IdCov L txn ->
    handle_one_tag s txn ev tag = Ok txn' -> NewOnly c txn' (e_id ev) o0 /\ IdCov L txn'.
  Proof.
    intros Htag Ht Hn Hcov. unfold handle_one_tag. destruct tag as [|name [|arg rest]]; try (intros [= <-]; split; assumption).
    destruct (beq name [101]) eqn:En.
    - apply beq_eq in En. subst name.
      destruct (read_hex arg 32) as [id| | |] eqn:Eh; try (intros [= <-]; split; assumption).
      pose proof Ht as [[[U Hio] _] _].
      (* marking [id] after the id has left (or never was in) the id table, or belongs to the request itself *)
      assert (Hmk : forall t1, ile txn t1 -> t_delids t1 = t_delids txn ->
                (forall x off, In (e_id x, off) (t_i t1) -> log_find L off = Some x -> e_id x = id -> self_naming x) ->
                NewOnly c (mark_deleted t1 id) (e_id ev) o0 /\ IdCov L (mark_deleted t1 id)).
      { intros t1 I M Gone. split.
        - apply (NewOnly_shrink c txn); [|exact Hn]. destruct I as [ks Hks]. exists ks. exact Hks.
        - intros x off Hi Hf Hd. cbn [mark_deleted t_i] in Hi.
          destruct (list_eq_dec N.eq_dec (e_id x) id) as [E|NE]; [apply (Gone x off Hi Hf E)|].
          apply (Hcov x off); [eapply ile_In; eauto|exact Hf|].
          unfold is_deleted in *. cbn [mark_deleted t_delids] in Hd. rewrite t_get_put_other in Hd by exact NE. rewrite <- M. exact Hd. }
      destruct (get_event_by_id s id) as [target| | |] eqn:Eg; cbn [bind]; try discriminate.
      destruct target as [tg|].
      + destruct (beq (e_pk tg) (e_pk ev)); cbn [bind]; [|discriminate].
        destruct (remove_by_id s txn id) as [t1| | |] eqn:E; cbn [bind]; try discriminate.
        intros [= <-]. apply Hmk; [eapply remove_by_id_ile; eauto|apply (remove_by_id_markers _ _ _ _ E)|].
        (* the id is gone from t1 *)
        intros x off Hi Hf Eid. exfalso. rewrite Eid in Hi.
        unfold remove_by_id in E. destruct (t_get (t_i txn) id) as [offt|] eqn:Et.
        * pose proof Et as Et'. apply (t_get_In _ _ _ U) in Et'. destruct (Hio id offt Et') as [y [Hy Hyid]].
          unfold remove_by_offset in E. destruct (get_event_by_offset s offt) as [e'| | |] eqn:Eo; cbn [bind] in E; try discriminate.
          injection E as <-. apply (gebo_find s) in Eo. assert (e' = y) by congruence. subst e'.
          cbn [deindex_id t_i] in Hi. rewrite deindex_ti in Hi. apply In_t_del in Hi. destruct Hi as [_ Hne]. apply Hne. symmetry. exact Hyid.
        * injection E as <-. apply (t_get_In _ _ _ U) in Hi. congruence.
      + cbn [bind]. intros [= <-]. apply Hmk; [apply ile_refl|reflexivity|].
        intros x off Hi Hf Eid. destruct (Hn _ _ Hi) as [Hic|[Eid' Eoff]].
        * exfalso. unfold get_event_by_id in Eg. destruct Hc as [[Uc _] _]. rewrite Eid in Hic. apply (t_get_In _ _ _ Uc) in Hic. fold c in Eg. rewrite Hic in Eg.
          destruct (get_event_by_offset s off); cbn [bind] in Eg; discriminate.
        * subst off. assert (x = ev) by (rewrite Hev in Hf; congruence). subst x. split; [exact Hevk|].
          exists arg, rest. split; [exact Htag|]. rewrite Eid. exact Eh.
    - destruct (beq name [97]); [|intros [= <-]; split; assumption].
      destruct (addr_parse arg) as [a| | |] eqn:Ea; try (intros [= <-]; split; assumption).
      destruct (negb (beq (a_author a) (e_pk ev))); [discriminate|].
      destruct (mark_naddr_deleted txn a (e_created ev)) as [t1| | |] eqn:E; cbn [bind]; try discriminate.
      pose proof (mark_naddr_delids _ _ _ _ E) as Md. destruct (mark_naddr_spec _ _ _ _ E) as (Ti & _ & _).
      assert (Fin : forall t2, ile t1 t2 -> t_delids t2 = t_delids t1 -> NewOnly c t2 (e_id ev) o0 /\ IdCov L t2).
      { intros t2 I M. assert (I0 : ile txn t2) by (destruct I as [ks Hks]; exists ks; rewrite Hks, Ti; reflexivity).
        split; [apply (NewOnly_shrink c txn); assumption|apply (IdCov_shrink L txn); [exact I0|congruence|exact Hcov]]. }
      destruct (is_replaceable (a_kind a)).
      { intros H. apply Fin; [eapply remove_replaceable_ile; eauto|apply (remove_replaceable_markers _ _ _ _ _ _ H)]. }
      destruct (is_param_replaceable (a_kind a)).
      { intros H. apply Fin; [eapply remove_param_replaceable_ile; eauto|apply (remove_param_replaceable_markers _ _ _ _ _ H)]. }
      intros [= <-]. apply Fin; [apply ile_refl|reflexivity].
  Qed.

  Lemma handle_deletion_idcov tags : forall txn txn', incl tags (e_tags ev) -> TI s txn -> NewOnly c txn (e_id ev) o0 -> IdCov L txn ->
    handle_deletion s txn ev tags = Ok txn' -> IdCov L txn'.
  Proof.
    induction tags as [|t r IH]; intros txn txn' Hinc Ht Hn Hcov; cbn [handle_deletion]; [intros [= <-]; exact Hcov|].
    destruct (handle_one_tag s txn ev t) as [t1| | |] eqn:E; cbn [bind]; try discriminate.
    destruct (handle_one_tag_idcov txn t t1 (Hinc t (or_introl eq_refl)) Ht Hn Hcov E) as [Hn1 Hc1].
    apply IH; try assumption; [intros z Hz; apply Hinc; right; exact Hz|eapply (handle_one_tag_inv s Hw Hc); eauto].
  Qed.
End IdScan.

Theorem store_event_IdCov s e : StoreInv s -> wf_ev e -> IdCov (log s) (committed s) ->
  IdCov (log (fst (store_event s e))) (committed (fst (store_event s e))).
Proof.
  intros ((Hl & Hw & Hi) & Hid & Hwe & _) Wev Hcov.
  unfold store_event.
  destruct (pre_checks s e) as [txn|e0| |] eqn:Ep; cbn [fst]; try exact Hcov.
  destruct (pre_checks_ile _ _ _ Ep) as [I0 Hnone].
  destruct (pre_checks_markers _ _ _ Ep) as [M0 _].
  destruct (pre_checks_inv s Hw Hi e txn Ep) as [Ht Rt].
  assert (Hnd : is_deleted (committed s) (e_id e) = false).
  { unfold pre_checks in Ep. destruct (t_get (t_i (committed s)) (e_id e)); [discriminate|].
    destruct (is_deleted (committed s) (e_id e)); [discriminate|reflexivity]. }
  unfold log_append. set (o := align8 (log_end s)) in *.
  set (s1 := mkDb (committed s) ((o, e) :: log s) (o + event_size e) (bak s)) in *.
  pose proof (align8_ge (log_end s)) as (A & B & _). fold o in A. pose proof (event_size_pos e) as Hsz.
  assert (Hfind : forall p y, log_find (log s) p = Some y -> log_find (log s1) p = Some y).
  { intros p y Hf. subst s1. cbn [log log_find]. destruct (N.eqb_spec o p) as [Heq|_]; [|exact Hf].
    exfalso. apply log_find_In in Hf. destruct Hl as [_ Hl]. destruct (Hl _ _ Hf) as (_ & _ & Z). pose proof (event_size_pos y). lia. }
  assert (Hidx : forall tb, ile (committed s) tb -> forall id off, In (id, off) (t_i tb) -> log_find (log s1) off = log_find (log s) off).
  { intros tb I id off Hin. apply (ile_In _ _ _ _ I) in Hin. destruct Hid as [_ Hh]. destruct (Hh _ _ Hin) as [_ [y [Hf _]]].
    rewrite Hf. apply Hfind. exact Hf. }
  assert (Hself : log_find (log s1) o = Some e) by (subst s1; cbn [log log_find]; rewrite N.eqb_refl; reflexivity).
  assert (Ctxn : IdCov (log s1) txn).
  { apply (IdCov_log (log s)); [apply Hidx; exact I0|]. apply (IdCov_shrink _ (committed s)); assumption. }
  assert (C2 : IdCov (log s1) (index txn e o)).
  { intros x off Hin Hf Hd. rewrite index_ti in Hin. apply In_t_put in Hin.
    unfold is_deleted in Hd. rewrite (proj1 (index_markers txn e o)) in Hd.
    destruct Hin as [[Eid ->]|[Hin _]].
    - exfalso. unfold is_deleted in Hnd. rewrite Eid, M0 in Hd. destruct (t_get (t_delids (committed s)) (e_id e)); discriminate.
    - apply (Ctxn x off Hin Hf). exact Hd. }
  assert (N2 : NewOnly (committed s) (index txn e o) (e_id e) o).
  { intros id off Hin. rewrite index_ti in Hin. apply In_t_put in Hin. destruct Hin as [[-> ->]|[Hin _]]; [right; split; reflexivity|left].
    eapply ile_In; eauto. }
  set (txn2 := if is_ephemeral (e_kind e) then txn else index txn e o).
  assert (Hfail : IdCov (log s1) (committed s)).
  { apply (IdCov_log (log s)); [apply Hidx; apply ile_refl|exact Hcov]. }
  destruct (N.eqb_spec (e_kind e) 5) as [Hk|Hk].
  - assert (Hwe1 : log_wfe (log s1)).
    { intros p y Hf. subst s1. cbn [log log_find] in Hf. destruct (o =? p); [injection Hf as <-; exact Wev|eapply Hwe; eauto]. }
    assert (Hw1 : log_wf (log s1)) by (apply log_wfe_wf; exact Hwe1).
    assert (Hgrow : forall tb, AllInv (log s) tb -> AllInv (log s1) tb).
    { intros tb Htb. eapply AllInv_log; [|exact Htb]. intros id p Hin.
      destruct Htb as [[_ Hio] _]. destruct (Hio id p Hin) as [y [Hf _]]. rewrite Hf. apply Hfind. exact Hf. }
    assert (Hc1 : AllInv (log s1) (committed s1)) by (apply Hgrow; exact Hi).
    assert (Hfresh : forall p, ~ In (e_id e, p) (t_i txn)).
    { intros p Hin. apply (ile_In _ _ _ _ I0) in Hin. destruct Hi as [[U _] _]. apply (t_get_In _ _ _ U) in Hin. congruence. }
    assert (T2 : TI s1 (index txn e o)).
    { split.
      - apply AllInv_index; [exact Hw1|exact Hself|exact Hfresh|apply Hgrow; exact Ht].
      - intros id p p' Hin Hcm. rewrite index_ti in Hin. apply In_t_put in Hin. destruct Hin as [[-> ->]|[Hin _]].
        + exfalso. subst s1. cbn [committed] in Hcm. destruct Hi as [[U _] _]. apply (t_get_In _ _ _ U) in Hcm. congruence.
        + eapply Rt; eauto. }
    assert (Et2 : txn2 = index txn e o) by (subst txn2; rewrite Hk; reflexivity).
    rewrite Et2.
    destruct (handle_deletion s1 (index txn e o) e (e_tags e)) as [txn3|e0| |] eqn:Eh; cbn [fst committed log with_committed]; try exact Hfail.
    apply (handle_deletion_idcov s1 Hw1 Hc1 e o Hself Hk (e_tags e) (index txn e o) txn3 (fun z Hz => Hz) T2 N2 C2 Eh).
  - cbn [fst committed log with_committed]. subst txn2. destruct (is_ephemeral (e_kind e)); [exact Ctxn|exact C2].
Qed.

Lemma remove_event_IdCov s id : IdCov (log s) (committed s) ->
  IdCov (log (fst (remove_event s id))) (committed (fst (remove_event s id))).
Proof.
  intros H. pose proof (remove_event_markers s id) as [M _]. unfold remove_event in *.
  destruct (remove_by_id s (committed s) id) as [tb| | |] eqn:E; cbn [fst] in *; try exact H.
  cbn [with_committed log committed] in *. apply (IdCov_shrink _ (committed s)); [eapply remove_by_id_ile; eauto|exact M|exact H].
Qed.
Lemma remove_events_IdCov ids : forall s, IdCov (log s) (committed s) ->
  IdCov (log (fst (remove_events s ids))) (committed (fst (remove_events s ids))).
Proof.
  induction ids as [|id r IH]; intros s H; cbn [remove_events]; [exact H|].
  pose proof (remove_event_IdCov s id H) as H1. destruct (remove_event s id) as [s1 r1]. cbn [fst] in H1.
  destruct r1 as [u| | |]; try exact H1. apply IH. exact H1.
Qed.
Lemma vanish_IdCov s pk : IdCov (log s) (committed s) -> IdCov (log (fst (vanish s pk))) (committed (fst (vanish s pk))).
Proof.
  intros H. unfold vanish. destruct (find_events s _ all_match 0 true 0 0) as [[evs r1]| | |]; cbn [fst]; try exact H.
  pose proof (remove_events_IdCov (map e_id evs) s H) as H1. destruct (remove_events s (map e_id evs)) as [s1 rr]. cbn [fst] in H1.
  destruct rr as [u| | |]; cbn [fst]; try exact H1.
  destruct (find_events s1 _ all_match 0 true 0 0) as [[gws r2]| | |]; cbn [fst]; try exact H1.
  apply remove_events_IdCov. exact H1.
Qed.

Lemma c_run_IdCov ops : forall s, ops_wfe ops -> StoreInv s -> IdCov (log s) (committed s) ->
  IdCov (log (c_run ops s)) (committed (c_run ops s)).
Proof.
  induction ops as [|op ops IH]; intros s Hw HA H; cbn [c_run fold_left]; [exact H|].
  inversion Hw as [|? ? Hop Hr]; subst. apply IH; [exact Hr|apply c_step_StoreInv; assumption|].
  destruct op; cbn [c_step].
  - apply store_event_IdCov; assumption.
  - apply remove_event_IdCov. exact H.
  - apply vanish_IdCov. exact H.
  - unfold db_extra_put. cbn [with_committed log committed]. apply (IdCov_shrink _ (committed s)); [exists []; reflexivity|reflexivity|exact H].
  - exact H.
Qed.

Theorem no_retrievable_event_is_marked_deleted ops names x : ops_wfe ops -> let s := c_run ops (db_init names) in
  get_event_by_id s (e_id x) = Ok (Some x) -> event_is_deleted s (e_id x) = true -> self_naming x.
Proof.
  intros Hops s Hx Hd.
  pose proof (c_run_StoreInv ops _ Hops (StoreInv_init names)) as HA. fold s in HA.
  assert (Hc : IdCov (log s) (committed s)).
  { apply c_run_IdCov; [exact Hops|apply StoreInv_init|]. intros y off []. }
  destruct (by_id_entry s _ _ (proj1 (proj2 HA)) Hx) as [off [Hi Hf]].
  apply (Hc x off Hi Hf Hd).
Qed.

(* ====================== C09: the newer event wins ====================== *)
(* after a successful store, the stored event is THE holder of its address: every retrievable event at the same
   address is that event (what was there before - older, or of equal time - has been replaced) *)
Theorem stored_event_is_sole_holder ops names e s' off x : ops_wfe ops -> wf_ev e ->
  let s := c_run ops (db_init names) in
  store_event s e = (s', Ok off) -> is_ephemeral (e_kind e) = false -> e_kind e <> 5 ->
  get_event_by_id s' (e_id x) = Ok (Some x) -> same_address x e -> x = e.
Proof.
  intros Hops We s Hst Hne Hk5 Hx Hsa.
  destruct (stored_event_found_by_id ops names e s' off Hst Hne Hk5) as [He _].
  assert (Es' : s' = c_run (ops ++ [CStore e]) (db_init names)).
  { unfold c_run. rewrite fold_left_app. cbn [fold_left c_step]. fold (c_run ops (db_init names)). fold s. rewrite Hst. reflexivity. }
  assert (Hw : ops_wfe (ops ++ [CStore e])) by (apply Forall_app; split; [exact Hops|constructor; [exact We|constructor]]).
  rewrite Es' in Hx, He. exact (at_most_one_per_address_concrete (ops ++ [CStore e]) names x e Hw Hx He Hsa).
Qed.
