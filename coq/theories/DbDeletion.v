(* DbDeletion.v — deletion records of the CONCRETE store over all histories (C11, C18, C10):
   - deleted-id markers are never lost and address deletion times never decrease, whatever operations follow;
     an id once marked deleted is refused (duplicate or deleted) by every later store;
   - remove_event removes exactly its target from the id index and touches no marker;
   - a deletion request never takes an event of another author out of the id index. *)
From Pocket Require Import Db DbProofs TableProofs DbIdInv.

(* ---------- markers only grow ---------- *)
Definition del_le (tb tb' : tables) : Prop :=
  (forall id, is_deleted tb id = true -> is_deleted tb' id = true) /\
  (forall k t, t_get (t_naddr tb) k = Some t -> exists t', t_get (t_naddr tb') k = Some t' /\ t <= t').

Lemma del_le_refl tb : del_le tb tb.
Proof. split; [auto|]. intros k t H. exists t. split; [exact H|lia]. Qed.
Lemma del_le_trans a b c : del_le a b -> del_le b c -> del_le a c.
Proof.
  intros [A1 A2] [B1 B2]. split; [auto|]. intros k t H. destruct (A2 k t H) as [t1 [H1 L1]].
  destruct (B2 k t1 H1) as [t2 [H2 L2]]. exists t2. split; [exact H2|lia].
Qed.
Lemma del_le_same tb tb' : t_delids tb' = t_delids tb -> t_naddr tb' = t_naddr tb -> del_le tb tb'.
Proof. intros E1 E2. unfold del_le, is_deleted. rewrite E1, E2. split; [auto|]. intros k t H. exists t. split; [exact H|lia]. Qed.

Lemma deindex_markers tb e : t_delids (deindex tb e) = t_delids tb /\ t_naddr (deindex tb e) = t_naddr tb.
Proof. destruct (deindex_tables tb e) as (_ & _ & _ & _ & _ & _ & _ & D7 & D8 & _). cbv zeta in *. split; assumption. Qed.
Lemma index_markers tb e off : t_delids (index tb e off) = t_delids tb /\ t_naddr (index tb e off) = t_naddr tb.
Proof. destruct (index_tables tb e off) as (_ & _ & _ & _ & _ & _ & _ & D7 & D8 & _). cbv zeta in *. split; assumption. Qed.

Lemma remove_by_offset_markers s txn off txn' : remove_by_offset s txn off = Ok txn' ->
  t_delids txn' = t_delids txn /\ t_naddr txn' = t_naddr txn.
Proof.
  unfold remove_by_offset. destruct (get_event_by_offset s off) as [e| | |]; cbn [bind]; try discriminate.
  intros [= <-]. cbn [deindex_id t_delids t_naddr]. apply deindex_markers.
Qed.
Lemma remove_by_id_markers s txn id txn' : remove_by_id s txn id = Ok txn' ->
  t_delids txn' = t_delids txn /\ t_naddr txn' = t_naddr txn.
Proof.
  unfold remove_by_id. destruct (t_get (t_i txn) id); [apply remove_by_offset_markers|]. intros [= <-]. split; reflexivity.
Qed.
Lemma remove_offsets_markers s offs : forall txn txn', remove_offsets s txn offs = Ok txn' ->
  t_delids txn' = t_delids txn /\ t_naddr txn' = t_naddr txn.
Proof.
  induction offs as [|o r IH]; intros txn txn'; cbn [remove_offsets]; [intros [= <-]; split; reflexivity|].
  destruct (remove_by_offset s txn o) as [t1| | |] eqn:E; cbn [bind]; try discriminate.
  intros H. destruct (remove_by_offset_markers _ _ _ _ E) as [A B]. destruct (IH _ _ H) as [C D]. split; congruence.
Qed.
Lemma remove_param_offsets_markers s a offs : forall txn txn', remove_param_offsets s txn a offs = Ok txn' ->
  t_delids txn' = t_delids txn /\ t_naddr txn' = t_naddr txn.
Proof.
  induction offs as [|o r IH]; intros txn txn'; cbn [remove_param_offsets]; [intros [= <-]; split; reflexivity|].
  destruct (get_event_by_offset s o) as [e| | |]; cbn [bind]; try discriminate.
  destruct (same_addr a e); [|apply IH].
  destruct (remove_by_offset s txn o) as [t1| | |] eqn:E; cbn [bind]; try discriminate.
  intros H. destruct (remove_by_offset_markers _ _ _ _ E) as [A B]. destruct (IH _ _ H) as [C D]. split; congruence.
Qed.
Lemma remove_replaceable_markers s txn a k u txn' : remove_replaceable s txn a k u = Ok txn' ->
  t_delids txn' = t_delids txn /\ t_naddr txn' = t_naddr txn.
Proof. unfold remove_replaceable. destruct (negb _); [discriminate|apply remove_offsets_markers]. Qed.
Lemma remove_param_replaceable_markers s txn a u txn' : remove_param_replaceable s txn a u = Ok txn' ->
  t_delids txn' = t_delids txn /\ t_naddr txn' = t_naddr txn.
Proof. unfold remove_param_replaceable. destruct (negb _); [discriminate|apply remove_param_offsets_markers]. Qed.

Lemma mark_deleted_le tb id : del_le tb (mark_deleted tb id) /\ is_deleted (mark_deleted tb id) id = true.
Proof.
  unfold del_le, is_deleted, mark_deleted. cbn [t_delids t_naddr]. split; [split|].
  - intros i H. destruct (beq id i) eqn:E.
    + apply beq_eq in E. subst i. rewrite t_get_put_same. reflexivity.
    + assert (i <> id) by (intros ->; rewrite beq_refl in E; discriminate). rewrite t_get_put_other by assumption. exact H.
  - intros k t H. exists t. split; [exact H|lia].
  - rewrite t_get_put_same. reflexivity.
Qed.

Lemma mark_naddr_deleted_le tb a w tb' : mark_naddr_deleted tb a w = Ok tb' ->
  del_le tb tb' /\ exists t', when_naddr_deleted tb' a = Some t' /\ w <= t'.
Proof.
  unfold mark_naddr_deleted, when_naddr_deleted.
  assert (Put : forall nt, t_put_checked (t_naddr tb) (key_naddr a) w = Ok nt ->
            (forall old, t_get (t_naddr tb) (key_naddr a) = Some old -> old <= w) ->
            let tb2 := mkT (t_i tb) (t_ci tb) (t_tc tb) (t_ac tb) (t_akc tb) (t_atc tb) (t_ktc tb) (t_delids tb) nt (t_extra tb) in
            del_le tb tb2 /\ exists t', t_get (t_naddr tb2) (key_naddr a) = Some t' /\ w <= t').
  { intros nt Hp Hold. unfold t_put_checked in Hp. destruct (MAXKEY <? len (key_naddr a)); [discriminate|]. injection Hp as <-.
    cbv zeta. cbn [t_naddr]. split; [split|].
    - unfold is_deleted. cbn [t_delids]. auto.
    - cbn [t_naddr]. intros k t H. destruct (beq (key_naddr a) k) eqn:E.
      + apply beq_eq in E. subst k. exists w. rewrite t_get_put_same. split; [reflexivity|apply Hold; exact H].
      + assert (k <> key_naddr a) by (intros ->; rewrite beq_refl in E; discriminate).
        exists t. rewrite t_get_put_other by assumption. split; [exact H|lia].
    - exists w. rewrite t_get_put_same. split; [reflexivity|lia]. }
  destruct (t_get (t_naddr tb) (key_naddr a)) as [old|] eqn:Eo.
  - destruct (N.leb_spec w old) as [Hle|Hgt].
    + intros [= <-]. split; [apply del_le_refl|]. exists old. split; [exact Eo|exact Hle].
    + destruct (t_put_checked (t_naddr tb) (key_naddr a) w) as [nt| | |] eqn:Ep; cbn [bind]; try discriminate.
      intros [= <-]. apply (Put nt eq_refl). intros o Ho. injection Ho as <-. lia.
  - destruct (t_put_checked (t_naddr tb) (key_naddr a) w) as [nt| | |] eqn:Ep; cbn [bind]; try discriminate.
    intros [= <-]. apply (Put nt eq_refl). intros o Ho. discriminate.
Qed.

Lemma markers_le tb tb' : t_delids tb' = t_delids tb /\ t_naddr tb' = t_naddr tb -> del_le tb tb'.
Proof. intros [A B]. apply del_le_same; assumption. Qed.

Lemma handle_one_tag_le s txn ev tag txn' : handle_one_tag s txn ev tag = Ok txn' -> del_le txn txn'.
Proof.
  unfold handle_one_tag. destruct tag as [|name [|arg rest]]; try (intros [= <-]; apply del_le_refl).
  destruct (beq name [101]).
  - destruct (read_hex arg 32) as [id| | |]; try (intros [= <-]; apply del_le_refl).
    destruct (get_event_by_id s id) as [target| | |]; cbn [bind]; try discriminate.
    destruct target as [tg|].
    + destruct (beq (e_pk tg) (e_pk ev)); cbn [bind]; [|discriminate].
      destruct (remove_by_id s txn id) as [t1| | |] eqn:E; cbn [bind]; try discriminate.
      intros [= <-]. eapply del_le_trans; [apply markers_le; eapply remove_by_id_markers; eauto|apply mark_deleted_le].
    + cbn [bind]. intros [= <-]. apply mark_deleted_le.
  - destruct (beq name [97]); [|intros [= <-]; apply del_le_refl].
    destruct (addr_parse arg) as [a| | |]; try (intros [= <-]; apply del_le_refl).
    destruct (negb _); [discriminate|].
    destruct (mark_naddr_deleted txn a (e_created ev)) as [t1| | |] eqn:E; cbn [bind]; try discriminate.
    destruct (mark_naddr_deleted_le _ _ _ _ E) as [L1 _].
    destruct (is_replaceable (a_kind a)).
    { intros H. eapply del_le_trans; [exact L1|apply markers_le; eapply remove_replaceable_markers; eauto]. }
    destruct (is_param_replaceable (a_kind a)).
    { intros H. eapply del_le_trans; [exact L1|apply markers_le; eapply remove_param_replaceable_markers; eauto]. }
    intros [= <-]. exact L1.
Qed.
Lemma handle_deletion_le s ev tags : forall txn txn', handle_deletion s txn ev tags = Ok txn' -> del_le txn txn'.
Proof.
  induction tags as [|t r IH]; intros txn txn'; cbn [handle_deletion]; [intros [= <-]; apply del_le_refl|].
  destruct (handle_one_tag s txn ev t) as [t1| | |] eqn:E; cbn [bind]; try discriminate.
  intros H. eapply del_le_trans; [eapply handle_one_tag_le; eauto|eapply IH; eauto].
Qed.

Lemma pre_checks_markers s e txn : pre_checks s e = Ok txn ->
  t_delids txn = t_delids (committed s) /\ t_naddr txn = t_naddr (committed s).
Proof.
  unfold pre_checks. destruct (t_get (t_i (committed s)) (e_id e)); [discriminate|].
  destruct (is_deleted _ _); [discriminate|].
  destruct (_ && _); [discriminate|]. destruct (_ && _); [discriminate|].
  destruct (is_replaceable (e_kind e)).
  - destruct (remove_replaceable s (committed s) (e_pk e) (e_kind e) (e_created e)) as [t1| | |] eqn:E1; cbn [bind]; try discriminate.
    destruct (find_replaceable s t1 (e_pk e) (e_kind e)) as [h| | |]; cbn [bind]; try discriminate.
    destruct h; cbn [bind]; [discriminate|].
    pose proof (remove_replaceable_markers _ _ _ _ _ _ E1) as [A1 B1].
    destruct (is_param_replaceable (e_kind e)); [|intros [= <-]; split; assumption].
    destruct (d_of e) as [d|]; [|intros [= <-]; split; assumption].
    destruct (remove_param_replaceable s t1 _ (e_created e)) as [t2| | |] eqn:E2; cbn [bind]; try discriminate.
    destruct (find_param_replaceable s t2 _) as [h| | |]; cbn [bind]; try discriminate.
    destruct h; [discriminate|]. intros [= <-].
    pose proof (remove_param_replaceable_markers _ _ _ _ _ E2) as [A2 B2]. split; congruence.
  - cbn [bind]. destruct (is_param_replaceable (e_kind e)); [|intros [= <-]; split; reflexivity].
    destruct (d_of e) as [d|]; [|intros [= <-]; split; reflexivity].
    destruct (remove_param_replaceable s (committed s) _ (e_created e)) as [t2| | |] eqn:E2; cbn [bind]; try discriminate.
    destruct (find_param_replaceable s t2 _) as [h| | |]; cbn [bind]; try discriminate.
    destruct h; [discriminate|]. intros [= <-]. eapply remove_param_replaceable_markers; eauto.
Qed.

Lemma store_event_le s e : del_le (committed s) (committed (fst (store_event s e))).
Proof.
  unfold store_event. destruct (pre_checks s e) as [txn|x| |] eqn:Ep; cbn [fst]; try apply del_le_refl.
  pose proof (pre_checks_markers _ _ _ Ep) as M0.
  unfold log_append.
  set (txn2 := if is_ephemeral (e_kind e) then txn else index txn e (align8 (log_end s))).
  assert (M2 : t_delids txn2 = t_delids (committed s) /\ t_naddr txn2 = t_naddr (committed s)).
  { subst txn2. destruct (is_ephemeral (e_kind e)); [exact M0|]. destruct (index_markers txn e (align8 (log_end s))) as [A B]. destruct M0. split; congruence. }
  match goal with |- context [match ?X with Ok _ => _ | Err _ => _ | Panic => _ | OutOfFuel => _ end] => destruct X as [txn3|x| |] eqn:Eh end;
    cbn [fst committed]; try apply del_le_refl.
  cbn [with_committed committed]. eapply del_le_trans; [apply markers_le; exact M2|].
  destruct (e_kind e =? 5); [eapply handle_deletion_le; eauto|injection Eh as <-; apply del_le_refl].
Qed.

Lemma remove_event_markers s id : t_delids (committed (fst (remove_event s id))) = t_delids (committed s) /\
                                   t_naddr (committed (fst (remove_event s id))) = t_naddr (committed s).
Proof.
  unfold remove_event. destruct (remove_by_id s (committed s) id) as [tb| | |] eqn:E; cbn [fst]; try (split; reflexivity).
  cbn [with_committed committed]. eapply remove_by_id_markers; eauto.
Qed.
Lemma remove_events_markers ids : forall s, t_delids (committed (fst (remove_events s ids))) = t_delids (committed s) /\
                                            t_naddr (committed (fst (remove_events s ids))) = t_naddr (committed s).
Proof.
  induction ids as [|id r IH]; intros s; cbn [remove_events fst]; [split; reflexivity|].
  pose proof (remove_event_markers s id) as [A B].
  destruct (remove_event s id) as [s' [u|x| |]]; cbn [fst] in *; try (split; assumption).
  destruct (IH s') as [C D]. split; congruence.
Qed.
Lemma vanish_markers s pk : t_delids (committed (fst (vanish s pk))) = t_delids (committed s) /\
                            t_naddr (committed (fst (vanish s pk))) = t_naddr (committed s).
Proof.
  unfold vanish. destruct (find_events s _ all_match 0 true 0 0) as [[evs red]|x| |]; cbn [fst]; try (split; reflexivity).
  pose proof (remove_events_markers (map e_id evs) s) as [A B].
  destruct (remove_events s (map e_id evs)) as [s1 [u|x| |]]; cbn [fst] in *; try (split; assumption).
  destruct (find_events s1 _ all_match 0 true 0 0) as [[gws red2]|x| |]; cbn [fst]; try (split; assumption).
  destruct (remove_events_markers (map e_id gws) s1) as [C D]. split; congruence.
Qed.

Lemma c_step_le s op : del_le (committed s) (committed (c_step s op)).
Proof.
  destruct op; cbn [c_step].
  - apply store_event_le.
  - apply markers_le. apply remove_event_markers.
  - apply markers_le. apply vanish_markers.
  - apply markers_le. split; reflexivity.
  - apply del_le_refl.
Qed.
Theorem markers_only_grow ops : forall s, del_le (committed s) (committed (c_run ops s)).
Proof.
  induction ops as [|op ops IH]; intros s; cbn [c_run fold_left]; [apply del_le_refl|].
  eapply del_le_trans; [apply c_step_le|apply IH].
Qed.

(* C11: a deleted id is refused for ever, whatever happens in between *)
Lemma store_refused_when_deleted s e : is_deleted (committed s) (e_id e) = true ->
  (snd (store_event s e) = Err EDup \/ snd (store_event s e) = Err EDeleted) /\ fst (store_event s e) = s.
Proof.
  intros H. unfold store_event.
  assert (P : pre_checks s e = Err EDup \/ pre_checks s e = Err EDeleted).
  { unfold pre_checks. destruct (t_get (t_i (committed s)) (e_id e)); [left; reflexivity|]. rewrite H. right. reflexivity. }
  destruct P as [-> | ->]; cbn [fst snd]; split; auto.
Qed.
Theorem deleted_id_refused_forever s id ops e : event_is_deleted s id = true -> e_id e = id ->
  let s' := c_run ops s in
  event_is_deleted s' id = true /\
  (snd (store_event s' e) = Err EDup \/ snd (store_event s' e) = Err EDeleted) /\ fst (store_event s' e) = s'.
Proof.
  intros Hd He s'. destruct (markers_only_grow ops s) as [M _]. unfold event_is_deleted in *. specialize (M id Hd).
  split; [exact M|]. apply store_refused_when_deleted. rewrite He. exact M.
Qed.

(* C11: address deletion times never move backwards *)
Theorem naddr_time_monotone s a t ops : naddr_is_deleted_asof s a = Some t ->
  exists t', naddr_is_deleted_asof (c_run ops s) a = Some t' /\ t <= t'.
Proof. intros H. destruct (markers_only_grow ops s) as [_ M]. apply M. exact H. Qed.

(* C11: an event covered by an accepted address deletion is refused for ever *)
Definition addr_of (e : aevent) : option addr :=
  if is_replaceable (e_kind e) then Some (mkAddr (e_kind e) (e_pk e) [])
  else if is_param_replaceable (e_kind e) then
    match d_of e with Some d => Some (mkAddr (e_kind e) (e_pk e) d) | None => None end
  else None.

Lemma store_refused_when_covered s e a t : addr_of e = Some a -> when_naddr_deleted (committed s) a = Some t -> e_created e <= t ->
  (snd (store_event s e) = Err EDup \/ snd (store_event s e) = Err EDeleted) /\ fst (store_event s e) = s.
Proof.
  intros Ha Hw Hc. unfold store_event, pre_checks.
  destruct (t_get (t_i (committed s)) (e_id e)); [split; [left; reflexivity|reflexivity]|].
  destruct (is_deleted (committed s) (e_id e)); [split; [right; reflexivity|reflexivity]|].
  unfold addr_of in Ha. destruct (is_replaceable (e_kind e)) eqn:Er.
  - injection Ha as <-. rewrite Hw. replace (e_created e <=? t) with true by (symmetry; apply N.leb_le; exact Hc).
    cbn [andb]. split; [right; reflexivity|reflexivity].
  - cbn [andb]. destruct (is_param_replaceable (e_kind e)) eqn:Ep; [|discriminate].
    destruct (d_of e) as [d|]; [|discriminate]. injection Ha as <-. rewrite Hw.
    replace (e_created e <=? t) with true by (symmetry; apply N.leb_le; exact Hc).
    cbn [andb]. split; [right; reflexivity|reflexivity].
Qed.

Theorem covered_event_refused_forever s a t ops e : naddr_is_deleted_asof s a = Some t -> addr_of e = Some a -> e_created e <= t ->
  let s' := c_run ops s in
  (snd (store_event s' e) = Err EDup \/ snd (store_event s' e) = Err EDeleted) /\ fst (store_event s' e) = s'.
Proof.
  intros Hd Ha Hc s'. destruct (naddr_time_monotone s a t ops Hd) as [t' [Ht' Hle]].
  apply (store_refused_when_covered s' e a t' Ha Ht'). lia.
Qed.

(* ---------- C18: remove_event removes exactly its target ---------- *)
Theorem remove_event_exact_concrete s id s' : id_inv s -> remove_event s id = (s', Ok tt) ->
  get_event_by_id s' id = Ok None /\ has_event s' id = false /\
  (forall id', id' <> id -> get_event_by_id s' id' = get_event_by_id s id' /\ has_event s' id' = has_event s id') /\
  t_delids (committed s') = t_delids (committed s) /\ t_naddr (committed s') = t_naddr (committed s) /\
  t_extra (committed s') = t_extra (committed s) /\ log s' = log s.
Proof.
  intros [U Hid] H. pose proof (remove_event_markers s id) as [M1 M2].
  unfold remove_event in *. destruct (remove_by_id s (committed s) id) as [tb| | |] eqn:E; try discriminate.
  injection H as <-. cbn [fst] in M1, M2.
  assert (Hti : t_i tb = t_del (t_i (committed s)) id /\ t_extra tb = t_extra (committed s)).
  { unfold remove_by_id in E. destruct (t_get (t_i (committed s)) id) as [off|] eqn:Eg.
    - unfold remove_by_offset in E. destruct (get_event_by_offset s off) as [e| | |] eqn:Eo; cbn [bind] in E; try discriminate.
      injection E as <-. cbn [deindex_id t_i t_extra]. rewrite deindex_ti.
      apply (t_get_In _ _ _ U) in Eg. destruct (Hid id off Eg) as [_ [x [Hf Hx]]].
      assert (x = e).
      { unfold get_event_by_offset in Eo. destruct (log_end s <=? off); [discriminate|]. rewrite Hf in Eo. congruence. }
      subst x. rewrite Hx. split; [reflexivity|].
      destruct (deindex_tables (committed s) e) as (_ & _ & _ & _ & _ & _ & _ & _ & _ & D9). exact D9.
    - injection E as <-. split; [|reflexivity]. symmetry. apply t_del_fresh. intros v Hin.
      apply (t_get_In _ _ _ U) in Hin. congruence. }
  destruct Hti as [Hti Hex].
  unfold get_event_by_id, has_event. cbn [with_committed committed log]. rewrite Hti, t_get_del_same.
  split; [reflexivity|]. split; [reflexivity|]. split; [|repeat split; assumption].
  intros id' Hne. rewrite t_get_del_other by exact Hne. split; reflexivity.
Qed.
