(* DbFailedStore.v - C12 on the concrete store, in terms of what a caller can observe: after ANY history, a store call
   that fails leaves every id-level and address-level read API, every counter but the event map's byte count, and the
   extra tables exactly as they were (the appended-but-uncommitted bytes lie beyond every offset an index holds). *)
From Pocket Require Import Db DbProofs TableProofs DbIdInv.

Lemma gebo_after_append s e off x :
  log_inv s -> off < log_end s -> log_find (log s) off = Some x ->
  get_event_by_offset (fst (log_append s e)) off = Ok x.
Proof.
  intros [H0 _] Hlt Hf. unfold get_event_by_offset, log_append. cbn [fst log log_end log_find].
  pose proof (align8_ge (log_end s)) as (A & _). pose proof (event_size_pos e).
  destruct (N.leb_spec (align8 (log_end s) + event_size e) off) as [C|_]; [lia|].
  destruct (N.eqb_spec (align8 (log_end s)) off) as [C|_]; [lia|]. rewrite Hf. reflexivity.
Qed.

Theorem failed_store_observations_unchanged ops names e s' r :
  let s := c_run ops (db_init names) in
  store_event s e = (s', r) -> (forall off, r <> Ok off) ->
  (forall id, has_event s' id = has_event s id) /\
  (forall id, event_is_deleted s' id = event_is_deleted s id) /\
  (forall id, get_event_by_id s' id = get_event_by_id s id) /\
  (forall a, naddr_is_deleted_asof s' a = naddr_is_deleted_asof s a) /\
  t_extra (committed s') = t_extra (committed s) /\
  removelast (stats s') = removelast (stats s) /\
  bak s' = bak s.
Proof.
  intros s Hst Hfail.
  destruct (store_event_failure_noop s e s' r Hst Hfail) as (Hc & Hb & Hs).
  destruct (c_run_inv ops _ (c_inv_init names)) as [Hl Hid]. fold s in Hl, Hid.
  refine (conj _ (conj _ (conj _ (conj _ (conj _ (conj _ Hb)))))).
  - intros id. unfold has_event. rewrite Hc. reflexivity.
  - intros id. unfold event_is_deleted. rewrite Hc. reflexivity.
  - intros id. unfold get_event_by_id. rewrite Hc.
    destruct (t_get (t_i (committed s)) id) as [off|] eqn:G; [|reflexivity].
    destruct Hs as [->| ->]; [reflexivity|].
    destruct Hid as [U Hv]. apply (t_get_In _ _ _ U) in G. destruct (Hv id off G) as (Hlt & x & Hf & _).
    rewrite (gebo_after_append s e off x Hl Hlt Hf).
    unfold get_event_by_offset. destruct (N.leb_spec (log_end s) off) as [C|_]; [lia|]. rewrite Hf. reflexivity.
  - intros a. unfold naddr_is_deleted_asof. rewrite Hc. reflexivity.
  - rewrite Hc. reflexivity.
  - unfold stats. rewrite Hc. reflexivity.
Qed.

(* ---------- queries and address lookups ---------- *)
From Pocket Require Import DbIndexInv.

(* the two states read the same event at every offset an entry of the table holds *)
Definition agreeT (s s' : db) (T : table) : Prop :=
  forall k off, In (k, off) T -> get_event_by_offset s' off = get_event_by_offset s off.

Lemma agreeT_range s s' T lo hi : agreeT s s' T -> agreeT s s' (t_range T lo hi).
Proof. intros H k off Hin. apply t_range_spec in Hin. apply (H k off). apply Hin. Qed.

Section Congr.
  Variables s s' : db.
  Variable f : afilter.
  Variable screen : aevent -> sres.

  Lemma scan_pair_congr entries : forall repl q c, agreeT s s' entries ->
    scan_pair s' f screen entries repl q c = scan_pair s f screen entries repl q c.
  Proof.
    induction entries as [|[k off] r IH]; intros repl q c H; cbn [scan_pair]; [reflexivity|].
    rewrite (H k off (or_introl eq_refl)).
    assert (Hr : agreeT s s' r) by (intros k0 o0 Hin; apply (H k0 o0); right; exact Hin).
    destruct (get_event_by_offset s off) as [e| | |]; cbn [bind]; try reflexivity.
    destruct (e_created e <? q_since q); [reflexivity|].
    destruct (accept f screen q e) as [q' acc]. destruct acc.
    - destruct (f_limit f <=? c + 1); [reflexivity|]. destruct repl; [reflexivity|]. apply IH; exact Hr.
    - apply IH; exact Hr.
  Qed.
  Lemma scan_author_congr entries : forall q c, agreeT s s' entries ->
    scan_author s' f screen entries q c = scan_author s f screen entries q c.
  Proof.
    induction entries as [|[k off] r IH]; intros q c H; cbn [scan_author]; [reflexivity|].
    rewrite (H k off (or_introl eq_refl)).
    assert (Hr : agreeT s s' r) by (intros k0 o0 Hin; apply (H k0 o0); right; exact Hin).
    destruct (get_event_by_offset s off) as [e| | |]; cbn [bind]; try reflexivity.
    destruct (e_created e <? f_since f); [reflexivity|].
    destruct (accept f screen q e) as [q' acc]. destruct acc.
    - destruct (f_limit f <=? c + 1); [reflexivity|]. apply IH; exact Hr.
    - apply IH; exact Hr.
  Qed.
  Lemma scan_scrape_congr entries : forall q, agreeT s s' entries ->
    scan_scrape s' f screen entries q = scan_scrape s f screen entries q.
  Proof.
    induction entries as [|[k off] r IH]; intros q H; cbn [scan_scrape]; [reflexivity|].
    destruct (f_limit f <=? len (q_out q)); [reflexivity|].
    rewrite (H k off (or_introl eq_refl)).
    assert (Hr : agreeT s s' r) by (intros k0 o0 Hin; apply (H k0 o0); right; exact Hin).
    destruct (get_event_by_offset s off) as [e| | |]; cbn [bind]; try reflexivity.
    destruct (accept f screen q e) as [q' acc]. apply IH; exact Hr.
  Qed.
  Lemma scan_ids_congr ids : forall q, (forall id, get_event_by_id s' id = get_event_by_id s id) ->
    scan_ids s' f screen ids q = scan_ids s f screen ids q.
  Proof.
    induction ids as [|id r IH]; intros q H; cbn [scan_ids]; [reflexivity|]. rewrite (H id).
    destruct (get_event_by_id s id) as [[e|]| | |]; cbn [bind]; try reflexivity.
    - destruct (accept f screen q e) as [q' acc]. apply IH; exact H.
    - apply IH; exact H.
  Qed.

  Lemma fold_res_congr {A} (g g' : qstate -> A -> res qstate) (l : list A) :
    (forall q x, g' q x = g q x) -> forall q, fold_res g' l q = fold_res g l q.
  Proof.
    intros H q. unfold fold_res. generalize (Ok q : res qstate). induction l as [|x r IH]; intros acc; cbn [fold_left]; [reflexivity|].
    rewrite IH. f_equal. destruct acc; cbn [bind]; try reflexivity. apply H.
  Qed.

  Hypothesis Hc : committed s' = committed s.
  Hypothesis Hid : forall id, get_event_by_id s' id = get_event_by_id s id.
  Hypothesis Hci : agreeT s s' (t_ci (committed s)).
  Hypothesis Hac : agreeT s s' (t_ac (committed s)).
  Hypothesis Hakc : agreeT s s' (t_akc (committed s)).
  Hypothesis Htc : agreeT s s' (t_tc (committed s)).
  Hypothesis Hatc : agreeT s s' (t_atc (committed s)).
  Hypothesis Hktc : agreeT s s' (t_ktc (committed s)).

  Lemma find_events_congr now allow_scraping allow_limit allow_seconds :
    find_events s' f screen now allow_scraping allow_limit allow_seconds
    = find_events s f screen now allow_scraping allow_limit allow_seconds.
  Proof.
    unfold find_events. f_equal. unfold find_events_q. rewrite Hc.
    destruct (f_ids f) as [|i0 ir]; [|apply scan_ids_congr; exact Hid].
    destruct (f_authors f) as [|a0 ar], (f_kinds f) as [|k0 kr], (f_tags f) as [|t0 tr];
      try (destruct (negb _); [reflexivity|]; apply scan_scrape_congr; unfold ci_range; apply agreeT_range; exact Hci).
    - destruct (tag_ranges f) as [rs| | |]; cbn [bind]; try reflexivity.
      apply fold_res_congr. intros q lv. apply scan_pair_congr. unfold tc_range. apply agreeT_range. exact Htc.
    - destruct (tag_ranges f) as [rs| | |]; cbn [bind]; try reflexivity.
      apply fold_res_congr. intros q k. apply fold_res_congr. intros q2 lv. apply scan_pair_congr. unfold ktc_range. apply agreeT_range. exact Hktc.
    - apply fold_res_congr. intros q a. apply scan_author_congr. unfold ac_range. apply agreeT_range. exact Hac.
    - destruct (tag_ranges f) as [rs| | |]; cbn [bind]; try reflexivity.
      apply fold_res_congr. intros q a. apply fold_res_congr. intros q2 lv. apply scan_pair_congr. unfold atc_range. apply agreeT_range. exact Hatc.
    - apply fold_res_congr. intros q a. apply fold_res_congr. intros q2 k. apply scan_pair_congr. unfold akc_range. apply agreeT_range. exact Hakc.
    - apply fold_res_congr. intros q a. apply fold_res_congr. intros q2 k. apply scan_pair_congr. unfold akc_range. apply agreeT_range. exact Hakc.
  Qed.

  Lemma find_replaceable_congr author k : find_replaceable_event s' author k = find_replaceable_event s author k.
  Proof.
    unfold find_replaceable_event, find_replaceable. rewrite Hc. destruct (negb (is_replaceable k)); [reflexivity|].
    destruct (akc_range (committed s) author k 0 U64MAX) as [|[kk off] r] eqn:E; [reflexivity|].
    assert (H : agreeT s s' (akc_range (committed s) author k 0 U64MAX)) by (unfold akc_range; apply agreeT_range; exact Hakc).
    rewrite E in H. rewrite (H kk off (or_introl eq_refl)). reflexivity.
  Qed.
  Lemma first_same_addr_congr a entries : agreeT s s' entries -> first_same_addr s' a entries = first_same_addr s a entries.
  Proof.
    induction entries as [|[k off] r IH]; intros H; cbn [first_same_addr]; [reflexivity|].
    rewrite (H k off (or_introl eq_refl)). destruct (get_event_by_offset s off) as [e| | |]; cbn [bind]; try reflexivity.
    destruct (same_addr a e); [reflexivity|]. apply IH. intros k0 o0 Hin. apply (H k0 o0). right. exact Hin.
  Qed.
  Lemma find_param_replaceable_congr a : find_param_replaceable_event s' a = find_param_replaceable_event s a.
  Proof.
    unfold find_param_replaceable_event, find_param_replaceable. rewrite Hc. destruct (negb (is_param_replaceable (a_kind a))); [reflexivity|].
    apply first_same_addr_congr. unfold atc_range. apply agreeT_range. exact Hatc.
  Qed.
End Congr.

Lemma gebo_old s off x : off < log_end s -> log_find (log s) off = Some x -> get_event_by_offset s off = Ok x.
Proof. intros Hlt Hf. unfold get_event_by_offset. destruct (N.leb_spec (log_end s) off) as [C|_]; [lia|]. rewrite Hf. reflexivity. Qed.

Lemma agree_tab s e T K : log_inv s -> id_inv s -> TabInv (log s) (t_i (committed s)) T K ->
  agreeT s (fst (log_append s e)) T.
Proof.
  intros Hl [_ Hv] (_ & HS & _) k off Hin.
  destruct (HS k off Hin) as (x & Hf & Hi & _). destruct (Hv _ _ Hi) as (Hlt & _).
  rewrite (gebo_after_append s e off x Hl Hlt Hf), (gebo_old s off x Hlt Hf). reflexivity.
Qed.

(* C12, the query side: after ANY history a store call that fails leaves the answer of EVERY query - any filter, any
   screen, any scraping allowances, whichever of the seven plans serves it - and of both address lookups unchanged *)
Theorem failed_store_queries_unchanged ops names e s' r :
  ops_wf ops -> let s := c_run ops (db_init names) in
  store_event s e = (s', r) -> (forall off, r <> Ok off) ->
  (forall f screen now allow_scraping allow_limit allow_seconds,
     find_events s' f screen now allow_scraping allow_limit allow_seconds
     = find_events s f screen now allow_scraping allow_limit allow_seconds) /\
  (forall author k, find_replaceable_event s' author k = find_replaceable_event s author k) /\
  (forall a, find_param_replaceable_event s' a = find_param_replaceable_event s a).
Proof.
  intros Hops s Hst Hfail.
  destruct (store_event_failure_noop s e s' r Hst Hfail) as (Hc & Hb & Hs).
  destruct Hs as [->| ->]; [refine (conj _ (conj _ _)); reflexivity|].
  destruct (c_run_inv ops _ (c_inv_init names)) as [Hl Hid]. fold s in Hl, Hid.
  destruct (c_run_SInv ops _ Hops (SInv_init names)) as (_ & _ & (_ & Tci & Tac & Takc & Ttc & Tatc & Tktc)). fold s in Tci, Tac, Takc, Ttc, Tatc, Tktc.
  destruct (failed_store_observations_unchanged ops names e _ r Hst Hfail) as (_ & _ & Hg & _).
  fold s in Hg.
  assert (Hcc : committed (fst (log_append s e)) = committed s) by reflexivity.
  refine (conj _ (conj _ _)).
  - intros f screen now a l sec. apply find_events_congr; try assumption; eapply agree_tab; eassumption.
  - intros author k. apply find_replaceable_congr; try assumption. eapply agree_tab; eassumption.
  - intros a. apply find_param_replaceable_congr; try assumption. eapply agree_tab; eassumption.
Qed.
