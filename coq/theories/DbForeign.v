(* DbForeign.v — C10 on the CONCRETE store: a deletion request (kind 5) with any tag list never removes an
   event of another author.  Whatever a successfully stored deletion request takes out of the id index belonged
   to an event signed by the request's own author; every other retrievable event is still returned by id. *)
From Pocket Require Import Db DbProofs TableProofs HexProofs DbIdInv DbIndexInv KeyOrder DbAddr DbQuerySound DbQueryComplete.

(* [ile_by P L tb tb']: tb' has the id table of tb minus some ids, each of which - if present - denoted an event satisfying P *)
Definition ile_by (P : aevent -> Prop) (L : logt) (tb tb' : tables) : Prop :=
  exists ks, t_i tb' = del_all (t_i tb) ks /\
    forall k off, In k ks -> In (k, off) (t_i tb) -> exists x, log_find L off = Some x /\ P x.

Lemma ile_by_refl P L tb : ile_by P L tb tb.
Proof. exists []. split; [reflexivity|]. intros k off []. Qed.
Lemma ile_by_same P L tb tb' : t_i tb' = t_i tb -> ile_by P L tb tb'.
Proof. intros E. exists []. split; [exact E|]. intros k off []. Qed.
Lemma ile_by_trans P L a b c : ile_by P L a b -> ile_by P L b c -> ile_by P L a c.
Proof.
  intros [k1 [H1 Q1]] [k2 [H2 Q2]]. exists (k1 ++ k2). split; [rewrite H2, H1; apply del_all_app|].
  intros k off Hin Hi. destruct (in_dec (list_eq_dec N.eq_dec) k k1) as [Hk1|Hk1]; [apply (Q1 k off Hk1 Hi)|].
  apply in_app_or in Hin. destruct Hin as [Hin|Hin]; [contradiction|].
  apply (Q2 k off Hin). rewrite H1. apply In_del_all. split; assumption.
Qed.

Section Foreign.
  Variable s : db.
  Let L := log s.
  Let c := committed s.
  Hypothesis Hwe : log_wfe L.
  Hypothesis Hc : AllInv L c.
  Variable P : aevent -> Prop.

  Let Hw : log_wf L := log_wfe_wf L Hwe.

  Lemma remove_by_offset_by txn off txn' : keys_unique (t_i txn) ->
    (forall x, log_find L off = Some x -> P x /\ (In (e_id x, off) (t_i txn) \/ forall o, ~ In (e_id x, o) (t_i txn))) ->
    remove_by_offset s txn off = Ok txn' -> ile_by P L txn txn'.
  Proof.
    intros U Hx H. unfold remove_by_offset in H. destruct (get_event_by_offset s off) as [e| | |] eqn:Eo; cbn [bind] in H; try discriminate.
    injection H as <-. apply (gebo_find s) in Eo. destruct (Hx e Eo) as [HP Hpos].
    exists [e_id e]. split; [cbn [deindex_id t_i del_all fold_left]; rewrite deindex_ti; reflexivity|].
    intros k o [<-|[]] Hi. destruct Hpos as [Hp|Hp]; [|exfalso; apply (Hp o); exact Hi].
    apply (t_get_In _ _ _ U) in Hp. apply (t_get_In _ _ _ U) in Hi. assert (o = off) by congruence. subst o.
    exists e. split; [exact Eo|exact HP].
  Qed.

  Definition SP (off : N) : Prop := snap_ok L c off /\ forall x, log_find L off = Some x -> P x.

  Lemma TI_unique txn : TI s txn -> keys_unique (t_i txn).
  Proof. intros [[[U _] _] _]. exact U. Qed.

  Lemma remove_offsets_by offs : forall txn txn', TI s txn -> Forall SP offs ->
    remove_offsets s txn offs = Ok txn' -> ile_by P L txn txn'.
  Proof.
    induction offs as [|o r IH]; intros txn txn' Ht Hs H; cbn [remove_offsets] in H; [injection H as <-; apply ile_by_refl|].
    inversion Hs as [|? ? [Hsn HPo] Hr]; subst.
    destruct (remove_by_offset s txn o) as [t1| | |] eqn:E; cbn [bind] in H; try discriminate.
    destruct Ht as [Hi R].
    assert (T1 : TI s t1).
    { split; [|eapply rel_ile; [exact R|eapply remove_by_offset_ile; eauto]].
      eapply (remove_by_offset_inv s Hw); [|exact Hi|exact E].
      intros e Hf. eapply snapshot_P; eauto. destruct Hi as [[U _] _]. exact U. }
    eapply ile_by_trans; [|eapply IH; eauto].
    eapply remove_by_offset_by; [destruct Hi as [[U _] _]; exact U| |exact E].
    intros x Hf. split; [apply HPo; exact Hf|]. eapply snapshot_P; eauto. destruct Hi as [[U _] _]. exact U.
  Qed.

  Lemma remove_param_offsets_by a offs : forall txn txn', TI s txn -> Forall SP offs ->
    remove_param_offsets s txn a offs = Ok txn' -> ile_by P L txn txn'.
  Proof.
    induction offs as [|o r IH]; intros txn txn' Ht Hs H; cbn [remove_param_offsets] in H; [injection H as <-; apply ile_by_refl|].
    inversion Hs as [|? ? [Hsn HPo] Hr]; subst.
    destruct (get_event_by_offset s o) as [e| | |]; cbn [bind] in H; try discriminate.
    destruct (same_addr a e); [|eapply IH; eauto].
    destruct (remove_by_offset s txn o) as [t1| | |] eqn:E; cbn [bind] in H; try discriminate.
    destruct Ht as [Hi R].
    assert (T1 : TI s t1).
    { split; [|eapply rel_ile; [exact R|eapply remove_by_offset_ile; eauto]].
      eapply (remove_by_offset_inv s Hw); [|exact Hi|exact E].
      intros e' Hf. eapply snapshot_P; eauto. destruct Hi as [[U _] _]. exact U. }
    eapply ile_by_trans; [|eapply IH; eauto].
    eapply remove_by_offset_by; [destruct Hi as [[U _] _]; exact U| |exact E].
    intros x Hf. split; [apply HPo; exact Hf|]. eapply snapshot_P; eauto. destruct Hi as [[U _] _]. exact U.
  Qed.
End Foreign.


(* ---------- the ranges scanned on behalf of an address hold events of that address's author ---------- *)
Lemma akc_entries_author s a k until : log_wfe (log s) -> AllInv (log s) (committed s) -> length a = 32%nat -> until <= U64MAX ->
  Forall (SP s (fun x => e_pk x = a)) (map snd (akc_range (committed s) a k 0 until)).
Proof.
  intros Hwe Hc Ha Hu. apply Forall_forall. intros off Hin. apply in_map_iff in Hin. destruct Hin as [[k0 o] [<- Hin]]. cbn [snd].
  unfold akc_range in Hin. rewrite !key_akc_assoc in Hin. destruct Hc as (A0 & _ & _ & B3 & _).
  destruct (range_entry (log s) (t_i (committed s)) (t_akc (committed s)) keys_akc 34 (a ++ be16 k) 0 until k0 o Hwe B3 shape_akc) as [x [Hf [Hi [Hk [Ek _]]]]];
    [rewrite app_length, Ha; reflexivity|unfold U64MAX; lia|exact Hu|exact Hin|].
  split; [exists x; split; assumption|]. intros x' Hf'. assert (x' = x) by congruence. subst x'.
  destruct (Hwe _ _ Hf) as (_ & _ & Hp & _). destruct Hk as [<-|[]]. rewrite key_akc_assoc in Ek.
  apply app_inj_len in Ek; [|rewrite !app_length, Hp, Ha; reflexivity]. destruct Ek as [Ek _].
  apply app_inj_len in Ek; [|congruence]. apply Ek.
Qed.

Lemma atc_entries_author s a d until : log_wfe (log s) -> AllInv (log s) (committed s) -> length a = 32%nat -> until <= U64MAX ->
  Forall (SP s (fun x => e_pk x = a)) (map snd (atc_range (committed s) a 100 d 0 until)).
Proof.
  intros Hwe Hc Ha Hu. apply Forall_forall. intros off Hin. apply in_map_iff in Hin. destruct Hin as [[k0 o] [<- Hin]]. cbn [snd].
  unfold atc_range in Hin. rewrite !key_atc_assoc in Hin. destruct Hc as (A0 & _ & _ & _ & _ & B5 & _).
  destruct (range_entry (log s) (t_i (committed s)) (t_atc (committed s)) keys_atc 215 (a ++ [100] ++ pad182 d) 0 until k0 o Hwe B5 shape_atc) as [x [Hf [Hi [Hk [Ek _]]]]];
    [rewrite !app_length, length_pad182, Ha; reflexivity|unfold U64MAX; lia|exact Hu|exact Hin|].
  split; [exists x; split; assumption|]. intros x' Hf'. assert (x' = x) by congruence. subst x'.
  destruct (Hwe _ _ Hf) as (_ & _ & Hp & _). unfold keys_atc in Hk. apply in_map_iff in Hk. destruct Hk as [[c0 v0] [Hk _]]. cbn [fst snd] in Hk.
  rewrite <- Hk, key_atc_assoc in Ek.
  apply app_inj_len in Ek; [|rewrite !app_length, !length_pad182, Hp, Ha; reflexivity]. destruct Ek as [Ek _].
  apply app_inj_len in Ek; [|congruence]. apply Ek.
Qed.

Lemma addr_parse_ok input a : addr_parse input = Ok a -> length (a_author a) = 32%nat /\ a_kind a < 65536.
Proof.
  unfold addr_parse. destruct (split_colon input) as [kb r1].
  destruct (parse_u16 kb) as [k|] eqn:Ek; [|discriminate]. destruct r1 as [r1|]; [|discriminate].
  destruct (split_colon r1) as [ab r2].
  destruct (read_hex ab 32) as [author| | |] eqn:Eh; cbn [bind]; try discriminate.
  destruct r2 as [d|]; [|discriminate]. intros [= <-]. cbn [a_author a_kind]. split.
  - unfold read_hex in Eh. destruct (N.eqb_spec (len ab) (2 * 32)) as [Hl|]; [|discriminate].
    apply read_hex_pairs_ok in Eh. destruct Eh as [_ Hlen]. unfold len in *. lia.
  - assert (G : forall l acc v, acc <= 65535 -> parse_digits l acc = Some v -> v <= 65535).
    { induction l as [|c0 l IH]; intros acc v Ha; cbn [parse_digits]; [intros [= <-]; exact Ha|].
      destruct ((48 <=? c0) && (c0 <=? 57)); [|discriminate].
      destruct (N.ltb_spec 65535 (acc * 10 + (c0 - 48))); [discriminate|]. apply IH. lia. }
    unfold parse_u16 in Ek. destruct kb as [|c0 r]; [discriminate|].
    destruct (c0 =? 43); [destruct r; [discriminate|]|]; apply G in Ek; lia.
Qed.

(* ---------- a deletion request only removes events of its own author ---------- *)
Section Request.
  Variable s : db.
  Variable ev : aevent.
  Hypothesis Hwe : log_wfe (log s).
  Hypothesis Hc : AllInv (log s) (committed s).
  Hypothesis Hid : id_inv s.
  Hypothesis Hev : e_created ev <= U64MAX.

  Let Hw : log_wf (log s) := log_wfe_wf _ Hwe.
  Let Own := fun x : aevent => e_pk x = e_pk ev.

  Lemma handle_one_tag_by txn tag txn' : TI s txn -> handle_one_tag s txn ev tag = Ok txn' -> ile_by Own (log s) txn txn'.
  Proof.
    intros Ht. unfold handle_one_tag. destruct tag as [|name [|arg rest]]; try (intros [= <-]; apply ile_by_refl).
    destruct (beq name [101]).
    - destruct (read_hex arg 32) as [id| | |]; try (intros [= <-]; apply ile_by_refl).
      destruct (get_event_by_id s id) as [target| | |] eqn:Eg; cbn [bind]; try discriminate.
      destruct target as [tg|].
      + destruct (beq (e_pk tg) (e_pk ev)) eqn:Epk; cbn [bind]; [|discriminate].
        destruct (remove_by_id s txn id) as [t1| | |] eqn:E; cbn [bind]; try discriminate.
        intros [= <-]. apply (ile_by_trans _ _ txn t1 (mark_deleted t1 id)); [|apply ile_by_same; reflexivity].
        unfold remove_by_id in E. destruct (t_get (t_i txn) id) as [off|] eqn:Et; [|injection E as <-; apply ile_by_refl].
        destruct Ht as [Hi R]. pose proof Hi as [[U Hio] _]. apply (t_get_In _ _ _ U) in Et.
        destruct (by_id_entry s id tg Hid Eg) as [offc [Hic Hfc]].
        assert (off = offc) by (eapply R; eauto). subst offc.
        eapply (remove_by_offset_by s Own); [exact U| |exact E].
        intros x Hf. assert (x = tg) by congruence. subst x. split; [apply beq_eq; exact Epk|].
        left. destruct (Hio id off Et) as [y [Hy Hyid]]. assert (y = tg) by congruence. subst y. rewrite Hyid. exact Et.
      + cbn [bind]. intros [= <-]. apply ile_by_same. reflexivity.
    - destruct (beq name [97]); [|intros [= <-]; apply ile_by_refl].
      destruct (addr_parse arg) as [a| | |] eqn:Ea; try (intros [= <-]; apply ile_by_refl).
      destruct (addr_parse_ok _ _ Ea) as [Hal Hak].
      destruct (negb (beq (a_author a) (e_pk ev))) eqn:En; [discriminate|].
      apply negb_false_iff in En. apply beq_eq in En.
      destruct (mark_naddr_deleted txn a (e_created ev)) as [t1| | |] eqn:E; cbn [bind]; try discriminate.
      destruct (mark_naddr_deleted_same _ _ _ _ E) as (E0 & E1 & E2 & E3 & E4 & E5 & E6).
      assert (Ht1 : TI s t1) by (eapply TI_same; eauto).
      assert (I1 : ile_by Own (log s) txn t1) by (apply ile_by_same; exact E0).
      destruct (is_replaceable (a_kind a)).
      { intros H. eapply ile_by_trans; [exact I1|]. unfold remove_replaceable in H. destruct (negb _); [discriminate|].
        eapply (remove_offsets_by s Hwe Own); [exact Ht1| |exact H].
        unfold Own. rewrite <- En. apply akc_entries_author; assumption. }
      destruct (is_param_replaceable (a_kind a)).
      { intros H. eapply ile_by_trans; [exact I1|]. unfold remove_param_replaceable in H. destruct (negb _); [discriminate|].
        eapply (remove_param_offsets_by s Hwe Own); [exact Ht1| |exact H].
        unfold Own. rewrite <- En. apply atc_entries_author; assumption. }
      intros [= <-]. exact I1.
  Qed.

  Lemma handle_deletion_by tags : forall txn txn', TI s txn -> handle_deletion s txn ev tags = Ok txn' -> ile_by Own (log s) txn txn'.
  Proof.
    induction tags as [|t r IH]; intros txn txn' Ht; cbn [handle_deletion]; [intros [= <-]; apply ile_by_refl|].
    destruct (handle_one_tag s txn ev t) as [t1| | |] eqn:E; cbn [bind]; try discriminate.
    intros H. eapply ile_by_trans; [eapply handle_one_tag_by; eauto|].
    eapply IH; [eapply (handle_one_tag_inv s Hw Hc); eauto|exact H].
  Qed.
End Request.

(* ---------- the theorem ---------- *)
Theorem deletion_spares_other_authors_step s ev s' off x : StoreInv s -> wf_ev ev -> e_kind ev = 5 ->
  store_event s ev = (s', Ok off) ->
  get_event_by_id s (e_id x) = Ok (Some x) -> e_pk x <> e_pk ev ->
  get_event_by_id s' (e_id x) = Ok (Some x).
Proof.
  intros ((Hl & Hw & Hi) & Hid & Hwe & _) Wev Hk Hst Hx Hpk.
  destruct (by_id_entry s _ _ Hid Hx) as [ox [Hix Hfx]].
  unfold store_event in Hst.
  destruct (pre_checks s ev) as [txn|e0| |] eqn:Ep; try discriminate.
  destruct (pre_checks_ile _ _ _ Ep) as [I0 Hnone].
  destruct (pre_checks_inv s Hw Hi ev txn Ep) as [Ht Rt].
  unfold log_append in Hst. set (o := align8 (log_end s)) in *.
  set (s1 := mkDb (committed s) ((o, ev) :: log s) (o + event_size ev) (bak s)) in *.
  rewrite Hk in Hst. change (is_ephemeral 5) with false in Hst. change (5 =? 5) with true in Hst. cbv iota in Hst.
  destruct (handle_deletion s1 (index txn ev o) ev (e_tags ev)) as [txn3|e0| |] eqn:Eh; try discriminate.
  injection Hst as <- <-.
  pose proof (align8_ge (log_end s)) as (A & B & _). fold o in A. pose proof (event_size_pos ev) as Hsz.
  assert (Hfind : forall p y, log_find (log s) p = Some y -> log_find (log s1) p = Some y).
  { intros p y Hf. subst s1. cbn [log log_find]. destruct (N.eqb_spec o p) as [Heq|_]; [|exact Hf].
    exfalso. apply log_find_In in Hf. destruct Hl as [_ Hl]. destruct (Hl _ _ Hf) as (_ & _ & Z). pose proof (event_size_pos y). lia. }
  assert (Hwe1 : log_wfe (log s1)).
  { intros p y Hf. subst s1. cbn [log log_find] in Hf. destruct (o =? p); [injection Hf as <-; exact Wev|eapply Hwe; eauto]. }
  assert (Hw1 : log_wf (log s1)) by (apply log_wfe_wf; exact Hwe1).
  assert (Hgrow : forall tb, AllInv (log s) tb -> AllInv (log s1) tb).
  { intros tb Htb. eapply AllInv_log; [|exact Htb]. intros id p Hin.
    destruct Htb as [[_ Hio] _]. destruct (Hio id p Hin) as [y [Hf _]]. rewrite Hf. apply Hfind. exact Hf. }
  assert (Hc1 : AllInv (log s1) (committed s1)) by (apply Hgrow; exact Hi).
  assert (Hid1 : id_inv s1).
  { destruct Hid as [U Hh]. split; [exact U|]. intros id p Hin. destruct (Hh id p Hin) as [Hlt [y [Hf Hy]]].
    split; [subst s1; cbn [log_end]; lia|]. exists y. split; [apply Hfind; exact Hf|exact Hy]. }
  assert (Hself : log_find (log s1) o = Some ev) by (subst s1; cbn [log log_find]; rewrite N.eqb_refl; reflexivity).
  assert (Hfresh : forall p, ~ In (e_id ev, p) (t_i txn)).
  { intros p Hin. apply (ile_In _ _ _ _ I0) in Hin. destruct Hi as [[U _] _]. apply (t_get_In _ _ _ U) in Hin. congruence. }
  assert (T2 : TI s1 (index txn ev o)).
  { split.
    - apply AllInv_index; [exact Hw1|exact Hself|exact Hfresh|apply Hgrow; exact Ht].
    - intros id p p' Hin Hcm. rewrite index_ti in Hin. apply In_t_put in Hin. destruct Hin as [[-> ->]|[Hin _]].
      + exfalso. subst s1. cbn [committed] in Hcm. destruct Hi as [[U _] _]. apply (t_get_In _ _ _ U) in Hcm. congruence.
      + eapply Rt; eauto. }
  assert (Hcr : e_created ev <= U64MAX) by (apply wf_ev_created; exact Wev).
  destruct (handle_deletion_by s1 ev Hwe1 Hc1 Hid1 Hcr (e_tags ev) _ _ T2 Eh) as [ks [Hks Hown]].
  (* x is still in the id table *)
  assert (Hne : e_id x <> e_id ev).
  { intros E. destruct Hi as [[U _] _]. apply (t_get_In _ _ _ U) in Hix. rewrite E in Hix. congruence. }
  assert (Hin2 : In (e_id x, ox) (t_i (index txn ev o))).
  { rewrite index_ti. apply In_t_put. right. split; [|exact Hne].
    (* pre_checks of a kind-5 event removes nothing *)
    assert (txn = committed s).
    { unfold pre_checks in Ep. rewrite Hk in Ep. change (is_replaceable 5) with false in Ep. change (is_param_replaceable 5) with false in Ep.
      destruct (t_get (t_i (committed s)) (e_id ev)); [discriminate|]. destruct (is_deleted _ _); [discriminate|].
      cbn [andb bind] in Ep. injection Ep as <-. reflexivity. }
    subst txn. exact Hix. }
  assert (Hin3 : In (e_id x, ox) (t_i txn3)).
  { rewrite Hks. apply In_del_all. split; [exact Hin2|]. intros Hk'.
    destruct (Hown _ _ Hk' Hin2) as [y [Hy Hyo]]. rewrite (Hfind _ _ Hfx) in Hy. injection Hy as <-. apply Hpk. exact Hyo. }
  assert (U3 : keys_unique (t_i txn3)).
  { rewrite Hks. apply keys_unique_del_all. destruct T2 as [[[U2 _] _] _]. exact U2. }
  unfold get_event_by_id. cbn [with_committed committed]. apply (t_get_In _ _ _ U3) in Hin3. rewrite Hin3.
  unfold get_event_by_offset. cbn [with_committed log log_end].
  destruct Hid as [_ Hh]. destruct (Hh _ _ Hix) as [Hlt _].
  destruct (N.leb_spec (log_end s1) ox); [subst s1; cbn [log_end] in *; lia|]. rewrite (Hfind _ _ Hfx). reflexivity.
Qed.

Theorem deletion_spares_other_authors ops names ev s' off x : ops_wfe ops -> wf_ev ev -> e_kind ev = 5 ->
  let s := c_run ops (db_init names) in
  store_event s ev = (s', Ok off) ->
  get_event_by_id s (e_id x) = Ok (Some x) -> e_pk x <> e_pk ev ->
  get_event_by_id s' (e_id x) = Ok (Some x).
Proof. intros Hops Wev Hk s. apply deletion_spares_other_authors_step; auto. apply c_run_StoreInv; [exact Hops|apply StoreInv_init]. Qed.
