(* DbIdInv.v — the id index of the CONCRETE store, over all histories:
   every entry of the id index points below the end marker at a logged event carrying exactly that id,
   and the id index holds one entry per id.  Hence, in every reachable state, a lookup by id never fails,
   returns an event with the id asked for, and that event is the one read back through the offset the
   index holds; a successfully stored event (not ephemeral, not a deletion request) is returned by id. *)
From Pocket Require Import Db DbProofs TableProofs.

(* ---------- the id table only ever loses keys, except for the one put of index ---------- *)
Definition ile (tb tb' : tables) : Prop := exists ks, t_i tb' = del_all (t_i tb) ks.

Lemma ile_refl tb : ile tb tb. Proof. exists []. reflexivity. Qed.
Lemma del_all_app t a b : del_all (del_all t a) b = del_all t (a ++ b).
Proof. unfold del_all. rewrite fold_left_app. reflexivity. Qed.
Lemma ile_trans a b c : ile a b -> ile b c -> ile a c.
Proof. intros [k1 H1] [k2 H2]. exists (k1 ++ k2). rewrite H2, H1. apply del_all_app. Qed.
Lemma ile_same tb tb' : t_i tb' = t_i tb -> ile tb tb'.
Proof. intros H. exists []. exact H. Qed.

Lemma deindex_tags_ti e lvs : forall tb,
  t_i (fold_left (fun tb (lv : N * bytes) =>
    let '(c, v) := lv in
    mkT (t_i tb) (t_ci tb)
        (t_del (t_tc tb) (key_tc c v (e_created e) (e_id e)))
        (t_ac tb) (t_akc tb)
        (t_del (t_atc tb) (key_atc (e_pk e) c v (e_created e) (e_id e)))
        (t_del (t_ktc tb) (key_ktc (e_kind e) c v (e_created e) (e_id e)))
        (t_delids tb) (t_naddr tb) (t_extra tb)) lvs tb) = t_i tb.
Proof.
  induction lvs as [|[c v] r IH]; intros tb; cbn [fold_left]; [reflexivity|]. rewrite IH. reflexivity.
Qed.
Lemma deindex_ti tb e : t_i (deindex tb e) = t_i tb.
Proof. unfold deindex. cbn [t_i]. apply deindex_tags_ti. Qed.

Lemma index_tags_ti e off lvs : forall tb,
  t_i (fold_left (fun tb (lv : N * bytes) =>
    let '(c, v) := lv in
    mkT (t_i tb) (t_ci tb)
        (t_put (t_tc tb) (key_tc c v (e_created e) (e_id e)) off)
        (t_ac tb) (t_akc tb)
        (t_put (t_atc tb) (key_atc (e_pk e) c v (e_created e) (e_id e)) off)
        (t_put (t_ktc tb) (key_ktc (e_kind e) c v (e_created e) (e_id e)) off)
        (t_delids tb) (t_naddr tb) (t_extra tb)) lvs tb) = t_i tb.
Proof.
  induction lvs as [|[c v] r IH]; intros tb; cbn [fold_left]; [reflexivity|]. rewrite IH. reflexivity.
Qed.
Lemma index_ti tb e off : t_i (index tb e off) = t_put (t_i tb) (e_id e) off.
Proof. unfold index, index_tags. rewrite index_tags_ti. reflexivity. Qed.

Lemma remove_by_offset_ile s txn off txn' : remove_by_offset s txn off = Ok txn' -> ile txn txn'.
Proof.
  unfold remove_by_offset. destruct (get_event_by_offset s off) as [e| | |]; cbn [bind]; try discriminate.
  intros [= <-]. exists [e_id e]. cbn [deindex_id t_i del_all fold_left]. rewrite deindex_ti. reflexivity.
Qed.
Lemma remove_by_id_ile s txn id txn' : remove_by_id s txn id = Ok txn' -> ile txn txn'.
Proof.
  unfold remove_by_id. destruct (t_get (t_i txn) id); [apply remove_by_offset_ile|].
  intros [= <-]. apply ile_refl.
Qed.
Lemma remove_offsets_ile s offs : forall txn txn', remove_offsets s txn offs = Ok txn' -> ile txn txn'.
Proof.
  induction offs as [|o r IH]; intros txn txn'; cbn [remove_offsets]; [intros [= <-]; apply ile_refl|].
  destruct (remove_by_offset s txn o) as [t1| | |] eqn:E; cbn [bind]; try discriminate.
  intros H. eapply ile_trans; [eapply remove_by_offset_ile; eauto|eapply IH; eauto].
Qed.
Lemma remove_param_offsets_ile s a offs : forall txn txn', remove_param_offsets s txn a offs = Ok txn' -> ile txn txn'.
Proof.
  induction offs as [|o r IH]; intros txn txn'; cbn [remove_param_offsets]; [intros [= <-]; apply ile_refl|].
  destruct (get_event_by_offset s o) as [e| | |]; cbn [bind]; try discriminate.
  destruct (same_addr a e); [|apply IH].
  destruct (remove_by_offset s txn o) as [t1| | |] eqn:E; cbn [bind]; try discriminate.
  intros H. eapply ile_trans; [eapply remove_by_offset_ile; eauto|eapply IH; eauto].
Qed.
Lemma remove_replaceable_ile s txn a k u txn' : remove_replaceable s txn a k u = Ok txn' -> ile txn txn'.
Proof. unfold remove_replaceable. destruct (negb _); [discriminate|apply remove_offsets_ile]. Qed.
Lemma remove_param_replaceable_ile s txn a u txn' : remove_param_replaceable s txn a u = Ok txn' -> ile txn txn'.
Proof. unfold remove_param_replaceable. destruct (negb _); [discriminate|apply remove_param_offsets_ile]. Qed.

Lemma mark_naddr_deleted_ti tb a w tb' : mark_naddr_deleted tb a w = Ok tb' -> t_i tb' = t_i tb.
Proof.
  unfold mark_naddr_deleted. destruct (when_naddr_deleted tb a) as [old|].
  - destruct (w <=? old); [intros [= <-]; reflexivity|].
    destruct (t_put_checked _ _ _); cbn [bind]; try discriminate. intros [= <-]. reflexivity.
  - destruct (t_put_checked _ _ _); cbn [bind]; try discriminate. intros [= <-]. reflexivity.
Qed.

Lemma handle_one_tag_ile s txn ev tag txn' : handle_one_tag s txn ev tag = Ok txn' -> ile txn txn'.
Proof.
  unfold handle_one_tag. destruct tag as [|name [|arg rest]]; try (intros [= <-]; apply ile_refl).
  destruct (beq name [101]).
  - destruct (read_hex arg 32) as [id| | |]; try (intros [= <-]; apply ile_refl).
    destruct (get_event_by_id s id) as [target| | |]; cbn [bind]; try discriminate.
    destruct target as [tg|].
    + destruct (beq (e_pk tg) (e_pk ev)); cbn [bind]; [|discriminate].
      destruct (remove_by_id s txn id) as [t1| | |] eqn:E; cbn [bind]; try discriminate.
      intros [= <-]. eapply ile_trans; [eapply remove_by_id_ile; eauto|apply ile_same; reflexivity].
    + cbn [bind]. intros [= <-]. apply ile_same. reflexivity.
  - destruct (beq name [97]); [|intros [= <-]; apply ile_refl].
    destruct (addr_parse arg) as [a| | |]; try (intros [= <-]; apply ile_refl).
    destruct (negb _); [discriminate|].
    destruct (mark_naddr_deleted txn a (e_created ev)) as [t1| | |] eqn:E; cbn [bind]; try discriminate.
    pose proof (mark_naddr_deleted_ti _ _ _ _ E) as Ht.
    destruct (is_replaceable (a_kind a)).
    { intros H. eapply ile_trans; [apply ile_same; exact Ht|eapply remove_replaceable_ile; eauto]. }
    destruct (is_param_replaceable (a_kind a)).
    { intros H. eapply ile_trans; [apply ile_same; exact Ht|eapply remove_param_replaceable_ile; eauto]. }
    intros [= <-]. apply ile_same. exact Ht.
Qed.
Lemma handle_deletion_ile s ev tags : forall txn txn', handle_deletion s txn ev tags = Ok txn' -> ile txn txn'.
Proof.
  induction tags as [|t r IH]; intros txn txn'; cbn [handle_deletion]; [intros [= <-]; apply ile_refl|].
  destruct (handle_one_tag s txn ev t) as [t1| | |] eqn:E; cbn [bind]; try discriminate.
  intros H. eapply ile_trans; [eapply handle_one_tag_ile; eauto|eapply IH; eauto].
Qed.

Lemma pre_checks_ile s e txn : pre_checks s e = Ok txn -> ile (committed s) txn /\ t_get (t_i (committed s)) (e_id e) = None.
Proof.
  unfold pre_checks. destruct (t_get (t_i (committed s)) (e_id e)) eqn:Eg; [discriminate|].
  destruct (is_deleted _ _); [discriminate|].
  destruct (_ && _); [discriminate|]. destruct (_ && _); [discriminate|].
  intros H. split; [|reflexivity]. revert H.
  destruct (is_replaceable (e_kind e)).
  - destruct (remove_replaceable s (committed s) (e_pk e) (e_kind e) (e_created e)) as [t1| | |] eqn:E1; cbn [bind]; try discriminate.
    destruct (find_replaceable s t1 (e_pk e) (e_kind e)) as [h| | |]; cbn [bind]; try discriminate.
    destruct h; cbn [bind]; [discriminate|].
    pose proof (remove_replaceable_ile _ _ _ _ _ _ E1) as I1.
    destruct (is_param_replaceable (e_kind e)); [|intros [= <-]; exact I1].
    destruct (d_of e) as [d|]; [|intros [= <-]; exact I1].
    destruct (remove_param_replaceable s t1 _ (e_created e)) as [t2| | |] eqn:E2; cbn [bind]; try discriminate.
    destruct (find_param_replaceable s t2 _) as [h| | |]; cbn [bind]; try discriminate.
    destruct h; [discriminate|]. intros [= <-].
    eapply ile_trans; [exact I1|eapply remove_param_replaceable_ile; eauto].
  - cbn [bind]. destruct (is_param_replaceable (e_kind e)); [|intros [= <-]; apply ile_refl].
    destruct (d_of e) as [d|]; [|intros [= <-]; apply ile_refl].
    destruct (remove_param_replaceable s (committed s) _ (e_created e)) as [t2| | |] eqn:E2; cbn [bind]; try discriminate.
    destruct (find_param_replaceable s t2 _) as [h| | |]; cbn [bind]; try discriminate.
    destruct h; [discriminate|]. intros [= <-]. eapply remove_param_replaceable_ile; eauto.
Qed.

(* ---------- the invariant ---------- *)
Definition id_inv (s : db) : Prop :=
  keys_unique (t_i (committed s)) /\
  forall id off, In (id, off) (t_i (committed s)) ->
    off < log_end s /\ exists e, log_find (log s) off = Some e /\ e_id e = id.

Lemma id_inv_init names : id_inv (db_init names).
Proof. split; [constructor|]. intros id off []. Qed.

Lemma ile_unique tb tb' : ile tb tb' -> keys_unique (t_i tb) -> keys_unique (t_i tb').
Proof. intros [ks ->]. apply keys_unique_del_all. Qed.
Lemma ile_In tb tb' id off : ile tb tb' -> In (id, off) (t_i tb') -> In (id, off) (t_i tb).
Proof. intros [ks ->] H. apply In_del_all in H. tauto. Qed.

(* same log, id table shrunk: the invariant is kept *)
Lemma id_inv_shrink s tb : id_inv s -> ile (committed s) tb -> id_inv (with_committed s tb).
Proof.
  intros [U H] I. split; cbn [with_committed committed log log_end].
  - eapply ile_unique; eauto.
  - intros id off Hin. apply H. eapply ile_In; eauto.
Qed.

Lemma remove_event_id_inv s id : id_inv s -> id_inv (fst (remove_event s id)).
Proof.
  intros Hi. unfold remove_event. destruct (remove_by_id s (committed s) id) as [tb| | |] eqn:E; cbn [fst]; auto.
  apply id_inv_shrink; [exact Hi|eapply remove_by_id_ile; eauto].
Qed.
Lemma remove_events_id_inv ids : forall s, id_inv s -> id_inv (fst (remove_events s ids)).
Proof.
  induction ids as [|id r IH]; intros s Hi; cbn [remove_events fst]; [exact Hi|].
  pose proof (remove_event_id_inv s id Hi) as H1.
  destruct (remove_event s id) as [s' [u|x| |]]; cbn [fst] in *; auto.
Qed.
Lemma vanish_id_inv s pk : id_inv s -> id_inv (fst (vanish s pk)).
Proof.
  intros Hi. unfold vanish.
  destruct (find_events s _ all_match 0 true 0 0) as [[evs red]|x| |]; cbn [fst]; auto.
  pose proof (remove_events_id_inv (map e_id evs) s Hi) as H1.
  destruct (remove_events s (map e_id evs)) as [s1 [u|x| |]]; cbn [fst] in *; auto.
  destruct (find_events s1 _ all_match 0 true 0 0) as [[gws red2]|x| |]; cbn [fst]; auto.
  apply remove_events_id_inv. exact H1.
Qed.

Lemma store_event_id_inv s e : log_inv s -> id_inv s -> id_inv (fst (store_event s e)).
Proof.
  intros Hl [U H]. unfold store_event.
  destruct (pre_checks s e) as [txn|x| |] eqn:Ep; cbn [fst]; try (split; assumption).
  destruct (pre_checks_ile _ _ _ Ep) as [I0 Hnone].
  unfold log_append. set (off := align8 (log_end s)).
  set (s1 := mkDb (committed s) ((off, e) :: log s) (off + event_size e) (bak s)).
  pose proof (align8_ge (log_end s)) as (A & B & _). pose proof (event_size_pos e) as Hsz.
  (* old entries stay valid in the grown log *)
  assert (Hold : forall id o, In (id, o) (t_i (committed s)) ->
            o < log_end s1 /\ exists x, log_find (log s1) o = Some x /\ e_id x = id).
  { intros id o Hin. destruct (H id o Hin) as [Hlt [x [Hf Hid]]]. subst s1. cbn [log_end log log_find]. split; [fold off; lia|].
    destruct (N.eqb_spec off o) as [Heq|_]; [fold off in A; lia|]. exists x. split; assumption. }
  set (txn2 := if is_ephemeral (e_kind e) then txn else index txn e off).
  assert (H2 : keys_unique (t_i txn2) /\ forall id o, In (id, o) (t_i txn2) ->
            o < log_end s1 /\ exists x, log_find (log s1) o = Some x /\ e_id x = id).
  { subst txn2. destruct (is_ephemeral (e_kind e)).
    - split; [eapply ile_unique; eauto|]. intros id o Hin. apply Hold. eapply ile_In; eauto.
    - rewrite index_ti. split; [apply keys_unique_put; eapply ile_unique; eauto|].
      intros id o Hin. apply In_t_put in Hin. destruct Hin as [[-> ->]|[Hin _]].
      + subst s1. cbn [log_end log log_find]. split; [lia|]. rewrite N.eqb_refl. exists e. split; reflexivity.
      + apply Hold. eapply ile_In; eauto. }
  destruct H2 as [U2 H2].
  match goal with |- context [match ?X with Ok _ => _ | Err _ => _ | Panic => _ | OutOfFuel => _ end] => destruct X as [txn3|x| |] eqn:Eh end;
    cbn [fst]; try (split; [exact U|exact Hold]).
  assert (I3 : ile txn2 txn3).
  { destruct (e_kind e =? 5); [eapply handle_deletion_ile; eauto|]. injection Eh as <-. apply ile_refl. }
  split; cbn [with_committed committed log log_end].
  - eapply ile_unique; eauto.
  - intros id o Hin. apply H2. eapply ile_In; eauto.
Qed.

Definition c_inv (s : db) : Prop := log_inv s /\ id_inv s.

Lemma c_step_inv s op : c_inv s -> c_inv (c_step s op).
Proof.
  intros [Hl Hi]. split; [apply (proj2 (c_step_log s op)); exact Hl|].
  destruct op; cbn [c_step].
  - apply store_event_id_inv; assumption.
  - apply remove_event_id_inv; assumption.
  - apply vanish_id_inv; assumption.
  - exact Hi.
  - exact Hi.
Qed.
Lemma c_run_inv ops : forall s, c_inv s -> c_inv (c_run ops s).
Proof.
  induction ops as [|op ops IH]; intros s H; cbn [c_run fold_left]; [exact H|]. apply IH. apply c_step_inv. exact H.
Qed.
Lemma c_inv_init names : c_inv (db_init names).
Proof. split; [apply db_init_log_inv|apply id_inv_init]. Qed.

(* ---------- consequences, for every reachable state ---------- *)
Theorem by_id_never_fails ops names id :
  let s := c_run ops (db_init names) in
  (get_event_by_id s id = Ok None /\ has_event s id = false) \/
  (exists e off, get_event_by_id s id = Ok (Some e) /\ e_id e = id /\ has_event s id = true /\
                 get_event_by_offset s off = Ok e /\ t_get (t_i (committed s)) id = Some off).
Proof.
  intros s. destruct (c_run_inv ops _ (c_inv_init names)) as [_ [U H]]. fold s in U, H.
  unfold get_event_by_id, has_event. destruct (t_get (t_i (committed s)) id) as [off|] eqn:Eg; [|left; split; reflexivity].
  right. apply (t_get_In _ _ _ U) in Eg. destruct (H id off Eg) as [Hlt [e [Hf Hid]]].
  assert (Ho : get_event_by_offset s off = Ok e).
  { unfold get_event_by_offset. destruct (N.leb_spec (log_end s) off); [lia|]. rewrite Hf. reflexivity. }
  exists e, off. rewrite Ho. cbn [bind]. repeat split; auto.
Qed.

Theorem stored_event_found_by_id ops names e s' off :
  let s := c_run ops (db_init names) in
  store_event s e = (s', Ok off) -> is_ephemeral (e_kind e) = false -> e_kind e <> 5 ->
  get_event_by_id s' (e_id e) = Ok (Some e) /\ has_event s' (e_id e) = true.
Proof.
  intros s Hst Hne Hk5. destruct (c_run_inv ops _ (c_inv_init names)) as [Hl [U H]]. fold s in Hl, U, H.
  pose proof (store_returns_fresh_offset s e s' off Hl Hst) as (_ & _ & Hget & _).
  unfold store_event in Hst. destruct (pre_checks s e) as [txn|x| |] eqn:Ep; try discriminate.
  destruct (pre_checks_ile _ _ _ Ep) as [I0 _].
  unfold log_append in Hst. rewrite Hne in Hst.
  replace (e_kind e =? 5) with false in Hst by (symmetry; apply N.eqb_neq; exact Hk5).
  injection Hst as <- <-.
  unfold get_event_by_id, has_event. cbn [with_committed committed]. rewrite index_ti, t_get_put_same.
  unfold get_event_by_id in *. cbn [with_committed committed] in Hget. rewrite Hget. cbn [bind]. split; reflexivity.
Qed.
