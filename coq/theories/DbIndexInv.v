(* DbIndexInv.v — the global index invariant of the CONCRETE store over all histories (C17):
   every one of the six secondary index tables (ci, ac, akc, tc, atc, ktc) is EXACTLY the image of the id index:
     - no leak: every entry (key, off) of a table belongs to an event that the id index holds at that offset,
       and the key is one of that event's keys for the table;
     - no gap: every event the id index holds has all of its keys, with its offset, in every table;
     - one entry per key.
   Proved by induction over arbitrary operation lists (stores incl. replacements and deletion requests with any
   tag lists, removals, vanish, extra-table writes, reopen), for events whose ids are 32 bytes long. *)
From Pocket Require Import Db DbProofs TableProofs DbIdInv.

(* ---------- key families; every key ends with the event id ---------- *)
Definition keys_ci (e : aevent) : list bytes := [key_ci (e_created e) (e_id e)].
Definition keys_ac (e : aevent) : list bytes := [key_ac (e_pk e) (e_created e) (e_id e)].
Definition keys_akc (e : aevent) : list bytes := [key_akc (e_pk e) (e_kind e) (e_created e) (e_id e)].

Definition ends_with_id (K : aevent -> list bytes) : Prop := forall e k, In k (K e) -> exists p, k = p ++ e_id e.

Lemma ends_ci : ends_with_id keys_ci.
Proof. intros e k [<-|[]]. unfold key_ci. eexists. reflexivity. Qed.
Lemma ends_ac : ends_with_id keys_ac.
Proof. intros e k [<-|[]]. unfold key_ac. exists (e_pk e ++ rev_time (e_created e)). rewrite <- app_assoc. reflexivity. Qed.
Lemma ends_akc : ends_with_id keys_akc.
Proof. intros e k [<-|[]]. unfold key_akc. exists (e_pk e ++ be16 (e_kind e) ++ rev_time (e_created e)). rewrite <- !app_assoc. reflexivity. Qed.
Lemma ends_tc : ends_with_id keys_tc.
Proof.
  intros e k H. unfold keys_tc in H. apply in_map_iff in H. destruct H as [[c v] [<- _]]. cbn [fst snd]. unfold key_tc.
  exists ([c] ++ pad182 v ++ rev_time (e_created e)). rewrite <- !app_assoc. reflexivity.
Qed.
Lemma ends_atc : ends_with_id keys_atc.
Proof.
  intros e k H. unfold keys_atc in H. apply in_map_iff in H. destruct H as [[c v] [<- _]]. cbn [fst snd]. unfold key_atc.
  exists (e_pk e ++ [c] ++ pad182 v ++ rev_time (e_created e)). rewrite <- !app_assoc. reflexivity.
Qed.
Lemma ends_ktc : ends_with_id keys_ktc.
Proof.
  intros e k H. unfold keys_ktc in H. apply in_map_iff in H. destruct H as [[c v] [<- _]]. cbn [fst snd]. unfold key_ktc.
  exists (be16 (e_kind e) ++ [c] ++ pad182 v ++ rev_time (e_created e)). rewrite <- !app_assoc. reflexivity.
Qed.

Definition wf_id (e : aevent) : Prop := length (e_id e) = 32%nat.

Lemma keys_separate K : ends_with_id K -> forall e e' k, wf_id e -> wf_id e' -> In k (K e) -> In k (K e') -> e_id e = e_id e'.
Proof.
  intros HK e e' k W W' H H'. destruct (HK _ _ H) as [p Hp]. destruct (HK _ _ H') as [q Hq].
  apply (app_suffix_inj p q); [unfold wf_id in *; congruence|congruence].
Qed.

(* ---------- the invariant of one secondary table w.r.t. a log and an id table ---------- *)
Definition logt := list (N * aevent).
Definition log_wf (L : logt) : Prop := forall off e, log_find L off = Some e -> wf_id e.
Definition id_ok (L : logt) (ti : table) : Prop :=
  keys_unique ti /\ forall id off, In (id, off) ti -> exists e, log_find L off = Some e /\ e_id e = id.

Definition TabInv (L : logt) (ti T : table) (K : aevent -> list bytes) : Prop :=
  keys_unique T /\
  (forall k off, In (k, off) T -> exists e, log_find L off = Some e /\ In (e_id e, off) ti /\ In k (K e)) /\
  (forall id off e, In (id, off) ti -> log_find L off = Some e -> forall k, In k (K e) -> In (k, off) T).

Lemma TabInv_empty L K : TabInv L [] [] K.
Proof. split; [constructor|]. split; [intros k off []|intros id off e []]. Qed.

(* the log grew, old offsets read the same *)
Lemma TabInv_log L L' ti T K : (forall id off, In (id, off) ti -> log_find L' off = log_find L off) ->
  TabInv L ti T K -> TabInv L' ti T K.
Proof.
  intros Hs [U [S C]]. split; [exact U|]. split.
  - intros k off Hin. destruct (S k off Hin) as [e [Hf [Hi Hk]]]. exists e. rewrite (Hs _ _ Hi). auto.
  - intros id off e Hi Hf. rewrite (Hs _ _ Hi) in Hf. eapply C; eauto.
Qed.
Lemma id_ok_log L L' ti : (forall id off, In (id, off) ti -> log_find L' off = log_find L off) -> id_ok L ti -> id_ok L' ti.
Proof. intros Hs [U H]. split; [exact U|]. intros id off Hin. rewrite (Hs _ _ Hin). apply H. exact Hin. Qed.

(* removal of the event at [off]: its keys leave the table, its id leaves the id table *)
Lemma TabInv_remove L ti T K e off : ends_with_id K -> log_wf L -> id_ok L ti ->
  log_find L off = Some e ->
  (In (e_id e, off) ti \/ forall o, ~ In (e_id e, o) ti) ->
  TabInv L ti T K -> TabInv L (t_del ti (e_id e)) (del_all T (K e)) K.
Proof.
  intros HK Hw [Ui Hid] Hf P [U [S C]]. split; [apply keys_unique_del_all; exact U|]. split.
  - intros k off' Hin. apply In_del_all in Hin. destruct Hin as [Hin Hnk].
    destruct (S k off' Hin) as [e' [Hf' [Hi' Hk']]]. exists e'. split; [exact Hf'|]. split; [|exact Hk'].
    apply In_t_del. split; [exact Hi'|]. intros Heq.
    destruct P as [P|P]; [|apply (P off'); rewrite <- Heq; exact Hi'].
    assert (off' = off).
    { rewrite Heq in Hi'. apply (t_get_In _ _ _ Ui) in Hi'. apply (t_get_In _ _ _ Ui) in P. congruence. }
    subst off'. assert (e' = e) by congruence. subst e'. contradiction.
  - intros id off' e' Hi' Hf' k Hk'. apply In_t_del in Hi'. destruct Hi' as [Hi' Hne].
    apply In_del_all. split; [eapply C; eauto|]. intros Hke.
    destruct (Hid id off' Hi') as [e2 [Hf2 Hid2]]. assert (e2 = e') by congruence. subst e2.
    apply Hne. rewrite <- Hid2. symmetry. eapply (keys_separate K HK e e' k); eauto.
Qed.
Lemma id_ok_remove L ti id : id_ok L ti -> id_ok L (t_del ti id).
Proof.
  intros [U H]. split; [apply keys_unique_del; exact U|]. intros i off Hin. apply In_t_del in Hin. apply H. tauto.
Qed.

(* indexing a logged event under a fresh id *)
Lemma TabInv_index L ti T K e off : ends_with_id K -> log_wf L -> id_ok L ti ->
  log_find L off = Some e -> (forall o, ~ In (e_id e, o) ti) ->
  TabInv L ti T K -> TabInv L (t_put ti (e_id e) off) (put_all T (K e) off) K.
Proof.
  intros HK Hw [Ui Hid] Hf Hfresh [U [S C]]. split; [apply keys_unique_put_all; exact U|]. split.
  - intros k off' Hin. apply In_put_all in Hin. destruct Hin as [[Hk ->]|[Hin Hnk]].
    + exists e. split; [exact Hf|]. split; [apply In_t_put; left; split; reflexivity|exact Hk].
    + destruct (S k off' Hin) as [e' [Hf' [Hi' Hk']]]. exists e'. split; [exact Hf'|]. split; [|exact Hk'].
      apply In_t_put. right. split; [exact Hi'|]. intros Heq. apply (Hfresh off'). rewrite <- Heq. exact Hi'.
  - intros id off' e' Hi' Hf' k Hk'. apply In_t_put in Hi'. apply In_put_all.
    destruct Hi' as [[-> ->]|[Hi' Hne]].
    + left. assert (e' = e) by congruence. subst e'. split; [exact Hk'|reflexivity].
    + right. split; [eapply C; eauto|]. intros Hke.
      destruct (Hid id off' Hi') as [e2 [Hf2 Hid2]]. assert (e2 = e') by congruence. subst e2.
      apply Hne. rewrite <- Hid2. symmetry. eapply (keys_separate K HK e e' k); eauto.
Qed.
Lemma id_ok_index L ti e off : id_ok L ti -> log_find L off = Some e -> id_ok L (t_put ti (e_id e) off).
Proof.
  intros [U H] Hf. split; [apply keys_unique_put; exact U|]. intros i o Hin. apply In_t_put in Hin.
  destruct Hin as [[-> ->]|[Hin _]]; [exists e; split; [exact Hf|reflexivity]|apply H; exact Hin].
Qed.

(* ---------- all six tables ---------- *)
Definition AllInv (L : logt) (tb : tables) : Prop :=
  id_ok L (t_i tb) /\
  TabInv L (t_i tb) (t_ci tb) keys_ci /\ TabInv L (t_i tb) (t_ac tb) keys_ac /\ TabInv L (t_i tb) (t_akc tb) keys_akc /\
  TabInv L (t_i tb) (t_tc tb) keys_tc /\ TabInv L (t_i tb) (t_atc tb) keys_atc /\ TabInv L (t_i tb) (t_ktc tb) keys_ktc.

Lemma AllInv_log L L' tb : (forall id off, In (id, off) (t_i tb) -> log_find L' off = log_find L off) -> AllInv L tb -> AllInv L' tb.
Proof.
  intros Hs (A & B1 & B2 & B3 & B4 & B5 & B6).
  refine (conj _ (conj _ (conj _ (conj _ (conj _ (conj _ _)))))); [eapply id_ok_log; eauto| | | | | |]; eapply TabInv_log; eauto.
Qed.

Lemma del_all_single t k : del_all t [k] = t_del t k. Proof. reflexivity. Qed.
Lemma put_all_single t k off : put_all t [k] off = t_put t k off. Proof. reflexivity. Qed.

Lemma AllInv_remove L tb e off : log_wf L -> log_find L off = Some e ->
  (In (e_id e, off) (t_i tb) \/ forall o, ~ In (e_id e, o) (t_i tb)) ->
  AllInv L tb -> AllInv L (deindex_id (deindex tb e) (e_id e)).
Proof.
  intros Hw Hf P (A & B1 & B2 & B3 & B4 & B5 & B6).
  destruct (deindex_tables tb e) as (D0 & D1 & D2 & D3 & D4 & D5 & D6 & _). cbv zeta in *.
  unfold AllInv, deindex_id. cbn [t_i t_ci t_ac t_akc t_tc t_atc t_ktc].
  rewrite D0, D1, D2, D3, D4, D5, D6. rewrite <- !del_all_single.
  refine (conj _ (conj _ (conj _ (conj _ (conj _ (conj _ _)))))).
  - apply id_ok_remove. exact A.
  - apply (TabInv_remove L _ _ keys_ci e off ends_ci Hw A Hf P B1).
  - apply (TabInv_remove L _ _ keys_ac e off ends_ac Hw A Hf P B2).
  - apply (TabInv_remove L _ _ keys_akc e off ends_akc Hw A Hf P B3).
  - apply (TabInv_remove L _ _ keys_tc e off ends_tc Hw A Hf P B4).
  - apply (TabInv_remove L _ _ keys_atc e off ends_atc Hw A Hf P B5).
  - apply (TabInv_remove L _ _ keys_ktc e off ends_ktc Hw A Hf P B6).
Qed.

Lemma AllInv_index L tb e off : log_wf L -> log_find L off = Some e -> (forall o, ~ In (e_id e, o) (t_i tb)) ->
  AllInv L tb -> AllInv L (index tb e off).
Proof.
  intros Hw Hf Hfresh (A & B1 & B2 & B3 & B4 & B5 & B6).
  destruct (index_tables tb e off) as (D0 & D1 & D2 & D3 & D4 & D5 & D6 & _). cbv zeta in *.
  unfold AllInv. rewrite D0, D1, D2, D3, D4, D5, D6. rewrite <- !put_all_single.
  refine (conj _ (conj _ (conj _ (conj _ (conj _ (conj _ _)))))).
  - apply id_ok_index; assumption.
  - apply (TabInv_index L _ _ keys_ci e off ends_ci Hw A Hf Hfresh B1).
  - apply (TabInv_index L _ _ keys_ac e off ends_ac Hw A Hf Hfresh B2).
  - apply (TabInv_index L _ _ keys_akc e off ends_akc Hw A Hf Hfresh B3).
  - apply (TabInv_index L _ _ keys_tc e off ends_tc Hw A Hf Hfresh B4).
  - apply (TabInv_index L _ _ keys_atc e off ends_atc Hw A Hf Hfresh B5).
  - apply (TabInv_index L _ _ keys_ktc e off ends_ktc Hw A Hf Hfresh B6).
Qed.

(* tables that differ only outside the seven index tables *)
Lemma AllInv_same L tb tb' :
  t_i tb' = t_i tb -> t_ci tb' = t_ci tb -> t_ac tb' = t_ac tb -> t_akc tb' = t_akc tb ->
  t_tc tb' = t_tc tb -> t_atc tb' = t_atc tb -> t_ktc tb' = t_ktc tb -> AllInv L tb -> AllInv L tb'.
Proof. intros E0 E1 E2 E3 E4 E5 E6. unfold AllInv. rewrite E0, E1, E2, E3, E4, E5, E6. auto. Qed.

(* ---------- a transaction never re-maps an id the committed state holds ---------- *)
Definition rel (c txn : tables) : Prop :=
  forall id off off', In (id, off) (t_i txn) -> In (id, off') (t_i c) -> off = off'.

Lemma rel_refl c : keys_unique (t_i c) -> rel c c.
Proof. intros U id off off' H H'. apply (t_get_In _ _ _ U) in H. apply (t_get_In _ _ _ U) in H'. congruence. Qed.
Lemma rel_ile c txn txn' : rel c txn -> ile txn txn' -> rel c txn'.
Proof. intros R I id off off' H H'. eapply R; [eapply ile_In; eauto|exact H']. Qed.

(* the offsets a scan of the COMMITTED tables yields denote events the committed id index holds there *)
Definition snap_ok (L : logt) (c : tables) (off : N) : Prop :=
  exists e, log_find L off = Some e /\ In (e_id e, off) (t_i c).

Lemma snapshot_P L c txn off e : rel c txn -> keys_unique (t_i txn) -> snap_ok L c off -> log_find L off = Some e ->
  In (e_id e, off) (t_i txn) \/ forall o, ~ In (e_id e, o) (t_i txn).
Proof.
  intros R U [e' [Hf' Hc]] Hf. assert (e' = e) by congruence. subst e'.
  destruct (t_get (t_i txn) (e_id e)) as [o|] eqn:Eg.
  - apply (t_get_In _ _ _ U) in Eg. left. rewrite (R _ _ _ Eg Hc) in Eg. exact Eg.
  - right. intros o Hin. apply (t_get_In _ _ _ U) in Hin. congruence.
Qed.

Section Txn.
  Variable s : db.
  Let L := log s.
  Hypothesis Hw : log_wf L.
  (* offsets at or beyond the end marker are never found: get_event_by_offset refuses them *)

  Lemma gebo_find off e : get_event_by_offset s off = Ok e -> log_find L off = Some e.
  Proof.
    unfold get_event_by_offset. destruct (log_end s <=? off); [discriminate|].
    subst L. destruct (log_find (log s) off); [intros [= ->]; reflexivity|discriminate].
  Qed.

  Lemma remove_by_offset_inv txn off txn' :
    (forall e, log_find L off = Some e -> In (e_id e, off) (t_i txn) \/ forall o, ~ In (e_id e, o) (t_i txn)) ->
    AllInv L txn -> remove_by_offset s txn off = Ok txn' -> AllInv L txn'.
  Proof.
    intros P Hi. unfold remove_by_offset. destruct (get_event_by_offset s off) as [e| | |] eqn:Eo; cbn [bind]; try discriminate.
    intros [= <-]. apply gebo_find in Eo. apply (AllInv_remove L txn e off Hw Eo (P e Eo) Hi).
  Qed.

  Lemma remove_by_id_inv txn id txn' : AllInv L txn -> remove_by_id s txn id = Ok txn' -> AllInv L txn'.
  Proof.
    intros Hi. unfold remove_by_id. destruct (t_get (t_i txn) id) as [off|] eqn:Eg; [|intros [= <-]; exact Hi].
    apply remove_by_offset_inv; [|exact Hi].
    intros e Hf. left. destruct Hi as [[U Hid] _]. apply (t_get_In _ _ _ U) in Eg.
    destruct (Hid id off Eg) as [e' [Hf' <-]]. assert (e' = e) by congruence. subst e'. exact Eg.
  Qed.

  Variable c : tables.   (* the committed tables the snapshot scans read *)

  Lemma remove_offsets_inv offs : forall txn txn', Forall (snap_ok L c) offs -> rel c txn ->
    AllInv L txn -> remove_offsets s txn offs = Ok txn' -> AllInv L txn'.
  Proof.
    induction offs as [|o r IH]; intros txn txn' Hs R Hi; cbn [remove_offsets]; [intros [= <-]; exact Hi|].
    inversion Hs as [|? ? Ho Hr]; subst.
    destruct (remove_by_offset s txn o) as [t1| | |] eqn:E; cbn [bind]; try discriminate.
    intros H. eapply (IH t1); [exact Hr|eapply rel_ile; [exact R|eapply remove_by_offset_ile; eauto]| |exact H].
    eapply remove_by_offset_inv; [|exact Hi|exact E].
    intros e Hf. eapply snapshot_P; eauto. destruct Hi as [[U _] _]. exact U.
  Qed.

  Lemma remove_param_offsets_inv a offs : forall txn txn', Forall (snap_ok L c) offs -> rel c txn ->
    AllInv L txn -> remove_param_offsets s txn a offs = Ok txn' -> AllInv L txn'.
  Proof.
    induction offs as [|o r IH]; intros txn txn' Hs R Hi; cbn [remove_param_offsets]; [intros [= <-]; exact Hi|].
    inversion Hs as [|? ? Ho Hr]; subst.
    destruct (get_event_by_offset s o) as [e| | |]; cbn [bind]; try discriminate.
    destruct (same_addr a e); [|apply IH; assumption].
    destruct (remove_by_offset s txn o) as [t1| | |] eqn:E; cbn [bind]; try discriminate.
    intros H. eapply (IH t1); [exact Hr|eapply rel_ile; [exact R|eapply remove_by_offset_ile; eauto]| |exact H].
    eapply remove_by_offset_inv; [|exact Hi|exact E].
    intros e' Hf. eapply snapshot_P; eauto. destruct Hi as [[U _] _]. exact U.
  Qed.
End Txn.

(* range scans of a table that satisfies TabInv yield snapshot-ok offsets *)
Lemma range_snap L c T K lo hi : TabInv L (t_i c) T K -> Forall (snap_ok L c) (map snd (t_range T lo hi)).
Proof.
  intros [_ [S _]]. apply Forall_forall. intros off Hin. apply in_map_iff in Hin. destruct Hin as [[k o] [<- Hin]].
  apply t_range_spec in Hin. destruct Hin as [Hin _]. destruct (S k o Hin) as [e [Hf [Hi _]]]. exists e. split; assumption.
Qed.

(* ---------- the operations of one write transaction ---------- *)
Lemma log_find_In L off e : log_find L off = Some e -> In (off, e) L.
Proof.
  induction L as [|[o x] r IH]; cbn [log_find]; [discriminate|].
  destruct (N.eqb_spec o off) as [->|_]; [intros [= ->]; left; reflexivity|intros H; right; apply IH; exact H].
Qed.

Lemma mark_naddr_deleted_same tb a w tb' : mark_naddr_deleted tb a w = Ok tb' ->
  t_i tb' = t_i tb /\ t_ci tb' = t_ci tb /\ t_ac tb' = t_ac tb /\ t_akc tb' = t_akc tb /\
  t_tc tb' = t_tc tb /\ t_atc tb' = t_atc tb /\ t_ktc tb' = t_ktc tb.
Proof.
  unfold mark_naddr_deleted. destruct (when_naddr_deleted tb a) as [old|].
  - destruct (w <=? old); [intros [= <-]; repeat split|].
    destruct (t_put_checked _ _ _); cbn [bind]; try discriminate. intros [= <-]. repeat split.
  - destruct (t_put_checked _ _ _); cbn [bind]; try discriminate. intros [= <-]. repeat split.
Qed.

Section Txn2.
  Variable s : db.
  Let L := log s.
  Let c := committed s.
  Hypothesis Hw : log_wf L.
  Hypothesis Hc : AllInv L c.

  Definition TI (txn : tables) : Prop := AllInv L txn /\ rel c txn.

  Lemma remove_replaceable_inv txn a k u txn' : TI txn -> remove_replaceable s txn a k u = Ok txn' -> TI txn'.
  Proof.
    intros [Hi R] H. split; [|eapply rel_ile; [exact R|eapply remove_replaceable_ile; eauto]].
    unfold remove_replaceable in H. destruct (negb _); [discriminate|].
    eapply (remove_offsets_inv s Hw c); [|exact R|exact Hi|exact H].
    unfold akc_range. destruct Hc as (_ & _ & _ & B3 & _). eapply range_snap. exact B3.
  Qed.
  Lemma remove_param_replaceable_inv txn a u txn' : TI txn -> remove_param_replaceable s txn a u = Ok txn' -> TI txn'.
  Proof.
    intros [Hi R] H. split; [|eapply rel_ile; [exact R|eapply remove_param_replaceable_ile; eauto]].
    unfold remove_param_replaceable in H. destruct (negb _); [discriminate|].
    eapply (remove_param_offsets_inv s Hw c); [|exact R|exact Hi|exact H].
    unfold atc_range. destruct Hc as (_ & _ & _ & _ & _ & B5 & _). eapply range_snap. exact B5.
  Qed.
  Lemma remove_by_id_TI txn id txn' : TI txn -> remove_by_id s txn id = Ok txn' -> TI txn'.
  Proof.
    intros [Hi R] H. split; [eapply (remove_by_id_inv s Hw); eauto|eapply rel_ile; [exact R|eapply remove_by_id_ile; eauto]].
  Qed.
  Lemma TI_same txn txn' :
    t_i txn' = t_i txn -> t_ci txn' = t_ci txn -> t_ac txn' = t_ac txn -> t_akc txn' = t_akc txn ->
    t_tc txn' = t_tc txn -> t_atc txn' = t_atc txn -> t_ktc txn' = t_ktc txn -> TI txn -> TI txn'.
  Proof.
    intros E0 E1 E2 E3 E4 E5 E6 [Hi R]. split; [eapply AllInv_same; eauto|].
    intros id off off' H H'. rewrite E0 in H. eapply R; eauto.
  Qed.

  Lemma handle_one_tag_inv txn ev tag txn' : TI txn -> handle_one_tag s txn ev tag = Ok txn' -> TI txn'.
  Proof.
    intros Ht. unfold handle_one_tag. destruct tag as [|name [|arg rest]]; try (intros [= <-]; exact Ht).
    destruct (beq name [101]).
    - destruct (read_hex arg 32) as [id| | |]; try (intros [= <-]; exact Ht).
      destruct (get_event_by_id s id) as [target| | |]; cbn [bind]; try discriminate.
      destruct target as [tg|].
      + destruct (beq (e_pk tg) (e_pk ev)); cbn [bind]; [|discriminate].
        destruct (remove_by_id s txn id) as [t1| | |] eqn:E; cbn [bind]; try discriminate.
        intros [= <-]. eapply TI_same; [..|eapply remove_by_id_TI; eauto]; reflexivity.
      + cbn [bind]. intros [= <-]. eapply TI_same; [..|exact Ht]; reflexivity.
    - destruct (beq name [97]); [|intros [= <-]; exact Ht].
      destruct (addr_parse arg) as [a| | |]; try (intros [= <-]; exact Ht).
      destruct (negb _); [discriminate|].
      destruct (mark_naddr_deleted txn a (e_created ev)) as [t1| | |] eqn:E; cbn [bind]; try discriminate.
      destruct (mark_naddr_deleted_same _ _ _ _ E) as (E0 & E1 & E2 & E3 & E4 & E5 & E6).
      assert (Ht1 : TI t1) by (eapply TI_same; eauto).
      destruct (is_replaceable (a_kind a)); [apply remove_replaceable_inv; exact Ht1|].
      destruct (is_param_replaceable (a_kind a)); [apply remove_param_replaceable_inv; exact Ht1|].
      intros [= <-]. exact Ht1.
  Qed.
  Lemma handle_deletion_inv ev tags : forall txn txn', TI txn -> handle_deletion s txn ev tags = Ok txn' -> TI txn'.
  Proof.
    induction tags as [|t r IH]; intros txn txn' Ht; cbn [handle_deletion]; [intros [= <-]; exact Ht|].
    destruct (handle_one_tag s txn ev t) as [t1| | |] eqn:E; cbn [bind]; try discriminate.
    apply IH. eapply handle_one_tag_inv; eauto.
  Qed.

  Lemma pre_checks_inv e txn : pre_checks s e = Ok txn -> TI txn.
  Proof.
    assert (T0 : TI c). { split; [exact Hc|apply rel_refl; destruct Hc as [[U _] _]; exact U]. }
    unfold pre_checks. fold c. destruct (t_get (t_i c) (e_id e)); [discriminate|].
    destruct (is_deleted _ _); [discriminate|].
    destruct (_ && _); [discriminate|]. destruct (_ && _); [discriminate|].
    destruct (is_replaceable (e_kind e)).
    - destruct (remove_replaceable s c (e_pk e) (e_kind e) (e_created e)) as [t1| | |] eqn:E1; cbn [bind]; try discriminate.
      destruct (find_replaceable s t1 (e_pk e) (e_kind e)) as [h| | |]; cbn [bind]; try discriminate.
      destruct h; cbn [bind]; [discriminate|].
      pose proof (remove_replaceable_inv _ _ _ _ _ T0 E1) as T1.
      destruct (is_param_replaceable (e_kind e)); [|intros [= <-]; exact T1].
      destruct (d_of e) as [d|]; [|intros [= <-]; exact T1].
      destruct (remove_param_replaceable s t1 _ (e_created e)) as [t2| | |] eqn:E2; cbn [bind]; try discriminate.
      destruct (find_param_replaceable s t2 _) as [h| | |]; cbn [bind]; try discriminate.
      destruct h; [discriminate|]. intros [= <-]. eapply remove_param_replaceable_inv; eauto.
    - cbn [bind]. destruct (is_param_replaceable (e_kind e)); [|intros [= <-]; exact T0].
      destruct (d_of e) as [d|]; [|intros [= <-]; exact T0].
      destruct (remove_param_replaceable s c _ (e_created e)) as [t2| | |] eqn:E2; cbn [bind]; try discriminate.
      destruct (find_param_replaceable s t2 _) as [h| | |]; cbn [bind]; try discriminate.
      destruct h; [discriminate|]. intros [= <-]. eapply remove_param_replaceable_inv; eauto.
  Qed.
End Txn2.

(* ---------- the state invariant and its preservation ---------- *)
Definition SInv (s : db) : Prop := log_inv s /\ log_wf (log s) /\ AllInv (log s) (committed s).

Lemma SInv_init names : SInv (db_init names).
Proof.
  split; [apply db_init_log_inv|]. split; [intros off e H; discriminate H|].
  unfold AllInv, db_init, empty_tables. cbn [committed log t_i t_ci t_ac t_akc t_tc t_atc t_ktc].
  refine (conj _ (conj _ (conj _ (conj _ (conj _ (conj _ _)))))); try apply TabInv_empty.
  split; [constructor|intros id off []].
Qed.

Lemma remove_event_SInv s id : SInv s -> SInv (fst (remove_event s id)).
Proof.
  intros (Hl & Hw & Hi). unfold remove_event.
  destruct (remove_by_id s (committed s) id) as [tb| | |] eqn:E; cbn [fst]; try exact (conj Hl (conj Hw Hi)).
  split; [exact Hl|]. split; [exact Hw|]. cbn [with_committed committed log].
  eapply (remove_by_id_inv s Hw); eauto.
Qed.
Lemma remove_events_SInv ids : forall s, SInv s -> SInv (fst (remove_events s ids)).
Proof.
  induction ids as [|id r IH]; intros s Hi; cbn [remove_events fst]; [exact Hi|].
  pose proof (remove_event_SInv s id Hi) as H1.
  destruct (remove_event s id) as [s' [u|x| |]]; cbn [fst] in *; auto.
Qed.
Lemma vanish_SInv s pk : SInv s -> SInv (fst (vanish s pk)).
Proof.
  intros Hi. unfold vanish.
  destruct (find_events s _ all_match 0 true 0 0) as [[evs red]|x| |]; cbn [fst]; auto.
  pose proof (remove_events_SInv (map e_id evs) s Hi) as H1.
  destruct (remove_events s (map e_id evs)) as [s1 [u|x| |]]; cbn [fst] in *; auto.
  destruct (find_events s1 _ all_match 0 true 0 0) as [[gws red2]|x| |]; cbn [fst]; auto.
  apply remove_events_SInv. exact H1.
Qed.

Lemma store_event_SInv s e : wf_id e -> SInv s -> SInv (fst (store_event s e)).
Proof.
  intros We (Hl & Hw & Hi).
  pose proof (proj2 (store_event_log s e) Hl) as Hl'.
  split; [exact Hl'|]. clear Hl'.
  unfold store_event.
  destruct (pre_checks s e) as [txn|x| |] eqn:Ep; cbn [fst]; try (split; assumption).
  destruct (pre_checks_inv s Hw Hi e txn Ep) as [Ht Rt].
  destruct (pre_checks_ile _ _ _ Ep) as [I0 Hnone].
  unfold log_append. set (off := align8 (log_end s)).
  set (s1 := mkDb (committed s) ((off, e) :: log s) (off + event_size e) (bak s)).
  pose proof (align8_ge (log_end s)) as (A & B & _). pose proof (event_size_pos e) as Hsz.
  (* the grown log *)
  assert (Hfind : forall o x, log_find (log s) o = Some x -> log_find (log s1) o = Some x).
  { intros o x Hf. subst s1. cbn [log log_find]. destruct (N.eqb_spec off o) as [Heq|_]; [|exact Hf].
    exfalso. apply log_find_In in Hf. destruct Hl as [_ Hl]. destruct (Hl _ _ Hf) as (_ & _ & Z).
    pose proof (event_size_pos x). fold off in A. lia. }
  assert (Hw1 : log_wf (log s1)).
  { intros o x Hf. subst s1. cbn [log log_find] in Hf. destruct (off =? o); [injection Hf as <-; exact We|eapply Hw; eauto]. }
  assert (Hgrow : forall tb, AllInv (log s) tb -> AllInv (log s1) tb).
  { intros tb Htb. eapply AllInv_log; [|exact Htb]. intros id o Hin.
    destruct Htb as [[_ Hid] _]. destruct (Hid id o Hin) as [x [Hf _]]. rewrite Hf. apply Hfind. exact Hf. }
  assert (Hself : log_find (log s1) off = Some e).
  { subst s1. cbn [log log_find]. rewrite N.eqb_refl. reflexivity. }
  assert (Hfresh : forall o, ~ In (e_id e, o) (t_i txn)).
  { intros o Hin. apply (ile_In _ _ _ _ I0) in Hin. destruct Hi as [[U _] _]. apply (t_get_In _ _ _ U) in Hin. congruence. }
  set (txn2 := if is_ephemeral (e_kind e) then txn else index txn e off).
  assert (T2 : AllInv (log s1) txn2 /\ rel (committed s1) txn2).
  { subst txn2. destruct (is_ephemeral (e_kind e)); [split; [apply Hgrow; exact Ht|exact Rt]|]. split.
    - apply AllInv_index; [exact Hw1|exact Hself|exact Hfresh|apply Hgrow; exact Ht].
    - intros id o o' Hin Hc. rewrite index_ti in Hin. apply In_t_put in Hin. destruct Hin as [[-> ->]|[Hin _]].
      + exfalso. subst s1. cbn [committed] in Hc. destruct Hi as [[U _] _]. apply (t_get_In _ _ _ U) in Hc. congruence.
      + eapply Rt; eauto. }
  match goal with |- context [match ?X with Ok _ => _ | Err _ => _ | Panic => _ | OutOfFuel => _ end] => destruct X as [txn3|x| |] eqn:Eh end;
    cbn [fst]; try (split; [exact Hw1|apply Hgrow; exact Hi]).
  split; [exact Hw1|]. cbn [with_committed committed log].
  destruct (e_kind e =? 5); [|injection Eh as <-; exact (proj1 T2)].
  assert (Hc1 : AllInv (log s1) (committed s1)) by (apply Hgrow; exact Hi).
  exact (proj1 (handle_deletion_inv s1 Hw1 Hc1 e (e_tags e) txn2 txn3 T2 Eh)).
Qed.

Definition ops_wf (ops : list cop) : Prop :=
  Forall (fun op => match op with CStore e => wf_id e | _ => True end) ops.

Lemma c_step_SInv s op : (match op with CStore e => wf_id e | _ => True end) -> SInv s -> SInv (c_step s op).
Proof.
  intros Wop Hs. destruct op; cbn [c_step].
  - apply store_event_SInv; assumption.
  - apply remove_event_SInv; assumption.
  - apply vanish_SInv; assumption.
  - destruct Hs as (Hl & Hw & Hi). split; [exact Hl|]. split; [exact Hw|]. unfold db_extra_put. cbn [with_committed committed log].
    eapply AllInv_same; [..|exact Hi]; reflexivity.
  - exact Hs.
Qed.
Lemma c_run_SInv ops : forall s, ops_wf ops -> SInv s -> SInv (c_run ops s).
Proof.
  induction ops as [|op ops IH]; intros s Hw Hs; cbn [c_run fold_left]; [exact Hs|].
  inversion Hw as [|? ? Hop Hr]; subst. apply IH; [exact Hr|]. apply c_step_SInv; assumption.
Qed.

(* ---------- the theorem: in every reachable state every index is exactly the image of the id index ---------- *)
Theorem indexes_are_image_of_id_index ops names :
  ops_wf ops -> let s := c_run ops (db_init names) in
  let tb := committed s in
  forall T K, In (T, K) [(t_ci tb, keys_ci); (t_ac tb, keys_ac); (t_akc tb, keys_akc);
                         (t_tc tb, keys_tc); (t_atc tb, keys_atc); (t_ktc tb, keys_ktc)] ->
  keys_unique T /\
  (forall k off, In (k, off) T ->
     exists e, get_event_by_id s (e_id e) = Ok (Some e) /\ t_get (t_i tb) (e_id e) = Some off /\ In k (K e)) /\
  (forall e, get_event_by_id s (e_id e) = Ok (Some e) ->
     exists off, t_get (t_i tb) (e_id e) = Some off /\ forall k, In k (K e) -> In (k, off) T).
Proof.
  intros Hops s tb T K HT.
  destruct (c_run_SInv ops _ Hops (SInv_init names)) as (Hl & Hw & Hi). fold s in Hl, Hw, Hi. fold tb in Hi.
  destruct (c_run_inv ops _ (c_inv_init names)) as [_ [Uid Hidinv]]. fold s in Uid, Hidinv. fold tb in Uid, Hidinv.
  assert (HTK : TabInv (log s) (t_i tb) T K).
  { destruct Hi as (_ & B1 & B2 & B3 & B4 & B5 & B6).
    cbn [In] in HT. destruct HT as [H|[H|[H|[H|[H|[H|[]]]]]]]; injection H as <- <-; assumption. }
  destruct HTK as [U [S C]]. split; [exact U|]. split.
  - intros k off Hin. destruct (S k off Hin) as [e [Hf [Hie Hk]]]. exists e.
    assert (Hg : t_get (t_i tb) (e_id e) = Some off) by (apply (t_get_In _ _ _ Uid); exact Hie).
    split; [|split; [exact Hg|exact Hk]].
    unfold get_event_by_id. fold tb. rewrite Hg. unfold get_event_by_offset.
    destruct (Hidinv _ _ Hie) as [Hlt _]. destruct (N.leb_spec (log_end s) off); [lia|]. rewrite Hf. reflexivity.
  - intros e Hg. unfold get_event_by_id in Hg. fold tb in Hg.
    destruct (t_get (t_i tb) (e_id e)) as [off|] eqn:Eg; [|discriminate].
    exists off. split; [reflexivity|]. intros k Hk.
    destruct (get_event_by_offset s off) as [e'| | |] eqn:Eo; cbn [bind] in Hg; try discriminate.
    injection Hg as ->. apply (t_get_In _ _ _ Uid) in Eg.
    eapply C; [exact Eg| |exact Hk].
    unfold get_event_by_offset in Eo. destruct (log_end s <=? off); [discriminate|].
    destruct (log_find (log s) off); [injection Eo as ->; reflexivity|discriminate].
Qed.

(* ---------- index accounting: the single-key tables have exactly one entry per retrievable event ---------- *)
From Coq Require Import Permutation.

Lemma single_key_count L ti T K : id_ok L ti -> TabInv L ti T K -> (forall e, exists k, K e = [k]) -> len T = len ti.
Proof.
  intros [Ui Hid] [U [S C]] HK.
  assert (N1 : NoDup (map snd ti)).
  { clear -Ui Hid. induction ti as [|[id off] r IH]; cbn [map]; [constructor|].
    inversion Ui as [|? ? Hn Hr]; subst. constructor.
    - intros Hin. apply in_map_iff in Hin. destruct Hin as [[id' off'] [Heq Hin]]. cbn [snd] in Heq. subst off'.
      destruct (Hid id off (or_introl eq_refl)) as [e [Hf He]].
      destruct (Hid id' off (or_intror Hin)) as [e' [Hf' He']].
      assert (e = e') by congruence. subst e'. apply Hn. cbn [fst]. rewrite <- He, He'. apply in_map_iff. exists (id', off). split; [reflexivity|exact Hin].
    - apply IH; [exact Hr|]. intros i o Hin. apply Hid. right. exact Hin. }
  assert (N2 : NoDup (map snd T)).
  { assert (G : forall l, (forall k off, In (k, off) l -> In (k, off) T) -> NoDup (map fst l) -> NoDup (map snd l)).
    { induction l as [|[k off] r IH]; intros Hsub Hu; cbn [map]; [constructor|].
      inversion Hu as [|? ? Hn Hr]; subst. constructor; [|apply IH; [intros; apply Hsub; right; assumption|exact Hr]].
      intros Hin. apply in_map_iff in Hin. destruct Hin as [[k' off'] [Heq Hin]]. cbn [snd] in Heq. subst off'.
      destruct (S k off (Hsub _ _ (or_introl eq_refl))) as [e [Hf [_ Hk]]].
      destruct (S k' off (Hsub _ _ (or_intror Hin))) as [e' [Hf' [_ Hk']]].
      assert (e = e') by congruence. subst e'. destruct (HK e) as [k0 Hk0]. rewrite Hk0 in Hk, Hk'.
      destruct Hk as [<-|[]]. destruct Hk' as [<-|[]]. apply Hn. cbn [fst]. apply in_map_iff. exists (k0, off). split; [reflexivity|exact Hin]. }
    apply G; [auto|exact U]. }
  assert (P : Permutation (map snd T) (map snd ti)).
  { apply NoDup_Permutation; [exact N2|exact N1|]. intros off. split; intros Hin; apply in_map_iff in Hin.
    - destruct Hin as [[k o] [Heq Hin]]. cbn [snd] in Heq. subst o. destruct (S k off Hin) as [e [_ [Hie _]]].
      apply in_map_iff. exists (e_id e, off). split; [reflexivity|exact Hie].
    - destruct Hin as [[id o] [Heq Hin]]. cbn [snd] in Heq. subst o. destruct (Hid id off Hin) as [e [Hf _]].
      destruct (HK e) as [k0 Hk0]. apply in_map_iff. exists (k0, off). split; [reflexivity|].
      eapply C; [exact Hin|exact Hf|rewrite Hk0; left; reflexivity]. }
  apply Permutation_length in P. rewrite !map_length in P. unfold len. lia.
Qed.

Theorem index_counts_agree ops names :
  ops_wf ops -> let tb := committed (c_run ops (db_init names)) in
  len (t_ci tb) = len (t_i tb) /\ len (t_ac tb) = len (t_i tb) /\ len (t_akc tb) = len (t_i tb).
Proof.
  intros Hops tb. destruct (c_run_SInv ops _ Hops (SInv_init names)) as (_ & _ & Hi). fold tb in Hi.
  destruct Hi as (A & B1 & B2 & B3 & _).
  repeat split; eapply single_key_count; eauto; intros e; eexists; reflexivity.
Qed.
