(* DbNaddr.v — address deletion markers survive rebuild (C16), on the concrete store:
   every key of the deleted-address table is the encoding of a well-formed address (over all histories);
   decode_naddr inverts key_naddr on well-formed addresses - also for identifiers longer than 182 bytes, which the
   key holds whole; hence a successful rebuild reports, for every well-formed address, exactly the deletion time
   the store reported before. *)
From Pocket Require Import Db DbProofs TableProofs HexProofs DbIdInv DbIndexInv DbRebuild DbDeletion DbForeign.
From Coq Require Import Permutation.

Definition wf_addr (a : addr) : Prop := length (a_author a) = 32%nat /\ a_kind a < 65536 /\ wf_bytes (a_author a).

(* ---------- decode_naddr inverts key_naddr ---------- *)
Lemma rdbe16_be16 k r : k < 65536 -> rdbe16 (be16 k ++ r) = Some k.
Proof. intros H. unfold be16, rdbe16. cbn [app]. f_equal. lia. Qed.

Lemma decode_key_naddr a : wf_addr a -> decode_naddr (key_naddr a) = a.
Proof.
  intros (La & Hk & _). destruct a as [k au d]. cbn [a_author a_kind a_d] in *. unfold decode_naddr, key_naddr. cbn [a_author a_kind a_d].
  set (dlen := N.min (len d) 182).
  rewrite (rdbe16_be16 k _ Hk).
  assert (Lau : len au = 32) by (unfold len; rewrite La; reflexivity).
  (* author *)
  assert (Hau : take 32 (drop 2 (be16 k ++ au ++ [dlen] ++ d ++ repeat 0 (N.to_nat (PADLEN - dlen)))) = au).
  { change 2 with (len (be16 k)). rewrite drop_app_len. rewrite <- Lau. apply take_app_len. }
  rewrite Hau.
  (* dlen byte *)
  assert (Hn : nth 34 (be16 k ++ au ++ [dlen] ++ d ++ repeat 0 (N.to_nat (PADLEN - dlen))) 0 = dlen).
  { replace (be16 k ++ au ++ [dlen] ++ d ++ repeat 0 (N.to_nat (PADLEN - dlen))) with ((be16 k ++ au) ++ dlen :: (d ++ repeat 0 (N.to_nat (PADLEN - dlen))))
      by (rewrite <- app_assoc; reflexivity).
    rewrite app_nth2; [|rewrite app_length, La; cbn [length be16]; lia].
    rewrite app_length, La. cbn [length be16]. reflexivity. }
  rewrite Hn.
  (* d *)
  assert (Hd35 : drop 35 (be16 k ++ au ++ [dlen] ++ d ++ repeat 0 (N.to_nat (PADLEN - dlen))) = d ++ repeat 0 (N.to_nat (PADLEN - dlen))).
  { replace (be16 k ++ au ++ [dlen] ++ d ++ repeat 0 (N.to_nat (PADLEN - dlen))) with ((be16 k ++ au ++ [dlen]) ++ (d ++ repeat 0 (N.to_nat (PADLEN - dlen))))
      by (rewrite <- !app_assoc; reflexivity).
    replace 35 with (len (be16 k ++ au ++ [dlen])) by (rewrite !len_app, Lau; reflexivity). apply drop_app_len. }
  rewrite Hd35.
  assert (Hlen : len (be16 k ++ au ++ [dlen] ++ d ++ repeat 0 (N.to_nat (PADLEN - dlen))) = 35 + len d + (PADLEN - dlen)).
  { rewrite !len_app, Lau, len_repeat. change (len (be16 k)) with 2. change (len [dlen]) with 1. rewrite N2Nat.id. lia. }
  rewrite Hlen. unfold PADLEN in *. subst dlen.
  destruct (N.ltb_spec 217 (35 + len d + (182 - N.min (len d) 182))) as [Hlong|Hshort].
  - (* longer than 182: the key holds d whole, no padding *)
    assert (len d > 182) by lia. replace (182 - N.min (len d) 182) with 0 by lia. cbn [N.to_nat repeat]. rewrite app_nil_r. reflexivity.
  - assert (len d <= 182) by lia. replace (N.min (len d) 182) with (len d) by lia. rewrite take_app_len. reflexivity.
Qed.

Lemma key_naddr_inj a b : wf_addr a -> wf_addr b -> key_naddr a = key_naddr b -> a = b.
Proof. intros Wa Wb H. rewrite <- (decode_key_naddr a Wa), <- (decode_key_naddr b Wb), H. reflexivity. Qed.

(* ---------- every key of the table encodes a well-formed address, over all histories ---------- *)
Definition naddr_ok (tb : tables) : Prop :=
  keys_unique (t_naddr tb) /\ forall k t, In (k, t) (t_naddr tb) -> exists a, wf_addr a /\ k = key_naddr a.

Lemma naddr_ok_same tb tb' : t_naddr tb' = t_naddr tb -> naddr_ok tb -> naddr_ok tb'.
Proof. intros E H. unfold naddr_ok. rewrite E. exact H. Qed.

Lemma mark_naddr_deleted_ok tb a w tb' : wf_addr a -> naddr_ok tb -> mark_naddr_deleted tb a w = Ok tb' -> naddr_ok tb'.
Proof.
  intros Wa [U H] Hm. unfold mark_naddr_deleted in Hm.
  assert (Put : forall nt, t_put_checked (t_naddr tb) (key_naddr a) w = Ok nt ->
            naddr_ok (mkT (t_i tb) (t_ci tb) (t_tc tb) (t_ac tb) (t_akc tb) (t_atc tb) (t_ktc tb) (t_delids tb) nt (t_extra tb))).
  { intros nt Hp. unfold t_put_checked in Hp. destruct (MAXKEY <? len (key_naddr a)); [discriminate|]. injection Hp as <-.
    split; cbn [t_naddr]; [apply keys_unique_put; exact U|]. intros k t Hin. apply In_t_put in Hin.
    destruct Hin as [[-> _]|[Hin _]]; [exists a; split; [exact Wa|reflexivity]|apply (H k t Hin)]. }
  destruct (when_naddr_deleted tb a) as [old|].
  - destruct (w <=? old); [injection Hm as <-; split; assumption|].
    destruct (t_put_checked _ _ _) as [nt| | |] eqn:Ep; cbn [bind] in Hm; try discriminate. injection Hm as <-. apply Put. reflexivity.
  - destruct (t_put_checked _ _ _) as [nt| | |] eqn:Ep; cbn [bind] in Hm; try discriminate. injection Hm as <-. apply Put. reflexivity.
Qed.

Lemma addr_parse_wf input a : addr_parse input = Ok a -> wf_addr a.
Proof.
  intros H. destruct (addr_parse_ok _ _ H) as [L K]. split; [exact L|]. split; [exact K|].
  unfold addr_parse in H. destruct (split_colon input) as [kb r1]. destruct (parse_u16 kb); [|discriminate].
  destruct r1 as [r1|]; [|discriminate]. destruct (split_colon r1) as [ab r2].
  destruct (read_hex ab 32) as [author| | |] eqn:Eh; cbn [bind] in H; try discriminate.
  destruct r2; [|discriminate]. injection H as <-. cbn [a_author].
  unfold read_hex in Eh. destruct (len ab =? 2 * 32); [|discriminate]. apply read_hex_pairs_ok in Eh. apply Eh.
Qed.

Lemma handle_one_tag_naddr s txn ev tag txn' : naddr_ok txn -> handle_one_tag s txn ev tag = Ok txn' -> naddr_ok txn'.
Proof.
  intros Hn. unfold handle_one_tag. destruct tag as [|name [|arg rest]]; try (intros [= <-]; exact Hn).
  destruct (beq name [101]).
  - destruct (read_hex arg 32) as [id| | |]; try (intros [= <-]; exact Hn).
    destruct (get_event_by_id s id) as [target| | |]; cbn [bind]; try discriminate.
    destruct target as [tg|].
    + destruct (beq (e_pk tg) (e_pk ev)); cbn [bind]; [|discriminate].
      destruct (remove_by_id s txn id) as [t1| | |] eqn:E; cbn [bind]; try discriminate.
      intros [= <-]. eapply naddr_ok_same; [|exact Hn]. cbn [mark_deleted t_naddr]. apply (proj2 (remove_by_id_markers _ _ _ _ E)).
    + cbn [bind]. intros [= <-]. exact Hn.
  - destruct (beq name [97]); [|intros [= <-]; exact Hn].
    destruct (addr_parse arg) as [a| | |] eqn:Ea; try (intros [= <-]; exact Hn).
    destruct (negb _); [discriminate|].
    destruct (mark_naddr_deleted txn a (e_created ev)) as [t1| | |] eqn:E; cbn [bind]; try discriminate.
    pose proof (mark_naddr_deleted_ok _ _ _ _ (addr_parse_wf _ _ Ea) Hn E) as H1.
    destruct (is_replaceable (a_kind a)).
    { intros H. eapply naddr_ok_same; [|exact H1]. apply (proj2 (remove_replaceable_markers _ _ _ _ _ _ H)). }
    destruct (is_param_replaceable (a_kind a)).
    { intros H. eapply naddr_ok_same; [|exact H1]. apply (proj2 (remove_param_replaceable_markers _ _ _ _ _ H)). }
    intros [= <-]. exact H1.
Qed.
Lemma handle_deletion_naddr s ev tags : forall txn txn', naddr_ok txn -> handle_deletion s txn ev tags = Ok txn' -> naddr_ok txn'.
Proof.
  induction tags as [|t r IH]; intros txn txn' Hn; cbn [handle_deletion]; [intros [= <-]; exact Hn|].
  destruct (handle_one_tag s txn ev t) as [t1| | |] eqn:E; cbn [bind]; try discriminate.
  apply IH. eapply handle_one_tag_naddr; eauto.
Qed.

Lemma store_event_naddr s e : naddr_ok (committed s) -> naddr_ok (committed (fst (store_event s e))).
Proof.
  intros Hn. unfold store_event. destruct (pre_checks s e) as [txn|x| |] eqn:Ep; cbn [fst]; try exact Hn.
  pose proof (pre_checks_markers _ _ _ Ep) as [_ M0]. unfold log_append.
  set (txn2 := if is_ephemeral (e_kind e) then txn else index txn e (align8 (log_end s))).
  assert (N2 : naddr_ok txn2).
  { subst txn2. destruct (is_ephemeral (e_kind e)); [eapply naddr_ok_same; eauto|].
    eapply naddr_ok_same; [|exact Hn]. rewrite (proj2 (index_markers txn e (align8 (log_end s)))). exact M0. }
  match goal with |- context [match ?X with Ok _ => _ | Err _ => _ | Panic => _ | OutOfFuel => _ end] => destruct X as [txn3|x| |] eqn:Eh end;
    cbn [fst committed]; try exact Hn.
  cbn [with_committed committed]. destruct (e_kind e =? 5); [eapply handle_deletion_naddr; eauto|injection Eh as <-; exact N2].
Qed.

Lemma c_step_naddr s op : naddr_ok (committed s) -> naddr_ok (committed (c_step s op)).
Proof.
  intros Hn. destruct op; cbn [c_step].
  - apply store_event_naddr. exact Hn.
  - eapply naddr_ok_same; [|exact Hn]. apply (proj2 (remove_event_markers s id)).
  - eapply naddr_ok_same; [|exact Hn]. apply (proj2 (vanish_markers s pk)).
  - eapply naddr_ok_same; [|exact Hn]. reflexivity.
  - exact Hn.
Qed.
Lemma c_run_naddr ops : forall s, naddr_ok (committed s) -> naddr_ok (committed (c_run ops s)).
Proof. induction ops as [|op ops IH]; intros s H; cbn [c_run fold_left]; [exact H|]. apply IH. apply c_step_naddr. exact H. Qed.
Lemma naddr_ok_init names : naddr_ok (committed (db_init names)).
Proof. split; [constructor|intros k t []]. Qed.

(* ---------- rebuild copies the table exactly ---------- *)
Lemma rebuild_naddrs_spec entries : forall tb tb',
  NoDup (map fst entries) -> (forall k t, In (k, t) entries -> exists a, wf_addr a /\ k = key_naddr a) ->
  (forall k t, In (k, t) entries -> t_get (t_naddr tb) k = None) -> keys_unique (t_naddr tb) ->
  rebuild_naddrs tb entries = Ok tb' ->
  forall k, t_get (t_naddr tb') k = match t_get entries k with Some t => Some t | None => t_get (t_naddr tb) k end.
Proof.
  induction entries as [|[k0 w0] r IH]; intros tb tb' Hnd Hwf Hfresh U H k; cbn [rebuild_naddrs] in H.
  - injection H as <-. reflexivity.
  - destruct (Hwf k0 w0 (or_introl eq_refl)) as [a0 [Wa0 ->]]. rewrite (decode_key_naddr a0 Wa0) in H.
    destruct (mark_naddr_deleted tb a0 w0) as [t1| | |] eqn:E; cbn [bind] in H; try discriminate.
    inversion Hnd as [|? ? Hn0 Hndr]; subst.
    (* the marker is put: the key was not there *)
    assert (Ht1 : t_naddr t1 = t_put (t_naddr tb) (key_naddr a0) w0).
    { unfold mark_naddr_deleted, when_naddr_deleted in E. rewrite (Hfresh _ _ (or_introl eq_refl)) in E.
      unfold t_put_checked in E. destruct (MAXKEY <? len (key_naddr a0)); cbn [bind] in E; [discriminate|]. injection E as <-. reflexivity. }
    rewrite (IH t1 tb' Hndr) with (k := k); [| | |rewrite Ht1; apply keys_unique_put; exact U|exact H].
    + cbn [t_get]. destruct (beq (key_naddr a0) k) eqn:Ek.
      * apply beq_eq in Ek. subst k.
        assert (t_get r (key_naddr a0) = None).
        { destruct (t_get r (key_naddr a0)) eqn:Eg; [|reflexivity]. exfalso. apply Hn0. cbn [fst].
          clear -Eg. induction r as [|[k1 v1] r IHr]; cbn [t_get] in Eg; [discriminate|]. destruct (beq k1 (key_naddr a0)) eqn:E1.
          - apply beq_eq in E1. subst k1. left. reflexivity.
          - right. apply IHr. exact Eg. }
        rewrite H0, Ht1, t_get_put_same. reflexivity.
      * destruct (t_get r k); [reflexivity|]. rewrite Ht1. apply t_get_put_other. intros ->. rewrite beq_refl in Ek. discriminate.
    + intros k1 t1' Hin. apply (Hwf k1 t1'). right. exact Hin.
    + intros k1 t1' Hin. rewrite Ht1. rewrite t_get_put_other; [apply (Hfresh k1 t1'); right; exact Hin|].
      intros ->. apply Hn0. apply in_map_iff. exists (key_naddr a0, t1'). split; [reflexivity|exact Hin].
Qed.

Lemma t_get_iter t k : keys_unique t -> t_get (t_iter t) k = t_get t k.
Proof.
  intros U. assert (U' : keys_unique (t_iter t)) by (apply t_iter_keys_unique; exact U).
  destruct (t_get t k) as [v|] eqn:E.
  - apply (t_get_In _ _ _ U'). apply (proj2 (t_iter_In _ _ _)). apply (t_get_In _ _ _ U). exact E.
  - destruct (t_get (t_iter t) k) as [v|] eqn:E'; [|reflexivity].
    apply (t_get_In _ _ _ U') in E'. apply (proj1 (t_iter_In _ _ _)) in E'. apply (t_get_In _ _ _ U) in E'. congruence.
Qed.

Lemma mark_fold_naddr l : forall tb, t_naddr (fold_left (fun tb (kv : bytes * N) => mark_deleted tb (fst kv)) l tb) = t_naddr tb.
Proof. induction l as [|kv r IH]; intros tb; cbn [fold_left]; [reflexivity|]. rewrite IH. reflexivity. Qed.

Theorem rebuild_preserves_address_markers s s' : FullInv s -> naddr_ok (committed s) -> rebuild s = Ok s' ->
  forall a, naddr_is_deleted_asof s' a = naddr_is_deleted_asof s a.
Proof.
  intros HF [U Hwf] H a. unfold rebuild in H.
  set (fresh := mkDb (empty_tables (map fst (t_extra (committed s)))) [] HEADER (Some (log s, committed s))) in *.
  destruct (rebuild_events s fresh (t_iter (t_i (committed s)))) as [n1| | |] eqn:E1; cbn [bind] in H; try discriminate.
  destruct (rebuild_naddrs _ (t_iter (t_naddr (committed s)))) as [tb2| | |] eqn:E2; cbn [bind] in H; try discriminate.
  injection H as <-. unfold naddr_is_deleted_asof, when_naddr_deleted. cbn [with_committed committed t_naddr].
  (* the table the address loop starts from is empty *)
  assert (Hn1 : t_naddr (committed n1) = []).
  { destruct HF as (Hl & [Uid Hid] & Hw & Hi).
    assert (Ffresh : FullInv fresh).
    { split; [split; cbn; [lia|intros o e []]|]. split; [split; [constructor|intros id off []]|].
      split; [intros o e Hf; discriminate Hf|].
      unfold AllInv, fresh, empty_tables. cbn [committed log t_i t_ci t_ac t_akc t_tc t_atc t_ktc].
      refine (conj _ (conj _ (conj _ (conj _ (conj _ (conj _ _)))))); try apply TabInv_empty.
      split; [constructor|intros id off []]. }
    destruct (rebuild_events_spec s (t_iter (t_i (committed s))) fresh n1 Ffresh) as (_ & _ & _ & _ & X2 & _); [| | |exact E1|exact X2].
    - apply t_iter_keys_unique. exact Uid.
    - intros id off Hin. apply (proj1 (t_iter_In _ _ _)) in Hin. destruct (Hid id off Hin) as [Hlt [e [Hf He]]]. exists e.
      split; [|split; [exact He|eapply Hw; eauto]].
      unfold get_event_by_offset. destruct (N.leb_spec (log_end s) off); [lia|]. rewrite Hf. reflexivity.
    - intros id off o _ Hin. exact Hin. }
  assert (Hstart : t_naddr (fold_left (fun tb (kv : bytes * N) => mark_deleted tb (fst kv)) (t_iter (t_delids (committed s))) (committed n1)) = []).
  { rewrite mark_fold_naddr. exact Hn1. }
  rewrite (rebuild_naddrs_spec _ _ _ (t_iter_keys_unique _ U) ltac:(intros k t Hin; apply (Hwf k t); apply (proj1 (t_iter_In _ _ _)); exact Hin)
             ltac:(intros k t _; rewrite Hstart; reflexivity) ltac:(rewrite Hstart; constructor) E2).
  rewrite Hstart, t_get_iter by exact U. cbn [t_get]. destruct (t_get (t_naddr (committed s)) (key_naddr a)); reflexivity.
Qed.

Corollary rebuild_preserves_address_markers_reachable ops names s' : ops_wf ops -> rebuild (c_run ops (db_init names)) = Ok s' ->
  forall a, naddr_is_deleted_asof s' a = naddr_is_deleted_asof (c_run ops (db_init names)) a.
Proof.
  intros Hops. apply rebuild_preserves_address_markers; [apply reachable_FullInv; exact Hops|apply c_run_naddr; apply naddr_ok_init].
Qed.
