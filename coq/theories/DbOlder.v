(* DbOlder.v — C09 on the CONCRETE store, the other half: an event OLDER than the retrievable holder of its
   address is refused, and the refusal changes nothing.  Precisely: if a retrievable event h has the same
   address as e and is strictly newer, then store_event s e returns an error - Duplicate, Deleted or Replaced -
   and leaves the store as it was.  (The half "newer wins" is DbCovered.stored_event_is_sole_holder.)
   Proved for replaceable kinds (0, 3, 10000-19999) and parameterized kinds (30000-39999, same d). *)
From Pocket Require Import Db DbProofs TableProofs HexProofs DbIdInv DbIndexInv KeyOrder DbAddr DbQuerySound DbQueryComplete DbDeletion DbForeign DbCovered.

Section Older.
  Variable s : db.
  Let L := log s.
  Let c := committed s.
  Hypothesis HA : StoreInv s.

  Let Hwe : log_wfe L := proj1 (proj2 (proj2 HA)).
  Let Hid : id_inv s := proj1 (proj2 HA).
  Let Hw : log_wf L := log_wfe_wf L Hwe.
  Let Hc : AllInv L c := proj2 (proj2 (proj1 HA)).

  (* the removal scans succeed: every scanned offset reads back *)
  Lemma remove_offsets_ok offs : forall txn, Forall (fun off => exists x, get_event_by_offset s off = Ok x) offs ->
    exists txn', remove_offsets s txn offs = Ok txn'.
  Proof.
    induction offs as [|o r IH]; intros txn H; cbn [remove_offsets]; [eexists; reflexivity|].
    inversion H as [|? ? [x Hx] Hr]; subst. unfold remove_by_offset. rewrite Hx. cbn [bind]. apply IH. exact Hr.
  Qed.
  Lemma remove_param_offsets_ok a offs : forall txn, Forall (fun off => exists x, get_event_by_offset s off = Ok x) offs ->
    exists txn', remove_param_offsets s txn a offs = Ok txn'.
  Proof.
    induction offs as [|o r IH]; intros txn H; cbn [remove_param_offsets]; [eexists; reflexivity|].
    inversion H as [|? ? [x Hx] Hr]; subst. rewrite Hx. cbn [bind]. destruct (same_addr a x); [|apply IH; exact Hr].
    unfold remove_by_offset. rewrite Hx. cbn [bind]. apply IH. exact Hr.
  Qed.

  (* an id none of the scanned events has stays in the id table *)
  Lemma remove_offsets_keeps offs id o : forall txn txn', remove_offsets s txn offs = Ok txn' ->
    (forall off x, In off offs -> get_event_by_offset s off = Ok x -> e_id x <> id) -> In (id, o) (t_i txn) -> In (id, o) (t_i txn').
  Proof.
    induction offs as [|o0 r IH]; intros txn txn' H Hne Hin; cbn [remove_offsets] in H; [injection H as <-; exact Hin|].
    unfold remove_by_offset in H. destruct (get_event_by_offset s o0) as [x| | |] eqn:Ex; cbn [bind] in H; try discriminate.
    apply (IH _ txn' H); [intros off y Hy; apply Hne; right; exact Hy|].
    cbn [deindex_id t_i]. rewrite deindex_ti. apply In_t_del. split; [exact Hin|]. intros E. apply (Hne o0 x (or_introl eq_refl) Ex). symmetry. exact E.
  Qed.
  Lemma remove_param_offsets_keeps a offs id o : forall txn txn', remove_param_offsets s txn a offs = Ok txn' ->
    (forall off x, In off offs -> get_event_by_offset s off = Ok x -> e_id x <> id) -> In (id, o) (t_i txn) -> In (id, o) (t_i txn').
  Proof.
    induction offs as [|o0 r IH]; intros txn txn' H Hne Hin; cbn [remove_param_offsets] in H; [injection H as <-; exact Hin|].
    destruct (get_event_by_offset s o0) as [x| | |] eqn:Ex; cbn [bind] in H; try discriminate.
    destruct (same_addr a x).
    - unfold remove_by_offset in H. rewrite Ex in H. cbn [bind] in H.
      apply (IH _ txn' H); [intros off y Hy; apply Hne; right; exact Hy|].
      cbn [deindex_id t_i]. rewrite deindex_ti. apply In_t_del. split; [exact Hin|]. intros E. apply (Hne o0 x (or_introl eq_refl) Ex). symmetry. exact E.
    - apply (IH txn txn' H); [intros off y Hy; apply Hne; right; exact Hy|exact Hin].
  Qed.

  (* every offset of a range over the committed tables reads back, and its event lies in the window *)
  Lemma akc_scan a k w : length a = 32%nat -> w <= U64MAX ->
    Forall (fun off => exists x, get_event_by_offset s off = Ok x /\ In (e_id x, off) (t_i c) /\ e_created x <= w)
           (map snd (akc_range c a k 0 w)).
  Proof.
    intros Ha Hu. apply Forall_forall. intros off Hin. apply in_map_iff in Hin. destruct Hin as [[k0 o] [<- Hin]]. cbn [snd].
    unfold akc_range in Hin. rewrite !key_akc_assoc in Hin. destruct Hc as (_ & _ & _ & B3 & _).
    destruct (range_entry L (t_i c) (t_akc c) keys_akc 34 (a ++ be16 k) 0 w k0 o Hwe B3 shape_akc) as [x [Hf [Hi [_ [_ Hwin]]]]];
      [rewrite app_length, Ha; reflexivity|unfold U64MAX; lia|exact Hu|exact Hin|].
    exists x. split; [apply (gebo_committed s Hid x o Hi Hf)|split; [exact Hi|apply Hwin]].
  Qed.
  Lemma atc_scan a d w : length a = 32%nat -> w <= U64MAX ->
    Forall (fun off => exists x, get_event_by_offset s off = Ok x /\ In (e_id x, off) (t_i c) /\ e_created x <= w)
           (map snd (atc_range c a 100 d 0 w)).
  Proof.
    intros Ha Hu. apply Forall_forall. intros off Hin. apply in_map_iff in Hin. destruct Hin as [[k0 o] [<- Hin]]. cbn [snd].
    unfold atc_range in Hin. rewrite !key_atc_assoc in Hin. destruct Hc as (_ & _ & _ & _ & _ & B5 & _).
    destruct (range_entry L (t_i c) (t_atc c) keys_atc 215 (a ++ [100] ++ pad182 d) 0 w k0 o Hwe B5 shape_atc) as [x [Hf [Hi [_ [_ Hwin]]]]];
      [rewrite !app_length, length_pad182, Ha; reflexivity|unfold U64MAX; lia|exact Hu|exact Hin|].
    exists x. split; [apply (gebo_committed s Hid x o Hi Hf)|split; [exact Hi|apply Hwin]].
  Qed.

  Lemma Forall_weaken {A} (P Q : A -> Prop) l : (forall x, P x -> Q x) -> Forall P l -> Forall Q l.
  Proof. intros H F. eapply Forall_impl; eauto. Qed.

  (* a newer holder survives the pre-removal of an older event's store *)
  Variable e h : aevent.
  Variable offh : N.
  Hypothesis We : wf_ev e.
  Hypothesis Hh : In (e_id h, offh) (t_i c).
  Hypothesis Hfh : log_find L offh = Some h.
  Hypothesis Hnew : e_created e < e_created h.

  Lemma holder_not_scanned off x : get_event_by_offset s off = Ok x -> In (e_id x, off) (t_i c) -> e_created x <= e_created e -> e_id x <> e_id h.
  Proof.
    intros Hx Hi Hcr E. pose proof Hid as [U _]. rewrite E in Hi.
    apply (t_get_In _ _ _ U) in Hi. apply (t_get_In _ _ _ U) in Hh. assert (off = offh) by congruence. subst off.
    apply (gebo_find s) in Hx. fold L in Hx. assert (x = h) by congruence. subst x. lia.
  Qed.

  Theorem older_replaceable_refused : is_replaceable (e_kind e) = true -> e_pk h = e_pk e -> e_kind h = e_kind e ->
    exists x, store_event s e = (s, Err x) /\ (x = EDup \/ x = EDeleted \/ x = EReplaced).
  Proof.
    intros Hr Hpk Hk. unfold store_event.
    assert (P : exists x, pre_checks s e = Err x /\ (x = EDup \/ x = EDeleted \/ x = EReplaced)).
    { unfold pre_checks. fold c. destruct (t_get (t_i c) (e_id e)); [exists EDup; split; auto|].
      destruct (is_deleted c (e_id e)); [exists EDeleted; split; auto|].
      destruct (_ && _); [exists EDeleted; split; auto|]. destruct (_ && _); [exists EDeleted; split; auto|].
      rewrite Hr. pose proof We as (_ & Hcr & Hpl & Hkd).
      destruct (remove_offsets_ok (map snd (akc_range c (e_pk e) (e_kind e) 0 (e_created e))) c) as [t1 Ht1].
      { eapply Forall_weaken; [|apply (akc_scan (e_pk e) (e_kind e) (e_created e) Hpl Hcr)]. intros off [x [Hx _]]. exists x. exact Hx. }
      unfold remove_replaceable. rewrite Hr. cbn [negb]. fold c. rewrite Ht1. cbn [bind].
      (* the holder is still in t1 *)
      assert (Hh1 : In (e_id h, offh) (t_i t1)).
      { apply (remove_offsets_keeps _ _ _ _ _ Ht1); [|exact Hh]. intros off x Hin Hx.
        pose proof (akc_scan (e_pk e) (e_kind e) (e_created e) Hpl Hcr) as F. rewrite Forall_forall in F.
        destruct (F off Hin) as [x' [Hx' [Hi' Hc']]]. assert (x' = x) by congruence. subst x'. apply (holder_not_scanned off x Hx Hi' Hc'). }
      assert (T1 : TI s t1).
      { apply (remove_replaceable_inv s Hw Hc c (e_pk e) (e_kind e) (e_created e) t1).
        - split; [exact Hc|apply rel_refl; destruct Hc as [[U _] _]; exact U].
        - unfold remove_replaceable. rewrite Hr. cbn [negb]. exact Ht1. }
      unfold find_replaceable. rewrite Hr. cbn [negb].
      destruct T1 as [(A0 & _ & _ & B3 & _) R1].
      (* h's key lies in the full range of t1 *)
      assert (Hin : In (key_akc (e_pk h) (e_kind h) (e_created h) (e_id h), offh) (akc_range t1 (e_pk e) (e_kind e) 0 U64MAX)).
      { unfold akc_range. rewrite <- Hpk, <- Hk, !key_akc_assoc.
        eapply (range_complete L (t_i t1) (t_akc t1) keys_akc); eauto; [left; apply key_akc_assoc| |].
        - apply (proj1 (key_in_range (e_pk h ++ be16 (e_kind h)) 0 _ U64MAX _ (proj1 (Hwe _ _ Hfh)) ltac:(lia) (wf_ev_created _ (Hwe _ _ Hfh)) ltac:(lia))).
        - apply (proj2 (key_in_range (e_pk h ++ be16 (e_kind h)) 0 _ U64MAX _ (proj1 (Hwe _ _ Hfh)) ltac:(lia) (wf_ev_created _ (Hwe _ _ Hfh)) ltac:(lia))). }
      destruct (akc_range t1 (e_pk e) (e_kind e) 0 U64MAX) as [|[k0 o0] rest] eqn:Er; [destruct Hin|].
      (* the first entry reads back *)
      assert (Hfirst : In (k0, o0) (t_akc t1)).
      { assert (X : In (k0, o0) (akc_range t1 (e_pk e) (e_kind e) 0 U64MAX)) by (rewrite Er; left; reflexivity).
        unfold akc_range in X. apply t_range_spec in X. apply X. }
      destruct B3 as [_ [S3 _]]. destruct (S3 k0 o0 Hfirst) as [y [Hy [Hiy _]]].
      assert (Hic : In (e_id y, o0) (t_i c)).
      { apply (ile_In c t1); [|exact Hiy]. eapply remove_offsets_ile. exact Ht1. }
      rewrite (gebo_committed s Hid y o0 Hic Hy). cbn [bind]. exists EReplaced. split; auto. }
    destruct P as [x [-> Hx]]. exists x. split; [reflexivity|exact Hx].
  Qed.

  Lemma first_same_addr_some a entries : (forall k o, In (k, o) entries -> exists y, get_event_by_offset s o = Ok y) ->
    (exists k o y, In (k, o) entries /\ get_event_by_offset s o = Ok y /\ same_addr a y = true) ->
    exists z, first_same_addr s a entries = Ok (Some z).
  Proof.
    induction entries as [|[k0 o0] r IH]; intros Hall [k [o [y [Hin [Hy Hs]]]]]; [destruct Hin|]. cbn [first_same_addr].
    destruct (Hall k0 o0 (or_introl eq_refl)) as [y0 Hy0]. rewrite Hy0. cbn [bind].
    destruct (same_addr a y0) eqn:E0; [exists y0; reflexivity|].
    apply IH; [intros k1 o1 H1; apply (Hall k1 o1); right; exact H1|].
    destruct Hin as [[= <- <-]|Hin]; [congruence|]. exists k, o, y. repeat split; assumption.
  Qed.

  Theorem older_param_refused d : is_replaceable (e_kind e) = false -> is_param_replaceable (e_kind e) = true ->
    e_pk h = e_pk e -> e_kind h = e_kind e -> d_of e = Some d -> d_of h = Some d ->
    exists x, store_event s e = (s, Err x) /\ (x = EDup \/ x = EDeleted \/ x = EReplaced).
  Proof.
    intros Hnr Hp Hpk Hk Hde Hdh. unfold store_event.
    assert (P : exists x, pre_checks s e = Err x /\ (x = EDup \/ x = EDeleted \/ x = EReplaced)).
    { unfold pre_checks. fold c. destruct (t_get (t_i c) (e_id e)); [exists EDup; split; auto|].
      destruct (is_deleted c (e_id e)); [exists EDeleted; split; auto|].
      destruct (_ && _); [exists EDeleted; split; auto|]. destruct (_ && _); [exists EDeleted; split; auto|].
      rewrite Hnr. cbn [bind]. rewrite Hp, Hde. pose proof We as (_ & Hcr & Hpl & Hkd).
      set (a := mkAddr (e_kind e) (e_pk e) d).
      destruct (remove_param_offsets_ok a (map snd (atc_range c (e_pk e) 100 d 0 (e_created e))) c) as [t2 Ht2].
      { eapply Forall_weaken; [|apply (atc_scan (e_pk e) d (e_created e) Hpl Hcr)]. intros off [x [Hx _]]. exists x. exact Hx. }
      unfold remove_param_replaceable. cbn [a_kind a_author a_d a]. rewrite Hp. cbn [negb]. fold c. fold a. rewrite Ht2. cbn [bind].
      assert (Hh2 : In (e_id h, offh) (t_i t2)).
      { apply (remove_param_offsets_keeps _ _ _ _ _ _ Ht2); [|exact Hh]. intros off x Hin Hx.
        pose proof (atc_scan (e_pk e) d (e_created e) Hpl Hcr) as F. rewrite Forall_forall in F.
        destruct (F off Hin) as [x' [Hx' [Hi' Hc']]]. assert (x' = x) by congruence. subst x'. apply (holder_not_scanned off x Hx Hi' Hc'). }
      assert (T2 : TI s t2).
      { apply (remove_param_replaceable_inv s Hw Hc c a (e_created e) t2).
        - split; [exact Hc|apply rel_refl; destruct Hc as [[U _] _]; exact U].
        - unfold remove_param_replaceable. cbn [a_kind a_author a_d a]. rewrite Hp. cbn [negb]. exact Ht2. }
      unfold find_param_replaceable. cbn [a_kind a_author a_d a]. rewrite Hp. cbn [negb]. fold a.
      destruct T2 as [(A0 & _ & _ & _ & _ & B5 & _) R2].
      destruct (spec_get_value_In _ _ _ Hdh) as [rest Htag].
      assert (Hin : In (key_atc (e_pk h) 100 d (e_created h) (e_id h), offh) (atc_range t2 (e_pk e) 100 d 0 U64MAX)).
      { unfold atc_range. rewrite <- Hpk, !key_atc_assoc.
        eapply (range_complete L (t_i t2) (t_atc t2) keys_atc); eauto.
        - unfold keys_atc. apply in_map_iff. exists (100, d). split; [apply key_atc_assoc|]. eapply indexable_In. exact Htag.
        - apply (proj1 (key_in_range (e_pk h ++ [100] ++ pad182 d) 0 _ U64MAX _ (proj1 (Hwe _ _ Hfh)) ltac:(lia) (wf_ev_created _ (Hwe _ _ Hfh)) ltac:(lia))).
        - apply (proj2 (key_in_range (e_pk h ++ [100] ++ pad182 d) 0 _ U64MAX _ (proj1 (Hwe _ _ Hfh)) ltac:(lia) (wf_ev_created _ (Hwe _ _ Hfh)) ltac:(lia))). }
      destruct (first_same_addr_some a (atc_range t2 (e_pk e) 100 d 0 U64MAX)) as [z Hz].
      - intros k0 o0 Hk0. unfold atc_range in Hk0. apply t_range_spec in Hk0. destruct Hk0 as [Hk0 _].
        destruct B5 as [_ [S5 _]]. destruct (S5 k0 o0 Hk0) as [y [Hy [Hiy _]]].
        exists y. apply (gebo_committed s Hid y o0); [|exact Hy]. apply (ile_In c t2); [|exact Hiy]. eapply remove_param_offsets_ile. exact Ht2.
      - exists (key_atc (e_pk h) 100 d (e_created h) (e_id h)), offh, h. split; [exact Hin|]. split; [apply (gebo_committed s Hid h offh Hh Hfh)|].
        unfold same_addr. cbn [a_kind a_d a]. rewrite Hk, N.eqb_refl, Hdh, beq_refl. reflexivity.
      - rewrite Hz. exists EReplaced. split; auto. }
    destruct P as [x [-> Hx]]. exists x. split; [reflexivity|exact Hx].
  Qed.
End Older.

(* for reachable states, in terms of the id lookup *)
Theorem older_event_refused ops names e h : ops_wfe ops -> wf_ev e -> let s := c_run ops (db_init names) in
  get_event_by_id s (e_id h) = Ok (Some h) -> same_address h e -> e_created e < e_created h ->
  exists x, store_event s e = (s, Err x) /\ (x = EDup \/ x = EDeleted \/ x = EReplaced).
Proof.
  intros Hops We s Hh (Hpk & Hk & Hkind) Hnew.
  pose proof (c_run_StoreInv ops _ Hops (StoreInv_init names)) as HA. fold s in HA.
  destruct (by_id_entry s _ _ (proj1 (proj2 HA)) Hh) as [off [Hi Hf]].
  destruct Hkind as [Hr|(Hp & Hd & Hdn)].
  - apply (older_replaceable_refused s HA e h off We Hi Hf Hnew); [rewrite <- Hk; exact Hr|exact Hpk|exact Hk].
  - destruct (d_of h) as [d|] eqn:Edh; [|congruence].
    apply (older_param_refused s HA e h off We Hi Hf Hnew d); try assumption.
    + rewrite <- Hk. revert Hp. unfold is_replaceable, is_param_replaceable. intros B. apply andb_true_iff in B. destruct B as [B1 B2].
      apply N.leb_le in B1. apply N.ltb_lt in B2.
      replace (e_kind h <? 20000) with false by (symmetry; apply N.ltb_ge; lia).
      replace (e_kind h =? 0) with false by (symmetry; apply N.eqb_neq; lia).
      replace (e_kind h =? 3) with false by (symmetry; apply N.eqb_neq; lia).
      rewrite andb_false_r. reflexivity.
    + rewrite <- Hk. exact Hp.
    + symmetry. exact Hd.
Qed.
