(* DbProofs.v — theorems about the concrete store model Db.v that need no index invariant:
   failed stores leave the committed tables untouched (C12), the event log is append-only so
   every returned offset reads back the same event forever and offsets are never reused (C04),
   reopen is the identity (C16). *)
From Pocket Require Import Db.

(* ---------- C12 ---------- *)
Theorem store_event_failure_noop s e s' r :
  store_event s e = (s', r) -> (forall off, r <> Ok off) ->
  committed s' = committed s /\ bak s' = bak s /\ (s' = s \/ s' = fst (log_append s e)).
Proof.
  unfold store_event. destruct (pre_checks s e) as [txn|x| |].
  2-4: intros [= <- <-] _; auto.
  destruct (log_append s e) as [s1 off] eqn:El.
  assert (Hs1 : committed s1 = committed s /\ bak s1 = bak s).
  { unfold log_append in El. injection El as <- _. auto. }
  match goal with |- context [match ?X with Ok _ => _ | Err _ => _ | Panic => _ | OutOfFuel => _ end] => destruct X end.
  - intros [= <- <-] Hn. exfalso. eapply Hn. reflexivity.
  - intros [= <- <-] _. destruct Hs1; auto.
  - intros [= <- <-] _. destruct Hs1; auto.
  - intros [= <- <-] _. destruct Hs1; auto.
Qed.

(* ---------- C04: the log is append-only ---------- *)
Definition log_inv (s : db) : Prop :=
  HEADER <= log_end s /\ forall o e, In (o, e) (log s) -> HEADER <= o /\ o mod 8 = 0 /\ o + event_size e <= log_end s.

Definition log_extends (s s' : db) : Prop :=
  log_end s <= log_end s' /\
  exists more, log s' = more ++ log s /\ forall o e, In (o, e) more -> log_end s <= o.

Lemma log_extends_refl s : log_extends s s.
Proof. split; [lia|]. exists []. split; auto. intros o e []. Qed.
Lemma log_extends_trans a b c : log_extends a b -> log_extends b c -> log_extends a c.
Proof.
  intros [L1 (m1 & E1 & H1)] [L2 (m2 & E2 & H2)]. split; [lia|].
  exists (m2 ++ m1). split; [rewrite E2, E1, app_assoc; reflexivity|].
  intros o e Hin. apply in_app_or in Hin. destruct Hin as [Hin|Hin].
  - specialize (H2 _ _ Hin). lia.
  - apply (H1 _ _ Hin).
Qed.

Lemma align8_ge x : x <= align8 x /\ align8 x mod 8 = 0 /\ align8 x < x + 8.
Proof.
  unfold align8. destruct (N.eqb_spec (x mod 8) 0) as [E|E].
  - repeat split; lia.
  - pose proof (N.mod_lt x 8 ltac:(lia)). repeat split; try lia.
Qed.

Lemma event_size_pos e : 152 <= event_size e.
Proof. unfold event_size, tags_size, tags_hdr. lia. Qed.

Lemma log_append_extends s e : log_extends s (fst (log_append s e)).
Proof.
  unfold log_append. cbn [fst]. pose proof (align8_ge (log_end s)) as (A & _). pose proof (event_size_pos e).
  split; cbn [log_end log]; [lia|]. exists [(align8 (log_end s), e)]. split; auto.
  intros o e' [[= <- <-]|[]]. exact A.
Qed.
Lemma log_append_inv s e : log_inv s -> log_inv (fst (log_append s e)).
Proof.
  intros [H0 H]. unfold log_append. cbn [fst]. pose proof (align8_ge (log_end s)) as (A & B & _).
  split; cbn [log_end log]; [lia|]. intros o e' [[= <- <-]|Hin].
  - repeat split; try lia; exact B.
  - destruct (H _ _ Hin) as (X & Y & Z). repeat split; auto; lia.
Qed.

Lemma with_committed_log s tb : log (with_committed s tb) = log s /\ log_end (with_committed s tb) = log_end s.
Proof. split; reflexivity. Qed.

Lemma store_event_log s e : log_extends s (fst (store_event s e)) /\ (log_inv s -> log_inv (fst (store_event s e))).
Proof.
  unfold store_event. destruct (pre_checks s e) as [txn|x| |]; cbn [fst]; try (split; [apply log_extends_refl|auto]).
  pose proof (log_append_extends s e) as Hx. pose proof (log_append_inv s e) as Hi.
  destruct (log_append s e) as [s1 off]. cbn [fst] in *.
  match goal with |- context [match ?X with Ok _ => _ | Err _ => _ | Panic => _ | OutOfFuel => _ end] => destruct X end; cbn [fst]; auto.
Qed.

Lemma remove_event_log s id : log (fst (remove_event s id)) = log s /\ log_end (fst (remove_event s id)) = log_end s.
Proof. unfold remove_event. destruct (remove_by_id s (committed s) id); cbn [fst]; auto. Qed.

Lemma remove_events_log ids : forall s, log (fst (remove_events s ids)) = log s /\ log_end (fst (remove_events s ids)) = log_end s.
Proof.
  induction ids as [|id r IH]; intros s; cbn [remove_events fst]; auto.
  pose proof (remove_event_log s id) as [A B].
  destruct (remove_event s id) as [s1 [u|x| |]]; cbn [fst] in *; auto.
  destruct (IH s1) as [C D]. split; congruence.
Qed.
Lemma vanish_log s pk : log (fst (vanish s pk)) = log s /\ log_end (fst (vanish s pk)) = log_end s.
Proof.
  unfold vanish. destruct (find_events s _ all_match 0 true 0 0) as [[evs red]|x| |]; cbn [fst]; auto.
  pose proof (remove_events_log (map e_id evs) s) as [A B].
  destruct (remove_events s (map e_id evs)) as [s1 [u|x| |]]; cbn [fst] in *; auto.
  destruct (find_events s1 _ all_match 0 true 0 0) as [[gws red2]|x| |]; cbn [fst]; auto.
  pose proof (remove_events_log (map e_id gws) s1) as [C D]. split; congruence.
Qed.

Inductive cop := CStore (e : aevent) | CRemove (id : bytes) | CVanish (pk : bytes) | CXput (n k v : bytes) | CReopen.
Definition c_step (s : db) (op : cop) : db :=
  match op with
  | CStore e => fst (store_event s e)
  | CRemove id => fst (remove_event s id)
  | CVanish pk => fst (vanish s pk)
  | CXput n k v => db_extra_put s n k v
  | CReopen => reopen s
  end.
Definition c_run (ops : list cop) (s : db) : db := fold_left c_step ops s.

Lemma same_log_extends s s' : log s' = log s -> log_end s' = log_end s -> log_extends s s'.
Proof. intros A B. split; [lia|]. exists []. split; auto. intros o e []. Qed.
Lemma same_log_inv s s' : log s' = log s -> log_end s' = log_end s -> log_inv s -> log_inv s'.
Proof. intros A B [H0 H]. split; [lia|]. rewrite A, B. exact H. Qed.

Lemma c_step_log s op : log_extends s (c_step s op) /\ (log_inv s -> log_inv (c_step s op)).
Proof.
  destruct op; cbn [c_step].
  - apply store_event_log.
  - destruct (remove_event_log s id). split; [apply same_log_extends|apply same_log_inv]; auto.
  - destruct (vanish_log s pk). split; [apply same_log_extends|apply same_log_inv]; auto.
  - split; [apply same_log_extends|apply same_log_inv]; reflexivity.
  - split; [apply log_extends_refl|auto].
Qed.
Lemma c_run_log ops : forall s, log_extends s (c_run ops s) /\ (log_inv s -> log_inv (c_run ops s)).
Proof.
  induction ops as [|op ops IH]; intros s; cbn [c_run fold_left].
  - split; [apply log_extends_refl|auto].
  - destruct (c_step_log s op) as [A B]. destruct (IH (c_step s op)) as [C D].
    split; [eapply log_extends_trans; eauto|auto].
Qed.

Lemma log_find_app_old more l off :
  (forall o e, In (o, e) more -> off < o) -> log_find (more ++ l) off = log_find l off.
Proof.
  induction more as [|[o e] m IH]; intros H; cbn [app log_find]; auto.
  destruct (N.eqb_spec o off) as [->|_].
  - specialize (H off e (or_introl eq_refl)). lia.
  - apply IH. intros o' e' Hin. apply (H o' e'). right. exact Hin.
Qed.

(* once readable, an offset reads back the same event after ANY later operations *)
Theorem readback_forever s off e ops :
  get_event_by_offset s off = Ok e -> get_event_by_offset (c_run ops s) off = Ok e.
Proof.
  unfold get_event_by_offset. destruct (N.leb_spec (log_end s) off) as [|Hlt]; [discriminate|].
  destruct (log_find (log s) off) as [e0|] eqn:Ef; [|discriminate]. intros [= <-].
  destruct (c_run_log ops s) as [[Hend (more & Hlog & Hmore)] _].
  destruct (N.leb_spec (log_end (c_run ops s)) off); [lia|].
  rewrite Hlog, log_find_app_old, Ef; auto.
  intros o e' Hin. specialize (Hmore _ _ Hin). lia.
Qed.

(* a successful store returns a fresh, aligned offset at which the event reads back *)
Theorem store_returns_fresh_offset s e s' off :
  log_inv s -> store_event s e = (s', Ok off) ->
  log_end s <= off /\ off mod 8 = 0 /\ get_event_by_offset s' off = Ok e /\
  (forall o x, In (o, x) (log s) -> o < off).
Proof.
  intros [H0 Hinv]. unfold store_event. destruct (pre_checks s e) as [txn|x| |]; try discriminate.
  unfold log_append.
  match goal with |- context [match ?X with Ok _ => _ | Err _ => _ | Panic => _ | OutOfFuel => _ end] => destruct X end; try discriminate.
  intros [= <- <-]. pose proof (align8_ge (log_end s)) as (A & B & _). pose proof (event_size_pos e).
  repeat split; auto.
  - unfold get_event_by_offset. cbn [with_committed log_end log].
    destruct (N.leb_spec (align8 (log_end s) + event_size e) (align8 (log_end s))); [lia|].
    cbn [log_find]. rewrite N.eqb_refl. reflexivity.
  - intros o x Hin. destruct (Hinv _ _ Hin) as (_ & _ & Z). pose proof (event_size_pos x). lia.
Qed.

Lemma db_init_log_inv names : log_inv (db_init names).
Proof. split; cbn; [lia|]. intros o e []. Qed.

(* two successful stores in one history return different offsets *)
Theorem offsets_never_reused names ops1 e1 s1 off1 ops2 e2 s2 off2 :
  store_event (c_run ops1 (db_init names)) e1 = (s1, Ok off1) ->
  store_event (c_run ops2 s1) e2 = (s2, Ok off2) ->
  off1 < off2.
Proof.
  intros E1 E2.
  pose proof (proj2 (c_run_log ops1 (db_init names)) (db_init_log_inv names)) as I0.
  destruct (store_returns_fresh_offset _ _ _ _ I0 E1) as (_ & _ & R1 & _).
  assert (I1 : log_inv s1).
  { pose proof (proj2 (store_event_log (c_run ops1 (db_init names)) e1) I0) as X. rewrite E1 in X. exact X. }
  pose proof (readback_forever _ _ _ ops2 R1) as R2.
  pose proof (proj2 (c_run_log ops2 s1) I1) as I2.
  destruct (store_returns_fresh_offset _ _ _ _ I2 E2) as (_ & _ & _ & Hlt).
  unfold get_event_by_offset in R2. destruct (log_end (c_run ops2 s1) <=? off1); [discriminate|].
  destruct (log_find (log (c_run ops2 s1)) off1) as [x|] eqn:Ef; [|discriminate].
  assert (In (off1, x) (log (c_run ops2 s1))).
  { clear -Ef. induction (log (c_run ops2 s1)) as [|[o y] l IH]; cbn [log_find] in Ef; [discriminate|].
    destruct (N.eqb_spec o off1) as [->|]; [injection Ef as ->; left; reflexivity|right; auto]. }
  apply (Hlt _ _ H).
Qed.

(* ---------- C16: reopen ---------- *)
Theorem reopen_identity s : reopen s = s.
Proof. reflexivity. Qed.

(* ---------- C16: rebuild keeps the previous files as a backup, starts a fresh file ---------- *)
Lemma rebuild_events_bak old entries : forall news n, rebuild_events old news entries = Ok n -> bak n = bak news.
Proof.
  induction entries as [|[k off] r IH]; intros news n; cbn [rebuild_events].
  - intros [= <-]. reflexivity.
  - destruct (get_event_by_offset old off) as [e| | |]; cbn [bind]; try discriminate.
    unfold log_append. intros H. apply IH in H. exact H.
Qed.
Theorem rebuild_leaves_backup s s' : rebuild s = Ok s' -> bak s' = Some (log s, committed s) /\ t_extra (committed s') = t_extra (committed s).
Proof.
  unfold rebuild.
  destruct (rebuild_events s _ (t_iter (t_i (committed s)))) as [n1| | |] eqn:E1; cbn [bind]; try discriminate.
  destruct (rebuild_naddrs _ _) as [tb2| | |]; cbn [bind]; try discriminate.
  intros [= <-]. apply rebuild_events_bak in E1. cbn [with_committed bak committed t_extra]. auto.
Qed.

(* rebuild retains no bytes of unreferenced events: the new event map holds exactly the
   events the id index leads to, each 8-aligned, starting right after the 8-byte header *)
Fixpoint compact_end (old : db) (entries : table) (endp : N) : N :=
  match entries with
  | [] => endp
  | (_, off) :: r =>
      match get_event_by_offset old off with
      | Ok e => compact_end old r (align8 endp + event_size e)
      | _ => endp
      end
  end.
Lemma rebuild_events_end old entries : forall news n,
  rebuild_events old news entries = Ok n -> log_end n = compact_end old entries (log_end news).
Proof.
  induction entries as [|[k off] r IH]; intros news n; cbn [rebuild_events compact_end].
  - intros [= <-]. reflexivity.
  - destruct (get_event_by_offset old off) as [e| | |]; cbn [bind]; try discriminate.
    unfold log_append. intros H. apply IH in H. exact H.
Qed.
Theorem rebuild_compact s s' :
  rebuild s = Ok s' -> log_end s' = compact_end s (t_iter (t_i (committed s))) HEADER.
Proof.
  unfold rebuild.
  destruct (rebuild_events s _ (t_iter (t_i (committed s)))) as [n1| | |] eqn:E1; cbn [bind]; try discriminate.
  destruct (rebuild_naddrs _ _) as [tb2| | |]; cbn [bind]; try discriminate.
  intros [= <-]. apply rebuild_events_end in E1. exact E1.
Qed.

(* ---------- Addr::try_from_bytes is total ---------- *)
From Pocket Require Import HexProofs.
Theorem addr_parse_total input : addr_parse input <> Panic /\ addr_parse input <> OutOfFuel.
Proof.
  unfold addr_parse. destruct (split_colon input) as [kb r1]. destruct (parse_u16 kb); [|split; discriminate].
  destruct r1 as [r1|]; [|split; discriminate]. destruct (split_colon r1) as [ab r2].
  pose proof (read_hex_total ab 32) as [A B].
  destruct (read_hex ab 32); cbn [bind]; try (split; discriminate); try contradiction.
  destruct r2; split; discriminate.
Qed.
