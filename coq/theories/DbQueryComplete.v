(* DbQueryComplete.v — completeness of the CONCRETE query planner (C05), for every reachable state:
   when the limit exceeds the size of every index table (so that no scan is cut short), the answer of
   Db.find_events contains EVERY retrievable event that matches the filter and passes the screen -
   whichever of the seven plans serves the filter.  With soundness (DbQuerySound.v) the answer is then
   exactly the set of qualifying events, newest first.
   Hypotheses on the filter: until fits u64, authors are 32 bytes, kinds fit u16, and tag constraints
   have one-letter names (the only ones the JSON syntax can express and the indexes hold). *)
From Pocket Require Import Db ADb ADbProofs DbProofs TableProofs DbIdInv DbIndexInv KeyOrder DbAddr DbQuerySound.

(* ---------- the shape of the keys of each table ---------- *)
Definition shape (K : aevent -> list bytes) (n : nat) : Prop :=
  forall e k, wf_ev e -> In k (K e) -> exists Q, length Q = n /\ k = Q ++ rev_time (e_created e) ++ e_id e.

Lemma shape_ci : shape keys_ci 0.
Proof. intros e k _ [<-|[]]. exists []. split; reflexivity. Qed.
Lemma shape_ac : shape keys_ac 32.
Proof. intros e k (_ & _ & Hp & _) [<-|[]]. exists (e_pk e). split; [exact Hp|reflexivity]. Qed.
Lemma shape_akc : shape keys_akc 34.
Proof.
  intros e k (_ & _ & Hp & _) [<-|[]]. exists (e_pk e ++ be16 (e_kind e)). split; [rewrite app_length, Hp; reflexivity|apply key_akc_assoc].
Qed.
Lemma shape_tc : shape keys_tc 183.
Proof.
  intros e k _ H. unfold keys_tc in H. apply in_map_iff in H. destruct H as [[c v] [<- _]]. cbn [fst snd].
  exists ([c] ++ pad182 v). split; [cbn [app length]; rewrite length_pad182; reflexivity|apply key_tc_assoc].
Qed.
Lemma shape_atc : shape keys_atc 215.
Proof.
  intros e k (_ & _ & Hp & _) H. unfold keys_atc in H. apply in_map_iff in H. destruct H as [[c v] [<- _]]. cbn [fst snd].
  exists (e_pk e ++ [c] ++ pad182 v). split; [rewrite !app_length, length_pad182, Hp; reflexivity|apply key_atc_assoc].
Qed.
Lemma shape_ktc : shape keys_ktc 185.
Proof.
  intros e k _ H. unfold keys_ktc in H. apply in_map_iff in H. destruct H as [[c v] [<- _]]. cbn [fst snd].
  exists (be16 (e_kind e) ++ [c] ++ pad182 v). split; [rewrite !app_length, length_pad182; reflexivity|apply key_ktc_assoc].
Qed.

(* every entry a range scan yields belongs to a retrievable event whose key starts with the scanned prefix
   and whose created_at lies in the window *)
Lemma range_entry L ti T K n P since until k off : log_wfe L -> TabInv L ti T K -> shape K n -> length P = n ->
  since <= U64MAX -> until <= U64MAX ->
  In (k, off) (t_range T (P ++ rev_time until ++ zeros32) (P ++ rev_time since ++ ffs32)) ->
  exists x, log_find L off = Some x /\ In (e_id x, off) ti /\ In k (K x) /\
            k = P ++ rev_time (e_created x) ++ e_id x /\ since <= e_created x <= until.
Proof.
  intros Hwe [_ [S _]] Hsh HP Hs Hu Hin. apply t_range_spec in Hin. destruct Hin as [Hin [H1 H2]].
  destruct (S k off Hin) as [x [Hf [Hi Hk]]]. exists x. split; [exact Hf|]. split; [exact Hi|]. split; [exact Hk|].
  destruct (Hsh x k (Hwe _ _ Hf) Hk) as [Q [HQ ->]].
  assert (P = Q) by (eapply lex_sandwich_prefix; [congruence|exact H1|exact H2]). subst Q.
  split; [reflexivity|]. eapply key_range_window; eauto. apply (wf_ev_created _ (Hwe _ _ Hf)).
Qed.

Lemma filter_length_le {A} (p : A -> bool) l : (length (filter p l) <= length l)%nat.
Proof. induction l as [|x l IH]; cbn [filter length]; [lia|]. destruct (p x); cbn [length]; lia. Qed.
Lemma len_t_range_le T lo hi : len (t_range T lo hi) <= len T.
Proof.
  unfold t_range, len. pose proof (Permutation.Permutation_length (sort_table_perm (filter (fun e => lex_le lo (fst e) && lex_le (fst e) hi) T))) as H.
  rewrite H. pose proof (filter_length_le (fun e => lex_le lo (fst e) && lex_le (fst e) hi) T). lia.
Qed.

Section Complete.
  Variable s : db.
  Variable f : afilter.
  Variable screen : aevent -> sres.
  Hypothesis HA : StoreInv s.
  Let L := log s.
  Let c := committed s.

  Definition clive (x : aevent) : Prop := exists off, In (e_id x, off) (t_i c) /\ log_find L off = Some x.
  Definition cqual (x : aevent) : Prop := clive x /\ spec_matches f x = true /\ screen x = SMatch.
  Definition CI (q : qstate) : Prop := Forall clive (q_out q) /\ q_since q = f_since f.

  Lemma HAll : AllInv L c. Proof. destruct HA as ((_ & _ & H) & _). exact H. Qed.
  Lemma HId : id_inv s. Proof. destruct HA as (_ & H & _). exact H. Qed.
  Lemma HWe : log_wfe L. Proof. destruct HA as (_ & _ & H & _). exact H. Qed.
  Lemma HRep : RepInv L c. Proof. destruct HA as (_ & _ & _ & H). exact H. Qed.

  Lemma live_unique a b : clive a -> clive b -> e_id a = e_id b -> a = b.
  Proof.
    intros [oa [Ia Fa]] [ob [Ib Fb]] E. destruct HId as [U _]. rewrite E in Ia.
    apply (t_get_In _ _ _ U) in Ia. apply (t_get_In _ _ _ U) in Ib. assert (oa = ob) by congruence. subst ob. congruence.
  Qed.

  Lemma gebo_live off x : In (e_id x, off) (t_i c) -> log_find L off = Some x -> get_event_by_offset s off = Ok x.
  Proof.
    intros Hi Hf. destruct HId as [_ H]. destruct (H _ _ Hi) as [Hlt _]. unfold get_event_by_offset.
    destruct (N.leb_spec (log_end s) off); [lia|]. subst L. rewrite Hf. reflexivity.
  Qed.

  Lemma accept_complete q x : CI q -> clive x ->
    CI (fst (accept f screen q x)) /\
    (forall e, In e (q_out q) -> In e (q_out (fst (accept f screen q x)))) /\
    (cqual x -> In x (q_out (fst (accept f screen q x)))).
  Proof.
    intros [Hl Hs] Lx. unfold accept. destruct (spec_matches f x) eqn:Em.
    2:{ cbn [fst]. split; [split; assumption|]. split; [auto|]. intros (_ & H & _). congruence. }
    destruct (screen x) eqn:Es; cbn [fst q_out q_since].
    - unfold out_insert. destruct (existsb (same_ord x) (q_out q)) eqn:Ex.
      + split; [split; assumption|]. split; [auto|]. intros _.
        apply existsb_exists in Ex. destruct Ex as [y [Hy Hso]].
        assert (y = x); [|subst y; exact Hy].
        rewrite Forall_forall in Hl. apply live_unique; [apply Hl; exact Hy|exact Lx|].
        apply same_ord_iff in Hso. unfold okey in Hso. congruence.
      + split; [split; [constructor; assumption|exact Hs]|]. split; [intros e He; right; exact He|intros _; left; reflexivity].
    - split; [split; assumption|]. split; [auto|]. intros (_ & _ & H). congruence.
    - split; [split; assumption|]. split; [auto|]. intros (_ & _ & H). congruence.
  Qed.

  (* entries of a scan: each denotes a retrievable event not older than since *)
  Definition EP (entries : table) : Prop :=
    forall k off, In (k, off) entries -> exists x, log_find L off = Some x /\ In (e_id x, off) (t_i c) /\ f_since f <= e_created x.

  Lemma EP_tail a r : EP (a :: r) -> EP r.
  Proof. intros H k off Hin. apply (H k off). right. exact Hin. Qed.

  Lemma scan_pair_complete entries : forall repl q count q', CI q -> count + len entries < f_limit f -> EP entries ->
    (repl = true -> (length entries <= 1)%nat) ->
    scan_pair s f screen entries repl q count = Ok q' ->
    CI q' /\ (forall e, In e (q_out q) -> In e (q_out q')) /\
    (forall k off x, In (k, off) entries -> log_find L off = Some x -> cqual x -> In x (q_out q')).
  Proof.
    induction entries as [|[k0 o0] r IH]; intros repl q count q' Hq Hlim Hep Hrepl H; cbn [scan_pair] in H.
    - injection H as <-. split; [exact Hq|]. split; [auto|]. intros k off x [].
    - destruct (Hep k0 o0 (or_introl eq_refl)) as [x0 [Hf0 [Hi0 Hs0]]].
      rewrite (gebo_live o0 x0 Hi0 Hf0) in H. cbn [bind] in H.
      assert (Lx0 : clive x0) by (exists o0; split; assumption).
      destruct Hq as [Hql Hqs].
      replace (e_created x0 <? q_since q) with false in H by (rewrite Hqs; symmetry; apply N.ltb_ge; exact Hs0).
      destruct (accept_complete q x0 (conj Hql Hqs) Lx0) as (C1 & M1 & Q1).
      destruct (accept f screen q x0) as [q1 acc]. cbn [fst] in *.
      rewrite len_cons in Hlim.
      assert (Hrest : forall qq cc, CI qq -> cc + len r < f_limit f -> (forall e, In e (q_out q1) -> In e (q_out qq)) ->
                 scan_pair s f screen r repl qq cc = Ok q' -> (repl = true -> (length r <= 1)%nat) ->
                 CI q' /\ (forall e, In e (q_out q) -> In e (q_out q')) /\
                 (forall k off x, In (k, off) ((k0, o0) :: r) -> log_find L off = Some x -> cqual x -> In x (q_out q'))).
      { intros qq cc Cq Hc Mq Hsc Hr. destruct (IH repl qq cc q' Cq Hc (EP_tail _ _ Hep) Hr Hsc) as (C' & M' & Q').
        split; [exact C'|]. split; [intros e He; apply M'; apply Mq; apply M1; exact He|].
        intros k off x [[= <- <-]|Hin] Hf Hqx; [|eapply Q'; eauto].
        assert (x = x0) by congruence. subst x. apply M'. apply Mq. apply Q1. exact Hqx. }
      destruct acc.
      + replace (f_limit f <=? count + 1) with false in H by (symmetry; apply N.leb_gt; lia).
        destruct repl eqn:Er.
        * injection H as <-. specialize (Hrepl eq_refl). cbn [length] in Hrepl. assert (r = []) by (destruct r; [reflexivity|cbn [length] in Hrepl; lia]). subst r.
          split; [exact C1|]. split; [exact M1|].
          intros k off x [[= <- <-]|[]] Hf Hqx. assert (x = x0) by congruence. subst x. apply Q1. exact Hqx.
        * apply (Hrest q1 (count + 1) C1 ltac:(lia) ltac:(auto) H). discriminate.
      + apply (Hrest q1 count C1 ltac:(lia) ltac:(auto) H).
        intros Hr. specialize (Hrepl Hr). cbn [length] in Hrepl. lia.
  Qed.

  Lemma scan_author_complete entries : forall q count q', CI q -> count + len entries < f_limit f -> EP entries ->
    scan_author s f screen entries q count = Ok q' ->
    CI q' /\ (forall e, In e (q_out q) -> In e (q_out q')) /\
    (forall k off x, In (k, off) entries -> log_find L off = Some x -> cqual x -> In x (q_out q')).
  Proof.
    induction entries as [|[k0 o0] r IH]; intros q count q' Hq Hlim Hep H; cbn [scan_author] in H.
    - injection H as <-. split; [exact Hq|]. split; [auto|]. intros k off x [].
    - destruct (Hep k0 o0 (or_introl eq_refl)) as [x0 [Hf0 [Hi0 Hs0]]].
      rewrite (gebo_live o0 x0 Hi0 Hf0) in H. cbn [bind] in H.
      assert (Lx0 : clive x0) by (exists o0; split; assumption).
      replace (e_created x0 <? f_since f) with false in H by (symmetry; apply N.ltb_ge; exact Hs0).
      destruct (accept_complete q x0 Hq Lx0) as (C1 & M1 & Q1).
      destruct (accept f screen q x0) as [q1 acc]. cbn [fst] in *.
      rewrite len_cons in Hlim.
      assert (Hrest : forall cc, cc + len r < f_limit f -> scan_author s f screen r q1 cc = Ok q' ->
                 CI q' /\ (forall e, In e (q_out q) -> In e (q_out q')) /\
                 (forall k off x, In (k, off) ((k0, o0) :: r) -> log_find L off = Some x -> cqual x -> In x (q_out q'))).
      { intros cc Hc Hsc. destruct (IH q1 cc q' C1 Hc (EP_tail _ _ Hep) Hsc) as (C' & M' & Q').
        split; [exact C'|]. split; [intros e He; apply M'; apply M1; exact He|].
        intros k off x [[= <- <-]|Hin] Hf Hqx; [|eapply Q'; eauto].
        assert (x = x0) by congruence. subst x. apply M'. apply Q1. exact Hqx. }
      destruct acc.
      + replace (f_limit f <=? count + 1) with false in H by (symmetry; apply N.leb_gt; lia).
        apply (Hrest (count + 1)); [lia|exact H].
      + apply (Hrest count); [lia|exact H].
  Qed.

  Lemma accept_len q x : len (q_out (fst (accept f screen q x))) <= len (q_out q) + 1.
  Proof.
    unfold accept. destruct (spec_matches f x); [|cbn [fst]; lia]. destruct (screen x); cbn [fst q_out]; try lia.
    unfold out_insert. destruct (existsb _ _); [lia|]. rewrite len_cons. lia.
  Qed.

  Lemma scan_scrape_complete entries : forall q q', CI q -> len (q_out q) + len entries < f_limit f -> EP entries ->
    scan_scrape s f screen entries q = Ok q' ->
    CI q' /\ (forall e, In e (q_out q) -> In e (q_out q')) /\
    (forall k off x, In (k, off) entries -> log_find L off = Some x -> cqual x -> In x (q_out q')).
  Proof.
    induction entries as [|[k0 o0] r IH]; intros q q' Hq Hlim Hep H; cbn [scan_scrape] in H.
    - injection H as <-. split; [exact Hq|]. split; [auto|]. intros k off x [].
    - rewrite len_cons in Hlim.
      replace (f_limit f <=? len (q_out q)) with false in H by (symmetry; apply N.leb_gt; lia).
      destruct (Hep k0 o0 (or_introl eq_refl)) as [x0 [Hf0 [Hi0 Hs0]]].
      rewrite (gebo_live o0 x0 Hi0 Hf0) in H. cbn [bind] in H.
      assert (Lx0 : clive x0) by (exists o0; split; assumption).
      destruct (accept_complete q x0 Hq Lx0) as (C1 & M1 & Q1). pose proof (accept_len q x0) as Hlen.
      destruct (accept f screen q x0) as [q1 acc]. cbn [fst] in *.
      destruct (IH q1 q' C1 ltac:(lia) (EP_tail _ _ Hep) H) as (C' & M' & Q').
      split; [exact C'|]. split; [intros e He; apply M'; apply M1; exact He|].
      intros k off x [[= <- <-]|Hin] Hf Hqx; [|eapply Q'; eauto].
      assert (x = x0) by congruence. subst x. apply M'. apply Q1. exact Hqx.
  Qed.

  Lemma scan_ids_complete ids : forall q q', CI q -> scan_ids s f screen ids q = Ok q' ->
    CI q' /\ (forall e, In e (q_out q) -> In e (q_out q')) /\
    (forall x, In (e_id x) ids -> cqual x -> In x (q_out q')).
  Proof.
    induction ids as [|id r IH]; intros q q' Hq H; cbn [scan_ids] in H.
    - injection H as <-. split; [exact Hq|]. split; [auto|]. intros x [].
    - destruct (get_event_by_id s id) as [o| | |] eqn:Eg; cbn [bind] in H; try discriminate.
      destruct o as [x0|].
      + destruct (by_id_entry s id x0 HId Eg) as [o0 [Hi0 Hf0]].
        assert (Hidx : e_id x0 = id).
        { destruct HId as [_ Hh]. destruct (Hh _ _ Hi0) as [_ [y [Hy Hyid]]]. assert (y = x0) by congruence. subst y. exact Hyid. }
        assert (Lx0 : clive x0) by (exists o0; rewrite Hidx; split; assumption).
        destruct (accept_complete q x0 Hq Lx0) as (C1 & M1 & Q1).
        destruct (accept f screen q x0) as [q1 acc]. cbn [fst] in *.
        destruct (IH q1 q' C1 H) as (C' & M' & Q').
        split; [exact C'|]. split; [intros e He; apply M'; apply M1; exact He|].
        intros x [Hx|Hx] Hqx; [|apply Q'; assumption].
        assert (x = x0) by (apply live_unique; [apply Hqx|exact Lx0|congruence]). subst x. apply M'. apply Q1. exact Hqx.
      + destruct (IH q q' Hq H) as (C' & M' & Q'). split; [exact C'|]. split; [exact M'|].
        intros x [Hx|Hx] Hqx; [|apply Q'; assumption].
        exfalso. destruct Hqx as [[o [Hi Hf]] _]. unfold get_event_by_id in Eg. destruct HId as [U _].
        apply (t_get_In _ _ _ U) in Hi. rewrite <- Hx in Hi. unfold c in Hi. rewrite Hi in Eg.
        destruct (get_event_by_offset s o); cbn [bind] in Eg; discriminate.
  Qed.

  (* folds of scans: membership only grows, and the step that handles [a] finds what it must *)
  Lemma fold_res_complete {A} (g : qstate -> A -> res qstate) (l : list A) (Target : A -> aevent -> Prop) :
    (forall q a q', In a l -> CI q -> g q a = Ok q' ->
       CI q' /\ (forall e, In e (q_out q) -> In e (q_out q')) /\ (forall x, Target a x -> cqual x -> In x (q_out q'))) ->
    forall q q', CI q -> fold_res g l q = Ok q' ->
    CI q' /\ (forall e, In e (q_out q) -> In e (q_out q')) /\ (forall a x, In a l -> Target a x -> cqual x -> In x (q_out q')).
  Proof.
    unfold fold_res. induction l as [|a l IH]; intros Hg q q' Hq H; cbn [fold_left] in H.
    - injection H as <-. split; [exact Hq|]. split; [auto|]. intros a x [].
    - cbn [bind] in H. destruct (g q a) as [q1| | |] eqn:E1; rewrite ?E1 in H.
      + destruct (Hg q a q1 (or_introl eq_refl) Hq E1) as (C1 & M1 & Q1).
        destruct (IH (fun q0 a0 q0' Hin => Hg q0 a0 q0' (or_intror Hin)) q1 q' C1 H) as (C' & M' & Q').
        split; [exact C'|]. split; [intros e He; apply M'; apply M1; exact He|].
        intros a' x [<-|Hin] Ht Hqx; [apply M'; eapply Q1; eauto|eapply Q'; eauto].
      + exfalso. clear -H. induction l as [|b l IHl]; cbn [fold_left] in H; [discriminate|apply IHl; exact H].
      + exfalso. clear -H. induction l as [|b l IHl]; cbn [fold_left] in H; [discriminate|apply IHl; exact H].
      + exfalso. clear -H. induction l as [|b l IHl]; cbn [fold_left] in H; [discriminate|apply IHl; exact H].
  Qed.
End Complete.

(* ---------- what matching means, piece by piece ---------- *)
Lemma mem_bytes_In x l : mem_bytes x l = true -> In x l.
Proof. unfold mem_bytes. intros H. apply existsb_exists in H. destruct H as [y [Hy E]]. apply beq_eq in E. subst y. exact Hy. Qed.
Lemma mem_N_In x l : mem_N x l = true -> In x l.
Proof. unfold mem_N. intros H. apply existsb_exists in H. destruct H as [y [Hy E]]. apply N.eqb_eq in E. subst y. exact Hy. Qed.

Lemma spec_facts f x : spec_matches f x = true ->
  (f_ids f = [] \/ In (e_id x) (f_ids f)) /\ (f_authors f = [] \/ In (e_pk x) (f_authors f)) /\
  (f_kinds f = [] \/ In (e_kind x) (f_kinds f)) /\ f_since f <= e_created x /\ e_created x <= f_until f /\
  forall cst, In cst (f_tags f) -> constraint_ok (e_tags x) cst = true.
Proof.
  unfold spec_matches. rewrite !andb_true_iff. intros [[[[[H1 H2] H3] H4] H5] H6].
  split; [destruct (f_ids f); [left; reflexivity|right; apply mem_bytes_In; exact H1]|].
  split; [destruct (f_authors f); [left; reflexivity|right; apply mem_bytes_In; exact H2]|].
  split; [destruct (f_kinds f); [left; reflexivity|right; apply mem_N_In; exact H3]|].
  split; [lia|]. split; [lia|]. intros cst Hc. rewrite forallb_forall in H6. apply H6. exact Hc.
Qed.

Lemma indexable_In c v rest ts : In ([c] :: v :: rest) ts -> In (c, v) (indexable_tags ts).
Proof.
  induction ts as [|t r IH]; intros H; [destruct H|]. destruct H as [->|H].
  - cbn [indexable_tags]. left. reflexivity.
  - specialize (IH H). cbn [indexable_tags]. destruct t as [|n [|v' rest']]; try exact IH.
    destruct n as [|c1 [|c2 n']]; try exact IH. right. exact IH.
Qed.

Lemma constraint_hit etags letter vals : constraint_ok etags ([letter] :: vals) = true ->
  exists v, In v vals /\ In (letter, v) (indexable_tags etags).
Proof.
  cbn [constraint_ok]. intros H. apply existsb_exists in H. destruct H as [t [Ht Hh]].
  unfold tag_hits in Hh. destruct t as [|n [|v rest]]; try discriminate.
  apply andb_true_iff in Hh. destruct Hh as [Hn Hv]. apply beq_eq in Hn. subst n.
  exists v. split; [apply mem_bytes_In; exact Hv|eapply indexable_In; eauto].
Qed.

Lemma tag_ranges_In f rs : tag_ranges f = Ok rs ->
  forall letter nm vals v, In ((letter :: nm) :: vals) (f_tags f) -> In v vals -> In (letter, v) rs.
Proof.
  unfold tag_ranges.
  assert (Gen : forall l r0 rs', fold_left (fun r (c : list bytes) => acc <- r ;;
        match c with
        | [] => Ok acc
        | name :: vals => match vals with [] => Ok acc | _ => match name with [] => Panic | letter :: _ => Ok (acc ++ map (fun v => (letter, v)) vals) end end
        end) l r0 = Ok rs' ->
      exists acc0, r0 = Ok acc0 /\ (forall p, In p acc0 -> In p rs') /\
        forall letter nm vals v, In ((letter :: nm) :: vals) l -> In v vals -> In (letter, v) rs').
  { induction l as [|cst l IH]; intros r0 rs' H; cbn [fold_left] in H.
    - exists rs'. split; [exact H|]. split; [auto|]. intros letter nm vals v [].
    - destruct (IH _ _ H) as [acc1 [E1 [Sub Hl]]].
      destruct r0 as [acc0| | |]; cbn [bind] in E1; try discriminate.
      exists acc0. split; [reflexivity|].
      destruct cst as [|name vals0].
      + injection E1 as <-. split; [exact Sub|]. intros letter nm vals v [Hc|Hc]; [discriminate|eapply Hl; eauto].
      + destruct vals0 as [|v0 vs0].
        * injection E1 as <-. split; [exact Sub|]. intros letter nm vals v [Hc|Hc] Hv; [injection Hc as _ <-; destruct Hv|eapply Hl; eauto].
        * destruct name as [|letter0 nm0]; [discriminate|]. injection E1 as <-.
          split; [intros p Hp; apply Sub; apply in_or_app; left; exact Hp|].
          intros letter nm vals v [Hc|Hc] Hv; [|eapply Hl; eauto].
          injection Hc as <- <- <-. apply Sub. apply in_or_app. right. exact (in_map (fun v1 : bytes => (letter0, v1)) (v0 :: vs0) v Hv). }
  intros H letter nm vals v Hin Hv. destruct (Gen _ _ _ H) as [acc0 [_ [_ Hl]]]. eapply Hl; eauto.
Qed.

Lemma NoDup_all_equal_length {A} (l : list A) : NoDup l -> (forall a b, In a l -> In b l -> a = b) -> (length l <= 1)%nat.
Proof.
  intros Hn He. destruct l as [|a [|b r]]; cbn [length]; try lia.
  exfalso. inversion Hn as [|? ? Hna _]; subst. apply Hna. left. apply He; [right; left; reflexivity|left; reflexivity].
Qed.

Lemma t_range_keys_unique T lo hi : keys_unique T -> NoDup (map fst (t_range T lo hi)).
Proof.
  intros U. unfold t_range. eapply Permutation.Permutation_NoDup; [apply Permutation.Permutation_map; apply Permutation.Permutation_sym; apply sort_table_perm|].
  unfold keys_unique in U. induction T as [|[k v] r IH]; cbn [filter map]; [constructor|].
  inversion U as [|? ? Hn Hr]; subst. destruct (lex_le lo (fst (k, v)) && lex_le (fst (k, v)) hi); [|apply IH; exact Hr].
  cbn [map fst]. constructor; [|apply IH; exact Hr]. intros Hin. apply Hn. apply in_map_iff in Hin. destruct Hin as [[k' v'] [E Hin]].
  apply filter_In in Hin. apply in_map_iff. exists (k', v'). split; [exact E|apply Hin].
Qed.

(* ---------- the plans ---------- *)
Section Plans.
  Variable s : db.
  Variable f : afilter.
  Variable screen : aevent -> sres.
  Hypothesis HA : StoreInv s.
  Let L := log s.
  Let c := committed s.
  Hypothesis Huntil : f_until f <= U64MAX.
  Hypothesis Hsince : f_since f <= U64MAX.
  Hypothesis Hauth : Forall (fun a => length a = 32%nat) (f_authors f).
  Hypothesis Hkinds : Forall (fun k => k < 65536) (f_kinds f).
  Hypothesis Hletters : Forall (fun cst => match cst with name :: _ => length name = 1%nat | [] => False end) (f_tags f).
  Hypothesis Hbig : forall T, In T [t_ci c; t_ac c; t_akc c; t_tc c; t_atc c; t_ktc c] -> len T < f_limit f.

  Notation clive := (clive s).
  Notation cqual := (cqual s f screen).
  Notation CI := (CI s f).

  (* one range scan of table T under prefix P *)
  Lemma scan_range T K n P repl q q' :
    In T [t_ci c; t_ac c; t_akc c; t_tc c; t_atc c; t_ktc c] -> TabInv L (t_i c) T K -> shape K n -> length P = n ->
    CI q ->
    (repl = true -> (length (t_range T (P ++ rev_time (f_until f) ++ zeros32) (P ++ rev_time (f_since f) ++ ffs32)) <= 1)%nat) ->
    scan_pair s f screen (t_range T (P ++ rev_time (f_until f) ++ zeros32) (P ++ rev_time (q_since q) ++ ffs32)) repl q 0 = Ok q' ->
    CI q' /\ (forall e, In e (q_out q) -> In e (q_out q')) /\
    (forall x k, clive x -> In k (K x) -> k = P ++ rev_time (e_created x) ++ e_id x -> cqual x -> In x (q_out q')).
  Proof.
    intros HT HTK Hsh HP Hq Hrepl H. destruct Hq as [Hql Hqs]. rewrite Hqs in H.
    set (entries := t_range T (P ++ rev_time (f_until f) ++ zeros32) (P ++ rev_time (f_since f) ++ ffs32)) in *.
    assert (Hep : EP s f entries).
    { intros k off Hin. destruct (range_entry L (t_i c) T K n P (f_since f) (f_until f) k off (HWe s HA) HTK Hsh HP Hsince Huntil Hin)
        as [x [Hf [Hi [_ [_ [Hw _]]]]]]. exists x. repeat split; assumption. }
    assert (Hlim : 0 + len entries < f_limit f).
    { pose proof (len_t_range_le T (P ++ rev_time (f_until f) ++ zeros32) (P ++ rev_time (f_since f) ++ ffs32)). specialize (Hbig T HT). subst entries. lia. }
    destruct (scan_pair_complete s f screen HA entries repl q 0 q' (conj Hql Hqs) Hlim Hep Hrepl H) as (C' & M' & Q').
    split; [exact C'|]. split; [exact M'|].
    intros x k [off [Hi Hf]] Hk Hkey Hqx.
    destruct (spec_facts f x (proj1 (proj2 Hqx))) as (_ & _ & _ & Hs1 & Hs2 & _).
    apply (Q' k off x); [|exact Hf|exact Hqx].
    subst entries. eapply (range_complete L (t_i c) T K); eauto.
    - rewrite Hkey. apply (proj1 (key_in_range P (f_since f) _ (f_until f) _ (proj1 (HWe s HA _ _ Hf)) Hs1 Hs2 Huntil)).
    - rewrite Hkey. apply (proj2 (key_in_range P (f_since f) _ (f_until f) _ (proj1 (HWe s HA _ _ Hf)) Hs1 Hs2 Huntil)).
  Qed.

  Lemma HAllc : AllInv L c. Proof. apply (HAll s HA). Qed.

  (* replaceable kinds: the author-kind range holds at most one entry *)
  Lemma akc_range_single a k : length a = 32%nat -> k < 65536 -> is_replaceable k = true ->
    (length (t_range (t_akc c) ((a ++ be16 k) ++ rev_time (f_until f) ++ zeros32) ((a ++ be16 k) ++ rev_time (f_since f) ++ ffs32)) <= 1)%nat.
  Proof.
    intros Ha Hk Hr. destruct HAllc as (_ & _ & _ & B3 & _).
    set (entries := t_range _ _ _).
    assert (Hu : NoDup (map fst entries)) by (apply t_range_keys_unique; apply B3).
    assert (Hall : forall p1 p2, In p1 entries -> In p2 entries -> p1 = p2).
    { intros [k1 o1] [k2 o2] H1 H2.
      destruct (range_entry L (t_i c) (t_akc c) keys_akc 34 (a ++ be16 k) (f_since f) (f_until f) k1 o1 (HWe s HA) B3 shape_akc) as [x1 [F1 [I1 [K1 [E1 _]]]]];
        [rewrite app_length, Ha; reflexivity|exact Hsince|exact Huntil|exact H1|].
      destruct (range_entry L (t_i c) (t_akc c) keys_akc 34 (a ++ be16 k) (f_since f) (f_until f) k2 o2 (HWe s HA) B3 shape_akc) as [x2 [F2 [I2 [K2 [E2 _]]]]];
        [rewrite app_length, Ha; reflexivity|exact Hsince|exact Huntil|exact H2|].
      assert (Hx : forall x kk, wf_ev x -> In kk (keys_akc x) -> kk = (a ++ be16 k) ++ rev_time (e_created x) ++ e_id x -> e_pk x = a /\ e_kind x = k).
      { intros x kk (_ & _ & Hp & Hkd) [<-|[]] E. rewrite key_akc_assoc in E.
        apply app_inj_len in E; [|rewrite !app_length, Hp, Ha; reflexivity]. destruct E as [E _].
        apply app_inj_len in E; [|congruence]. destruct E as [E1' E2']. split; [exact E1'|apply be16_inj; assumption]. }
      destruct (Hx x1 k1 (HWe s HA _ _ F1) K1 E1) as [P1 Q1]. destruct (Hx x2 k2 (HWe s HA _ _ F2) K2 E2) as [P2 Q2].
      assert (o1 = o2).
      { eapply (HRep s HA); eauto. split; [congruence|]. split; [congruence|]. left. rewrite Q1. exact Hr. }
      subst o2. assert (x1 = x2) by congruence. subst x2. congruence. }
    assert (Hlen : (length (map fst entries) <= 1)%nat).
    { apply NoDup_all_equal_length; [exact Hu|]. intros k1 k2 H1 H2. apply in_map_iff in H1. apply in_map_iff in H2.
      destruct H1 as [p1 [<- H1]]. destruct H2 as [p2 [<- H2]]. rewrite (Hall p1 p2 H1 H2). reflexivity. }
    rewrite map_length in Hlen. exact Hlen.
  Qed.

  Lemma In_tables_ci : In (t_ci c) [t_ci c; t_ac c; t_akc c; t_tc c; t_atc c; t_ktc c]. Proof. left. reflexivity. Qed.
  Lemma In_tables_ac : In (t_ac c) [t_ci c; t_ac c; t_akc c; t_tc c; t_atc c; t_ktc c]. Proof. right. left. reflexivity. Qed.
  Lemma In_tables_akc : In (t_akc c) [t_ci c; t_ac c; t_akc c; t_tc c; t_atc c; t_ktc c]. Proof. do 2 right. left. reflexivity. Qed.
  Lemma In_tables_tc : In (t_tc c) [t_ci c; t_ac c; t_akc c; t_tc c; t_atc c; t_ktc c]. Proof. do 3 right. left. reflexivity. Qed.
  Lemma In_tables_atc : In (t_atc c) [t_ci c; t_ac c; t_akc c; t_tc c; t_atc c; t_ktc c]. Proof. do 4 right. left. reflexivity. Qed.
  Lemma In_tables_ktc : In (t_ktc c) [t_ci c; t_ac c; t_akc c; t_tc c; t_atc c; t_ktc c]. Proof. do 5 right. left. reflexivity. Qed.

  (* the step of each plan *)
  Lemma step_akc a k q q' : length a = 32%nat -> k < 65536 -> CI q ->
    scan_pair s f screen (akc_range c a k (q_since q) (f_until f)) (is_replaceable k) q 0 = Ok q' ->
    CI q' /\ (forall e, In e (q_out q) -> In e (q_out q')) /\ (forall x, e_pk x = a /\ e_kind x = k -> cqual x -> In x (q_out q')).
  Proof.
    intros Ha Hk Hq H. unfold akc_range in H. rewrite !key_akc_assoc in H.
    destruct HAllc as (_ & _ & _ & B3 & _).
    destruct (scan_range (t_akc c) keys_akc 34 (a ++ be16 k) (is_replaceable k) q q' In_tables_akc B3 shape_akc) as (C' & M' & Q');
      [rewrite app_length, Ha; reflexivity|exact Hq|apply akc_range_single; assumption|exact H|].
    split; [exact C'|]. split; [exact M'|]. intros x [<- <-] Hqx.
    apply (Q' x (key_akc (e_pk x) (e_kind x) (e_created x) (e_id x))); [apply Hqx|left; reflexivity|apply key_akc_assoc|exact Hqx].
  Qed.

  Lemma step_ac a q q' : length a = 32%nat -> CI q ->
    scan_author s f screen (ac_range c a (q_since q) (f_until f)) q 0 = Ok q' ->
    CI q' /\ (forall e, In e (q_out q) -> In e (q_out q')) /\ (forall x, e_pk x = a -> cqual x -> In x (q_out q')).
  Proof.
    intros Ha Hq H. unfold ac_range, key_ac in H. destruct Hq as [Hql Hqs]. rewrite Hqs in H.
    destruct HAllc as (_ & _ & B2 & _).
    set (entries := t_range (t_ac c) (a ++ rev_time (f_until f) ++ zeros32) (a ++ rev_time (f_since f) ++ ffs32)) in *.
    assert (Hep : EP s f entries).
    { intros k off Hin. destruct (range_entry L (t_i c) (t_ac c) keys_ac 32 a (f_since f) (f_until f) k off (HWe s HA) B2 shape_ac Ha Hsince Huntil Hin)
        as [x [Hf [Hi [_ [_ [Hw _]]]]]]. exists x. repeat split; assumption. }
    assert (Hlim : 0 + len entries < f_limit f).
    { pose proof (len_t_range_le (t_ac c) (a ++ rev_time (f_until f) ++ zeros32) (a ++ rev_time (f_since f) ++ ffs32)). specialize (Hbig _ In_tables_ac). subst entries. lia. }
    destruct (scan_author_complete s f screen HA entries q 0 q' (conj Hql Hqs) Hlim Hep H) as (C' & M' & Q').
    split; [exact C'|]. split; [exact M'|]. intros x <- Hqx. destruct Hqx as [[off [Hi Hf]] [Hm Hs]].
    destruct (spec_facts f x Hm) as (_ & _ & _ & Hs1 & Hs2 & _).
    apply (Q' (key_ac (e_pk x) (e_created x) (e_id x)) off x); [|exact Hf|split; [exists off; split; assumption|split; assumption]].
    subst entries. eapply (range_complete L (t_i c) (t_ac c) keys_ac); eauto; [left; reflexivity| |]; unfold key_ac.
    - apply (proj1 (key_in_range (e_pk x) (f_since f) _ (f_until f) _ (proj1 (HWe s HA _ _ Hf)) Hs1 Hs2 Huntil)).
    - apply (proj2 (key_in_range (e_pk x) (f_since f) _ (f_until f) _ (proj1 (HWe s HA _ _ Hf)) Hs1 Hs2 Huntil)).
  Qed.

  Lemma step_atc a lv q q' : length a = 32%nat -> CI q ->
    scan_pair s f screen (atc_range c a (fst lv) (snd lv) (q_since q) (f_until f)) false q 0 = Ok q' ->
    CI q' /\ (forall e, In e (q_out q) -> In e (q_out q')) /\
    (forall x, e_pk x = a /\ In lv (indexable_tags (e_tags x)) -> cqual x -> In x (q_out q')).
  Proof.
    intros Ha Hq H. destruct lv as [l v]. cbn [fst snd] in H. unfold atc_range in H. rewrite !key_atc_assoc in H.
    destruct HAllc as (_ & _ & _ & _ & _ & B5 & _).
    destruct (scan_range (t_atc c) keys_atc 215 (a ++ [l] ++ pad182 v) false q q' In_tables_atc B5 shape_atc) as (C' & M' & Q');
      [rewrite !app_length, length_pad182, Ha; reflexivity|exact Hq|discriminate|exact H|].
    split; [exact C'|]. split; [exact M'|]. intros x [<- Hin] Hqx.
    apply (Q' x (key_atc (e_pk x) l v (e_created x) (e_id x))); [apply Hqx| |apply key_atc_assoc|exact Hqx].
    unfold keys_atc. apply in_map_iff. exists (l, v). split; [reflexivity|exact Hin].
  Qed.

  Lemma step_ktc k lv q q' : CI q ->
    scan_pair s f screen (ktc_range c k (fst lv) (snd lv) (q_since q) (f_until f)) false q 0 = Ok q' ->
    CI q' /\ (forall e, In e (q_out q) -> In e (q_out q')) /\
    (forall x, e_kind x = k /\ In lv (indexable_tags (e_tags x)) -> cqual x -> In x (q_out q')).
  Proof.
    intros Hq H. destruct lv as [l v]. cbn [fst snd] in H. unfold ktc_range in H. rewrite !key_ktc_assoc in H.
    destruct HAllc as (_ & _ & _ & _ & _ & _ & B6).
    destruct (scan_range (t_ktc c) keys_ktc 185 (be16 k ++ [l] ++ pad182 v) false q q' In_tables_ktc B6 shape_ktc) as (C' & M' & Q');
      [rewrite !app_length, length_pad182; reflexivity|exact Hq|discriminate|exact H|].
    split; [exact C'|]. split; [exact M'|]. intros x [<- Hin] Hqx.
    apply (Q' x (key_ktc (e_kind x) l v (e_created x) (e_id x))); [apply Hqx| |apply key_ktc_assoc|exact Hqx].
    unfold keys_ktc. apply in_map_iff. exists (l, v). split; [reflexivity|exact Hin].
  Qed.

  Lemma step_tc lv q q' : CI q ->
    scan_pair s f screen (tc_range c (fst lv) (snd lv) (q_since q) (f_until f)) false q 0 = Ok q' ->
    CI q' /\ (forall e, In e (q_out q) -> In e (q_out q')) /\
    (forall x, In lv (indexable_tags (e_tags x)) -> cqual x -> In x (q_out q')).
  Proof.
    intros Hq H. destruct lv as [l v]. cbn [fst snd] in H. unfold tc_range in H. rewrite !key_tc_assoc in H.
    destruct HAllc as (_ & _ & _ & _ & B4 & _).
    destruct (scan_range (t_tc c) keys_tc 183 ([l] ++ pad182 v) false q q' In_tables_tc B4 shape_tc) as (C' & M' & Q');
      [rewrite !app_length, length_pad182; reflexivity|exact Hq|discriminate|exact H|].
    split; [exact C'|]. split; [exact M'|]. intros x Hin Hqx.
    apply (Q' x (key_tc l v (e_created x) (e_id x))); [apply Hqx| |apply key_tc_assoc|exact Hqx].
    unfold keys_tc. apply in_map_iff. exists (l, v). split; [reflexivity|exact Hin].
  Qed.

  (* the scrape plan *)
  Lemma step_ci q q' : CI q -> q_out q = [] ->
    scan_scrape s f screen (ci_range c (f_since f) (f_until f)) q = Ok q' ->
    CI q' /\ (forall x, cqual x -> In x (q_out q')).
  Proof.
    intros Hq Hempty H. unfold ci_range, key_ci in H. destruct HAllc as (_ & B1 & _).
    set (entries := t_range (t_ci c) (rev_time (f_until f) ++ zeros32) (rev_time (f_since f) ++ ffs32)) in *.
    assert (Hep : EP s f entries).
    { intros k off Hin. destruct (range_entry L (t_i c) (t_ci c) keys_ci 0 [] (f_since f) (f_until f) k off (HWe s HA) B1 shape_ci eq_refl Hsince Huntil Hin)
        as [x [Hf [Hi [_ [_ [Hw _]]]]]]. exists x. repeat split; assumption. }
    assert (Hlim : len (q_out q) + len entries < f_limit f).
    { rewrite Hempty. pose proof (len_t_range_le (t_ci c) (rev_time (f_until f) ++ zeros32) (rev_time (f_since f) ++ ffs32)).
      specialize (Hbig _ In_tables_ci). subst entries. unfold len at 1. cbn [length N.of_nat]. lia. }
    destruct (scan_scrape_complete s f screen HA entries q q' Hq Hlim Hep H) as (C' & M' & Q').
    split; [exact C'|]. intros x Hqx. destruct Hqx as [[off [Hi Hf]] [Hm Hs]].
    destruct (spec_facts f x Hm) as (_ & _ & _ & Hs1 & Hs2 & _).
    apply (Q' (key_ci (e_created x) (e_id x)) off x); [|exact Hf|split; [exists off; split; assumption|split; assumption]].
    subst entries. eapply (range_complete L (t_i c) (t_ci c) keys_ci); eauto; [left; reflexivity| |]; unfold key_ci.
    - apply (proj1 (time_id_in_window (f_since f) _ (f_until f) _ (proj1 (HWe s HA _ _ Hf)) Hs1 Hs2 Huntil)).
    - apply (proj2 (time_id_in_window (f_since f) _ (f_until f) _ (proj1 (HWe s HA _ _ Hf)) Hs1 Hs2 Huntil)).
  Qed.

  Variable now : N.
  Variables (allow_scraping : bool) (allow_limit : N) (allow_seconds : N).

  (* a qualifying event satisfies the first tag constraint through one of the scanned (letter, value) ranges *)
  Lemma first_constraint_range x t ts rs : f_tags f = t :: ts -> tag_ranges f = Ok rs -> spec_matches f x = true ->
    exists lv, In lv rs /\ In lv (indexable_tags (e_tags x)).
  Proof.
    intros Et Hr Hm. destruct (spec_facts f x Hm) as (_ & _ & _ & _ & _ & Hc).
    assert (Ht : In t (f_tags f)) by (rewrite Et; left; reflexivity).
    specialize (Hc t Ht). pose proof (proj1 (Forall_forall _ _) Hletters t Ht) as Hl.
    destruct t as [|name vals]; [destruct Hl|].
    destruct name as [|letter [|b nm]]; cbn [length] in Hl; try discriminate.
    destruct (constraint_hit _ _ _ Hc) as [v [Hv Hin]].
    exists (letter, v). split; [eapply tag_ranges_In; eauto|exact Hin].
  Qed.

  Theorem find_events_q_complete q' : find_events_q s f screen now allow_scraping allow_limit allow_seconds = Ok q' ->
    CI q' /\ forall x, cqual x -> In x (q_out q').
  Proof.
    unfold find_events_q. set (q0 := mkQ [] false (f_since f)).
    assert (H0 : CI q0) by (split; [constructor|reflexivity]).
    pose proof (proj1 (Forall_forall _ _) Hauth) as Hauth'. pose proof (proj1 (Forall_forall _ _) Hkinds) as Hkinds'.
    destruct (f_ids f) as [|i ids] eqn:Ei.
    2:{ intros H. destruct (scan_ids_complete s f screen HA (i :: ids) q0 q' H0 H) as (C' & _ & Q'). split; [exact C'|].
        intros x Hqx. apply Q'; [|exact Hqx]. destruct (spec_facts f x (proj1 (proj2 Hqx))) as ([E|E] & _); [rewrite Ei in E; discriminate|rewrite Ei in E; exact E]. }
    fold c.
    case_eq (f_authors f); [intros Ea|intros a au Ea]; (case_eq (f_kinds f); [intros Ek|intros kd ks Ek]);
      (case_eq (f_tags f); [intros Et|intros t ts Et]); rewrite Ea in Hauth'; rewrite Ek in Hkinds'.
    - (* scrape *) destruct (negb _); [discriminate|]. intros H. apply (step_ci q0 q' H0 eq_refl H).
    - (* tags only *)
      destruct (tag_ranges f) as [rs| | |] eqn:Er; cbn [bind]; try discriminate. intros H.
      destruct (fold_res_complete s f screen _ rs (fun lv x => In lv (indexable_tags (e_tags x)))
                  (fun q lv q1 _ Hq Hs => step_tc lv q q1 Hq Hs) q0 q' H0 H) as (C' & _ & Q').
      split; [exact C'|]. intros x Hqx. destruct (first_constraint_range x t ts rs Et Er (proj1 (proj2 Hqx))) as [lv [H1 H2]].
      eapply Q'; eauto.
    - (* kinds only: scrape *) destruct (negb _); [discriminate|]. intros H. apply (step_ci q0 q' H0 eq_refl H).
    - (* kinds + tags *)
      destruct (tag_ranges f) as [rs| | |] eqn:Er; cbn [bind]; try discriminate. intros H.
      destruct (fold_res_complete s f screen _ (kd :: ks) (fun k x => e_kind x = k)
                  (fun q k q1 _ Hq Hs =>
                     let '(conj C1 (conj M1 Q1)) := fold_res_complete s f screen _ rs (fun lv x => e_kind x = k /\ In lv (indexable_tags (e_tags x)))
                        (fun q2 lv q3 _ Hq2 Hs2 => step_ktc k lv q2 q3 Hq2 Hs2) q q1 Hq Hs in
                     conj C1 (conj M1 (fun x Hk Hqx =>
                       let '(ex_intro _ lv (conj H1 H2)) := first_constraint_range x t ts rs Et Er (proj1 (proj2 Hqx)) in
                       Q1 lv x H1 (conj Hk H2) Hqx))) q0 q' H0 H) as (C' & _ & Q').
      split; [exact C'|]. intros x Hqx. destruct (spec_facts f x (proj1 (proj2 Hqx))) as (_ & _ & [E|E] & _); [rewrite Ek in E; discriminate|].
      rewrite Ek in E. eapply Q'; eauto.
    - (* authors only *)
      intros H.
      destruct (fold_res_complete s f screen _ (a :: au) (fun a0 x => e_pk x = a0)
                  (fun q a0 q1 Hin Hq Hs => step_ac a0 q q1 (Hauth' a0 Hin) Hq Hs) q0 q' H0 H) as (C' & _ & Q').
      split; [exact C'|]. intros x Hqx. destruct (spec_facts f x (proj1 (proj2 Hqx))) as (_ & [E|E] & _); [rewrite Ea in E; discriminate|].
      rewrite Ea in E. eapply Q'; eauto.
    - (* authors + tags *)
      destruct (tag_ranges f) as [rs| | |] eqn:Er; cbn [bind]; try discriminate. intros H.
      destruct (fold_res_complete s f screen _ (a :: au) (fun a0 x => e_pk x = a0)
                  (fun q a0 q1 Hin Hq Hs =>
                     let '(conj C1 (conj M1 Q1)) := fold_res_complete s f screen _ rs (fun lv x => e_pk x = a0 /\ In lv (indexable_tags (e_tags x)))
                        (fun q2 lv q3 _ Hq2 Hs2 => step_atc a0 lv q2 q3 (Hauth' a0 Hin) Hq2 Hs2) q q1 Hq Hs in
                     conj C1 (conj M1 (fun x Hk Hqx =>
                       let '(ex_intro _ lv (conj H1 H2)) := first_constraint_range x t ts rs Et Er (proj1 (proj2 Hqx)) in
                       Q1 lv x H1 (conj Hk H2) Hqx))) q0 q' H0 H) as (C' & _ & Q').
      split; [exact C'|]. intros x Hqx. destruct (spec_facts f x (proj1 (proj2 Hqx))) as (_ & [E|E] & _); [rewrite Ea in E; discriminate|].
      rewrite Ea in E. eapply Q'; eauto.
    - (* authors + kinds *)
      intros H.
      destruct (fold_res_complete s f screen _ (a :: au) (fun a0 x => e_pk x = a0 /\ In (e_kind x) (kd :: ks))
                  (fun q a0 q1 Hin Hq Hs =>
                     let '(conj C1 (conj M1 Q1)) := fold_res_complete s f screen _ (kd :: ks) (fun k x => e_pk x = a0 /\ e_kind x = k)
                        (fun q2 k q3 Hink Hq2 Hs2 => step_akc a0 k q2 q3 (Hauth' a0 Hin) (Hkinds' k Hink) Hq2 Hs2) q q1 Hq Hs in
                     conj C1 (conj M1 (fun x Hk Hqx => Q1 (e_kind x) x (proj2 Hk) (conj (proj1 Hk) eq_refl) Hqx))) q0 q' H0 H) as (C' & _ & Q').
      split; [exact C'|]. intros x Hqx. destruct (spec_facts f x (proj1 (proj2 Hqx))) as (_ & [E|E] & [E2|E2] & _);
        try (rewrite Ea in E; discriminate); try (rewrite Ek in E2; discriminate).
      rewrite Ea in E. rewrite Ek in E2. eapply Q'; eauto.
    - (* authors + kinds + tags: the author-kind plan, the tag constraints only filter *)
      intros H.
      destruct (fold_res_complete s f screen _ (a :: au) (fun a0 x => e_pk x = a0 /\ In (e_kind x) (kd :: ks))
                  (fun q a0 q1 Hin Hq Hs =>
                     let '(conj C1 (conj M1 Q1)) := fold_res_complete s f screen _ (kd :: ks) (fun k x => e_pk x = a0 /\ e_kind x = k)
                        (fun q2 k q3 Hink Hq2 Hs2 => step_akc a0 k q2 q3 (Hauth' a0 Hin) (Hkinds' k Hink) Hq2 Hs2) q q1 Hq Hs in
                     conj C1 (conj M1 (fun x Hk Hqx => Q1 (e_kind x) x (proj2 Hk) (conj (proj1 Hk) eq_refl) Hqx))) q0 q' H0 H) as (C' & _ & Q').
      split; [exact C'|]. intros x Hqx. destruct (spec_facts f x (proj1 (proj2 Hqx))) as (_ & [E|E] & [E2|E2] & _);
        try (rewrite Ea in E; discriminate); try (rewrite Ek in E2; discriminate).
      rewrite Ea in E. rewrite Ek in E2. eapply Q'; eauto.
  Qed.
End Plans.

(* ---------- the theorem ---------- *)
Lemma ltake_all {A} n (l : list A) : len l < n -> ltake n l = l.
Proof.
  revert n; induction l as [|x l IH]; intros n H; cbn [ltake]; [reflexivity|].
  rewrite len_cons in H. destruct (N.eqb_spec n 0); [lia|]. f_equal. apply IH. lia.
Qed.

Definition filter_ok (f : afilter) : Prop :=
  f_until f <= U64MAX /\ f_since f <= U64MAX /\
  Forall (fun a => length a = 32%nat) (f_authors f) /\ Forall (fun k => k < 65536) (f_kinds f) /\
  Forall (fun cst => match cst with name :: _ => length name = 1%nat | [] => False end) (f_tags f).

(* the limit exceeds the size of every index table: no scan is cut short *)
Definition limit_exceeds_store (s : db) (f : afilter) : Prop :=
  let c := committed s in forall T, In T [t_ci c; t_ac c; t_akc c; t_tc c; t_atc c; t_ktc c] -> len T < f_limit f.

Theorem find_events_exact s f screen now allow_scraping allow_limit allow_seconds out red :
  StoreInv s -> filter_ok f -> limit_exceeds_store s f ->
  find_events s f screen now allow_scraping allow_limit allow_seconds = Ok (out, red) ->
  forall x, In x out <-> cqual s f screen x.
Proof.
  intros HA (F1 & F2 & F3 & F4 & F5) Hbig H x. unfold find_events in H.
  destruct (find_events_q s f screen now allow_scraping allow_limit allow_seconds) as [q| | |] eqn:Eq; cbn [bind] in H; try discriminate.
  injection H as <- <-.
  destruct (find_events_q_complete s f screen HA F1 F2 F3 F4 F5 Hbig now allow_scraping allow_limit allow_seconds q Eq) as [[Hlive _] Hall].
  destruct (find_events_q_inv s f screen now allow_scraping allow_limit allow_seconds q Eq) as [Hgood [Hnd _]].
  (* the answer is not truncated *)
  assert (Hlen : len (sort_desc (q_out q)) < f_limit f).
  { assert (Hids : NoDup (map e_id (q_out q))).
    { clear -Hnd Hlive HA. induction (q_out q) as [|a r IH]; cbn [map]; [constructor|].
      inversion Hnd as [|? ? Hn Hr]; subst. inversion Hlive as [|? ? La Lr]; subst.
      constructor; [|apply IH; assumption]. intros Hin. apply Hn. apply in_map_iff in Hin. destruct Hin as [b [Eb Hb]].
      rewrite Forall_forall in Lr. assert (b = a) by (apply (live_unique s HA); [apply Lr; exact Hb|exact La|exact Eb]). subst b.
      apply in_map_iff. exists a. split; [reflexivity|exact Hb]. }
    assert (Hincl : incl (map e_id (q_out q)) (map fst (t_i (committed s)))).
    { intros id Hin. apply in_map_iff in Hin. destruct Hin as [a [<- Ha]]. rewrite Forall_forall in Hlive.
      destruct (Hlive a Ha) as [off [Hi _]]. apply in_map_iff. exists (e_id a, off). split; [reflexivity|exact Hi]. }
    pose proof (NoDup_incl_length Hids Hincl) as Hle. rewrite !map_length in Hle.
    destruct (HAll s HA) as (A0 & B1 & _).
    pose proof (single_key_count _ _ _ _ A0 B1 (fun e => ex_intro _ _ eq_refl)) as Hc.
    pose proof (Hbig (t_ci (committed s)) (or_introl eq_refl)) as Hb.
    pose proof (Permutation.Permutation_length (sort_desc_perm (q_out q))) as Hp.
    unfold len in *. lia. }
  rewrite ltake_all by exact Hlen. rewrite sort_desc_In. split.
  - intros Hin. rewrite Forall_forall in Hlive, Hgood. destruct (Hgood x Hin) as (_ & Hm & Hs).
    split; [apply Hlive; exact Hin|split; assumption].
  - apply Hall.
Qed.

Corollary find_events_exact_reachable ops names f screen now allow_scraping allow_limit allow_seconds out red :
  ops_wfe ops -> let s := c_run ops (db_init names) in
  filter_ok f -> limit_exceeds_store s f ->
  find_events s f screen now allow_scraping allow_limit allow_seconds = Ok (out, red) ->
  forall x, In x out <-> (get_event_by_id s (e_id x) = Ok (Some x) /\ spec_matches f x = true /\ screen x = SMatch).
Proof.
  intros Hops s Hf Hb H x. pose proof (c_run_StoreInv ops _ Hops (StoreInv_init names)) as HA. fold s in HA.
  rewrite (find_events_exact s f screen now allow_scraping allow_limit allow_seconds out red HA Hf Hb H x).
  unfold cqual, clive. destruct HA as (_ & Hid & _).
  split; intros (Hl & Hm & Hs); (split; [|split; assumption]).
  - destruct Hl as [off [Hi Hfnd]]. destruct Hid as [U Hh]. destruct (Hh _ _ Hi) as [Hlt _].
    unfold get_event_by_id. apply (t_get_In _ _ _ U) in Hi. rewrite Hi. unfold get_event_by_offset.
    destruct (N.leb_spec (log_end s) off); [lia|]. rewrite Hfnd. reflexivity.
  - destruct (by_id_entry s _ _ Hid Hl) as [off [Hi Hfnd]]. exists off. split; assumption.
Qed.
