(* DbQueryNewest.v — the newest-k clause of C05 for the CONCRETE planner, for every reachable state and EVERY
   limit, including limits that cut scans short (the moving-since optimisation, the per-scan counters, the
   early stop of the scrape plan):
     every retrievable event that matches the filter and passes the screen is either in the answer, or
     the answer is full (limit events) and every event in it is at least as new.
   With soundness (DbQuerySound.v: results qualify, newest first, no duplicates, at most limit) this says the
   answer is the limit newest qualifying events, ties at the cut chosen arbitrarily - whichever plan serves
   the filter.  (DbQueryComplete.v is the special case where the limit exceeds every table.) *)
From Pocket Require Import Db ADb ADbProofs DbProofs TableProofs DbIdInv DbIndexInv KeyOrder DbAddr DbQuerySound DbQueryComplete.
From Coq Require Import Permutation.

(* ---------- counting the events at or above a time ---------- *)
Definition cge (out : list aevent) (t : N) : N := len (filter (fun y => t <=? e_created y) out).
Definition sub (a b : list aevent) : Prop := forall e, In e a -> In e b.

Lemma cge_cons y out t : cge (y :: out) t = (if t <=? e_created y then 1 else 0) + cge out t.
Proof. unfold cge. cbn [filter]. destruct (t <=? e_created y); [rewrite len_cons; reflexivity|lia]. Qed.

Lemma cge_le_len out t : cge out t <= len out.
Proof. induction out as [|y r IH]; [unfold cge; cbn; lia|]. rewrite cge_cons, len_cons. destruct (t <=? e_created y); lia. Qed.

Lemma cge_antitone out t t' : t <= t' -> cge out t' <= cge out t.
Proof.
  intros H. induction out as [|y r IH]; [unfold cge; cbn; lia|]. rewrite !cge_cons.
  destruct (N.leb_spec t' (e_created y)); destruct (N.leb_spec t (e_created y)); lia.
Qed.

Lemma cge_all out t : (forall y, In y out -> t <= e_created y) -> cge out t = len out.
Proof.
  induction out as [|y r IH]; intros H; [reflexivity|]. rewrite cge_cons, len_cons, IH by (intros z Hz; apply H; right; exact Hz).
  replace (t <=? e_created y) with true by (symmetry; apply N.leb_le; apply H; left; reflexivity). reflexivity.
Qed.

(* distinct members at or above t are counted *)
Lemma cge_lower A out t : NoDup A -> sub A out -> (forall y, In y A -> t <= e_created y) -> len A <= cge out t.
Proof.
  intros Hn Hs Ht. unfold cge, len.
  assert (Hi : incl A (filter (fun y => t <=? e_created y) out)).
  { intros y Hy. apply filter_In. split; [apply Hs; exact Hy|apply N.leb_le; apply Ht; exact Hy]. }
  pose proof (NoDup_incl_length Hn Hi). lia.
Qed.

Lemma cge_mono out out' t : NoDup out -> sub out out' -> cge out t <= cge out' t.
Proof.
  intros Hn Hs. unfold cge at 1. apply cge_lower.
  - apply NoDup_filter. exact Hn.
  - intros y Hy. apply filter_In in Hy. apply Hs. apply Hy.
  - intros y Hy. apply filter_In in Hy. apply N.leb_le. apply Hy.
Qed.

Lemma cge_perm l l' t : Permutation l l' -> cge l t = cge l' t.
Proof.
  intros H. unfold cge, len. f_equal. apply Permutation_length.
  induction H as [|x l1 l2 _ IH|x y l1|l1 l2 l3 _ IH1 _ IH2]; cbn [filter].
  - constructor.
  - destruct (t <=? e_created x); [constructor|]; exact IH.
  - destruct (t <=? e_created y), (t <=? e_created x); try apply Permutation_refl. apply perm_swap.
  - eapply perm_trans; eauto.
Qed.

(* ---------- the top of a list sorted newest first ---------- *)
Lemma sorted_created e l x : desc_sorted (e :: l) -> In x l -> e_created x <= e_created e.
Proof.
  intros H Hx. inversion H as [|? ? Hh _]; subst. specialize (Hh x Hx). apply ev_lt_false_iff in Hh. lia.
Qed.

Lemma top_dominates l : forall k t, desc_sorted l -> k <= cge l t ->
  len (ltake k l) = k /\ forall y, In y (ltake k l) -> t <= e_created y.
Proof.
  induction l as [|e l IH]; intros k t Hs Hk.
  - unfold cge in Hk. cbn in Hk. assert (k = 0) by lia. subst k. split; [reflexivity|intros y []].
  - cbn [ltake]. destruct (N.eqb_spec k 0) as [->|Hk0]; [split; [reflexivity|intros y []]|].
    rewrite cge_cons in Hk. inversion Hs as [|? ? Hh Hs']; subst.
    destruct (N.leb_spec t (e_created e)) as [Hte|Hte].
    + destruct (IH (k - 1) t Hs' ltac:(lia)) as [L D]. split; [rewrite len_cons, L; lia|].
      intros y [<-|Hy]; [exact Hte|apply D; exact Hy].
    + (* the head is older than t: nothing in the list reaches t *)
      exfalso. assert (cge l t = 0); [|lia].
      unfold cge. replace (filter (fun y => t <=? e_created y) l) with (@nil aevent); [reflexivity|].
      symmetry. clear -Hs Hte. induction l as [|y r IHr]; [reflexivity|]. cbn [filter].
      pose proof (sorted_created e (y :: r) y Hs (or_introl eq_refl)).
      replace (t <=? e_created y) with false by (symmetry; apply N.leb_gt; lia).
      apply IHr. inversion Hs as [|? ? Hh Hs']; subst. constructor; [intros x Hx; apply Hh; right; exact Hx|].
      inversion Hs' as [|? ? _ Hs'']; subst. exact Hs''.
Qed.

Lemma beyond_top l : forall k x, desc_sorted l -> In x l ->
  In x (ltake k l) \/ (len (ltake k l) = k /\ forall y, In y (ltake k l) -> e_created x <= e_created y).
Proof.
  induction l as [|e l IH]; intros k x Hs Hx; [destruct Hx|].
  cbn [ltake]. destruct (N.eqb_spec k 0) as [->|Hk0]; [right; split; [reflexivity|intros y []]|].
  inversion Hs as [|? ? Hh Hs']; subst.
  destruct Hx as [<-|Hx]; [left; left; reflexivity|].
  destruct (IH (k - 1) x Hs' Hx) as [Hin|[L D]]; [left; right; exact Hin|right].
  split; [rewrite len_cons, L; lia|]. intros y [<-|Hy]; [eapply sorted_created; eauto|apply D; exact Hy].
Qed.

(* ---------- the scans ---------- *)
Section Newest.
  Variable s : db.
  Variable f : afilter.
  Variable screen : aevent -> sres.
  Hypothesis HA : StoreInv s.
  Let L := log s.
  Let c := committed s.
  Let K := f_limit f.

  Notation clive := (clive s).
  Notation cqual := (cqual s f screen).

  (* covered: returned so far, or already dominated by K returned events at least as new *)
  Definition cov (out : list aevent) (x : aevent) : Prop := In x out \/ K <= cge out (e_created x).

  Definition NI (q : qstate) : Prop :=
    Forall cqual (q_out q) /\ NoDup (q_out q) /\ f_since f <= q_since q /\ q_since q <= U64MAX /\
    (q_since q = f_since f \/ K <= cge (q_out q) (q_since q)).

  Lemma cov_mono out out' x : NoDup out -> sub out out' -> cov out x -> cov out' x.
  Proof. intros Hn Hs [H|H]; [left; apply Hs; exact H|right]. pose proof (cge_mono out out' (e_created x) Hn Hs). lia. Qed.

  (* below the moving since everything is dominated *)
  Lemma below_since q x : NI q -> f_since f <= e_created x -> e_created x < q_since q -> cov (q_out q) x.
  Proof.
    intros (_ & _ & _ & _ & [E|H]) H1 H2; [lia|]. right.
    pose proof (cge_antitone (q_out q) (e_created x) (q_since q) ltac:(lia)). lia.
  Qed.

  Lemma accept_newest q x : Forall cqual (q_out q) -> NoDup (q_out q) -> clive x ->
    Forall cqual (q_out (fst (accept f screen q x))) /\ NoDup (q_out (fst (accept f screen q x))) /\
    sub (q_out q) (q_out (fst (accept f screen q x))) /\ q_since (fst (accept f screen q x)) = q_since q /\
    (snd (accept f screen q x) = true -> In x (q_out (fst (accept f screen q x)))) /\
    (snd (accept f screen q x) = false -> ~ cqual x /\ q_out (fst (accept f screen q x)) = q_out q).
  Proof.
    intros Hq Hn Lx. unfold accept. destruct (spec_matches f x) eqn:Em.
    2:{ cbn [fst snd]. refine (conj Hq (conj Hn (conj (fun e He => He) (conj eq_refl (conj _ _))))); [discriminate|].
        intros _. split; [|reflexivity]. intros (_ & H & _). congruence. }
    destruct (screen x) eqn:Es; cbn [fst snd q_out q_since].
    - unfold out_insert. destruct (existsb (same_ord x) (q_out q)) eqn:Ex.
      + refine (conj Hq (conj Hn (conj (fun e He => He) (conj eq_refl (conj _ _))))); [|discriminate]. intros _.
        apply existsb_exists in Ex. destruct Ex as [y [Hy Hso]].
        assert (y = x); [|subst y; exact Hy].
        rewrite Forall_forall in Hq. apply (live_unique s HA); [apply (Hq y Hy)|exact Lx|].
        apply same_ord_iff in Hso. unfold okey in Hso. congruence.
      + refine (conj _ (conj _ (conj _ (conj eq_refl (conj _ _))))); try discriminate.
        * constructor; [repeat split; assumption|exact Hq].
        * constructor; [|exact Hn]. intros Hin.
          assert (existsb (same_ord x) (q_out q) = true); [|congruence].
          apply existsb_exists. exists x. split; [exact Hin|]. apply same_ord_iff. reflexivity.
        * intros e He. right. exact He.
        * intros _. left. reflexivity.
    - refine (conj Hq (conj Hn (conj (fun e He => He) (conj eq_refl (conj _ _))))); [discriminate|].
      intros _. split; [|reflexivity]. intros (_ & _ & H). congruence.
    - refine (conj Hq (conj Hn (conj (fun e He => He) (conj eq_refl (conj _ _))))); [discriminate|].
      intros _. split; [|reflexivity]. intros (_ & _ & H). congruence.
  Qed.

  (* the events a list of index entries denotes *)
  Definition evs_of (entries : table) (xs : list aevent) : Prop :=
    Forall2 (fun ent x => log_find L (snd ent) = Some x /\ In (e_id x, snd ent) (t_i c)) entries xs.
  Fixpoint desc (xs : list aevent) : Prop :=
    match xs with [] => True | x :: r => (forall y, In y r -> e_created y <= e_created x) /\ desc r end.

  Lemma evs_of_nil xs : evs_of [] xs -> xs = [].
  Proof. intros H. inversion H. reflexivity. Qed.
  Lemma evs_of_cons k0 o0 r xs : evs_of ((k0, o0) :: r) xs ->
    exists x0 xr, xs = x0 :: xr /\ log_find L o0 = Some x0 /\ In (e_id x0, o0) (t_i c) /\ evs_of r xr.
  Proof. intros H. inversion H as [|ent x0 r' xr [Hf0 Hi0] Hevr]. exists x0, xr. repeat split; assumption. Qed.

  (* one range scan, with the events accepted so far in this scan as witnesses *)
  Lemma scan_pair_newest entries : forall xs repl q count q' A,
    NI q -> evs_of entries xs -> NoDup xs -> desc xs -> (forall z, In z xs -> q_since q <= e_created z) ->
    NoDup A -> sub A (q_out q) -> len A = count ->
    (forall y z, In y A -> In z xs -> e_created z <= e_created y) -> (forall y, In y A -> ~ In y xs) ->
    (repl = true -> (length entries <= 1)%nat) ->
    scan_pair s f screen entries repl q count = Ok q' ->
    NI q' /\ sub (q_out q) (q_out q') /\ forall z, In z xs -> cqual z -> cov (q_out q') z.
  Proof.
    induction entries as [|[k0 o0] r IH]; intros xs repl q count q' A Hq Hev Hnd Hds Hlo HnA HsA HlA HAx HAd Hrepl H; cbn [scan_pair] in H.
    - injection H as <-. rewrite (evs_of_nil xs Hev). split; [exact Hq|]. split; [intros e He; exact He|]. intros z [].
    - destruct (evs_of_cons k0 o0 r xs Hev) as (x0 & xr & -> & Hf0 & Hi0 & Hevr).
      rewrite (gebo_live s screen HA o0 x0 Hi0 Hf0) in H. cbn [bind] in H.
      assert (Lx0 : clive x0) by (exists o0; split; assumption).
      pose proof Hq as (Hqc & Hqn & Hqs & Hqu & Hqd).
      replace (e_created x0 <? q_since q) with false in H by (symmetry; apply N.ltb_ge; apply Hlo; left; reflexivity).
      destruct (accept_newest q x0 Hqc Hqn Lx0) as (C1 & N1 & S1 & E1 & T1 & F1).
      destruct (accept f screen q x0) as [q1 acc]. cbn [fst snd] in *.
      apply NoDup_cons_iff in Hnd. destruct Hnd as [Hx0 Hndr]. destruct Hds as [Hd0 Hdsr].
      assert (Hq1 : NI q1).
      { refine (conj C1 (conj N1 _)). rewrite E1. refine (conj Hqs (conj Hqu _)). destruct Hqd as [E|Hd]; [left; exact E|right].
        pose proof (cge_mono (q_out q) (q_out q1) (q_since q) Hqn S1). lia. }
      destruct acc.
      + specialize (T1 eq_refl).
        (* the witnesses including this event *)
        assert (HnA' : NoDup (x0 :: A)) by (constructor; [intros Hin; apply (HAd x0 Hin); left; reflexivity|exact HnA]).
        assert (HsA' : sub (x0 :: A) (q_out q1)) by (intros e [<-|He]; [exact T1|apply S1; apply HsA; exact He]).
        assert (HlA' : len (x0 :: A) = count + 1) by (rewrite len_cons; lia).
        destruct (N.leb_spec (f_limit f) (count + 1)) as [Hfull|Hmore].
        * (* the scan is full: the rest of the range is dominated by the witnesses *)
          injection H as <-. cbn [q_out q_since].
          assert (Hw : K <= cge (q_out q1) (e_created x0)).
          { pose proof (cge_lower (x0 :: A) (q_out q1) (e_created x0) HnA' HsA') as Hl. rewrite HlA' in Hl. unfold K.
            enough (count + 1 <= cge (q_out q1) (e_created x0)) by lia. apply Hl.
            intros y [<-|Hy]; [lia|]. apply (HAx y x0 Hy). left. reflexivity. }
          split; [|split; [exact S1|]].
          -- refine (conj C1 (conj N1 _)). cbn [q_out q_since]. destruct Hq1 as (_ & _ & Hs1 & Hu1 & Hd1).
             destruct (N.ltb_spec (q_since q1) (e_created x0)) as [Hlt|Hge].
             ++ refine (conj _ (conj _ (or_intror Hw))); [lia|]. apply wf_ev_created. apply (HWe s HA _ _ Hf0).
             ++ exact (conj Hs1 (conj Hu1 Hd1)).
          -- intros z [<-|Hz] _; [left; exact T1|right]. specialize (Hd0 z Hz).
             pose proof (cge_antitone (q_out q1) (e_created z) (e_created x0) Hd0). lia.
        * destruct repl eqn:Er.
          -- injection H as <-. specialize (Hrepl eq_refl). cbn [length] in Hrepl.
             assert (r = []) by (destruct r; [reflexivity|cbn [length] in Hrepl; lia]). subst r. rewrite (evs_of_nil xr Hevr).
             split; [exact Hq1|]. split; [exact S1|]. intros z [<-|[]] _. left. exact T1.
          -- destruct (IH xr false q1 (count + 1) q' (x0 :: A) Hq1 Hevr Hndr Hdsr) as (C' & M' & Q'); try assumption.
             ++ intros z Hz. rewrite E1. apply Hlo. right. exact Hz.
             ++ intros y z [<-|Hy] Hz; [apply Hd0; exact Hz|apply (HAx y z Hy); right; exact Hz].
             ++ intros y [<-|Hy] Hin; [exact (Hx0 Hin)|apply (HAd y Hy); right; exact Hin].
             ++ discriminate.
             ++ split; [exact C'|]. split; [intros e He; apply M'; apply S1; exact He|].
                intros z [<-|Hz] Hqz; [left; apply M'; exact T1|apply Q'; assumption].
      + destruct (F1 eq_refl) as [Hnq Eout].
        destruct (IH xr repl q1 count q' A Hq1 Hevr Hndr Hdsr) as (C' & M' & Q'); try assumption.
        * intros z Hz. rewrite E1. apply Hlo. right. exact Hz.
        * rewrite Eout. exact HsA.
        * intros y z Hy Hz. apply (HAx y z Hy). right. exact Hz.
        * intros y Hy Hin. apply (HAd y Hy). right. exact Hin.
        * intros Hr. specialize (Hrepl Hr). cbn [length] in Hrepl. lia.
        * split; [exact C'|]. split; [intros e He; apply M'; apply S1; exact He|].
          intros z [<-|Hz] Hqz; [exfalso; exact (Hnq Hqz)|apply Q'; assumption].
  Qed.

  (* the author plan: same, its break test reads the filter's since *)
  Lemma scan_author_newest entries : forall xs q count q' A,
    NI q -> evs_of entries xs -> NoDup xs -> desc xs -> (forall z, In z xs -> f_since f <= e_created z) ->
    NoDup A -> sub A (q_out q) -> len A = count ->
    (forall y z, In y A -> In z xs -> e_created z <= e_created y) -> (forall y, In y A -> ~ In y xs) ->
    scan_author s f screen entries q count = Ok q' ->
    NI q' /\ sub (q_out q) (q_out q') /\ forall z, In z xs -> cqual z -> cov (q_out q') z.
  Proof.
    induction entries as [|[k0 o0] r IH]; intros xs q count q' A Hq Hev Hnd Hds Hlo HnA HsA HlA HAx HAd H; cbn [scan_author] in H.
    - injection H as <-. rewrite (evs_of_nil xs Hev). split; [exact Hq|]. split; [intros e He; exact He|]. intros z [].
    - destruct (evs_of_cons k0 o0 r xs Hev) as (x0 & xr & -> & Hf0 & Hi0 & Hevr).
      rewrite (gebo_live s screen HA o0 x0 Hi0 Hf0) in H. cbn [bind] in H.
      assert (Lx0 : clive x0) by (exists o0; split; assumption).
      pose proof Hq as (Hqc & Hqn & Hqs & Hqu & Hqd).
      replace (e_created x0 <? f_since f) with false in H by (symmetry; apply N.ltb_ge; apply Hlo; left; reflexivity).
      destruct (accept_newest q x0 Hqc Hqn Lx0) as (C1 & N1 & S1 & E1 & T1 & F1).
      destruct (accept f screen q x0) as [q1 acc]. cbn [fst snd] in *.
      apply NoDup_cons_iff in Hnd. destruct Hnd as [Hx0 Hndr]. destruct Hds as [Hd0 Hdsr].
      assert (Hq1 : NI q1).
      { refine (conj C1 (conj N1 _)). rewrite E1. refine (conj Hqs (conj Hqu _)). destruct Hqd as [E|Hd]; [left; exact E|right].
        pose proof (cge_mono (q_out q) (q_out q1) (q_since q) Hqn S1). lia. }
      destruct acc.
      + specialize (T1 eq_refl).
        assert (HnA' : NoDup (x0 :: A)) by (constructor; [intros Hin; apply (HAd x0 Hin); left; reflexivity|exact HnA]).
        assert (HsA' : sub (x0 :: A) (q_out q1)) by (intros e [<-|He]; [exact T1|apply S1; apply HsA; exact He]).
        assert (HlA' : len (x0 :: A) = count + 1) by (rewrite len_cons; lia).
        destruct (N.leb_spec (f_limit f) (count + 1)) as [Hfull|Hmore].
        * injection H as <-. cbn [q_out q_since].
          assert (Hw : K <= cge (q_out q1) (e_created x0)).
          { pose proof (cge_lower (x0 :: A) (q_out q1) (e_created x0) HnA' HsA') as Hl. rewrite HlA' in Hl. unfold K.
            enough (count + 1 <= cge (q_out q1) (e_created x0)) by lia. apply Hl.
            intros y [<-|Hy]; [lia|]. apply (HAx y x0 Hy). left. reflexivity. }
          split; [|split; [exact S1|]].
          -- refine (conj C1 (conj N1 _)). cbn [q_out q_since]. destruct Hq1 as (_ & _ & Hs1 & Hu1 & Hd1).
             destruct (N.ltb_spec (q_since q1) (e_created x0)) as [Hlt|Hge].
             ++ refine (conj _ (conj _ (or_intror Hw))); [lia|]. apply wf_ev_created. apply (HWe s HA _ _ Hf0).
             ++ exact (conj Hs1 (conj Hu1 Hd1)).
          -- intros z [<-|Hz] _; [left; exact T1|right]. specialize (Hd0 z Hz).
             pose proof (cge_antitone (q_out q1) (e_created z) (e_created x0) Hd0). lia.
        * destruct (IH xr q1 (count + 1) q' (x0 :: A) Hq1 Hevr Hndr Hdsr) as (C' & M' & Q'); try assumption.
          -- intros z Hz. apply Hlo. right. exact Hz.
          -- intros y z [<-|Hy] Hz; [apply Hd0; exact Hz|apply (HAx y z Hy); right; exact Hz].
          -- intros y [<-|Hy] Hin; [exact (Hx0 Hin)|apply (HAd y Hy); right; exact Hin].
          -- split; [exact C'|]. split; [intros e He; apply M'; apply S1; exact He|].
             intros z [<-|Hz] Hqz; [left; apply M'; exact T1|apply Q'; assumption].
      + destruct (F1 eq_refl) as [Hnq Eout].
        destruct (IH xr q1 count q' A Hq1 Hevr Hndr Hdsr) as (C' & M' & Q'); try assumption.
        * intros z Hz. apply Hlo. right. exact Hz.
        * rewrite Eout. exact HsA.
        * intros y z Hy Hz. apply (HAx y z Hy). right. exact Hz.
        * intros y Hy Hin. apply (HAd y Hy). right. exact Hin.
        * split; [exact C'|]. split; [intros e He; apply M'; apply S1; exact He|].
          intros z [<-|Hz] Hqz; [exfalso; exact (Hnq Hqz)|apply Q'; assumption].
  Qed.

  (* the scrape plan: it stops once K events are out; everything out is newer than what remains *)
  Lemma scan_scrape_newest entries : forall xs q q',
    Forall cqual (q_out q) -> NoDup (q_out q) -> evs_of entries xs -> NoDup xs -> desc xs ->
    (forall y z, In y (q_out q) -> In z xs -> e_created z <= e_created y) ->
    scan_scrape s f screen entries q = Ok q' ->
    Forall cqual (q_out q') /\ NoDup (q_out q') /\ sub (q_out q) (q_out q') /\ forall z, In z xs -> cqual z -> cov (q_out q') z.
  Proof.
    induction entries as [|[k0 o0] r IH]; intros xs q q' Hqc Hqn Hev Hnd Hds Hox H; cbn [scan_scrape] in H.
    - injection H as <-. rewrite (evs_of_nil xs Hev). repeat split; auto. intros e He; exact He. intros z [].
    - destruct (N.leb_spec (f_limit f) (len (q_out q))) as [Hfull|Hmore].
      + injection H as <-. repeat split; auto. intros e He; exact He.
        intros z Hz _. right. rewrite (cge_all (q_out q) (e_created z)) by (intros y Hy; apply (Hox y z Hy Hz)). exact Hfull.
      + destruct (evs_of_cons k0 o0 r xs Hev) as (x0 & xr & -> & Hf0 & Hi0 & Hevr).
        rewrite (gebo_live s screen HA o0 x0 Hi0 Hf0) in H. cbn [bind] in H.
        assert (Lx0 : clive x0) by (exists o0; split; assumption).
        destruct (accept_newest q x0 Hqc Hqn Lx0) as (C1 & N1 & S1 & E1 & T1 & F1).
        destruct (accept f screen q x0) as [q1 acc] eqn:Eacc. cbn [fst snd] in *.
        apply NoDup_cons_iff in Hnd. destruct Hnd as [Hx0 Hndr]. destruct Hds as [Hd0 Hdsr].
        destruct (IH xr q1 q' C1 N1 Hevr Hndr Hdsr) as (C' & N' & M' & Q'); [|exact H|].
        * intros y z Hy Hz.
          assert (Hy' : In y (q_out q) \/ y = x0).
          { unfold accept in Eacc. destruct (spec_matches f x0); [|injection Eacc as <- _; left; exact Hy].
            destruct (screen x0); injection Eacc as <- _; cbn [q_out] in Hy; try (left; exact Hy).
            unfold out_insert in Hy. destruct (existsb _ _); [left; exact Hy|]. destruct Hy as [<-|Hy]; [right; reflexivity|left; exact Hy]. }
          destruct Hy' as [Hy' | ->]; [apply (Hox y z Hy'); right; exact Hz|apply Hd0; exact Hz].
        * split; [exact C'|]. split; [exact N'|]. split; [intros e He; apply M'; apply S1; exact He|].
          intros z [<-|Hz] Hqz; [|apply Q'; assumption].
          destruct acc; [left; apply M'; apply T1; reflexivity|exfalso; apply (proj1 (F1 eq_refl)); exact Hqz].
  Qed.

  (* ---------- the events of a range scan, in scan order ---------- *)
  Lemma key_order_created P cz idz c0 id0 : cz <= U64MAX -> c0 <= U64MAX ->
    lex_lt (P ++ rev_time cz ++ idz) (P ++ rev_time c0 ++ id0) = false -> cz <= c0.
  Proof.
    intros Hz H0 H. rewrite (lex_lt_app_eqlen P P _ _ eq_refl), lex_lt_irrefl in H.
    rewrite (lex_lt_app_eqlen (rev_time cz) (rev_time c0) idz id0 eq_refl) in H.
    rewrite (lex_lt_rev_time cz c0 Hz H0) in H. destruct (N.ltb_spec c0 cz); [discriminate|assumption].
  Qed.

  Lemma range_events T Kf n P since until : TabInv L (t_i c) T Kf -> shape Kf n -> length P = n ->
    since <= U64MAX -> until <= U64MAX ->
    exists xs, evs_of (t_range T (P ++ rev_time until ++ zeros32) (P ++ rev_time since ++ ffs32)) xs /\ NoDup xs /\ desc xs /\
      (forall z, In z xs -> since <= e_created z <= until) /\
      (forall k off x, In (k, off) (t_range T (P ++ rev_time until ++ zeros32) (P ++ rev_time since ++ ffs32)) ->
                       log_find L off = Some x -> In x xs).
  Proof.
    intros HT Hsh HP Hs Hu. set (entries := t_range T _ _).
    assert (Hent : forall k off, In (k, off) entries ->
              exists x, log_find L off = Some x /\ In (e_id x, off) (t_i c) /\ k = P ++ rev_time (e_created x) ++ e_id x /\
                        since <= e_created x <= until).
    { intros k off Hin. destruct (range_entry L (t_i c) T Kf n P since until k off (HWe s HA) HT Hsh HP Hs Hu Hin) as [x [Hf [Hi [_ [Hk Hw]]]]].
      exists x. repeat split; try assumption; apply Hw. }
    assert (Gen : forall l, (forall p, In p l -> In p entries) -> key_sorted l -> NoDup (map fst l) ->
              exists xs, evs_of l xs /\ NoDup xs /\ desc xs /\ (forall z, In z xs -> since <= e_created z <= until) /\
                (forall k off x, In (k, off) l -> log_find L off = Some x -> In x xs) /\
                (forall z, In z xs -> exists off, In (P ++ rev_time (e_created z) ++ e_id z, off) l)).
    { induction l as [|[k0 o0] l IHl]; intros Hsub Hks Hnd.
      - exists []. refine (conj _ (conj _ (conj I (conj _ (conj _ _))))); [constructor|constructor|intros z []|intros k off x []|intros z []].
      - inversion Hks as [|? ? Hh Hks']; subst. cbn [map fst] in Hnd. apply NoDup_cons_iff in Hnd. destruct Hnd as [Hk0 Hndl].
        destruct (IHl (fun p Hp => Hsub p (or_intror Hp)) Hks' Hndl) as (xs & E & N & D & W & C & B).
        destruct (Hent k0 o0 (Hsub _ (or_introl eq_refl))) as (x0 & Hf0 & Hi0 & Ek0 & Hw0).
        exists (x0 :: xs). refine (conj _ (conj _ (conj _ (conj _ (conj _ _))))).
        + constructor; [split; assumption|exact E].
        + constructor; [|exact N]. intros Hin. destruct (B x0 Hin) as [off Ho]. apply Hk0. rewrite Ek0.
          apply in_map_iff. exists (P ++ rev_time (e_created x0) ++ e_id x0, off). split; [reflexivity|exact Ho].
        + split; [|exact D]. intros z Hz. destruct (B z Hz) as [off Ho]. specialize (Hh _ Ho). cbn [fst] in Hh. rewrite Ek0 in Hh.
          apply (key_order_created P (e_created z) (e_id z) (e_created x0) (e_id x0)); [|lia|exact Hh].
          pose proof (W z Hz). lia.
        + intros z [<-|Hz]; [exact Hw0|apply W; exact Hz].
        + intros k off x [[= <- <-]|Hin] Hf; [left; congruence|right; eapply C; eauto].
        + intros z [<-|Hz]; [exists o0; left; rewrite Ek0; reflexivity|]. destruct (B z Hz) as [off Ho]. exists off. right. exact Ho. }
    destruct (Gen entries (fun p Hp => Hp) (t_range_sorted _ _ _)) as (xs & E & N & D & W & C & _).
    { apply t_range_keys_unique. apply HT. }
    exists xs. repeat split; try assumption; apply W; assumption.
  Qed.

  (* folds of scans *)
  Lemma fold_res_newest {A} (g : qstate -> A -> res qstate) (l : list A) (Target : A -> aevent -> Prop) :
    (forall q a q', In a l -> NI q -> g q a = Ok q' ->
       NI q' /\ sub (q_out q) (q_out q') /\ (forall x, Target a x -> cqual x -> cov (q_out q') x)) ->
    forall q q', NI q -> fold_res g l q = Ok q' ->
    NI q' /\ sub (q_out q) (q_out q') /\ (forall a x, In a l -> Target a x -> cqual x -> cov (q_out q') x).
  Proof.
    unfold fold_res. induction l as [|a l IH]; intros Hg q q' Hq H; cbn [fold_left] in H.
    - injection H as <-. split; [exact Hq|]. split; [intros e He; exact He|]. intros a x [].
    - cbn [bind] in H. destruct (g q a) as [q1| | |] eqn:E1; rewrite ?E1 in H.
      + destruct (Hg q a q1 (or_introl eq_refl) Hq E1) as (C1 & M1 & Q1).
        destruct (IH (fun q0 a0 q0' Hin => Hg q0 a0 q0' (or_intror Hin)) q1 q' C1 H) as (C' & M' & Q').
        split; [exact C'|]. split; [intros e He; apply M'; apply M1; exact He|].
        intros a' x [<-|Hin] Ht Hqx; [|eapply Q'; eauto].
        apply (cov_mono (q_out q1) (q_out q') x); [apply C1|exact M'|eapply Q1; eauto].
      + exfalso. clear -H. induction l as [|b l IHl]; cbn [fold_left] in H; [discriminate|apply IHl; exact H].
      + exfalso. clear -H. induction l as [|b l IHl]; cbn [fold_left] in H; [discriminate|apply IHl; exact H].
      + exfalso. clear -H. induction l as [|b l IHl]; cbn [fold_left] in H; [discriminate|apply IHl; exact H].
  Qed.
End Newest.

(* ---------- the seven plans ---------- *)
Section PlansN.
  Variable s : db.
  Variable f : afilter.
  Variable screen : aevent -> sres.
  Hypothesis HA : StoreInv s.
  Let L := log s.
  Let c := committed s.
  Hypothesis Huntil : f_until f <= U64MAX.
  Hypothesis Hsince : f_since f <= U64MAX.
  Hypothesis Hauth : Forall (fun a => length a = 32%nat) (f_authors f).
  Hypothesis Hkinds : Forall (fun k => k < 65536) (f_kinds f).
  Hypothesis Hletters : Forall (fun cst => match cst with name :: _ => length name = 1%nat | [] => False end) (f_tags f).

  Notation clive := (clive s).
  Notation cqual := (cqual s f screen).
  Notation NI := (NI s f screen).
  Notation cov := (cov f).

  Lemma HAllc' : AllInv L c. Proof. apply (HAll s HA). Qed.

  (* a qualifying event of the scanned prefix is covered after the scan, whatever the moving since was *)
  Lemma scan_range_n T Kf n P repl q q' :
    TabInv L (t_i c) T Kf -> shape Kf n -> length P = n -> NI q ->
    (repl = true -> (length (t_range T (P ++ rev_time (f_until f) ++ zeros32) (P ++ rev_time (q_since q) ++ ffs32)) <= 1)%nat) ->
    scan_pair s f screen (t_range T (P ++ rev_time (f_until f) ++ zeros32) (P ++ rev_time (q_since q) ++ ffs32)) repl q 0 = Ok q' ->
    NI q' /\ sub (q_out q) (q_out q') /\
    (forall x k, clive x -> In k (Kf x) -> k = P ++ rev_time (e_created x) ++ e_id x -> cqual x -> cov (q_out q') x).
  Proof.
    intros HTK Hsh HP Hq Hrepl H. pose proof Hq as (_ & Hqn & Hqs & Hqu & _).
    destruct (range_events s f screen HA T Kf n P (q_since q) (f_until f) HTK Hsh HP Hqu Huntil) as (xs & E & N & D & W & C).
    destruct (scan_pair_newest s f screen HA _ xs repl q 0 q' [] Hq E N D) as (C' & M' & Q'); try assumption.
    - intros z Hz. apply (W z Hz).
    - constructor.
    - intros e [].
    - reflexivity.
    - intros y z [].
    - intros y [].
    - split; [exact C'|]. split; [exact M'|].
      intros x k [off [Hi Hf]] Hk Hkey Hqx.
      destruct (spec_facts f x (proj1 (proj2 Hqx))) as (_ & _ & _ & Hs1 & Hs2 & _).
      destruct (N.lt_ge_cases (e_created x) (q_since q)) as [Hlt|Hge].
      + apply (cov_mono f screen (q_out q) (q_out q') x Hqn M'). apply (below_since s f screen q x Hq Hs1 Hlt).
      + apply Q'; [|exact Hqx]. apply (C k off x); [|exact Hf].
        eapply (range_complete L (t_i c) T Kf); eauto.
        * rewrite Hkey. apply (proj1 (key_in_range P (q_since q) _ (f_until f) _ (proj1 (HWe s HA _ _ Hf)) Hge Hs2 Huntil)).
        * rewrite Hkey. apply (proj2 (key_in_range P (q_since q) _ (f_until f) _ (proj1 (HWe s HA _ _ Hf)) Hge Hs2 Huntil)).
  Qed.

  (* replaceable kinds: the author-kind range holds at most one entry, for any lower bound *)
  Lemma akc_range_single_n a k since : length a = 32%nat -> k < 65536 -> is_replaceable k = true -> since <= U64MAX ->
    (length (t_range (t_akc c) ((a ++ be16 k) ++ rev_time (f_until f) ++ zeros32) ((a ++ be16 k) ++ rev_time since ++ ffs32)) <= 1)%nat.
  Proof.
    intros Ha Hk Hr Hs. destruct HAllc' as (_ & _ & _ & B3 & _).
    set (entries := t_range _ _ _).
    assert (Hu : NoDup (map fst entries)) by (apply t_range_keys_unique; apply B3).
    assert (Hall : forall p1 p2, In p1 entries -> In p2 entries -> p1 = p2).
    { intros [k1 o1] [k2 o2] H1 H2.
      destruct (range_entry L (t_i c) (t_akc c) keys_akc 34 (a ++ be16 k) since (f_until f) k1 o1 (HWe s HA) B3 shape_akc) as [x1 [F1 [I1 [K1 [E1 _]]]]];
        [rewrite app_length, Ha; reflexivity|exact Hs|exact Huntil|exact H1|].
      destruct (range_entry L (t_i c) (t_akc c) keys_akc 34 (a ++ be16 k) since (f_until f) k2 o2 (HWe s HA) B3 shape_akc) as [x2 [F2 [I2 [K2 [E2 _]]]]];
        [rewrite app_length, Ha; reflexivity|exact Hs|exact Huntil|exact H2|].
      assert (Hx : forall x kk, wf_ev x -> In kk (keys_akc x) -> kk = (a ++ be16 k) ++ rev_time (e_created x) ++ e_id x -> e_pk x = a /\ e_kind x = k).
      { intros x kk (_ & _ & Hp & Hkd) [<-|[]] E. rewrite key_akc_assoc in E.
        apply app_inj_len in E; [|rewrite !app_length, Hp, Ha; reflexivity]. destruct E as [E _].
        apply app_inj_len in E; [|congruence]. destruct E as [E1' E2']. split; [exact E1'|apply be16_inj; assumption]. }
      destruct (Hx x1 k1 (HWe s HA _ _ F1) K1 E1) as [P1 Q1]. destruct (Hx x2 k2 (HWe s HA _ _ F2) K2 E2) as [P2 Q2].
      assert (o1 = o2).
      { eapply (HRep s HA); eauto. split; [congruence|]. split; [congruence|]. left. rewrite Q1. exact Hr. }
      subst o2. assert (x1 = x2) by congruence. subst x2. congruence. }
    assert (Hlen : (length (map fst entries) <= 1)%nat).
    { apply NoDup_all_equal_length; [exact Hu|]. intros k1 k2 H1 H2. apply in_map_iff in H1. apply in_map_iff in H2.
      destruct H1 as [p1 [<- H1]]. destruct H2 as [p2 [<- H2]]. rewrite (Hall p1 p2 H1 H2). reflexivity. }
    rewrite map_length in Hlen. exact Hlen.
  Qed.

  Lemma stepn_akc a k q q' : length a = 32%nat -> k < 65536 -> NI q ->
    scan_pair s f screen (akc_range c a k (q_since q) (f_until f)) (is_replaceable k) q 0 = Ok q' ->
    NI q' /\ sub (q_out q) (q_out q') /\ (forall x, e_pk x = a /\ e_kind x = k -> cqual x -> cov (q_out q') x).
  Proof.
    intros Ha Hk Hq H. unfold akc_range in H. rewrite !key_akc_assoc in H.
    destruct HAllc' as (_ & _ & _ & B3 & _).
    destruct (scan_range_n (t_akc c) keys_akc 34 (a ++ be16 k) (is_replaceable k) q q' B3 shape_akc) as (C' & M' & Q');
      [rewrite app_length, Ha; reflexivity|exact Hq| |exact H|].
    { intros Hr. apply akc_range_single_n; try assumption. apply Hq. }
    split; [exact C'|]. split; [exact M'|]. intros x [<- <-] Hqx.
    apply (Q' x (key_akc (e_pk x) (e_kind x) (e_created x) (e_id x))); [apply Hqx|left; reflexivity|apply key_akc_assoc|exact Hqx].
  Qed.

  Lemma stepn_atc a lv q q' : length a = 32%nat -> NI q ->
    scan_pair s f screen (atc_range c a (fst lv) (snd lv) (q_since q) (f_until f)) false q 0 = Ok q' ->
    NI q' /\ sub (q_out q) (q_out q') /\
    (forall x, e_pk x = a /\ In lv (indexable_tags (e_tags x)) -> cqual x -> cov (q_out q') x).
  Proof.
    intros Ha Hq H. destruct lv as [l v]. cbn [fst snd] in H. unfold atc_range in H. rewrite !key_atc_assoc in H.
    destruct HAllc' as (_ & _ & _ & _ & _ & B5 & _).
    destruct (scan_range_n (t_atc c) keys_atc 215 (a ++ [l] ++ pad182 v) false q q' B5 shape_atc) as (C' & M' & Q');
      [rewrite !app_length, length_pad182, Ha; reflexivity|exact Hq|discriminate|exact H|].
    split; [exact C'|]. split; [exact M'|]. intros x [<- Hin] Hqx.
    apply (Q' x (key_atc (e_pk x) l v (e_created x) (e_id x))); [apply Hqx| |apply key_atc_assoc|exact Hqx].
    unfold keys_atc. apply in_map_iff. exists (l, v). split; [reflexivity|exact Hin].
  Qed.

  Lemma stepn_ktc k lv q q' : NI q ->
    scan_pair s f screen (ktc_range c k (fst lv) (snd lv) (q_since q) (f_until f)) false q 0 = Ok q' ->
    NI q' /\ sub (q_out q) (q_out q') /\
    (forall x, e_kind x = k /\ In lv (indexable_tags (e_tags x)) -> cqual x -> cov (q_out q') x).
  Proof.
    intros Hq H. destruct lv as [l v]. cbn [fst snd] in H. unfold ktc_range in H. rewrite !key_ktc_assoc in H.
    destruct HAllc' as (_ & _ & _ & _ & _ & _ & B6).
    destruct (scan_range_n (t_ktc c) keys_ktc 185 (be16 k ++ [l] ++ pad182 v) false q q' B6 shape_ktc) as (C' & M' & Q');
      [rewrite !app_length, length_pad182; reflexivity|exact Hq|discriminate|exact H|].
    split; [exact C'|]. split; [exact M'|]. intros x [<- Hin] Hqx.
    apply (Q' x (key_ktc (e_kind x) l v (e_created x) (e_id x))); [apply Hqx| |apply key_ktc_assoc|exact Hqx].
    unfold keys_ktc. apply in_map_iff. exists (l, v). split; [reflexivity|exact Hin].
  Qed.

  Lemma stepn_tc lv q q' : NI q ->
    scan_pair s f screen (tc_range c (fst lv) (snd lv) (q_since q) (f_until f)) false q 0 = Ok q' ->
    NI q' /\ sub (q_out q) (q_out q') /\
    (forall x, In lv (indexable_tags (e_tags x)) -> cqual x -> cov (q_out q') x).
  Proof.
    intros Hq H. destruct lv as [l v]. cbn [fst snd] in H. unfold tc_range in H. rewrite !key_tc_assoc in H.
    destruct HAllc' as (_ & _ & _ & _ & B4 & _).
    destruct (scan_range_n (t_tc c) keys_tc 183 ([l] ++ pad182 v) false q q' B4 shape_tc) as (C' & M' & Q');
      [rewrite !app_length, length_pad182; reflexivity|exact Hq|discriminate|exact H|].
    split; [exact C'|]. split; [exact M'|]. intros x Hin Hqx.
    apply (Q' x (key_tc l v (e_created x) (e_id x))); [apply Hqx| |apply key_tc_assoc|exact Hqx].
    unfold keys_tc. apply in_map_iff. exists (l, v). split; [reflexivity|exact Hin].
  Qed.

  Lemma stepn_ac a q q' : length a = 32%nat -> NI q ->
    scan_author s f screen (ac_range c a (q_since q) (f_until f)) q 0 = Ok q' ->
    NI q' /\ sub (q_out q) (q_out q') /\ (forall x, e_pk x = a -> cqual x -> cov (q_out q') x).
  Proof.
    intros Ha Hq H. unfold ac_range, key_ac in H. pose proof Hq as (_ & Hqn & Hqs & Hqu & _).
    destruct HAllc' as (_ & _ & B2 & _).
    destruct (range_events s f screen HA (t_ac c) keys_ac 32 a (q_since q) (f_until f) B2 shape_ac Ha Hqu Huntil) as (xs & E & N & D & W & C).
    destruct (scan_author_newest s f screen HA (t_range (t_ac c) (a ++ rev_time (f_until f) ++ zeros32) (a ++ rev_time (q_since q) ++ ffs32)) xs q 0 q' [] Hq E N D) as (C' & M' & Q'); try assumption.
    - intros z Hz. pose proof (W z Hz). lia.
    - constructor.
    - intros e [].
    - reflexivity.
    - intros y z [].
    - intros y [].
    - split; [exact C'|]. split; [exact M'|]. intros x <- Hqx. pose proof Hqx as [[off [Hi Hf]] [Hm Hs]].
      destruct (spec_facts f x Hm) as (_ & _ & _ & Hs1 & Hs2 & _).
      destruct (N.lt_ge_cases (e_created x) (q_since q)) as [Hlt|Hge].
      + apply (cov_mono f screen (q_out q) (q_out q') x Hqn M'). apply (below_since s f screen q x Hq Hs1 Hlt).
      + apply Q'; [|exact Hqx]. apply (C (key_ac (e_pk x) (e_created x) (e_id x)) off x); [|exact Hf].
        eapply (range_complete L (t_i c) (t_ac c) keys_ac); eauto; [left; reflexivity| |]; unfold key_ac.
        * apply (proj1 (key_in_range (e_pk x) (q_since q) _ (f_until f) _ (proj1 (HWe s HA _ _ Hf)) Hge Hs2 Huntil)).
        * apply (proj2 (key_in_range (e_pk x) (q_since q) _ (f_until f) _ (proj1 (HWe s HA _ _ Hf)) Hge Hs2 Huntil)).
  Qed.

  Lemma stepn_ci q q' : q_out q = [] ->
    scan_scrape s f screen (ci_range c (f_since f) (f_until f)) q = Ok q' ->
    Forall cqual (q_out q') /\ forall x, cqual x -> cov (q_out q') x.
  Proof.
    intros Hempty H. unfold ci_range, key_ci in H. destruct HAllc' as (_ & B1 & _).
    destruct (range_events s f screen HA (t_ci c) keys_ci 0 [] (f_since f) (f_until f) B1 shape_ci eq_refl Hsince Huntil) as (xs & E & N & D & W & C).
    cbn [app] in E, C.
    destruct (scan_scrape_newest s f screen HA (t_range (t_ci c) (rev_time (f_until f) ++ zeros32) (rev_time (f_since f) ++ ffs32)) xs q q') as (Hc' & _ & _ & Q'); try assumption.
    - rewrite Hempty. constructor.
    - rewrite Hempty. constructor.
    - rewrite Hempty. intros y z [].
    - split; [exact Hc'|]. intros x Hqx. pose proof Hqx as [[off [Hi Hf]] [Hm Hs]].
      destruct (spec_facts f x Hm) as (_ & _ & _ & Hs1 & Hs2 & _).
      apply Q'; [|exact Hqx]. apply (C (key_ci (e_created x) (e_id x)) off x); [|exact Hf].
      eapply (range_complete L (t_i c) (t_ci c) keys_ci); eauto; [left; reflexivity| |]; unfold key_ci.
      + apply (proj1 (time_id_in_window (f_since f) _ (f_until f) _ (proj1 (HWe s HA _ _ Hf)) Hs1 Hs2 Huntil)).
      + apply (proj2 (time_id_in_window (f_since f) _ (f_until f) _ (proj1 (HWe s HA _ _ Hf)) Hs1 Hs2 Huntil)).
  Qed.

  Variable now : N.
  Variables (allow_scraping : bool) (allow_limit : N) (allow_seconds : N).

  Theorem find_events_q_newest q' : find_events_q s f screen now allow_scraping allow_limit allow_seconds = Ok q' ->
    Forall clive (q_out q') /\ forall x, cqual x -> cov (q_out q') x.
  Proof.
    assert (Hcl : forall l, Forall cqual l -> Forall clive l) by (intros l Hl; eapply Forall_impl; [|exact Hl]; intros a Ha; apply Ha).
    unfold find_events_q. set (q0 := mkQ [] false (f_since f)).
    assert (H0 : NI q0).
    { unfold DbQueryNewest.NI. cbn [q_out q_since q0]. refine (conj _ (conj _ (conj _ (conj Hsince (or_introl eq_refl))))); [constructor|constructor|lia]. }
    assert (H0c : CI s f q0) by (split; [constructor|reflexivity]).
    pose proof (proj1 (Forall_forall _ _) Hauth) as Hauth'. pose proof (proj1 (Forall_forall _ _) Hkinds) as Hkinds'.
    destruct (f_ids f) as [|i ids] eqn:Ei.
    2:{ intros H. destruct (scan_ids_complete s f screen HA (i :: ids) q0 q' H0c H) as (Cq & _ & Q').
        split; [apply Cq|]. intros x Hqx. left. apply Q'; [|exact Hqx].
        destruct (spec_facts f x (proj1 (proj2 Hqx))) as ([E|E] & _); [rewrite Ei in E; discriminate|rewrite Ei in E; exact E]. }
    fold c.
    case_eq (f_authors f); [intros Ea|intros a au Ea]; (case_eq (f_kinds f); [intros Ek|intros kd ks Ek]);
      (case_eq (f_tags f); [intros Et|intros t ts Et]); rewrite Ea in Hauth'; rewrite Ek in Hkinds'.
    - (* scrape *) destruct (negb _); [discriminate|]. intros H. destruct (stepn_ci q0 q' eq_refl H) as [A B]. split; [apply Hcl; exact A|exact B].
    - (* tags only *)
      destruct (tag_ranges f) as [rs| | |] eqn:Er; cbn [bind]; try discriminate. intros H.
      destruct (fold_res_newest s f screen _ rs (fun lv x => In lv (indexable_tags (e_tags x)))
                  (fun q lv q1 _ Hq Hs => stepn_tc lv q q1 Hq Hs) q0 q' H0 H) as (Cn & _ & Q').
      split; [apply Hcl; apply Cn|]. intros x Hqx. destruct (first_constraint_range f Hletters x t ts rs Et Er (proj1 (proj2 Hqx))) as [lv [H1 H2]].
      eapply Q'; eauto.
    - (* kinds only: scrape *) destruct (negb _); [discriminate|]. intros H. destruct (stepn_ci q0 q' eq_refl H) as [A B]. split; [apply Hcl; exact A|exact B].
    - (* kinds + tags *)
      destruct (tag_ranges f) as [rs| | |] eqn:Er; cbn [bind]; try discriminate. intros H.
      destruct (fold_res_newest s f screen _ (kd :: ks) (fun k x => e_kind x = k)
                  (fun q k q1 _ Hq Hs =>
                     let '(conj C1 (conj M1 Q1)) := fold_res_newest s f screen _ rs (fun lv x => e_kind x = k /\ In lv (indexable_tags (e_tags x)))
                        (fun q2 lv q3 _ Hq2 Hs2 => stepn_ktc k lv q2 q3 Hq2 Hs2) q q1 Hq Hs in
                     conj C1 (conj M1 (fun x Hk Hqx =>
                       let '(ex_intro _ lv (conj H1 H2)) := first_constraint_range f Hletters x t ts rs Et Er (proj1 (proj2 Hqx)) in
                       Q1 lv x H1 (conj Hk H2) Hqx))) q0 q' H0 H) as (Cn & _ & Q').
      split; [apply Hcl; apply Cn|]. intros x Hqx. destruct (spec_facts f x (proj1 (proj2 Hqx))) as (_ & _ & [E|E] & _); [rewrite Ek in E; discriminate|].
      rewrite Ek in E. eapply Q'; eauto.
    - (* authors only *)
      intros H.
      destruct (fold_res_newest s f screen _ (a :: au) (fun a0 x => e_pk x = a0)
                  (fun q a0 q1 Hin Hq Hs => stepn_ac a0 q q1 (Hauth' a0 Hin) Hq Hs) q0 q' H0 H) as (Cn & _ & Q').
      split; [apply Hcl; apply Cn|]. intros x Hqx. destruct (spec_facts f x (proj1 (proj2 Hqx))) as (_ & [E|E] & _); [rewrite Ea in E; discriminate|].
      rewrite Ea in E. eapply Q'; eauto.
    - (* authors + tags *)
      destruct (tag_ranges f) as [rs| | |] eqn:Er; cbn [bind]; try discriminate. intros H.
      destruct (fold_res_newest s f screen _ (a :: au) (fun a0 x => e_pk x = a0)
                  (fun q a0 q1 Hin Hq Hs =>
                     let '(conj C1 (conj M1 Q1)) := fold_res_newest s f screen _ rs (fun lv x => e_pk x = a0 /\ In lv (indexable_tags (e_tags x)))
                        (fun q2 lv q3 _ Hq2 Hs2 => stepn_atc a0 lv q2 q3 (Hauth' a0 Hin) Hq2 Hs2) q q1 Hq Hs in
                     conj C1 (conj M1 (fun x Hk Hqx =>
                       let '(ex_intro _ lv (conj H1 H2)) := first_constraint_range f Hletters x t ts rs Et Er (proj1 (proj2 Hqx)) in
                       Q1 lv x H1 (conj Hk H2) Hqx))) q0 q' H0 H) as (Cn & _ & Q').
      split; [apply Hcl; apply Cn|]. intros x Hqx. destruct (spec_facts f x (proj1 (proj2 Hqx))) as (_ & [E|E] & _); [rewrite Ea in E; discriminate|].
      rewrite Ea in E. eapply Q'; eauto.
    - (* authors + kinds *)
      intros H.
      destruct (fold_res_newest s f screen _ (a :: au) (fun a0 x => e_pk x = a0 /\ In (e_kind x) (kd :: ks))
                  (fun q a0 q1 Hin Hq Hs =>
                     let '(conj C1 (conj M1 Q1)) := fold_res_newest s f screen _ (kd :: ks) (fun k x => e_pk x = a0 /\ e_kind x = k)
                        (fun q2 k q3 Hink Hq2 Hs2 => stepn_akc a0 k q2 q3 (Hauth' a0 Hin) (Hkinds' k Hink) Hq2 Hs2) q q1 Hq Hs in
                     conj C1 (conj M1 (fun x Hk Hqx => Q1 (e_kind x) x (proj2 Hk) (conj (proj1 Hk) eq_refl) Hqx))) q0 q' H0 H) as (Cn & _ & Q').
      split; [apply Hcl; apply Cn|]. intros x Hqx. destruct (spec_facts f x (proj1 (proj2 Hqx))) as (_ & [E|E] & [E2|E2] & _);
        try (rewrite Ea in E; discriminate); try (rewrite Ek in E2; discriminate).
      rewrite Ea in E. rewrite Ek in E2. eapply Q'; eauto.
    - (* authors + kinds + tags *)
      intros H.
      destruct (fold_res_newest s f screen _ (a :: au) (fun a0 x => e_pk x = a0 /\ In (e_kind x) (kd :: ks))
                  (fun q a0 q1 Hin Hq Hs =>
                     let '(conj C1 (conj M1 Q1)) := fold_res_newest s f screen _ (kd :: ks) (fun k x => e_pk x = a0 /\ e_kind x = k)
                        (fun q2 k q3 Hink Hq2 Hs2 => stepn_akc a0 k q2 q3 (Hauth' a0 Hin) (Hkinds' k Hink) Hq2 Hs2) q q1 Hq Hs in
                     conj C1 (conj M1 (fun x Hk Hqx => Q1 (e_kind x) x (proj2 Hk) (conj (proj1 Hk) eq_refl) Hqx))) q0 q' H0 H) as (Cn & _ & Q').
      split; [apply Hcl; apply Cn|]. intros x Hqx. destruct (spec_facts f x (proj1 (proj2 Hqx))) as (_ & [E|E] & [E2|E2] & _);
        try (rewrite Ea in E; discriminate); try (rewrite Ek in E2; discriminate).
      rewrite Ea in E. rewrite Ek in E2. eapply Q'; eauto.
  Qed.
End PlansN.

(* ---------- the theorem ---------- *)
Theorem find_events_newest s f screen now allow_scraping allow_limit allow_seconds out red :
  StoreInv s -> filter_ok f ->
  find_events s f screen now allow_scraping allow_limit allow_seconds = Ok (out, red) ->
  forall x, cqual s f screen x ->
    In x out \/ (len out = f_limit f /\ forall y, In y out -> e_created x <= e_created y).
Proof.
  intros HA (F1 & F2 & F3 & F4 & F5) H x Hqx. unfold find_events in H.
  destruct (find_events_q s f screen now allow_scraping allow_limit allow_seconds) as [q| | |] eqn:Eq; cbn [bind] in H; try discriminate.
  injection H as <- <-.
  pose proof (sort_desc_sorted (q_out q)) as Hsorted.
  destruct (proj2 (find_events_q_newest s f screen HA F1 F2 F3 F4 F5 now allow_scraping allow_limit allow_seconds q Eq) x Hqx) as [Hin|Hdom].
  - apply (beyond_top _ _ x Hsorted). apply sort_desc_In. exact Hin.
  - right. apply top_dominates; [exact Hsorted|]. rewrite <- (cge_perm _ _ _ (sort_desc_perm (q_out q))). exact Hdom.
Qed.

Corollary find_events_newest_reachable ops names f screen now allow_scraping allow_limit allow_seconds out red :
  ops_wfe ops -> let s := c_run ops (db_init names) in
  filter_ok f ->
  find_events s f screen now allow_scraping allow_limit allow_seconds = Ok (out, red) ->
  forall x, get_event_by_id s (e_id x) = Ok (Some x) -> spec_matches f x = true -> screen x = SMatch ->
    In x out \/ (len out = f_limit f /\ forall y, In y out -> e_created x <= e_created y).
Proof.
  intros Hops s Hf H x Hl Hm Hs. pose proof (c_run_StoreInv ops _ Hops (StoreInv_init names)) as HA. fold s in HA.
  apply (find_events_newest s f screen now allow_scraping allow_limit allow_seconds out red HA Hf H x).
  split; [|split; assumption]. destruct HA as (_ & Hid & _).
  destruct (by_id_entry s _ _ Hid Hl) as [off [Hi Hfnd]]. exists off. split; assumption.
Qed.

(* all access paths agree with the id index (C17): whichever index serves a filter, an event is in the (untruncated) answer
   exactly when a lookup by its id returns it and it matches *)
Corollary query_paths_agree_with_id_index ops names f now allow_scraping allow_limit allow_seconds out red :
  ops_wfe ops -> let s := c_run ops (db_init names) in
  filter_ok f -> limit_exceeds_store s f ->
  find_events s f all_match now allow_scraping allow_limit allow_seconds = Ok (out, red) ->
  forall e, In e out <-> (get_event_by_id s (e_id e) = Ok (Some e) /\ spec_matches f e = true).
Proof.
  intros Hops s Hf Hb H e.
  rewrite (find_events_exact_reachable ops names f all_match now allow_scraping allow_limit allow_seconds out red Hops Hf Hb H e).
  unfold all_match. split; [intros (A & B & _); split; assumption|intros (A & B); repeat split; assumption].
Qed.

(* an answer that cannot be truncated: the limit exceeds the number of retrievable events (given as any list of ids
   that contains the id of every retrievable event) - then the answer is exactly the qualifying set, for every plan *)
Theorem find_events_untruncated s f screen now allow_scraping allow_limit allow_seconds out red B :
  StoreInv s -> filter_ok f -> (forall x, clive s x -> In (e_id x) B) -> len B < f_limit f ->
  find_events s f screen now allow_scraping allow_limit allow_seconds = Ok (out, red) ->
  forall x, In x out <-> cqual s f screen x.
Proof.
  intros HA (F1 & F2 & F3 & F4 & F5) HB Hlim H x. unfold find_events in H.
  destruct (find_events_q s f screen now allow_scraping allow_limit allow_seconds) as [q| | |] eqn:Eq; cbn [bind] in H; try discriminate.
  injection H as <- <-.
  destruct (find_events_q_newest s f screen HA F1 F2 F3 F4 F5 now allow_scraping allow_limit allow_seconds q Eq) as [Hlive Hall].
  destruct (find_events_q_inv s f screen now allow_scraping allow_limit allow_seconds q Eq) as [Hgood [Hnd _]].
  assert (Hlen : len (q_out q) <= len B).
  { assert (Hids : NoDup (map e_id (q_out q))).
    { clear -Hnd Hlive HA. induction (q_out q) as [|a r IH]; cbn [map]; [constructor|].
      inversion Hnd as [|? ? Hn Hr]; subst. inversion Hlive as [|? ? La Lr]; subst.
      constructor; [|apply IH; assumption]. intros Hin. apply Hn. apply in_map_iff in Hin. destruct Hin as [b [Eb Hb]].
      rewrite Forall_forall in Lr. assert (b = a) by (apply (live_unique s HA); [apply Lr; exact Hb|exact La|exact Eb]). subst b.
      apply in_map_iff. exists a. split; [reflexivity|exact Hb]. }
    assert (Hincl : incl (map e_id (q_out q)) B).
    { intros id Hin. apply in_map_iff in Hin. destruct Hin as [a [<- Ha]]. rewrite Forall_forall in Hlive. apply HB. apply Hlive. exact Ha. }
    pose proof (NoDup_incl_length Hids Hincl) as Hle. rewrite map_length in Hle. unfold len. lia. }
  rewrite ltake_all by (pose proof (Permutation_length (sort_desc_perm (q_out q))); unfold len in *; lia).
  rewrite sort_desc_In. split.
  - intros Hin. rewrite Forall_forall in Hlive, Hgood. destruct (Hgood x Hin) as (_ & Hm & Hs).
    split; [apply Hlive; exact Hin|split; assumption].
  - intros Hqx. destruct (Hall x Hqx) as [Hin|Hdom]; [exact Hin|exfalso].
    pose proof (cge_le_len (q_out q) (e_created x)). lia.
Qed.
