(* DbQuerySound.v — soundness of the CONCRETE query planner (Db.find_events: the seven plans over the
   index tables) for EVERY store state, filter, screening function and scraping allowance, with no
   invariant assumed of the state:
     every returned event is a stored event read through an index entry, matches the filter under the
     NIP-01 specification and was screened Match; the answer is newest first (ties by id), holds no two
     events with the same (created_at, id), and is no longer than the limit; the redacted flag is set only
     if some stored matching event was screened Redacted.
   (Completeness - that every qualifying event is found - needs the index invariants and is decided per
   run by the correspondence check against ADb.a_query.) *)
From Pocket Require Import Db ADb ADbProofs.
From Coq Require Import Permutation.

Section Sound.
  Variable s : db.
  Variable f : afilter.
  Variable screen : aevent -> sres.

  Definition stored (e : aevent) : Prop := exists off, get_event_by_offset s off = Ok e.
  Definition good (e : aevent) : Prop := stored e /\ spec_matches f e = true /\ screen e = SMatch.
  Definition redsrc : Prop := exists e, stored e /\ spec_matches f e = true /\ screen e = SRedacted.

  Definition okey (e : aevent) : N * bytes := (e_created e, e_id e).
  Lemma same_ord_iff a b : same_ord a b = true <-> okey a = okey b.
  Proof.
    unfold same_ord, okey. rewrite andb_true_iff, N.eqb_eq, beq_eq. split.
    - intros [-> ->]. reflexivity.
    - intros [= -> ->]. split; reflexivity.
  Qed.
  Lemma existsb_same_ord_false e l : existsb (same_ord e) l = false -> ~ In (okey e) (map okey l).
  Proof.
    intros H Hin. apply in_map_iff in Hin. destruct Hin as [x [Hk Hx]].
    assert (existsb (same_ord e) l = true); [|congruence].
    apply existsb_exists. exists x. split; [exact Hx|]. apply same_ord_iff. symmetry. exact Hk.
  Qed.

  Definition QInv (q : qstate) : Prop :=
    Forall good (q_out q) /\ NoDup (map okey (q_out q)) /\ (q_red q = true -> redsrc).

  Lemma QInv_since q x : QInv q -> QInv (mkQ (q_out q) (q_red q) x).
  Proof. intros H. exact H. Qed.

  Lemma accept_inv q e : QInv q -> stored e -> QInv (fst (accept f screen q e)).
  Proof.
    intros [Hg [Hn Hr]] Hs. unfold accept.
    destruct (spec_matches f e) eqn:Em; [|repeat split; assumption].
    destruct (screen e) eqn:Es; cbn [fst].
    - unfold QInv. cbn [q_out q_red]. unfold out_insert.
      destruct (existsb (same_ord e) (q_out q)) eqn:Ex; [repeat split; assumption|].
      split; [|split; [|exact Hr]].
      + constructor; [|exact Hg]. repeat split; assumption.
      + cbn [map]. constructor; [apply existsb_same_ord_false; exact Ex|exact Hn].
    - repeat split; assumption.
    - unfold QInv. cbn [q_out q_red]. split; [exact Hg|split; [exact Hn|]].
      intros _. exists e. repeat split; assumption.
  Qed.

  Lemma stored_of_offset off e : get_event_by_offset s off = Ok e -> stored e.
  Proof. intros H. exists off. exact H. Qed.

  Lemma scan_pair_inv entries : forall repl q count q', QInv q ->
    scan_pair s f screen entries repl q count = Ok q' -> QInv q'.
  Proof.
    induction entries as [|[k off] r IH]; intros repl q count q' Hq H; cbn [scan_pair] in H.
    - injection H as <-. exact Hq.
    - destruct (get_event_by_offset s off) as [e| | |] eqn:Eo; cbn [bind] in H; try discriminate.
      destruct (e_created e <? q_since q); [injection H as <-; exact Hq|].
      pose proof (accept_inv q e Hq (stored_of_offset _ _ Eo)) as Ha.
      destruct (accept f screen q e) as [q1 acc]. cbn [fst] in Ha.
      destruct acc.
      + destruct (f_limit f <=? count + 1); [injection H as <-; exact Ha|].
        destruct repl; [injection H as <-; exact Ha|]. eapply IH; eauto.
      + eapply IH; eauto.
  Qed.

  Lemma scan_author_inv entries : forall q count q', QInv q ->
    scan_author s f screen entries q count = Ok q' -> QInv q'.
  Proof.
    induction entries as [|[k off] r IH]; intros q count q' Hq H; cbn [scan_author] in H.
    - injection H as <-. exact Hq.
    - destruct (get_event_by_offset s off) as [e| | |] eqn:Eo; cbn [bind] in H; try discriminate.
      destruct (e_created e <? f_since f); [injection H as <-; exact Hq|].
      pose proof (accept_inv q e Hq (stored_of_offset _ _ Eo)) as Ha.
      destruct (accept f screen q e) as [q1 acc]. cbn [fst] in Ha.
      destruct acc.
      + destruct (f_limit f <=? count + 1); [injection H as <-; exact Ha|]. eapply IH; eauto.
      + eapply IH; eauto.
  Qed.

  Lemma scan_scrape_inv entries : forall q q', QInv q -> scan_scrape s f screen entries q = Ok q' -> QInv q'.
  Proof.
    induction entries as [|[k off] r IH]; intros q q' Hq H; cbn [scan_scrape] in H.
    - injection H as <-. exact Hq.
    - destruct (f_limit f <=? len (q_out q)); [injection H as <-; exact Hq|].
      destruct (get_event_by_offset s off) as [e| | |] eqn:Eo; cbn [bind] in H; try discriminate.
      pose proof (accept_inv q e Hq (stored_of_offset _ _ Eo)) as Ha.
      destruct (accept f screen q e) as [q1 acc]. cbn [fst] in Ha. eapply IH; eauto.
  Qed.

  Lemma scan_ids_inv ids : forall q q', QInv q -> scan_ids s f screen ids q = Ok q' -> QInv q'.
  Proof.
    induction ids as [|id r IH]; intros q q' Hq H; cbn [scan_ids] in H.
    - injection H as <-. exact Hq.
    - destruct (get_event_by_id s id) as [o| | |] eqn:Eg; cbn [bind] in H; try discriminate.
      destruct o as [e|]; [|eapply IH; eauto].
      assert (Hs : stored e).
      { unfold get_event_by_id in Eg. destruct (t_get (t_i (committed s)) id) as [off|]; [|discriminate].
        destruct (get_event_by_offset s off) as [e'| | |] eqn:Eo; cbn [bind] in Eg; try discriminate.
        injection Eg as <-. exists off. exact Eo. }
      pose proof (accept_inv q e Hq Hs) as Ha.
      destruct (accept f screen q e) as [q1 acc]. cbn [fst] in Ha. eapply IH; eauto.
  Qed.

  Lemma fold_res_inv {A} (g : qstate -> A -> res qstate) (l : list A) :
    (forall q x q', QInv q -> g q x = Ok q' -> QInv q') ->
    forall q q', QInv q -> fold_res g l q = Ok q' -> QInv q'.
  Proof.
    intros Hg. unfold fold_res.
    assert (Gen : forall (r : res qstate) q', (forall q, r = Ok q -> QInv q) ->
              fold_left (fun r x => q <- r ;; g q x) l r = Ok q' -> QInv q').
    { induction l as [|x l IH]; intros r q' Hr H; cbn [fold_left] in H.
      - apply Hr. exact H.
      - apply (IH (q <- r ;; g q x) q'); [|exact H].
        intros q2 H2. destruct r as [q1| | |]; cbn [bind] in H2; try discriminate.
        eapply Hg; [apply Hr; reflexivity|exact H2]. }
    intros q q' Hq H. apply (Gen (Ok q) q'); [|exact H]. intros q0 [= <-]. exact Hq.
  Qed.

  Variable now : N.
  Variables (allow_scraping : bool) (allow_limit : N) (allow_seconds : N).

  Lemma find_events_q_inv q' :
    find_events_q s f screen now allow_scraping allow_limit allow_seconds = Ok q' -> QInv q'.
  Proof.
    unfold find_events_q.
    assert (H0 : QInv (mkQ [] false (f_since f))).
    { unfold QInv. cbn [q_out q_red]. split; [constructor|split; [constructor|discriminate]]. }
    destruct (f_ids f) as [|i ids].
    2:{ apply scan_ids_inv. exact H0. }
    destruct (f_authors f) as [|a au], (f_kinds f) as [|k ks], (f_tags f) as [|t ts].
    - (* scrape *)
      destruct (negb _); [discriminate|]. apply scan_scrape_inv. exact H0.
    - (* tags only *)
      destruct (tag_ranges f) as [rs| | |]; cbn [bind]; try discriminate.
      apply fold_res_inv; [|exact H0]. intros q x q2 Hq. apply scan_pair_inv. exact Hq.
    - destruct (negb _); [discriminate|]. apply scan_scrape_inv. exact H0.
    - (* kinds + tags *)
      destruct (tag_ranges f) as [rs| | |]; cbn [bind]; try discriminate.
      apply fold_res_inv; [|exact H0]. intros q x q2 Hq.
      apply fold_res_inv; [|exact Hq]. intros q3 y q4 Hq3. apply scan_pair_inv. exact Hq3.
    - (* authors only *)
      apply fold_res_inv; [|exact H0]. intros q x q2 Hq. apply scan_author_inv. exact Hq.
    - (* authors + tags *)
      destruct (tag_ranges f) as [rs| | |]; cbn [bind]; try discriminate.
      apply fold_res_inv; [|exact H0]. intros q x q2 Hq.
      apply fold_res_inv; [|exact Hq]. intros q3 y q4 Hq3. apply scan_pair_inv. exact Hq3.
    - (* authors + kinds *)
      apply fold_res_inv; [|exact H0]. intros q x q2 Hq.
      apply fold_res_inv; [|exact Hq]. intros q3 y q4 Hq3. apply scan_pair_inv. exact Hq3.
    - apply fold_res_inv; [|exact H0]. intros q x q2 Hq.
      apply fold_res_inv; [|exact Hq]. intros q3 y q4 Hq3. apply scan_pair_inv. exact Hq3.
  Qed.

  (* sorting and truncation keep the facts *)
  Lemma insert_desc_perm e l : Permutation (e :: l) (insert_desc e l).
  Proof.
    induction l as [|x l IH]; cbn [insert_desc]; [apply Permutation_refl|].
    destruct (ev_lt e x); [|apply Permutation_refl].
    eapply perm_trans; [apply perm_swap|]. apply perm_skip. exact IH.
  Qed.
  Lemma sort_desc_perm l : Permutation l (sort_desc l).
  Proof.
    induction l as [|e l IH]; cbn [sort_desc]; [apply perm_nil|].
    eapply perm_trans; [apply perm_skip; exact IH|apply insert_desc_perm].
  Qed.
  Lemma ltake_prefix {A} n (l : list A) : exists r, l = ltake n l ++ r.
  Proof.
    revert n; induction l as [|x l IH]; intros n; cbn [ltake]; [exists []; reflexivity|].
    destruct (n =? 0); [exists (x :: l); reflexivity|].
    destruct (IH (n - 1)) as [r Hr]. exists r. cbn [app]. f_equal. exact Hr.
  Qed.
  Lemma NoDup_app_l {A} (a b : list A) : NoDup (a ++ b) -> NoDup a.
  Proof.
    induction a as [|x a IH]; cbn [app]; intros H; [constructor|].
    inversion H as [|? ? Hn Hd]; subst. constructor; [|apply IH; exact Hd].
    intros Hin. apply Hn. apply in_or_app. left. exact Hin.
  Qed.

  Theorem find_events_sound out red :
    find_events s f screen now allow_scraping allow_limit allow_seconds = Ok (out, red) ->
    Forall good out /\ desc_sorted out /\ NoDup (map okey out) /\ len out <= f_limit f /\ (red = true -> redsrc).
  Proof.
    unfold find_events.
    destruct (find_events_q s f screen now allow_scraping allow_limit allow_seconds) as [q| | |] eqn:Eq; cbn [bind]; try discriminate.
    intros [= <- <-]. destruct (find_events_q_inv q Eq) as [Hg [Hn Hr]].
    split; [|split; [|split; [|split]]].
    - apply Forall_forall. intros x Hx. apply ltake_In in Hx. apply (proj1 (sort_desc_In _ _)) in Hx.
      rewrite Forall_forall in Hg. apply Hg. exact Hx.
    - apply desc_sorted_ltake. apply sort_desc_sorted.
    - destruct (ltake_prefix (f_limit f) (sort_desc (q_out q))) as [r Hr'].
      assert (Hp : NoDup (map okey (sort_desc (q_out q)))).
      { eapply Permutation_NoDup; [apply Permutation_map; apply sort_desc_perm|exact Hn]. }
      rewrite Hr', map_app in Hp. eapply NoDup_app_l. exact Hp.
    - rewrite ltake_length. lia.
    - exact Hr.
  Qed.
End Sound.

(* ---------- a query never panics, and is refused as scraping only when justified ---------- *)
(* the only Panic of the planner is `tag0[0]` on a tag constraint whose NAME is the empty string *)
Definition lettered (f : afilter) : Prop :=
  Forall (fun c => match c with name :: _ :: _ => name <> [] | _ => True end) (f_tags f).

(* [fails_with r k]: r is the non-Ok outcome k *)
Definition fails_with {A} (r : res A) (k : res unit) : Prop :=
  match r, k with
  | Panic, Panic => True
  | OutOfFuel, OutOfFuel => True
  | Err a, Err b => a = b
  | _, _ => False
  end.
Lemma fails_with_bind {A B} (r : res A) (g : A -> res B) k :
  ~ fails_with r k -> (forall a, ~ fails_with (g a) k) -> ~ fails_with (x <- r ;; g x) k.
Proof. intros Hr Hg. destruct r; cbn [bind]; auto. Qed.

Section NoFail.
  Variable s : db.
  Variable f : afilter.
  Variable screen : aevent -> sres.
  (* an outcome the scans never produce: anything but Ok, Err EEnd, Err EOther *)
  Variable k : res unit.
  Hypothesis k_not_ok : forall u, k <> Ok u.
  Hypothesis k_not_end : k <> Err EEnd.
  Hypothesis k_not_other : k <> Err EOther.

  Lemma ok_nf {A} (a : A) : ~ fails_with (Ok a) k.
  Proof. cbn. destruct k; auto. Qed.
  Lemma gebo_nf off : ~ fails_with (get_event_by_offset s off) k.
  Proof.
    unfold get_event_by_offset. destruct (log_end s <=? off).
    - cbn. destruct k; auto. intros <-. congruence.
    - destruct (log_find _ _); [apply ok_nf|]. cbn. destruct k; auto. intros <-. congruence.
  Qed.
  Lemma gebi_nf id : ~ fails_with (get_event_by_id s id) k.
  Proof.
    unfold get_event_by_id. destruct (t_get _ _) as [off|]; [|apply ok_nf].
    apply fails_with_bind; [apply gebo_nf|]. intros a. apply ok_nf.
  Qed.

  Lemma scan_pair_nf entries : forall repl q count, ~ fails_with (scan_pair s f screen entries repl q count) k.
  Proof.
    induction entries as [|[kk off] r IH]; intros repl q count; cbn [scan_pair]; [apply ok_nf|].
    apply fails_with_bind; [apply gebo_nf|]. intros e.
    destruct (e_created e <? q_since q); [apply ok_nf|].
    destruct (accept f screen q e) as [q1 acc]. destruct acc; [|apply IH].
    destruct (f_limit f <=? count + 1); [apply ok_nf|]. destruct repl; [apply ok_nf|apply IH].
  Qed.
  Lemma scan_author_nf entries : forall q count, ~ fails_with (scan_author s f screen entries q count) k.
  Proof.
    induction entries as [|[kk off] r IH]; intros q count; cbn [scan_author]; [apply ok_nf|].
    apply fails_with_bind; [apply gebo_nf|]. intros e.
    destruct (e_created e <? f_since f); [apply ok_nf|].
    destruct (accept f screen q e) as [q1 acc]. destruct acc; [|apply IH].
    destruct (f_limit f <=? count + 1); [apply ok_nf|apply IH].
  Qed.
  Lemma scan_scrape_nf entries : forall q, ~ fails_with (scan_scrape s f screen entries q) k.
  Proof.
    induction entries as [|[kk off] r IH]; intros q; cbn [scan_scrape]; [apply ok_nf|].
    destruct (f_limit f <=? len (q_out q)); [apply ok_nf|].
    apply fails_with_bind; [apply gebo_nf|]. intros e.
    destruct (accept f screen q e) as [q1 acc]. apply IH.
  Qed.
  Lemma scan_ids_nf ids : forall q, ~ fails_with (scan_ids s f screen ids q) k.
  Proof.
    induction ids as [|id r IH]; intros q; cbn [scan_ids]; [apply ok_nf|].
    apply fails_with_bind; [apply gebi_nf|]. intros o.
    destruct o as [e|]; [|apply IH]. destruct (accept f screen q e) as [q1 acc]. apply IH.
  Qed.
  Lemma fold_res_nf {A} (g : qstate -> A -> res qstate) (l : list A) :
    (forall q x, ~ fails_with (g q x) k) -> forall q, ~ fails_with (fold_res g l q) k.
  Proof.
    intros Hg q. unfold fold_res.
    assert (Gen : forall r : res qstate, ~ fails_with r k -> ~ fails_with (fold_left (fun r x => q <- r ;; g q x) l r) k).
    { induction l as [|x l IH]; intros r Hr; cbn [fold_left]; [exact Hr|].
      apply IH. apply fails_with_bind; [exact Hr|]. intros a. apply Hg. }
    apply Gen. apply ok_nf.
  Qed.

  Lemma tag_ranges_nf : (k = Panic -> lettered f) -> ~ fails_with (tag_ranges f) k.
  Proof.
    intros Hl. unfold tag_ranges.
    assert (Gen : forall l r, (k = Panic -> Forall (fun c => match c with name :: _ :: _ => name <> [] | _ => True end) l) ->
      ~ fails_with r k ->
      ~ fails_with (fold_left (fun r (c : list bytes) => acc <- r ;;
        match c with
        | [] => Ok acc
        | name :: vals => match vals with [] => Ok acc | _ => match name with [] => Panic | letter :: _ => Ok (acc ++ map (fun v => (letter, v)) vals) end end
        end) l r) k).
    { induction l as [|c l IH]; intros r Hf Hr; cbn [fold_left]; [exact Hr|].
      apply IH. { intros Hk. specialize (Hf Hk). inversion Hf; assumption. }
      apply fails_with_bind; [exact Hr|]. intros acc.
      destruct c as [|name vals]; [apply ok_nf|]. destruct vals as [|v vs]; [apply ok_nf|].
      destruct name as [|letter nm]; [|apply ok_nf].
      cbn. destruct k; auto. intros _. specialize (Hf eq_refl). inversion Hf as [|? ? Hc _]; subst. congruence. }
    apply Gen; [exact Hl|apply ok_nf].
  Qed.

  Variable now : N.
  Variables (allow_scraping : bool) (allow_limit : N) (allow_seconds : N).

  Definition scrape_refused : Prop :=
    f_ids f = [] /\ f_authors f = [] /\ f_tags f = [] /\
    allow_scraping = false /\ allow_limit < f_limit f /\ allow_seconds <= N.min (f_until f) now - f_since f.

  Lemma scrape_branch_nf : (k = Err EScraper -> ~ scrape_refused) -> f_ids f = [] -> f_authors f = [] -> f_tags f = [] ->
    ~ fails_with
      (if negb (allow_scraping || (f_limit f <=? allow_limit) || (N.min (f_until f) now - f_since f <? allow_seconds))
       then Err EScraper else scan_scrape s f screen (ci_range (committed s) (f_since f) (f_until f)) (mkQ [] false (f_since f))) k.
  Proof.
    intros Hsc Ei Ea Et. destruct (negb _) eqn:En; [|apply scan_scrape_nf].
    cbn [fails_with]. destruct k as [u|x| |] eqn:Ek; auto. intros <-.
    apply (Hsc eq_refl). unfold scrape_refused.
    apply negb_true_iff in En. apply orb_false_iff in En. destruct En as [En E3]. apply orb_false_iff in En. destruct En as [E1 E2].
    repeat split; auto; lia.
  Qed.

  Lemma find_events_nf : (k = Panic -> lettered f) -> (k = Err EScraper -> ~ scrape_refused) ->
    ~ fails_with (find_events s f screen now allow_scraping allow_limit allow_seconds) k.
  Proof.
    intros Hl Hsc. unfold find_events. apply fails_with_bind; [|intros q; apply ok_nf].
    unfold find_events_q. destruct (f_ids f) as [|i ids] eqn:Ei; [|apply scan_ids_nf].
    pose proof (tag_ranges_nf Hl) as Ht.
    destruct (f_authors f) as [|a au] eqn:Ea, (f_kinds f) as [|kd ks], (f_tags f) as [|t ts] eqn:Et.
    - apply scrape_branch_nf; assumption.
    - apply fails_with_bind; [exact Ht|]. intros rs. apply fold_res_nf. intros q x. apply scan_pair_nf.
    - apply scrape_branch_nf; assumption.
    - apply fails_with_bind; [exact Ht|]. intros rs. apply fold_res_nf. intros q x. apply fold_res_nf. intros q2 y. apply scan_pair_nf.
    - apply fold_res_nf. intros q x. apply scan_author_nf.
    - apply fails_with_bind; [exact Ht|]. intros rs. apply fold_res_nf. intros q x. apply fold_res_nf. intros q2 y. apply scan_pair_nf.
    - apply fold_res_nf. intros q x. apply fold_res_nf. intros q2 y. apply scan_pair_nf.
    - apply fold_res_nf. intros q x. apply fold_res_nf. intros q2 y. apply scan_pair_nf.
  Qed.
End NoFail.

Theorem find_events_no_panic s f screen now allow_scraping allow_limit allow_seconds : lettered f ->
  find_events s f screen now allow_scraping allow_limit allow_seconds <> Panic.
Proof.
  intros Hl E. apply (find_events_nf s f screen Panic) with (now := now) (allow_scraping := allow_scraping)
    (allow_limit := allow_limit) (allow_seconds := allow_seconds); try discriminate; auto.
  rewrite E. exact I.
Qed.

Theorem find_events_scraper_only_when_justified s f screen now allow_scraping allow_limit allow_seconds :
  find_events s f screen now allow_scraping allow_limit allow_seconds = Err EScraper ->
  f_ids f = [] /\ f_authors f = [] /\ f_tags f = [] /\
  allow_scraping = false /\ allow_limit < f_limit f /\ allow_seconds <= N.min (f_until f) now - f_since f.
Proof.
  intros E.
  destruct (f_ids f) as [|i ids] eqn:Ei.
  2:{ exfalso. apply (find_events_nf s f screen (Err EScraper)) with (now := now) (allow_scraping := allow_scraping)
        (allow_limit := allow_limit) (allow_seconds := allow_seconds); try discriminate.
      - intros _ [H _]. congruence.
      - rewrite E. reflexivity. }
  (* decide the refusal condition; if it does not hold the query cannot fail with EScraper *)
  destruct (f_authors f) as [|a au] eqn:Ea.
  2:{ exfalso. apply (find_events_nf s f screen (Err EScraper)) with (now := now) (allow_scraping := allow_scraping)
        (allow_limit := allow_limit) (allow_seconds := allow_seconds); try discriminate.
      - intros _ [_ [H _]]. congruence.
      - rewrite E. reflexivity. }
  destruct (f_tags f) as [|t ts] eqn:Et.
  2:{ exfalso. apply (find_events_nf s f screen (Err EScraper)) with (now := now) (allow_scraping := allow_scraping)
        (allow_limit := allow_limit) (allow_seconds := allow_seconds); try discriminate.
      - intros _ [_ [_ [H _]]]. congruence.
      - rewrite E. reflexivity. }
  destruct allow_scraping eqn:Eas.
  { exfalso. apply (find_events_nf s f screen (Err EScraper)) with (now := now) (allow_scraping := true)
        (allow_limit := allow_limit) (allow_seconds := allow_seconds); try discriminate.
    - intros _ [_ [_ [_ [H _]]]]. discriminate.
    - rewrite E. reflexivity. }
  destruct (N.ltb_spec allow_limit (f_limit f)) as [Hlim|Hlim].
  2:{ exfalso. apply (find_events_nf s f screen (Err EScraper)) with (now := now) (allow_scraping := false)
        (allow_limit := allow_limit) (allow_seconds := allow_seconds); try discriminate.
      - intros _ [_ [_ [_ [_ [H _]]]]]. lia.
      - rewrite E. reflexivity. }
  destruct (N.leb_spec allow_seconds (N.min (f_until f) now - f_since f)) as [Hsec|Hsec].
  2:{ exfalso. apply (find_events_nf s f screen (Err EScraper)) with (now := now) (allow_scraping := false)
        (allow_limit := allow_limit) (allow_seconds := allow_seconds); try discriminate.
      - intros _ [_ [_ [_ [_ [_ H]]]]]. lia.
      - rewrite E. reflexivity. }
  repeat split; auto.
Qed.
