(* DbRebuild.v — Store::rebuild on the concrete store model preserves what is observable (C16):
   for every state satisfying the store invariants (every reachable state does), a successful rebuild
   yields a state that again satisfies all the invariants (so every later operation behaves as on a
   store built by ordinary operations), returns the same event for every id lookup, and reports the
   same ids as deleted.  (Address deletion markers are re-encoded through decode_naddr; their
   preservation is decided by the correspondence run.) *)
From Pocket Require Import Db DbProofs TableProofs DbIdInv DbIndexInv.
From Coq Require Import Permutation.

Definition FullInv (s : db) : Prop := log_inv s /\ id_inv s /\ log_wf (log s) /\ AllInv (log s) (committed s).

Lemma reachable_FullInv ops names : ops_wf ops -> FullInv (c_run ops (db_init names)).
Proof.
  intros Hops. destruct (c_run_SInv ops _ Hops (SInv_init names)) as (Hl & Hw & Hi).
  destruct (c_run_inv ops _ (c_inv_init names)) as [_ Hid]. exact (conj Hl (conj Hid (conj Hw Hi))).
Qed.

(* one step of the copy loop: append the event to the new map and index it there *)
Definition copy_step (news : db) (e : aevent) : db :=
  let '(n1, noff) := log_append news e in with_committed n1 (index (committed n1) e noff).

Lemma copy_step_inv news e : wf_id e -> (forall o, ~ In (e_id e, o) (t_i (committed news))) ->
  FullInv news -> FullInv (copy_step news e) /\
  get_event_by_id (copy_step news e) (e_id e) = Ok (Some e) /\
  (forall id, id <> e_id e -> get_event_by_id (copy_step news e) id = get_event_by_id news id) /\
  (forall id o, In (id, o) (t_i (committed (copy_step news e))) -> id = e_id e \/ In (id, o) (t_i (committed news))) /\
  t_delids (committed (copy_step news e)) = t_delids (committed news) /\
  t_naddr (committed (copy_step news e)) = t_naddr (committed news) /\
  t_extra (committed (copy_step news e)) = t_extra (committed news) /\
  bak (copy_step news e) = bak news.
Proof.
  intros We Hfresh (Hl & [Uid Hid] & Hw & Hi). unfold copy_step, log_append.
  set (off := align8 (log_end news)).
  set (n1 := mkDb (committed news) ((off, e) :: log news) (off + event_size e) (bak news)).
  pose proof (align8_ge (log_end news)) as (A & B & _). pose proof (event_size_pos e) as Hsz. fold off in A.
  assert (Hfind : forall o x, log_find (log news) o = Some x -> log_find (log n1) o = Some x).
  { intros o x Hf. subst n1. cbn [log log_find]. destruct (N.eqb_spec off o) as [Heq|_]; [|exact Hf].
    exfalso. apply log_find_In in Hf. destruct Hl as [_ Hl]. destruct (Hl _ _ Hf) as (_ & _ & Z).
    pose proof (event_size_pos x). lia. }
  assert (Hself : log_find (log n1) off = Some e) by (subst n1; cbn [log log_find]; rewrite N.eqb_refl; reflexivity).
  assert (Hw1 : log_wf (log n1)).
  { intros o x Hf. subst n1. cbn [log log_find] in Hf. destruct (off =? o); [injection Hf as <-; exact We|eapply Hw; eauto]. }
  assert (Hi1 : AllInv (log n1) (committed news)).
  { eapply AllInv_log; [|exact Hi]. intros id o Hin. destruct Hi as [[_ Hio] _].
    destruct (Hio id o Hin) as [x [Hf _]]. rewrite Hf. apply Hfind. exact Hf. }
  destruct (index_tables (committed news) e off) as (D0 & _ & _ & _ & _ & _ & _ & D7 & D8 & D9). cbv zeta in *.
  cbn [with_committed committed log log_end bak]. fold n1.
  change (committed n1) with (committed news).
  split; [|split; [|split; [|split; [|split; [|split; [|split]]]]]].
  - (* FullInv *)
    split; [|split; [|split]]; cbn [with_committed committed log log_end].
    + pose proof (log_append_inv news e Hl) as X. unfold log_append in X. cbn [fst] in X. exact X.
    + split; cbn [with_committed committed log log_end]; [rewrite D0; apply keys_unique_put; exact Uid|].
      intros id o Hin. rewrite D0 in Hin. apply In_t_put in Hin. destruct Hin as [[-> ->]|[Hin _]].
      * split; [subst n1; cbn [log_end]; lia|]. exists e. split; [exact Hself|reflexivity].
      * destruct (Hid id o Hin) as [Hlt [x [Hf Hx]]]. split; [subst n1; cbn [log_end]; lia|]. exists x. split; [apply Hfind; exact Hf|exact Hx].
    + exact Hw1.
    + apply AllInv_index; [exact Hw1|exact Hself|exact Hfresh|exact Hi1].
  - unfold get_event_by_id. cbn [with_committed committed]. rewrite D0, t_get_put_same.
    unfold get_event_by_offset. cbn [with_committed log log_end]. subst n1. cbn [log_end log log_find].
    destruct (N.leb_spec (off + event_size e) off); [lia|]. rewrite N.eqb_refl. reflexivity.
  - intros id Hne. unfold get_event_by_id. cbn [with_committed committed]. rewrite D0, t_get_put_other by exact Hne.
    destruct (t_get (t_i (committed news)) id) as [o|] eqn:Eg; [|reflexivity].
    apply (t_get_In _ _ _ Uid) in Eg. destruct (Hid id o Eg) as [Hlt [x [Hf Hx]]].
    unfold get_event_by_offset. cbn [with_committed log log_end].
    destruct (N.leb_spec (log_end n1) o); [subst n1; cbn [log_end] in *; lia|].
    destruct (N.leb_spec (log_end news) o); [lia|]. rewrite (Hfind _ _ Hf), Hf. reflexivity.
  - intros id o Hin. rewrite D0 in Hin. apply In_t_put in Hin. destruct Hin as [[-> _]|[Hin _]]; [left; reflexivity|right; exact Hin].
  - exact D7.
  - exact D8.
  - exact D9.
  - reflexivity.
Qed.

Lemma rebuild_events_unfold old news k off r :
  rebuild_events old news ((k, off) :: r) = (e <- get_event_by_offset old off ;; rebuild_events old (copy_step news e) r).
Proof.
  cbn [rebuild_events]. destruct (get_event_by_offset old off) as [e| | |]; cbn [bind]; reflexivity.
Qed.

Lemma rebuild_events_spec old entries : forall news n,
  FullInv news ->
  NoDup (map fst entries) ->
  (forall id off, In (id, off) entries -> exists e, get_event_by_offset old off = Ok e /\ e_id e = id /\ wf_id e) ->
  (forall id off o, In (id, off) entries -> ~ In (id, o) (t_i (committed news))) ->
  rebuild_events old news entries = Ok n ->
  FullInv n /\
  (forall id off, In (id, off) entries -> exists e, get_event_by_offset old off = Ok e /\ get_event_by_id n id = Ok (Some e)) /\
  (forall id, ~ In id (map fst entries) -> get_event_by_id n id = get_event_by_id news id) /\
  t_delids (committed n) = t_delids (committed news) /\ t_naddr (committed n) = t_naddr (committed news) /\
  t_extra (committed n) = t_extra (committed news) /\ bak n = bak news.
Proof.
  induction entries as [|[id0 off0] r IH]; intros news n Hf Hnd Hent Hfresh H.
  - cbn [rebuild_events] in H. injection H as <-. split; [exact Hf|]. split; [intros id off []|]. split; [reflexivity|]. repeat split.
  - rewrite rebuild_events_unfold in H.
    destruct (Hent id0 off0 (or_introl eq_refl)) as [e0 [Ho [He0 We0]]]. rewrite Ho in H. cbn [bind] in H.
    inversion Hnd as [|? ? Hn0 Hndr]; subst. cbn [fst map] in *.
    destruct (copy_step_inv news e0 We0) as (F1 & G1 & G2 & G3 & E1 & E2 & E3 & E4); [|exact Hf|].
    { intros o. apply (Hfresh (e_id e0) off0 o). left. reflexivity. }
    destruct (IH (copy_step news e0) n F1 Hndr) as (Fn & A & Bn & X1 & X2 & X3 & X4); [| |exact H|].
    { intros id off Hin. apply Hent. right. exact Hin. }
    { intros id off o Hin Hi. destruct (G3 id o Hi) as [->|Hi'].
      - apply Hn0. apply in_map_iff. exists (e_id e0, off). split; [reflexivity|exact Hin].
      - apply (Hfresh id off o); [right; exact Hin|exact Hi']. }
    split; [exact Fn|]. split; [|split; [|repeat split; congruence]].
    + intros id off [[= <- <-]|Hin]; [|apply A; exact Hin].
      exists e0. split; [exact Ho|]. rewrite Bn; [exact G1|exact Hn0].
    + intros id Hnin. rewrite Bn; [|intros Hin; apply Hnin; right; exact Hin].
      apply G2. intros ->. apply Hnin. left. reflexivity.
Qed.

(* the deleted-id markers are copied *)
Lemma is_deleted_mark tb k id : is_deleted (mark_deleted tb k) id = is_deleted tb id || beq k id.
Proof.
  unfold is_deleted, mark_deleted. cbn [t_delids]. destruct (beq k id) eqn:E.
  - apply beq_eq in E. subst k. rewrite t_get_put_same. rewrite orb_true_r. reflexivity.
  - assert (id <> k) by (intros ->; rewrite beq_refl in E; discriminate).
    rewrite t_get_put_other by assumption. rewrite orb_false_r. reflexivity.
Qed.
Lemma mark_fold_delids l : forall tb id,
  is_deleted (fold_left (fun tb (kv : bytes * N) => mark_deleted tb (fst kv)) l tb) id
  = is_deleted tb id || existsb (fun kv => beq (fst kv) id) l.
Proof.
  induction l as [|[k v] r IH]; intros tb id; cbn [fold_left existsb fst]; [rewrite orb_false_r; reflexivity|].
  rewrite IH, is_deleted_mark, orb_assoc. reflexivity.
Qed.
Lemma mark_fold_same l : forall tb,
  let tb' := fold_left (fun tb (kv : bytes * N) => mark_deleted tb (fst kv)) l tb in
  t_i tb' = t_i tb /\ t_ci tb' = t_ci tb /\ t_ac tb' = t_ac tb /\ t_akc tb' = t_akc tb /\
  t_tc tb' = t_tc tb /\ t_atc tb' = t_atc tb /\ t_ktc tb' = t_ktc tb.
Proof.
  induction l as [|kv r IH]; intros tb; cbn [fold_left]; [repeat split|].
  specialize (IH (mark_deleted tb (fst kv))). cbv zeta in *. exact IH.
Qed.
Lemma rebuild_naddrs_same entries : forall tb tb', rebuild_naddrs tb entries = Ok tb' ->
  t_i tb' = t_i tb /\ t_ci tb' = t_ci tb /\ t_ac tb' = t_ac tb /\ t_akc tb' = t_akc tb /\
  t_tc tb' = t_tc tb /\ t_atc tb' = t_atc tb /\ t_ktc tb' = t_ktc tb /\ t_delids tb' = t_delids tb.
Proof.
  induction entries as [|[k w] r IH]; intros tb tb'; cbn [rebuild_naddrs]; [intros [= <-]; repeat split|].
  destruct (mark_naddr_deleted tb (decode_naddr k) w) as [t1| | |] eqn:E; cbn [bind]; try discriminate.
  intros H. apply IH in H. destruct (mark_naddr_deleted_same _ _ _ _ E) as (E0 & E1 & E2 & E3 & E4 & E5 & E6).
  assert (Ed : t_delids t1 = t_delids tb).
  { unfold mark_naddr_deleted in E. destruct (when_naddr_deleted tb (decode_naddr k)) as [old|].
    - destruct (w <=? old); [injection E as <-; reflexivity|].
      destruct (t_put_checked _ _ _); cbn [bind] in E; try discriminate. injection E as <-. reflexivity.
    - destruct (t_put_checked _ _ _); cbn [bind] in E; try discriminate. injection E as <-. reflexivity. }
  destruct H as (H0 & H1 & H2 & H3 & H4 & H5 & H6 & H7). repeat split; congruence.
Qed.

Lemma t_iter_In t k v : In (k, v) (t_iter t) <-> In (k, v) t.
Proof. unfold t_iter. split; intros H; [eapply Permutation_in; [apply sort_table_perm|exact H]|eapply Permutation_in; [apply Permutation_sym; apply sort_table_perm|exact H]]. Qed.
Lemma t_iter_keys_unique t : keys_unique t -> NoDup (map fst (t_iter t)).
Proof. intros U. unfold keys_unique in U. eapply Permutation_NoDup; [apply Permutation_map; apply Permutation_sym; apply sort_table_perm|exact U]. Qed.

Lemma is_deleted_iff tb id : is_deleted tb id = existsb (fun kv => beq (fst kv) id) (t_delids tb).
Proof.
  unfold is_deleted. induction (t_delids tb) as [|[k v] r IH]; cbn [t_get existsb fst]; [reflexivity|].
  destruct (beq k id); [reflexivity|exact IH].
Qed.
Lemma existsb_perm {A} (p : A -> bool) l l' : Permutation l l' -> existsb p l = existsb p l'.
Proof.
  intros P. destruct (existsb p l) eqn:E.
  - symmetry. apply existsb_exists in E. destruct E as [x [Hx Hp]]. apply existsb_exists. exists x. split; [eapply Permutation_in; eauto|exact Hp].
  - symmetry. destruct (existsb p l') eqn:E'; [|reflexivity]. apply existsb_exists in E'. destruct E' as [x [Hx Hp]].
    assert (existsb p l = true); [|congruence]. apply existsb_exists. exists x. split; [eapply Permutation_in; [apply Permutation_sym; exact P|exact Hx]|exact Hp].
Qed.

Theorem rebuild_preserves s s' : FullInv s -> rebuild s = Ok s' ->
  FullInv s' /\
  (forall id, get_event_by_id s' id = get_event_by_id s id) /\
  (forall id, has_event s' id = has_event s id) /\
  (forall id, event_is_deleted s' id = event_is_deleted s id) /\
  t_extra (committed s') = t_extra (committed s).
Proof.
  intros (Hl & [Uid Hid] & Hw & Hi) H. unfold rebuild in H.
  set (fresh := mkDb (empty_tables (map fst (t_extra (committed s)))) [] HEADER (Some (log s, committed s))) in *.
  destruct (rebuild_events s fresh (t_iter (t_i (committed s)))) as [n1| | |] eqn:E1; cbn [bind] in H; try discriminate.
  destruct (rebuild_naddrs _ (t_iter (t_naddr (committed s)))) as [tb2| | |] eqn:E2; cbn [bind] in H; try discriminate.
  injection H as <-.
  assert (Ffresh : FullInv fresh).
  { split; [split; cbn; [lia|intros o e []]|]. split; [split; [constructor|intros id off []]|].
    split; [intros o e Hf; discriminate Hf|].
    unfold AllInv, fresh, empty_tables. cbn [committed log t_i t_ci t_ac t_akc t_tc t_atc t_ktc].
    refine (conj _ (conj _ (conj _ (conj _ (conj _ (conj _ _)))))); try apply TabInv_empty.
    split; [constructor|intros id off []]. }
  destruct (rebuild_events_spec s (t_iter (t_i (committed s))) fresh n1 Ffresh) as (Fn & A & Bn & X1 & X2 & X3 & X4); [| | |exact E1|].
  { apply t_iter_keys_unique. exact Uid. }
  { intros id off Hin. apply (proj1 (t_iter_In _ _ _)) in Hin. destruct (Hid id off Hin) as [Hlt [e [Hf He]]]. exists e.
    split; [|split; [exact He|eapply Hw; eauto]].
    unfold get_event_by_offset. destruct (N.leb_spec (log_end s) off); [lia|]. rewrite Hf. reflexivity. }
  { intros id off o _ Hin. exact Hin. }
  destruct (mark_fold_same (t_iter (t_delids (committed s))) (committed n1)) as (M0 & M1 & M2 & M3 & M4 & M5 & M6). cbv zeta in *.
  destruct (rebuild_naddrs_same _ _ _ E2) as (R0 & R1 & R2 & R3 & R4 & R5 & R6 & R7).
  destruct Fn as (Ln & [Un Hn] & Wn & In_).
  assert (Eti : t_i tb2 = t_i (committed n1)) by congruence.
  split; [|split; [|split; [|split]]].
  - split; [exact Ln|]. split; [|split; [exact Wn|]]; cbn [with_committed committed log log_end t_i].
    + split; cbn [committed t_i log log_end]; [rewrite Eti; exact Un|]. intros id o Hin. rewrite Eti in Hin. apply Hn. exact Hin.
    + eapply AllInv_same; [..|exact In_]; cbn [t_i t_ci t_ac t_akc t_tc t_atc t_ktc]; congruence.
  - intros id. unfold get_event_by_id at 1. cbn [with_committed committed t_i]. rewrite Eti.
    change (match t_get (t_i (committed n1)) id with
            | Some off => e <- get_event_by_offset (with_committed n1 _) off ;; Ok (Some e)
            | None => Ok None end) with (get_event_by_id n1 id).
    destruct (t_get (t_i (committed s)) id) as [off|] eqn:Eg.
    + apply (t_get_In _ _ _ Uid) in Eg. destruct (A id off (proj2 (t_iter_In _ _ _) Eg)) as [e [Ho Hg]].
      rewrite Hg. unfold get_event_by_id. apply (t_get_In _ _ _ Uid) in Eg. rewrite Eg, Ho. reflexivity.
    + rewrite Bn.
      * unfold get_event_by_id. rewrite Eg. reflexivity.
      * intros Hin. apply in_map_iff in Hin. destruct Hin as [[k v] [<- Hin]]. apply (proj1 (t_iter_In _ _ _)) in Hin.
        apply (t_get_In _ _ _ Uid) in Hin. cbn [fst] in Eg. congruence.
  - intros id. unfold has_event. cbn [with_committed committed t_i]. rewrite Eti.
    destruct (t_get (t_i (committed s)) id) as [off|] eqn:Eg.
    + apply (t_get_In _ _ _ Uid) in Eg. destruct (A id off (proj2 (t_iter_In _ _ _) Eg)) as [e [Ho Hg]].
      unfold get_event_by_id in Hg. destruct (t_get (t_i (committed n1)) id); [reflexivity|discriminate].
    + assert (Hg : get_event_by_id n1 id = Ok None).
      { rewrite Bn; [reflexivity|]. intros Hin. apply in_map_iff in Hin. destruct Hin as [[k v] [<- Hin]]. apply (proj1 (t_iter_In _ _ _)) in Hin.
        apply (t_get_In _ _ _ Uid) in Hin. cbn [fst] in Eg. congruence. }
      unfold get_event_by_id in Hg. destruct (t_get (t_i (committed n1)) id) as [o|]; [|reflexivity].
      destruct (get_event_by_offset n1 o); cbn [bind] in Hg; discriminate.
  - intros id. unfold event_is_deleted, is_deleted. cbn [with_committed committed t_delids]. rewrite R7.
    change (match t_get (t_delids (fold_left (fun tb (kv : bytes * N) => mark_deleted tb (fst kv)) (t_iter (t_delids (committed s))) (committed n1))) id with
            | Some _ => true | None => false end)
      with (is_deleted (fold_left (fun tb (kv : bytes * N) => mark_deleted tb (fst kv)) (t_iter (t_delids (committed s))) (committed n1)) id).
    rewrite mark_fold_delids. unfold is_deleted at 1. rewrite X1. cbn [fresh committed empty_tables t_delids t_get orb].
    change (match t_get (t_delids (committed s)) id with Some _ => true | None => false end) with (is_deleted (committed s) id).
    rewrite is_deleted_iff. apply existsb_perm. unfold t_iter. apply sort_table_perm.
  - reflexivity.
Qed.

Corollary rebuild_preserves_reachable ops names s' : ops_wf ops -> rebuild (c_run ops (db_init names)) = Ok s' ->
  FullInv s' /\
  (forall id, get_event_by_id s' id = get_event_by_id (c_run ops (db_init names)) id) /\
  (forall id, has_event s' id = has_event (c_run ops (db_init names)) id) /\
  (forall id, event_is_deleted s' id = event_is_deleted (c_run ops (db_init names)) id) /\
  t_extra (committed s') = t_extra (committed (c_run ops (db_init names))).
Proof. intros Hops. apply rebuild_preserves. apply reachable_FullInv. exact Hops. Qed.
