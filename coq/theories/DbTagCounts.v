(* DbTagCounts.v - index accounting of the three tag tables (C17): in every reachable state the author-tag and the
   kind-tag index hold exactly as many entries as the tag index (each is the tag index with the event's author,
   respectively kind, in front of every key), so the three counters agree and none of them can leak alone. *)
From Coq Require Import Permutation.
From Pocket Require Import Db DbProofs TableProofs DbIdInv DbIndexInv.

Lemma NoDup_map_inj_in {A B} (f : A -> B) (l : list A) :
  (forall x y, In x l -> In y l -> f x = f y -> x = y) -> NoDup l -> NoDup (map f l).
Proof.
  induction l as [|a r IH]; intros Hinj Hnd; cbn [map]; [constructor|].
  inversion Hnd as [|? ? Hn Hr]; subst. constructor.
  - intros Hin. apply in_map_iff in Hin. destruct Hin as [y [E Hy]].
    assert (y = a) by (apply Hinj; [right; exact Hy|left; reflexivity|exact E]). subst y. exact (Hn Hy).
  - apply IH; [|exact Hr]. intros x y Hx Hy. apply Hinj; right; assumption.
Qed.

Section Prefixed.
  Variable L : logt.
  Variable ti T1 T2 : table.
  Variables K1 K2 : aevent -> list bytes.
  Variable pre : aevent -> bytes.
  Hypothesis HK : forall e, K2 e = map (fun k => pre e ++ k) (K1 e).
  Hypothesis H1 : TabInv L ti T1 K1.
  Hypothesis H2 : TabInv L ti T2 K2.

  Definition hpre (kv : bytes * N) : bytes * N :=
    (match log_find L (snd kv) with Some e => pre e ++ fst kv | None => fst kv end, snd kv).

  Lemma NoDup_pairs (T : table) : keys_unique T -> NoDup T.
  Proof.
    unfold keys_unique. induction T as [|[k v] r IH]; cbn [map]; intros H; [constructor|].
    inversion H as [|? ? Hn Hr]; subst. constructor; [|apply IH; exact Hr].
    intros Hin. apply Hn. apply in_map_iff. exists (k, v). split; [reflexivity|exact Hin].
  Qed.

  Lemma prefixed_count : len T2 = len T1.
  Proof.
    destruct H1 as [U1 [S1 C1]]. destruct H2 as [U2 [S2 C2]].
    assert (P : Permutation (map hpre T1) T2).
    { apply NoDup_Permutation.
      - (* hpre is injective on T1 *)
        apply NoDup_map_inj_in; [|apply NoDup_pairs; exact U1].
        intros [k off] [k' off'] Hin Hin' E. unfold hpre in E. cbn [fst snd] in E. injection E as E1 E2. subst off'.
        destruct (S1 k off Hin) as (e & Hf & _). rewrite Hf in E1. apply app_inv_head in E1. subst k'. reflexivity.
      - apply NoDup_pairs. exact U2.
      - intros [k2 off]. split; intros Hin.
        + apply in_map_iff in Hin. destruct Hin as [[k off'] [E Hin]]. unfold hpre in E. cbn [fst snd] in E. injection E as E1 E2. subst off'.
          destruct (S1 k off Hin) as (e & Hf & Hi & Hk). rewrite Hf in E1. subst k2.
          apply (C2 (e_id e) off e Hi Hf). rewrite HK. apply in_map. exact Hk.
        + destruct (S2 k2 off Hin) as (e & Hf & Hi & Hk). rewrite HK in Hk. apply in_map_iff in Hk. destruct Hk as [k [<- Hk]].
          apply in_map_iff. exists (k, off). split; [unfold hpre; cbn [fst snd]; rewrite Hf; reflexivity|].
          apply (C1 (e_id e) off e Hi Hf). exact Hk. }
    apply Permutation_length in P. rewrite map_length in P. unfold len. lia.
  Qed.
End Prefixed.

Theorem tag_index_counts_agree ops names :
  ops_wf ops -> let tb := committed (c_run ops (db_init names)) in
  len (t_atc tb) = len (t_tc tb) /\ len (t_ktc tb) = len (t_tc tb).
Proof.
  intros Hops tb. destruct (c_run_SInv ops _ Hops (SInv_init names)) as (_ & _ & Hi). fold tb in Hi.
  destruct Hi as (_ & _ & _ & _ & Btc & Batc & Bktc).
  split.
  - apply (prefixed_count (log (c_run ops (db_init names))) (t_i tb) (t_tc tb) (t_atc tb) keys_tc keys_atc (fun e => e_pk e)); [|exact Btc|exact Batc].
    intros e. unfold keys_atc, keys_tc. rewrite map_map. apply map_ext. intros lv. unfold key_atc, key_tc. reflexivity.
  - apply (prefixed_count (log (c_run ops (db_init names))) (t_i tb) (t_tc tb) (t_ktc tb) keys_tc keys_ktc (fun e => be16 (e_kind e))); [|exact Btc|exact Bktc].
    intros e. unfold keys_ktc, keys_tc. rewrite map_map. apply map_ext. intros lv. unfold key_ktc, key_tc. reflexivity.
Qed.

(* ---------- the common value: one entry per distinct key of every retrievable event ---------- *)
Definition bytes_eq_dec : forall a b : bytes, {a = b} + {a <> b} := list_eq_dec N.eq_dec.

Lemma offsets_distinct (L : logt) (ti : table) : id_ok L ti -> NoDup (map snd ti).
Proof.
  intros [Ui Hv]. induction ti as [|[id off] r IH]; cbn [map]; [constructor|].
  inversion Ui as [|? ? Hn Hr]; subst. constructor.
  - intros Hin. apply in_map_iff in Hin. destruct Hin as [[id' off'] [Heq Hin]]. cbn [snd] in Heq. subst off'.
    destruct (Hv id off (or_introl eq_refl)) as [e [Hf He]].
    destruct (Hv id' off (or_intror Hin)) as [e' [Hf' He']].
    assert (e = e') by congruence. subst e'. apply Hn. cbn [fst]. rewrite <- He, He'. apply in_map_iff. exists (id', off). split; [reflexivity|exact Hin].
  - apply IH; [exact Hr|]. intros i o Hin. apply Hv. right. exact Hin.
Qed.

Section Multi.
  Variable L : logt.
  Variable ti T : table.
  Variable K : aevent -> list bytes.
  Hypothesis Hid : id_ok L ti.
  Hypothesis HT : TabInv L ti T K.

  Definition entries_of (io : bytes * N) : list (bytes * N) :=
    match log_find L (snd io) with
    | Some e => map (fun k => (k, snd io)) (nodup bytes_eq_dec (K e))
    | None => []
    end.

  Lemma NoDup_flat (l : list (bytes * N)) : NoDup (map snd l) -> NoDup (flat_map entries_of l).
  Proof.
    induction l as [|io r IH]; cbn [map flat_map]; intros Hnd; [constructor|].
    inversion Hnd as [|? ? Hn Hr]; subst.
    apply NoDup_app_intro; [| apply IH; exact Hr |].
    - unfold entries_of. destruct (log_find L (snd io)); [|constructor].
      apply NoDup_map_inj_in; [intros x y _ _ E; congruence | apply NoDup_nodup].
    - intros [k off] H1 H2. apply Hn.
      assert (off = snd io).
      { unfold entries_of in H1. destruct (log_find L (snd io)); [|destruct H1]. apply in_map_iff in H1. destruct H1 as [k0 [E _]]. congruence. }
      subst off. apply in_flat_map in H2. destruct H2 as [io' [Hin' H2]].
      assert (snd io = snd io').
      { unfold entries_of in H2. destruct (log_find L (snd io')); [|destruct H2]. apply in_map_iff in H2. destruct H2 as [k0 [E _]]. congruence. }
      rewrite H. apply in_map. exact Hin'.
  Qed.

  Theorem multi_key_count :
    length T = list_sum (map (fun io => length (entries_of io)) ti).
  Proof.
    destruct HT as [U [S C]].
    assert (P : Permutation T (flat_map entries_of ti)).
    { apply NoDup_Permutation; [apply NoDup_pairs; exact U | apply NoDup_flat; apply (offsets_distinct L ti); exact Hid |].
      intros [k off]. split; intros Hin.
      - destruct (S k off Hin) as (e & Hf & Hi & Hk). apply in_flat_map. exists (e_id e, off). split; [exact Hi|].
        unfold entries_of. cbn [snd]. rewrite Hf. apply in_map_iff. exists k. split; [reflexivity|apply nodup_In; exact Hk].
      - apply in_flat_map in Hin. destruct Hin as [[id o] [Hi Hin]]. unfold entries_of in Hin. cbn [snd] in Hin.
        destruct (log_find L o) as [e|] eqn:Hf; [|destruct Hin]. apply in_map_iff in Hin. destruct Hin as [k0 [E Hk]].
        injection E as -> ->. apply nodup_In in Hk. apply (C id off e Hi Hf k Hk). }
    rewrite (Permutation_length P). clear. induction ti as [|io r IH]; cbn [flat_map map list_sum fold_right]; [reflexivity|].
    rewrite app_length. unfold list_sum in IH. rewrite IH. reflexivity.
  Qed.
End Multi.

(* the tag index holds, for every retrievable event, one entry per DISTINCT (letter, padded value) key of the event *)
Theorem tag_index_count_formula ops names :
  ops_wf ops -> let s := c_run ops (db_init names) in
  length (t_tc (committed s))
  = list_sum (map (fun io => match log_find (log s) (snd io) with
                             | Some e => length (nodup bytes_eq_dec (keys_tc e))
                             | None => 0%nat
                             end) (t_i (committed s))).
Proof.
  intros Hops s. destruct (c_run_SInv ops _ Hops (SInv_init names)) as (_ & _ & Hi). fold s in Hi.
  destruct Hi as (A & _ & _ & _ & Btc & _).
  rewrite (multi_key_count (log s) (t_i (committed s)) (t_tc (committed s)) keys_tc A Btc).
  f_equal. apply map_ext. intros io. unfold entries_of. destruct (log_find (log s) (snd io)); [apply map_length|reflexivity].
Qed.

(* ---------- distinct keys of an event = distinct (letter, padded value) pairs of its indexable tags ---------- *)
Lemma len_pad182 v : len (pad182 v) = PADLEN.
Proof.
  unfold pad182. destruct (N.leb_spec (len v) PADLEN) as [H|H].
  - rewrite len_app, len_repeat. lia.
  - rewrite len_take. lia.
Qed.

Lemma key_tc_inj c v c' v' t id : key_tc c v t id = key_tc c' v' t id -> c = c' /\ pad182 v = pad182 v'.
Proof.
  unfold key_tc. cbn [app]. intros E. injection E as Ec E. split; [exact Ec|].
  assert (L : length (pad182 v) = length (pad182 v')).
  { pose proof (len_pad182 v) as A. pose proof (len_pad182 v') as B. unfold len in A, B. lia. }
  revert L E. generalize (pad182 v) (pad182 v') (rev_time t ++ id). clear.
  intros l1. induction l1 as [|x l1 IH]; intros [|y l2] R L E; cbn [length app] in *; try lia; [reflexivity|].
  injection E as -> E. f_equal. apply (IH l2 R); [lia|exact E].
Qed.

Lemma nodup_map_length_eq {A B C} (decB : forall x y : B, {x = y} + {x <> y}) (decC : forall x y : C, {x = y} + {x <> y})
  (f : A -> B) (g : A -> C) (l : list A) :
  (forall x y, In x l -> In y l -> (f x = f y <-> g x = g y)) ->
  length (nodup decB (map f l)) = length (nodup decC (map g l)).
Proof.
  induction l as [|a r IH]; intros H; cbn [map nodup]; [reflexivity|].
  assert (Hr : forall x y, In x r -> In y r -> (f x = f y <-> g x = g y)) by (intros x y Hx Hy; apply H; right; assumption).
  assert (Hin : In (f a) (map f r) <-> In (g a) (map g r)).
  { split; intros Hi; apply in_map_iff in Hi; destruct Hi as [y [E Hy]]; apply in_map_iff; exists y; (split; [|exact Hy]).
    - apply (H y a (or_intror Hy) (or_introl eq_refl)). exact E.
    - apply (H y a (or_intror Hy) (or_introl eq_refl)). exact E. }
  destruct (in_dec decB (f a) (map f r)) as [I|I], (in_dec decC (g a) (map g r)) as [J|J]; try tauto.
  cbn [length]. f_equal. apply IH; exact Hr.
Qed.

Definition lv_eq_dec : forall a b : N * bytes, {a = b} + {a <> b}.
Proof. decide equality; [apply bytes_eq_dec | apply N.eq_dec]. Defined.

(* the pairs the tag index distinguishes: the letter and the value padded or cut to 182 bytes *)
Definition padded_pairs (e : aevent) : list (N * bytes) :=
  map (fun lv : N * bytes => (fst lv, pad182 (snd lv))) (indexable_tags (e_tags e)).

Theorem distinct_keys_are_distinct_padded_pairs e :
  length (nodup bytes_eq_dec (keys_tc e)) = length (nodup lv_eq_dec (padded_pairs e)).
Proof.
  unfold keys_tc, padded_pairs. apply nodup_map_length_eq. intros [c v] [c' v'] _ _. cbn [fst snd]. split.
  - intros E. destruct (key_tc_inj _ _ _ _ _ _ E) as [-> ->]. reflexivity.
  - intros [= -> E]. unfold key_tc. rewrite E. reflexivity.
Qed.

Corollary tag_index_count_in_padded_pairs ops names :
  ops_wf ops -> let s := c_run ops (db_init names) in
  length (t_tc (committed s))
  = list_sum (map (fun io => match log_find (log s) (snd io) with
                             | Some e => length (nodup lv_eq_dec (padded_pairs e))
                             | None => 0%nat
                             end) (t_i (committed s))).
Proof.
  intros Hops s. unfold s. rewrite (tag_index_count_formula ops names Hops). f_equal. apply map_ext. intros io.
  destruct (log_find _ (snd io)); [apply distinct_keys_are_distinct_padded_pairs|reflexivity].
Qed.
