(* DbVanish.v — vanish on the CONCRETE store (C18): for every reachable state holding fewer than 2^32-1 events,
   a successful vanish of a 32-byte public key makes unretrievable EXACTLY the events that match the filter
   {authors:[pk]} or the filter {kinds:[1059], #p:[hex pk]} (the gift wraps naming the key); every other event is
   returned by id as before; deletion markers, extra tables and the log are untouched.
   Built on: the query theorem for answers that cannot be truncated (DbQueryNewest.find_events_untruncated, all plans)
   and the exactness of remove_event (DbDeletion.remove_event_exact_concrete). *)
From Pocket Require Import Db ADb ADbProofs DbProofs TableProofs DbIdInv DbIndexInv KeyOrder DbAddr DbQuerySound DbQueryComplete DbQueryNewest DbDeletion.

Lemma clive_iff_get s x : id_inv s -> (clive s x <-> get_event_by_id s (e_id x) = Ok (Some x)).
Proof.
  intros Hid. split.
  - intros [off [Hi Hfnd]]. pose proof Hid as [U Hh]. destruct (Hh _ _ Hi) as [Hlt _].
    unfold get_event_by_id. apply (t_get_In _ _ _ U) in Hi. rewrite Hi. unfold get_event_by_offset.
    destruct (N.leb_spec (log_end s) off); [lia|]. rewrite Hfnd. reflexivity.
  - intros Hl. destruct (by_id_entry s _ _ Hid Hl) as [off [Hi Hfnd]]. exists off. split; assumption.
Qed.

Definition unchanged_rest (s s' : db) : Prop :=
  t_delids (committed s') = t_delids (committed s) /\ t_naddr (committed s') = t_naddr (committed s) /\
  t_extra (committed s') = t_extra (committed s) /\ log s' = log s.

Lemma remove_events_exact ids : forall s s', StoreInv s -> remove_events s ids = (s', Ok tt) ->
  StoreInv s' /\
  (forall id, In id ids -> get_event_by_id s' id = Ok None) /\
  (forall id, ~ In id ids -> get_event_by_id s' id = get_event_by_id s id) /\
  unchanged_rest s s'.
Proof.
  induction ids as [|id r IH]; intros s s' HA H; cbn [remove_events] in H.
  - injection H as <-. split; [exact HA|]. split; [intros id []|]. split; [reflexivity|]. repeat split; reflexivity.
  - destruct (remove_event s id) as [s1 r1] eqn:E1. destruct r1 as [[]| | |]; try (injection H as _ H; discriminate H).
    pose proof (c_step_StoreInv s (CRemove id) I HA) as HA1. cbn [c_step] in HA1. rewrite E1 in HA1. cbn [fst] in HA1.
    destruct (remove_event_exact_concrete s id s1 (proj1 (proj2 HA)) E1) as (G1 & _ & G2 & M1 & M2 & M3 & M4).
    destruct (IH s1 s' HA1 H) as (HA' & R1 & R2 & (U1 & U2 & U3 & U4)).
    split; [exact HA'|]. split; [|split].
    + intros id' [<-|Hin]; [|apply R1; exact Hin].
      destruct (in_dec (list_eq_dec N.eq_dec) id r) as [Hi|Hn]; [apply R1; exact Hi|rewrite (R2 id Hn); exact G1].
    + intros id' Hn. rewrite R2 by (intros Hi; apply Hn; right; exact Hi).
      apply (G2 id'). intros ->. apply Hn. left. reflexivity.
    + repeat split; congruence.
Qed.

Definition vf1 (pk : bytes) : afilter := mkF [] [pk] [] [] 0 U64MAX 4294967295.
Definition vf2 (pk : bytes) : afilter := mkF [] [] [1059] [[ [112]; write_hex pk ]] 0 U64MAX 4294967295.
(* the events a vanish of [pk] is to take out: the author's own, and the gift wraps naming the key *)
Definition doomed (pk : bytes) (x : aevent) : bool := spec_matches (vf1 pk) x || spec_matches (vf2 pk) x.

Lemma vf1_ok pk : length pk = 32%nat -> filter_ok (vf1 pk).
Proof. intros H. unfold filter_ok, vf1. cbn. repeat split; try (unfold U64MAX; lia); repeat constructor. exact H. Qed.
Lemma vf2_ok pk : filter_ok (vf2 pk).
Proof. unfold filter_ok, vf2. cbn. repeat split; try (unfold U64MAX; lia); repeat constructor. Qed.

Theorem vanish_exact_concrete s pk s' : StoreInv s -> length pk = 32%nat -> len (t_i (committed s)) < 4294967295 ->
  vanish s pk = (s', Ok tt) ->
  StoreInv s' /\
  (forall x, get_event_by_id s (e_id x) = Ok (Some x) ->
     get_event_by_id s' (e_id x) = if doomed pk x then Ok None else Ok (Some x)) /\
  (forall id, get_event_by_id s id = Ok None -> get_event_by_id s' id = Ok None) /\
  unchanged_rest s s'.
Proof.
  intros HA Hpk Hsz H. unfold vanish in H. fold (vf1 pk) in H. fold (vf2 pk) in H.
  set (B := map fst (t_i (committed s))).
  assert (HB : forall x, clive s x -> In (e_id x) B).
  { intros x [off [Hi _]]. apply in_map_iff. exists (e_id x, off). split; [reflexivity|exact Hi]. }
  assert (LB : len B < 4294967295) by (subst B; rewrite len_map; exact Hsz).
  destruct (find_events s (vf1 pk) all_match 0 true 0 0) as [[evs red1]| | |] eqn:Q1; try (injection H as _ H; discriminate H).
  pose proof (find_events_untruncated s (vf1 pk) all_match 0 true 0 0 evs red1 B HA (vf1_ok pk Hpk) HB LB Q1) as X1.
  destruct (remove_events s (map e_id evs)) as [s1 r1] eqn:R1. destruct r1 as [[]| | |]; try (injection H as _ H; discriminate H).
  destruct (remove_events_exact _ s s1 HA R1) as (HA1 & A1 & A2 & UR1).
  assert (HB1 : forall x, clive s1 x -> In (e_id x) B).
  { intros x Hx. apply HB. apply (clive_iff_get s x (proj1 (proj2 HA))). apply (clive_iff_get s1 x (proj1 (proj2 HA1))) in Hx.
    destruct (in_dec (list_eq_dec N.eq_dec) (e_id x) (map e_id evs)) as [Hi|Hn]; [rewrite (A1 _ Hi) in Hx; discriminate|].
    rewrite <- (A2 _ Hn). exact Hx. }
  destruct (find_events s1 (vf2 pk) all_match 0 true 0 0) as [[gws red2]| | |] eqn:Q2; try (injection H as _ H; discriminate H).
  pose proof (find_events_untruncated s1 (vf2 pk) all_match 0 true 0 0 gws red2 B HA1 (vf2_ok pk) HB1 LB Q2) as X2.
  destruct (remove_events_exact _ s1 s' HA1 H) as (HA' & C1 & C2 & UR2).
  split; [exact HA'|]. split; [|split].
  - intros x Hx. pose proof (proj2 (clive_iff_get s x (proj1 (proj2 HA))) Hx) as Lx. unfold doomed.
    destruct (spec_matches (vf1 pk) x) eqn:M1; cbn [orb].
    + (* the author's own: removed in the first pass *)
      assert (Hin : In x evs) by (apply X1; split; [exact Lx|split; [exact M1|reflexivity]]).
      assert (Hid : In (e_id x) (map e_id evs)) by (apply in_map; exact Hin).
      destruct (in_dec (list_eq_dec N.eq_dec) (e_id x) (map e_id gws)) as [Hi|Hn]; [apply C1; exact Hi|].
      rewrite (C2 _ Hn). apply A1. exact Hid.
    + assert (Hn1 : ~ In (e_id x) (map e_id evs)).
      { intros Hi. apply in_map_iff in Hi. destruct Hi as [y [Ey Hy]]. apply X1 in Hy. destruct Hy as (Ly & My & _).
        assert (y = x) by (apply (live_unique s HA); assumption). subst y. congruence. }
      assert (Hx1 : get_event_by_id s1 (e_id x) = Ok (Some x)) by (rewrite (A2 _ Hn1); exact Hx).
      pose proof (proj2 (clive_iff_get s1 x (proj1 (proj2 HA1))) Hx1) as Lx1.
      destruct (spec_matches (vf2 pk) x) eqn:M2.
      * apply C1. apply in_map. apply X2. split; [exact Lx1|split; [exact M2|reflexivity]].
      * rewrite C2; [exact Hx1|]. intros Hi. apply in_map_iff in Hi. destruct Hi as [y [Ey Hy]]. apply X2 in Hy. destruct Hy as (Ly & My & _).
        assert (y = x) by (apply (live_unique s1 HA1); assumption). subst y. congruence.
  - intros id Hn.
    destruct (in_dec (list_eq_dec N.eq_dec) id (map e_id gws)) as [Hi|Hn2]; [apply C1; exact Hi|]. rewrite (C2 _ Hn2).
    destruct (in_dec (list_eq_dec N.eq_dec) id (map e_id evs)) as [Hi|Hn1]; [apply A1; exact Hi|]. rewrite (A2 _ Hn1). exact Hn.
  - destruct UR1 as (a1 & a2 & a3 & a4). destruct UR2 as (b1 & b2 & b3 & b4). repeat split; congruence.
Qed.

Corollary vanish_exact_reachable ops names pk s' :
  ops_wfe ops -> let s := c_run ops (db_init names) in
  length pk = 32%nat -> len (t_i (committed s)) < 4294967295 -> vanish s pk = (s', Ok tt) ->
  (forall x, get_event_by_id s (e_id x) = Ok (Some x) ->
     get_event_by_id s' (e_id x) = if doomed pk x then Ok None else Ok (Some x)) /\
  (forall id, get_event_by_id s id = Ok None -> get_event_by_id s' id = Ok None) /\
  unchanged_rest s s'.
Proof.
  intros Hops s Hpk Hsz H. pose proof (c_run_StoreInv ops _ Hops (StoreInv_init names)) as HA. fold s in HA.
  apply (vanish_exact_concrete s pk s' HA Hpk Hsz H).
Qed.

(* [doomed] is the abstract store's [vanishes] *)
Lemma beq_sym a b : beq a b = beq b a.
Proof.
  destruct (beq a b) eqn:E1; destruct (beq b a) eqn:E2; try reflexivity.
  - apply beq_eq in E1. subst b. rewrite beq_refl in E2. discriminate.
  - apply beq_eq in E2. subst b. rewrite beq_refl in E1. discriminate.
Qed.
Lemma doomed_vanishes pk x : e_created x <= U64MAX -> doomed pk x = vanishes pk x.
Proof.
  intros Hc. unfold doomed, vanishes, spec_matches, vf1, vf2. cbn [f_ids f_authors f_kinds f_since f_until f_tags forallb mem_bytes mem_N existsb constraint_ok].
  replace (0 <=? e_created x) with true by (symmetry; apply N.leb_le; lia).
  replace (e_created x <=? U64MAX) with true by (symmetry; apply N.leb_le; exact Hc).
  rewrite !orb_false_r, !andb_true_r. cbn [andb]. rewrite (beq_sym pk (e_pk x)). f_equal.
  rewrite (N.eqb_sym 1059). f_equal.
  induction (e_tags x) as [|t r IH]; [reflexivity|]. cbn [existsb]. rewrite IH. f_equal.
  unfold tag_hits, tag_is. destruct t as [|n [|v rest]]; try reflexivity.
  cbn [mem_bytes existsb]. rewrite orb_false_r, (beq_sym (write_hex pk) v). reflexivity.
Qed.
