(* Escape.v — models of next_code_point / encode_utf8 (json/utf8.rs) and json_escape /
   json_unescape / is_safe_char (json/json_escape.rs).  Bit operations are written with
   / and mod (x >> n = x / 2^n, x & (2^n - 1) = x mod 2^n, a | b = a + b on disjoint bits). *)
From Pocket Require Export Bytes Hex.

(* next_code_point: segmentation depends only on the lead byte; continuation bytes are NOT
   validated (as in the code). Returns (code point, size). *)
Definition next_code_point (l : bytes) : res (option (N * N)) :=
  match l with
  | [] => Ok None
  | x :: r =>
      if x <? 128 then Ok (Some (x, 1)) else
      let init := x mod 32 in
      match r with
      | [] => Err EUtf8
      | y :: r2 =>
          let ch := init * 64 + y mod 64 in
          if 224 <=? x then
            match r2 with
            | [] => Err EUtf8
            | z :: r3 =>
                let y_z := (y mod 64) * 64 + z mod 64 in
                (* `init << 12 | y_z` on a u32: init < 32, so no overflow; | of possibly overlapping
                   bits when init >= 16 (x >= 0xF0): modelled below in the 4-byte branch only *)
                if 240 <=? x then
                  match r3 with
                  | [] => Err EUtf8
                  | w :: _ => Ok (Some ((init mod 8) * 262144 + (y_z * 64 + w mod 64), 4))
                  end
                else Ok (Some (init * 4096 + y_z, 3))
            end
          else Ok (Some (ch, 2))
      end
  end.

(* encode_utf8 into a destination with [cap] free bytes *)
Definition encode_utf8 (code cap : N) : res bytes :=
  if code <? 128 then (if cap <? 1 then Err EBuf else Ok [code])
  else if code <? 2048 then
    (if cap <? 2 then Err EBuf else Ok [192 + (code / 64) mod 32; 128 + code mod 64])
  else if code <? 65536 then
    (if cap <? 3 then Err EBuf else Ok [224 + (code / 4096) mod 16; 128 + (code / 64) mod 64; 128 + code mod 64])
  else
    (if cap <? 4 then Err EBuf
     else Ok [240 + (code / 262144) mod 8; 128 + (code / 4096) mod 64; 128 + (code / 64) mod 64; 128 + code mod 64]).

Definition is_safe_char (c : N) : bool :=
  ((32 <=? c) && (c <=? 33)) || ((35 <=? c) && (c <=? 91)) || ((93 <=? c) && (c <=? 1114111)).

(* ---------- json_escape ---------- *)
Definition hex4 (c : N) : bytes :=
  [hex_char ((c / 4096) mod 16); hex_char ((c / 256) mod 16); hex_char ((c / 16) mod 16); hex_char (c mod 16)].

Definition escape_one (cp : N) (raw : bytes) : res bytes :=
  if is_safe_char cp then Ok raw else
  if cp =? 8 then Ok [92; 98] else
  if cp =? 9 then Ok [92; 116] else
  if cp =? 10 then Ok [92; 110] else
  if cp =? 12 then Ok [92; 102] else
  if cp =? 13 then Ok [92; 114] else
  if cp =? 34 then Ok [92; 34] else
  if cp =? 92 then Ok [92; 92] else
  if 32 <? cp then Err EUtf8      (* beyond U+10FFFF *)
  else Ok ([92; 117] ++ hex4 cp).

(* accumulator style (tail calls: the extracted code must not build a deep stack) *)
Fixpoint json_escape_fuel (fuel : nat) (l : bytes) (acc : bytes) : res bytes :=
  match fuel with
  | O => OutOfFuel
  | S fuel' =>
      match next_code_point l with
      | Ok None => Ok (rev_append acc [])
      | Ok (Some (cp, size)) =>
          match escape_one cp (take size l) with
          | Ok e => json_escape_fuel fuel' (drop size l) (rev_append e acc)
          | Err x => Err x | Panic => Panic | OutOfFuel => OutOfFuel
          end
      | Err x => Err x | Panic => Panic | OutOfFuel => OutOfFuel
      end
  end.
Definition json_escape (l : bytes) : res bytes := json_escape_fuel (S (length l)) l [].

(* ---------- json_unescape ---------- *)
(* state: inescape, uescape (digit, total); input suffix; consumed; output (reversed chunks); write_pos *)
Inductive ustate := UNormal | UEscape | UHex (digit total : N).

Definition hex_digit_value (cp : N) : option N :=
  if (48 <=? cp) && (cp <=? 57) then Some (cp - 48)
  else if (65 <=? cp) && (cp <=? 70) then Some (cp - 55)
  else if (97 <=? cp) && (cp <=? 102) then Some (cp - 87)
  else None.

(* returns (consumed, output).  [cap] is the length of the output slice; [acc] is the output so far, REVERSED. *)
Fixpoint unescape_fuel (fuel : nat) (st : ustate) (l : bytes) (consumed : N) (acc : bytes) (wp cap : N)
  : res (N * bytes) :=
  match fuel with
  | O => OutOfFuel
  | S fuel' =>
      match next_code_point l with
      | Err x => Err x | Panic => Panic | OutOfFuel => OutOfFuel
      | Ok None => Ok (consumed, rev_append acc [])
      | Ok (Some (cp, size)) =>
          let raw := take size l in
          let rest := drop size l in
          let emit (bs : bytes) (st' : ustate) :=
            if cap <? wp + len bs then Err EBuf
            else unescape_fuel fuel' st' rest (consumed + size) (rev_append bs acc) (wp + len bs) cap in
          match st with
          | UEscape =>
              if 255 <? cp then Err EJson else
              if (cp =? 34) || (cp =? 92) || (cp =? 47) then emit raw UNormal
              else if cp =? 98 then emit [8] UNormal
              else if cp =? 102 then emit [12] UNormal
              else if cp =? 110 then emit [10] UNormal
              else if cp =? 114 then emit [13] UNormal
              else if cp =? 116 then emit [9] UNormal
              else if cp =? 117 then unescape_fuel fuel' (UHex 0 0) rest (consumed + size) acc wp cap
              else Err EJson
          | UHex digit total =>
              match hex_digit_value cp with
              | None => Err EJson
              | Some dv =>
                  let total' := total + dv * 16 ^ (3 - digit) in
                  if 3 <=? digit then
                    if (55296 <=? total') && (total' <=? 57343) then Err EJson else
                    match encode_utf8 total' (cap - wp) with
                    | Ok enc => unescape_fuel fuel' UNormal rest (consumed + size) (rev_append enc acc) (wp + len enc) cap
                    | Err x => Err x | Panic => Panic | OutOfFuel => OutOfFuel
                    end
                  else unescape_fuel fuel' (UHex (digit + 1) total') rest (consumed + size) acc wp cap
              end
          | UNormal =>
              if cp =? 92 then unescape_fuel fuel' UEscape rest (consumed + size) acc wp cap
              else if is_safe_char cp then emit raw UNormal
              else if cp =? 34 then Ok (consumed, rev_append acc [])
              else Err EJson
          end
      end
  end.

(* json_unescape(input, out) with |out| = cap: (consumed input, bytes written) *)
Definition json_unescape (l : bytes) (cap : N) : res (N * bytes) :=
  unescape_fuel (S (length l)) UNormal l 0 [] 0 cap.
