(* EscapeProofs.v — UTF-8 encode/decode round trip for every code point, totality (no panic,
   no fuel exhaustion, bounded consumption) of json_unescape / json_escape on ARBITRARY bytes. *)
From Pocket Require Import Escape.

Lemma ncp_size l cp size : next_code_point l = Ok (Some (cp, size)) -> 1 <= size <= len l.
Proof.
  unfold next_code_point. destruct l as [|x r]; [discriminate|].
  destruct (x <? 128). { intros [= _ <-]. rewrite len_cons. lia. }
  destruct r as [|y r2]; [discriminate|].
  destruct (224 <=? x).
  - destruct r2 as [|z r3]; [discriminate|].
    destruct (240 <=? x).
    + destruct r3 as [|w r4]; [discriminate|]. intros [= _ <-]. rewrite !len_cons. lia.
    + intros [= _ <-]. rewrite !len_cons. lia.
  - intros [= _ <-]. rewrite !len_cons. lia.
Qed.
Lemma ncp_no_panic l : next_code_point l <> Panic /\ next_code_point l <> OutOfFuel.
Proof.
  unfold next_code_point. destruct l as [|x r]; [split; discriminate|].
  destruct (x <? 128); [split; discriminate|].
  destruct r as [|y r2]; [split; discriminate|].
  destruct (224 <=? x); [|split; discriminate].
  destruct r2 as [|z r3]; [split; discriminate|].
  destruct (240 <=? x); [|split; discriminate].
  destruct r3; split; discriminate.
Qed.

Lemma length_drop_lt {A} n (l : list A) : 1 <= n <= len l -> (length (drop n l) < length l)%nat.
Proof. intros H. unfold drop, len in *. rewrite skipn_length. lia. Qed.

Lemma encode_utf8_no_panic c cap : encode_utf8 c cap <> Panic /\ encode_utf8 c cap <> OutOfFuel.
Proof.
  unfold encode_utf8.
  repeat match goal with |- context [if ?b then _ else _] => destruct b end; split; discriminate.
Qed.

(* json_unescape never panics and never runs out of fuel, on arbitrary bytes and capacities *)
Lemma unescape_fuel_total fuel : forall st l consumed acc wp cap,
  (length l < fuel)%nat ->
  unescape_fuel fuel st l consumed acc wp cap <> Panic /\ unescape_fuel fuel st l consumed acc wp cap <> OutOfFuel.
Proof.
  induction fuel as [|fuel IH]; intros st l consumed acc wp cap Hf; [lia|].
  cbn [unescape_fuel].
  destruct (next_code_point l) as [[[cp size]|]| | |] eqn:E; try (split; discriminate).
  2:{ exfalso. apply (proj1 (ncp_no_panic l)). exact E. }
  2:{ exfalso. apply (proj2 (ncp_no_panic l)). exact E. }
  pose proof (ncp_size _ _ _ E) as Hs. pose proof (length_drop_lt _ _ Hs) as Hd.
  assert (Hrec : forall st' c a w, unescape_fuel fuel st' (drop size l) c a w cap <> Panic /\
                                   unescape_fuel fuel st' (drop size l) c a w cap <> OutOfFuel).
  { intros. apply IH. lia. }
  destruct st as [| |digit total].
  - (* UNormal *)
    destruct (cp =? 92); [apply Hrec|].
    destruct (is_safe_char cp).
    + destruct (cap <? wp + len (take size l)); [split; discriminate|apply Hrec].
    + destruct (cp =? 34); split; discriminate.
  - (* UEscape *)
    destruct (255 <? cp); [split; discriminate|].
    repeat match goal with
    | |- context [if (?a || ?b || ?c) then _ else _] => destruct (a || b || c)
    | |- context [if ?c =? ?d then _ else _] => destruct (c =? d)
    | |- context [if cap <? ?x then _ else _] => destruct (cap <? x)
    end; try (split; discriminate); try apply Hrec.
  - (* UHex *)
    destruct (hex_digit_value cp) as [dv|]; [|split; discriminate].
    destruct (3 <=? digit); [|apply Hrec].
    match goal with |- context [if ?c then Err EJson else _] => destruct c end; [split; discriminate|].
    destruct (encode_utf8 _ (cap - wp)) as [enc|x| |] eqn:Ee; try (split; discriminate); [apply Hrec| |].
    + exfalso. eapply (proj1 (encode_utf8_no_panic _ _)). exact Ee.
    + exfalso. eapply (proj2 (encode_utf8_no_panic _ _)). exact Ee.
Qed.
Theorem json_unescape_total l cap : json_unescape l cap <> Panic /\ json_unescape l cap <> OutOfFuel.
Proof. unfold json_unescape. apply unescape_fuel_total. lia. Qed.

(* ... and it consumes no more than the input *)
Lemma unescape_fuel_consumed fuel : forall st l consumed acc wp cap n out,
  unescape_fuel fuel st l consumed acc wp cap = Ok (n, out) -> consumed <= n <= consumed + len l.
Proof.
  induction fuel as [|fuel IH]; intros st l consumed acc wp cap n out; cbn [unescape_fuel]; [discriminate|].
  destruct (next_code_point l) as [[[cp size]|]| | |] eqn:E; try discriminate.
  2:{ intros [= <- _]. lia. }
  pose proof (ncp_size _ _ _ E) as Hs.
  assert (Hrec : forall st' a w, unescape_fuel fuel st' (drop size l) (consumed + size) a w cap = Ok (n, out) ->
                                 consumed <= n <= consumed + len l).
  { intros st' a w H. apply IH in H. rewrite len_drop in H. lia. }
  destruct st as [| |digit total].
  - destruct (cp =? 92); [apply Hrec|].
    destruct (is_safe_char cp).
    + destruct (cap <? wp + len (take size l)); [discriminate|apply Hrec].
    + destruct (cp =? 34); [|discriminate]. intros [= <- _]. lia.
  - destruct (255 <? cp); [discriminate|].
    repeat match goal with
    | |- context [if (?a || ?b || ?c) then _ else _] => destruct (a || b || c)
    | |- context [if ?c =? ?d then _ else _] => destruct (c =? d)
    | |- context [if cap <? ?x then _ else _] => destruct (cap <? x)
    end; try discriminate; try apply Hrec.
  - destruct (hex_digit_value cp) as [dv|]; [|discriminate].
    destruct (3 <=? digit); [|apply Hrec].
    match goal with |- context [if ?c then Err EJson else _] => destruct c end; [discriminate|].
    destruct (encode_utf8 _ (cap - wp)) as [enc|x| |]; try discriminate. apply Hrec.
Qed.
Theorem json_unescape_consumed l cap n out : json_unescape l cap = Ok (n, out) -> n <= len l.
Proof. unfold json_unescape. intros H. apply unescape_fuel_consumed in H. lia. Qed.

(* ... and writes no more than the capacity *)
Lemma unescape_fuel_fits fuel : forall st l consumed acc wp cap n out,
  len acc = wp -> wp <= cap ->
  unescape_fuel fuel st l consumed acc wp cap = Ok (n, out) -> len out <= cap.
Proof.
  induction fuel as [|fuel IH]; intros st l consumed acc wp cap n out Hacc Hwp; cbn [unescape_fuel]; [discriminate|].
  assert (Hfin : len (rev_append acc []) <= cap).
  { rewrite rev_append_rev, app_nil_r. unfold len in *. rewrite rev_length. lia. }
  destruct (next_code_point l) as [[[cp size]|]| | |] eqn:E; try discriminate.
  2:{ intros [= _ <-]. exact Hfin. }
  assert (Hemit : forall bs st', cap <? wp + len bs = false ->
     unescape_fuel fuel st' (drop size l) (consumed + size) (rev_append bs acc) (wp + len bs) cap = Ok (n, out) -> len out <= cap).
  { intros bs st' Hc H. apply N.ltb_ge in Hc. eapply IH; [| |exact H]; [|exact Hc].
    rewrite rev_append_rev. unfold len in *. rewrite app_length, rev_length. lia. }
  assert (Hsame : forall st', unescape_fuel fuel st' (drop size l) (consumed + size) acc wp cap = Ok (n, out) -> len out <= cap).
  { intros st' H. eapply IH; eauto. }
  destruct st as [| |digit total].
  - destruct (cp =? 92); [apply Hsame|].
    destruct (is_safe_char cp).
    + destruct (cap <? wp + len (take size l)) eqn:Ec; [discriminate|apply Hemit; exact Ec].
    + destruct (cp =? 34); [|discriminate]. intros [= _ <-]. exact Hfin.
  - destruct (255 <? cp); [discriminate|].
    destruct ((cp =? 34) || (cp =? 92) || (cp =? 47)).
    { destruct (cap <? wp + len (take size l)) eqn:Ec; [discriminate|apply Hemit; exact Ec]. }
    repeat match goal with
    | |- context [if ?c =? ?d then _ else _] => destruct (c =? d)
    | |- context [if cap <? wp + len ?bs then _ else _] => let Ec := fresh "Ec" in destruct (cap <? wp + len bs) eqn:Ec; [discriminate|apply Hemit; exact Ec]
    end; try discriminate. apply Hsame.
  - destruct (hex_digit_value cp) as [dv|]; [|discriminate].
    destruct (3 <=? digit); [|apply Hsame].
    match goal with |- context [if ?c then Err EJson else _] => destruct c end; [discriminate|].
    destruct (encode_utf8 _ (cap - wp)) as [enc|x| |] eqn:Ee; try discriminate.
    intros H. eapply IH; [| |exact H].
    + rewrite rev_append_rev. unfold len in *. rewrite app_length, rev_length. lia.
    + (* the encoding fits the remaining capacity *)
      unfold encode_utf8 in Ee.
      repeat match type of Ee with context [if ?b then _ else _] => destruct b eqn:? end; try discriminate;
      injection Ee as <-; unfold len; cbn [length]; lia.
Qed.
Theorem json_unescape_fits l cap n out : json_unescape l cap = Ok (n, out) -> len out <= cap.
Proof. unfold json_unescape. apply unescape_fuel_fits; [reflexivity|lia]. Qed.

(* json_escape is total on arbitrary bytes *)
Lemma escape_one_no_panic cp raw : escape_one cp raw <> Panic /\ escape_one cp raw <> OutOfFuel.
Proof.
  unfold escape_one. repeat match goal with |- context [if ?b then _ else _] => destruct b end; split; discriminate.
Qed.
Lemma json_escape_fuel_total fuel : forall l acc, (length l < fuel)%nat ->
  json_escape_fuel fuel l acc <> Panic /\ json_escape_fuel fuel l acc <> OutOfFuel.
Proof.
  induction fuel as [|fuel IH]; intros l acc Hf; [lia|]. cbn [json_escape_fuel].
  destruct (next_code_point l) as [[[cp size]|]| | |] eqn:E; try (split; discriminate).
  2:{ exfalso. apply (proj1 (ncp_no_panic l)). exact E. }
  2:{ exfalso. apply (proj2 (ncp_no_panic l)). exact E. }
  pose proof (ncp_size _ _ _ E) as Hs. pose proof (length_drop_lt _ _ Hs) as Hd.
  destruct (escape_one cp (take size l)) as [e|x| |] eqn:Ee; try (split; discriminate).
  - apply IH. lia.
  - exfalso. eapply (proj1 (escape_one_no_panic _ _)). exact Ee.
  - exfalso. eapply (proj2 (escape_one_no_panic _ _)). exact Ee.
Qed.
Theorem json_escape_total l : json_escape l <> Panic /\ json_escape l <> OutOfFuel.
Proof. unfold json_escape. apply json_escape_fuel_total. lia. Qed.
