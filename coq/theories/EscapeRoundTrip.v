(* EscapeRoundTrip.v — for every valid UTF-8 string (= the shortest-form encodings of a list of Unicode
   scalar values) json_escape succeeds, and json_unescape reads its output (followed by the closing quote
   and anything at all) back to exactly the original bytes; every \uXXXX escape of a non-surrogate code
   point below 65536 reads back to the UTF-8 encoding of that code point (choice of escapes does not
   matter); json_escape is injective on valid UTF-8. *)
From Pocket Require Import Escape EscapeProofs.

(* ---------- Unicode scalar values and their shortest-form encodings ---------- *)
Definition scalar (c : N) : Prop := (c < 55296 \/ 57344 <= c) /\ c <= 1114111.

Definition enc (c : N) : bytes :=
  if c <? 128 then [c]
  else if c <? 2048 then [192 + (c / 64) mod 32; 128 + c mod 64]
  else if c <? 65536 then [224 + (c / 4096) mod 16; 128 + (c / 64) mod 64; 128 + c mod 64]
  else [240 + (c / 262144) mod 8; 128 + (c / 4096) mod 64; 128 + (c / 64) mod 64; 128 + c mod 64].

Definition utf8_of (cps : list N) : bytes := flat_map enc cps.
Definition valid_utf8 (s : bytes) : Prop := exists cps, Forall scalar cps /\ s = utf8_of cps.

Lemma len_enc c : 1 <= len (enc c) <= 4.
Proof. unfold enc. repeat match goal with |- context [if ?b then _ else _] => destruct b end; unfold len; cbn [length]; lia. Qed.

Lemma encode_utf8_enc c cap : len (enc c) <= cap -> encode_utf8 c cap = Ok (enc c).
Proof.
  unfold encode_utf8, enc.
  destruct (c <? 128). { unfold len; cbn [length]. intros H. destruct (cap <? 1) eqn:E; [lia|reflexivity]. }
  destruct (c <? 2048). { unfold len; cbn [length]. intros H. destruct (cap <? 2) eqn:E; [lia|reflexivity]. }
  destruct (c <? 65536). { unfold len; cbn [length]. intros H. destruct (cap <? 3) eqn:E; [lia|reflexivity]. }
  unfold len; cbn [length]. intros H. destruct (cap <? 4) eqn:E; [lia|reflexivity].
Qed.

(* decoding the shortest-form encoding gives the code point back, whatever follows *)
Lemma ncp_enc c r : c <= 1114111 -> next_code_point (enc c ++ r) = Ok (Some (c, len (enc c))).
Proof.
  intros Hc. unfold enc.
  destruct (c <? 128) eqn:E1.
  { cbn [app next_code_point]. rewrite E1. reflexivity. }
  destruct (c <? 2048) eqn:E2.
  { cbn [app next_code_point].
    replace (192 + (c / 64) mod 32 <? 128) with false by lia.
    replace (224 <=? 192 + (c / 64) mod 32) with false by lia.
    unfold len; cbn [length]. do 3 f_equal. lia. }
  destruct (c <? 65536) eqn:E3.
  { cbn [app next_code_point].
    replace (224 + (c / 4096) mod 16 <? 128) with false by lia.
    replace (224 <=? 224 + (c / 4096) mod 16) with true by lia.
    replace (240 <=? 224 + (c / 4096) mod 16) with false by lia.
    unfold len; cbn [length]. do 3 f_equal. lia. }
  cbn [app next_code_point].
  replace (240 + (c / 262144) mod 8 <? 128) with false by lia.
  replace (224 <=? 240 + (c / 262144) mod 8) with true by lia.
  replace (240 <=? 240 + (c / 262144) mod 8) with true by lia.
  unfold len; cbn [length]. do 3 f_equal. lia.
Qed.

Lemma ncp_ascii x r : x < 128 -> next_code_point (x :: r) = Ok (Some (x, 1)).
Proof. intros H. cbn [next_code_point]. replace (x <? 128) with true by lia. reflexivity. Qed.

(* ---------- what json_escape writes for one code point ---------- *)
Definition esc1 (c : N) : bytes :=
  if is_safe_char c then enc c else
  if c =? 8 then [92; 98] else if c =? 9 then [92; 116] else if c =? 10 then [92; 110] else
  if c =? 12 then [92; 102] else if c =? 13 then [92; 114] else if c =? 34 then [92; 34] else
  if c =? 92 then [92; 92] else [92; 117] ++ hex4 c.

Lemma escape_one_enc c : c <= 1114111 -> escape_one c (enc c) = Ok (esc1 c).
Proof.
  intros Hc. unfold escape_one, esc1.
  destruct (is_safe_char c) eqn:Es; [reflexivity|].
  repeat match goal with |- context [if ?a =? ?b then _ else _] => destruct (a =? b) eqn:?; [reflexivity|] end.
  replace (32 <? c) with false; [reflexivity|].
  unfold is_safe_char in Es. lia.
Qed.

Lemma len_esc1 c : 1 <= len (esc1 c).
Proof.
  unfold esc1. pose proof (len_enc c).
  repeat match goal with |- context [if ?b then _ else _] => destruct b end; try lia; unfold len; cbn [length app hex4]; lia.
Qed.

Lemma take_len_app {A} (l r : list A) : take (len l) (l ++ r) = l. Proof. apply take_app_len. Qed.

Lemma length_flat_map_enc_ge cps : (length cps <= length (utf8_of cps))%nat.
Proof.
  induction cps as [|c cps IH]; cbn [utf8_of flat_map length]; [lia|].
  rewrite app_length. pose proof (len_enc c) as H. unfold len in H. unfold utf8_of in IH. lia.
Qed.

Lemma escape_fuel_spec cps : forall fuel acc, Forall (fun c => c <= 1114111) cps -> (length (utf8_of cps) < fuel)%nat ->
  json_escape_fuel fuel (utf8_of cps) acc = Ok (rev acc ++ flat_map esc1 cps).
Proof.
  induction cps as [|c cps IH]; intros fuel acc Hs Hf.
  - destruct fuel as [|fuel]; [cbn in Hf; lia|]. cbn [utf8_of flat_map json_escape_fuel next_code_point].
    rewrite rev_append_rev, !app_nil_r. reflexivity.
  - destruct fuel as [|fuel]; [lia|]. inversion Hs as [|? ? Hc Hs']; subst.
    cbn [utf8_of flat_map json_escape_fuel]. fold (utf8_of cps).
    rewrite (ncp_enc c _ Hc), take_app_len, drop_app_len, (escape_one_enc c Hc).
    rewrite IH; [|exact Hs'|].
    + rewrite rev_append_rev, rev_app_distr, rev_involutive, <- app_assoc. reflexivity.
    + unfold utf8_of in *. cbn [flat_map] in Hf. rewrite app_length in Hf. pose proof (len_enc c) as H. unfold len in H. lia.
Qed.

Lemma scalar_le c : scalar c -> c <= 1114111. Proof. intros [_ H]. exact H. Qed.
Lemma Forall_scalar_le cps : Forall scalar cps -> Forall (fun c => c <= 1114111) cps.
Proof. intros H. eapply Forall_impl; [|exact H]. intros a. apply scalar_le. Qed.

Theorem json_escape_valid cps : Forall scalar cps -> json_escape (utf8_of cps) = Ok (flat_map esc1 cps).
Proof.
  intros H. unfold json_escape. rewrite escape_fuel_spec; [reflexivity|apply Forall_scalar_le; exact H|lia].
Qed.

(* ---------- single steps of json_unescape ---------- *)
Section Steps.
Variables (fuel : nat) (r : bytes) (consumed : N) (acc : bytes) (wp cap : N).

Lemma un_backslash : unescape_fuel (S fuel) UNormal (92 :: r) consumed acc wp cap
                     = unescape_fuel fuel UEscape r (consumed + 1) acc wp cap.
Proof. cbn [unescape_fuel]. rewrite ncp_ascii by lia. reflexivity. Qed.

Lemma un_quote : unescape_fuel (S fuel) UNormal (34 :: r) consumed acc wp cap = Ok (consumed, rev_append acc []).
Proof. cbn [unescape_fuel]. rewrite ncp_ascii by lia. reflexivity. Qed.

Lemma un_u : unescape_fuel (S fuel) UEscape (117 :: r) consumed acc wp cap
             = unescape_fuel fuel (UHex 0 0) r (consumed + 1) acc wp cap.
Proof. cbn [unescape_fuel]. rewrite ncp_ascii by lia. reflexivity. Qed.

(* the two-character escapes: letter -> byte *)
Definition short_escape (x : N) : option N :=
  if x =? 34 then Some 34 else if x =? 92 then Some 92 else if x =? 47 then Some 47 else
  if x =? 98 then Some 8 else if x =? 102 then Some 12 else if x =? 110 then Some 10 else
  if x =? 114 then Some 13 else if x =? 116 then Some 9 else None.

Lemma un_short x b : short_escape x = Some b -> wp + 1 <= cap ->
  unescape_fuel (S fuel) UEscape (x :: r) consumed acc wp cap
  = unescape_fuel fuel UNormal r (consumed + 1) (b :: acc) (wp + 1) cap.
Proof.
  intros Hx Hcap. unfold short_escape in Hx.
  assert (Hlt : x < 128).
  { repeat match type of Hx with context [if ?a =? ?b then _ else _] => destruct (a =? b) eqn:?; [lia|] end. discriminate. }
  cbn [unescape_fuel]. rewrite ncp_ascii by exact Hlt.
  replace (255 <? x) with false by lia.
  change (take 1 (x :: r)) with [x]. change (drop 1 (x :: r)) with r. change (len [x]) with 1.
  replace (cap <? wp + 1) with false by lia.
  destruct (x =? 34) eqn:E34. { injection Hx as <-. assert (x = 34) by lia. subst x. reflexivity. }
  destruct (x =? 92) eqn:E92. { injection Hx as <-. assert (x = 92) by lia. subst x. reflexivity. }
  destruct (x =? 47) eqn:E47. { injection Hx as <-. assert (x = 47) by lia. subst x. reflexivity. }
  cbn [orb].
  destruct (x =? 98). { injection Hx as <-. change (len [8]) with 1. replace (cap <? wp + 1) with false by lia. reflexivity. }
  destruct (x =? 102). { injection Hx as <-. change (len [12]) with 1. replace (cap <? wp + 1) with false by lia. reflexivity. }
  destruct (x =? 110). { injection Hx as <-. change (len [10]) with 1. replace (cap <? wp + 1) with false by lia. reflexivity. }
  destruct (x =? 114). { injection Hx as <-. change (len [13]) with 1. replace (cap <? wp + 1) with false by lia. reflexivity. }
  destruct (x =? 116). { injection Hx as <-. change (len [9]) with 1. replace (cap <? wp + 1) with false by lia. reflexivity. }
  discriminate.
Qed.

Lemma un_hex_digit x dv digit total : hex_digit_value x = Some dv -> digit < 3 ->
  unescape_fuel (S fuel) (UHex digit total) (x :: r) consumed acc wp cap
  = unescape_fuel fuel (UHex (digit + 1) (total + dv * 16 ^ (3 - digit))) r (consumed + 1) acc wp cap.
Proof.
  intros Hx Hd.
  assert (Hlt : x < 128).
  { unfold hex_digit_value in Hx. repeat match type of Hx with context [if ?b then _ else _] => destruct b eqn:? end; try discriminate; lia. }
  cbn [unescape_fuel]. rewrite ncp_ascii by exact Hlt. rewrite Hx.
  replace (3 <=? digit) with false by lia. reflexivity.
Qed.

Lemma un_hex_last x dv total : hex_digit_value x = Some dv ->
  let c := total + dv in
  (c < 55296 \/ 57344 <= c) -> wp + len (enc c) <= cap ->
  unescape_fuel (S fuel) (UHex 3 total) (x :: r) consumed acc wp cap
  = unescape_fuel fuel UNormal r (consumed + 1) (rev_append (enc c) acc) (wp + len (enc c)) cap.
Proof.
  intros Hx c Hns Hcap.
  assert (Hlt : x < 128).
  { unfold hex_digit_value in Hx. repeat match type of Hx with context [if ?b then _ else _] => destruct b eqn:? end; try discriminate; lia. }
  cbn [unescape_fuel]. rewrite ncp_ascii by exact Hlt. rewrite Hx.
  change (3 <=? 3) with true. cbv iota.
  change (3 - 3) with 0. change (16 ^ 0) with 1. rewrite N.mul_1_r. fold c.
  replace ((55296 <=? c) && (c <=? 57343)) with false by lia.
  rewrite encode_utf8_enc by lia. reflexivity.
Qed.
End Steps.

Lemma hex_digit_hex_char d : d < 16 -> hex_digit_value (hex_char d) = Some d.
Proof.
  intros H. unfold hex_digit_value, hex_char.
  destruct (d <? 10) eqn:E.
  - replace ((48 <=? 48 + d) && (48 + d <=? 57)) with true by lia. f_equal. lia.
  - replace ((48 <=? 87 + d) && (87 + d <=? 57)) with false by lia.
    replace ((65 <=? 87 + d) && (87 + d <=? 70)) with false by lia.
    replace ((97 <=? 87 + d) && (87 + d <=? 102)) with true by lia. f_equal. lia.
Qed.

(* any \uXXXX escape of a non-surrogate code point below 65536 reads back as its UTF-8 encoding *)
Lemma un_u4 fuel r consumed acc wp cap c : c < 65536 -> (c < 55296 \/ 57344 <= c) -> wp + len (enc c) <= cap ->
  unescape_fuel (6 + fuel) UNormal ([92; 117] ++ hex4 c ++ r) consumed acc wp cap
  = unescape_fuel fuel UNormal r (consumed + 6) (rev_append (enc c) acc) (wp + len (enc c)) cap.
Proof.
  intros Hc Hns Hcap. unfold hex4. cbn [app plus].
  rewrite un_backslash, un_u.
  rewrite (un_hex_digit _ _ _ _ _ _ _ ((c / 4096) mod 16)) by (try apply hex_digit_hex_char; lia).
  rewrite (un_hex_digit _ _ _ _ _ _ _ ((c / 256) mod 16)) by (try apply hex_digit_hex_char; lia).
  rewrite (un_hex_digit _ _ _ _ _ _ _ ((c / 16) mod 16)) by (try apply hex_digit_hex_char; lia).
  change (3 - 0) with 3. change (3 - (0 + 1)) with 2. change (3 - (0 + 1 + 1)) with 1.
  change (16 ^ 3) with 4096. change (16 ^ 2) with 256. change (16 ^ 1) with 16. change (0 + 1 + 1 + 1) with 3.
  set (total := 0 + (c / 4096) mod 16 * 4096 + (c / 256) mod 16 * 256 + (c / 16) mod 16 * 16).
  assert (Hc' : total + c mod 16 = c) by (subst total; lia).
  rewrite (un_hex_last _ _ _ _ _ _ _ (c mod 16)); [| apply hex_digit_hex_char; lia | rewrite Hc'; exact Hns | rewrite Hc'; exact Hcap].
  rewrite Hc'. f_equal. lia.
Qed.

(* one escaped code point is read back as that code point's encoding *)
Lemma un_esc1 c : scalar c -> forall fuel r consumed acc wp cap, wp + len (enc c) <= cap -> (length (esc1 c ++ r) < fuel)%nat ->
  exists fuel', (length r < fuel')%nat /\
    unescape_fuel fuel UNormal (esc1 c ++ r) consumed acc wp cap
    = unescape_fuel fuel' UNormal r (consumed + len (esc1 c)) (rev_append (enc c) acc) (wp + len (enc c)) cap.
Proof.
  intros [Hns Hmax] fuel r consumed acc wp cap Hcap Hf. unfold esc1 in *.
  destruct (is_safe_char c) eqn:Es.
  { (* copied verbatim *)
    destruct fuel as [|fuel]; [lia|]. exists fuel. split.
    { rewrite app_length in Hf. pose proof (len_enc c) as H. unfold len in H. lia. }
    cbn [unescape_fuel]. rewrite (ncp_enc c r Hmax), take_app_len, drop_app_len.
    replace (c =? 92) with false by (unfold is_safe_char in Es; lia). rewrite Es.
    replace (cap <? wp + len (enc c)) with false by lia. reflexivity. }
  assert (Hsmall : c < 32 \/ c = 34 \/ c = 92) by (unfold is_safe_char in Es; lia).
  assert (Henc : enc c = [c]) by (unfold enc; replace (c <? 128) with true by lia; reflexivity).
  rewrite Henc in *. change (len [c]) with 1 in *.
  assert (Hshort : forall x, short_escape x = Some c -> (length ([92%N; x] ++ r) < fuel)%nat ->
            exists fuel', (length r < fuel')%nat /\
              unescape_fuel fuel UNormal ([92; x] ++ r) consumed acc wp cap
              = unescape_fuel fuel' UNormal r (consumed + len [92; x]) (rev_append [c] acc) (wp + 1) cap).
  { intros x Hx Hfx. destruct fuel as [|[|fuel]]; cbn [app length] in Hfx; try lia. exists fuel. split; [lia|].
    cbn [app]. rewrite un_backslash, (un_short _ _ _ _ _ _ _ c Hx Hcap). change (len [92; x]) with 2.
    cbn [rev_append]. f_equal. lia. }
  destruct (c =? 8) eqn:E8. { assert (c = 8) by lia; subst c. apply Hshort; [reflexivity|exact Hf]. }
  destruct (c =? 9) eqn:E9. { assert (c = 9) by lia; subst c. apply Hshort; [reflexivity|exact Hf]. }
  destruct (c =? 10) eqn:E10. { assert (c = 10) by lia; subst c. apply Hshort; [reflexivity|exact Hf]. }
  destruct (c =? 12) eqn:E12. { assert (c = 12) by lia; subst c. apply Hshort; [reflexivity|exact Hf]. }
  destruct (c =? 13) eqn:E13. { assert (c = 13) by lia; subst c. apply Hshort; [reflexivity|exact Hf]. }
  destruct (c =? 34) eqn:E34. { assert (c = 34) by lia; subst c. apply Hshort; [reflexivity|exact Hf]. }
  destruct (c =? 92) eqn:E92. { assert (c = 92) by lia; subst c. apply Hshort; [reflexivity|exact Hf]. }
  (* \u00XX *)
  assert (Hlen : length (([92; 117] ++ hex4 c) ++ r) = (6 + length r)%nat) by reflexivity.
  rewrite Hlen in Hf.
  destruct fuel as [|[|[|[|[|[|fuel]]]]]]; try lia.
  exists fuel. split; [lia|].
  rewrite <- app_assoc.
  change (S (S (S (S (S (S fuel)))))) with (6 + fuel)%nat.
  rewrite un_u4; [| lia | lia | rewrite Henc; change (len [c]) with 1; exact Hcap].
  rewrite Henc. change (len [c]) with 1. change (len ([92; 117] ++ hex4 c)) with 6. reflexivity.
Qed.

Lemma unescape_fuel_spec cps : Forall scalar cps -> forall fuel rest consumed acc wp cap,
  wp + len (utf8_of cps) <= cap -> (length (flat_map esc1 cps ++ 34%N :: rest) < fuel)%nat ->
  unescape_fuel fuel UNormal (flat_map esc1 cps ++ 34 :: rest) consumed acc wp cap
  = Ok (consumed + len (flat_map esc1 cps), rev acc ++ utf8_of cps).
Proof.
  induction 1 as [|c cps Hc Hs IH]; intros fuel rest consumed acc wp cap Hcap Hf.
  - cbn [flat_map app utf8_of] in *. destruct fuel as [|fuel]; [lia|].
    rewrite un_quote, rev_append_rev, !app_nil_r. f_equal. f_equal. change (len (@nil N)) with 0. lia.
  - cbn [flat_map utf8_of] in *. fold (utf8_of cps) in *. rewrite <- app_assoc in *.
    rewrite len_app in Hcap.
    destruct (un_esc1 c Hc fuel (flat_map esc1 cps ++ 34 :: rest) consumed acc wp cap) as [fuel' [Hf' ->]]; [lia|exact Hf|].
    rewrite IH; [| lia | exact Hf'].
    rewrite rev_append_rev, rev_app_distr, rev_involutive, <- app_assoc, len_app. f_equal. f_equal. lia.
Qed.

(* ---------- the round trip ---------- *)
Theorem escape_unescape_roundtrip : forall s e rest cap,
  valid_utf8 s -> json_escape s = Ok e -> len s <= cap ->
  json_unescape (e ++ 34 :: rest) cap = Ok (len e, s).
Proof.
  intros s e rest cap [cps [Hs ->]] He Hcap.
  rewrite (json_escape_valid cps Hs) in He. injection He as <-.
  unfold json_unescape. rewrite (unescape_fuel_spec cps Hs); [reflexivity|lia|lia].
Qed.

Theorem json_escape_succeeds_on_valid : forall s, valid_utf8 s -> exists e, json_escape s = Ok e.
Proof. intros s [cps [Hs ->]]. eexists. apply json_escape_valid. exact Hs. Qed.

Theorem json_escape_injective : forall s1 s2 e,
  valid_utf8 s1 -> valid_utf8 s2 -> json_escape s1 = Ok e -> json_escape s2 = Ok e -> s1 = s2.
Proof.
  intros s1 s2 e H1 H2 E1 E2.
  pose proof (escape_unescape_roundtrip s1 e [] (N.max (len s1) (len s2)) H1 E1 ltac:(lia)) as R1.
  pose proof (escape_unescape_roundtrip s2 e [] (N.max (len s1) (len s2)) H2 E2 ltac:(lia)) as R2.
  rewrite R1 in R2. injection R2 as ->. reflexivity.
Qed.

(* non-vacuity: a string with a control character, a quote, a backslash, 2-, 3- and 4-byte characters *)
Example roundtrip_sample :
  let cps := [104; 10; 34; 92; 1; 233; 8364; 128512] in
  Forall scalar cps /\
  json_unescape (flat_map esc1 cps ++ 34 :: [1; 2; 3]) 64 = Ok (len (flat_map esc1 cps), utf8_of cps).
Proof.
  cbv zeta. split.
  - repeat constructor; unfold scalar; lia.
  - vm_compute. reflexivity.
Qed.
