(* Event JSON: the seven members of an event object may come in ANY order.
   For every well-formed event and every permutation of its seven members (id, pubkey, sig, kind, created_at, tags,
   content), written in the library's own spelling and separated by commas, parse_json_event yields the canonical
   encoding of the event - including the orders in which the content comes before the tags (the parser remembers
   where the content starts and decodes it once the tags have been placed).
   This generalises JsonRoundTrip.event_json_roundtrip (the order Event::as_json writes). *)
From Coq Require Import List NArith Lia Bool Permutation.
Import ListNotations.
From Pocket Require Import Bytes Layout Codec JsonParse EscapeProofs EscapeRoundTrip HexProofs NumProofs CanonInj JsonRoundTrip FilterRoundTrip JsonSkip TagsWs.
Open Scope N_scope.
Arguments N.add : simpl never. Arguments N.sub : simpl never. Arguments N.mul : simpl never.
Arguments N.eqb : simpl never. Arguments N.ltb : simpl never. Arguments N.leb : simpl never.

Inductive ekey := KId | KPk | KSig | KKind | KCreated | KTags | KContent.
Definition ekey_eqb (a b : ekey) : bool :=
  match a, b with
  | KId, KId | KPk, KPk | KSig, KSig | KKind, KKind | KCreated, KCreated | KTags, KTags | KContent, KContent => true
  | _, _ => false
  end.
Lemma ekey_eqb_eq a b : ekey_eqb a b = true <-> a = b.
Proof. destruct a, b; cbn; split; intros H; try reflexivity; try discriminate. Qed.

(* what follows a member: a comma or the closing brace *)
Definition efollows (K : bytes) : Prop := exists c r, K = c :: r /\ (c = 44 \/ c = 125 \/ is_ws c = true).

(* the found-bits as a function of which members have been seen *)
Definition BB (a b c d f x t : bool) : N :=
  N.b2n a + 2 * N.b2n b + 4 * N.b2n c + 8 * N.b2n d + 16 * N.b2n f + 32 * N.b2n (x && t) + 64 * N.b2n t.

Lemma BB_id b c d f x t : has_bit (BB false b c d f x t) HAVE_ID = false /\ set_bit (BB false b c d f x t) HAVE_ID = BB true b c d f x t.
Proof. destruct b, c, d, f, x, t; split; reflexivity. Qed.
Lemma BB_pk a c d f x t : has_bit (BB a false c d f x t) HAVE_PUBKEY = false /\ set_bit (BB a false c d f x t) HAVE_PUBKEY = BB a true c d f x t.
Proof. destruct a, c, d, f, x, t; split; reflexivity. Qed.
Lemma BB_sig a b d f x t : has_bit (BB a b false d f x t) HAVE_SIG = false /\ set_bit (BB a b false d f x t) HAVE_SIG = BB a b true d f x t.
Proof. destruct a, b, d, f, x, t; split; reflexivity. Qed.
Lemma BB_created a b c f x t : has_bit (BB a b c false f x t) HAVE_CREATED_AT = false /\ set_bit (BB a b c false f x t) HAVE_CREATED_AT = BB a b c true f x t.
Proof. destruct a, b, c, f, x, t; split; reflexivity. Qed.
Lemma BB_kind a b c d x t : has_bit (BB a b c d false x t) HAVE_KIND = false /\ set_bit (BB a b c d false x t) HAVE_KIND = BB a b c d true x t.
Proof. destruct a, b, c, d, x, t; split; reflexivity. Qed.
Lemma BB_tags a b c d f x : has_bit (BB a b c d f x false) HAVE_TAGS = false /\
  set_bit (BB a b c d f false false) HAVE_TAGS = BB a b c d f false true /\
  set_bit (set_bit (BB a b c d f true false) HAVE_TAGS) HAVE_CONTENT = BB a b c d f true true.
Proof. destruct a, b, c, d, f, x; repeat split; reflexivity. Qed.
Lemma BB_content a b c d f t : has_bit (BB a b c d f false t) HAVE_CONTENT = false /\
  set_bit (BB a b c d f false true) HAVE_CONTENT = BB a b c d f true true /\ BB a b c d f true false = BB a b c d f false false.
Proof. destruct a, b, c, d, f, t; repeat split; reflexivity. Qed.

Section Any.
  Variable e : aevent.
  Variable T : bytes -> bytes.        (* the tags text: T K is what follows the array's opening bracket, then K *)
  Variable cj : bytes.
  Hypothesis W : wf_event_json e.
  Hypothesis HT : tagsd (e_tags e) T.
  Hypothesis Hcj : escd (e_content e) cj.     (* cj: ANY spelling of the content *)
  (* the caller's buffer, cut at the fixed fields *)
  Variables x0 x4 x8 x16 x48 x80 F : bytes.
  Hypothesis L0 : len x0 = 4.
  Hypothesis L4 : len x4 = 2.
  Hypothesis L8 : len x8 = 8.
  Hypothesis L16 : len x16 = 32.
  Hypothesis L48 : len x48 = 32.
  Hypothesis L80 : len x80 = 64.
  Hypothesis Hcap : tags_size (e_tags e) + 4 + len (e_content e) <= len F.

  Let tsz := tags_size (e_tags e).
  Let s := e_content e.
  Let total := 144 + tsz + 4 + len s.

  (* a member after its opening quote, followed by K *)
  Definition mbody (k : ekey) (K : bytes) : bytes :=
    match k with
    | KId => 105 :: 100 :: 34 :: 58 :: 34 :: write_hex (e_id e) ++ 34 :: K
    | KPk => 112 :: 117 :: 98 :: 107 :: 101 :: 121 :: 34 :: 58 :: 34 :: write_hex (e_pk e) ++ 34 :: K
    | KSig => 115 :: 105 :: 103 :: 34 :: 58 :: 34 :: write_hex (e_sig e) ++ 34 :: K
    | KKind => 107 :: 105 :: 110 :: 100 :: 34 :: 58 :: dec (e_kind e) ++ K
    | KCreated => 99 :: 114 :: 101 :: 97 :: 116 :: 101 :: 100 :: 95 :: 97 :: 116 :: 34 :: 58 :: dec (e_created e) ++ K
    | KTags => 116 :: 97 :: 103 :: 115 :: 34 :: 58 :: 91 :: T K
    | KContent => 99 :: 111 :: 110 :: 116 :: 101 :: 110 :: 116 :: 34 :: 58 :: 34 :: cj ++ 34 :: K
    end.

  Definition prog := ekey -> bool.
  Definition mark (p : prog) (k : ekey) : prog := fun k' => if ekey_eqb k k' then true else p k'.
  Definition written (p : prog) : bool := p KContent && p KTags.

  Definition b0 (p : prog) : bytes := if written p then le32 total else x0.
  Definition bK (p : prog) : bytes := if p KKind then le16 (e_kind e) else x4.
  Definition bC (p : prog) : bytes := if p KCreated then le64 (e_created e) else x8.
  Definition bI (p : prog) : bytes := if p KId then e_id e else x16.
  Definition bP (p : prog) : bytes := if p KPk then e_pk e else x48.
  Definition bS (p : prog) : bytes := if p KSig then e_sig e else x80.
  Definition bT (p : prog) : bytes :=
    if p KTags then enc_tags (e_tags e) ++ (if written p then le32 (len s) ++ s ++ drop (4 + len s) (drop tsz F) else drop tsz F) else F.
  Definition buf (p : prog) : bytes := b0 p ++ bK p ++ [0; 0] ++ bC p ++ bI p ++ bP p ++ bS p ++ bT p.
  Definition bits (p : prog) : N := BB (p KId) (p KPk) (p KSig) (p KCreated) (p KKind) (p KContent) (p KTags).

  Definition Inv (p : prog) (st : evst) : Prop :=
    ev_out st = buf p /\ ev_complete st = bits p /\ ev_tags_size st = (if p KTags then tsz else 0) /\
    (p KTags = false -> if p KContent then exists rest0, ev_content_start st = Some (34 :: cj ++ 34 :: rest0)
                        else ev_content_start st = None).

  (* number members with any follower *)
  Lemma efollows_nondigit K : efollows K -> exists c r, K = c :: r /\ is_digit c = false /\ is_number_char c = false.
  Proof.
    intros [c [r [-> [->|[->|Hw]]]]]; eexists _, _; repeat split; try reflexivity.
    - unfold is_ws in Hw. unfold is_digit. lia.
    - unfold is_ws in Hw. unfold is_number_char, is_digit. lia.
  Qed.

  Lemma em_kind_f st a old r k K : k < 65536 -> efollows K -> has_bit (ev_complete st) HAVE_KIND = false ->
    ev_out st = a ++ old ++ r -> len a = 4 -> len old = 2 ->
    event_member st (107 :: 105 :: 110 :: 100 :: 34 :: 58 :: dec k ++ K)
    = Ok (mkEv (a ++ le16 k ++ r) (set_bit (ev_complete st) HAVE_KIND) (ev_tags_size st) (ev_content_start st), K).
  Proof.
    intros Hk HK Hb Eo La Lo. destruct (efollows_nondigit K HK) as [c0 [r0 [-> [Hd0 _]]]]. unfold event_member.
    set (txt := 107 :: 105 :: 110 :: 100 :: 34 :: 58 :: dec k ++ c0 :: r0).
    replace (starts_with k_id txt) with false by reflexivity. replace (starts_with k_sig txt) with false by reflexivity.
    replace (starts_with k_kind txt) with true by reflexivity.
    rewrite Hb. subst txt.
    change (drop 5 (107 :: 105 :: 110 :: 100 :: 34 :: 58 :: dec k ++ c0 :: r0)) with (58 :: dec k ++ c0 :: r0).
    assert (P : k < 10 ^ 25) by (assert (65536 < 10 ^ 25) by (vm_compute; reflexivity); lia).
    destruct (dec_spec k P) as [Hd _]. pose proof (dec_nonempty k P) as Hne.
    destruct (dec k) as [|d ds] eqn:Ed; [congruence|]. inversion Hd as [|? ? Hdd _]; subst.
    cbn [app]. rewrite eat_colon_ws_lit by (unfold is_digit in Hdd; unfold is_ws; lia). cbn [bind].
    change (d :: ds ++ c0 :: r0) with ((d :: ds) ++ c0 :: r0). rewrite <- Ed, (read_kind_dec k c0 r0 Hk Hd0). cbn [bind].
    rewrite Eo, (put_raw_at a old (le16 k) r 4 La) by (rewrite len_le16; lia). reflexivity.
  Qed.

  Lemma em_created_f st a old r u K : u < 18446744073709551616 -> efollows K -> has_bit (ev_complete st) HAVE_CREATED_AT = false ->
    ev_out st = a ++ old ++ r -> len a = 8 -> len old = 8 ->
    event_member st (99 :: 114 :: 101 :: 97 :: 116 :: 101 :: 100 :: 95 :: 97 :: 116 :: 34 :: 58 :: dec u ++ K)
    = Ok (mkEv (a ++ le64 u ++ r) (set_bit (ev_complete st) HAVE_CREATED_AT) (ev_tags_size st) (ev_content_start st), K).
  Proof.
    intros Hu HK Hb Eo La Lo. destruct (efollows_nondigit K HK) as [c0 [r0 [-> [Hd0 _]]]]. unfold event_member.
    set (txt := 99 :: 114 :: 101 :: 97 :: 116 :: 101 :: 100 :: 95 :: 97 :: 116 :: 34 :: 58 :: dec u ++ c0 :: r0).
    replace (starts_with k_id txt) with false by reflexivity. replace (starts_with k_sig txt) with false by reflexivity.
    replace (starts_with k_kind txt) with false by reflexivity. replace (starts_with k_tags txt) with false by reflexivity.
    replace (starts_with k_pubkey txt) with false by reflexivity. replace (starts_with k_content txt) with false by reflexivity.
    replace (starts_with k_created_at txt) with true by reflexivity.
    rewrite Hb. subst txt.
    change (drop 11 (99 :: 114 :: 101 :: 97 :: 116 :: 101 :: 100 :: 95 :: 97 :: 116 :: 34 :: 58 :: dec u ++ c0 :: r0)) with (58 :: dec u ++ c0 :: r0).
    assert (P : u < 10 ^ 25) by (assert (18446744073709551616 < 10 ^ 25) by (vm_compute; reflexivity); lia).
    destruct (dec_spec u P) as [Hd _]. pose proof (dec_nonempty u P) as Hne.
    destruct (dec u) as [|d ds] eqn:Ed; [congruence|]. inversion Hd as [|? ? Hdd _]; subst.
    cbn [app]. rewrite eat_colon_ws_lit by (unfold is_digit in Hdd; unfold is_ws; lia). cbn [bind].
    change (d :: ds ++ c0 :: r0) with ((d :: ds) ++ c0 :: r0). rewrite <- Ed, (read_u64_dec u c0 r0 Hu Hd0). cbn [bind].
    rewrite Eo, (put_raw_at a old (le64 u) r 8 La) by (rewrite len_le64; lia). reflexivity.
  Qed.

  (* the content before the tags: only its start is remembered *)
  Lemma em_content_early st sv ev rest : escd sv ev -> ev_tags_size st = 0 -> has_bit (ev_complete st) HAVE_CONTENT = false ->
    event_member st (99 :: 111 :: 110 :: 116 :: 101 :: 110 :: 116 :: 34 :: 58 :: 34 :: ev ++ 34 :: rest)
    = Ok (mkEv (ev_out st) (ev_complete st) (ev_tags_size st) (Some (34 :: ev ++ 34 :: rest)), rest).
  Proof.
    intros [Hun Hbu] Hts Hb. unfold event_member.
    set (txt := 99 :: 111 :: 110 :: 116 :: 101 :: 110 :: 116 :: 34 :: 58 :: 34 :: ev ++ 34 :: rest).
    replace (starts_with k_id txt) with false by reflexivity. replace (starts_with k_sig txt) with false by reflexivity.
    replace (starts_with k_kind txt) with false by reflexivity. replace (starts_with k_tags txt) with false by reflexivity.
    replace (starts_with k_pubkey txt) with false by reflexivity. replace (starts_with k_content txt) with true by reflexivity.
    rewrite Hb. subst txt.
    change (drop 8 (99 :: 111 :: 110 :: 116 :: 101 :: 110 :: 116 :: 34 :: 58 :: 34 :: ev ++ 34 :: rest)) with (58 :: 34 :: ev ++ 34 :: rest).
    rewrite eat_colon_ws_lit by reflexivity. cbn [bind]. rewrite Hts. change (0 =? 0) with true. cbv iota.
    cbn [verify_char]. change (34 =? 34) with true. cbv iota. cbn [bind].
    rewrite (Hbu rest). reflexivity.
  Qed.

  (* the tags before the content *)
  Lemma em_tags_T st hdr F' ts T' tail : tagsd ts T' -> tags_size ts <= len F' -> fits_tags ts ->
    has_bit (ev_complete st) HAVE_TAGS = false -> ev_out st = hdr ++ F' -> len hdr = 144 -> ev_content_start st = None ->
    event_member st (116 :: 97 :: 103 :: 115 :: 34 :: 58 :: 91 :: T' tail)
    = Ok (mkEv (hdr ++ enc_tags ts ++ drop (tags_size ts) F') (set_bit (ev_complete st) HAVE_TAGS) (tags_size ts) None, tail).
  Proof.
    intros HT0 Hcp Hfit Hb Eo Lh Hcs. unfold event_member.
    set (txt := 116 :: 97 :: 103 :: 115 :: 34 :: 58 :: 91 :: T' tail).
    replace (starts_with k_id txt) with false by reflexivity. replace (starts_with k_sig txt) with false by reflexivity.
    replace (starts_with k_kind txt) with false by reflexivity. replace (starts_with k_tags txt) with true by reflexivity.
    rewrite Hb. subst txt.
    change (drop 5 (116 :: 97 :: 103 :: 115 :: 34 :: 58 :: 91 :: T' tail)) with (58 :: 91 :: T' tail).
    rewrite eat_colon_ws_lit by reflexivity. cbn [bind].
    replace (len (ev_out st) <? 144) with false by (symmetry; apply N.ltb_ge; rewrite Eo, len_app; lia).
    rewrite Eo. rewrite <- Lh at 1. rewrite drop_app_len.
    rewrite (proj1 HT0 F' tail Hcp Hfit). cbn [bind].
    rewrite <- Lh. rewrite take_app_len. rewrite Hcs. reflexivity.
  Qed.

  (* the tags after the content: the remembered content is decoded behind them *)
  Lemma em_tags_late st x0' pre F' ts T' sv ev rest0 tail : tagsd ts T' -> fits_tags ts -> escd sv ev ->
    tags_size ts + 4 + len sv <= len F' -> has_bit (ev_complete st) HAVE_TAGS = false ->
    ev_out st = (x0' ++ pre) ++ F' -> len x0' = 4 -> len (x0' ++ pre) = 144 -> ev_content_start st = Some (34 :: ev ++ 34 :: rest0) ->
    event_member st (116 :: 97 :: 103 :: 115 :: 34 :: 58 :: 91 :: T' tail)
    = Ok (mkEv (le32 (144 + tags_size ts + 4 + len sv) ++ (pre ++ enc_tags ts) ++ le32 (len sv) ++ sv ++ drop (4 + len sv) (drop (tags_size ts) F'))
               (set_bit (set_bit (ev_complete st) HAVE_TAGS) HAVE_CONTENT) (tags_size ts) (Some (34 :: ev ++ 34 :: rest0)), tail).
  Proof.
    intros HT0 Hfit He Hc Hb Eo Lx Lh Hcs. unfold event_member.
    set (txt := 116 :: 97 :: 103 :: 115 :: 34 :: 58 :: 91 :: T' tail).
    replace (starts_with k_id txt) with false by reflexivity. replace (starts_with k_sig txt) with false by reflexivity.
    replace (starts_with k_kind txt) with false by reflexivity. replace (starts_with k_tags txt) with true by reflexivity.
    rewrite Hb. subst txt.
    change (drop 5 (116 :: 97 :: 103 :: 115 :: 34 :: 58 :: 91 :: T' tail)) with (58 :: 91 :: T' tail).
    rewrite eat_colon_ws_lit by reflexivity. cbn [bind].
    replace (len (ev_out st) <? 144) with false by (symmetry; apply N.ltb_ge; rewrite Eo, len_app; lia).
    rewrite Eo. rewrite <- Lh at 1. rewrite drop_app_len.
    rewrite (proj1 HT0 F' tail ltac:(lia) Hfit). cbn [bind].
    rewrite <- Lh. rewrite take_app_len. rewrite Hcs.
    replace ((x0' ++ pre) ++ enc_tags ts ++ drop (tags_size ts) F') with ((x0' ++ (pre ++ enc_tags ts)) ++ drop (tags_size ts) F')
      by (rewrite <- !app_assoc; reflexivity).
    rewrite (read_content_spec sv ev x0' (pre ++ enc_tags ts) (drop (tags_size ts) F') rest0 (len (x0' ++ pre) + tags_size ts) He Lx).
    - cbn [bind]. rewrite Lh. reflexivity.
    - rewrite !len_app, len_enc_tags. rewrite len_app in Lh. lia.
    - rewrite len_drop. lia.
  Qed.

  (* lengths of the pieces *)
  Lemma Lb0 (p : prog) : len (b0 p) = 4. Proof. unfold b0. destruct (written p); [apply len_le32|exact L0]. Qed.
  Lemma LbK (p : prog) : len (bK p) = 2. Proof. unfold bK. destruct (p KKind); [apply len_le16|exact L4]. Qed.
  Lemma LbC (p : prog) : len (bC p) = 8. Proof. unfold bC. destruct (p KCreated); [apply len_le64|exact L8]. Qed.
  Lemma LbI (p : prog) : len (bI p) = 32. Proof. unfold bI. destruct (p KId); [apply W|exact L16]. Qed.
  Lemma LbP (p : prog) : len (bP p) = 32. Proof. unfold bP. destruct (p KPk); [apply W|exact L48]. Qed.
  Lemma LbS (p : prog) : len (bS p) = 64. Proof. unfold bS. destruct (p KSig); [apply W|exact L80]. Qed.

  Ltac lens := rewrite ?len_app, ?Lb0, ?LbK, ?LbC, ?LbI, ?LbP, ?LbS, ?len_le16, ?len_le32, ?len_le64; change (len [0; 0]) with 2; try lia.

  (* marking one key leaves the pieces of the other keys alone *)
  Ltac pieces := unfold buf, b0, bK, bC, bI, bP, bS, bT, written, mark; cbn [ekey_eqb].

  (* one member, whichever it is *)
  Lemma step k (p : prog) st K : p k = false -> Inv p st -> efollows K ->
    exists st', event_member st (mbody k K) = Ok (st', K) /\ Inv (mark p k) st'.
  Proof.
    intros Hk (Eo & Ec & Et & Es) HK.
    pose proof W as (Wid & Lid & Wpk & Lpk & Wsg & Lsg & Hkd & Hcr & Vt & Ft & Vc & Hsz).
    pose proof HK as [ch [rest [EK _]]].
    destruct k; cbn [mbody].
    - (* id *)
      destruct (BB_id (p KPk) (p KSig) (p KCreated) (p KKind) (p KContent) (p KTags)) as [Hb Hsb].
      eexists. split.
      + rewrite EK. apply (em_id st (b0 p ++ bK p ++ [0; 0] ++ bC p) x16 (bP p ++ bS p ++ bT p) (e_id e) ch rest Wid Lid).
        * rewrite Ec. unfold bits. rewrite Hk. exact Hb.
        * rewrite Eo. unfold buf. unfold bI. rewrite Hk. rewrite <- !app_assoc. reflexivity.
        * lens.
        * exact L16.
      + refine (conj _ (conj _ (conj _ _))); cbn [ev_out ev_complete ev_tags_size ev_content_start].
        * pieces. rewrite <- !app_assoc. reflexivity.
        * rewrite Ec. unfold bits, mark. cbn [ekey_eqb]. rewrite Hk. exact Hsb.
        * exact Et.
        * exact Es.
    - (* pubkey *)
      destruct (BB_pk (p KId) (p KSig) (p KCreated) (p KKind) (p KContent) (p KTags)) as [Hb Hsb].
      eexists. split.
      + rewrite EK. apply (em_pubkey st (b0 p ++ bK p ++ [0; 0] ++ bC p ++ bI p) x48 (bS p ++ bT p) (e_pk e) ch rest Wpk Lpk).
        * rewrite Ec. unfold bits. rewrite Hk. exact Hb.
        * rewrite Eo. unfold buf. unfold bP. rewrite Hk. rewrite <- !app_assoc. reflexivity.
        * lens.
        * exact L48.
      + refine (conj _ (conj _ (conj _ _))); cbn [ev_out ev_complete ev_tags_size ev_content_start].
        * pieces. rewrite <- !app_assoc. reflexivity.
        * rewrite Ec. unfold bits, mark. cbn [ekey_eqb]. rewrite Hk. exact Hsb.
        * exact Et.
        * exact Es.
    - (* sig *)
      destruct (BB_sig (p KId) (p KPk) (p KCreated) (p KKind) (p KContent) (p KTags)) as [Hb Hsb].
      eexists. split.
      + rewrite EK. apply (em_sig st (b0 p ++ bK p ++ [0; 0] ++ bC p ++ bI p ++ bP p) x80 (bT p) (e_sig e) ch rest Wsg Lsg).
        * rewrite Ec. unfold bits. rewrite Hk. exact Hb.
        * rewrite Eo. unfold buf. unfold bS. rewrite Hk. rewrite <- !app_assoc. reflexivity.
        * lens.
        * exact L80.
      + refine (conj _ (conj _ (conj _ _))); cbn [ev_out ev_complete ev_tags_size ev_content_start].
        * pieces. rewrite <- !app_assoc. reflexivity.
        * rewrite Ec. unfold bits, mark. cbn [ekey_eqb]. rewrite Hk. exact Hsb.
        * exact Et.
        * exact Es.
    - (* kind *)
      destruct (BB_kind (p KId) (p KPk) (p KSig) (p KCreated) (p KContent) (p KTags)) as [Hb Hsb].
      eexists. split.
      + apply (em_kind_f st (b0 p) x4 ([0; 0] ++ bC p ++ bI p ++ bP p ++ bS p ++ bT p) (e_kind e) K Hkd HK).
        * rewrite Ec. unfold bits. rewrite Hk. exact Hb.
        * rewrite Eo. unfold buf. unfold bK. rewrite Hk. reflexivity.
        * lens.
        * exact L4.
      + refine (conj _ (conj _ (conj _ _))); cbn [ev_out ev_complete ev_tags_size ev_content_start].
        * pieces. reflexivity.
        * rewrite Ec. unfold bits, mark. cbn [ekey_eqb]. rewrite Hk. exact Hsb.
        * exact Et.
        * exact Es.
    - (* created_at *)
      destruct (BB_created (p KId) (p KPk) (p KSig) (p KKind) (p KContent) (p KTags)) as [Hb Hsb].
      eexists. split.
      + apply (em_created_f st (b0 p ++ bK p ++ [0; 0]) x8 (bI p ++ bP p ++ bS p ++ bT p) (e_created e) K Hcr HK).
        * rewrite Ec. unfold bits. rewrite Hk. exact Hb.
        * rewrite Eo. unfold buf. unfold bC. rewrite Hk. rewrite <- !app_assoc. reflexivity.
        * lens.
        * exact L8.
      + refine (conj _ (conj _ (conj _ _))); cbn [ev_out ev_complete ev_tags_size ev_content_start].
        * pieces. rewrite <- !app_assoc. reflexivity.
        * rewrite Ec. unfold bits, mark. cbn [ekey_eqb]. rewrite Hk. exact Hsb.
        * exact Et.
        * exact Es.
    - (* tags *)
      destruct (BB_tags (p KId) (p KPk) (p KSig) (p KCreated) (p KKind) (p KContent)) as (Hb & Hs1 & Hs2).
      specialize (Es Hk). rewrite Hk in Et.
      assert (Ew : written p = false) by (unfold written; rewrite Hk; apply andb_false_r).
      destruct (p KContent) eqn:Ex.
      + (* the content came first *)
        destruct Es as [rest0 Hcs].
        eexists. split.
        * apply (em_tags_late st x0 (bK p ++ [0; 0] ++ bC p ++ bI p ++ bP p ++ bS p) F (e_tags e) T s cj rest0 K HT Ft Hcj).
          -- exact Hcap.
          -- rewrite Ec. unfold bits. rewrite Hk, Ex. exact Hb.
          -- rewrite Eo. unfold buf. unfold b0, bT. rewrite Ew, Hk. rewrite <- !app_assoc. reflexivity.
          -- exact L0.
          -- lens; rewrite ?L0; lia.
          -- exact Hcs.
        * refine (conj _ (conj _ (conj _ _))); cbn [ev_out ev_complete ev_tags_size ev_content_start].
          -- pieces. rewrite Ex. cbn [andb]. rewrite <- !app_assoc. reflexivity.
          -- rewrite Ec. unfold bits, mark. cbn [ekey_eqb]. rewrite Hk, Ex. exact Hs2.
          -- unfold mark. cbn [ekey_eqb]. reflexivity.
          -- unfold mark. cbn [ekey_eqb]. discriminate.
      + eexists. split.
        * apply (em_tags_T st (b0 p ++ bK p ++ [0; 0] ++ bC p ++ bI p ++ bP p ++ bS p) F (e_tags e) T K HT ltac:(lia) Ft).
          -- rewrite Ec. unfold bits. rewrite Hk, Ex. exact Hb.
          -- rewrite Eo. unfold buf. unfold bT. rewrite Hk. rewrite <- !app_assoc. reflexivity.
          -- lens.
          -- exact Es.
        * refine (conj _ (conj _ (conj _ _))); cbn [ev_out ev_complete ev_tags_size ev_content_start].
          -- pieces. rewrite Ex. cbn [andb]. rewrite <- !app_assoc. reflexivity.
          -- rewrite Ec. unfold bits, mark. cbn [ekey_eqb]. rewrite Hk, Ex. exact Hs1.
          -- unfold mark. cbn [ekey_eqb]. reflexivity.
          -- unfold mark. cbn [ekey_eqb]. discriminate.
    - (* content *)
      destruct (BB_content (p KId) (p KPk) (p KSig) (p KCreated) (p KKind) (p KTags)) as (Hb & Hs1 & Hs2).
      assert (Ew : written p = false) by (unfold written; rewrite Hk; reflexivity).
      destruct (p KTags) eqn:Ett.
      + (* the tags are in place *)
        eexists. split.
        * apply (em_content st s cj x0 (bK p ++ [0; 0] ++ bC p ++ bI p ++ bP p ++ bS p ++ enc_tags (e_tags e)) (drop tsz F) K Hcj L0).
          -- rewrite Et. lens; rewrite ?L0, ?len_enc_tags; unfold tsz, s; lia.
          -- rewrite len_drop. unfold tsz, s. lia.
          -- rewrite Et. unfold tsz, s. pose proof (tags_size_ge4 (e_tags e)). lia.
          -- rewrite Ec. unfold bits. rewrite Hk, Ett. exact Hb.
          -- rewrite Eo. unfold buf. unfold b0, bT. rewrite Ew, Ett. rewrite <- !app_assoc. reflexivity.
        * refine (conj _ (conj _ (conj _ _))); cbn [ev_out ev_complete ev_tags_size ev_content_start].
          -- pieces. rewrite Ett. cbn [andb]. rewrite Et. fold total. rewrite <- !app_assoc. reflexivity.
          -- rewrite Ec. unfold bits, mark. cbn [ekey_eqb]. rewrite Hk, Ett. exact Hs1.
          -- unfold mark. cbn [ekey_eqb]. rewrite Ett. exact Et.
          -- unfold mark. cbn [ekey_eqb]. rewrite Ett. discriminate.
      + (* the tags are still to come: remember where the content starts *)
        eexists. split.
        * apply (em_content_early st s cj K Hcj).
          -- rewrite Et. reflexivity.
          -- rewrite Ec. unfold bits. rewrite Hk, Ett. exact Hb.
        * refine (conj _ (conj _ (conj _ _))); cbn [ev_out ev_complete ev_tags_size ev_content_start].
          -- rewrite Eo. pieces. rewrite Ett, Hk. reflexivity.
          -- rewrite Ec. unfold bits, mark. cbn [ekey_eqb]. rewrite Hk, Ett. symmetry. exact Hs2.
          -- unfold mark. cbn [ekey_eqb]. rewrite Ett. exact Et.
          -- unfold mark. cbn [ekey_eqb]. intros _. exists K. reflexivity.
  Qed.

  (* ---------- the member loop over any list of distinct members ---------- *)
  Fixpoint mclose (ms : list ekey) (tail : bytes) : bytes :=
    match ms with [] => 125 :: tail | k :: r => 44 :: 34 :: mbody k (mclose r tail) end.
  Lemma mclose_follows ms tail : efollows (mclose ms tail).
  Proof. destruct ms; cbn [mclose]; eexists _, _; split; try reflexivity; auto. Qed.

  Lemma fold_mark k' ms : forall p : prog, fold_left mark ms p k' = p k' || existsb (ekey_eqb k') ms.
  Proof.
    induction ms as [|k r IH]; intros p; cbn [fold_left existsb]; [rewrite orb_false_r; reflexivity|].
    rewrite IH. unfold mark. destruct (ekey_eqb k k') eqn:E.
    - apply ekey_eqb_eq in E. subst k'. replace (ekey_eqb k k) with true by (symmetry; apply ekey_eqb_eq; reflexivity). rewrite orb_true_r. reflexivity.
    - replace (ekey_eqb k' k) with false; [reflexivity|]. symmetry. destruct (ekey_eqb k' k) eqn:E'; [|reflexivity].
      apply ekey_eqb_eq in E'. subst k'. assert (ekey_eqb k k = true) by (apply ekey_eqb_eq; reflexivity). congruence.
  Qed.

  Lemma loop r : forall k (p : prog) st fuel tail, NoDup (k :: r) -> (forall k', In k' (k :: r) -> p k' = false) -> Inv p st ->
    exists st', event_members (Datatypes.S (length r) + fuel) st (34 :: mbody k (mclose r tail)) = Ok (st', tail) /\
                Inv (fold_left mark (k :: r) p) st'.
  Proof.
    induction r as [|k2 r IH]; intros k p st fuel tail Hnd Hp Hi.
    - destruct (step k p st (mclose [] tail) (Hp k (or_introl eq_refl)) Hi (mclose_follows [] tail)) as [st1 [Hm Hi1]].
      exists st1. split; [|exact Hi1]. cbn [length plus event_members].
      rewrite (eat_ws_nonws 34) by reflexivity. cbn [verify_char]. change (34 =? 34) with true. cbv iota. cbn [bind].
      rewrite Hm. cbn [bind mclose]. rewrite next_field_close. reflexivity.
    - destruct (step k p st (mclose (k2 :: r) tail) (Hp k (or_introl eq_refl)) Hi (mclose_follows _ tail)) as [st1 [Hm Hi1]].
      apply NoDup_cons_iff in Hnd. destruct Hnd as [Hk Hndr].
      destruct (IH k2 (mark p k) st1 fuel tail Hndr) as [st' [Hl Hi']]; [|exact Hi1|].
      + intros k' Hin. unfold mark. destruct (ekey_eqb k k') eqn:E; [|apply Hp; right; exact Hin].
        apply ekey_eqb_eq in E. subst k'. exfalso. exact (Hk Hin).
      + exists st'. split; [|exact Hi']. cbn [length plus event_members].
        rewrite (eat_ws_nonws 34) by reflexivity. cbn [verify_char]. change (34 =? 34) with true. cbv iota. cbn [bind].
        rewrite Hm. cbn [bind]. cbn [mclose]. rewrite next_field_comma. cbn [bind]. exact Hl.
  Qed.

  Lemma buf_full (p : prog) : (forall k, p k = true) ->
    buf p = le32 total ++ le16 (e_kind e) ++ [0; 0] ++ le64 (e_created e) ++ e_id e ++ e_pk e ++ e_sig e ++
            enc_tags (e_tags e) ++ le32 (len s) ++ s ++ drop (4 + len s) (drop tsz F) /\ bits p = 127.
  Proof.
    intros H. unfold buf, b0, bK, bC, bI, bP, bS, bT, written, bits. rewrite !H. cbn [andb]. split; [|reflexivity].
    rewrite <- ?app_assoc. reflexivity.
  Qed.

  Lemma Inv_init : Inv (fun _ => false) (mkEv (x0 ++ x4 ++ [0; 0] ++ x8 ++ x16 ++ x48 ++ x80 ++ F) 0 0 None).
  Proof. unfold Inv. cbn [ev_out ev_complete ev_tags_size ev_content_start]. repeat split. Qed.

  (* all seven members, in any order *)
  Lemma members_any_order k r fuel tail : NoDup (k :: r) -> (forall k', In k' (k :: r)) ->
    exists st', event_members (Datatypes.S (length r) + fuel) (mkEv (x0 ++ x4 ++ [0; 0] ++ x8 ++ x16 ++ x48 ++ x80 ++ F) 0 0 None)
                  (34 :: mbody k (mclose r tail)) = Ok (st', tail) /\
      ev_complete st' = 127 /\
      ev_out st' = le32 total ++ le16 (e_kind e) ++ [0; 0] ++ le64 (e_created e) ++ e_id e ++ e_pk e ++ e_sig e ++
                   enc_tags (e_tags e) ++ le32 (len s) ++ s ++ drop (4 + len s) (drop tsz F).
  Proof.
    intros Hnd Hall. destruct (loop r k (fun _ => false) _ fuel tail Hnd (fun _ _ => eq_refl) Inv_init) as [st' [Hl (Eo & Ec & _)]].
    exists st'. split; [exact Hl|].
    destruct (buf_full (fold_left mark (k :: r) (fun _ => false))) as [Hb Hbits].
    { intros k'. rewrite fold_mark. cbn [orb]. apply existsb_exists. exists k'. split; [apply Hall|apply ekey_eqb_eq; reflexivity]. }
    rewrite Ec, Eo. split; assumption.
  Qed.

  (* ---------- the same with unknown members anywhere between the known ones ---------- *)
  Inductive emem := EK (k : ekey) | EU (key : bytes) (v : jtree).
  Definition embody (m : emem) (K : bytes) : bytes :=
    match m with EK k => mbody k K | EU key v => key ++ 34 :: 58 :: jtext v ++ K end.
  (* a key the parser does not know: skippable as a string, and none of the seven names *)
  Definition unknown_key (key : bytes) : Prop :=
    skippable_str key /\ forall rest,
      starts_with k_id (key ++ 34 :: rest) = false /\ starts_with k_sig (key ++ 34 :: rest) = false /\
      starts_with k_kind (key ++ 34 :: rest) = false /\ starts_with k_tags (key ++ 34 :: rest) = false /\
      starts_with k_pubkey (key ++ 34 :: rest) = false /\ starts_with k_content (key ++ 34 :: rest) = false /\
      starts_with k_created_at (key ++ 34 :: rest) = false.
  Definition emem_ok (m : emem) : Prop :=
    match m with EK _ => True | EU key v => unknown_key key /\ jwf v /\ jdepth v <= 128 end.
  Fixpoint known (ms : list emem) : list ekey :=
    match ms with [] => [] | EK k :: r => k :: known r | EU _ _ :: r => known r end.
  Fixpoint uclose (ms : list emem) (tail : bytes) : bytes :=
    match ms with [] => 125 :: tail | m :: r => 44 :: 34 :: embody m (uclose r tail) end.
  Lemma uclose_follows ms tail : efollows (uclose ms tail).
  Proof. destruct ms; cbn [uclose]; eexists _, _; split; try reflexivity; auto. Qed.

  Lemma step_unknown st key v K : unknown_key key -> jwf v -> jdepth v <= 128 -> efollows K ->
    event_member st (key ++ 34 :: 58 :: jtext v ++ K) = Ok (st, K).
  Proof.
    intros [Hk Hn] Hv Hd HK. unfold event_member.
    destruct (Hn (58 :: jtext v ++ K)) as (N1 & N2 & N3 & N4 & N5 & N6 & N7).
    rewrite N1, N2, N3, N4, N5, N6, N7.
    rewrite (burn_member_skips key v K Hk Hv Hd); [reflexivity|].
    destruct (efollows_nondigit K HK) as [c [r [-> [_ Hnc]]]]. eexists _, _; split; [reflexivity|exact Hnc].
  Qed.

  Lemma stepu m (p : prog) st K : emem_ok m -> (forall k, m = EK k -> p k = false) -> Inv p st -> efollows K ->
    exists st', event_member st (embody m K) = Ok (st', K) /\ Inv (fold_left mark (known [m]) p) st'.
  Proof.
    intros Hok Hp Hi HK. destruct m as [k|key v]; cbn [embody known fold_left].
    - apply step; [apply Hp; reflexivity|exact Hi|exact HK].
    - destruct Hok as (Hk & Hv & Hd). exists st. split; [apply step_unknown; assumption|exact Hi].
  Qed.

  Lemma known_app a b : known (a ++ b) = known a ++ known b.
  Proof. induction a as [|m r IH]; [reflexivity|]. destruct m; cbn [app known]; rewrite IH; reflexivity. Qed.

  Lemma loopu r : forall m (p : prog) st fuel tail, Forall emem_ok (m :: r) -> NoDup (known (m :: r)) ->
    (forall k', In k' (known (m :: r)) -> p k' = false) -> Inv p st ->
    exists st', event_members (Datatypes.S (length r) + fuel) st (34 :: embody m (uclose r tail)) = Ok (st', tail) /\
                Inv (fold_left mark (known (m :: r)) p) st'.
  Proof.
    induction r as [|m2 r IH]; intros m p st fuel tail Hok Hnd Hp Hi.
    - apply Forall_cons_iff in Hok. destruct Hok as [Hm _].
      destruct (stepu m p st (uclose [] tail) Hm) as [st1 [Hm1 Hi1]]; [|exact Hi|apply uclose_follows|].
      { intros k ->. apply Hp. left. reflexivity. }
      exists st1. split; [|exact Hi1]. cbn [length plus event_members].
      rewrite (eat_ws_nonws 34) by reflexivity. cbn [verify_char]. change (34 =? 34) with true. cbv iota. cbn [bind].
      rewrite Hm1. cbn [bind uclose]. rewrite next_field_close. reflexivity.
    - apply Forall_cons_iff in Hok. destruct Hok as [Hm Hokr].
      destruct (stepu m p st (uclose (m2 :: r) tail) Hm) as [st1 [Hm1 Hi1]]; [|exact Hi|apply uclose_follows|].
      { intros k ->. apply Hp. left. reflexivity. }
      assert (Hsplit : known (m :: m2 :: r) = known [m] ++ known (m2 :: r)) by (change (m :: m2 :: r) with ([m] ++ m2 :: r); apply known_app).
      rewrite Hsplit in Hnd, Hp. rewrite Hsplit, fold_left_app.
      destruct (IH m2 (fold_left mark (known [m]) p) st1 fuel tail Hokr) as [st' [Hl Hi']]; [| |exact Hi1|].
      + clear -Hnd. induction (known [m]) as [|a l IHl]; [exact Hnd|]. cbn [app] in Hnd. apply NoDup_cons_iff in Hnd. apply IHl. apply Hnd.
      + intros k' Hin. rewrite fold_mark. apply orb_false_iff. split; [apply Hp; apply in_or_app; right; exact Hin|].
        destruct (existsb (ekey_eqb k') (known [m])) eqn:Ex; [|reflexivity]. exfalso.
        apply existsb_exists in Ex. destruct Ex as [k0 [Hk0 Ek0]]. apply ekey_eqb_eq in Ek0. subst k0.
        clear -Hnd Hk0 Hin. induction (known [m]) as [|a l IHl]; [destruct Hk0|]. cbn [app] in Hnd. apply NoDup_cons_iff in Hnd. destruct Hnd as [Hna Hnd].
        destruct Hk0 as [->|Hk0]; [apply Hna; apply in_or_app; right; exact Hin|apply IHl; assumption].
      + exists st'. split; [|exact Hi']. cbn [length plus event_members].
        rewrite (eat_ws_nonws 34) by reflexivity. cbn [verify_char]. change (34 =? 34) with true. cbv iota. cbn [bind].
        rewrite Hm1. cbn [bind]. cbn [uclose]. rewrite next_field_comma. cbn [bind]. exact Hl.
  Qed.

  Lemma members_any_order_u m r fuel tail : Forall emem_ok (m :: r) -> NoDup (known (m :: r)) -> (forall k', In k' (known (m :: r))) ->
    exists st', event_members (Datatypes.S (length r) + fuel) (mkEv (x0 ++ x4 ++ [0; 0] ++ x8 ++ x16 ++ x48 ++ x80 ++ F) 0 0 None)
                  (34 :: embody m (uclose r tail)) = Ok (st', tail) /\
      ev_complete st' = 127 /\
      ev_out st' = le32 total ++ le16 (e_kind e) ++ [0; 0] ++ le64 (e_created e) ++ e_id e ++ e_pk e ++ e_sig e ++
                   enc_tags (e_tags e) ++ le32 (len s) ++ s ++ drop (4 + len s) (drop tsz F).
  Proof.
    intros Hok Hnd Hall. destruct (loopu r m (fun _ => false) _ fuel tail Hok Hnd (fun _ _ => eq_refl) Inv_init) as [st' [Hl (Eo & Ec & _)]].
    exists st'. split; [exact Hl|].
    destruct (buf_full (fold_left mark (known (m :: r)) (fun _ => false))) as [Hb Hbits].
    { intros k'. rewrite fold_mark. cbn [orb]. apply existsb_exists. exists k'. split; [apply Hall|apply ekey_eqb_eq; reflexivity]. }
    rewrite Ec, Eo. split; assumption.
  Qed.
  (* ---------- white space between the tokens of the object ---------- *)
  (* a member is  name" ws : ws value ; around it  ws " member ws , *)
  Definition kname (k : ekey) : bytes :=
    match k with
    | KId => [105; 100; 34] | KPk => [112; 117; 98; 107; 101; 121; 34] | KSig => [115; 105; 103; 34]
    | KKind => [107; 105; 110; 100; 34] | KCreated => [99; 114; 101; 97; 116; 101; 100; 95; 97; 116; 34]
    | KTags => [116; 97; 103; 115; 34] | KContent => [99; 111; 110; 116; 101; 110; 116; 34]
    end.
  Definition vtext (k : ekey) (K : bytes) : bytes :=
    match k with
    | KId => 34 :: write_hex (e_id e) ++ 34 :: K
    | KPk => 34 :: write_hex (e_pk e) ++ 34 :: K
    | KSig => 34 :: write_hex (e_sig e) ++ 34 :: K
    | KKind => dec (e_kind e) ++ K
    | KCreated => dec (e_created e) ++ K
    | KTags => 91 :: T K
    | KContent => 34 :: cj ++ 34 :: K
    end.
  Lemma mbody_split k K : mbody k K = kname k ++ 58 :: vtext k K.
  Proof. destruct k; reflexivity. Qed.

  Lemma dec_head n K : n < 10 ^ 25 -> exists c r, dec n ++ K = c :: r /\ is_ws c = false.
  Proof.
    intros P. destruct (dec_spec n P) as [Hd _]. pose proof (dec_nonempty n P) as Hne.
    destruct (dec n) as [|d ds]; [congruence|]. inversion Hd as [|? ? Hdd _]; subst.
    exists d, (ds ++ K). split; [reflexivity|]. unfold is_digit in Hdd. unfold is_ws. lia.
  Qed.
  Lemma vtext_head k K : exists c r, vtext k K = c :: r /\ is_ws c = false.
  Proof.
    pose proof W as (_ & _ & _ & _ & _ & _ & Hkd & Hcr & _).
    destruct k; cbn [vtext]; try (eexists _, _; split; reflexivity).
    - apply dec_head. assert (65536 < 10 ^ 25) by (vm_compute; reflexivity). lia.
    - apply dec_head. assert (18446744073709551616 < 10 ^ 25) by (vm_compute; reflexivity). lia.
  Qed.

  (* white space around the colon changes nothing *)
  Lemma member_ws k st wb wc K : wsb wb -> wsb wc ->
    event_member st (kname k ++ wb ++ 58 :: wc ++ vtext k K) = event_member st (mbody k K).
  Proof.
    intros Hb Hc. destruct (vtext_head k K) as [c [r [E Hnw]]]. rewrite mbody_split, E.
    assert (EL : eat_colon_ws (wb ++ 58 :: wc ++ c :: r) = Ok (c :: r)) by (apply eat_colon_ws_gen; assumption).
    assert (ER : eat_colon_ws (58 :: c :: r) = Ok (c :: r)) by (apply eat_colon_ws_lit; exact Hnw).
    set (XL := wb ++ 58 :: wc ++ c :: r) in *. set (XR := 58 :: c :: r) in *. clearbody XL XR.
    destruct k; unfold event_member;
      repeat match goal with |- context [starts_with ?kk (kname ?k0 ++ ?X)] =>
        first [ replace (starts_with kk (kname k0 ++ X)) with true by reflexivity
              | replace (starts_with kk (kname k0 ++ X)) with false by reflexivity ] end;
      cbv iota;
      repeat match goal with |- context [drop ?n (kname ?k0 ++ ?X)] =>
        replace (drop n (kname k0 ++ X)) with X by reflexivity end;
      rewrite EL, ER; reflexivity.
  Qed.

  Definition embody_ws (m : emem) (wb wc K : bytes) : bytes :=
    match m with
    | EK k => kname k ++ wb ++ 58 :: wc ++ vtext k K
    | EU key v => key ++ 34 :: wb ++ 58 :: wc ++ jtext v ++ K
    end.

  Lemma stepw m (p : prog) st wb wc K : emem_ok m -> wsb wb -> wsb wc -> (forall k, m = EK k -> p k = false) -> Inv p st -> efollows K ->
    exists st', event_member st (embody_ws m wb wc K) = Ok (st', K) /\ Inv (fold_left mark (known [m]) p) st'.
  Proof.
    intros Hok Hb Hc Hp Hi HK. destruct m as [k|key v]; cbn [embody_ws known fold_left].
    - rewrite member_ws by assumption. apply step; [apply Hp; reflexivity|exact Hi|exact HK].
    - destruct Hok as ([Hk Hn] & Hv & Hd). exists st. split; [|exact Hi]. unfold event_member.
      destruct (Hn (wb ++ 58 :: wc ++ jtext v ++ K)) as (N1 & N2 & N3 & N4 & N5 & N6 & N7).
      rewrite N1, N2, N3, N4, N5, N6, N7.
      rewrite (burn_member_skips_ws key wb wc v K Hk Hb Hc Hv Hd); [reflexivity|].
      destruct (efollows_nondigit K HK) as [c [r [-> [_ Hnc]]]]. eexists _, _; split; [reflexivity|exact Hnc].
  Qed.

  (* a member with its four runs of white space: before its opening quote, before the colon, after the colon,
     after the value *)
  Record wm := mkWm { wm_m : emem; wm_a : bytes; wm_b : bytes; wm_c : bytes; wm_d : bytes }.
  Definition wm_ok (x : wm) : Prop := emem_ok (wm_m x) /\ wsb (wm_a x) /\ wsb (wm_b x) /\ wsb (wm_c x) /\ wsb (wm_d x).
  Fixpoint wclose (ms : list wm) (tail : bytes) : bytes :=
    match ms with
    | [] => 125 :: tail
    | x :: r => 44 :: wm_a x ++ 34 :: embody_ws (wm_m x) (wm_b x) (wm_c x) (wm_d x ++ wclose r tail)
    end.
  Lemma wclose_head ms tail : exists c r, wclose ms tail = c :: r /\ (c = 44 \/ c = 125).
  Proof. destruct ms; cbn [wclose]; eexists _, _; split; try reflexivity; auto. Qed.
  Lemma wfollows d ms tail : wsb d -> efollows (d ++ wclose ms tail).
  Proof.
    intros Hd. destruct Hd as [|c d Hc _]; cbn [app].
    - destruct (wclose_head ms tail) as [c [r [-> Hc]]]. exists c, r. split; [reflexivity|]. destruct Hc; auto.
    - eexists _, _. split; [reflexivity|]. auto.
  Qed.
  Lemma next_field_ws d c r : wsb d -> c = 44 \/ c = 125 ->
    next_object_field (d ++ c :: r) = Ok (if c =? 125 then true else false, r).
  Proof.
    intros Hd Hc. unfold next_object_field. rewrite eat_ws_app; [|exact Hd|destruct Hc as [->| ->]; reflexivity].
    destruct Hc as [->| ->]; reflexivity.
  Qed.

  Lemma loopw r : forall x (p : prog) st fuel tail, Forall wm_ok (x :: r) -> NoDup (known (map wm_m (x :: r))) ->
    (forall k', In k' (known (map wm_m (x :: r))) -> p k' = false) -> Inv p st ->
    exists st', event_members (Datatypes.S (length r) + fuel) st
                  (wm_a x ++ 34 :: embody_ws (wm_m x) (wm_b x) (wm_c x) (wm_d x ++ wclose r tail)) = Ok (st', tail) /\
                Inv (fold_left mark (known (map wm_m (x :: r))) p) st'.
  Proof.
    induction r as [|x2 r IH]; intros x p st fuel tail Hok Hnd Hp Hi.
    - apply Forall_cons_iff in Hok. destruct Hok as [(Hm & Ha & Hb & Hc & Hd) _].
      destruct (stepw (wm_m x) p st (wm_b x) (wm_c x) (wm_d x ++ wclose [] tail) Hm Hb Hc) as [st1 [Hm1 Hi1]];
        [|exact Hi|apply wfollows; exact Hd|].
      { intros k E. apply Hp. cbn [map known]. rewrite E. left. reflexivity. }
      exists st1. split; [|exact Hi1]. cbn [length plus event_members].
      rewrite (eat_ws_app (wm_a x) 34) by (try assumption; reflexivity). cbn [verify_char]. change (34 =? 34) with true. cbv iota. cbn [bind].
      rewrite Hm1. cbn [bind wclose]. rewrite (next_field_ws (wm_d x) 125) by auto. reflexivity.
    - apply Forall_cons_iff in Hok. destruct Hok as [(Hm & Ha & Hb & Hc & Hd) Hokr].
      destruct (stepw (wm_m x) p st (wm_b x) (wm_c x) (wm_d x ++ wclose (x2 :: r) tail) Hm Hb Hc) as [st1 [Hm1 Hi1]];
        [|exact Hi|apply wfollows; exact Hd|].
      { intros k E. apply Hp. cbn [map known]. rewrite E. left. reflexivity. }
      assert (Hsplit : known (map wm_m (x :: x2 :: r)) = known [wm_m x] ++ known (map wm_m (x2 :: r))).
      { change (map wm_m (x :: x2 :: r)) with ([wm_m x] ++ map wm_m (x2 :: r)). apply known_app. }
      rewrite Hsplit in Hnd, Hp. rewrite Hsplit, fold_left_app.
      destruct (IH x2 (fold_left mark (known [wm_m x]) p) st1 fuel tail Hokr) as [st' [Hl Hi']]; [| |exact Hi1|].
      + clear -Hnd. induction (known [wm_m x]) as [|a l IHl]; [exact Hnd|]. cbn [app] in Hnd. apply NoDup_cons_iff in Hnd. apply IHl. apply Hnd.
      + intros k' Hin. rewrite fold_mark. apply orb_false_iff. split; [apply Hp; apply in_or_app; right; exact Hin|].
        destruct (existsb (ekey_eqb k') (known [wm_m x])) eqn:Ex; [|reflexivity]. exfalso.
        apply existsb_exists in Ex. destruct Ex as [k0 [Hk0 Ek0]]. apply ekey_eqb_eq in Ek0. subst k0.
        clear -Hnd Hk0 Hin. induction (known [wm_m x]) as [|a l IHl]; [destruct Hk0|]. cbn [app] in Hnd. apply NoDup_cons_iff in Hnd. destruct Hnd as [Hna Hnd].
        destruct Hk0 as [->|Hk0]; [apply Hna; apply in_or_app; right; exact Hin|apply IHl; assumption].
      + exists st'. split; [|exact Hi']. cbn [length plus event_members].
        rewrite (eat_ws_app (wm_a x) 34) by (try assumption; reflexivity). cbn [verify_char]. change (34 =? 34) with true. cbv iota. cbn [bind].
        rewrite Hm1. cbn [bind]. cbn [wclose]. rewrite (next_field_ws (wm_d x) 44) by auto. cbn [bind]. exact Hl.
  Qed.

  Lemma members_any_order_w x r fuel tail : Forall wm_ok (x :: r) -> NoDup (known (map wm_m (x :: r))) ->
    (forall k', In k' (known (map wm_m (x :: r)))) ->
    exists st', event_members (Datatypes.S (length r) + fuel) (mkEv (x0 ++ x4 ++ [0; 0] ++ x8 ++ x16 ++ x48 ++ x80 ++ F) 0 0 None)
                  (wm_a x ++ 34 :: embody_ws (wm_m x) (wm_b x) (wm_c x) (wm_d x ++ wclose r tail)) = Ok (st', tail) /\
      ev_complete st' = 127 /\
      ev_out st' = le32 total ++ le16 (e_kind e) ++ [0; 0] ++ le64 (e_created e) ++ e_id e ++ e_pk e ++ e_sig e ++
                   enc_tags (e_tags e) ++ le32 (len s) ++ s ++ drop (4 + len s) (drop tsz F).
  Proof.
    intros Hok Hnd Hall. destruct (loopw r x (fun _ => false) _ fuel tail Hok Hnd (fun _ _ => eq_refl) Inv_init) as [st' [Hl (Eo & Ec & _)]].
    exists st'. split; [exact Hl|].
    destruct (buf_full (fold_left mark (known (map wm_m (x :: r))) (fun _ => false))) as [Hb Hbits].
    { intros k'. rewrite fold_mark. cbn [orb]. apply existsb_exists. exists k'. split; [apply Hall|apply ekey_eqb_eq; reflexivity]. }
    rewrite Ec, Eo. split; assumption.
  Qed.
End Any.

(* ====================== the theorem, in terms of what as_json writes ====================== *)
(* a member after its opening quote: [tj] is Tags::as_json's text of the tags, [cj] json_escape's of the content *)
Definition jmember (e : aevent) (tj cj : bytes) (k : ekey) (K : bytes) : bytes :=
  match k with
  | KId => 105 :: 100 :: 34 :: 58 :: 34 :: write_hex (e_id e) ++ 34 :: K
  | KPk => 112 :: 117 :: 98 :: 107 :: 101 :: 121 :: 34 :: 58 :: 34 :: write_hex (e_pk e) ++ 34 :: K
  | KSig => 115 :: 105 :: 103 :: 34 :: 58 :: 34 :: write_hex (e_sig e) ++ 34 :: K
  | KKind => 107 :: 105 :: 110 :: 100 :: 34 :: 58 :: dec (e_kind e) ++ K
  | KCreated => 99 :: 114 :: 101 :: 97 :: 116 :: 101 :: 100 :: 95 :: 97 :: 116 :: 34 :: 58 :: dec (e_created e) ++ K
  | KTags => 116 :: 97 :: 103 :: 115 :: 34 :: 58 :: tj ++ K
  | KContent => 99 :: 111 :: 110 :: 116 :: 101 :: 110 :: 116 :: 34 :: 58 :: 34 :: cj ++ 34 :: K
  end.
Fixpoint jclose (e : aevent) (tj cj : bytes) (ms : list ekey) (tail : bytes) : bytes :=
  match ms with [] => 125 :: tail | k :: r => 44 :: 34 :: jmember e tj cj k (jclose e tj cj r tail) end.
(* the object: an opening brace, the members separated by commas, a closing brace, then anything *)
Definition event_text (e : aevent) (tj cj : bytes) (ms : list ekey) (tail : bytes) : bytes :=
  match ms with [] => 123 :: 125 :: tail | k :: r => 123 :: 34 :: jmember e tj cj k (jclose e tj cj r tail) end.

Definition all_keys : list ekey := [KId; KPk; KSig; KKind; KCreated; KTags; KContent].
(* the hex fields alone make the text long enough *)
Definition kw (k : ekey) : nat := match k with KId | KPk => 64 | KSig => 128 | _ => 0 end.

Lemma list_sum_perm l l' : Permutation l l' -> list_sum l = list_sum l'.
Proof. induction 1 as [|x l1 l2 _ IH|x y l1|l1 l2 l3 _ IH1 _ IH2]; unfold list_sum in *; cbn [fold_right] in *; lia. Qed.

Lemma length_write_hex bs : length (write_hex bs) = (2 * length bs)%nat.
Proof. apply Nat2N.inj. rewrite Nat2N.inj_mul. exact (len_write_hex bs). Qed.

Section Text.
  Variable e : aevent.
  Variables tj cj : bytes.
  Variable tes : list (list bytes).
  Hypothesis Htxt : forall K, tj ++ K = 91 :: tags_body tes K.
  Hypothesis Lid : len (e_id e) = 32.
  Hypothesis Lpk : len (e_pk e) = 32.
  Hypothesis Lsg : len (e_sig e) = 64.

  Lemma jmember_mbody k K : jmember e tj cj k K = mbody e (tags_body tes) cj k K.
  Proof. destruct k; cbn [jmember mbody]; try reflexivity. rewrite Htxt. reflexivity. Qed.
  Lemma jclose_mclose ms tail : jclose e tj cj ms tail = mclose e (tags_body tes) cj ms tail.
  Proof. induction ms as [|k r IH]; cbn [jclose mclose]; [reflexivity|]. rewrite IH, jmember_mbody. reflexivity. Qed.

  Lemma jmember_length k K : (kw k + length K <= length (jmember e tj cj k K))%nat.
  Proof.
    assert (A : length (e_id e) = 32%nat) by (unfold len in Lid; lia).
    assert (B : length (e_pk e) = 32%nat) by (unfold len in Lpk; lia).
    assert (C : length (e_sig e) = 64%nat) by (unfold len in Lsg; lia).
    destruct k; cbn [jmember kw length]; rewrite ?app_length, ?length_write_hex; cbn [length]; lia.
  Qed.
  Lemma jclose_length ms tail : (list_sum (map kw ms) <= length (jclose e tj cj ms tail))%nat.
  Proof.
    unfold list_sum. induction ms as [|k r IH]; cbn [jclose map fold_right length]; [lia|].
    pose proof (jmember_length k (jclose e tj cj r tail)). lia.
  Qed.
End Text.

Theorem event_any_order e tj cj ms tail out :
  wf_event_json e -> tags_as_json (e_tags e) = Ok tj -> json_escape (e_content e) = Ok cj ->
  NoDup ms -> (forall k, In k ms) -> event_size e <= len out ->
  event_from_json (event_text e tj cj ms tail) out
  = Ok (len (event_text e tj cj ms tail) - len tail, enc_event e, enc_event e ++ drop (event_size e) out).
Proof.
  intros W Htj Hcj Hnd Hall Hcap.
  pose proof W as (Wid & Lid & Wpk & Lpk & Wsg & Lsg & Hk & Hc & Vt & Ft & Vc & Hsz).
  destruct (tags_as_json_text (e_tags e) Vt) as [tes [H2 Htxt0]].
  assert (Htxt : forall K, tj ++ K = 91 :: tags_body tes K).
  { intros K. destruct (Htxt0 K) as [tj' [E1 E2]]. assert (tj' = tj) by congruence. subst tj'. exact E2. }
  pose proof (tags_size_ge4 (e_tags e)) as Hts4. unfold event_size in Hcap, Hsz.
  assert (Hperm : Permutation ms all_keys).
  { apply NoDup_Permutation; [exact Hnd|repeat constructor; cbn; intuition discriminate|].
    intros k. split; [intros _; destruct k; cbn; auto 8|intros _; apply Hall]. }
  destruct ms as [|k r]; [exfalso; exact (Hall KId)|].
  set (txt := event_text e tj cj (k :: r) tail).
  (* the text is long *)
  assert (Hlen : (256 + length tail <= length txt)%nat /\ length r = 6%nat).
  { split.
    - subst txt. cbn [event_text length].
      pose proof (jmember_length e tj cj tes Htxt Lid Lpk Lsg k (jclose e tj cj r tail)) as H1.
      assert (H2' : (list_sum (map kw r) + length tail <= length (jclose e tj cj r tail))%nat).
      { clear -Lid Lpk Lsg Htxt. unfold list_sum. induction r as [|k r IH]; cbn [jclose map fold_right length]; [lia|].
        assert (length (jclose e tj cj r tail) <= length (jmember e tj cj k (jclose e tj cj r tail)))%nat
          by (destruct k; cbn [jmember length]; rewrite ?app_length; cbn [length]; lia).
        pose proof (jmember_length e tj cj tes Htxt Lid Lpk Lsg k (jclose e tj cj r tail)). lia. }
      pose proof (list_sum_perm _ _ (Permutation_map kw Hperm)) as Hs. unfold list_sum in *. cbn [map fold_right all_keys kw] in Hs. lia.
    - pose proof (Permutation_length Hperm) as Hl. cbn [length all_keys] in Hl. lia. }
  destruct Hlen as [Hlen Hr6].
  destruct (split_blocks out ltac:(lia)) as (x0 & x4 & x6 & x8 & x16 & x48 & x80 & F & Eout & L0 & L4 & L6 & L8 & L16 & L48 & L80 & EF).
  assert (LF : len F = len out - 144) by (rewrite EF; apply len_drop).
  unfold event_from_json, parse_json_event.
  replace (len txt <? 204) with false by (symmetry; apply N.ltb_ge; unfold len; lia).
  replace (len out <? 152) with false by (symmetry; apply N.ltb_ge; lia).
  rewrite Eout at 1.
  replace (x0 ++ x4 ++ x6 ++ x8 ++ x16 ++ x48 ++ x80 ++ F) with ((x0 ++ x4) ++ x6 ++ (x8 ++ x16 ++ x48 ++ x80 ++ F)) by (rewrite <- !app_assoc; reflexivity).
  rewrite (put_raw_at (x0 ++ x4) x6 [0; 0] _ 6) by (rewrite ?len_app; change (len [0; 0]) with 2; lia). cbn [bind].
  replace ((x0 ++ x4) ++ [0; 0] ++ x8 ++ x16 ++ x48 ++ x80 ++ F) with (x0 ++ x4 ++ [0; 0] ++ x8 ++ x16 ++ x48 ++ x80 ++ F) by (rewrite <- !app_assoc; reflexivity).
  assert (Etxt : txt = 123 :: 34 :: mbody e (tags_body tes) cj k (mclose e (tags_body tes) cj r tail)).
  { subst txt. cbn [event_text]. rewrite (jmember_mbody e tj cj tes Htxt), (jclose_mclose e tj cj tes Htxt). reflexivity. }
  rewrite Etxt at 1. rewrite (eat_ws_nonws 123) by reflexivity. cbn [verify_char]. change (123 =? 123) with true. cbv iota. cbn [bind].
  destruct (members_any_order e (tags_body tes) cj W (tagsd_plain _ _ H2) (escd0_escd _ _ (conj Vc Hcj)) x0 x4 x8 x16 x48 x80 F L0 L4 L8 L16 L48 L80 ltac:(lia) k r (length txt - 6) tail Hnd (fun k' => Hall k'))
    as [st' [Hl [Ec Eo]]].
  replace (Datatypes.S (length txt)) with (Datatypes.S (length r) + (length txt - 6))%nat by lia.
  rewrite Hl. cbn [bind]. rewrite Ec. change (127 =? 127) with true. cbv iota. rewrite Eo.
  set (total := 144 + tags_size (e_tags e) + 4 + len (e_content e)).
  rewrite (rd32_le32 total) by (subst total; lia).
  assert (Eenc : le32 total ++ le16 (e_kind e) ++ [0; 0] ++ le64 (e_created e) ++ e_id e ++ e_pk e ++ e_sig e ++
                 enc_tags (e_tags e) ++ le32 (len (e_content e)) ++ e_content e ++ drop (4 + len (e_content e)) (drop (tags_size (e_tags e)) F)
                 = enc_event e ++ drop (event_size e) out).
  { replace (drop (4 + len (e_content e)) (drop (tags_size (e_tags e)) F)) with (drop (event_size e) out)
      by (rewrite EF, !drop_drop; f_equal; unfold event_size; lia).
    unfold enc_event. rewrite <- ?app_assoc. reflexivity. }
  rewrite Eenc.
  assert (Lenc : len (enc_event e ++ drop (event_size e) out) = len out).
  { rewrite len_app, len_drop. unfold enc_event. rewrite !len_app, len_le32, len_le16, len_le64, len_enc_tags, len_le32, Lid, Lpk, Lsg.
    change (len [0; 0]) with 2. unfold event_size. lia. }
  assert (Ltot : total = len (enc_event e)).
  { unfold enc_event. rewrite !len_app, len_le32, len_le16, len_le64, len_enc_tags, len_le32, Lid, Lpk, Lsg. change (len [0; 0]) with 2. subst total. lia. }
  rewrite Ltot. cbn [bind].
  replace (len (enc_event e ++ drop (event_size e) out) <? len (enc_event e)) with false by (symmetry; apply N.ltb_ge; rewrite Lenc, <- Ltot; subst total; lia).
  rewrite take_app_len. reflexivity.
Qed.

(* ====================== unknown members between the known ones ====================== *)
Definition jbody (e : aevent) (tj cj : bytes) (m : emem) (K : bytes) : bytes :=
  match m with EK k => jmember e tj cj k K | EU key v => key ++ 34 :: 58 :: jtext v ++ K end.
Fixpoint juclose (e : aevent) (tj cj : bytes) (ms : list emem) (tail : bytes) : bytes :=
  match ms with [] => 125 :: tail | m :: r => 44 :: 34 :: jbody e tj cj m (juclose e tj cj r tail) end.
Definition event_text_u (e : aevent) (tj cj : bytes) (ms : list emem) (tail : bytes) : bytes :=
  match ms with [] => 123 :: 125 :: tail | m :: r => 123 :: 34 :: jbody e tj cj m (juclose e tj cj r tail) end.
Definition kwm (m : emem) : nat := match m with EK k => kw k | EU _ _ => 0%nat end.

Lemma kwm_known ms : list_sum (map kw (known ms)) = list_sum (map kwm ms).
Proof. unfold list_sum. induction ms as [|m r IH]; [reflexivity|]. destruct m; cbn [known map fold_right kwm]; lia. Qed.

Section TextU.
  Variable e : aevent.
  Variables tj cj : bytes.
  Variable tes : list (list bytes).
  Hypothesis Htxt : forall K, tj ++ K = 91 :: tags_body tes K.
  Hypothesis Lid : len (e_id e) = 32.
  Hypothesis Lpk : len (e_pk e) = 32.
  Hypothesis Lsg : len (e_sig e) = 64.

  Lemma jbody_embody m K : jbody e tj cj m K = embody e (tags_body tes) cj m K.
  Proof. destruct m; cbn [jbody embody]; [apply (jmember_mbody e tj cj tes Htxt)|reflexivity]. Qed.
  Lemma juclose_uclose ms tail : juclose e tj cj ms tail = uclose e (tags_body tes) cj ms tail.
  Proof. induction ms as [|m r IH]; cbn [juclose uclose]; [reflexivity|]. rewrite IH, jbody_embody. reflexivity. Qed.
  Lemma jbody_length m K : (kwm m + length K <= length (jbody e tj cj m K))%nat.
  Proof.
    destruct m as [k|key v]; cbn [jbody kwm]; [apply (jmember_length e tj cj tes Htxt Lid Lpk Lsg)|].
    rewrite app_length. cbn [length]. rewrite app_length. lia.
  Qed.
  Lemma juclose_length ms tail : (list_sum (map kwm ms) + length tail <= length (juclose e tj cj ms tail))%nat /\
                                 (length ms <= length (juclose e tj cj ms tail))%nat.
  Proof.
    unfold list_sum. induction ms as [|m r [IH1 IH2]]; cbn [juclose map fold_right length]; [split; lia|].
    pose proof (jbody_length m (juclose e tj cj r tail)). split; lia.
  Qed.
End TextU.

Theorem event_any_order_unknown e tj cj ms tail out :
  wf_event_json e -> tags_as_json (e_tags e) = Ok tj -> json_escape (e_content e) = Ok cj ->
  Forall emem_ok ms -> NoDup (known ms) -> (forall k, In k (known ms)) -> event_size e <= len out ->
  event_from_json (event_text_u e tj cj ms tail) out
  = Ok (len (event_text_u e tj cj ms tail) - len tail, enc_event e, enc_event e ++ drop (event_size e) out).
Proof.
  intros W Htj Hcj Hok Hnd Hall Hcap.
  pose proof W as (Wid & Lid & Wpk & Lpk & Wsg & Lsg & Hk & Hc & Vt & Ft & Vc & Hsz).
  destruct (tags_as_json_text (e_tags e) Vt) as [tes [H2 Htxt0]].
  assert (Htxt : forall K, tj ++ K = 91 :: tags_body tes K).
  { intros K. destruct (Htxt0 K) as [tj' [E1 E2]]. assert (tj' = tj) by congruence. subst tj'. exact E2. }
  pose proof (tags_size_ge4 (e_tags e)) as Hts4. unfold event_size in Hcap, Hsz.
  assert (Hperm : Permutation (known ms) all_keys).
  { apply NoDup_Permutation; [exact Hnd|repeat constructor; cbn; intuition discriminate|].
    intros k. split; [intros _; destruct k; cbn; auto 8|intros _; apply Hall]. }
  destruct ms as [|k r]; [exfalso; exact (Hall KId)|].
  set (txt := event_text_u e tj cj (k :: r) tail).
  (* the text is long *)
  assert (Hlen : (256 + length tail <= length txt)%nat /\ (length r <= length txt)%nat).
  { subst txt. cbn [event_text_u length].
    pose proof (jbody_length e tj cj tes Htxt Lid Lpk Lsg k (juclose e tj cj r tail)) as H1.
    pose proof (juclose_length e tj cj tes Htxt Lid Lpk Lsg r tail) as [H2' H3'].
    pose proof (list_sum_perm _ _ (Permutation_map kw Hperm)) as Hs. unfold list_sum in *. cbn [map fold_right all_keys kw] in Hs.
    pose proof (kwm_known (k :: r)) as Hkk. unfold list_sum in Hkk. cbn [map fold_right] in Hkk. rewrite Hkk in Hs. lia. }
  destruct Hlen as [Hlen Hr6].
  destruct (split_blocks out ltac:(lia)) as (x0 & x4 & x6 & x8 & x16 & x48 & x80 & F & Eout & L0 & L4 & L6 & L8 & L16 & L48 & L80 & EF).
  assert (LF : len F = len out - 144) by (rewrite EF; apply len_drop).
  unfold event_from_json, parse_json_event.
  replace (len txt <? 204) with false by (symmetry; apply N.ltb_ge; unfold len; lia).
  replace (len out <? 152) with false by (symmetry; apply N.ltb_ge; lia).
  rewrite Eout at 1.
  replace (x0 ++ x4 ++ x6 ++ x8 ++ x16 ++ x48 ++ x80 ++ F) with ((x0 ++ x4) ++ x6 ++ (x8 ++ x16 ++ x48 ++ x80 ++ F)) by (rewrite <- !app_assoc; reflexivity).
  rewrite (put_raw_at (x0 ++ x4) x6 [0; 0] _ 6) by (rewrite ?len_app; change (len [0; 0]) with 2; lia). cbn [bind].
  replace ((x0 ++ x4) ++ [0; 0] ++ x8 ++ x16 ++ x48 ++ x80 ++ F) with (x0 ++ x4 ++ [0; 0] ++ x8 ++ x16 ++ x48 ++ x80 ++ F) by (rewrite <- !app_assoc; reflexivity).
  assert (Etxt : txt = 123 :: 34 :: embody e (tags_body tes) cj k (uclose e (tags_body tes) cj r tail)).
  { subst txt. cbn [event_text_u]. rewrite (jbody_embody e tj cj tes Htxt), (juclose_uclose e tj cj tes Htxt). reflexivity. }
  rewrite Etxt at 1. rewrite (eat_ws_nonws 123) by reflexivity. cbn [verify_char]. change (123 =? 123) with true. cbv iota. cbn [bind].
  destruct (members_any_order_u e (tags_body tes) cj W (tagsd_plain _ _ H2) (escd0_escd _ _ (conj Vc Hcj)) x0 x4 x8 x16 x48 x80 F L0 L4 L8 L16 L48 L80 ltac:(lia) k r (length txt - length r) tail Hok Hnd (fun k' => Hall k'))
    as [st' [Hl [Ec Eo]]].
  replace (Datatypes.S (length txt)) with (Datatypes.S (length r) + (length txt - length r))%nat by lia.
  rewrite Hl. cbn [bind]. rewrite Ec. change (127 =? 127) with true. cbv iota. rewrite Eo.
  set (total := 144 + tags_size (e_tags e) + 4 + len (e_content e)).
  rewrite (rd32_le32 total) by (subst total; lia).
  assert (Eenc : le32 total ++ le16 (e_kind e) ++ [0; 0] ++ le64 (e_created e) ++ e_id e ++ e_pk e ++ e_sig e ++
                 enc_tags (e_tags e) ++ le32 (len (e_content e)) ++ e_content e ++ drop (4 + len (e_content e)) (drop (tags_size (e_tags e)) F)
                 = enc_event e ++ drop (event_size e) out).
  { replace (drop (4 + len (e_content e)) (drop (tags_size (e_tags e)) F)) with (drop (event_size e) out)
      by (rewrite EF, !drop_drop; f_equal; unfold event_size; lia).
    unfold enc_event. rewrite <- ?app_assoc. reflexivity. }
  rewrite Eenc.
  assert (Lenc : len (enc_event e ++ drop (event_size e) out) = len out).
  { rewrite len_app, len_drop. unfold enc_event. rewrite !len_app, len_le32, len_le16, len_le64, len_enc_tags, len_le32, Lid, Lpk, Lsg.
    change (len [0; 0]) with 2. unfold event_size. lia. }
  assert (Ltot : total = len (enc_event e)).
  { unfold enc_event. rewrite !len_app, len_le32, len_le16, len_le64, len_enc_tags, len_le32, Lid, Lpk, Lsg. change (len [0; 0]) with 2. subst total. lia. }
  rewrite Ltot. cbn [bind].
  replace (len (enc_event e ++ drop (event_size e) out) <? len (enc_event e)) with false by (symmetry; apply N.ltb_ge; rewrite Lenc, <- Ltot; subst total; lia).
  rewrite take_app_len. reflexivity.
Qed.


(* ====================== white space between the tokens of the object ====================== *)
Definition jvtext (e : aevent) (tj cj : bytes) (k : ekey) (K : bytes) : bytes :=
  match k with
  | KId => 34 :: write_hex (e_id e) ++ 34 :: K
  | KPk => 34 :: write_hex (e_pk e) ++ 34 :: K
  | KSig => 34 :: write_hex (e_sig e) ++ 34 :: K
  | KKind => dec (e_kind e) ++ K
  | KCreated => dec (e_created e) ++ K
  | KTags => tj ++ K
  | KContent => 34 :: cj ++ 34 :: K
  end.
(* a member after its opening quote: the name, its closing quote, white space, the colon, white space, the value *)
Definition jbody_ws (e : aevent) (tj cj : bytes) (m : emem) (wb wc K : bytes) : bytes :=
  match m with
  | EK k => kname k ++ wb ++ 58 :: wc ++ jvtext e tj cj k K
  | EU key v => key ++ 34 :: wb ++ 58 :: wc ++ jtext v ++ K
  end.
Fixpoint jwclose (e : aevent) (tj cj : bytes) (ms : list wm) (tail : bytes) : bytes :=
  match ms with
  | [] => 125 :: tail
  | x :: r => 44 :: wm_a x ++ 34 :: jbody_ws e tj cj (wm_m x) (wm_b x) (wm_c x) (wm_d x ++ jwclose e tj cj r tail)
  end.
(* white space, the opening brace, then for every member: white space, the member, white space, a comma or the
   closing brace; then anything *)
Definition event_text_w (e : aevent) (tj cj : bytes) (w0 : bytes) (ms : list wm) (tail : bytes) : bytes :=
  match ms with
  | [] => w0 ++ 123 :: 125 :: tail
  | x :: r => w0 ++ 123 :: wm_a x ++ 34 :: jbody_ws e tj cj (wm_m x) (wm_b x) (wm_c x) (wm_d x ++ jwclose e tj cj r tail)
  end.

Section TextW.
  Variable e : aevent.
  Variables tj cj : bytes.
  Variable tes : list (list bytes).
  Hypothesis Htxt : forall K, tj ++ K = 91 :: tags_body tes K.
  Hypothesis Lid : len (e_id e) = 32.
  Hypothesis Lpk : len (e_pk e) = 32.
  Hypothesis Lsg : len (e_sig e) = 64.

  Lemma jvtext_vtext k K : jvtext e tj cj k K = vtext e (tags_body tes) cj k K.
  Proof. destruct k; cbn [jvtext vtext]; try reflexivity. apply Htxt. Qed.
  Lemma jbody_ws_embody m wb wc K : jbody_ws e tj cj m wb wc K = embody_ws e (tags_body tes) cj m wb wc K.
  Proof. destruct m; cbn [jbody_ws embody_ws]; [rewrite jvtext_vtext|]; reflexivity. Qed.
  Lemma jwclose_wclose ms tail : jwclose e tj cj ms tail = wclose e (tags_body tes) cj ms tail.
  Proof. induction ms as [|x r IH]; cbn [jwclose wclose]; [reflexivity|]. rewrite IH, jbody_ws_embody. reflexivity. Qed.
  Lemma jmember_split k K : jmember e tj cj k K = kname k ++ 58 :: jvtext e tj cj k K.
  Proof. destruct k; reflexivity. Qed.
  Lemma jbody_ws_length m wb wc K : (kwm m + length K <= length (jbody_ws e tj cj m wb wc K))%nat.
  Proof.
    destruct m as [k|key v]; cbn [jbody_ws kwm].
    - pose proof (jmember_length e tj cj tes Htxt Lid Lpk Lsg k K) as H. rewrite jmember_split in H.
      rewrite !app_length in *. cbn [length] in *. rewrite !app_length. lia.
    - rewrite !app_length. cbn [length]. rewrite !app_length. cbn [length]. rewrite !app_length. lia.
  Qed.
  Lemma jwclose_length ms tail : (list_sum (map kwm (map wm_m ms)) + length tail <= length (jwclose e tj cj ms tail))%nat /\
                                 (length ms <= length (jwclose e tj cj ms tail))%nat.
  Proof.
    unfold list_sum. induction ms as [|x r [IH1 IH2]]; cbn [jwclose map fold_right length]; [split; lia|].
    pose proof (jbody_ws_length (wm_m x) (wm_b x) (wm_c x) (wm_d x ++ jwclose e tj cj r tail)) as H.
    rewrite !app_length in *. cbn [length]. split; lia.
  Qed.
End TextW.

Theorem event_any_order_ws e tj cj w0 ms tail out :
  wf_event_json e -> tags_as_json (e_tags e) = Ok tj -> json_escape (e_content e) = Ok cj ->
  wsb w0 -> Forall wm_ok ms -> NoDup (known (map wm_m ms)) -> (forall k, In k (known (map wm_m ms))) -> event_size e <= len out ->
  event_from_json (event_text_w e tj cj w0 ms tail) out
  = Ok (len (event_text_w e tj cj w0 ms tail) - len tail, enc_event e, enc_event e ++ drop (event_size e) out).
Proof.
  intros W Htj Hcj Hw0 Hok Hnd Hall Hcap.
  pose proof W as (Wid & Lid & Wpk & Lpk & Wsg & Lsg & Hk & Hc & Vt & Ft & Vc & Hsz).
  destruct (tags_as_json_text (e_tags e) Vt) as [tes [H2 Htxt0]].
  assert (Htxt : forall K, tj ++ K = 91 :: tags_body tes K).
  { intros K. destruct (Htxt0 K) as [tj' [E1 E2]]. assert (tj' = tj) by congruence. subst tj'. exact E2. }
  pose proof (tags_size_ge4 (e_tags e)) as Hts4. unfold event_size in Hcap, Hsz.
  assert (Hperm : Permutation (known (map wm_m ms)) all_keys).
  { apply NoDup_Permutation; [exact Hnd|repeat constructor; cbn; intuition discriminate|].
    intros k. split; [intros _; destruct k; cbn; auto 8|intros _; apply Hall]. }
  destruct ms as [|x r]; [exfalso; exact (Hall KId)|].
  set (txt := event_text_w e tj cj w0 (x :: r) tail).
  assert (Hlen : (256 + length tail <= length txt)%nat /\ (length r <= length txt)%nat).
  { subst txt. cbn [event_text_w]. rewrite app_length. cbn [length]. rewrite app_length. cbn [length].
    pose proof (jbody_ws_length e tj cj tes Htxt Lid Lpk Lsg (wm_m x) (wm_b x) (wm_c x) (wm_d x ++ jwclose e tj cj r tail)) as H1.
    pose proof (jwclose_length e tj cj tes Htxt Lid Lpk Lsg r tail) as [H2' H3'].
    pose proof (list_sum_perm _ _ (Permutation_map kw Hperm)) as Hs. unfold list_sum in *. cbn [map fold_right all_keys kw] in Hs.
    pose proof (kwm_known (map wm_m (x :: r))) as Hkk. unfold list_sum in Hkk. cbn [map fold_right] in Hkk. rewrite Hkk in Hs.
    rewrite app_length in H1. lia. }
  destruct Hlen as [Hlen Hr6].
  destruct (split_blocks out ltac:(lia)) as (x0 & x4 & x6 & x8 & x16 & x48 & x80 & F & Eout & L0 & L4 & L6 & L8 & L16 & L48 & L80 & EF).
  assert (LF : len F = len out - 144) by (rewrite EF; apply len_drop).
  unfold event_from_json, parse_json_event.
  replace (len txt <? 204) with false by (symmetry; apply N.ltb_ge; unfold len; lia).
  replace (len out <? 152) with false by (symmetry; apply N.ltb_ge; lia).
  rewrite Eout at 1.
  replace (x0 ++ x4 ++ x6 ++ x8 ++ x16 ++ x48 ++ x80 ++ F) with ((x0 ++ x4) ++ x6 ++ (x8 ++ x16 ++ x48 ++ x80 ++ F)) by (rewrite <- !app_assoc; reflexivity).
  rewrite (put_raw_at (x0 ++ x4) x6 [0; 0] _ 6) by (rewrite ?len_app; change (len [0; 0]) with 2; lia). cbn [bind].
  replace ((x0 ++ x4) ++ [0; 0] ++ x8 ++ x16 ++ x48 ++ x80 ++ F) with (x0 ++ x4 ++ [0; 0] ++ x8 ++ x16 ++ x48 ++ x80 ++ F) by (rewrite <- !app_assoc; reflexivity).
  assert (Etxt : txt = w0 ++ 123 :: wm_a x ++ 34 :: embody_ws e (tags_body tes) cj (wm_m x) (wm_b x) (wm_c x) (wm_d x ++ wclose e (tags_body tes) cj r tail)).
  { subst txt. cbn [event_text_w]. rewrite (jbody_ws_embody e tj cj tes Htxt), (jwclose_wclose e tj cj tes Htxt). reflexivity. }
  rewrite Etxt at 1. rewrite (eat_ws_app w0 123) by (try assumption; reflexivity).
  cbn [verify_char]. change (123 =? 123) with true. cbv iota. cbn [bind].
  destruct (members_any_order_w e (tags_body tes) cj W (tagsd_plain _ _ H2) (escd0_escd _ _ (conj Vc Hcj)) x0 x4 x8 x16 x48 x80 F L0 L4 L8 L16 L48 L80 ltac:(lia) x r (length txt - length r) tail Hok Hnd (fun k' => Hall k'))
    as [st' [Hl [Ec Eo]]].
  replace (Datatypes.S (length txt)) with (Datatypes.S (length r) + (length txt - length r))%nat by lia.
  rewrite Hl. cbn [bind]. rewrite Ec. change (127 =? 127) with true. cbv iota. rewrite Eo.
  set (total := 144 + tags_size (e_tags e) + 4 + len (e_content e)).
  rewrite (rd32_le32 total) by (subst total; lia).
  assert (Eenc : le32 total ++ le16 (e_kind e) ++ [0; 0] ++ le64 (e_created e) ++ e_id e ++ e_pk e ++ e_sig e ++
                 enc_tags (e_tags e) ++ le32 (len (e_content e)) ++ e_content e ++ drop (4 + len (e_content e)) (drop (tags_size (e_tags e)) F)
                 = enc_event e ++ drop (event_size e) out).
  { replace (drop (4 + len (e_content e)) (drop (tags_size (e_tags e)) F)) with (drop (event_size e) out)
      by (rewrite EF, !drop_drop; f_equal; unfold event_size; lia).
    unfold enc_event. rewrite <- ?app_assoc. reflexivity. }
  rewrite Eenc.
  assert (Lenc : len (enc_event e ++ drop (event_size e) out) = len out).
  { rewrite len_app, len_drop. unfold enc_event. rewrite !len_app, len_le32, len_le16, len_le64, len_enc_tags, len_le32, Lid, Lpk, Lsg.
    change (len [0; 0]) with 2. unfold event_size. lia. }
  assert (Ltot : total = len (enc_event e)).
  { unfold enc_event. rewrite !len_app, len_le32, len_le16, len_le64, len_enc_tags, len_le32, Lid, Lpk, Lsg. change (len [0; 0]) with 2. subst total. lia. }
  rewrite Ltot. cbn [bind].
  replace (len (enc_event e ++ drop (event_size e) out) <? len (enc_event e)) with false by (symmetry; apply N.ltb_ge; rewrite Lenc, <- Ltot; subst total; lia).
  rewrite take_app_len. reflexivity.
Qed.

(* the texts of event_any_order_unknown are those of event_any_order_ws without white space *)
Definition no_ws (m : emem) : wm := mkWm m [] [] [] [].

(* canonicity across white space: two texts of one event that differ in member order, unknown members and white space
   between the tokens of the object give identical bytes *)
Corollary event_ws_independent e tj cj w0 ms tail w0' ms' tail' out :
  wf_event_json e -> tags_as_json (e_tags e) = Ok tj -> json_escape (e_content e) = Ok cj ->
  wsb w0 -> Forall wm_ok ms -> NoDup (known (map wm_m ms)) -> (forall k, In k (known (map wm_m ms))) ->
  wsb w0' -> Forall wm_ok ms' -> NoDup (known (map wm_m ms')) -> (forall k, In k (known (map wm_m ms'))) ->
  event_size e <= len out ->
  exists c c', event_from_json (event_text_w e tj cj w0 ms tail) out = Ok (c, enc_event e, enc_event e ++ drop (event_size e) out) /\
               event_from_json (event_text_w e tj cj w0' ms' tail') out = Ok (c', enc_event e, enc_event e ++ drop (event_size e) out).
Proof. intros. eexists _, _. split; apply event_any_order_ws; assumption. Qed.

(* ====================== any spelling of the strings, any text of the tags ====================== *)
(* the text of an event whose tags array is written T (any text in the relation tagsd: TagsWs.v) and whose content is
   spelled [cj] (any spelling in the relation escd: Spelling.v), with the members in any order, unknown members, and
   white space between the tokens of the object *)
Definition event_text_T (e : aevent) (T : bytes -> bytes) (cj : bytes) (w0 : bytes) (ms : list wm) (tail : bytes) : bytes :=
  match ms with
  | [] => w0 ++ 123 :: 125 :: tail
  | x :: r => w0 ++ 123 :: wm_a x ++ 34 :: embody_ws e T cj (wm_m x) (wm_b x) (wm_c x) (wm_d x ++ wclose e T cj r tail)
  end.
(* tag strings spelled [tes], no white space inside the array *)
Definition event_text_s (e : aevent) (tes : list (list bytes)) (cj : bytes) (w0 : bytes) (ms : list wm) (tail : bytes) : bytes :=
  event_text_T e (tags_body tes) cj w0 ms tail.

Section TextS.
  Variable e : aevent.
  Variable T : bytes -> bytes.
  Variable cj : bytes.
  Hypothesis HTl : forall tail, (length tail <= length (T tail))%nat.
  Hypothesis Lid : len (e_id e) = 32.
  Hypothesis Lpk : len (e_pk e) = 32.
  Hypothesis Lsg : len (e_sig e) = 64.

  Lemma embody_ws_length m wb wc K : (kwm m + length K <= length (embody_ws e T cj m wb wc K))%nat.
  Proof.
    assert (A : length (e_id e) = 32%nat) by (unfold len in Lid; lia).
    assert (B : length (e_pk e) = 32%nat) by (unfold len in Lpk; lia).
    assert (C : length (e_sig e) = 64%nat) by (unfold len in Lsg; lia).
    destruct m as [k|key v]; cbn [embody_ws kwm].
    - pose proof (HTl K) as TK.
      destruct k; cbn [kname vtext kw]; repeat (first [rewrite app_length | rewrite length_write_hex | progress (cbn [length])]); lia.
    - rewrite !app_length. cbn [length]. rewrite !app_length. cbn [length]. rewrite !app_length. lia.
  Qed.
  Lemma wclose_length ms tail : (list_sum (map kwm (map wm_m ms)) + length tail <= length (wclose e T cj ms tail))%nat /\
                                (length ms <= length (wclose e T cj ms tail))%nat.
  Proof.
    unfold list_sum. induction ms as [|x r [IH1 IH2]]; cbn [wclose map fold_right length]; [split; lia|].
    pose proof (embody_ws_length (wm_m x) (wm_b x) (wm_c x) (wm_d x ++ wclose e T cj r tail)) as H.
    rewrite !app_length in *. cbn [length]. split; lia.
  Qed.
End TextS.

Theorem event_any_T e T cj w0 ms tail out :
  wf_event_json e -> tagsd (e_tags e) T -> escd (e_content e) cj ->
  wsb w0 -> Forall wm_ok ms -> NoDup (known (map wm_m ms)) -> (forall k, In k (known (map wm_m ms))) -> event_size e <= len out ->
  event_from_json (event_text_T e T cj w0 ms tail) out
  = Ok (len (event_text_T e T cj w0 ms tail) - len tail, enc_event e, enc_event e ++ drop (event_size e) out).
Proof.
  intros W HT Hcj Hw0 Hok Hnd Hall Hcap.
  pose proof W as (Wid & Lid & Wpk & Lpk & Wsg & Lsg & Hk & Hc & Vt & Ft & Vc & Hsz).
  pose proof (tags_size_ge4 (e_tags e)) as Hts4. unfold event_size in Hcap, Hsz.
  assert (Hperm : Permutation (known (map wm_m ms)) all_keys).
  { apply NoDup_Permutation; [exact Hnd|repeat constructor; cbn; intuition discriminate|].
    intros k. split; [intros _; destruct k; cbn; auto 8|intros _; apply Hall]. }
  destruct ms as [|x r]; [exfalso; exact (Hall KId)|].
  set (txt := event_text_T e T cj w0 (x :: r) tail).
  assert (Hlen : (256 + length tail <= length txt)%nat /\ (length r <= length txt)%nat).
  { subst txt. cbn [event_text_T]. rewrite app_length. cbn [length]. rewrite app_length. cbn [length].
    pose proof (embody_ws_length e T cj (proj2 HT) Lid Lpk Lsg (wm_m x) (wm_b x) (wm_c x) (wm_d x ++ wclose e T cj r tail)) as H1.
    pose proof (wclose_length e T cj (proj2 HT) Lid Lpk Lsg r tail) as [H2' H3'].
    pose proof (list_sum_perm _ _ (Permutation_map kw Hperm)) as Hs. unfold list_sum in *. cbn [map fold_right all_keys kw] in Hs.
    pose proof (kwm_known (map wm_m (x :: r))) as Hkk. unfold list_sum in Hkk. cbn [map fold_right] in Hkk. rewrite Hkk in Hs.
    rewrite app_length in H1. lia. }
  destruct Hlen as [Hlen Hr6].
  destruct (split_blocks out ltac:(lia)) as (x0 & x4 & x6 & x8 & x16 & x48 & x80 & F & Eout & L0 & L4 & L6 & L8 & L16 & L48 & L80 & EF).
  assert (LF : len F = len out - 144) by (rewrite EF; apply len_drop).
  unfold event_from_json, parse_json_event.
  replace (len txt <? 204) with false by (symmetry; apply N.ltb_ge; unfold len; lia).
  replace (len out <? 152) with false by (symmetry; apply N.ltb_ge; lia).
  rewrite Eout at 1.
  replace (x0 ++ x4 ++ x6 ++ x8 ++ x16 ++ x48 ++ x80 ++ F) with ((x0 ++ x4) ++ x6 ++ (x8 ++ x16 ++ x48 ++ x80 ++ F)) by (rewrite <- !app_assoc; reflexivity).
  rewrite (put_raw_at (x0 ++ x4) x6 [0; 0] _ 6) by (rewrite ?len_app; change (len [0; 0]) with 2; lia). cbn [bind].
  replace ((x0 ++ x4) ++ [0; 0] ++ x8 ++ x16 ++ x48 ++ x80 ++ F) with (x0 ++ x4 ++ [0; 0] ++ x8 ++ x16 ++ x48 ++ x80 ++ F) by (rewrite <- !app_assoc; reflexivity).
  assert (Etxt : txt = w0 ++ 123 :: wm_a x ++ 34 :: embody_ws e T cj (wm_m x) (wm_b x) (wm_c x) (wm_d x ++ wclose e T cj r tail)) by reflexivity.
  rewrite Etxt at 1. rewrite (eat_ws_app w0 123) by (try assumption; reflexivity).
  cbn [verify_char]. change (123 =? 123) with true. cbv iota. cbn [bind].
  destruct (members_any_order_w e T cj W HT Hcj x0 x4 x8 x16 x48 x80 F L0 L4 L8 L16 L48 L80 ltac:(lia) x r (length txt - length r) tail Hok Hnd (fun k' => Hall k'))
    as [st' [Hl [Ec Eo]]].
  replace (Datatypes.S (length txt)) with (Datatypes.S (length r) + (length txt - length r))%nat by lia.
  rewrite Hl. cbn [bind]. rewrite Ec. change (127 =? 127) with true. cbv iota. rewrite Eo.
  set (total := 144 + tags_size (e_tags e) + 4 + len (e_content e)).
  rewrite (rd32_le32 total) by (subst total; lia).
  assert (Eenc : le32 total ++ le16 (e_kind e) ++ [0; 0] ++ le64 (e_created e) ++ e_id e ++ e_pk e ++ e_sig e ++
                 enc_tags (e_tags e) ++ le32 (len (e_content e)) ++ e_content e ++ drop (4 + len (e_content e)) (drop (tags_size (e_tags e)) F)
                 = enc_event e ++ drop (event_size e) out).
  { replace (drop (4 + len (e_content e)) (drop (tags_size (e_tags e)) F)) with (drop (event_size e) out)
      by (rewrite EF, !drop_drop; f_equal; unfold event_size; lia).
    unfold enc_event. rewrite <- ?app_assoc. reflexivity. }
  rewrite Eenc.
  assert (Lenc : len (enc_event e ++ drop (event_size e) out) = len out).
  { rewrite len_app, len_drop. unfold enc_event. rewrite !len_app, len_le32, len_le16, len_le64, len_enc_tags, len_le32, Lid, Lpk, Lsg.
    change (len [0; 0]) with 2. unfold event_size. lia. }
  assert (Ltot : total = len (enc_event e)).
  { unfold enc_event. rewrite !len_app, len_le32, len_le16, len_le64, len_enc_tags, len_le32, Lid, Lpk, Lsg. change (len [0; 0]) with 2. subst total. lia. }
  rewrite Ltot. cbn [bind].
  replace (len (enc_event e ++ drop (event_size e) out) <? len (enc_event e)) with false by (symmetry; apply N.ltb_ge; rewrite Lenc, <- Ltot; subst total; lia).
  rewrite take_app_len. reflexivity.
Qed.

Theorem event_any_spelling e tes cj w0 ms tail out :
  wf_event_json e -> Forall2 (Forall2 escd) (e_tags e) tes -> escd (e_content e) cj ->
  wsb w0 -> Forall wm_ok ms -> NoDup (known (map wm_m ms)) -> (forall k, In k (known (map wm_m ms))) -> event_size e <= len out ->
  event_from_json (event_text_s e tes cj w0 ms tail) out
  = Ok (len (event_text_s e tes cj w0 ms tail) - len tail, enc_event e, enc_event e ++ drop (event_size e) out).
Proof. intros W H2. unfold event_text_s. apply event_any_T; [exact W | apply tagsd_plain; exact H2]. Qed.

(* canonicity: ANY two texts of one event - differing in the spelling of every tag string and of the content, in member
   order, unknown members and white space between the tokens of the object - parse to byte-identical binary events *)
Corollary event_spelling_independent e tes cj w0 ms tail tes' cj' w0' ms' tail' out :
  wf_event_json e ->
  Forall2 (Forall2 escd) (e_tags e) tes -> escd (e_content e) cj ->
  wsb w0 -> Forall wm_ok ms -> NoDup (known (map wm_m ms)) -> (forall k, In k (known (map wm_m ms))) ->
  Forall2 (Forall2 escd) (e_tags e) tes' -> escd (e_content e) cj' ->
  wsb w0' -> Forall wm_ok ms' -> NoDup (known (map wm_m ms')) -> (forall k, In k (known (map wm_m ms'))) ->
  event_size e <= len out ->
  exists c c', event_from_json (event_text_s e tes cj w0 ms tail) out = Ok (c, enc_event e, enc_event e ++ drop (event_size e) out) /\
               event_from_json (event_text_s e tes' cj' w0' ms' tail') out = Ok (c', enc_event e, enc_event e ++ drop (event_size e) out).
Proof. intros. eexists _, _. split; apply event_any_spelling; assumption. Qed.

(* THE FULL GRAMMAR (C01): the seven members in any order, unknown members anywhere, every escape spelling of every string,
   and white space in every place the parser accepts it - between the tokens of the object AND inside the tags array
   (after every bracket, comma and closing quote) *)
Theorem event_full_grammar e w1 wtes cj w0 ms tail out :
  wf_event_json e -> wsb w1 -> Forall2 wtag_ok (e_tags e) wtes -> escd (e_content e) cj ->
  wsb w0 -> Forall wm_ok ms -> NoDup (known (map wm_m ms)) -> (forall k, In k (known (map wm_m ms))) -> event_size e <= len out ->
  event_from_json (event_text_T e (wtags_body w1 wtes) cj w0 ms tail) out
  = Ok (len (event_text_T e (wtags_body w1 wtes) cj w0 ms tail) - len tail, enc_event e, enc_event e ++ drop (event_size e) out).
Proof. intros W W1 H2. apply event_any_T; [exact W | apply tagsd_ws; assumption]. Qed.

(* canonicity over the full grammar: any two such texts of one event give identical bytes *)
Corollary event_full_grammar_canonical e w1 wtes cj w0 ms tail w1' wtes' cj' w0' ms' tail' out :
  wf_event_json e ->
  wsb w1 -> Forall2 wtag_ok (e_tags e) wtes -> escd (e_content e) cj ->
  wsb w0 -> Forall wm_ok ms -> NoDup (known (map wm_m ms)) -> (forall k, In k (known (map wm_m ms))) ->
  wsb w1' -> Forall2 wtag_ok (e_tags e) wtes' -> escd (e_content e) cj' ->
  wsb w0' -> Forall wm_ok ms' -> NoDup (known (map wm_m ms')) -> (forall k, In k (known (map wm_m ms'))) ->
  event_size e <= len out ->
  exists c c', event_from_json (event_text_T e (wtags_body w1 wtes) cj w0 ms tail) out = Ok (c, enc_event e, enc_event e ++ drop (event_size e) out) /\
               event_from_json (event_text_T e (wtags_body w1' wtes') cj' w0' ms' tail') out = Ok (c', enc_event e, enc_event e ++ drop (event_size e) out).
Proof. intros. eexists _, _. split; apply event_full_grammar; assumption. Qed.

(* order independence: two texts with the seven members in different orders give the same bytes *)
Corollary event_order_independent e tj cj ms ms' tail tail' out :
  wf_event_json e -> tags_as_json (e_tags e) = Ok tj -> json_escape (e_content e) = Ok cj ->
  NoDup ms -> (forall k, In k ms) -> NoDup ms' -> (forall k, In k ms') -> event_size e <= len out ->
  exists c c', event_from_json (event_text e tj cj ms tail) out = Ok (c, enc_event e, enc_event e ++ drop (event_size e) out) /\
               event_from_json (event_text e tj cj ms' tail') out = Ok (c', enc_event e, enc_event e ++ drop (event_size e) out).
Proof.
  intros W Htj Hcj N1 A1 N2 A2 Hcap. eexists _, _. split; apply event_any_order; assumption.
Qed.

(* Event::as_json writes one of these texts *)
Lemma as_json_is_event_text e tj cj : tags_as_json (e_tags e) = Ok tj -> json_escape (e_content e) = Ok cj ->
  event_as_json e = Ok (event_text e tj cj [KId; KPk; KKind; KCreated; KTags; KContent; KSig] []).
Proof.
  intros Htj Hcj. unfold event_as_json. rewrite Htj, Hcj. cbn [bind].
  unfold event_text, jclose, jmember, s_id_open, s_pubkey, s_kind, s_created, s_tags, s_content, s_sig, s_close.
  rewrite <- ?app_assoc. cbn [app]. rewrite <- ?app_assoc. cbn [app]. reflexivity.
Qed.

(* a key without quote or backslash that is none of the seven names is unknown to the parser *)
Lemma starts_with_name name : forall key rest, ~ In 34 name -> ~ In 34 key ->
  starts_with (name ++ [34]) (key ++ 34 :: rest) = true -> key = name.
Proof.
  induction name as [|a name IH]; intros key rest Hn Hk H.
  - destruct key as [|c key]; [reflexivity|]. cbn [app starts_with] in H. apply andb_true_iff in H. destruct H as [H _].
    apply N.eqb_eq in H. exfalso. apply Hk. left. symmetry. exact H.
  - destruct key as [|c key]; cbn [app starts_with] in H.
    + apply andb_true_iff in H. destruct H as [H _]. apply N.eqb_eq in H. exfalso. apply Hn. left. exact H.
    + apply andb_true_iff in H. destruct H as [H1 H2]. apply N.eqb_eq in H1. subst c. f_equal.
      apply (IH key rest); [intros X; apply Hn; right; exact X|intros X; apply Hk; right; exact X|exact H2].
Qed.

Definition known_names : list bytes :=
  [[105; 100]; [115; 105; 103]; [107; 105; 110; 100]; [116; 97; 103; 115]; [112; 117; 98; 107; 101; 121];
   [99; 111; 110; 116; 101; 110; 116]; [99; 114; 101; 97; 116; 101; 100; 95; 97; 116]].

Lemma plain_unknown_key key : Forall (fun c => c <> 34 /\ c <> 92) key -> ~ In key known_names -> unknown_key key.
Proof.
  intros Hp Hn. split; [apply plain_skippable; exact Hp|].
  assert (Hq : ~ In 34 key) by (intros X; rewrite Forall_forall in Hp; destruct (Hp _ X) as [Y _]; apply Y; reflexivity).
  assert (G : forall name rest, In name known_names -> starts_with (name ++ [34]) (key ++ 34 :: rest) = false).
  { intros name rest Hin. destruct (starts_with (name ++ [34]) (key ++ 34 :: rest)) eqn:E; [|reflexivity]. exfalso.
    apply Hn. assert (key = name); [|subst; exact Hin]. apply (starts_with_name name key rest); [|exact Hq|exact E].
    unfold known_names in Hin. cbn [In] in Hin. intros X.
    repeat (destruct Hin as [<-|Hin]; [cbn [In] in X; repeat (destruct X as [X|X]; [discriminate X|]); exact X|]). exact Hin. }
  intros rest. unfold known_names in G.
  refine (conj (G [105; 100] rest _) (conj (G [115; 105; 103] rest _) (conj (G [107; 105; 110; 100] rest _) (conj (G [116; 97; 103; 115] rest _)
          (conj (G [112; 117; 98; 107; 101; 121] rest _) (conj (G [99; 111; 110; 116; 101; 110; 116] rest _) (G [99; 114; 101; 97; 116; 101; 100; 95; 97; 116] rest _)))))));
    cbn [In]; auto 8.
Qed.
