(* Event JSON: LEADING WHITE SPACE, for EVERY text the parser accepts (not only the grammar of EventAnyOrder).
   The member loop begins an iteration with eat_ws, so white space in front of a member never changes its answer;
   more fuel never changes an answer; and for every accepted event text white space before the opening brace and
   right after it leaves the encoded event and the buffer unchanged and adds exactly its length to the consumed count. *)
From Coq Require Import List NArith Lia Bool.
Import ListNotations.
From Pocket Require Import Bytes Layout Codec JsonParse ParseTotal FilterGaps.
Open Scope N_scope.
Arguments N.add : simpl never. Arguments N.sub : simpl never. Arguments N.mul : simpl never.
Arguments N.eqb : simpl never. Arguments N.ltb : simpl never. Arguments N.leb : simpl never.

Lemma eat_ws_app w l : wsrun w -> eat_ws (w ++ l) = eat_ws l.
Proof. intros H. induction H as [|d w Hd _ IH]; [reflexivity|]. cbn [app eat_ws]. rewrite Hd. exact IH. Qed.

Lemma event_members_ws fuel st w l : wsrun w -> event_members fuel st (w ++ l) = event_members fuel st l.
Proof. intros H. destruct fuel; [reflexivity|]. cbn [event_members]. rewrite (eat_ws_app w l H). reflexivity. Qed.

Lemma event_members_mono fuel : forall st l x k, event_members fuel st l = Ok x -> event_members (fuel + k) st l = Ok x.
Proof.
  induction fuel as [|fuel IH]; intros st l x k H; [discriminate H|].
  cbn [event_members plus] in H |- *.
  bstep H. bstep H. bstep H. bstep H. bstep H. bstep H; [exact H|]. apply IH. exact H.
Qed.

Theorem event_leading_ws w w2 r out c n o : wsrun w -> wsrun w2 ->
  parse_json_event (123 :: r) out = Ok (c, n, o) ->
  parse_json_event (w ++ 123 :: w2 ++ r) out = Ok (len w + len w2 + c, n, o).
Proof.
  intros Hw Hw2 H. unfold parse_json_event in H |- *.
  assert (EF : S (length (w ++ 123 :: w2 ++ r)) = Nat.add (S (length (123 :: r))) (Nat.add (length w) (length w2)))
    by (rewrite app_length; cbn [length]; rewrite app_length; lia).
  assert (EL : len (w ++ 123 :: w2 ++ r) = len w + len w2 + len (123 :: r))
    by (rewrite len_app, !len_cons, len_app; lia).
  rewrite EF, EL. clear EF EL.
  rewrite (eat_ws_wsrun w 123 (w2 ++ r) Hw eq_refl).
  change (eat_ws (123 :: r)) with (123 :: r) in H.
  change (verify_char 123 (123 :: ?x)) with (Ok x) in H |- *.
  destruct (len (123 :: r) <? 204) eqn:E2; [discriminate H|].
  replace (len w + len w2 + len (123 :: r) <? 204) with false by lia.
  destruct (N.ltb_spec (len out) 152) as [|Ho]; [discriminate H|].
  remember (S (length (123 :: r))) as F eqn:EFu. remember (Nat.add (length w) (length w2)) as k eqn:Ek.
  destruct (put_raw out 6 [0; 0]) as [out0| | |] eqn:E0; cbn [bind] in H |- *; try discriminate H.
  apply put_raw_len in E0.
  rewrite (event_members_ws _ _ w2 r Hw2).
  destruct (event_members F (mkEv out0 0 0 None) r) as [[st r2]| | |] eqn:Em; cbn [bind] in H; try discriminate H.
  rewrite (event_members_mono F _ _ _ k Em). cbn [bind].
  assert (Lr : (length r2 <= length r)%nat).
  { destruct (event_members_props F (mkEv out0 0 0 None) r) as [_ L];
      [subst F; cbn [length]; lia|cbn [ev_out]; lia|].
    exact (proj1 (L _ _ Em)). }
  destruct (ev_complete st =? 127); [|discriminate H].
  destruct (rd32 (ev_out st)) as [elen|]; [|discriminate H].
  injection H as <- <- <-. f_equal. f_equal. f_equal.
  unfold len in *. cbn [length] in *. lia.
Qed.

Theorem event_from_json_leading_ws w w2 r out c enc buf : wsrun w -> wsrun w2 ->
  event_from_json (123 :: r) out = Ok (c, enc, buf) ->
  event_from_json (w ++ 123 :: w2 ++ r) out = Ok (len w + len w2 + c, enc, buf).
Proof.
  intros Hw Hw2 H. unfold event_from_json in H |- *.
  destruct (parse_json_event (123 :: r) out) as [[[c0 n0] o0]| | |] eqn:E; cbn [bind] in H; try discriminate H.
  rewrite (event_leading_ws w w2 r out c0 n0 o0 Hw Hw2 E). cbn [bind].
  destruct (len o0 <? n0); [discriminate H|]. injection H as <- <- <-. reflexivity.
Qed.
