(* Filter JSON: the members of a filter object may come in ANY order.
   For every list of distinct members (ids, authors, kinds, limit, since, until, one field per tag letter), written in
   the library's own spelling and separated by commas, parse_json_filter yields the canonical encoding of the filter
   they denote - which depends on the member ORDER only through the relative order of the tag fields.
   This generalises FilterRoundTrip.filter_json_roundtrip (the order Filter::as_json writes). *)
From Coq Require Import List NArith Lia Bool.
Import ListNotations.
From Pocket Require Import Bytes Layout Codec JsonParse EscapeRoundTrip JsonRoundTrip FilterRoundTrip JsonSkip.
Open Scope N_scope.
Arguments N.add : simpl never. Arguments N.sub : simpl never. Arguments N.mul : simpl never.
Arguments N.eqb : simpl never. Arguments N.ltb : simpl never. Arguments N.leb : simpl never.

(* ====================== the found-bits ====================== *)
Lemma has_set_bit c i j : has_bit c (2 ^ i) = false ->
  has_bit (set_bit c (2 ^ i)) (2 ^ j) = (i =? j) || has_bit c (2 ^ j).
Proof.
  intros H. unfold set_bit. rewrite H. unfold has_bit in *. rewrite N.log2_pow2 in * by lia.
  assert (L0 : N.land c (2 ^ i) = 0).
  { apply N.bits_inj. intros n. rewrite N.land_spec, N.pow2_bits_eqb, N.bits_0.
    destruct (N.eqb_spec i n) as [->|Hne]; [rewrite H; reflexivity|apply andb_false_r]. }
  rewrite (N.add_nocarry_lxor _ _ L0), (N.lxor_lor _ _ L0), <- N.setbit_spec'. apply N.setbit_eqb.
Qed.

(* ====================== members ====================== *)
Inductive mem :=
| MIds (l : list bytes) | MAuthors (l : list bytes) | MKinds (l : list N)
| MTag (t : tagspec) | MLimit (u : N) | MSince (u : N) | MUntil (u : N)
| MUnk (k : bytes) (v : jtree).        (* a member the parser does not know: key text, value tree *)

Definition mtext (m : mem) : bytes :=
  match m with
  | MIds l => [34;105;100;115;34;58;91] ++ hexlist l ++ [93]
  | MAuthors l => [34;97;117;116;104;111;114;115;34;58;91] ++ hexlist l ++ [93]
  | MKinds l => [34;107;105;110;100;115;34;58;91] ++ declist l ++ [93]
  | MTag t => tpart t
  | MLimit u => [34;108;105;109;105;116;34;58] ++ dec u
  | MSince u => [34;115;105;110;99;101;34;58] ++ dec u
  | MUntil u => [34;117;110;116;105;108;34;58] ++ dec u
  | MUnk k v => 34 :: k ++ 34 :: 58 :: jtext v
  end.

(* a key the filter parser does not know: skippable, none of the six names, not of the form #<letter> *)
Definition ftagkey (l : bytes) : bool :=
  match l with h :: letter :: q :: _ => (h =? 35) && is_letter letter && (q =? 34) | _ => false end.
Definition unknown_fkey (k : bytes) : Prop :=
  skippable_str k /\ forall rest,
    starts_with k_ids (k ++ 34 :: rest) = false /\ starts_with k_authors (k ++ 34 :: rest) = false /\
    starts_with k_kinds (k ++ 34 :: rest) = false /\ starts_with k_since (k ++ 34 :: rest) = false /\
    starts_with k_until (k ++ 34 :: rest) = false /\ starts_with k_limit (k ++ 34 :: rest) = false /\
    ftagkey (k ++ 34 :: rest) = false.

Definition mem_ok (m : mem) : Prop :=
  match m with
  | MIds l | MAuthors l => Forall (fun x => wf_bytes x /\ len x = 32) l
  | MKinds l => Forall (fun k => k < 65536) l
  | MTag t => tag_ok t
  | MLimit u | MSince u | MUntil u => u < 18446744073709551616
  | MUnk k v => unknown_fkey k /\ jwf v /\ jdepth v <= 128
  end.

(* which member it is: the six fixed keys, or the tag letter *)
Definition key (m : mem) : N :=
  match m with
  | MIds _ => 0 | MAuthors _ => 1 | MKinds _ => 2 | MLimit _ => 3 | MSince _ => 4 | MUntil _ => 5
  | MTag t => 6 + fst t
  | MUnk k _ => 1000 + fold_left (fun acc c => acc * 257 + c + 1) k 0     (* any code: distinct codes are a hypothesis *)
  end.

Definition seen (st : flst) (m : mem) : bool :=
  match m with
  | MTag t => existsb (fun x => x =? fst t) (fl_letters st)
  | MUnk _ _ => false
  | _ => has_bit (fl_found st) (2 ^ key m)
  end.

(* the state after one member, [K] being the text that follows it *)
Definition apply (m : mem) (K : bytes) (st : flst) : flst :=
  let c := fl_found st in
  match m with
  | MIds l => mkFl (fl_out st) (set_bit c FL_IDS) (fl_letters st) (Some (hexlist l ++ 93 :: K)) (fl_start_authors st) (fl_start_kinds st) (fl_start_tags st)
  | MAuthors l => mkFl (fl_out st) (set_bit c FL_AUTHORS) (fl_letters st) (fl_start_ids st) (Some (hexlist l ++ 93 :: K)) (fl_start_kinds st) (fl_start_tags st)
  | MKinds l => mkFl (fl_out st) (set_bit c FL_KINDS) (fl_letters st) (fl_start_ids st) (fl_start_authors st) (Some (declist l ++ 93 :: K)) (fl_start_tags st)
  | MTag t => mkFl (fl_out st) c (fst t :: fl_letters st) (fl_start_ids st) (fl_start_authors st) (fl_start_kinds st)
                   (fl_start_tags st ++ [fst t :: 34 :: 58 :: 91 :: tvals_text t ++ 93 :: K])
  | MLimit u => with_out st (take 12 (fl_out st) ++ le32 (N.min u 4294967295) ++ drop 16 (fl_out st)) (set_bit c FL_LIMIT)
  | MSince u => with_out st (take 16 (fl_out st) ++ le64 u ++ drop 24 (fl_out st)) (set_bit c FL_SINCE)
  | MUntil u => with_out st (take 24 (fl_out st) ++ le64 u ++ drop 32 (fl_out st)) (set_bit c FL_UNTIL)
  | MUnk _ _ => st
  end.

Fixpoint run (ms : list mem) (tail : bytes) (st : flst) : flst :=
  match ms with
  | [] => st
  | m :: r => run r tail (apply m (members_close (map mtext r) tail) st)
  end.

(* splitting the buffer at a fixed field *)
Lemma split3 (o : bytes) a b : a + b <= len o ->
  o = take a o ++ take b (drop a o) ++ drop (a + b) o /\ len (take a o) = a /\ len (take b (drop a o)) = b.
Proof.
  intros H. destruct (split_free o a ltac:(lia)) as [E1 L1].
  destruct (split_free (drop a o) b ltac:(rewrite len_drop; lia)) as [E2 L2].
  rewrite drop_drop in E2. split; [|split; assumption]. rewrite <- E2. exact E1.
Qed.

Lemma step_ok m st R tail fuel : mem_ok m -> seen st m = false -> 32 <= len (fl_out st) ->
  filter_members (S fuel) st (members_close (mtext m :: R) tail)
  = filter_members fuel (apply m (members_close R tail) st) (members_close R tail).
Proof.
  intros Hok Hs Hlen. set (K := members_close R tail).
  destruct m as [l|l|l|t|u|u|u|uk uv]; cbn [mem_ok seen key] in Hok, Hs.
  - apply (stage_step _ (105 :: 100 :: 115 :: 34 :: 58 :: 91 :: hexlist l ++ 93 :: K)).
    + cbn [mtext app]. rewrite <- ?app_assoc. reflexivity.
    + apply (fmem_ids st l K Hok Hs).
  - apply (stage_step _ (97 :: 117 :: 116 :: 104 :: 111 :: 114 :: 115 :: 34 :: 58 :: 91 :: hexlist l ++ 93 :: K)).
    + cbn [mtext app]. rewrite <- ?app_assoc. reflexivity.
    + apply (fmem_authors st l K Hok Hs).
  - apply (stage_step _ (107 :: 105 :: 110 :: 100 :: 115 :: 34 :: 58 :: 91 :: declist l ++ 93 :: K)).
    + cbn [mtext app]. rewrite <- ?app_assoc. reflexivity.
    + apply (fmem_kinds st l K Hok Hs).
  - destruct Hok as [HL H2].
    apply (stage_step _ (35 :: fst t :: 34 :: 58 :: 91 :: tvals_text t ++ 93 :: K)).
    + cbn [mtext]. unfold tpart, tag_part, tvals_text. cbn [app]. rewrite <- ?app_assoc. cbn [app]. reflexivity.
    + apply (fmem_tag st (fst t) (fst (snd t)) (snd (snd t)) K HL Hs H2).
  - destruct (split3 (fl_out st) 12 4 ltac:(lia)) as (E & La & Lo).
    apply (stage_step _ (108 :: 105 :: 109 :: 105 :: 116 :: 34 :: 58 :: dec u ++ K)).
    + cbn [mtext app]. rewrite <- ?app_assoc. reflexivity.
    + apply (fmem_limit st _ _ _ u K Hok (members_close_follows R tail) Hs E La Lo).
  - destruct (split3 (fl_out st) 16 8 ltac:(lia)) as (E & La & Lo).
    apply (stage_step _ (115 :: 105 :: 110 :: 99 :: 101 :: 34 :: 58 :: dec u ++ K)).
    + cbn [mtext app]. rewrite <- ?app_assoc. reflexivity.
    + apply (fmem_since st _ _ _ u K Hok (members_close_follows R tail) Hs E La Lo).
  - destruct (split3 (fl_out st) 24 8 ltac:(lia)) as (E & La & Lo).
    apply (stage_step _ (117 :: 110 :: 116 :: 105 :: 108 :: 34 :: 58 :: dec u ++ K)).
    + cbn [mtext app]. rewrite <- ?app_assoc. reflexivity.
    + apply (fmem_until st _ _ _ u K Hok (members_close_follows R tail) Hs E La Lo).
  - (* an unknown member: skipped, the state is left alone *)
    destruct Hok as ([Hk Hn] & Hv & Hd). cbn [apply].
    apply (fm_step fuel st _ (uk ++ 34 :: 58 :: jtext uv ++ K) K st).
    + cbn [members_close mtext]. rewrite eat_ws_commas_comma. cbn [app]. rewrite <- app_assoc. cbn [app].
      apply eat_ws_commas_stop; [reflexivity|lia].
    + unfold filter_member. destruct (Hn (58 :: jtext uv ++ K)) as (N1 & N2 & N3 & N4 & N5 & N6 & N7).
      rewrite N1, N2, N3, N4, N5, N6.
      assert (Hb : burn_member (uk ++ 34 :: 58 :: jtext uv ++ K) = Ok K).
      { apply burn_member_skips; try assumption. destruct (members_close_head R tail) as [c0 [r0 [E [->| ->]]]]; subst K; rewrite E; eexists _, _; split; try reflexivity; auto. }
      unfold ftagkey in N7. destruct (uk ++ 34 :: 58 :: jtext uv ++ K) as [|h [|letter [|q r]]] eqn:El; try (rewrite Hb; reflexivity).
      rewrite N7. rewrite Hb. reflexivity.
Qed.

(* a member does not disturb what the parser remembers about the OTHER members *)
Lemma seen_apply m m' K st : seen st m = false -> key m' <> key m -> seen (apply m K st) m' = seen st m'.
Proof.
  intros Hs Hk.
  assert (B : forall i j, i <> j -> has_bit (fl_found st) (2 ^ i) = false ->
              has_bit (set_bit (fl_found st) (2 ^ i)) (2 ^ j) = has_bit (fl_found st) (2 ^ j)).
  { intros i j Hij H. rewrite (has_set_bit _ i j H). apply N.eqb_neq in Hij. rewrite Hij. reflexivity. }
  destruct m as [l|l|l|t|u|u|u|uk uv]; destruct m' as [l'|l'|l'|t'|u'|u'|u'|uk' uv']; cbn [key] in Hk; try congruence;
    cbn [seen apply key with_out fl_found fl_letters] in *; try reflexivity;
    try (first [apply (B 0)|apply (B 1)|apply (B 2)|apply (B 3)|apply (B 4)|apply (B 5)]; [lia|exact Hs]).
  cbn [existsb]. destruct (N.eqb_spec (fst t) (fst t')) as [E|_]; [exfalso; apply Hk; rewrite E; reflexivity|reflexivity].
Qed.

Lemma len_out_apply m K st : 32 <= len (fl_out st) -> len (fl_out (apply m K st)) = len (fl_out st).
Proof.
  intros H. destruct m as [l|l|l|t|u|u|u|uk uv]; cbn [apply with_out fl_out]; try reflexivity.
  - destruct (split3 (fl_out st) 12 4 ltac:(lia)) as (E & La & Lo). rewrite E at 3. rewrite !len_app, len_le32, La, Lo. reflexivity.
  - destruct (split3 (fl_out st) 16 8 ltac:(lia)) as (E & La & Lo). rewrite E at 3. rewrite !len_app, len_le64, La, Lo. reflexivity.
  - destruct (split3 (fl_out st) 24 8 ltac:(lia)) as (E & La & Lo). rewrite E at 3. rewrite !len_app, len_le64, La, Lo. reflexivity.
Qed.

(* the member loop over any list of distinct members *)
Lemma loop ms : forall st fuel tail, Forall mem_ok ms -> NoDup (map key ms) ->
  (forall m, In m ms -> seen st m = false) -> 32 <= len (fl_out st) ->
  filter_members (length ms + S fuel) st (members_close (map mtext ms) tail) = Ok (run ms tail st, tail).
Proof.
  induction ms as [|m r IH]; intros st fuel tail Hok Hnd Hs Hlen.
  - cbn [length plus map members_close run]. apply fm_done. apply eat_ws_commas_stop; [reflexivity|lia].
  - apply Forall_cons_iff in Hok. destruct Hok as [Hm Hokr]. cbn [map] in Hnd. apply NoDup_cons_iff in Hnd. destruct Hnd as [Hn0 Hndr].
    cbn [length plus map run]. rewrite (step_ok m st (map mtext r) tail _ Hm (Hs m (or_introl eq_refl)) Hlen).
    apply IH; try assumption.
    + intros m' Hin. rewrite seen_apply.
      * apply Hs. right. exact Hin.
      * apply Hs. left. reflexivity.
      * intros E. apply Hn0. rewrite <- E. apply in_map. exact Hin.
    + rewrite len_out_apply; assumption.
Qed.

(* ====================== what the loop leaves behind ====================== *)
Fixpoint ids_of (ms : list mem) (acc : list bytes) : list bytes :=
  match ms with [] => acc | MIds l :: r => ids_of r l | _ :: r => ids_of r acc end.
Fixpoint au_of (ms : list mem) (acc : list bytes) : list bytes :=
  match ms with [] => acc | MAuthors l :: r => au_of r l | _ :: r => au_of r acc end.
Fixpoint ks_of (ms : list mem) (acc : list N) : list N :=
  match ms with [] => acc | MKinds l :: r => ks_of r l | _ :: r => ks_of r acc end.
Fixpoint lim_of (ms : list mem) (acc : N) : N :=
  match ms with [] => acc | MLimit u :: r => lim_of r (N.min u 4294967295) | _ :: r => lim_of r acc end.
Fixpoint sin_of (ms : list mem) (acc : N) : N :=
  match ms with [] => acc | MSince u :: r => sin_of r u | _ :: r => sin_of r acc end.
Fixpoint unt_of (ms : list mem) (acc : N) : N :=
  match ms with [] => acc | MUntil u :: r => unt_of r u | _ :: r => unt_of r acc end.
Fixpoint tags_of (ms : list mem) : list tagspec :=
  match ms with [] => [] | MTag t :: r => t :: tags_of r | _ :: r => tags_of r end.
Fixpoint Ks_of (ms : list mem) (tail : bytes) : list bytes :=
  match ms with [] => [] | MTag t :: r => members_close (map mtext r) tail :: Ks_of r tail | _ :: r => Ks_of r tail end.

(* the filter a member list denotes: absent members take the defaults; the tag fields keep their textual order *)
Definition filter_of (ms : list mem) : afilter :=
  mkF (ids_of ms []) (au_of ms []) (ks_of ms []) (map tag_of (tags_of ms))
      (sin_of ms 0) (unt_of ms 18446744073709551615) (lim_of ms 4294967295).

Fixpoint sids (ms : list mem) (tail : bytes) (acc : option bytes) : option bytes :=
  match ms with [] => acc
  | m :: r => sids r tail (match m with MIds l => Some (hexlist l ++ 93 :: members_close (map mtext r) tail) | _ => acc end) end.
Fixpoint saus (ms : list mem) (tail : bytes) (acc : option bytes) : option bytes :=
  match ms with [] => acc
  | m :: r => saus r tail (match m with MAuthors l => Some (hexlist l ++ 93 :: members_close (map mtext r) tail) | _ => acc end) end.
Fixpoint skis (ms : list mem) (tail : bytes) (acc : option bytes) : option bytes :=
  match ms with [] => acc
  | m :: r => skis r tail (match m with MKinds l => Some (declist l ++ 93 :: members_close (map mtext r) tail) | _ => acc end) end.

Lemma run_start_ids ms : forall tail st, fl_start_ids (run ms tail st) = sids ms tail (fl_start_ids st).
Proof. induction ms as [|m r IH]; intros tail st; [reflexivity|]. cbn [run sids]. rewrite IH. destruct m; reflexivity. Qed.
Lemma run_start_authors ms : forall tail st, fl_start_authors (run ms tail st) = saus ms tail (fl_start_authors st).
Proof. induction ms as [|m r IH]; intros tail st; [reflexivity|]. cbn [run saus]. rewrite IH. destruct m; reflexivity. Qed.
Lemma run_start_kinds ms : forall tail st, fl_start_kinds (run ms tail st) = skis ms tail (fl_start_kinds st).
Proof. induction ms as [|m r IH]; intros tail st; [reflexivity|]. cbn [run skis]. rewrite IH. destruct m; reflexivity. Qed.

Lemma run_start_tags ms : forall tail st, fl_start_tags (run ms tail st) = fl_start_tags st ++ tstarts_k (tags_of ms) (Ks_of ms tail).
Proof.
  induction ms as [|m r IH]; intros tail st; [cbn [run tags_of Ks_of tstarts_k]; rewrite app_nil_r; reflexivity|].
  cbn [run]. rewrite IH. destruct m; cbn [apply with_out fl_start_tags tags_of Ks_of tstarts_k]; try reflexivity.
  rewrite <- app_assoc. reflexivity.
Qed.
Lemma Ks_of_length ms tail : length (Ks_of ms tail) = length (tags_of ms).
Proof. induction ms as [|m r IH]; [reflexivity|]. destruct m; cbn [Ks_of tags_of length]; rewrite ?IH; reflexivity. Qed.
Lemma tstarts_k_len tags : forall Ks, length Ks = length tags -> len (tstarts_k tags Ks) = len tags.
Proof.
  induction tags as [|t r IH]; intros Ks H; [reflexivity|]. destruct Ks as [|K Kr]; [discriminate H|].
  cbn [tstarts_k]. rewrite !len_cons, IH by (cbn [length] in H; lia). reflexivity.
Qed.

Lemma take_at {A} (a b : list A) n : len a = n -> take n (a ++ b) = a.
Proof. intros <-. apply take_app_len. Qed.
Lemma drop_at {A} (a b : list A) n : len a = n -> drop n (a ++ b) = b.
Proof. intros <-. apply drop_app_len. Qed.

Lemma run_out ms : forall tail st a12 x y z R, len a12 = 12 -> fl_out st = a12 ++ le32 x ++ le64 y ++ le64 z ++ R ->
  fl_out (run ms tail st) = a12 ++ le32 (lim_of ms x) ++ le64 (sin_of ms y) ++ le64 (unt_of ms z) ++ R.
Proof.
  induction ms as [|m r IH]; intros tail st a12 x y z R La Eo; [exact Eo|].
  cbn [run]. destruct m as [l|l|l|t|u|u|u|uk uv]; cbn [lim_of sin_of unt_of];
    try (apply (IH tail _ a12 x y z R La); cbn [apply fl_out]; exact Eo).
  - apply (IH tail _ a12 _ y z R La). cbn [apply with_out fl_out]. rewrite Eo.
    rewrite (take_at a12 _ 12 La).
    replace (a12 ++ le32 x ++ le64 y ++ le64 z ++ R) with ((a12 ++ le32 x) ++ le64 y ++ le64 z ++ R) by (rewrite <- !app_assoc; reflexivity).
    rewrite (drop_at (a12 ++ le32 x) _ 16) by (rewrite len_app, len_le32; lia). reflexivity.
  - apply (IH tail _ a12 x _ z R La). cbn [apply with_out fl_out]. rewrite Eo.
    replace (a12 ++ le32 x ++ le64 y ++ le64 z ++ R) with ((a12 ++ le32 x) ++ le64 y ++ le64 z ++ R) by (rewrite <- !app_assoc; reflexivity).
    rewrite (take_at (a12 ++ le32 x) _ 16) by (rewrite len_app, len_le32; lia).
    replace ((a12 ++ le32 x) ++ le64 y ++ le64 z ++ R) with (((a12 ++ le32 x) ++ le64 y) ++ le64 z ++ R) by (rewrite <- !app_assoc; reflexivity).
    rewrite (drop_at ((a12 ++ le32 x) ++ le64 y) _ 24) by (rewrite !len_app, len_le32, len_le64; lia).
    rewrite <- !app_assoc. reflexivity.
  - apply (IH tail _ a12 x y _ R La). cbn [apply with_out fl_out]. rewrite Eo.
    replace (a12 ++ le32 x ++ le64 y ++ le64 z ++ R) with (((a12 ++ le32 x) ++ le64 y) ++ le64 z ++ R) by (rewrite <- !app_assoc; reflexivity).
    rewrite (take_at ((a12 ++ le32 x) ++ le64 y) _ 24) by (rewrite !len_app, len_le32, len_le64; lia).
    replace (((a12 ++ le32 x) ++ le64 y) ++ le64 z ++ R) with ((((a12 ++ le32 x) ++ le64 y) ++ le64 z) ++ R) by (rewrite <- !app_assoc; reflexivity).
    rewrite (drop_at (((a12 ++ le32 x) ++ le64 y) ++ le64 z) _ 32) by (rewrite !len_app, len_le32, !len_le64; lia).
    rewrite <- !app_assoc. reflexivity.
Qed.

(* a recorded array start: the items, the closing bracket, anything *)
Definition start_rel (so : option bytes) (body : bytes) (emp : Prop) : Prop :=
  match so with Some s => exists K, s = body ++ 93 :: K | None => emp end.

Lemma sids_rel ms : forall tail acc accI, start_rel acc (hexlist accI) (accI = []) ->
  start_rel (sids ms tail acc) (hexlist (ids_of ms accI)) (ids_of ms accI = []).
Proof.
  induction ms as [|m r IH]; intros tail acc accI H; [exact H|].
  destruct m; cbn [sids ids_of]; apply IH; try exact H. eexists. reflexivity.
Qed.
Lemma saus_rel ms : forall tail acc accI, start_rel acc (hexlist accI) (accI = []) ->
  start_rel (saus ms tail acc) (hexlist (au_of ms accI)) (au_of ms accI = []).
Proof.
  induction ms as [|m r IH]; intros tail acc accI H; [exact H|].
  destruct m; cbn [saus au_of]; apply IH; try exact H. eexists. reflexivity.
Qed.
Lemma skis_rel ms : forall tail acc accI, start_rel acc (declist accI) (accI = []) ->
  start_rel (skis ms tail acc) (declist (ks_of ms accI)) (ks_of ms accI = []).
Proof.
  induction ms as [|m r IH]; intros tail acc accI H; [exact H|].
  destruct m; cbn [skis ks_of]; apply IH; try exact H. eexists. reflexivity.
Qed.

(* well-formedness and size of what the members denote *)
Lemma ids_of_from ms : forall acc, ids_of ms acc = acc \/ In (MIds (ids_of ms acc)) ms.
Proof.
  induction ms as [|m r IH]; intros acc; [left; reflexivity|].
  destruct m as [l| | | | | | | ]; cbn [ids_of]; try (destruct (IH acc) as [E|H]; [left; exact E|right; right; exact H]).
  destruct (IH l) as [E|H]; [right; left; rewrite E; reflexivity|right; right; exact H].
Qed.
Lemma au_of_from ms : forall acc, au_of ms acc = acc \/ In (MAuthors (au_of ms acc)) ms.
Proof.
  induction ms as [|m r IH]; intros acc; [left; reflexivity|].
  destruct m as [ |l| | | | | | ]; cbn [au_of]; try (destruct (IH acc) as [E|H]; [left; exact E|right; right; exact H]).
  destruct (IH l) as [E|H]; [right; left; rewrite E; reflexivity|right; right; exact H].
Qed.
Lemma ks_of_from ms : forall acc, ks_of ms acc = acc \/ In (MKinds (ks_of ms acc)) ms.
Proof.
  induction ms as [|m r IH]; intros acc; [left; reflexivity|].
  destruct m as [ | |l| | | | | ]; cbn [ks_of]; try (destruct (IH acc) as [E|H]; [left; exact E|right; right; exact H]).
  destruct (IH l) as [E|H]; [right; left; rewrite E; reflexivity|right; right; exact H].
Qed.
Lemma tags_of_ok ms : Forall mem_ok ms -> Forall tag_ok (tags_of ms).
Proof.
  induction 1 as [|m r Hm _ IH]; [constructor|]. destruct m; cbn [tags_of]; try exact IH. constructor; [exact Hm|exact IH].
Qed.

Lemma mtext_nonempty m : mtext m <> [].
Proof. destruct m as [l|l|l|t|u|u|u|uk uv]; cbn [mtext]; discriminate. Qed.

(* the second-pass specs with a recorded start of any shape *)
Lemma opt_hex_gen so ids fuel A c2 B F off endp : Forall (fun x => wf_bytes x /\ len x = 32) ids ->
  (length ids < fuel)%nat -> len A = off -> c2 = le16 0 -> len (A ++ c2 ++ B) = endp -> 32 * len ids <= len F -> len ids < 65536 ->
  start_rel so (hexlist ids) (ids = []) ->
  (match so with
   | Some s => '(o, e, n) <- copy_hex32 fuel s ((A ++ c2 ++ B) ++ F) endp 0 ;; o' <- put o off (le16 n) ;; Ok (o', e, n)
   | None => Ok ((A ++ c2 ++ B) ++ F, endp, 0) end)
  = Ok ((A ++ le16 (len ids) ++ B ++ concat ids) ++ drop (32 * len ids) F, endp + 32 * len ids, len ids).
Proof.
  intros Hw Hf La Hc Le Hcap Hn Hrel. destruct so as [s|].
  - destruct Hrel as [K ->]. rewrite (copy_hex32_spec ids fuel (A ++ c2 ++ B) F K endp Hw Hf Le Hcap Hn). cbn [bind].
    replace ((A ++ c2 ++ B) ++ concat ids ++ drop (32 * len ids) F) with (A ++ c2 ++ (B ++ concat ids ++ drop (32 * len ids) F))
      by (rewrite <- !app_assoc; reflexivity).
    rewrite (put_at A c2 (le16 (len ids)) _ off La) by (subst c2; rewrite !len_le16; reflexivity). cbn [bind].
    rewrite <- !app_assoc. reflexivity.
  - cbn [start_rel] in Hrel. subst ids c2. change (len (@nil bytes)) with 0. cbn [concat]. rewrite N.mul_0_r, N.add_0_r, app_nil_r. reflexivity.
Qed.
Lemma opt_kinds_gen so ks fuel A c2 B F off endp : Forall (fun k => k < 65536) ks ->
  (length ks < fuel)%nat -> len A = off -> c2 = le16 0 -> len (A ++ c2 ++ B) = endp -> 2 * len ks <= len F -> len ks < 65536 ->
  start_rel so (declist ks) (ks = []) ->
  (match so with
   | Some s => '(o, e, n) <- copy_kinds fuel s ((A ++ c2 ++ B) ++ F) endp 0 ;; o' <- put o off (le16 n) ;; Ok (o', e, n)
   | None => Ok ((A ++ c2 ++ B) ++ F, endp, 0) end)
  = Ok ((A ++ le16 (len ks) ++ B ++ concat (map le16 ks)) ++ drop (2 * len ks) F, endp + 2 * len ks, len ks).
Proof.
  intros Hw Hf La Hc Le Hcap Hn Hrel. destruct so as [s|].
  - destruct Hrel as [K ->]. rewrite (copy_kinds_spec ks fuel (A ++ c2 ++ B) F K endp Hw Hf Le Hcap Hn). cbn [bind].
    replace ((A ++ c2 ++ B) ++ concat (map le16 ks) ++ drop (2 * len ks) F) with (A ++ c2 ++ (B ++ concat (map le16 ks) ++ drop (2 * len ks) F))
      by (rewrite <- !app_assoc; reflexivity).
    rewrite (put_at A c2 (le16 (len ks)) _ off La) by (subst c2; rewrite !len_le16; reflexivity). cbn [bind].
    rewrite <- !app_assoc. reflexivity.
  - cbn [start_rel] in Hrel. subst ks c2. change (len (@nil N)) with 0. cbn [map concat]. rewrite N.mul_0_r, N.add_0_r, app_nil_r. reflexivity.
Qed.

(* ====================== the theorem ====================== *)
Definition members_wf (ms : list mem) : Prop :=
  Forall mem_ok ms /\ NoDup (map key ms) /\
  len (f_ids (filter_of ms)) < 65536 /\ len (f_authors (filter_of ms)) < 65536 /\ len (f_kinds (filter_of ms)) < 65536 /\
  fits_tags (f_tags (filter_of ms)) /\ filter_size (filter_of ms) < 4294967296.

Definition members_text (ms : list mem) (tail : bytes) : bytes := 123 :: join [44] (map mtext ms) ++ 125 :: tail.

Theorem filter_any_order ms tail out : members_wf ms -> filter_size (filter_of ms) <= len out ->
  filter_from_json (members_text ms tail) out
  = Ok (len (members_text ms tail) - len tail, enc_filter (filter_of ms), enc_filter (filter_of ms) ++ drop (filter_size (filter_of ms)) out).
Proof.
  intros (Hmok & Hnd & Ni & Na & Nk & Hfit & Hsz) Hcap.
  set (f := filter_of ms) in *. set (txt := members_text ms tail).
  set (tags := tags_of ms). set (Ks := Ks_of ms tail).
  assert (HKs : length Ks = length tags) by apply Ks_of_length.
  assert (Hok : Forall tag_ok tags) by (apply tags_of_ok; exact Hmok).
  assert (Et : f_tags f = map tag_of tags) by reflexivity.
  set (ids := f_ids f) in *. set (au := f_authors f) in *. set (ks := f_kinds f) in *.
  set (l := f_limit f) in *. set (s := f_since f) in *. set (u := f_until f) in *.
  set (parts := map mtext ms).
  assert (Hmem : forall m, In m ms -> mem_ok m) by (apply Forall_forall; exact Hmok).
  assert (Hpart : forall m, In m ms -> (length (mtext m) <= length (join [44%N] parts))%nat)
    by (intros m Hin; apply join_part_le; apply in_map; exact Hin).
  assert (Wi : Forall (fun x => wf_bytes x /\ len x = 32) ids).
  { subst ids f. cbn [filter_of f_ids]. destruct (ids_of_from ms []) as [E|Hin]; [rewrite E; constructor|exact (Hmem _ Hin)]. }
  assert (Wa : Forall (fun x => wf_bytes x /\ len x = 32) au).
  { subst au f. cbn [filter_of f_authors]. destruct (au_of_from ms []) as [E|Hin]; [rewrite E; constructor|exact (Hmem _ Hin)]. }
  assert (Wk : Forall (fun k => k < 65536) ks).
  { subst ks f. cbn [filter_of f_kinds]. destruct (ks_of_from ms []) as [E|Hin]; [rewrite E; constructor|exact (Hmem _ Hin)]. }
  assert (Hfs : filter_size f = 32 + 32 * len ids + 32 * len au + 2 * len ks + tags_size (map tag_of tags)) by reflexivity.
  rewrite Hfs in Hcap, Hsz. rewrite Et in Hfit. unfold fits_tags in Hfit. rewrite tags_size_of in Hcap, Hsz, Hfit.
  set (S := sumN (map tag_size (map tag_of tags))) in *.
  (* the text *)
  assert (Ebody : txt = 123 :: (join [44] parts ++ 125 :: tail)) by reflexivity.
  assert (Hjoin : (length (join [44%N] parts) + 2 + length tail <= length txt)%nat)
    by (rewrite Ebody; cbn [length]; rewrite app_length; cbn [length]; lia).
  assert (Hparts : (length ms <= length (join [44%N] parts))%nat).
  { subst parts. rewrite <- (map_length mtext ms). apply join_length_ge. apply Forall_forall. intros p Hp.
    apply in_map_iff in Hp. destruct Hp as [m [<- _]]. apply mtext_nonempty. }
  assert (Hfi : (length ids < Datatypes.S (length txt))%nat).
  { subst ids f. cbn [filter_of f_ids]. destruct (ids_of_from ms []) as [E|Hin]; [rewrite E; cbn [length]; lia|].
    specialize (Hpart _ Hin). cbn [mtext] in Hpart. rewrite !app_length in Hpart. pose proof (hexlist_length (ids_of ms [])). lia. }
  assert (Hfa : (length au < Datatypes.S (length txt))%nat).
  { subst au f. cbn [filter_of f_authors]. destruct (au_of_from ms []) as [E|Hin]; [rewrite E; cbn [length]; lia|].
    specialize (Hpart _ Hin). cbn [mtext] in Hpart. rewrite !app_length in Hpart. pose proof (hexlist_length (au_of ms [])). lia. }
  assert (Hfk : (length ks < Datatypes.S (length txt))%nat).
  { subst ks f. cbn [filter_of f_kinds]. destruct (ks_of_from ms []) as [E|Hin]; [rewrite E; cbn [length]; lia|].
    specialize (Hpart _ Hin). cbn [mtext] in Hpart. rewrite !app_length in Hpart.
    pose proof (declist_length (ks_of ms []) (Hmem _ Hin)). lia. }
  (* the buffer *)
  destruct (split_free out 32 ltac:(lia)) as [Eout L32]. remember (take 32 out) as o32 eqn:Eo32. remember (drop 32 out) as R eqn:ER. clear Eo32.
  assert (LR : len R = len out - 32) by (rewrite ER; apply len_drop).
  unfold filter_from_json, parse_json_filter.
  replace (len txt <? 2) with false by (symmetry; apply N.ltb_ge; unfold len; lia).
  rewrite Eout at 1. change (o32 ++ R) with ([] ++ o32 ++ R).
  rewrite (put_at [] o32 filter_header R 0 eq_refl) by (rewrite L32; reflexivity). cbn [bind app].
  rewrite Ebody at 1. rewrite (eat_ws_nonws 123) by reflexivity. cbn [verify_char]. change (123 =? 123) with true. cbv iota. cbn [bind].
  (* first pass: any order *)
  change filter_header with (([0;0;0;0] ++ [0;0] ++ [0;0] ++ [0;0] ++ [0;0]) ++ le32 4294967295 ++ le64 0 ++ le64 18446744073709551615).
  set (a12 := [0;0;0;0] ++ [0;0] ++ [0;0] ++ [0;0] ++ [0;0]).
  set (st0 := mkFl ((a12 ++ le32 4294967295 ++ le64 0 ++ le64 18446744073709551615) ++ R) 0 [] None None None []).
  assert (Hm : filter_members (Datatypes.S (length txt)) st0 (join [44] parts ++ 125 :: tail) = filter_members (Datatypes.S (length txt)) st0 (members_close parts tail)).
  { rewrite join_members. destruct parts as [|p ps]; [reflexivity|]. cbn [members_close]. rewrite fm_comma. reflexivity. }
  rewrite Hm. clear Hm.
  replace (Datatypes.S (length txt)) with (length ms + Datatypes.S (length txt - length ms))%nat by lia.
  subst parts. rewrite (loop ms st0 _ tail Hmok Hnd).
  2:{ intros m _. destruct m; reflexivity. }
  2:{ subst st0. cbn [fl_out]. rewrite !len_app, len_le32, !len_le64. subst a12. change (len ([0;0;0;0] ++ [0;0] ++ [0;0] ++ [0;0] ++ [0;0])) with 12. lia. }
  cbn [bind].
  replace (length ms + Datatypes.S (length txt - length ms))%nat with (Datatypes.S (length txt)) by lia.
  set (st' := run ms tail st0).
  assert (Si : start_rel (fl_start_ids st') (hexlist ids) (ids = [])).
  { subst st'. rewrite run_start_ids. apply (sids_rel ms tail None []). reflexivity. }
  assert (Sa : start_rel (fl_start_authors st') (hexlist au) (au = [])).
  { subst st'. rewrite run_start_authors. apply (saus_rel ms tail None []). reflexivity. }
  assert (Sk : start_rel (fl_start_kinds st') (declist ks) (ks = [])).
  { subst st'. rewrite run_start_kinds. apply (skis_rel ms tail None []). reflexivity. }
  assert (St : fl_start_tags st' = tstarts_k tags Ks) by (subst st'; rewrite run_start_tags; reflexivity).
  assert (So : fl_out st' = a12 ++ le32 l ++ le64 s ++ le64 u ++ R).
  { subst st'. apply (run_out ms tail st0 a12 4294967295 0 18446744073709551615 R eq_refl).
    subst st0. cbn [fl_out]. rewrite <- !app_assoc. reflexivity. }
  rewrite St, So. clearbody st'. clear st0.
  (* second pass: ids *)
  replace (a12 ++ le32 l ++ le64 s ++ le64 u ++ R)
    with (([0;0;0;0] ++ [0;0] ++ ([0;0] ++ [0;0] ++ [0;0] ++ le32 l ++ le64 s ++ le64 u)) ++ R) by (subst a12; rewrite <- !app_assoc; reflexivity).
  rewrite (opt_hex_gen (fl_start_ids st') ids _ [0;0;0;0] [0;0] _ R 4 32 Wi Hfi) by (try exact Si; try reflexivity; try lia; rewrite ?len_app, ?len_le32, ?len_le64; reflexivity).
  cbn [bind].
  (* authors *)
  replace (([0;0;0;0] ++ le16 (len ids) ++ ([0;0] ++ [0;0] ++ [0;0] ++ le32 l ++ le64 s ++ le64 u) ++ concat ids) ++ drop (32 * len ids) R)
    with ((([0;0;0;0] ++ le16 (len ids)) ++ [0;0] ++ ([0;0] ++ [0;0] ++ le32 l ++ le64 s ++ le64 u ++ concat ids)) ++ drop (32 * len ids) R)
    by (rewrite <- !app_assoc; reflexivity).
  assert (Lcid : len (concat ids) = 32 * len ids).
  { apply len_concat_fixed. eapply Forall_impl; [|exact Wi]. intros x [_ H]. exact H. }
  assert (Lcau : len (concat au) = 32 * len au).
  { apply len_concat_fixed. eapply Forall_impl; [|exact Wa]. intros x [_ H]. exact H. }
  rewrite (opt_hex_gen (fl_start_authors st') au _ ([0;0;0;0] ++ le16 (len ids)) [0;0] _ (drop (32 * len ids) R) 6 (32 + 32 * len ids) Wa Hfa)
    by (try exact Sa; try reflexivity; try lia; rewrite ?len_app, ?len_le16, ?len_le32, ?len_le64, ?len_drop, ?Lcid; change (len [0;0;0;0]) with 4; change (len [0;0]) with 2; try reflexivity; lia).
  cbn [bind].
  (* kinds *)
  replace ((([0;0;0;0] ++ le16 (len ids)) ++ le16 (len au) ++ ([0;0] ++ [0;0] ++ le32 l ++ le64 s ++ le64 u ++ concat ids) ++ concat au) ++ drop (32 * len au) (drop (32 * len ids) R))
    with ((([0;0;0;0] ++ le16 (len ids) ++ le16 (len au)) ++ [0;0] ++ ([0;0] ++ le32 l ++ le64 s ++ le64 u ++ concat ids ++ concat au)) ++ drop (32 * len ids + 32 * len au) R)
    by (rewrite <- !app_assoc, drop_drop; reflexivity).
  rewrite (opt_kinds_gen (fl_start_kinds st') ks _ ([0;0;0;0] ++ le16 (len ids) ++ le16 (len au)) [0;0] _ (drop (32 * len ids + 32 * len au) R) 8 (32 + 32 * len ids + 32 * len au) Wk Hfk)
    by (try exact Sk; try reflexivity; try lia; rewrite ?len_app, ?len_le16, ?len_le32, ?len_le64, ?len_drop, ?Lcid, ?Lcau; change (len [0;0;0;0]) with 4; change (len [0;0]) with 2; try reflexivity; lia).
  cbn [bind].
  (* tags *)
  set (wts := 32 + 32 * len ids + 32 * len au + 2 * len ks).
  assert (Hw : wts = 32 + 32 * len ids + 32 * len au + 2 * len ks) by reflexivity.
  set (P' := le16 (len ids) ++ le16 (len au) ++ le16 (len ks) ++ [0;0] ++ le32 l ++ le64 s ++ le64 u ++ concat ids ++ concat au ++ concat (map le16 ks)).
  set (F3 := drop (32 * len ids + 32 * len au + 2 * len ks) R).
  replace ((([0;0;0;0] ++ le16 (len ids) ++ le16 (len au)) ++ le16 (len ks) ++ ([0;0] ++ le32 l ++ le64 s ++ le64 u ++ concat ids ++ concat au) ++ concat (map le16 ks)) ++ drop (2 * len ks) (drop (32 * len ids + 32 * len au) R))
    with (([0;0;0;0] ++ P') ++ F3) by (subst P' F3; rewrite <- !app_assoc, drop_drop; reflexivity).
  replace (32 + 32 * len ids + 32 * len au + 2 * len ks) with wts by reflexivity.
  assert (LP : len ([0;0;0;0] ++ P') = wts).
  { subst P' wts. rewrite !len_app, !len_le16, len_le32, !len_le64, Lcid, Lcau, len_concat_le16. change (len [0;0;0;0]) with 4. change (len [0;0]) with 2. lia. }
  assert (LF3 : len F3 = len out - wts) by (subst F3 wts; rewrite len_drop, LR; lia).
  rewrite (tstarts_k_len tags Ks HKs).
  destruct (split_free F3 2 ltac:(lia)) as [EF3 Lt2]. remember (take 2 F3) as t2 eqn:Et2. remember (drop 2 F3) as F4 eqn:EF4d. clear Et2.
  assert (LF4 : len F4 = len F3 - 2) by (rewrite EF4d; apply len_drop).
  destruct (split_free F4 2 ltac:(lia)) as [EF4 Ln2]. remember (take 2 F4) as n2 eqn:En2. remember (drop 2 F4) as F5 eqn:EF5d. clear En2.
  assert (LF5 : len F5 = len F3 - 4) by (rewrite EF5d, len_drop; lia).
  destruct (split_free F5 (2 * len tags) ltac:(lia)) as [EF5 Lot]. remember (take (2 * len tags) F5) as ot eqn:Eot. remember (drop (2 * len tags) F5) as F6 eqn:EF6d. clear Eot.
  assert (LF6 : len F6 = len F3 - 4 - 2 * len tags) by (rewrite EF6d, len_drop; lia).
  rewrite EF3 at 1. rewrite EF4 at 1.
  replace (([0;0;0;0] ++ P') ++ t2 ++ n2 ++ F5) with ((([0;0;0;0] ++ P') ++ t2) ++ n2 ++ F5) by (rewrite <- !app_assoc; reflexivity).
  rewrite (put_at (([0;0;0;0] ++ P') ++ t2) n2 (le16 (len tags)) F5 (wts + 2)) by (first [rewrite len_app, LP, Lt2; reflexivity | rewrite len_le16; lia]). cbn [bind].
  rewrite EF5 at 1.
  replace ((([0;0;0;0] ++ P') ++ t2) ++ le16 (len tags) ++ ot ++ F6) with (([0;0;0;0] ++ P') ++ (t2 ++ le16 (len tags)) ++ [] ++ ot ++ [] ++ F6)
    by (cbn [app]; rewrite <- !app_assoc; reflexivity).
  rewrite <- LP at 1 2.
  replace (len ([0;0;0;0] ++ P') + 4 + 2 * len tags) with (len ([0;0;0;0] ++ P') + 4 + 2 * len tags + len (@nil N)) by (change (len (@nil N)) with 0; lia).
  rewrite (copy_tag_fields_gen tags Ks ([0;0;0;0] ++ P') (t2 ++ le16 (len tags)) [] ot [] F6 0 (len tags) HKs Hok)
    by (rewrite ?len_app, ?len_le16; try reflexivity; lia).
  rewrite LP. cbn [bind]. rewrite !app_nil_l. change (len (@nil N)) with 0. rewrite !N.add_0_r.
  fold S.
  replace (wts + 4 + 2 * len tags + S - wts) with (4 + 2 * len tags + S) by lia.
  replace (65535 <? 4 + 2 * len tags + S) with false by (symmetry; apply N.ltb_ge; lia).
  replace (([0;0;0;0] ++ P') ++ (t2 ++ le16 (len tags)) ++ concat (map le16 (offsets (4 + 2 * len tags) (map tag_of tags))) ++ concat (map enc_tag (map tag_of tags)) ++ drop S F6)
    with (([0;0;0;0] ++ P') ++ t2 ++ (le16 (len tags) ++ concat (map le16 (offsets (4 + 2 * len tags) (map tag_of tags))) ++ concat (map enc_tag (map tag_of tags)) ++ drop S F6))
    by (rewrite <- !app_assoc; reflexivity).
  rewrite (put_at ([0;0;0;0] ++ P') t2 (le16 (4 + 2 * len tags + S)) _ wts LP) by (rewrite len_le16; lia). cbn [bind].
  replace (4294967295 <? wts + 4 + 2 * len tags + S) with false by (symmetry; apply N.ltb_ge; subst wts; lia).
  replace (([0;0;0;0] ++ P') ++ le16 (4 + 2 * len tags + S) ++ le16 (len tags) ++ concat (map le16 (offsets (4 + 2 * len tags) (map tag_of tags))) ++ concat (map enc_tag (map tag_of tags)) ++ drop S F6)
    with ([] ++ [0;0;0;0] ++ (P' ++ le16 (4 + 2 * len tags + S) ++ le16 (len tags) ++ concat (map le16 (offsets (4 + 2 * len tags) (map tag_of tags))) ++ concat (map enc_tag (map tag_of tags)) ++ drop S F6))
    by (cbn [app]; rewrite <- ?app_assoc; reflexivity).
  rewrite (put_at [] [0;0;0;0] (le32 (wts + 4 + 2 * len tags + S)) _ 0 eq_refl) by (rewrite len_le32; reflexivity). cbn [bind app].
  (* the buffer is the encoding followed by the rest *)
  assert (Efs : wts + 4 + 2 * len tags + S = filter_size f) by (rewrite Hfs, tags_size_of; subst wts; fold S; lia).
  assert (Eenc : le32 (wts + 4 + 2 * len tags + S) ++ P' ++ le16 (4 + 2 * len tags + S) ++ le16 (len tags) ++
                 concat (map le16 (offsets (4 + 2 * len tags) (map tag_of tags))) ++ concat (map enc_tag (map tag_of tags)) ++ drop S F6
                 = enc_filter f ++ drop (filter_size f) out).
  { assert (Hd : drop S F6 = drop (filter_size f) out).
    { rewrite EF6d, EF5d, EF4d. subst F3. rewrite ER, !drop_drop. f_equal. rewrite <- Efs. lia. }
    rewrite Hd, Efs. unfold enc_filter. fold ids au ks l s u. rewrite Et. unfold enc_tags, tags_hdr. rewrite len_map, tags_size_of. fold S.
    subst P'. rewrite <- !app_assoc. reflexivity. }
  rewrite Eenc.
  assert (Lenc : len (enc_filter f) = filter_size f).
  { unfold enc_filter, filter_size. fold ids au ks l s u. rewrite !len_app, len_le32, !len_le16, len_le32, !len_le64, Lcid, Lcau, len_concat_le16, len_enc_tags. change (len [0;0]) with 2. lia. }
  rewrite Efs.
  replace (len (enc_filter f ++ drop (filter_size f) out) <? filter_size f) with false
    by (symmetry; apply N.ltb_ge; rewrite len_app, Lenc; lia).
  rewrite <- Lenc at 1. rewrite take_app_len. reflexivity.
Qed.
(* ====================== order independence ====================== *)
From Coq Require Import Permutation.

Section Once.
  Variable ms : list mem.
  Hypothesis Hnd : NoDup (map key ms).

  Lemma key_once m m' : In m ms -> In m' ms -> key m = key m' -> m = m'.
  Proof.
    revert Hnd. clear. induction ms as [|x r IH]; intros Hnd Hin Hin' Hk; [destruct Hin|].
    cbn [map] in Hnd. apply NoDup_cons_iff in Hnd. destruct Hnd as [Hn0 Hndr].
    destruct Hin as [->|Hin]; destruct Hin' as [->|Hin'].
    - reflexivity.
    - exfalso. apply Hn0. rewrite Hk. apply in_map. exact Hin'.
    - exfalso. apply Hn0. rewrite <- Hk. apply in_map. exact Hin.
    - apply IH; assumption.
  Qed.
End Once.

(* with distinct keys, each of the six fixed members is determined by membership alone *)
Lemma ids_of_in ms : forall acc l, NoDup (map key ms) -> In (MIds l) ms -> ids_of ms acc = l.
Proof.
  induction ms as [|m r IH]; intros acc l Hnd Hin; [destruct Hin|].
  cbn [map] in Hnd. apply NoDup_cons_iff in Hnd. destruct Hnd as [Hn0 Hndr].
  destruct Hin as [->|Hin].
  - cbn [ids_of]. destruct (ids_of_from r l) as [E|Hin']; [exact E|].
    exfalso. apply Hn0. change (key (MIds l)) with (key (MIds (ids_of r l))). apply in_map. exact Hin'.
  - destruct m; cbn [ids_of]; apply IH; assumption.
Qed.
Lemma ids_of_notin ms : forall acc, (forall l, ~ In (MIds l) ms) -> ids_of ms acc = acc.
Proof. intros acc H. destruct (ids_of_from ms acc) as [E|Hin]; [exact E|]. exfalso. exact (H _ Hin). Qed.
Lemma au_of_in ms : forall acc l, NoDup (map key ms) -> In (MAuthors l) ms -> au_of ms acc = l.
Proof.
  induction ms as [|m r IH]; intros acc l Hnd Hin; [destruct Hin|].
  cbn [map] in Hnd. apply NoDup_cons_iff in Hnd. destruct Hnd as [Hn0 Hndr].
  destruct Hin as [->|Hin].
  - cbn [au_of]. destruct (au_of_from r l) as [E|Hin']; [exact E|].
    exfalso. apply Hn0. change (key (MAuthors l)) with (key (MAuthors (au_of r l))). apply in_map. exact Hin'.
  - destruct m; cbn [au_of]; apply IH; assumption.
Qed.
Lemma au_of_notin ms : forall acc, (forall l, ~ In (MAuthors l) ms) -> au_of ms acc = acc.
Proof. intros acc H. destruct (au_of_from ms acc) as [E|Hin]; [exact E|]. exfalso. exact (H _ Hin). Qed.
Lemma ks_of_in ms : forall acc l, NoDup (map key ms) -> In (MKinds l) ms -> ks_of ms acc = l.
Proof.
  induction ms as [|m r IH]; intros acc l Hnd Hin; [destruct Hin|].
  cbn [map] in Hnd. apply NoDup_cons_iff in Hnd. destruct Hnd as [Hn0 Hndr].
  destruct Hin as [->|Hin].
  - cbn [ks_of]. destruct (ks_of_from r l) as [E|Hin']; [exact E|].
    exfalso. apply Hn0. change (key (MKinds l)) with (key (MKinds (ks_of r l))). apply in_map. exact Hin'.
  - destruct m; cbn [ks_of]; apply IH; assumption.
Qed.
Lemma ks_of_notin ms : forall acc, (forall l, ~ In (MKinds l) ms) -> ks_of ms acc = acc.
Proof. intros acc H. destruct (ks_of_from ms acc) as [E|Hin]; [exact E|]. exfalso. exact (H _ Hin). Qed.

(* the numbers: the value is that of the one member present (saturated for limit), or the default *)
Lemma lim_of_from ms : forall acc, lim_of ms acc = acc \/ exists u, In (MLimit u) ms /\ lim_of ms acc = N.min u 4294967295.
Proof.
  induction ms as [|m r IH]; intros acc; [left; reflexivity|].
  destruct m as [ | | | |u| | |uk uv]; cbn [lim_of]; try (destruct (IH acc) as [E|[v [H E]]]; [left; exact E|right; exists v; split; [right; exact H|exact E]]).
  destruct (IH (N.min u 4294967295)) as [E|[v [H E]]]; right; [exists u; split; [left; reflexivity|exact E]|exists v; split; [right; exact H|exact E]].
Qed.
Lemma sin_of_from ms : forall acc, sin_of ms acc = acc \/ In (MSince (sin_of ms acc)) ms.
Proof.
  induction ms as [|m r IH]; intros acc; [left; reflexivity|].
  destruct m as [ | | | | |u| | ]; cbn [sin_of]; try (destruct (IH acc) as [E|H]; [left; exact E|right; right; exact H]).
  destruct (IH u) as [E|H]; [right; left; rewrite E; reflexivity|right; right; exact H].
Qed.
Lemma unt_of_from ms : forall acc, unt_of ms acc = acc \/ In (MUntil (unt_of ms acc)) ms.
Proof.
  induction ms as [|m r IH]; intros acc; [left; reflexivity|].
  destruct m as [ | | | | | |u| ]; cbn [unt_of]; try (destruct (IH acc) as [E|H]; [left; exact E|right; right; exact H]).
  destruct (IH u) as [E|H]; [right; left; rewrite E; reflexivity|right; right; exact H].
Qed.
Lemma lim_of_in ms : forall acc u, NoDup (map key ms) -> In (MLimit u) ms -> lim_of ms acc = N.min u 4294967295.
Proof.
  intros acc u Hnd Hin. revert acc. induction ms as [|m r IH]; intros acc; [destruct Hin|].
  cbn [map] in Hnd. apply NoDup_cons_iff in Hnd. destruct Hnd as [Hn0 Hndr].
  destruct Hin as [->|Hin].
  - cbn [lim_of]. destruct (lim_of_from r (N.min u 4294967295)) as [E|[v [Hin' _]]]; [exact E|].
    exfalso. apply Hn0. change (key (MLimit u)) with (key (MLimit v)). apply in_map. exact Hin'.
  - destruct m; cbn [lim_of]; apply IH; assumption.
Qed.
Lemma sin_of_in ms : forall acc u, NoDup (map key ms) -> In (MSince u) ms -> sin_of ms acc = u.
Proof.
  intros acc u Hnd Hin. revert acc. induction ms as [|m r IH]; intros acc; [destruct Hin|].
  cbn [map] in Hnd. apply NoDup_cons_iff in Hnd. destruct Hnd as [Hn0 Hndr].
  destruct Hin as [->|Hin].
  - cbn [sin_of]. destruct (sin_of_from r u) as [E|Hin']; [exact E|].
    exfalso. apply Hn0. change (key (MSince u)) with (key (MSince (sin_of r u))). apply in_map. exact Hin'.
  - destruct m; cbn [sin_of]; apply IH; assumption.
Qed.
Lemma unt_of_in ms : forall acc u, NoDup (map key ms) -> In (MUntil u) ms -> unt_of ms acc = u.
Proof.
  intros acc u Hnd Hin. revert acc. induction ms as [|m r IH]; intros acc; [destruct Hin|].
  cbn [map] in Hnd. apply NoDup_cons_iff in Hnd. destruct Hnd as [Hn0 Hndr].
  destruct Hin as [->|Hin].
  - cbn [unt_of]. destruct (unt_of_from r u) as [E|Hin']; [exact E|].
    exfalso. apply Hn0. change (key (MUntil u)) with (key (MUntil (unt_of r u))). apply in_map. exact Hin'.
  - destruct m; cbn [unt_of]; apply IH; assumption.
Qed.

(* two member lists with the same members (any order) and the same tag-field order denote the same filter *)
Lemma filter_of_perm ms ms' : NoDup (map key ms) -> Permutation ms ms' -> tags_of ms = tags_of ms' -> filter_of ms' = filter_of ms.
Proof.
  intros Hnd Hp Ht.
  assert (Hnd' : NoDup (map key ms')) by (eapply Permutation_NoDup; [apply Permutation_map; exact Hp|exact Hnd]).
  assert (Hin : forall m, In m ms <-> In m ms') by (intros m; split; apply Permutation_in; [exact Hp|apply Permutation_sym; exact Hp]).
  unfold filter_of. rewrite <- Ht. f_equal.
  - destruct (ids_of_from ms []) as [E|H].
    + rewrite E. destruct (ids_of_from ms' []) as [E'|H']; [exact E'|].
      apply Hin in H'. rewrite (ids_of_in ms [] _ Hnd H') in E. rewrite E. reflexivity.
    + rewrite (ids_of_in ms' [] _ Hnd' (proj1 (Hin _) H)). reflexivity.
  - destruct (au_of_from ms []) as [E|H].
    + rewrite E. destruct (au_of_from ms' []) as [E'|H']; [exact E'|].
      apply Hin in H'. rewrite (au_of_in ms [] _ Hnd H') in E. rewrite E. reflexivity.
    + rewrite (au_of_in ms' [] _ Hnd' (proj1 (Hin _) H)). reflexivity.
  - destruct (ks_of_from ms []) as [E|H].
    + rewrite E. destruct (ks_of_from ms' []) as [E'|H']; [exact E'|].
      apply Hin in H'. rewrite (ks_of_in ms [] _ Hnd H') in E. rewrite E. reflexivity.
    + rewrite (ks_of_in ms' [] _ Hnd' (proj1 (Hin _) H)). reflexivity.
  - destruct (sin_of_from ms 0) as [E|H].
    + rewrite E. destruct (sin_of_from ms' 0) as [E'|H']; [exact E'|].
      apply Hin in H'. rewrite (sin_of_in ms 0 _ Hnd H') in E. rewrite E. reflexivity.
    + rewrite (sin_of_in ms' 0 _ Hnd' (proj1 (Hin _) H)). reflexivity.
  - destruct (unt_of_from ms 18446744073709551615) as [E|H].
    + rewrite E. destruct (unt_of_from ms' 18446744073709551615) as [E'|H']; [exact E'|].
      apply Hin in H'. rewrite (unt_of_in ms _ _ Hnd H') in E. rewrite E. reflexivity.
    + rewrite (unt_of_in ms' _ _ Hnd' (proj1 (Hin _) H)). reflexivity.
  - destruct (lim_of_from ms 4294967295) as [E|[v [H E]]].
    + rewrite E. destruct (lim_of_from ms' 4294967295) as [E'|[v' [H' E']]]; [exact E'|].
      apply Hin in H'. rewrite (lim_of_in ms _ _ Hnd H') in E. rewrite E', E. reflexivity.
    + rewrite E. apply (lim_of_in ms' _ _ Hnd' (proj1 (Hin _) H)).
Qed.

Theorem filter_order_independent ms ms' tail tail' out : members_wf ms -> Permutation ms ms' -> tags_of ms = tags_of ms' ->
  filter_size (filter_of ms) <= len out ->
  exists c c' enc buf, filter_from_json (members_text ms tail) out = Ok (c, enc, buf) /\
                       filter_from_json (members_text ms' tail') out = Ok (c', enc, buf).
Proof.
  intros Hwf Hp Ht Hcap. pose proof Hwf as (Hmok & Hnd & Rest).
  pose proof (filter_of_perm ms ms' Hnd Hp Ht) as Ef.
  assert (Hwf' : members_wf ms').
  { unfold members_wf. rewrite Ef. refine (conj _ (conj _ Rest)).
    - apply Forall_forall. intros m Hin. rewrite Forall_forall in Hmok. apply Hmok. apply Permutation_in with ms'; [apply Permutation_sym; exact Hp|exact Hin].
    - eapply Permutation_NoDup; [apply Permutation_map; exact Hp|exact Hnd]. }
  eexists _, _, _, _. split.
  - apply (filter_any_order ms tail out Hwf Hcap).
  - rewrite (filter_any_order ms' tail' out Hwf') by (rewrite Ef; exact Hcap). rewrite Ef. reflexivity.
Qed.

(* ====================== unknown members ====================== *)
From Pocket Require Import EventAnyOrder.

Definition filter_names : list bytes :=
  [[105; 100; 115]; [97; 117; 116; 104; 111; 114; 115]; [107; 105; 110; 100; 115]; [115; 105; 110; 99; 101];
   [117; 110; 116; 105; 108]; [108; 105; 109; 105; 116]].

(* a key without quote or backslash that is none of the six names and not of the form #<letter> is unknown to the filter parser *)
Lemma plain_unknown_fkey k : Forall (fun c => c <> 34 /\ c <> 92) k -> ~ In k filter_names ->
  (forall L, is_letter L = true -> k <> [35; L]) -> unknown_fkey k.
Proof.
  intros Hp Hn Ht. split; [apply plain_skippable; exact Hp|].
  assert (Hq : ~ In 34 k) by (intros X; rewrite Forall_forall in Hp; destruct (Hp _ X) as [Y _]; apply Y; reflexivity).
  assert (G : forall name rest, In name filter_names -> starts_with (name ++ [34]) (k ++ 34 :: rest) = false).
  { intros name rest Hin. destruct (starts_with (name ++ [34]) (k ++ 34 :: rest)) eqn:E; [|reflexivity]. exfalso.
    apply Hn. assert (k = name); [|subst; exact Hin]. apply (starts_with_name name k rest); [|exact Hq|exact E].
    unfold filter_names in Hin. cbn [In] in Hin. intros X.
    repeat (destruct Hin as [<-|Hin]; [cbn [In] in X; repeat (destruct X as [X|X]; [discriminate X|]); exact X|]). exact Hin. }
  intros rest. unfold filter_names in G.
  refine (conj (G [105; 100; 115] rest _) (conj (G [97; 117; 116; 104; 111; 114; 115] rest _) (conj (G [107; 105; 110; 100; 115] rest _)
          (conj (G [115; 105; 110; 99; 101] rest _) (conj (G [117; 110; 116; 105; 108] rest _) (conj (G [108; 105; 109; 105; 116] rest _) _))))));
    try (cbn [In]; auto 8).
  (* not a tag key *)
  unfold ftagkey. destruct k as [|h [|letter [|q r]]]; cbn [app].
  - destruct rest as [|a0 [|b0 r0]]; reflexivity.
  - destruct rest as [|b0 r0]; [reflexivity|]. destruct (h =? 35); reflexivity.
  - destruct (N.eqb_spec h 35) as [->|]; [|reflexivity]. cbn [andb].
    destruct (is_letter letter) eqn:El; [|reflexivity]. exfalso. apply (Ht letter El). reflexivity.
  - destruct (N.eqb_spec q 34) as [->|]; [|rewrite andb_false_r; reflexivity]. exfalso. apply Hq. right. right. left. reflexivity.
Qed.

(* every escape spelling of the tag values is covered: mem_ok (MTag t) is tag_ok t, stated over the semantic relation escd *)
From Pocket Require Import Spelling.
Lemma tag_ok_any_spelling L cpss pss : is_letter L = true -> Forall2 spelling cpss pss ->
  tag_ok (L, (map utf8_of cpss, map (@concat N) pss)).
Proof.
  intros HL H. split; [exact HL|]. cbn [fst snd].
  induction H as [|cps ps r1 r2 Hs _ IH]; cbn [map]; constructor; [apply spelling_escd; exact Hs|exact IH].
Qed.
