(* Filter JSON: WHITE SPACE AND COMMAS AT THE LOOP HEADS, for EVERY text (not only the library's spelling).
   Every loop of parse_json_filter - the member loop and the three array loops of the second pass - starts an
   iteration by skipping white space and commas.  So (1) a run of such bytes in front of any member, array item,
   closing brace or closing bracket never changes what the loop returns, whatever the state, the fuel and the rest
   of the text; (2) more fuel never changes an answer; and (3) for EVERY accepted filter text, white space before the
   opening brace and white space / commas right after it leave the encoded filter and the buffer unchanged and
   only add their length to the consumed count. *)
From Coq Require Import List NArith Lia Bool.
Import ListNotations.
From Pocket Require Import Bytes Layout Codec JsonParse ParseTotal.
Open Scope N_scope.
Arguments N.add : simpl never. Arguments N.sub : simpl never. Arguments N.mul : simpl never.
Arguments N.eqb : simpl never. Arguments N.ltb : simpl never. Arguments N.leb : simpl never.

Definition gapc (c : N) : bool := is_ws c || (c =? 44).
Definition gap (g : bytes) : Prop := Forall (fun c => gapc c = true) g.
Definition wsrun (w : bytes) : Prop := Forall (fun c => is_ws c = true) w.

Lemma eat_ws_commas_gap g l : gap g -> eat_ws_commas (g ++ l) = eat_ws_commas l.
Proof.
  intros H. induction H as [|c g Hc _ IH]; [reflexivity|].
  cbn [app eat_ws_commas]. unfold gapc in Hc. rewrite Hc. exact IH.
Qed.
Lemma eat_ws_wsrun w c l : wsrun w -> is_ws c = false -> eat_ws (w ++ c :: l) = c :: l.
Proof.
  intros H Hc. induction H as [|d w Hd _ IH]; cbn [app eat_ws]; [rewrite Hc; reflexivity|rewrite Hd; exact IH].
Qed.

(* ---------- (1) a gap at the head of any loop is invisible ---------- *)
Lemma filter_members_gap fuel st g l : gap g -> filter_members fuel st (g ++ l) = filter_members fuel st l.
Proof. intros H. destruct fuel; [reflexivity|]. cbn [filter_members]. rewrite (eat_ws_commas_gap g l H). reflexivity. Qed.
Lemma copy_hex32_gap fuel g l out e n : gap g -> copy_hex32 fuel (g ++ l) out e n = copy_hex32 fuel l out e n.
Proof. intros H. destruct fuel; [reflexivity|]. cbn [copy_hex32]. rewrite (eat_ws_commas_gap g l H). reflexivity. Qed.
Lemma copy_kinds_gap fuel g l out e n : gap g -> copy_kinds fuel (g ++ l) out e n = copy_kinds fuel l out e n.
Proof. intros H. destruct fuel; [reflexivity|]. cbn [copy_kinds]. rewrite (eat_ws_commas_gap g l H). reflexivity. Qed.
Lemma copy_tag_values_gap fuel g l out e n : gap g -> copy_tag_values fuel (g ++ l) out e n = copy_tag_values fuel l out e n.
Proof. intros H. destruct fuel; [reflexivity|]. cbn [copy_tag_values]. rewrite (eat_ws_commas_gap g l H). reflexivity. Qed.

(* ---------- (2) more fuel never changes an answer ---------- *)
Ltac bstep H :=
  match type of H with
  | bind ?r _ = Ok _ => destruct r as [?a| | |]; cbn [bind] in H |- *; try discriminate H
  | (if ?b then _ else _) = Ok _ => destruct b; try discriminate H
  | (let '(_, _) := ?p in _) = Ok _ => destruct p
  end.

Lemma filter_members_mono fuel : forall st l x k, filter_members fuel st l = Ok x -> filter_members (fuel + k) st l = Ok x.
Proof.
  induction fuel as [|fuel IH]; intros st l x k H; [discriminate H|].
  cbn [filter_members plus] in H |- *.
  bstep H. bstep H; [exact H|]. bstep H. bstep H. bstep H. apply IH. exact H.
Qed.
Lemma copy_hex32_mono fuel : forall l out e n x k, copy_hex32 fuel l out e n = Ok x -> copy_hex32 (fuel + k) l out e n = Ok x.
Proof.
  induction fuel as [|fuel IH]; intros l out e n x k H; [discriminate H|].
  cbn [copy_hex32 plus] in H |- *.
  bstep H. bstep H; [exact H|]. bstep H. bstep H. bstep H. bstep H. bstep H. apply IH. exact H.
Qed.
Lemma copy_kinds_mono fuel : forall l out e n x k, copy_kinds fuel l out e n = Ok x -> copy_kinds (fuel + k) l out e n = Ok x.
Proof.
  induction fuel as [|fuel IH]; intros l out e n x k H; [discriminate H|].
  cbn [copy_kinds plus] in H |- *.
  bstep H. bstep H; [exact H|]. bstep H. bstep H. bstep H. bstep H. bstep H. apply IH. exact H.
Qed.

(* ---------- (3) the whole parser: leading white space and a gap after the opening brace ---------- *)
Theorem filter_leading_gap w g r out c n o : wsrun w -> gap g ->
  parse_json_filter (123 :: r) out = Ok (c, n, o) ->
  parse_json_filter (w ++ 123 :: g ++ r) out = Ok (len w + len g + c, n, o).
Proof.
  intros Hw Hg H. unfold parse_json_filter in H |- *.
  assert (EF : S (length (w ++ 123 :: g ++ r)) = Nat.add (S (length (123 :: r))) (Nat.add (length w) (length g)))
    by (rewrite app_length; cbn [length]; rewrite app_length; lia).
  assert (EL : len (w ++ 123 :: g ++ r) = len w + len g + len (123 :: r))
    by (rewrite len_app, !len_cons, len_app; lia).
  rewrite EF, EL. clear EF EL.
  rewrite (eat_ws_wsrun w 123 (g ++ r) Hw eq_refl).
  change (eat_ws (123 :: r)) with (123 :: r) in H.
  change (verify_char 123 (123 :: ?x)) with (Ok x) in H |- *.
  destruct (len (123 :: r) <? 2) eqn:E2; [discriminate H|].
  replace (len w + len g + len (123 :: r) <? 2) with false by lia.
  remember (S (length (123 :: r))) as F eqn:EFu. remember (Nat.add (length w) (length g)) as k eqn:Ek.
  destruct (put out 0 filter_header) as [out0| | |]; cbn [bind] in H |- *; try discriminate H.
  rewrite (filter_members_gap _ _ g r Hg).
  destruct (filter_members F (mkFl out0 0 [] None None None []) r) as [[st rfin]| | |] eqn:Em; cbn [bind] in H; try discriminate H.
  rewrite (filter_members_mono F _ _ _ k Em). cbn [bind].
  assert (Lr : (length rfin <= length r)%nat).
  { destruct (filter_members_props (S (length r)) F (mkFl out0 0 [] None None None []) r) as [_ L];
      [subst F; cbn [length]; lia|cbn [length]; lia|constructor|].
    exact (proj1 (L _ _ Em)). }
  cbv zeta in H |- *.
  (* ids *)
  destruct (fl_start_ids st) as [s1|].
  - destruct (copy_hex32 F s1 (fl_out st) 32 0) as [[[oa ea] na]| | |] eqn:E1; cbn [bind] in H; try discriminate H.
    rewrite (copy_hex32_mono F _ _ _ _ _ k E1). cbn [bind].
    destruct (put oa 4 (le16 na)) as [o1| | |]; cbn [bind] in H |- *; try discriminate H.
    revert H. generalize o1 ea. clear E1. intros o1' e1' H.
    (* authors *)
    destruct (fl_start_authors st) as [s2|].
    + destruct (copy_hex32 F s2 o1' e1' 0) as [[[ob eb] nb]| | |] eqn:E3; cbn [bind] in H; try discriminate H.
      rewrite (copy_hex32_mono F _ _ _ _ _ k E3). cbn [bind].
      destruct (put ob 6 (le16 nb)) as [o2| | |]; cbn [bind] in H |- *; try discriminate H.
      destruct (fl_start_kinds st) as [s3|].
      * destruct (copy_kinds F s3 o2 eb 0) as [[[oc ec] nc]| | |] eqn:E4; cbn [bind] in H; try discriminate H.
        rewrite (copy_kinds_mono F _ _ _ _ _ k E4). cbn [bind].
        destruct (put oc 8 (le16 nc)) as [o3| | |]; cbn [bind] in H |- *; try discriminate H.
        repeat bstep H. injection H as <- <- <-. f_equal. f_equal. f_equal.
        unfold len in *. cbn [length] in *. lia.
      * cbn [bind] in H |- *. repeat bstep H. injection H as <- <- <-. f_equal. f_equal. f_equal.
        unfold len in *. cbn [length] in *. lia.
    + cbn [bind] in H |- *.
      destruct (fl_start_kinds st) as [s3|].
      * destruct (copy_kinds F s3 o1' e1' 0) as [[[oc ec] nc]| | |] eqn:E4; cbn [bind] in H; try discriminate H.
        rewrite (copy_kinds_mono F _ _ _ _ _ k E4). cbn [bind].
        destruct (put oc 8 (le16 nc)) as [o3| | |]; cbn [bind] in H |- *; try discriminate H.
        repeat bstep H. injection H as <- <- <-. f_equal. f_equal. f_equal.
        unfold len in *. cbn [length] in *. lia.
      * cbn [bind] in H |- *. repeat bstep H. injection H as <- <- <-. f_equal. f_equal. f_equal.
        unfold len in *. cbn [length] in *. lia.
  - cbn [bind] in H |- *.
    destruct (fl_start_authors st) as [s2|].
    + destruct (copy_hex32 F s2 (fl_out st) 32 0) as [[[ob eb] nb]| | |] eqn:E3; cbn [bind] in H; try discriminate H.
      rewrite (copy_hex32_mono F _ _ _ _ _ k E3). cbn [bind].
      destruct (put ob 6 (le16 nb)) as [o2| | |]; cbn [bind] in H |- *; try discriminate H.
      destruct (fl_start_kinds st) as [s3|].
      * destruct (copy_kinds F s3 o2 eb 0) as [[[oc ec] nc]| | |] eqn:E4; cbn [bind] in H; try discriminate H.
        rewrite (copy_kinds_mono F _ _ _ _ _ k E4). cbn [bind].
        destruct (put oc 8 (le16 nc)) as [o3| | |]; cbn [bind] in H |- *; try discriminate H.
        repeat bstep H. injection H as <- <- <-. f_equal. f_equal. f_equal.
        unfold len in *. cbn [length] in *. lia.
      * cbn [bind] in H |- *. repeat bstep H. injection H as <- <- <-. f_equal. f_equal. f_equal.
        unfold len in *. cbn [length] in *. lia.
    + cbn [bind] in H |- *.
      destruct (fl_start_kinds st) as [s3|].
      * destruct (copy_kinds F s3 (fl_out st) 32 0) as [[[oc ec] nc]| | |] eqn:E4; cbn [bind] in H; try discriminate H.
        rewrite (copy_kinds_mono F _ _ _ _ _ k E4). cbn [bind].
        destruct (put oc 8 (le16 nc)) as [o3| | |]; cbn [bind] in H |- *; try discriminate H.
        repeat bstep H. injection H as <- <- <-. f_equal. f_equal. f_equal.
        unfold len in *. cbn [length] in *. lia.
      * cbn [bind] in H |- *. repeat bstep H. injection H as <- <- <-. f_equal. f_equal. f_equal.
        unfold len in *. cbn [length] in *. lia.
Qed.

Theorem filter_from_json_leading_gap w g r out c enc buf : wsrun w -> gap g ->
  filter_from_json (123 :: r) out = Ok (c, enc, buf) ->
  filter_from_json (w ++ 123 :: g ++ r) out = Ok (len w + len g + c, enc, buf).
Proof.
  intros Hw Hg H. unfold filter_from_json in H |- *.
  destruct (parse_json_filter (123 :: r) out) as [[[c0 n0] o0]| | |] eqn:E; cbn [bind] in H; try discriminate H.
  rewrite (filter_leading_gap w g r out c0 n0 o0 Hw Hg E). cbn [bind].
  destruct (len o0 <? n0); [discriminate H|]. injection H as <- <- <-. reflexivity.
Qed.

Theorem loop_heads_ignore_gaps g : gap g ->
  (forall fuel st l, filter_members fuel st (g ++ l) = filter_members fuel st l) /\
  (forall fuel l out e n, copy_hex32 fuel (g ++ l) out e n = copy_hex32 fuel l out e n) /\
  (forall fuel l out e n, copy_kinds fuel (g ++ l) out e n = copy_kinds fuel l out e n) /\
  (forall fuel l out e n, copy_tag_values fuel (g ++ l) out e n = copy_tag_values fuel l out e n).
Proof.
  intros H. refine (conj _ (conj _ (conj _ _))); intros.
  - apply filter_members_gap; exact H.
  - apply copy_hex32_gap; exact H.
  - apply copy_kinds_gap; exact H.
  - apply copy_tag_values_gap; exact H.
Qed.
