(* FilterRoundTrip.v — Filter::from_json (Filter::as_json f) writes exactly enc_filter f (C07):
   for every well-formed filter whose tag constraints have distinct one-letter names and at least the name,
   with valid UTF-8 values, whatever members are present or omitted (ids, authors, kinds, tag fields, limit,
   since, until are each written only when they differ from the default), and whatever the caller's buffer held.
   Part A: the arrays (second pass) and the pieces of text the first pass skips. *)
From Pocket Require Import JsonParse EscapeProofs EscapeRoundTrip HexProofs NumProofs CanonInj JsonRoundTrip.

Lemma F2_cons {A B} (R : A -> B -> Prop) a l b l' : Forall2 R (a :: l) (b :: l') <-> R a b /\ Forall2 R l l'.
Proof. split; [intros H; inversion H; subst; split; assumption|intros [H1 H2]; constructor; assumption]. Qed.

(* ---------- text pieces ---------- *)
Definition hex_item (x : bytes) : bytes := [34] ++ write_hex x ++ [34].
Definition hexlist (l : list bytes) : bytes := join [44] (map hex_item l).
Definition declist (l : list N) : bytes := join [44] (map dec l).

Lemma eat_ws_commas_stop c r : is_ws c = false -> c <> 44 -> eat_ws_commas (c :: r) = c :: r.
Proof. intros H1 H2. cbn [eat_ws_commas]. rewrite H1. replace (c =? 44) with false by lia. reflexivity. Qed.
Lemma eat_ws_commas_comma r : eat_ws_commas (44 :: r) = eat_ws_commas r.
Proof. reflexivity. Qed.

(* items joined by commas and closed by a bracket, seen as: item, then (`,` item)*, then `]` *)
Fixpoint items_close (items : list bytes) (K : bytes) : bytes :=
  match items with [] => 93 :: K | x :: r => 44 :: x ++ items_close r K end.
Lemma join_close_items items K : join [44] items ++ 93 :: K = match items with [] => 93 :: K | x :: r => x ++ items_close r K end.
Proof.
  destruct items as [|x r]; [reflexivity|]. revert x; induction r as [|y r IH]; intros x; [reflexivity|].
  change (join [44] (x :: y :: r)) with (x ++ [44] ++ join [44] (y :: r)). rewrite <- !app_assoc. cbn [app items_close]. rewrite IH. reflexivity.
Qed.

(* ---------- second pass over a hex array ---------- *)
Lemma copy_hex32_done fuel l K out endp num : eat_ws_commas l = 93 :: K -> copy_hex32 (S fuel) l out endp num = Ok (out, endp, num).
Proof. intros H. cbn [copy_hex32]. rewrite H. cbn [peek bind]. change (93 =? 93) with true. reflexivity. Qed.

Lemma copy_hex32_step fuel l x c0 rest0 pre F endp num : wf_bytes x -> len x = 32 -> len pre = endp -> 32 <= len F -> num < 65535 ->
  eat_ws_commas l = 34 :: write_hex x ++ 34 :: c0 :: rest0 ->
  copy_hex32 (S fuel) l (pre ++ F) endp num = copy_hex32 fuel (c0 :: rest0) ((pre ++ x) ++ drop 32 F) (endp + 32) (num + 1).
Proof.
  intros Wx Lx Lp Hcap Hn H. cbn [copy_hex32]. rewrite H. cbn [peek bind]. change (34 =? 93) with false. cbv iota.
  replace (len (pre ++ F) - endp <? 32) with false by (symmetry; apply N.ltb_ge; rewrite len_app; lia).
  rewrite (read_hex_quoted_spec 32 x c0 rest0 Wx Lx). cbn [bind].
  destruct (split_free F 32 Hcap) as [EF L32]. remember (take 32 F) as f32 eqn:Ef. remember (drop 32 F) as F1 eqn:EF1. clear Ef.
  rewrite EF at 1. rewrite (put_at pre f32 x F1 endp Lp) by lia. cbn [bind].
  replace (65535 <=? num) with false by (symmetry; apply N.leb_gt; lia).
  rewrite <- app_assoc. reflexivity.
Qed.

Lemma items_close_head (items : list bytes) K : exists c rest, items_close items K = c :: rest.
Proof. destruct items; cbn [items_close]; eexists _, _; reflexivity. Qed.

Lemma copy_hex32_items ids : forall fuel pre F K endp num, Forall (fun x => wf_bytes x /\ len x = 32) ids ->
  (length ids < fuel)%nat -> len pre = endp -> 32 * len ids <= len F -> num + len ids < 65536 ->
  copy_hex32 fuel (items_close (map hex_item ids) K) (pre ++ F) endp num
  = Ok (pre ++ concat ids ++ drop (32 * len ids) F, endp + 32 * len ids, num + len ids).
Proof.
  induction ids as [|x r IH]; intros fuel pre F K endp num Hw Hf Lp Hcap Hn; (destruct fuel as [|fuel]; [cbn [length] in Hf; lia|]).
  - cbn [map items_close]. rewrite (copy_hex32_done fuel _ K) by (apply eat_ws_commas_stop; [reflexivity|lia]).
    change (len (@nil bytes)) with 0. rewrite N.mul_0_r, !N.add_0_r. cbn [concat app]. reflexivity.
  - apply Forall_cons_iff in Hw. destruct Hw as [[Wx Lx] Hwr]. rewrite len_cons in *. cbn [map items_close].
    destruct (items_close_head (map hex_item r) K) as [c0 [rest0 E0]].
    assert (Hews : eat_ws_commas (44 :: hex_item x ++ items_close (map hex_item r) K) = 34 :: write_hex x ++ 34 :: c0 :: rest0).
    { rewrite eat_ws_commas_comma. unfold hex_item at 1. cbn [app]. rewrite <- app_assoc. cbn [app]. rewrite E0. apply eat_ws_commas_stop; [reflexivity|lia]. }
    rewrite (copy_hex32_step fuel _ x c0 rest0 pre F endp num Wx Lx Lp ltac:(lia) ltac:(lia) Hews).
    rewrite <- E0. rewrite (IH fuel (pre ++ x) (drop 32 F) K (endp + 32) (num + 1) Hwr).
    2:{ cbn [length] in Hf. lia. }
    2:{ rewrite len_app. lia. }
    2:{ rewrite len_drop. lia. }
    2:{ lia. }
    cbn [concat]. rewrite <- !app_assoc, drop_drop.
    replace (32 + 32 * len r) with (32 * (1 + len r)) by lia. replace (endp + 32 + 32 * len r) with (endp + 32 * (1 + len r)) by lia.
    replace (num + 1 + len r) with (num + (1 + len r)) by lia. reflexivity.
Qed.

(* the whole array text, starting after the opening bracket *)
Lemma hexlist_items ids K : hexlist ids ++ 93 :: K = match ids with [] => 93 :: K | x :: r => hex_item x ++ items_close (map hex_item r) K end.
Proof. unfold hexlist. rewrite join_close_items. destruct ids; reflexivity. Qed.

Lemma copy_hex32_spec ids fuel pre F K endp : Forall (fun x => wf_bytes x /\ len x = 32) ids ->
  (length ids < fuel)%nat -> len pre = endp -> 32 * len ids <= len F -> len ids < 65536 ->
  copy_hex32 fuel (hexlist ids ++ 93 :: K) (pre ++ F) endp 0
  = Ok (pre ++ concat ids ++ drop (32 * len ids) F, endp + 32 * len ids, len ids).
Proof.
  intros Hw Hf Lp Hcap Hn. rewrite hexlist_items. destruct ids as [|x r].
  - pose proof (copy_hex32_items [] fuel pre F K endp 0 Hw Hf Lp Hcap) as H. cbn [map items_close] in H. rewrite H by lia. reflexivity.
  - apply Forall_cons_iff in Hw. destruct Hw as [[Wx Lx] Hwr]. rewrite len_cons in *. destruct fuel as [|fuel]; [cbn [length] in Hf; lia|].
    destruct (items_close_head (map hex_item r) K) as [c0 [rest0 E0]].
    assert (Hews : eat_ws_commas (hex_item x ++ items_close (map hex_item r) K) = 34 :: write_hex x ++ 34 :: c0 :: rest0).
    { unfold hex_item at 1. cbn [app]. rewrite <- app_assoc. cbn [app]. rewrite E0. apply eat_ws_commas_stop; [reflexivity|lia]. }
    rewrite (copy_hex32_step fuel _ x c0 rest0 pre F endp 0 Wx Lx Lp ltac:(lia) ltac:(lia) Hews).
    rewrite <- E0. rewrite (copy_hex32_items r fuel (pre ++ x) (drop 32 F) K (endp + 32) (0 + 1) Hwr).
    2:{ cbn [length] in Hf. lia. }
    2:{ rewrite len_app. lia. }
    2:{ rewrite len_drop. lia. }
    2:{ lia. }
    cbn [concat]. rewrite <- !app_assoc, drop_drop.
    replace (32 + 32 * len r) with (32 * (1 + len r)) by lia. replace (endp + 32 + 32 * len r) with (endp + 32 * (1 + len r)) by lia.
    replace (0 + 1 + len r) with (1 + len r) by lia. reflexivity.
Qed.

(* ---------- second pass over the kinds array ---------- *)
Lemma copy_kinds_done fuel l K out endp num : eat_ws_commas l = 93 :: K -> copy_kinds (S fuel) l out endp num = Ok (out, endp, num).
Proof. intros H. cbn [copy_kinds]. rewrite H. cbn [peek bind]. change (93 =? 93) with true. reflexivity. Qed.

Lemma dec_head n : n < 10 ^ 25 -> exists d ds, dec n = d :: ds /\ is_digit d = true.
Proof.
  intros P. destruct (dec_spec n P) as [Hd _]. pose proof (dec_nonempty n P) as Hne.
  destruct (dec n) as [|d ds]; [congruence|]. inversion Hd; subst. eexists _, _. split; [reflexivity|assumption].
Qed.
Lemma digit_not_special d : is_digit d = true -> is_ws d = false /\ d <> 44 /\ d <> 93 /\ d <> 34.
Proof. unfold is_digit, is_ws. intros H. lia. Qed.

Lemma copy_kinds_step fuel l k c0 rest0 pre F endp num : k < 65536 -> len pre = endp -> 2 <= len F -> num < 65535 ->
  is_digit c0 = false -> eat_ws_commas l = dec k ++ c0 :: rest0 ->
  copy_kinds (S fuel) l (pre ++ F) endp num = copy_kinds fuel (c0 :: rest0) ((pre ++ le16 k) ++ drop 2 F) (endp + 2) (num + 1).
Proof.
  intros Hk Lp Hcap Hn Hc0 H. cbn [copy_kinds]. rewrite H.
  assert (P : k < 10 ^ 25) by (assert (65536 < 10 ^ 25) by (vm_compute; reflexivity); lia).
  destruct (dec_head k P) as [d [ds [Ed Hd]]]. destruct (digit_not_special d Hd) as (_ & _ & H93 & _).
  rewrite Ed at 1. cbn [app peek bind]. replace (d =? 93) with false by lia. cbv iota.
  rewrite (read_u64_dec k c0 rest0 ltac:(lia) Hc0). cbn [bind].
  replace (65535 <? k) with false by (symmetry; apply N.ltb_ge; lia).
  destruct (split_free F 2 Hcap) as [EF L2]. remember (take 2 F) as f2 eqn:Ef. remember (drop 2 F) as F1 eqn:EF1. clear Ef.
  rewrite EF at 1. rewrite (put_at pre f2 (le16 k) F1 endp Lp) by (rewrite len_le16; lia). cbn [bind].
  replace (65535 <=? num) with false by (symmetry; apply N.leb_gt; lia).
  rewrite <- app_assoc. reflexivity.
Qed.

Lemma copy_kinds_items ks : forall fuel pre F K endp num, Forall (fun k => k < 65536) ks ->
  (length ks < fuel)%nat -> len pre = endp -> 2 * len ks <= len F -> num + len ks < 65536 ->
  copy_kinds fuel (items_close (map dec ks) K) (pre ++ F) endp num
  = Ok (pre ++ concat (map le16 ks) ++ drop (2 * len ks) F, endp + 2 * len ks, num + len ks).
Proof.
  induction ks as [|k r IH]; intros fuel pre F K endp num Hw Hf Lp Hcap Hn; (destruct fuel as [|fuel]; [cbn [length] in Hf; lia|]).
  - cbn [map items_close]. rewrite (copy_kinds_done fuel _ K) by (apply eat_ws_commas_stop; [reflexivity|lia]).
    change (len (@nil N)) with 0. rewrite N.mul_0_r, !N.add_0_r. cbn [map concat app]. reflexivity.
  - apply Forall_cons_iff in Hw. destruct Hw as [Hk Hwr]. rewrite len_cons in *. cbn [map items_close].
    destruct (items_close_head (map dec r) K) as [c0 [rest0 E0]].
    assert (Hc0 : is_digit c0 = false).
    { destruct r; cbn [map items_close] in E0; injection E0 as <- _; reflexivity. }
    assert (P : k < 10 ^ 25) by (assert (65536 < 10 ^ 25) by (vm_compute; reflexivity); lia).
    assert (Hews : eat_ws_commas (44 :: dec k ++ items_close (map dec r) K) = dec k ++ c0 :: rest0).
    { rewrite eat_ws_commas_comma, E0. destruct (dec_head k P) as [d [ds [Ed Hd]]]. destruct (digit_not_special d Hd) as (Hws & H44 & _).
      rewrite Ed. cbn [app]. apply eat_ws_commas_stop; assumption. }
    rewrite (copy_kinds_step fuel _ k c0 rest0 pre F endp num Hk Lp ltac:(lia) ltac:(lia) Hc0 Hews).
    rewrite <- E0. rewrite (IH fuel (pre ++ le16 k) (drop 2 F) K (endp + 2) (num + 1) Hwr).
    2:{ cbn [length] in Hf. lia. }
    2:{ rewrite len_app, len_le16. lia. }
    2:{ rewrite len_drop. lia. }
    2:{ lia. }
    cbn [map concat]. rewrite <- !app_assoc, drop_drop.
    replace (2 + 2 * len r) with (2 * (1 + len r)) by lia. replace (endp + 2 + 2 * len r) with (endp + 2 * (1 + len r)) by lia.
    replace (num + 1 + len r) with (num + (1 + len r)) by lia. reflexivity.
Qed.

Lemma declist_items ks K : declist ks ++ 93 :: K = match ks with [] => 93 :: K | k :: r => dec k ++ items_close (map dec r) K end.
Proof. unfold declist. rewrite join_close_items. destruct ks; reflexivity. Qed.

Lemma copy_kinds_spec ks fuel pre F K endp : Forall (fun k => k < 65536) ks ->
  (length ks < fuel)%nat -> len pre = endp -> 2 * len ks <= len F -> len ks < 65536 ->
  copy_kinds fuel (declist ks ++ 93 :: K) (pre ++ F) endp 0
  = Ok (pre ++ concat (map le16 ks) ++ drop (2 * len ks) F, endp + 2 * len ks, len ks).
Proof.
  intros Hw Hf Lp Hcap Hn. rewrite declist_items. destruct ks as [|k r].
  - pose proof (copy_kinds_items [] fuel pre F K endp 0 Hw Hf Lp Hcap) as H. cbn [map items_close] in H. rewrite H by lia. reflexivity.
  - apply Forall_cons_iff in Hw. destruct Hw as [Hk Hwr]. rewrite len_cons in *. destruct fuel as [|fuel]; [cbn [length] in Hf; lia|].
    destruct (items_close_head (map dec r) K) as [c0 [rest0 E0]].
    assert (Hc0 : is_digit c0 = false).
    { destruct r; cbn [map items_close] in E0; injection E0 as <- _; reflexivity. }
    assert (P : k < 10 ^ 25) by (assert (65536 < 10 ^ 25) by (vm_compute; reflexivity); lia).
    assert (Hews : eat_ws_commas (dec k ++ items_close (map dec r) K) = dec k ++ c0 :: rest0).
    { rewrite E0. destruct (dec_head k P) as [d [ds [Ed Hd]]]. destruct (digit_not_special d Hd) as (Hws & H44 & _).
      rewrite Ed. cbn [app]. apply eat_ws_commas_stop; assumption. }
    rewrite (copy_kinds_step fuel _ k c0 rest0 pre F endp 0 Hk Lp ltac:(lia) ltac:(lia) Hc0 Hews).
    rewrite <- E0. rewrite (copy_kinds_items r fuel (pre ++ le16 k) (drop 2 F) K (endp + 2) (0 + 1) Hwr).
    2:{ cbn [length] in Hf. lia. }
    2:{ rewrite len_app, len_le16. lia. }
    2:{ rewrite len_drop. lia. }
    2:{ lia. }
    cbn [map concat]. rewrite <- !app_assoc, drop_drop.
    replace (2 + 2 * len r) with (2 * (1 + len r)) by lia. replace (endp + 2 + 2 * len r) with (endp + 2 * (1 + len r)) by lia.
    replace (0 + 1 + len r) with (1 + len r) by lia. reflexivity.
Qed.

(* ---------- what the first pass skips ---------- *)
Lemma skip_to_bracket_no93 l K : Forall (fun c => c <> 93) l -> skip_to_bracket (l ++ 93 :: K) = 93 :: K.
Proof.
  induction 1 as [|c l Hc _ IH]; cbn [app skip_to_bracket]; [change (93 =? 93) with true; reflexivity|].
  replace (c =? 93) with false by lia. exact IH.
Qed.
Lemma write_hex_no93 bs : wf_bytes bs -> Forall (fun c => c <> 93) (write_hex bs).
Proof.
  induction 1 as [|b r Hb _ IH]; cbn [write_hex]; [constructor|]. unfold wf_byte in Hb.
  assert (G : forall d, d < 16 -> hex_char d <> 93) by (intros d Hd; unfold hex_char; destruct (d <? 10) eqn:E; lia).
  constructor; [apply G; lia|]. constructor; [apply G; lia|exact IH].
Qed.
Lemma hexlist_no93 ids : Forall (fun x => wf_bytes x /\ len x = 32) ids -> Forall (fun c => c <> 93) (hexlist ids).
Proof.
  unfold hexlist. induction ids as [|x r IH]; intros Hw; [constructor|]. apply Forall_cons_iff in Hw. destruct Hw as [[Wx _] Hwr].
  assert (Hx : Forall (fun c => c <> 93) (hex_item x)).
  { unfold hex_item. apply Forall_app. split; [repeat constructor; lia|]. apply Forall_app. split; [apply write_hex_no93; exact Wx|repeat constructor; lia]. }
  destruct r as [|y r']; [cbn [map join]; exact Hx|].
  change (join [44] (map hex_item (x :: y :: r'))) with (hex_item x ++ [44] ++ join [44] (map hex_item (y :: r'))).
  apply Forall_app. split; [exact Hx|]. apply Forall_app. split; [repeat constructor; lia|apply IH; exact Hwr].
Qed.
Lemma declist_no93 ks : Forall (fun k => k < 65536) ks -> Forall (fun c => c <> 93) (declist ks).
Proof.
  unfold declist. induction ks as [|k r IH]; intros Hw; [constructor|]. apply Forall_cons_iff in Hw. destruct Hw as [Hk Hwr].
  assert (P : k < 10 ^ 25) by (assert (65536 < 10 ^ 25) by (vm_compute; reflexivity); lia).
  assert (Hx : Forall (fun c => c <> 93) (dec k)).
  { destruct (dec_spec k P) as [Hd _]. eapply Forall_impl; [|exact Hd]. intros c Hc. unfold is_digit in Hc. lia. }
  destruct r as [|y r']; [cbn [map join]; exact Hx|].
  change (join [44] (map dec (k :: y :: r'))) with (dec k ++ [44] ++ join [44] (map dec (y :: r'))).
  apply Forall_app. split; [exact Hx|]. apply Forall_app. split; [repeat constructor; lia|apply IH; exact Hwr].
Qed.

Ltac finish_triple :=
  unfold str_size;
  match goal with |- Ok (?a, ?b, ?c) = Ok (?a', ?b', ?c') =>
    replace b with b' by lia; replace c with c' by lia; replace a with a'; [reflexivity|repeat f_equal; lia] end.

(* ---------- the values of one tag field ---------- *)
Definition jstr (e : bytes) : bytes := [34] ++ e ++ [34].

Lemma copy_tag_values_done fuel l K out endp count : eat_ws_commas l = 93 :: K -> copy_tag_values (S fuel) l out endp count = Ok (out, endp, count).
Proof. intros H. cbn [copy_tag_values]. rewrite H. cbn [peek bind]. change (93 =? 93) with true. reflexivity. Qed.

Lemma copy_tag_values_step fuel l s e c0 rest0 pre F endp count : escd s e -> len pre = endp -> 2 + len s <= len F ->
  eat_ws_commas l = 34 :: e ++ 34 :: c0 :: rest0 ->
  copy_tag_values (S fuel) l (pre ++ F) endp count
  = copy_tag_values fuel (c0 :: rest0) ((pre ++ enc_str s) ++ drop (2 + len s) F) (endp + 2 + len s) (count + 1).
Proof.
  intros [Vs Es] Lp Hcap H. cbn [copy_tag_values]. rewrite H. cbn [peek bind]. change (34 =? 93) with false. cbv iota.
  cbn [verify_char]. change (34 =? 34) with true. cbv iota. cbn [bind].
  replace (len (pre ++ F) <? endp + 2) with false by (symmetry; apply N.ltb_ge; rewrite len_app; lia).
  rewrite (escape_unescape_roundtrip s e (c0 :: rest0) _ Vs Es) by (rewrite len_app; lia). cbn [bind].
  destruct (split_free F 2 ltac:(lia)) as [EF L2]. remember (take 2 F) as f2 eqn:Ef2. remember (drop 2 F) as F1 eqn:EF1d. clear Ef2.
  assert (HF1 : len F1 = len F - 2) by (rewrite EF1d; apply len_drop).
  destruct (split_free F1 (len s) ltac:(lia)) as [EF1 Ls]. remember (take (len s) F1) as fs eqn:Efs. remember (drop (len s) F1) as F' eqn:EF'd. clear Efs.
  assert (HF' : F' = drop (2 + len s) F) by (rewrite EF'd, EF1d, drop_drop; reflexivity).
  rewrite EF at 1. rewrite EF1 at 1.
  replace (pre ++ f2 ++ fs ++ F') with ((pre ++ f2) ++ fs ++ F') by (rewrite <- app_assoc; reflexivity).
  rewrite (put_at (pre ++ f2) fs s F' (endp + 2)) by (try rewrite len_app; lia). cbn [bind].
  replace ((pre ++ f2) ++ s ++ F') with (pre ++ f2 ++ (s ++ F')) by (rewrite <- app_assoc; reflexivity).
  rewrite (put_at pre f2 (le16 (len s)) (s ++ F') endp Lp) by (rewrite len_le16; exact L2). cbn [bind].
  rewrite drop_app_len. cbn [verify_char]. change (34 =? 34) with true. cbv iota. cbn [bind].
  unfold enc_str. rewrite <- !app_assoc, HF'. reflexivity.
Qed.

Lemma copy_tag_values_items vs : forall evs fuel pre F K endp count, Forall2 escd vs evs ->
  (length vs < fuel)%nat -> len pre = endp -> sumN (map str_size vs) <= len F ->
  copy_tag_values fuel (items_close (map jstr evs) K) (pre ++ F) endp count
  = Ok (pre ++ concat (map enc_str vs) ++ drop (sumN (map str_size vs)) F, endp + sumN (map str_size vs), count + len vs).
Proof.
  induction vs as [|s r IH]; intros evs fuel pre F K endp count H2 Hf Lp Hcap; (destruct fuel as [|fuel]; [cbn [length] in Hf; lia|]).
  - assert (evs = []) by (inversion H2; reflexivity). subst evs. cbn [map items_close].
    rewrite (copy_tag_values_done fuel _ K) by (apply eat_ws_commas_stop; [reflexivity|lia]).
    cbn [map concat sumN app]. change (len (@nil bytes)) with 0. rewrite !N.add_0_r. reflexivity.
  - destruct evs as [|e er]; [inversion H2|]. apply F2_cons in H2. destruct H2 as [Hse H2r].
    cbn [map sumN] in Hcap. unfold str_size in Hcap at 1. cbn [map items_close].
    destruct (items_close_head (map jstr er) K) as [c0 [rest0 E0]].
    assert (Hews : eat_ws_commas (44 :: jstr e ++ items_close (map jstr er) K) = 34 :: e ++ 34 :: c0 :: rest0).
    { rewrite eat_ws_commas_comma. unfold jstr at 1. cbn [app]. rewrite <- app_assoc. cbn [app]. rewrite E0. apply eat_ws_commas_stop; [reflexivity|lia]. }
    rewrite (copy_tag_values_step fuel _ s e c0 rest0 pre F endp count Hse Lp ltac:(lia) Hews).
    rewrite <- E0. rewrite (IH er fuel (pre ++ enc_str s) (drop (2 + len s) F) K (endp + 2 + len s) (count + 1) H2r).
    2:{ cbn [length] in Hf. lia. }
    2:{ rewrite len_app, len_enc_str. unfold str_size. lia. }
    2:{ rewrite len_drop. lia. }
    cbn [map concat sumN]. rewrite <- !app_assoc, drop_drop, len_cons. finish_triple.
Qed.

Lemma vals_text_items evs K : join [44] (map jstr evs) ++ 93 :: K = match evs with [] => 93 :: K | e :: r => jstr e ++ items_close (map jstr r) K end.
Proof. rewrite join_close_items. destruct evs; reflexivity. Qed.

Lemma copy_tag_values_spec vs evs fuel pre F K endp count : Forall2 escd vs evs ->
  (length vs < fuel)%nat -> len pre = endp -> sumN (map str_size vs) <= len F ->
  copy_tag_values fuel (join [44] (map jstr evs) ++ 93 :: K) (pre ++ F) endp count
  = Ok (pre ++ concat (map enc_str vs) ++ drop (sumN (map str_size vs)) F, endp + sumN (map str_size vs), count + len vs).
Proof.
  intros H2 Hf Lp Hcap. rewrite vals_text_items. destruct vs as [|s r].
  - assert (evs = []) by (inversion H2; reflexivity). subst evs.
    pose proof (copy_tag_values_items [] [] fuel pre F K endp count H2 Hf Lp Hcap) as H. cbn [map items_close] in H. exact H.
  - destruct evs as [|e er]; [inversion H2|]. apply F2_cons in H2. destruct H2 as [Hse H2r].
    cbn [map sumN] in Hcap. unfold str_size in Hcap at 1. destruct fuel as [|fuel]; [cbn [length] in Hf; lia|].
    destruct (items_close_head (map jstr er) K) as [c0 [rest0 E0]].
    assert (Hews : eat_ws_commas (jstr e ++ items_close (map jstr er) K) = 34 :: e ++ 34 :: c0 :: rest0).
    { unfold jstr at 1. cbn [app]. rewrite <- app_assoc. cbn [app]. rewrite E0. apply eat_ws_commas_stop; [reflexivity|lia]. }
    rewrite (copy_tag_values_step fuel _ s e c0 rest0 pre F endp count Hse Lp ltac:(lia) Hews).
    rewrite <- E0. rewrite (copy_tag_values_items r er fuel (pre ++ enc_str s) (drop (2 + len s) F) K (endp + 2 + len s) (count + 1) H2r).
    2:{ cbn [length] in Hf. lia. }
    2:{ rewrite len_app, len_enc_str. unfold str_size. lia. }
    2:{ rewrite len_drop. lia. }
    cbn [map concat sumN]. rewrite <- !app_assoc, drop_drop, len_cons. finish_triple.
Qed.

(* the first pass skips the same array *)
Lemma burn_array_items vs : forall evs fuel K, Forall2 escd vs evs -> (S (length vs) < fuel)%nat ->
  burn_array fuel 0 (items_close (map jstr evs) K) = Ok K.
Proof.
  induction vs as [|s r IH]; intros evs fuel K H2 Hf; (destruct fuel as [|fuel]; [lia|]).
  - assert (evs = []) by (inversion H2; reflexivity). subst evs. cbn [map items_close burn_array].
    rewrite eat_ws_commas_stop by (try reflexivity; lia). change (93 =? 93) with true. reflexivity.
  - destruct evs as [|e er]; [inversion H2|]. apply F2_cons in H2. destruct H2 as [[Vs Es] H2r].
    cbn [map items_close burn_array]. rewrite eat_ws_commas_comma. unfold jstr at 1. cbn [app]. rewrite eat_ws_commas_stop by (try reflexivity; lia).
    change (34 =? 93) with false. cbv iota.
    destruct fuel as [|fuel]; [cbn [length] in Hf; lia|]. cbn [burn_value]. change (MAX_BURN_DEPTH <? 0) with false. cbv iota.
    change (34 =? 34) with true. cbv iota. rewrite <- app_assoc. cbn [app]. rewrite (burn_string_escaped s e _ Vs Es). cbn [bind].
    apply (IH er (S fuel) K H2r). cbn [length] in Hf. lia.
Qed.
Lemma burn_array_vals vs evs fuel K : Forall2 escd vs evs -> (S (S (length vs)) < fuel)%nat ->
  burn_array fuel 0 (join [44] (map jstr evs) ++ 93 :: K) = Ok K.
Proof.
  intros H2 Hf. rewrite vals_text_items. destruct vs as [|s r].
  - assert (evs = []) by (inversion H2; reflexivity). subst evs. apply (burn_array_items [] [] fuel K H2). cbn [length] in *. lia.
  - destruct evs as [|e er]; [inversion H2|]. apply F2_cons in H2. destruct H2 as [[Vs Es] H2r].
    destruct fuel as [|[|fuel]]; try (cbn [length] in Hf; lia). cbn [burn_array]. unfold jstr at 1. cbn [app]. rewrite eat_ws_commas_stop by (try reflexivity; lia).
    change (34 =? 93) with false. cbv iota. cbn [burn_value]. change (MAX_BURN_DEPTH <? 0) with false. cbv iota.
    change (34 =? 34) with true. cbv iota. rewrite <- app_assoc. cbn [app]. rewrite (burn_string_escaped s e _ Vs Es). cbn [bind].
    apply (burn_array_items r er (S fuel) K H2r). cbn [length] in Hf. lia.
Qed.

(* ====================== Part B: the first pass (filter_members) ====================== *)
Lemma testbit_small c i : c < 2 ^ i -> N.testbit c i = false.
Proof.
  intros H. destruct (N.eq_dec c 0) as [->|Hc]; [apply N.bits_0|]. apply N.bits_above_log2. apply N.log2_lt_pow2; lia.
Qed.
Lemma has_bit_small c b i : b = 2 ^ i -> c < b -> has_bit c b = false /\ set_bit c b = c + b.
Proof.
  intros -> H. unfold set_bit, has_bit. rewrite N.log2_pow2 by lia. rewrite (testbit_small c i H). split; reflexivity.
Qed.

(* members of the object: each starts with its opening quote; after the last comes `}` *)
Fixpoint members_close (ps : list bytes) (tail : bytes) : bytes :=
  match ps with [] => 125 :: tail | p :: r => 44 :: p ++ members_close r tail end.
Lemma members_close_head ps tail : exists c r, members_close ps tail = c :: r /\ (c = 44 \/ c = 125).
Proof. destruct ps; cbn [members_close]; eexists _, _; split; try reflexivity; auto. Qed.
Lemma members_close_app a b tail : members_close (a ++ b) tail = members_close a (match b with [] => tail | _ => tail end) ++ [] -> True.
Proof. auto. Qed.
Lemma members_close_app1 p r tail : members_close ([p] ++ r) tail = 44 :: p ++ members_close r tail.
Proof. reflexivity. Qed.

Lemma fm_done fuel st l tail : eat_ws_commas l = 125 :: tail -> filter_members (S fuel) st l = Ok (st, tail).
Proof. intros H. cbn [filter_members]. rewrite H. cbn [peek bind]. change (125 =? 125) with true. reflexivity. Qed.
Lemma fm_step fuel st l body K st' : eat_ws_commas l = 34 :: body -> filter_member st body = Ok (st', K) ->
  filter_members (S fuel) st l = filter_members fuel st' K.
Proof.
  intros H Hm. cbn [filter_members]. rewrite H. cbn [peek bind]. change (34 =? 125) with false. cbv iota.
  cbn [verify_char]. change (34 =? 34) with true. cbv iota. cbn [bind]. rewrite Hm. reflexivity.
Qed.
Lemma fm_comma fuel st l : filter_members fuel st (44 :: l) = filter_members fuel st l.
Proof. destruct fuel; reflexivity. Qed.

(* K: what follows a member (`,` or `}` first) *)
Definition follows (K : bytes) : Prop := exists c r, K = c :: r /\ (c = 44 \/ c = 125).
Lemma follows_nondigit K : follows K -> exists c r, K = c :: r /\ is_digit c = false /\ is_ws c = false.
Proof. intros [c [r [-> [->| ->]]]]; eexists _, _; repeat split; reflexivity. Qed.

Section Member.
  Variable st : flst.
  Let c := fl_found st.

  Lemma fmem_ids ids K : Forall (fun x => wf_bytes x /\ len x = 32) ids -> has_bit c FL_IDS = false ->
    filter_member st (105 :: 100 :: 115 :: 34 :: 58 :: 91 :: hexlist ids ++ 93 :: K)
    = Ok (mkFl (fl_out st) (set_bit c FL_IDS) (fl_letters st) (Some (hexlist ids ++ 93 :: K)) (fl_start_authors st) (fl_start_kinds st) (fl_start_tags st), K).
  Proof.
    intros Hw Hb. unfold filter_member.
    replace (starts_with k_ids (105 :: 100 :: 115 :: 34 :: 58 :: 91 :: hexlist ids ++ 93 :: K)) with true by reflexivity.
    fold c. rewrite Hb.
    change (drop 4 (105 :: 100 :: 115 :: 34 :: 58 :: 91 :: hexlist ids ++ 93 :: K)) with (58 :: 91 :: hexlist ids ++ 93 :: K).
    rewrite eat_colon_ws_lit by reflexivity. cbn [bind verify_char]. change (91 =? 91) with true. cbv iota. cbn [bind].
    rewrite skip_to_bracket_no93 by (apply hexlist_no93; exact Hw). cbn [verify_char]. change (93 =? 93) with true. reflexivity.
  Qed.

  Lemma fmem_authors ids K : Forall (fun x => wf_bytes x /\ len x = 32) ids -> has_bit c FL_AUTHORS = false ->
    filter_member st (97 :: 117 :: 116 :: 104 :: 111 :: 114 :: 115 :: 34 :: 58 :: 91 :: hexlist ids ++ 93 :: K)
    = Ok (mkFl (fl_out st) (set_bit c FL_AUTHORS) (fl_letters st) (fl_start_ids st) (Some (hexlist ids ++ 93 :: K)) (fl_start_kinds st) (fl_start_tags st), K).
  Proof.
    intros Hw Hb. unfold filter_member.
    set (txt := 97 :: 117 :: 116 :: 104 :: 111 :: 114 :: 115 :: 34 :: 58 :: 91 :: hexlist ids ++ 93 :: K).
    replace (starts_with k_ids txt) with false by reflexivity. replace (starts_with k_authors txt) with true by reflexivity.
    fold c. rewrite Hb. subst txt.
    change (drop 8 (97 :: 117 :: 116 :: 104 :: 111 :: 114 :: 115 :: 34 :: 58 :: 91 :: hexlist ids ++ 93 :: K)) with (58 :: 91 :: hexlist ids ++ 93 :: K).
    rewrite eat_colon_ws_lit by reflexivity. cbn [bind verify_char]. change (91 =? 91) with true. cbv iota. cbn [bind].
    rewrite skip_to_bracket_no93 by (apply hexlist_no93; exact Hw). cbn [verify_char]. change (93 =? 93) with true. reflexivity.
  Qed.

  Lemma fmem_kinds ks K : Forall (fun k => k < 65536) ks -> has_bit c FL_KINDS = false ->
    filter_member st (107 :: 105 :: 110 :: 100 :: 115 :: 34 :: 58 :: 91 :: declist ks ++ 93 :: K)
    = Ok (mkFl (fl_out st) (set_bit c FL_KINDS) (fl_letters st) (fl_start_ids st) (fl_start_authors st) (Some (declist ks ++ 93 :: K)) (fl_start_tags st), K).
  Proof.
    intros Hw Hb. unfold filter_member.
    set (txt := 107 :: 105 :: 110 :: 100 :: 115 :: 34 :: 58 :: 91 :: declist ks ++ 93 :: K).
    replace (starts_with k_ids txt) with false by reflexivity. replace (starts_with k_authors txt) with false by reflexivity.
    replace (starts_with k_kinds txt) with true by reflexivity.
    fold c. rewrite Hb. subst txt.
    change (drop 6 (107 :: 105 :: 110 :: 100 :: 115 :: 34 :: 58 :: 91 :: declist ks ++ 93 :: K)) with (58 :: 91 :: declist ks ++ 93 :: K).
    rewrite eat_colon_ws_lit by reflexivity. cbn [bind verify_char]. change (91 =? 91) with true. cbv iota. cbn [bind].
    rewrite skip_to_bracket_no93 by (apply declist_no93; exact Hw). cbn [verify_char]. change (93 =? 93) with true. reflexivity.
  Qed.

  (* a number member: key text [key] (after the quote, up to and including the closing quote), then `:` and the digits *)
  Lemma number_after_colon u K : u < 18446744073709551616 -> follows K ->
    (r <- eat_colon_ws (58 :: dec u ++ K) ;; read_u64 r) = Ok (u, K).
  Proof.
    intros Hu HK. destruct (follows_nondigit K HK) as [c0 [r0 [-> [Hd Hws]]]].
    assert (P : u < 10 ^ 25) by (assert (18446744073709551616 < 10 ^ 25) by (vm_compute; reflexivity); lia).
    destruct (dec_head u P) as [d [ds [Ed Hdd]]]. destruct (digit_not_special d Hdd) as (Hdws & _).
    rewrite Ed at 1. cbn [app]. rewrite eat_colon_ws_lit by exact Hdws. cbn [bind].
    change (d :: ds ++ c0 :: r0) with ((d :: ds) ++ c0 :: r0). rewrite <- Ed. apply read_u64_dec; assumption.
  Qed.

  Lemma fmem_limit a old r u K : u < 18446744073709551616 -> follows K -> has_bit c FL_LIMIT = false ->
    fl_out st = a ++ old ++ r -> len a = 12 -> len old = 4 ->
    filter_member st (108 :: 105 :: 109 :: 105 :: 116 :: 34 :: 58 :: dec u ++ K)
    = Ok (with_out st (a ++ le32 (N.min u 4294967295) ++ r) (set_bit c FL_LIMIT), K).
  Proof.
    intros Hu HK Hb Eo La Lo. unfold filter_member.
    set (txt := 108 :: 105 :: 109 :: 105 :: 116 :: 34 :: 58 :: dec u ++ K).
    replace (starts_with k_ids txt) with false by reflexivity. replace (starts_with k_authors txt) with false by reflexivity.
    replace (starts_with k_kinds txt) with false by reflexivity. replace (starts_with k_since txt) with false by reflexivity.
    replace (starts_with k_until txt) with false by reflexivity. replace (starts_with k_limit txt) with true by reflexivity.
    fold c. rewrite Hb. subst txt.
    change (drop 6 (108 :: 105 :: 109 :: 105 :: 116 :: 34 :: 58 :: dec u ++ K)) with (58 :: dec u ++ K).
    pose proof (number_after_colon u K Hu HK) as Hn. destruct (eat_colon_ws (58 :: dec u ++ K)) as [r1| | |]; cbn [bind] in *; try discriminate.
    rewrite Hn. cbn [bind]. rewrite Eo, (put_at a old (le32 (N.min u 4294967295)) r 12 La) by (rewrite len_le32; lia). reflexivity.
  Qed.

  Lemma fmem_since a old r u K : u < 18446744073709551616 -> follows K -> has_bit c FL_SINCE = false ->
    fl_out st = a ++ old ++ r -> len a = 16 -> len old = 8 ->
    filter_member st (115 :: 105 :: 110 :: 99 :: 101 :: 34 :: 58 :: dec u ++ K)
    = Ok (with_out st (a ++ le64 u ++ r) (set_bit c FL_SINCE), K).
  Proof.
    intros Hu HK Hb Eo La Lo. unfold filter_member.
    set (txt := 115 :: 105 :: 110 :: 99 :: 101 :: 34 :: 58 :: dec u ++ K).
    replace (starts_with k_ids txt) with false by reflexivity. replace (starts_with k_authors txt) with false by reflexivity.
    replace (starts_with k_kinds txt) with false by reflexivity. replace (starts_with k_since txt) with true by reflexivity.
    fold c. rewrite Hb. subst txt.
    change (drop 6 (115 :: 105 :: 110 :: 99 :: 101 :: 34 :: 58 :: dec u ++ K)) with (58 :: dec u ++ K).
    pose proof (number_after_colon u K Hu HK) as Hn. destruct (eat_colon_ws (58 :: dec u ++ K)) as [r1| | |]; cbn [bind] in *; try discriminate.
    rewrite Hn. cbn [bind]. rewrite Eo, (put_at a old (le64 u) r 16 La) by (rewrite len_le64; lia). reflexivity.
  Qed.

  Lemma fmem_until a old r u K : u < 18446744073709551616 -> follows K -> has_bit c FL_UNTIL = false ->
    fl_out st = a ++ old ++ r -> len a = 24 -> len old = 8 ->
    filter_member st (117 :: 110 :: 116 :: 105 :: 108 :: 34 :: 58 :: dec u ++ K)
    = Ok (with_out st (a ++ le64 u ++ r) (set_bit c FL_UNTIL), K).
  Proof.
    intros Hu HK Hb Eo La Lo. unfold filter_member.
    set (txt := 117 :: 110 :: 116 :: 105 :: 108 :: 34 :: 58 :: dec u ++ K).
    replace (starts_with k_ids txt) with false by reflexivity. replace (starts_with k_authors txt) with false by reflexivity.
    replace (starts_with k_kinds txt) with false by reflexivity. replace (starts_with k_since txt) with false by reflexivity.
    replace (starts_with k_until txt) with true by reflexivity.
    fold c. rewrite Hb. subst txt.
    change (drop 6 (117 :: 110 :: 116 :: 105 :: 108 :: 34 :: 58 :: dec u ++ K)) with (58 :: dec u ++ K).
    pose proof (number_after_colon u K Hu HK) as Hn. destruct (eat_colon_ws (58 :: dec u ++ K)) as [r1| | |]; cbn [bind] in *; try discriminate.
    rewrite Hn. cbn [bind]. rewrite Eo, (put_at a old (le64 u) r 24 La) by (rewrite len_le64; lia). reflexivity.
  Qed.

  (* a tag field: hash, letter, quote, colon, bracket, values *)
  Lemma fmem_tag L vs evs K : is_letter L = true -> existsb (fun x => x =? L) (fl_letters st) = false -> Forall2 escd vs evs ->
    filter_member st (35 :: L :: 34 :: 58 :: 91 :: join [44] (map jstr evs) ++ 93 :: K)
    = Ok (mkFl (fl_out st) c (L :: fl_letters st) (fl_start_ids st) (fl_start_authors st) (fl_start_kinds st)
               (fl_start_tags st ++ [L :: 34 :: 58 :: 91 :: join [44] (map jstr evs) ++ 93 :: K]), K).
  Proof.
    intros HL Hfr H2. unfold filter_member.
    set (txt := 35 :: L :: 34 :: 58 :: 91 :: join [44] (map jstr evs) ++ 93 :: K).
    replace (starts_with k_ids txt) with false by reflexivity. replace (starts_with k_authors txt) with false by reflexivity.
    replace (starts_with k_kinds txt) with false by reflexivity. replace (starts_with k_since txt) with false by reflexivity.
    replace (starts_with k_until txt) with false by reflexivity. replace (starts_with k_limit txt) with false by reflexivity.
    subst txt. change (35 =? 35) with true. rewrite HL. change (34 =? 34) with true. cbn [andb]. rewrite Hfr.
    rewrite eat_colon_ws_lit by reflexivity. cbn [bind verify_char]. change (91 =? 91) with true. cbv iota. cbn [bind].
    rewrite (burn_array_vals vs evs _ K H2). { cbn [bind]. fold c. reflexivity. }
    (* fuel: twice the member's length *)
    unfold burn_fuel. cbn [length]. rewrite app_length.
    assert (G : (length vs <= length (join [44%N] (map jstr evs)))%nat).
    { apply F2_length in H2. rewrite H2. clear. induction evs as [|e r IH]; [cbn; lia|]. destruct r as [|e1 r1].
      - cbn [map join length]. unfold jstr. rewrite !app_length. cbn [length]. lia.
      - change (join [44%N] (map jstr (e :: e1 :: r1))) with (jstr e ++ [44%N] ++ join [44%N] (map jstr (e1 :: r1))).
        rewrite !app_length. unfold jstr at 1. rewrite !app_length. cbn [length] in *. lia. }
    lia.
  Qed.
End Member.

(* ====================== Part C: the members in the order as_json writes them ====================== *)
Lemma stage_step p bodyK R tail st st' fuel : p ++ members_close R tail = 34 :: bodyK ->
  filter_member st bodyK = Ok (st', members_close R tail) ->
  filter_members (S fuel) st (members_close (p :: R) tail) = filter_members fuel st' (members_close R tail).
Proof.
  intros Hp Hm. apply (fm_step fuel st _ bodyK (members_close R tail) st'); [|exact Hm].
  cbn [members_close]. rewrite eat_ws_commas_comma, Hp. apply eat_ws_commas_stop; [reflexivity|lia].
Qed.
Lemma members_close_follows R tail : follows (members_close R tail).
Proof. destruct (members_close_head R tail) as [c [r [E H]]]. exists c, r. split; assumption. Qed.

(* the texts of the optional members *)
Definition p_ids (l : list bytes) : list bytes := match l with [] => [] | _ => [[34;105;100;115;34;58;91] ++ hexlist l ++ [93]] end.
Definition p_authors (l : list bytes) : list bytes := match l with [] => [] | _ => [[34;97;117;116;104;111;114;115;34;58;91] ++ hexlist l ++ [93]] end.
Definition p_kinds (l : list N) : list bytes := match l with [] => [] | _ => [[34;107;105;110;100;115;34;58;91] ++ declist l ++ [93]] end.
Definition p_limit (u : N) : list bytes := if u =? 4294967295 then [] else [[34;108;105;109;105;116;34;58] ++ dec u].
Definition p_since (u : N) : list bytes := if u =? 0 then [] else [[34;115;105;110;99;101;34;58] ++ dec u].
Definition p_until (u : N) : list bytes := if u =? 18446744073709551615 then [] else [[34;117;110;116;105;108;34;58] ++ dec u].
Definition tag_part (L : N) (evs : list bytes) : bytes := [34;35] ++ [L] ++ [34;58;91] ++ join [44] (map jstr evs) ++ [93].

(* what the later stages leave alone *)
Definition same_starts (st st' : flst) : Prop :=
  fl_start_ids st' = fl_start_ids st /\ fl_start_authors st' = fl_start_authors st /\ fl_start_kinds st' = fl_start_kinds st /\
  fl_start_tags st' = fl_start_tags st.

(* ---- until ---- *)
Lemma run_until u st fuel tail a r : u < 18446744073709551616 -> fl_found st < 32 ->
  fl_out st = a ++ le64 18446744073709551615 ++ r -> len a = 24 ->
  exists st', filter_members (length (p_until u) + S fuel) st (members_close (p_until u) tail) = Ok (st', tail) /\
    same_starts st st' /\ fl_out st' = a ++ le64 u ++ r.
Proof.
  intros Hu Hc Eo La. unfold p_until. destruct (N.eqb_spec u 18446744073709551615) as [->|Hne].
  - exists st. cbn [length plus members_close]. rewrite (fm_done fuel st _ tail) by (apply eat_ws_commas_stop; [reflexivity|lia]).
    split; [reflexivity|]. split; [repeat split|exact Eo].
  - destruct (has_bit_small (fl_found st) FL_UNTIL 5 eq_refl Hc) as [Hb Hs].
    set (st1 := with_out st (a ++ le64 u ++ r) (set_bit (fl_found st) FL_UNTIL)).
    exists st1. cbn [length plus]. split.
    + rewrite (stage_step _ (117 :: 110 :: 116 :: 105 :: 108 :: 34 :: 58 :: dec u ++ members_close [] tail) [] tail st st1 (S fuel)).
      * cbn [members_close]. apply fm_done. apply eat_ws_commas_stop; [reflexivity|lia].
      * cbn [app]. rewrite <- ?app_assoc. reflexivity.
      * apply (fmem_until st a (le64 18446744073709551615) r u _ Hu (members_close_follows [] tail) Hb Eo La). reflexivity.
    + split; [repeat split|reflexivity].
Qed.

(* ---- since, then until ---- *)
Lemma run_since s u st fuel tail a r2 : s < 18446744073709551616 -> u < 18446744073709551616 -> fl_found st < 16 ->
  fl_out st = a ++ le64 0 ++ le64 18446744073709551615 ++ r2 -> len a = 16 ->
  exists st', filter_members (length (p_since s) + (length (p_until u) + S fuel)) st (members_close (p_since s ++ p_until u) tail) = Ok (st', tail) /\
    same_starts st st' /\ fl_out st' = a ++ le64 s ++ le64 u ++ r2.
Proof.
  intros Hs Hu Hc Eo La. unfold p_since. destruct (N.eqb_spec s 0) as [->|Hne].
  - cbn [app length plus].
    destruct (run_until u st fuel tail (a ++ le64 0) r2 Hu ltac:(lia)) as [st' [Hr [Hss Ho]]];
      [rewrite Eo, <- app_assoc; reflexivity|rewrite len_app, len_le64; lia|].
    exists st'. split; [exact Hr|]. split; [exact Hss|]. rewrite Ho, <- app_assoc. reflexivity.
  - destruct (has_bit_small (fl_found st) FL_SINCE 4 eq_refl Hc) as [Hb Hsb].
    set (K := members_close (p_until u) tail).
    set (st1 := with_out st (a ++ le64 s ++ le64 18446744073709551615 ++ r2) (set_bit (fl_found st) FL_SINCE)).
    destruct (run_until u st1 fuel tail (a ++ le64 s) r2 Hu) as [st' [Hr [Hss Ho]]].
    { subst st1. cbn [with_out fl_found]. rewrite Hsb. unfold FL_SINCE. lia. }
    { subst st1. cbn [with_out fl_out]. rewrite <- app_assoc. reflexivity. }
    { rewrite len_app, len_le64. lia. }
    exists st'. cbn [app length plus]. split.
    + rewrite (stage_step _ (115 :: 105 :: 110 :: 99 :: 101 :: 34 :: 58 :: dec s ++ K) (p_until u) tail st st1 _).
      * exact Hr.
      * cbn [app]. rewrite <- ?app_assoc. reflexivity.
      * apply (fmem_since st a (le64 0) _ s K Hs (members_close_follows _ tail) Hb Eo La). reflexivity.
    + split; [|rewrite Ho, <- app_assoc; reflexivity].
      destruct Hss as (A & B & C & D). subst st1. cbn [with_out fl_start_ids fl_start_authors fl_start_kinds fl_start_tags] in *. repeat split; assumption.
Qed.

(* ---- limit, then since, then until ---- *)
Lemma run_limit l s u st fuel tail a r3 : l < 4294967296 -> s < 18446744073709551616 -> u < 18446744073709551616 -> fl_found st < 8 ->
  fl_out st = a ++ le32 4294967295 ++ le64 0 ++ le64 18446744073709551615 ++ r3 -> len a = 12 ->
  exists st', filter_members (length (p_limit l) + (length (p_since s) + (length (p_until u) + S fuel))) st
                (members_close (p_limit l ++ p_since s ++ p_until u) tail) = Ok (st', tail) /\
    same_starts st st' /\ fl_out st' = a ++ le32 l ++ le64 s ++ le64 u ++ r3.
Proof.
  intros Hl Hs Hu Hc Eo La. unfold p_limit. destruct (N.eqb_spec l 4294967295) as [->|Hne].
  - cbn [app length plus].
    destruct (run_since s u st fuel tail (a ++ le32 4294967295) r3 Hs Hu ltac:(lia)) as [st' [Hr [Hss Ho]]];
      [rewrite Eo, <- app_assoc; reflexivity|rewrite len_app, len_le32; lia|].
    exists st'. split; [exact Hr|]. split; [exact Hss|]. rewrite Ho, <- app_assoc. reflexivity.
  - destruct (has_bit_small (fl_found st) FL_LIMIT 3 eq_refl Hc) as [Hb Hsb].
    set (K := members_close (p_since s ++ p_until u) tail).
    set (st1 := with_out st (a ++ le32 (N.min l 4294967295) ++ le64 0 ++ le64 18446744073709551615 ++ r3) (set_bit (fl_found st) FL_LIMIT)).
    destruct (run_since s u st1 fuel tail (a ++ le32 (N.min l 4294967295)) r3 Hs Hu) as [st' [Hr [Hss Ho]]].
    { subst st1. cbn [with_out fl_found]. rewrite Hsb. unfold FL_LIMIT. lia. }
    { subst st1. cbn [with_out fl_out]. rewrite <- app_assoc. reflexivity. }
    { rewrite len_app, len_le32. lia. }
    exists st'. cbn [app length plus]. split.
    + rewrite (stage_step _ (108 :: 105 :: 109 :: 105 :: 116 :: 34 :: 58 :: dec l ++ K) (p_since s ++ p_until u) tail st st1 _).
      * exact Hr.
      * cbn [app]. rewrite <- ?app_assoc. reflexivity.
      * apply (fmem_limit st a (le32 4294967295) _ l K ltac:(lia) (members_close_follows _ tail) Hb Eo La). reflexivity.
    + split.
      * destruct Hss as (A & B & C & D). subst st1. cbn [with_out fl_start_ids fl_start_authors fl_start_kinds fl_start_tags] in *. repeat split; assumption.
      * rewrite Ho, <- app_assoc. replace (N.min l 4294967295) with l by lia. reflexivity.
Qed.
