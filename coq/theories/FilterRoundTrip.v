(* FilterRoundTrip.v — Filter::from_json (Filter::as_json f) writes exactly enc_filter f (C07):
   for every well-formed filter whose tag constraints have distinct one-letter names and at least the name,
   with valid UTF-8 values, whatever members are present or omitted (ids, authors, kinds, tag fields, limit,
   since, until are each written only when they differ from the default), and whatever the caller's buffer held.
   Part A: the arrays (second pass) and the pieces of text the first pass skips. *)
From Pocket Require Import JsonParse EscapeProofs EscapeRoundTrip HexProofs NumProofs CanonInj JsonRoundTrip.

Lemma F2_cons {A B} (R : A -> B -> Prop) a l b l' : Forall2 R (a :: l) (b :: l') <-> R a b /\ Forall2 R l l'.
Proof. split; [intros H; inversion H; subst; split; assumption|intros [H1 H2]; constructor; assumption]. Qed.

(* ---------- text pieces ---------- *)
Definition hex_item (x : bytes) : bytes := [34] ++ write_hex x ++ [34].
Definition hexlist (l : list bytes) : bytes := join [44] (map hex_item l).
Definition declist (l : list N) : bytes := join [44] (map dec l).

Lemma eat_ws_commas_stop c r : is_ws c = false -> c <> 44 -> eat_ws_commas (c :: r) = c :: r.
Proof. intros H1 H2. cbn [eat_ws_commas]. rewrite H1. replace (c =? 44) with false by lia. reflexivity. Qed.
Lemma eat_ws_commas_comma r : eat_ws_commas (44 :: r) = eat_ws_commas r.
Proof. reflexivity. Qed.

(* items joined by commas and closed by a bracket, seen as: item, then (`,` item)*, then `]` *)
Fixpoint items_close (items : list bytes) (K : bytes) : bytes :=
  match items with [] => 93 :: K | x :: r => 44 :: x ++ items_close r K end.
Lemma join_close_items items K : join [44] items ++ 93 :: K = match items with [] => 93 :: K | x :: r => x ++ items_close r K end.
Proof.
  destruct items as [|x r]; [reflexivity|]. revert x; induction r as [|y r IH]; intros x; [reflexivity|].
  change (join [44] (x :: y :: r)) with (x ++ [44] ++ join [44] (y :: r)). rewrite <- !app_assoc. cbn [app items_close]. rewrite IH. reflexivity.
Qed.

(* ---------- second pass over a hex array ---------- *)
Lemma copy_hex32_done fuel l K out endp num : eat_ws_commas l = 93 :: K -> copy_hex32 (S fuel) l out endp num = Ok (out, endp, num).
Proof. intros H. cbn [copy_hex32]. rewrite H. cbn [peek bind]. change (93 =? 93) with true. reflexivity. Qed.

Lemma copy_hex32_step fuel l x c0 rest0 pre F endp num : wf_bytes x -> len x = 32 -> len pre = endp -> 32 <= len F -> num < 65535 ->
  eat_ws_commas l = 34 :: write_hex x ++ 34 :: c0 :: rest0 ->
  copy_hex32 (S fuel) l (pre ++ F) endp num = copy_hex32 fuel (c0 :: rest0) ((pre ++ x) ++ drop 32 F) (endp + 32) (num + 1).
Proof.
  intros Wx Lx Lp Hcap Hn H. cbn [copy_hex32]. rewrite H. cbn [peek bind]. change (34 =? 93) with false. cbv iota.
  replace (len (pre ++ F) - endp <? 32) with false by (symmetry; apply N.ltb_ge; rewrite len_app; lia).
  rewrite (read_hex_quoted_spec 32 x c0 rest0 Wx Lx). cbn [bind].
  destruct (split_free F 32 Hcap) as [EF L32]. remember (take 32 F) as f32 eqn:Ef. remember (drop 32 F) as F1 eqn:EF1. clear Ef.
  rewrite EF at 1. rewrite (put_at pre f32 x F1 endp Lp) by lia. cbn [bind].
  replace (65535 <=? num) with false by (symmetry; apply N.leb_gt; lia).
  rewrite <- app_assoc. reflexivity.
Qed.

Lemma items_close_head (items : list bytes) K : exists c rest, items_close items K = c :: rest.
Proof. destruct items; cbn [items_close]; eexists _, _; reflexivity. Qed.

Lemma copy_hex32_items ids : forall fuel pre F K endp num, Forall (fun x => wf_bytes x /\ len x = 32) ids ->
  (length ids < fuel)%nat -> len pre = endp -> 32 * len ids <= len F -> num + len ids < 65536 ->
  copy_hex32 fuel (items_close (map hex_item ids) K) (pre ++ F) endp num
  = Ok (pre ++ concat ids ++ drop (32 * len ids) F, endp + 32 * len ids, num + len ids).
Proof.
  induction ids as [|x r IH]; intros fuel pre F K endp num Hw Hf Lp Hcap Hn; (destruct fuel as [|fuel]; [cbn [length] in Hf; lia|]).
  - cbn [map items_close]. rewrite (copy_hex32_done fuel _ K) by (apply eat_ws_commas_stop; [reflexivity|lia]).
    change (len (@nil bytes)) with 0. rewrite N.mul_0_r, !N.add_0_r. cbn [concat app]. reflexivity.
  - apply Forall_cons_iff in Hw. destruct Hw as [[Wx Lx] Hwr]. rewrite len_cons in *. cbn [map items_close].
    destruct (items_close_head (map hex_item r) K) as [c0 [rest0 E0]].
    assert (Hews : eat_ws_commas (44 :: hex_item x ++ items_close (map hex_item r) K) = 34 :: write_hex x ++ 34 :: c0 :: rest0).
    { rewrite eat_ws_commas_comma. unfold hex_item at 1. cbn [app]. rewrite <- app_assoc. cbn [app]. rewrite E0. apply eat_ws_commas_stop; [reflexivity|lia]. }
    rewrite (copy_hex32_step fuel _ x c0 rest0 pre F endp num Wx Lx Lp ltac:(lia) ltac:(lia) Hews).
    rewrite <- E0. rewrite (IH fuel (pre ++ x) (drop 32 F) K (endp + 32) (num + 1) Hwr).
    2:{ cbn [length] in Hf. lia. }
    2:{ rewrite len_app. lia. }
    2:{ rewrite len_drop. lia. }
    2:{ lia. }
    cbn [concat]. rewrite <- !app_assoc, drop_drop.
    replace (32 + 32 * len r) with (32 * (1 + len r)) by lia. replace (endp + 32 + 32 * len r) with (endp + 32 * (1 + len r)) by lia.
    replace (num + 1 + len r) with (num + (1 + len r)) by lia. reflexivity.
Qed.

(* the whole array text, starting after the opening bracket *)
Lemma hexlist_items ids K : hexlist ids ++ 93 :: K = match ids with [] => 93 :: K | x :: r => hex_item x ++ items_close (map hex_item r) K end.
Proof. unfold hexlist. rewrite join_close_items. destruct ids; reflexivity. Qed.

Lemma copy_hex32_spec ids fuel pre F K endp : Forall (fun x => wf_bytes x /\ len x = 32) ids ->
  (length ids < fuel)%nat -> len pre = endp -> 32 * len ids <= len F -> len ids < 65536 ->
  copy_hex32 fuel (hexlist ids ++ 93 :: K) (pre ++ F) endp 0
  = Ok (pre ++ concat ids ++ drop (32 * len ids) F, endp + 32 * len ids, len ids).
Proof.
  intros Hw Hf Lp Hcap Hn. rewrite hexlist_items. destruct ids as [|x r].
  - pose proof (copy_hex32_items [] fuel pre F K endp 0 Hw Hf Lp Hcap) as H. cbn [map items_close] in H. rewrite H by lia. reflexivity.
  - apply Forall_cons_iff in Hw. destruct Hw as [[Wx Lx] Hwr]. rewrite len_cons in *. destruct fuel as [|fuel]; [cbn [length] in Hf; lia|].
    destruct (items_close_head (map hex_item r) K) as [c0 [rest0 E0]].
    assert (Hews : eat_ws_commas (hex_item x ++ items_close (map hex_item r) K) = 34 :: write_hex x ++ 34 :: c0 :: rest0).
    { unfold hex_item at 1. cbn [app]. rewrite <- app_assoc. cbn [app]. rewrite E0. apply eat_ws_commas_stop; [reflexivity|lia]. }
    rewrite (copy_hex32_step fuel _ x c0 rest0 pre F endp 0 Wx Lx Lp ltac:(lia) ltac:(lia) Hews).
    rewrite <- E0. rewrite (copy_hex32_items r fuel (pre ++ x) (drop 32 F) K (endp + 32) (0 + 1) Hwr).
    2:{ cbn [length] in Hf. lia. }
    2:{ rewrite len_app. lia. }
    2:{ rewrite len_drop. lia. }
    2:{ lia. }
    cbn [concat]. rewrite <- !app_assoc, drop_drop.
    replace (32 + 32 * len r) with (32 * (1 + len r)) by lia. replace (endp + 32 + 32 * len r) with (endp + 32 * (1 + len r)) by lia.
    replace (0 + 1 + len r) with (1 + len r) by lia. reflexivity.
Qed.

(* ---------- second pass over the kinds array ---------- *)
Lemma copy_kinds_done fuel l K out endp num : eat_ws_commas l = 93 :: K -> copy_kinds (S fuel) l out endp num = Ok (out, endp, num).
Proof. intros H. cbn [copy_kinds]. rewrite H. cbn [peek bind]. change (93 =? 93) with true. reflexivity. Qed.

Lemma dec_head n : n < 10 ^ 25 -> exists d ds, dec n = d :: ds /\ is_digit d = true.
Proof.
  intros P. destruct (dec_spec n P) as [Hd _]. pose proof (dec_nonempty n P) as Hne.
  destruct (dec n) as [|d ds]; [congruence|]. inversion Hd; subst. eexists _, _. split; [reflexivity|assumption].
Qed.
Lemma digit_not_special d : is_digit d = true -> is_ws d = false /\ d <> 44 /\ d <> 93 /\ d <> 34.
Proof. unfold is_digit, is_ws. intros H. lia. Qed.

Lemma copy_kinds_step fuel l k c0 rest0 pre F endp num : k < 65536 -> len pre = endp -> 2 <= len F -> num < 65535 ->
  is_digit c0 = false -> eat_ws_commas l = dec k ++ c0 :: rest0 ->
  copy_kinds (S fuel) l (pre ++ F) endp num = copy_kinds fuel (c0 :: rest0) ((pre ++ le16 k) ++ drop 2 F) (endp + 2) (num + 1).
Proof.
  intros Hk Lp Hcap Hn Hc0 H. cbn [copy_kinds]. rewrite H.
  assert (P : k < 10 ^ 25) by (assert (65536 < 10 ^ 25) by (vm_compute; reflexivity); lia).
  destruct (dec_head k P) as [d [ds [Ed Hd]]]. destruct (digit_not_special d Hd) as (_ & _ & H93 & _).
  rewrite Ed at 1. cbn [app peek bind]. replace (d =? 93) with false by lia. cbv iota.
  rewrite (read_u64_dec k c0 rest0 ltac:(lia) Hc0). cbn [bind].
  replace (65535 <? k) with false by (symmetry; apply N.ltb_ge; lia).
  destruct (split_free F 2 Hcap) as [EF L2]. remember (take 2 F) as f2 eqn:Ef. remember (drop 2 F) as F1 eqn:EF1. clear Ef.
  rewrite EF at 1. rewrite (put_at pre f2 (le16 k) F1 endp Lp) by (rewrite len_le16; lia). cbn [bind].
  replace (65535 <=? num) with false by (symmetry; apply N.leb_gt; lia).
  rewrite <- app_assoc. reflexivity.
Qed.

Lemma copy_kinds_items ks : forall fuel pre F K endp num, Forall (fun k => k < 65536) ks ->
  (length ks < fuel)%nat -> len pre = endp -> 2 * len ks <= len F -> num + len ks < 65536 ->
  copy_kinds fuel (items_close (map dec ks) K) (pre ++ F) endp num
  = Ok (pre ++ concat (map le16 ks) ++ drop (2 * len ks) F, endp + 2 * len ks, num + len ks).
Proof.
  induction ks as [|k r IH]; intros fuel pre F K endp num Hw Hf Lp Hcap Hn; (destruct fuel as [|fuel]; [cbn [length] in Hf; lia|]).
  - cbn [map items_close]. rewrite (copy_kinds_done fuel _ K) by (apply eat_ws_commas_stop; [reflexivity|lia]).
    change (len (@nil N)) with 0. rewrite N.mul_0_r, !N.add_0_r. cbn [map concat app]. reflexivity.
  - apply Forall_cons_iff in Hw. destruct Hw as [Hk Hwr]. rewrite len_cons in *. cbn [map items_close].
    destruct (items_close_head (map dec r) K) as [c0 [rest0 E0]].
    assert (Hc0 : is_digit c0 = false).
    { destruct r; cbn [map items_close] in E0; injection E0 as <- _; reflexivity. }
    assert (P : k < 10 ^ 25) by (assert (65536 < 10 ^ 25) by (vm_compute; reflexivity); lia).
    assert (Hews : eat_ws_commas (44 :: dec k ++ items_close (map dec r) K) = dec k ++ c0 :: rest0).
    { rewrite eat_ws_commas_comma, E0. destruct (dec_head k P) as [d [ds [Ed Hd]]]. destruct (digit_not_special d Hd) as (Hws & H44 & _).
      rewrite Ed. cbn [app]. apply eat_ws_commas_stop; assumption. }
    rewrite (copy_kinds_step fuel _ k c0 rest0 pre F endp num Hk Lp ltac:(lia) ltac:(lia) Hc0 Hews).
    rewrite <- E0. rewrite (IH fuel (pre ++ le16 k) (drop 2 F) K (endp + 2) (num + 1) Hwr).
    2:{ cbn [length] in Hf. lia. }
    2:{ rewrite len_app, len_le16. lia. }
    2:{ rewrite len_drop. lia. }
    2:{ lia. }
    cbn [map concat]. rewrite <- !app_assoc, drop_drop.
    replace (2 + 2 * len r) with (2 * (1 + len r)) by lia. replace (endp + 2 + 2 * len r) with (endp + 2 * (1 + len r)) by lia.
    replace (num + 1 + len r) with (num + (1 + len r)) by lia. reflexivity.
Qed.

Lemma declist_items ks K : declist ks ++ 93 :: K = match ks with [] => 93 :: K | k :: r => dec k ++ items_close (map dec r) K end.
Proof. unfold declist. rewrite join_close_items. destruct ks; reflexivity. Qed.

Lemma copy_kinds_spec ks fuel pre F K endp : Forall (fun k => k < 65536) ks ->
  (length ks < fuel)%nat -> len pre = endp -> 2 * len ks <= len F -> len ks < 65536 ->
  copy_kinds fuel (declist ks ++ 93 :: K) (pre ++ F) endp 0
  = Ok (pre ++ concat (map le16 ks) ++ drop (2 * len ks) F, endp + 2 * len ks, len ks).
Proof.
  intros Hw Hf Lp Hcap Hn. rewrite declist_items. destruct ks as [|k r].
  - pose proof (copy_kinds_items [] fuel pre F K endp 0 Hw Hf Lp Hcap) as H. cbn [map items_close] in H. rewrite H by lia. reflexivity.
  - apply Forall_cons_iff in Hw. destruct Hw as [Hk Hwr]. rewrite len_cons in *. destruct fuel as [|fuel]; [cbn [length] in Hf; lia|].
    destruct (items_close_head (map dec r) K) as [c0 [rest0 E0]].
    assert (Hc0 : is_digit c0 = false).
    { destruct r; cbn [map items_close] in E0; injection E0 as <- _; reflexivity. }
    assert (P : k < 10 ^ 25) by (assert (65536 < 10 ^ 25) by (vm_compute; reflexivity); lia).
    assert (Hews : eat_ws_commas (dec k ++ items_close (map dec r) K) = dec k ++ c0 :: rest0).
    { rewrite E0. destruct (dec_head k P) as [d [ds [Ed Hd]]]. destruct (digit_not_special d Hd) as (Hws & H44 & _).
      rewrite Ed. cbn [app]. apply eat_ws_commas_stop; assumption. }
    rewrite (copy_kinds_step fuel _ k c0 rest0 pre F endp 0 Hk Lp ltac:(lia) ltac:(lia) Hc0 Hews).
    rewrite <- E0. rewrite (copy_kinds_items r fuel (pre ++ le16 k) (drop 2 F) K (endp + 2) (0 + 1) Hwr).
    2:{ cbn [length] in Hf. lia. }
    2:{ rewrite len_app, len_le16. lia. }
    2:{ rewrite len_drop. lia. }
    2:{ lia. }
    cbn [map concat]. rewrite <- !app_assoc, drop_drop.
    replace (2 + 2 * len r) with (2 * (1 + len r)) by lia. replace (endp + 2 + 2 * len r) with (endp + 2 * (1 + len r)) by lia.
    replace (0 + 1 + len r) with (1 + len r) by lia. reflexivity.
Qed.

(* ---------- what the first pass skips ---------- *)
Lemma skip_to_bracket_no93 l K : Forall (fun c => c <> 93) l -> skip_to_bracket (l ++ 93 :: K) = 93 :: K.
Proof.
  induction 1 as [|c l Hc _ IH]; cbn [app skip_to_bracket]; [change (93 =? 93) with true; reflexivity|].
  replace (c =? 93) with false by lia. exact IH.
Qed.
Lemma write_hex_no93 bs : wf_bytes bs -> Forall (fun c => c <> 93) (write_hex bs).
Proof.
  induction 1 as [|b r Hb _ IH]; cbn [write_hex]; [constructor|]. unfold wf_byte in Hb.
  assert (G : forall d, d < 16 -> hex_char d <> 93) by (intros d Hd; unfold hex_char; destruct (d <? 10) eqn:E; lia).
  constructor; [apply G; lia|]. constructor; [apply G; lia|exact IH].
Qed.
Lemma hexlist_no93 ids : Forall (fun x => wf_bytes x /\ len x = 32) ids -> Forall (fun c => c <> 93) (hexlist ids).
Proof.
  unfold hexlist. induction ids as [|x r IH]; intros Hw; [constructor|]. apply Forall_cons_iff in Hw. destruct Hw as [[Wx _] Hwr].
  assert (Hx : Forall (fun c => c <> 93) (hex_item x)).
  { unfold hex_item. apply Forall_app. split; [repeat constructor; lia|]. apply Forall_app. split; [apply write_hex_no93; exact Wx|repeat constructor; lia]. }
  destruct r as [|y r']; [cbn [map join]; exact Hx|].
  change (join [44] (map hex_item (x :: y :: r'))) with (hex_item x ++ [44] ++ join [44] (map hex_item (y :: r'))).
  apply Forall_app. split; [exact Hx|]. apply Forall_app. split; [repeat constructor; lia|apply IH; exact Hwr].
Qed.
Lemma declist_no93 ks : Forall (fun k => k < 65536) ks -> Forall (fun c => c <> 93) (declist ks).
Proof.
  unfold declist. induction ks as [|k r IH]; intros Hw; [constructor|]. apply Forall_cons_iff in Hw. destruct Hw as [Hk Hwr].
  assert (P : k < 10 ^ 25) by (assert (65536 < 10 ^ 25) by (vm_compute; reflexivity); lia).
  assert (Hx : Forall (fun c => c <> 93) (dec k)).
  { destruct (dec_spec k P) as [Hd _]. eapply Forall_impl; [|exact Hd]. intros c Hc. unfold is_digit in Hc. lia. }
  destruct r as [|y r']; [cbn [map join]; exact Hx|].
  change (join [44] (map dec (k :: y :: r'))) with (dec k ++ [44] ++ join [44] (map dec (y :: r'))).
  apply Forall_app. split; [exact Hx|]. apply Forall_app. split; [repeat constructor; lia|apply IH; exact Hwr].
Qed.

Ltac finish_triple :=
  unfold str_size;
  match goal with |- Ok (?a, ?b, ?c) = Ok (?a', ?b', ?c') =>
    replace b with b' by lia; replace c with c' by lia; replace a with a'; [reflexivity|repeat f_equal; lia] end.

(* ---------- the values of one tag field ---------- *)
Definition jstr (e : bytes) : bytes := [34] ++ e ++ [34].

Lemma copy_tag_values_done fuel l K out endp count : eat_ws_commas l = 93 :: K -> copy_tag_values (S fuel) l out endp count = Ok (out, endp, count).
Proof. intros H. cbn [copy_tag_values]. rewrite H. cbn [peek bind]. change (93 =? 93) with true. reflexivity. Qed.

Lemma copy_tag_values_step fuel l s e c0 rest0 pre F endp count : escd s e -> len pre = endp -> 2 + len s <= len F ->
  eat_ws_commas l = 34 :: e ++ 34 :: c0 :: rest0 ->
  copy_tag_values (S fuel) l (pre ++ F) endp count
  = copy_tag_values fuel (c0 :: rest0) ((pre ++ enc_str s) ++ drop (2 + len s) F) (endp + 2 + len s) (count + 1).
Proof.
  intros [Hun Hbu] Lp Hcap H. cbn [copy_tag_values]. rewrite H. cbn [peek bind]. change (34 =? 93) with false. cbv iota.
  cbn [verify_char]. change (34 =? 34) with true. cbv iota. cbn [bind].
  replace (len (pre ++ F) <? endp + 2) with false by (symmetry; apply N.ltb_ge; rewrite len_app; lia).
  rewrite (Hun (c0 :: rest0) _) by (rewrite len_app; lia). cbn [bind].
  destruct (split_free F 2 ltac:(lia)) as [EF L2]. remember (take 2 F) as f2 eqn:Ef2. remember (drop 2 F) as F1 eqn:EF1d. clear Ef2.
  assert (HF1 : len F1 = len F - 2) by (rewrite EF1d; apply len_drop).
  destruct (split_free F1 (len s) ltac:(lia)) as [EF1 Ls]. remember (take (len s) F1) as fs eqn:Efs. remember (drop (len s) F1) as F' eqn:EF'd. clear Efs.
  assert (HF' : F' = drop (2 + len s) F) by (rewrite EF'd, EF1d, drop_drop; reflexivity).
  rewrite EF at 1. rewrite EF1 at 1.
  replace (pre ++ f2 ++ fs ++ F') with ((pre ++ f2) ++ fs ++ F') by (rewrite <- app_assoc; reflexivity).
  rewrite (put_at (pre ++ f2) fs s F' (endp + 2)) by (try rewrite len_app; lia). cbn [bind].
  replace ((pre ++ f2) ++ s ++ F') with (pre ++ f2 ++ (s ++ F')) by (rewrite <- app_assoc; reflexivity).
  rewrite (put_at pre f2 (le16 (len s)) (s ++ F') endp Lp) by (rewrite len_le16; exact L2). cbn [bind].
  rewrite drop_app_len. cbn [verify_char]. change (34 =? 34) with true. cbv iota. cbn [bind].
  unfold enc_str. rewrite <- !app_assoc, HF'. reflexivity.
Qed.

Lemma copy_tag_values_items vs : forall evs fuel pre F K endp count, Forall2 escd vs evs ->
  (length vs < fuel)%nat -> len pre = endp -> sumN (map str_size vs) <= len F ->
  copy_tag_values fuel (items_close (map jstr evs) K) (pre ++ F) endp count
  = Ok (pre ++ concat (map enc_str vs) ++ drop (sumN (map str_size vs)) F, endp + sumN (map str_size vs), count + len vs).
Proof.
  induction vs as [|s r IH]; intros evs fuel pre F K endp count H2 Hf Lp Hcap; (destruct fuel as [|fuel]; [cbn [length] in Hf; lia|]).
  - assert (evs = []) by (inversion H2; reflexivity). subst evs. cbn [map items_close].
    rewrite (copy_tag_values_done fuel _ K) by (apply eat_ws_commas_stop; [reflexivity|lia]).
    cbn [map concat sumN app]. change (len (@nil bytes)) with 0. rewrite !N.add_0_r. reflexivity.
  - destruct evs as [|e er]; [inversion H2|]. apply F2_cons in H2. destruct H2 as [Hse H2r].
    cbn [map sumN] in Hcap. unfold str_size in Hcap at 1. cbn [map items_close].
    destruct (items_close_head (map jstr er) K) as [c0 [rest0 E0]].
    assert (Hews : eat_ws_commas (44 :: jstr e ++ items_close (map jstr er) K) = 34 :: e ++ 34 :: c0 :: rest0).
    { rewrite eat_ws_commas_comma. unfold jstr at 1. cbn [app]. rewrite <- app_assoc. cbn [app]. rewrite E0. apply eat_ws_commas_stop; [reflexivity|lia]. }
    rewrite (copy_tag_values_step fuel _ s e c0 rest0 pre F endp count Hse Lp ltac:(lia) Hews).
    rewrite <- E0. rewrite (IH er fuel (pre ++ enc_str s) (drop (2 + len s) F) K (endp + 2 + len s) (count + 1) H2r).
    2:{ cbn [length] in Hf. lia. }
    2:{ rewrite len_app, len_enc_str. unfold str_size. lia. }
    2:{ rewrite len_drop. lia. }
    cbn [map concat sumN]. rewrite <- !app_assoc, drop_drop, len_cons. finish_triple.
Qed.

Lemma vals_text_items evs K : join [44] (map jstr evs) ++ 93 :: K = match evs with [] => 93 :: K | e :: r => jstr e ++ items_close (map jstr r) K end.
Proof. rewrite join_close_items. destruct evs; reflexivity. Qed.

Lemma copy_tag_values_spec vs evs fuel pre F K endp count : Forall2 escd vs evs ->
  (length vs < fuel)%nat -> len pre = endp -> sumN (map str_size vs) <= len F ->
  copy_tag_values fuel (join [44] (map jstr evs) ++ 93 :: K) (pre ++ F) endp count
  = Ok (pre ++ concat (map enc_str vs) ++ drop (sumN (map str_size vs)) F, endp + sumN (map str_size vs), count + len vs).
Proof.
  intros H2 Hf Lp Hcap. rewrite vals_text_items. destruct vs as [|s r].
  - assert (evs = []) by (inversion H2; reflexivity). subst evs.
    pose proof (copy_tag_values_items [] [] fuel pre F K endp count H2 Hf Lp Hcap) as H. cbn [map items_close] in H. exact H.
  - destruct evs as [|e er]; [inversion H2|]. apply F2_cons in H2. destruct H2 as [Hse H2r].
    cbn [map sumN] in Hcap. unfold str_size in Hcap at 1. destruct fuel as [|fuel]; [cbn [length] in Hf; lia|].
    destruct (items_close_head (map jstr er) K) as [c0 [rest0 E0]].
    assert (Hews : eat_ws_commas (jstr e ++ items_close (map jstr er) K) = 34 :: e ++ 34 :: c0 :: rest0).
    { unfold jstr at 1. cbn [app]. rewrite <- app_assoc. cbn [app]. rewrite E0. apply eat_ws_commas_stop; [reflexivity|lia]. }
    rewrite (copy_tag_values_step fuel _ s e c0 rest0 pre F endp count Hse Lp ltac:(lia) Hews).
    rewrite <- E0. rewrite (copy_tag_values_items r er fuel (pre ++ enc_str s) (drop (2 + len s) F) K (endp + 2 + len s) (count + 1) H2r).
    2:{ cbn [length] in Hf. lia. }
    2:{ rewrite len_app, len_enc_str. unfold str_size. lia. }
    2:{ rewrite len_drop. lia. }
    cbn [map concat sumN]. rewrite <- !app_assoc, drop_drop, len_cons. finish_triple.
Qed.

(* the first pass skips the same array *)
Lemma burn_array_items vs : forall evs fuel K, Forall2 escd vs evs -> (S (length vs) < fuel)%nat ->
  burn_array fuel 0 (items_close (map jstr evs) K) = Ok K.
Proof.
  induction vs as [|s r IH]; intros evs fuel K H2 Hf; (destruct fuel as [|fuel]; [lia|]).
  - assert (evs = []) by (inversion H2; reflexivity). subst evs. cbn [map items_close burn_array].
    rewrite eat_ws_commas_stop by (try reflexivity; lia). change (93 =? 93) with true. reflexivity.
  - destruct evs as [|e er]; [inversion H2|]. apply F2_cons in H2. destruct H2 as [[Hun Hbu] H2r].
    cbn [map items_close burn_array]. rewrite eat_ws_commas_comma. unfold jstr at 1. cbn [app]. rewrite eat_ws_commas_stop by (try reflexivity; lia).
    change (34 =? 93) with false. cbv iota.
    destruct fuel as [|fuel]; [cbn [length] in Hf; lia|]. cbn [burn_value]. change (MAX_BURN_DEPTH <? 0) with false. cbv iota.
    change (34 =? 34) with true. cbv iota. rewrite <- app_assoc. cbn [app]. rewrite (Hbu _). cbn [bind].
    apply (IH er (S fuel) K H2r). cbn [length] in Hf. lia.
Qed.
Lemma burn_array_vals vs evs fuel K : Forall2 escd vs evs -> (S (S (length vs)) < fuel)%nat ->
  burn_array fuel 0 (join [44] (map jstr evs) ++ 93 :: K) = Ok K.
Proof.
  intros H2 Hf. rewrite vals_text_items. destruct vs as [|s r].
  - assert (evs = []) by (inversion H2; reflexivity). subst evs. apply (burn_array_items [] [] fuel K H2). cbn [length] in *. lia.
  - destruct evs as [|e er]; [inversion H2|]. apply F2_cons in H2. destruct H2 as [[Hun Hbu] H2r].
    destruct fuel as [|[|fuel]]; try (cbn [length] in Hf; lia). cbn [burn_array]. unfold jstr at 1. cbn [app]. rewrite eat_ws_commas_stop by (try reflexivity; lia).
    change (34 =? 93) with false. cbv iota. cbn [burn_value]. change (MAX_BURN_DEPTH <? 0) with false. cbv iota.
    change (34 =? 34) with true. cbv iota. rewrite <- app_assoc. cbn [app]. rewrite (Hbu _). cbn [bind].
    apply (burn_array_items r er (S fuel) K H2r). cbn [length] in Hf. lia.
Qed.

(* ====================== Part B: the first pass (filter_members) ====================== *)
Lemma testbit_small c i : c < 2 ^ i -> N.testbit c i = false.
Proof.
  intros H. destruct (N.eq_dec c 0) as [->|Hc]; [apply N.bits_0|]. apply N.bits_above_log2. apply N.log2_lt_pow2; lia.
Qed.
Lemma has_bit_small c b i : b = 2 ^ i -> c < b -> has_bit c b = false /\ set_bit c b = c + b.
Proof.
  intros -> H. unfold set_bit, has_bit. rewrite N.log2_pow2 by lia. rewrite (testbit_small c i H). split; reflexivity.
Qed.

(* members of the object: each starts with its opening quote; after the last comes `}` *)
Fixpoint members_close (ps : list bytes) (tail : bytes) : bytes :=
  match ps with [] => 125 :: tail | p :: r => 44 :: p ++ members_close r tail end.
Lemma members_close_head ps tail : exists c r, members_close ps tail = c :: r /\ (c = 44 \/ c = 125).
Proof. destruct ps; cbn [members_close]; eexists _, _; split; try reflexivity; auto. Qed.
Lemma members_close_app a b tail : members_close (a ++ b) tail = members_close a (match b with [] => tail | _ => tail end) ++ [] -> True.
Proof. auto. Qed.
Lemma members_close_app1 p r tail : members_close ([p] ++ r) tail = 44 :: p ++ members_close r tail.
Proof. reflexivity. Qed.

Lemma fm_done fuel st l tail : eat_ws_commas l = 125 :: tail -> filter_members (S fuel) st l = Ok (st, tail).
Proof. intros H. cbn [filter_members]. rewrite H. cbn [peek bind]. change (125 =? 125) with true. reflexivity. Qed.
Lemma fm_step fuel st l body K st' : eat_ws_commas l = 34 :: body -> filter_member st body = Ok (st', K) ->
  filter_members (S fuel) st l = filter_members fuel st' K.
Proof.
  intros H Hm. cbn [filter_members]. rewrite H. cbn [peek bind]. change (34 =? 125) with false. cbv iota.
  cbn [verify_char]. change (34 =? 34) with true. cbv iota. cbn [bind]. rewrite Hm. reflexivity.
Qed.
Lemma fm_comma fuel st l : filter_members fuel st (44 :: l) = filter_members fuel st l.
Proof. destruct fuel; reflexivity. Qed.

(* K: what follows a member (`,` or `}` first) *)
Definition follows (K : bytes) : Prop := exists c r, K = c :: r /\ (c = 44 \/ c = 125).
Lemma follows_nondigit K : follows K -> exists c r, K = c :: r /\ is_digit c = false /\ is_ws c = false.
Proof. intros [c [r [-> [->| ->]]]]; eexists _, _; repeat split; reflexivity. Qed.

Section Member.
  Variable st : flst.
  Let c := fl_found st.

  Lemma fmem_ids ids K : Forall (fun x => wf_bytes x /\ len x = 32) ids -> has_bit c FL_IDS = false ->
    filter_member st (105 :: 100 :: 115 :: 34 :: 58 :: 91 :: hexlist ids ++ 93 :: K)
    = Ok (mkFl (fl_out st) (set_bit c FL_IDS) (fl_letters st) (Some (hexlist ids ++ 93 :: K)) (fl_start_authors st) (fl_start_kinds st) (fl_start_tags st), K).
  Proof.
    intros Hw Hb. unfold filter_member.
    replace (starts_with k_ids (105 :: 100 :: 115 :: 34 :: 58 :: 91 :: hexlist ids ++ 93 :: K)) with true by reflexivity.
    fold c. rewrite Hb.
    change (drop 4 (105 :: 100 :: 115 :: 34 :: 58 :: 91 :: hexlist ids ++ 93 :: K)) with (58 :: 91 :: hexlist ids ++ 93 :: K).
    rewrite eat_colon_ws_lit by reflexivity. cbn [bind verify_char]. change (91 =? 91) with true. cbv iota. cbn [bind].
    rewrite skip_to_bracket_no93 by (apply hexlist_no93; exact Hw). cbn [verify_char]. change (93 =? 93) with true. reflexivity.
  Qed.

  Lemma fmem_authors ids K : Forall (fun x => wf_bytes x /\ len x = 32) ids -> has_bit c FL_AUTHORS = false ->
    filter_member st (97 :: 117 :: 116 :: 104 :: 111 :: 114 :: 115 :: 34 :: 58 :: 91 :: hexlist ids ++ 93 :: K)
    = Ok (mkFl (fl_out st) (set_bit c FL_AUTHORS) (fl_letters st) (fl_start_ids st) (Some (hexlist ids ++ 93 :: K)) (fl_start_kinds st) (fl_start_tags st), K).
  Proof.
    intros Hw Hb. unfold filter_member.
    set (txt := 97 :: 117 :: 116 :: 104 :: 111 :: 114 :: 115 :: 34 :: 58 :: 91 :: hexlist ids ++ 93 :: K).
    replace (starts_with k_ids txt) with false by reflexivity. replace (starts_with k_authors txt) with true by reflexivity.
    fold c. rewrite Hb. subst txt.
    change (drop 8 (97 :: 117 :: 116 :: 104 :: 111 :: 114 :: 115 :: 34 :: 58 :: 91 :: hexlist ids ++ 93 :: K)) with (58 :: 91 :: hexlist ids ++ 93 :: K).
    rewrite eat_colon_ws_lit by reflexivity. cbn [bind verify_char]. change (91 =? 91) with true. cbv iota. cbn [bind].
    rewrite skip_to_bracket_no93 by (apply hexlist_no93; exact Hw). cbn [verify_char]. change (93 =? 93) with true. reflexivity.
  Qed.

  Lemma fmem_kinds ks K : Forall (fun k => k < 65536) ks -> has_bit c FL_KINDS = false ->
    filter_member st (107 :: 105 :: 110 :: 100 :: 115 :: 34 :: 58 :: 91 :: declist ks ++ 93 :: K)
    = Ok (mkFl (fl_out st) (set_bit c FL_KINDS) (fl_letters st) (fl_start_ids st) (fl_start_authors st) (Some (declist ks ++ 93 :: K)) (fl_start_tags st), K).
  Proof.
    intros Hw Hb. unfold filter_member.
    set (txt := 107 :: 105 :: 110 :: 100 :: 115 :: 34 :: 58 :: 91 :: declist ks ++ 93 :: K).
    replace (starts_with k_ids txt) with false by reflexivity. replace (starts_with k_authors txt) with false by reflexivity.
    replace (starts_with k_kinds txt) with true by reflexivity.
    fold c. rewrite Hb. subst txt.
    change (drop 6 (107 :: 105 :: 110 :: 100 :: 115 :: 34 :: 58 :: 91 :: declist ks ++ 93 :: K)) with (58 :: 91 :: declist ks ++ 93 :: K).
    rewrite eat_colon_ws_lit by reflexivity. cbn [bind verify_char]. change (91 =? 91) with true. cbv iota. cbn [bind].
    rewrite skip_to_bracket_no93 by (apply declist_no93; exact Hw). cbn [verify_char]. change (93 =? 93) with true. reflexivity.
  Qed.

  (* a number member: key text [key] (after the quote, up to and including the closing quote), then `:` and the digits *)
  Lemma number_after_colon u K : u < 18446744073709551616 -> follows K ->
    (r <- eat_colon_ws (58 :: dec u ++ K) ;; read_u64 r) = Ok (u, K).
  Proof.
    intros Hu HK. destruct (follows_nondigit K HK) as [c0 [r0 [-> [Hd Hws]]]].
    assert (P : u < 10 ^ 25) by (assert (18446744073709551616 < 10 ^ 25) by (vm_compute; reflexivity); lia).
    destruct (dec_head u P) as [d [ds [Ed Hdd]]]. destruct (digit_not_special d Hdd) as (Hdws & _).
    rewrite Ed at 1. cbn [app]. rewrite eat_colon_ws_lit by exact Hdws. cbn [bind].
    change (d :: ds ++ c0 :: r0) with ((d :: ds) ++ c0 :: r0). rewrite <- Ed. apply read_u64_dec; assumption.
  Qed.

  Lemma fmem_limit a old r u K : u < 18446744073709551616 -> follows K -> has_bit c FL_LIMIT = false ->
    fl_out st = a ++ old ++ r -> len a = 12 -> len old = 4 ->
    filter_member st (108 :: 105 :: 109 :: 105 :: 116 :: 34 :: 58 :: dec u ++ K)
    = Ok (with_out st (a ++ le32 (N.min u 4294967295) ++ r) (set_bit c FL_LIMIT), K).
  Proof.
    intros Hu HK Hb Eo La Lo. unfold filter_member.
    set (txt := 108 :: 105 :: 109 :: 105 :: 116 :: 34 :: 58 :: dec u ++ K).
    replace (starts_with k_ids txt) with false by reflexivity. replace (starts_with k_authors txt) with false by reflexivity.
    replace (starts_with k_kinds txt) with false by reflexivity. replace (starts_with k_since txt) with false by reflexivity.
    replace (starts_with k_until txt) with false by reflexivity. replace (starts_with k_limit txt) with true by reflexivity.
    fold c. rewrite Hb. subst txt.
    change (drop 6 (108 :: 105 :: 109 :: 105 :: 116 :: 34 :: 58 :: dec u ++ K)) with (58 :: dec u ++ K).
    pose proof (number_after_colon u K Hu HK) as Hn. destruct (eat_colon_ws (58 :: dec u ++ K)) as [r1| | |]; cbn [bind] in *; try discriminate.
    rewrite Hn. cbn [bind]. rewrite Eo, (put_at a old (le32 (N.min u 4294967295)) r 12 La) by (rewrite len_le32; lia). reflexivity.
  Qed.

  Lemma fmem_since a old r u K : u < 18446744073709551616 -> follows K -> has_bit c FL_SINCE = false ->
    fl_out st = a ++ old ++ r -> len a = 16 -> len old = 8 ->
    filter_member st (115 :: 105 :: 110 :: 99 :: 101 :: 34 :: 58 :: dec u ++ K)
    = Ok (with_out st (a ++ le64 u ++ r) (set_bit c FL_SINCE), K).
  Proof.
    intros Hu HK Hb Eo La Lo. unfold filter_member.
    set (txt := 115 :: 105 :: 110 :: 99 :: 101 :: 34 :: 58 :: dec u ++ K).
    replace (starts_with k_ids txt) with false by reflexivity. replace (starts_with k_authors txt) with false by reflexivity.
    replace (starts_with k_kinds txt) with false by reflexivity. replace (starts_with k_since txt) with true by reflexivity.
    fold c. rewrite Hb. subst txt.
    change (drop 6 (115 :: 105 :: 110 :: 99 :: 101 :: 34 :: 58 :: dec u ++ K)) with (58 :: dec u ++ K).
    pose proof (number_after_colon u K Hu HK) as Hn. destruct (eat_colon_ws (58 :: dec u ++ K)) as [r1| | |]; cbn [bind] in *; try discriminate.
    rewrite Hn. cbn [bind]. rewrite Eo, (put_at a old (le64 u) r 16 La) by (rewrite len_le64; lia). reflexivity.
  Qed.

  Lemma fmem_until a old r u K : u < 18446744073709551616 -> follows K -> has_bit c FL_UNTIL = false ->
    fl_out st = a ++ old ++ r -> len a = 24 -> len old = 8 ->
    filter_member st (117 :: 110 :: 116 :: 105 :: 108 :: 34 :: 58 :: dec u ++ K)
    = Ok (with_out st (a ++ le64 u ++ r) (set_bit c FL_UNTIL), K).
  Proof.
    intros Hu HK Hb Eo La Lo. unfold filter_member.
    set (txt := 117 :: 110 :: 116 :: 105 :: 108 :: 34 :: 58 :: dec u ++ K).
    replace (starts_with k_ids txt) with false by reflexivity. replace (starts_with k_authors txt) with false by reflexivity.
    replace (starts_with k_kinds txt) with false by reflexivity. replace (starts_with k_since txt) with false by reflexivity.
    replace (starts_with k_until txt) with true by reflexivity.
    fold c. rewrite Hb. subst txt.
    change (drop 6 (117 :: 110 :: 116 :: 105 :: 108 :: 34 :: 58 :: dec u ++ K)) with (58 :: dec u ++ K).
    pose proof (number_after_colon u K Hu HK) as Hn. destruct (eat_colon_ws (58 :: dec u ++ K)) as [r1| | |]; cbn [bind] in *; try discriminate.
    rewrite Hn. cbn [bind]. rewrite Eo, (put_at a old (le64 u) r 24 La) by (rewrite len_le64; lia). reflexivity.
  Qed.

  (* a tag field: hash, letter, quote, colon, bracket, values *)
  Lemma fmem_tag L vs evs K : is_letter L = true -> existsb (fun x => x =? L) (fl_letters st) = false -> Forall2 escd vs evs ->
    filter_member st (35 :: L :: 34 :: 58 :: 91 :: join [44] (map jstr evs) ++ 93 :: K)
    = Ok (mkFl (fl_out st) c (L :: fl_letters st) (fl_start_ids st) (fl_start_authors st) (fl_start_kinds st)
               (fl_start_tags st ++ [L :: 34 :: 58 :: 91 :: join [44] (map jstr evs) ++ 93 :: K]), K).
  Proof.
    intros HL Hfr H2. unfold filter_member.
    set (txt := 35 :: L :: 34 :: 58 :: 91 :: join [44] (map jstr evs) ++ 93 :: K).
    replace (starts_with k_ids txt) with false by reflexivity. replace (starts_with k_authors txt) with false by reflexivity.
    replace (starts_with k_kinds txt) with false by reflexivity. replace (starts_with k_since txt) with false by reflexivity.
    replace (starts_with k_until txt) with false by reflexivity. replace (starts_with k_limit txt) with false by reflexivity.
    subst txt. change (35 =? 35) with true. rewrite HL. change (34 =? 34) with true. cbn [andb]. rewrite Hfr.
    rewrite eat_colon_ws_lit by reflexivity. cbn [bind verify_char]. change (91 =? 91) with true. cbv iota. cbn [bind].
    rewrite (burn_array_vals vs evs _ K H2). { cbn [bind]. fold c. reflexivity. }
    (* fuel: twice the member's length *)
    unfold burn_fuel. cbn [length]. rewrite app_length.
    assert (G : (length vs <= length (join [44%N] (map jstr evs)))%nat).
    { apply F2_length in H2. rewrite H2. clear. induction evs as [|e r IH]; [cbn; lia|]. destruct r as [|e1 r1].
      - cbn [map join length]. unfold jstr. rewrite !app_length. cbn [length]. lia.
      - change (join [44%N] (map jstr (e :: e1 :: r1))) with (jstr e ++ [44%N] ++ join [44%N] (map jstr (e1 :: r1))).
        rewrite !app_length. unfold jstr at 1. rewrite !app_length. cbn [length] in *. lia. }
    lia.
  Qed.
End Member.

(* ====================== Part C: the members in the order as_json writes them ====================== *)
Lemma stage_step p bodyK R tail st st' fuel : p ++ members_close R tail = 34 :: bodyK ->
  filter_member st bodyK = Ok (st', members_close R tail) ->
  filter_members (S fuel) st (members_close (p :: R) tail) = filter_members fuel st' (members_close R tail).
Proof.
  intros Hp Hm. apply (fm_step fuel st _ bodyK (members_close R tail) st'); [|exact Hm].
  cbn [members_close]. rewrite eat_ws_commas_comma, Hp. apply eat_ws_commas_stop; [reflexivity|lia].
Qed.
Lemma members_close_follows R tail : follows (members_close R tail).
Proof. destruct (members_close_head R tail) as [c [r [E H]]]. exists c, r. split; assumption. Qed.

(* the texts of the optional members *)
Definition p_ids (l : list bytes) : list bytes := match l with [] => [] | _ => [[34;105;100;115;34;58;91] ++ hexlist l ++ [93]] end.
Definition p_authors (l : list bytes) : list bytes := match l with [] => [] | _ => [[34;97;117;116;104;111;114;115;34;58;91] ++ hexlist l ++ [93]] end.
Definition p_kinds (l : list N) : list bytes := match l with [] => [] | _ => [[34;107;105;110;100;115;34;58;91] ++ declist l ++ [93]] end.
Definition p_limit (u : N) : list bytes := if u =? 4294967295 then [] else [[34;108;105;109;105;116;34;58] ++ dec u].
Definition p_since (u : N) : list bytes := if u =? 0 then [] else [[34;115;105;110;99;101;34;58] ++ dec u].
Definition p_until (u : N) : list bytes := if u =? 18446744073709551615 then [] else [[34;117;110;116;105;108;34;58] ++ dec u].
Definition tag_part (L : N) (evs : list bytes) : bytes := [34;35] ++ [L] ++ [34;58;91] ++ join [44] (map jstr evs) ++ [93].

(* what the later stages leave alone *)
Definition same_starts (st st' : flst) : Prop :=
  fl_start_ids st' = fl_start_ids st /\ fl_start_authors st' = fl_start_authors st /\ fl_start_kinds st' = fl_start_kinds st /\
  fl_start_tags st' = fl_start_tags st.

(* ---- until ---- *)
Lemma run_until u st fuel tail a r : u < 18446744073709551616 -> fl_found st < 32 ->
  fl_out st = a ++ le64 18446744073709551615 ++ r -> len a = 24 ->
  exists st', filter_members (length (p_until u) + S fuel) st (members_close (p_until u) tail) = Ok (st', tail) /\
    same_starts st st' /\ fl_out st' = a ++ le64 u ++ r.
Proof.
  intros Hu Hc Eo La. unfold p_until. destruct (N.eqb_spec u 18446744073709551615) as [->|Hne].
  - exists st. cbn [length plus members_close]. rewrite (fm_done fuel st _ tail) by (apply eat_ws_commas_stop; [reflexivity|lia]).
    split; [reflexivity|]. split; [repeat split|exact Eo].
  - destruct (has_bit_small (fl_found st) FL_UNTIL 5 eq_refl Hc) as [Hb Hs].
    set (st1 := with_out st (a ++ le64 u ++ r) (set_bit (fl_found st) FL_UNTIL)).
    exists st1. cbn [length plus]. split.
    + rewrite (stage_step _ (117 :: 110 :: 116 :: 105 :: 108 :: 34 :: 58 :: dec u ++ members_close [] tail) [] tail st st1 (S fuel)).
      * cbn [members_close]. apply fm_done. apply eat_ws_commas_stop; [reflexivity|lia].
      * cbn [app]. rewrite <- ?app_assoc. reflexivity.
      * apply (fmem_until st a (le64 18446744073709551615) r u _ Hu (members_close_follows [] tail) Hb Eo La). reflexivity.
    + split; [repeat split|reflexivity].
Qed.

(* ---- since, then until ---- *)
Lemma run_since s u st fuel tail a r2 : s < 18446744073709551616 -> u < 18446744073709551616 -> fl_found st < 16 ->
  fl_out st = a ++ le64 0 ++ le64 18446744073709551615 ++ r2 -> len a = 16 ->
  exists st', filter_members (length (p_since s) + (length (p_until u) + S fuel)) st (members_close (p_since s ++ p_until u) tail) = Ok (st', tail) /\
    same_starts st st' /\ fl_out st' = a ++ le64 s ++ le64 u ++ r2.
Proof.
  intros Hs Hu Hc Eo La. unfold p_since. destruct (N.eqb_spec s 0) as [->|Hne].
  - cbn [app length plus].
    destruct (run_until u st fuel tail (a ++ le64 0) r2 Hu ltac:(lia)) as [st' [Hr [Hss Ho]]];
      [rewrite Eo, <- app_assoc; reflexivity|rewrite len_app, len_le64; lia|].
    exists st'. split; [exact Hr|]. split; [exact Hss|]. rewrite Ho, <- app_assoc. reflexivity.
  - destruct (has_bit_small (fl_found st) FL_SINCE 4 eq_refl Hc) as [Hb Hsb].
    set (K := members_close (p_until u) tail).
    set (st1 := with_out st (a ++ le64 s ++ le64 18446744073709551615 ++ r2) (set_bit (fl_found st) FL_SINCE)).
    destruct (run_until u st1 fuel tail (a ++ le64 s) r2 Hu) as [st' [Hr [Hss Ho]]].
    { subst st1. cbn [with_out fl_found]. rewrite Hsb. unfold FL_SINCE. lia. }
    { subst st1. cbn [with_out fl_out]. rewrite <- app_assoc. reflexivity. }
    { rewrite len_app, len_le64. lia. }
    exists st'. cbn [app length plus]. split.
    + rewrite (stage_step _ (115 :: 105 :: 110 :: 99 :: 101 :: 34 :: 58 :: dec s ++ K) (p_until u) tail st st1 _).
      * exact Hr.
      * cbn [app]. rewrite <- ?app_assoc. reflexivity.
      * apply (fmem_since st a (le64 0) _ s K Hs (members_close_follows _ tail) Hb Eo La). reflexivity.
    + split; [|rewrite Ho, <- app_assoc; reflexivity].
      destruct Hss as (A & B & C & D). subst st1. cbn [with_out fl_start_ids fl_start_authors fl_start_kinds fl_start_tags] in *. repeat split; assumption.
Qed.

(* ---- limit, then since, then until ---- *)
Lemma run_limit l s u st fuel tail a r3 : l < 4294967296 -> s < 18446744073709551616 -> u < 18446744073709551616 -> fl_found st < 8 ->
  fl_out st = a ++ le32 4294967295 ++ le64 0 ++ le64 18446744073709551615 ++ r3 -> len a = 12 ->
  exists st', filter_members (length (p_limit l) + (length (p_since s) + (length (p_until u) + S fuel))) st
                (members_close (p_limit l ++ p_since s ++ p_until u) tail) = Ok (st', tail) /\
    same_starts st st' /\ fl_out st' = a ++ le32 l ++ le64 s ++ le64 u ++ r3.
Proof.
  intros Hl Hs Hu Hc Eo La. unfold p_limit. destruct (N.eqb_spec l 4294967295) as [->|Hne].
  - cbn [app length plus].
    destruct (run_since s u st fuel tail (a ++ le32 4294967295) r3 Hs Hu ltac:(lia)) as [st' [Hr [Hss Ho]]];
      [rewrite Eo, <- app_assoc; reflexivity|rewrite len_app, len_le32; lia|].
    exists st'. split; [exact Hr|]. split; [exact Hss|]. rewrite Ho, <- app_assoc. reflexivity.
  - destruct (has_bit_small (fl_found st) FL_LIMIT 3 eq_refl Hc) as [Hb Hsb].
    set (K := members_close (p_since s ++ p_until u) tail).
    set (st1 := with_out st (a ++ le32 (N.min l 4294967295) ++ le64 0 ++ le64 18446744073709551615 ++ r3) (set_bit (fl_found st) FL_LIMIT)).
    destruct (run_since s u st1 fuel tail (a ++ le32 (N.min l 4294967295)) r3 Hs Hu) as [st' [Hr [Hss Ho]]].
    { subst st1. cbn [with_out fl_found]. rewrite Hsb. unfold FL_LIMIT. lia. }
    { subst st1. cbn [with_out fl_out]. rewrite <- app_assoc. reflexivity. }
    { rewrite len_app, len_le32. lia. }
    exists st'. cbn [app length plus]. split.
    + rewrite (stage_step _ (108 :: 105 :: 109 :: 105 :: 116 :: 34 :: 58 :: dec l ++ K) (p_since s ++ p_until u) tail st st1 _).
      * exact Hr.
      * cbn [app]. rewrite <- ?app_assoc. reflexivity.
      * apply (fmem_limit st a (le32 4294967295) _ l K ltac:(lia) (members_close_follows _ tail) Hb Eo La). reflexivity.
    + split.
      * destruct Hss as (A & B & C & D). subst st1. cbn [with_out fl_start_ids fl_start_authors fl_start_kinds fl_start_tags] in *. repeat split; assumption.
      * rewrite Ho, <- app_assoc. replace (N.min l 4294967295) with l by lia. reflexivity.
Qed.

(* ---- the tag fields, then limit / since / until ---- *)
Definition tagspec := (N * (list bytes * list bytes))%type.     (* letter, values, escaped values *)
Definition tag_ok (t : tagspec) : Prop := is_letter (fst t) = true /\ Forall2 escd (fst (snd t)) (snd (snd t)).
Definition tpart (t : tagspec) : bytes := tag_part (fst t) (snd (snd t)).
Definition tvals_text (t : tagspec) : bytes := join [44] (map jstr (snd (snd t))).

Fixpoint tag_starts (tags : list tagspec) (Rest : list bytes) (tail : bytes) : list bytes :=
  match tags with
  | [] => []
  | t :: r => (fst t :: 34 :: 58 :: 91 :: tvals_text t ++ 93 :: members_close (map tpart r ++ Rest) tail) :: tag_starts r Rest tail
  end.

Lemma run_tags tags : forall l s u st fuel tail a r3,
  Forall tag_ok tags -> NoDup (map fst tags) -> (forall L, In L (map fst tags) -> ~ In L (fl_letters st)) ->
  l < 4294967296 -> s < 18446744073709551616 -> u < 18446744073709551616 -> fl_found st < 8 ->
  fl_out st = a ++ le32 4294967295 ++ le64 0 ++ le64 18446744073709551615 ++ r3 -> len a = 12 ->
  exists st', filter_members (length tags + (length (p_limit l) + (length (p_since s) + (length (p_until u) + S fuel)))) st
                (members_close (map tpart tags ++ p_limit l ++ p_since s ++ p_until u) tail) = Ok (st', tail) /\
    fl_start_ids st' = fl_start_ids st /\ fl_start_authors st' = fl_start_authors st /\ fl_start_kinds st' = fl_start_kinds st /\
    fl_start_tags st' = fl_start_tags st ++ tag_starts tags (p_limit l ++ p_since s ++ p_until u) tail /\
    fl_out st' = a ++ le32 l ++ le64 s ++ le64 u ++ r3.
Proof.
  induction tags as [|t r IH]; intros l s u st fuel tail a r3 Hok Hnd Hfr Hl Hs Hu Hc Eo La.
  - cbn [map app length plus tag_starts]. destruct (run_limit l s u st fuel tail a r3 Hl Hs Hu Hc Eo La) as [st' [Hr [(A & B & C & D) Ho]]].
    exists st'. rewrite app_nil_r. repeat split; assumption.
  - apply Forall_cons_iff in Hok. destruct Hok as [[HL H2] Hokr]. cbn [map] in Hnd. apply NoDup_cons_iff in Hnd. destruct Hnd as [Hn0 Hndr].
    set (Rest := p_limit l ++ p_since s ++ p_until u) in *.
    set (K := members_close (map tpart r ++ Rest) tail).
    set (st1 := mkFl (fl_out st) (fl_found st) (fst t :: fl_letters st) (fl_start_ids st) (fl_start_authors st) (fl_start_kinds st)
                     (fl_start_tags st ++ [fst t :: 34 :: 58 :: 91 :: tvals_text t ++ 93 :: K])).
    destruct (IH l s u st1 fuel tail a r3 Hokr Hndr) as [st' [Hr (A & B & C & D & Ho)]]; try assumption.
    { intros L HLin [HeqL|Hin]; [subst L; apply Hn0; exact HLin|]. apply (Hfr L); [right; exact HLin|exact Hin]. }
    exists st'. cbn [map app length plus]. split.
    + rewrite (stage_step (tpart t) (35 :: fst t :: 34 :: 58 :: 91 :: tvals_text t ++ 93 :: K) (map tpart r ++ Rest) tail st st1 _).
      * exact Hr.
      * unfold tpart, tag_part, tvals_text. cbn [app]. rewrite <- ?app_assoc. cbn [app]. reflexivity.
      * apply (fmem_tag st (fst t) (fst (snd t)) (snd (snd t)) K HL); [|exact H2].
        destruct (existsb (fun x => x =? fst t) (fl_letters st)) eqn:Ex; [|reflexivity].
        exfalso. apply existsb_exists in Ex. destruct Ex as [x [Hx Hxe]]. apply N.eqb_eq in Hxe. subst x.
        apply (Hfr (fst t)); [left; reflexivity|exact Hx].
    + subst st1. cbn [fl_start_ids fl_start_authors fl_start_kinds fl_start_tags] in *. repeat split; try assumption.
      rewrite D. cbn [tag_starts]. rewrite <- app_assoc. reflexivity.
Qed.

(* ---- kinds, authors, ids on top ---- *)
Definition numparts (l s u : N) : list bytes := p_limit l ++ p_since s ++ p_until u.
Definition nnum (l s u : N) (fuel : nat) : nat := (length (p_limit l) + (length (p_since s) + (length (p_until u) + S fuel)))%nat.

Lemma run_kinds ks tags l s u st fuel tail a r3 :
  Forall (fun k => k < 65536) ks ->
  Forall tag_ok tags -> NoDup (map fst tags) -> (forall L, In L (map fst tags) -> ~ In L (fl_letters st)) ->
  l < 4294967296 -> s < 18446744073709551616 -> u < 18446744073709551616 -> fl_found st < 4 ->
  fl_out st = a ++ le32 4294967295 ++ le64 0 ++ le64 18446744073709551615 ++ r3 -> len a = 12 ->
  exists st', filter_members (length (p_kinds ks) + (length tags + nnum l s u fuel)) st
                (members_close (p_kinds ks ++ map tpart tags ++ numparts l s u) tail) = Ok (st', tail) /\
    fl_start_ids st' = fl_start_ids st /\ fl_start_authors st' = fl_start_authors st /\
    fl_start_kinds st' = match ks with [] => fl_start_kinds st | _ => Some (declist ks ++ 93 :: members_close (map tpart tags ++ numparts l s u) tail) end /\
    fl_start_tags st' = fl_start_tags st ++ tag_starts tags (numparts l s u) tail /\
    fl_out st' = a ++ le32 l ++ le64 s ++ le64 u ++ r3.
Proof.
  intros Hk Hok Hnd Hfr Hl Hs Hu Hc Eo La. unfold nnum, numparts. destruct ks as [|k0 kr].
  - cbn [p_kinds app length plus]. destruct (run_tags tags l s u st fuel tail a r3 Hok Hnd Hfr Hl Hs Hu ltac:(lia) Eo La) as [st' [Hr (A & B & C & D & Ho)]].
    exists st'. repeat split; assumption.
  - destruct (has_bit_small (fl_found st) FL_KINDS 2 eq_refl Hc) as [Hb Hsb].
    set (K := members_close (map tpart tags ++ p_limit l ++ p_since s ++ p_until u) tail).
    set (st1 := mkFl (fl_out st) (set_bit (fl_found st) FL_KINDS) (fl_letters st) (fl_start_ids st) (fl_start_authors st)
                     (Some (declist (k0 :: kr) ++ 93 :: K)) (fl_start_tags st)).
    destruct (run_tags tags l s u st1 fuel tail a r3 Hok Hnd Hfr Hl Hs Hu) as [st' [Hr (A & B & C & D & Ho)]]; try assumption.
    { subst st1. cbn [fl_found]. rewrite Hsb. unfold FL_KINDS. lia. }
    exists st'. cbn [p_kinds app length plus]. split.
    + rewrite (stage_step _ (107 :: 105 :: 110 :: 100 :: 115 :: 34 :: 58 :: 91 :: declist (k0 :: kr) ++ 93 :: K) _ tail st st1 _).
      * exact Hr.
      * cbn [app]. rewrite <- ?app_assoc. cbn [app]. reflexivity.
      * apply (fmem_kinds st (k0 :: kr) K Hk Hb).
    + subst st1. cbn [fl_start_ids fl_start_authors fl_start_kinds fl_start_tags] in *. repeat split; assumption.
Qed.

Lemma run_authors au ks tags l s u st fuel tail a r3 :
  Forall (fun x => wf_bytes x /\ len x = 32) au -> Forall (fun k => k < 65536) ks ->
  Forall tag_ok tags -> NoDup (map fst tags) -> (forall L, In L (map fst tags) -> ~ In L (fl_letters st)) ->
  l < 4294967296 -> s < 18446744073709551616 -> u < 18446744073709551616 -> fl_found st < 2 ->
  fl_out st = a ++ le32 4294967295 ++ le64 0 ++ le64 18446744073709551615 ++ r3 -> len a = 12 ->
  exists st', filter_members (length (p_authors au) + (length (p_kinds ks) + (length tags + nnum l s u fuel))) st
                (members_close (p_authors au ++ p_kinds ks ++ map tpart tags ++ numparts l s u) tail) = Ok (st', tail) /\
    fl_start_ids st' = fl_start_ids st /\
    fl_start_authors st' = match au with [] => fl_start_authors st | _ => Some (hexlist au ++ 93 :: members_close (p_kinds ks ++ map tpart tags ++ numparts l s u) tail) end /\
    fl_start_kinds st' = match ks with [] => fl_start_kinds st | _ => Some (declist ks ++ 93 :: members_close (map tpart tags ++ numparts l s u) tail) end /\
    fl_start_tags st' = fl_start_tags st ++ tag_starts tags (numparts l s u) tail /\
    fl_out st' = a ++ le32 l ++ le64 s ++ le64 u ++ r3.
Proof.
  intros Ha Hk Hok Hnd Hfr Hl Hs Hu Hc Eo La. destruct au as [|a0 ar].
  - cbn [p_authors app length plus]. destruct (run_kinds ks tags l s u st fuel tail a r3 Hk Hok Hnd Hfr Hl Hs Hu ltac:(lia) Eo La) as [st' [Hr (A & B & C & D & Ho)]].
    exists st'. repeat split; assumption.
  - destruct (has_bit_small (fl_found st) FL_AUTHORS 1 eq_refl Hc) as [Hb Hsb].
    set (K := members_close (p_kinds ks ++ map tpart tags ++ numparts l s u) tail).
    set (st1 := mkFl (fl_out st) (set_bit (fl_found st) FL_AUTHORS) (fl_letters st) (fl_start_ids st)
                     (Some (hexlist (a0 :: ar) ++ 93 :: K)) (fl_start_kinds st) (fl_start_tags st)).
    destruct (run_kinds ks tags l s u st1 fuel tail a r3 Hk Hok Hnd Hfr Hl Hs Hu) as [st' [Hr (A & B & C & D & Ho)]]; try assumption.
    { subst st1. cbn [fl_found]. rewrite Hsb. unfold FL_AUTHORS. lia. }
    exists st'. cbn [p_authors app length plus]. split.
    + rewrite (stage_step _ (97 :: 117 :: 116 :: 104 :: 111 :: 114 :: 115 :: 34 :: 58 :: 91 :: hexlist (a0 :: ar) ++ 93 :: K) _ tail st st1 _).
      * exact Hr.
      * cbn [app]. rewrite <- ?app_assoc. cbn [app]. reflexivity.
      * apply (fmem_authors st (a0 :: ar) K Ha Hb).
    + subst st1. cbn [fl_start_ids fl_start_authors fl_start_kinds fl_start_tags] in *. repeat split; assumption.
Qed.

Lemma run_ids ids au ks tags l s u st fuel tail a r3 :
  Forall (fun x => wf_bytes x /\ len x = 32) ids ->
  Forall (fun x => wf_bytes x /\ len x = 32) au -> Forall (fun k => k < 65536) ks ->
  Forall tag_ok tags -> NoDup (map fst tags) -> (forall L, In L (map fst tags) -> ~ In L (fl_letters st)) ->
  l < 4294967296 -> s < 18446744073709551616 -> u < 18446744073709551616 -> fl_found st < 1 ->
  fl_out st = a ++ le32 4294967295 ++ le64 0 ++ le64 18446744073709551615 ++ r3 -> len a = 12 ->
  exists st', filter_members (length (p_ids ids) + (length (p_authors au) + (length (p_kinds ks) + (length tags + nnum l s u fuel)))) st
                (members_close (p_ids ids ++ p_authors au ++ p_kinds ks ++ map tpart tags ++ numparts l s u) tail) = Ok (st', tail) /\
    fl_start_ids st' = match ids with [] => fl_start_ids st | _ => Some (hexlist ids ++ 93 :: members_close (p_authors au ++ p_kinds ks ++ map tpart tags ++ numparts l s u) tail) end /\
    fl_start_authors st' = match au with [] => fl_start_authors st | _ => Some (hexlist au ++ 93 :: members_close (p_kinds ks ++ map tpart tags ++ numparts l s u) tail) end /\
    fl_start_kinds st' = match ks with [] => fl_start_kinds st | _ => Some (declist ks ++ 93 :: members_close (map tpart tags ++ numparts l s u) tail) end /\
    fl_start_tags st' = fl_start_tags st ++ tag_starts tags (numparts l s u) tail /\
    fl_out st' = a ++ le32 l ++ le64 s ++ le64 u ++ r3.
Proof.
  intros Hi Ha Hk Hok Hnd Hfr Hl Hs Hu Hc Eo La. destruct ids as [|i0 ir].
  - cbn [p_ids app length plus]. destruct (run_authors au ks tags l s u st fuel tail a r3 Ha Hk Hok Hnd Hfr Hl Hs Hu ltac:(lia) Eo La) as [st' [Hr (A & B & C & D & Ho)]].
    exists st'. repeat split; assumption.
  - destruct (has_bit_small (fl_found st) FL_IDS 0 eq_refl Hc) as [Hb Hsb].
    set (K := members_close (p_authors au ++ p_kinds ks ++ map tpart tags ++ numparts l s u) tail).
    set (st1 := mkFl (fl_out st) (set_bit (fl_found st) FL_IDS) (fl_letters st) (Some (hexlist (i0 :: ir) ++ 93 :: K))
                     (fl_start_authors st) (fl_start_kinds st) (fl_start_tags st)).
    destruct (run_authors au ks tags l s u st1 fuel tail a r3 Ha Hk Hok Hnd Hfr Hl Hs Hu) as [st' [Hr (A & B & C & D & Ho)]]; try assumption.
    { subst st1. cbn [fl_found]. rewrite Hsb. unfold FL_IDS. lia. }
    exists st'. cbn [p_ids app length plus]. split.
    + rewrite (stage_step _ (105 :: 100 :: 115 :: 34 :: 58 :: 91 :: hexlist (i0 :: ir) ++ 93 :: K) _ tail st st1 _).
      * exact Hr.
      * cbn [app]. rewrite <- ?app_assoc. cbn [app]. reflexivity.
      * apply (fmem_ids st (i0 :: ir) K Hi Hb).
    + subst st1. cbn [fl_start_ids fl_start_authors fl_start_kinds fl_start_tags] in *. repeat split; assumption.
Qed.

(* ====================== Part D: the second pass and the whole filter ====================== *)
Definition tag_of (t : tagspec) : list bytes := [fst t] :: fst (snd t).

(* the recorded starts of the tag fields, whatever follows each closing bracket *)
Fixpoint tstarts_k (tags : list tagspec) (Ks : list bytes) : list bytes :=
  match tags, Ks with
  | t :: r, K :: Kr => (fst t :: 34 :: 58 :: 91 :: tvals_text t ++ 93 :: K) :: tstarts_k r Kr
  | _, _ => []
  end.
Fixpoint tag_Ks (tags : list tagspec) (Rest : list bytes) (tail : bytes) : list bytes :=
  match tags with [] => [] | t :: r => members_close (map tpart r ++ Rest) tail :: tag_Ks r Rest tail end.
Lemma tag_starts_k tags Rest tail : tag_starts tags Rest tail = tstarts_k tags (tag_Ks tags Rest tail) /\ length (tag_Ks tags Rest tail) = length tags.
Proof. induction tags as [|t r [IH1 IH2]]; [split; reflexivity|]. cbn [tag_starts tag_Ks tstarts_k length]. rewrite IH1, IH2. split; reflexivity. Qed.

Lemma copy_tag_fields_gen tags : forall Ks P h4 od ot D F w n, length Ks = length tags ->
  Forall tag_ok tags -> len h4 = 4 -> len od = 2 * w -> len ot = 2 * len tags -> w + len tags = n ->
  sumN (map tag_size (map tag_of tags)) <= len F ->
  copy_tag_fields (tstarts_k tags Ks) w (P ++ h4 ++ od ++ ot ++ D ++ F) (len P) (len P + 4 + 2 * n + len D)
  = Ok (P ++ h4 ++ (od ++ concat (map le16 (offsets (4 + 2 * n + len D) (map tag_of tags)))) ++ (D ++ concat (map enc_tag (map tag_of tags)))
          ++ drop (sumN (map tag_size (map tag_of tags))) F,
        len P + 4 + 2 * n + len D + sumN (map tag_size (map tag_of tags))).
Proof.
  induction tags as [|t r IH]; intros Ks P h4 od ot D F w n HKs Hok Lh Lod Lot Hn Hcap.
  - cbn [tstarts_k copy_tag_fields map concat sumN offsets]. rewrite !app_nil_r, N.add_0_r.
    assert (ot = []) by (destruct ot; [reflexivity|unfold len in Lot; cbn [length] in Lot; lia]). subst ot. reflexivity.
  - destruct Ks as [|K0 Kr]; [discriminate HKs|]. cbn [length] in HKs. apply eq_add_S in HKs.
    revert Hn. apply Forall_cons_iff in Hok. destruct Hok as [[HL H2] Hokr]. intros Hn. rewrite len_cons in Lot, Hn.
    cbn [map sumN] in Hcap. set (vs := fst (snd t)) in *. set (evs := snd (snd t)) in *. set (L := fst t) in *.
    assert (Hts : tag_size (tag_of t) = 5 + sumN (map str_size vs)).
    { unfold tag_size, tag_of. fold L vs. cbn [map sumN]. unfold str_size at 1. change (len [L]) with 1. lia. }
    rewrite Hts in Hcap.
    destruct (split_free ot 2 ltac:(lia)) as [Eot Lo2]. remember (take 2 ot) as o2 eqn:Eo2. remember (drop 2 ot) as ot' eqn:Eot'.
    assert (Lot' : len ot' = 2 * len r) by (rewrite Eot', len_drop; lia). clear Eo2 Eot'.
    destruct (split_free F 2 ltac:(lia)) as [EF Lc2]. remember (take 2 F) as c2 eqn:Ec2. remember (drop 2 F) as F1 eqn:EF1d. clear Ec2.
    assert (LF1 : len F1 = len F - 2) by (rewrite EF1d; apply len_drop).
    destruct (split_free F1 2 ltac:(lia)) as [EF1 Ln2]. remember (take 2 F1) as n2 eqn:En2. remember (drop 2 F1) as F2 eqn:EF2d. clear En2.
    assert (LF2 : len F2 = len F - 4) by (rewrite EF2d, len_drop; lia).
    destruct (split_free F2 1 ltac:(lia)) as [EF2 Ll1]. remember (take 1 F2) as l1 eqn:El1. remember (drop 1 F2) as F3 eqn:EF3d. clear El1.
    assert (LF3 : len F3 = len F - 5) by (rewrite EF3d, len_drop; lia).
    assert (HF3 : F3 = drop 5 F) by (rewrite EF3d, EF2d, EF1d, !drop_drop; reflexivity).
    set (endp := len P + 4 + 2 * n + len D) in *.
    cbn [tstarts_k copy_tag_fields]. fold L. fold evs.
    (* the offset slot *)
    rewrite Eot.
    replace (P ++ h4 ++ od ++ (o2 ++ ot') ++ D ++ F) with ((P ++ h4 ++ od) ++ o2 ++ (ot' ++ D ++ F)) by (rewrite <- !app_assoc; reflexivity).
    rewrite (put_at (P ++ h4 ++ od) o2 (le16 (endp - len P)) _ (len P + 4 + 2 * w)) by (rewrite ?len_app, ?len_le16; lia). cbn [bind peek].
    (* name length, letter *)
    rewrite EF at 1. rewrite EF1 at 1. rewrite EF2 at 1.
    set (pre := (P ++ h4 ++ od) ++ le16 (endp - len P) ++ ot' ++ D).
    assert (Lpre : len pre = endp) by (subst pre endp; rewrite !len_app, len_le16; lia).
    replace ((P ++ h4 ++ od) ++ le16 (endp - len P) ++ ot' ++ D ++ c2 ++ n2 ++ l1 ++ F3) with ((pre ++ c2) ++ n2 ++ (l1 ++ F3)) by (subst pre; rewrite <- !app_assoc; reflexivity).
    rewrite (put_at (pre ++ c2) n2 (le16 1) _ (endp + 2)) by (rewrite ?len_app, ?len_le16; lia). cbn [bind].
    replace (len ((pre ++ c2) ++ le16 1 ++ l1 ++ F3) <? endp + 2 + 3) with false by (symmetry; apply N.ltb_ge; rewrite !len_app, len_le16; lia).
    replace ((pre ++ c2) ++ le16 1 ++ l1 ++ F3) with ((pre ++ c2 ++ le16 1) ++ l1 ++ F3) by (rewrite <- !app_assoc; reflexivity).
    rewrite (put_raw_at (pre ++ c2 ++ le16 1) l1 [L] F3 (endp + 2 + 2)) by (rewrite ?len_app, ?len_le16; try (change (len [L]) with 1); lia). cbn [bind tl].
    cbn [verify_char]. change (34 =? 34) with true. cbv iota. cbn [bind].
    rewrite eat_colon_ws_lit by reflexivity. cbn [bind verify_char]. change (91 =? 91) with true. cbv iota. cbn [bind].
    (* the values *)
    replace ((pre ++ c2 ++ le16 1) ++ [L] ++ F3) with ((pre ++ c2 ++ le16 1 ++ [L]) ++ F3) by (rewrite <- !app_assoc; reflexivity).
    unfold tvals_text. fold evs.
    rewrite (copy_tag_values_spec vs evs _ (pre ++ c2 ++ le16 1 ++ [L]) F3 _ (endp + 2 + 3) 1 H2).
    2:{ cbn [length]. rewrite app_length. apply F2_length in H2. rewrite H2.
        assert (G : (length evs <= length (join [44%N] (map jstr evs)))%nat).
        { clear. induction evs as [|e0 r0 IH0]; [cbn; lia|]. destruct r0 as [|e1 r1].
          - cbn [map join length]. unfold jstr. rewrite !app_length. cbn [length]. lia.
          - change (join [44%N] (map jstr (e0 :: e1 :: r1))) with (jstr e0 ++ [44%N] ++ join [44%N] (map jstr (e1 :: r1))).
            rewrite !app_length. unfold jstr at 1. rewrite !app_length. cbn [length] in *. lia. }
        lia. }
    2:{ rewrite !len_app, len_le16. change (len [L]) with 1. lia. }
    2:{ lia. }
    cbn [bind].
    (* the tag's string count *)
    replace ((pre ++ c2 ++ le16 1 ++ [L]) ++ concat (map enc_str vs) ++ drop (sumN (map str_size vs)) F3)
      with (pre ++ c2 ++ (le16 1 ++ [L] ++ concat (map enc_str vs) ++ drop (sumN (map str_size vs)) F3)) by (rewrite <- !app_assoc; reflexivity).
    rewrite (put_at pre c2 (le16 (1 + len vs)) _ endp Lpre) by (rewrite len_le16; lia). cbn [bind].
    (* reshape for the next field *)
    assert (Henc : le16 (1 + len vs) ++ le16 1 ++ [L] ++ concat (map enc_str vs) = enc_tag (tag_of t)).
    { unfold enc_tag, tag_of. fold L vs. rewrite len_cons. cbn [map concat]. unfold enc_str at 2. change (len [L]) with 1. rewrite <- !app_assoc. reflexivity. }
    replace (pre ++ le16 (1 + len vs) ++ le16 1 ++ [L] ++ concat (map enc_str vs) ++ drop (sumN (map str_size vs)) F3)
      with (P ++ h4 ++ (od ++ le16 (endp - len P)) ++ ot' ++ (D ++ enc_tag (tag_of t)) ++ drop (sumN (map str_size vs)) F3)
      by (rewrite <- Henc; subst pre; rewrite <- !app_assoc; reflexivity).
    replace (endp + 2 + 3 + sumN (map str_size vs)) with (len P + 4 + 2 * n + len (D ++ enc_tag (tag_of t))) by (rewrite len_app, len_enc_tag, Hts; subst endp; lia).
    rewrite (IH Kr P h4 (od ++ le16 (endp - len P)) ot' (D ++ enc_tag (tag_of t)) (drop (sumN (map str_size vs)) F3) (w + 1) n HKs Hokr Lh).
    + cbn [map concat sumN offsets]. rewrite Hts, HF3, !drop_drop, !len_app, len_enc_tag, Hts.
      replace (endp - len P) with (4 + 2 * n + len D) by (subst endp; lia).
      rewrite <- !app_assoc.
      replace (4 + 2 * n + (len D + (5 + sumN (map str_size vs)))) with (4 + 2 * n + len D + (5 + sumN (map str_size vs))) by lia.
      replace (5 + (sumN (map str_size vs) + sumN (map tag_size (map tag_of r)))) with (5 + sumN (map str_size vs) + sumN (map tag_size (map tag_of r))) by lia.
      replace (len P + 4 + 2 * n + (len D + (5 + sumN (map str_size vs))) + sumN (map tag_size (map tag_of r)))
        with (endp + (5 + sumN (map str_size vs) + sumN (map tag_size (map tag_of r)))) by (subst endp; lia).
      reflexivity.
    + rewrite len_app, len_le16. lia.
    + exact Lot'.
    + lia.
    + rewrite len_drop. lia.
Qed.

Lemma copy_tag_fields_spec tags : forall Rest tail P h4 od ot D F w n,
  Forall tag_ok tags -> len h4 = 4 -> len od = 2 * w -> len ot = 2 * len tags -> w + len tags = n ->
  sumN (map tag_size (map tag_of tags)) <= len F ->
  copy_tag_fields (tag_starts tags Rest tail) w (P ++ h4 ++ od ++ ot ++ D ++ F) (len P) (len P + 4 + 2 * n + len D)
  = Ok (P ++ h4 ++ (od ++ concat (map le16 (offsets (4 + 2 * n + len D) (map tag_of tags)))) ++ (D ++ concat (map enc_tag (map tag_of tags)))
          ++ drop (sumN (map tag_size (map tag_of tags))) F,
        len P + 4 + 2 * n + len D + sumN (map tag_size (map tag_of tags))).
Proof.
  intros Rest tail P h4 od ot D F w n. destruct (tag_starts_k tags Rest tail) as [E L]. rewrite E. apply copy_tag_fields_gen. exact L.
Qed.

(* an optional hex array of the second pass, uniformly in "present or not" *)
Lemma opt_hex_spec ids K fuel A c2 B F off endp : Forall (fun x => wf_bytes x /\ len x = 32) ids ->
  (length ids < fuel)%nat -> len A = off -> c2 = le16 0 -> len (A ++ c2 ++ B) = endp -> 32 * len ids <= len F -> len ids < 65536 ->
  (match (match ids with [] => None | _ => Some (hexlist ids ++ 93 :: K) end) with
   | Some s => '(o, e, n) <- copy_hex32 fuel s ((A ++ c2 ++ B) ++ F) endp 0 ;; o' <- put o off (le16 n) ;; Ok (o', e, n)
   | None => Ok ((A ++ c2 ++ B) ++ F, endp, 0) end)
  = Ok ((A ++ le16 (len ids) ++ B ++ concat ids) ++ drop (32 * len ids) F, endp + 32 * len ids, len ids).
Proof.
  intros Hw Hf La Hc Le Hcap Hn. destruct ids as [|x r].
  - subst c2. change (len (@nil bytes)) with 0. cbn [concat]. rewrite N.mul_0_r, N.add_0_r, app_nil_r. reflexivity.
  - rewrite (copy_hex32_spec (x :: r) fuel (A ++ c2 ++ B) F K endp Hw Hf Le Hcap Hn). cbn [bind].
    replace ((A ++ c2 ++ B) ++ concat (x :: r) ++ drop (32 * len (x :: r)) F) with (A ++ c2 ++ (B ++ concat (x :: r) ++ drop (32 * len (x :: r)) F))
      by (rewrite <- !app_assoc; reflexivity).
    rewrite (put_at A c2 (le16 (len (x :: r))) _ off La) by (subst c2; rewrite !len_le16; reflexivity). cbn [bind].
    rewrite <- !app_assoc. reflexivity.
Qed.

Lemma opt_kinds_spec ks K fuel A c2 B F off endp : Forall (fun k => k < 65536) ks ->
  (length ks < fuel)%nat -> len A = off -> c2 = le16 0 -> len (A ++ c2 ++ B) = endp -> 2 * len ks <= len F -> len ks < 65536 ->
  (match (match ks with [] => None | _ => Some (declist ks ++ 93 :: K) end) with
   | Some s => '(o, e, n) <- copy_kinds fuel s ((A ++ c2 ++ B) ++ F) endp 0 ;; o' <- put o off (le16 n) ;; Ok (o', e, n)
   | None => Ok ((A ++ c2 ++ B) ++ F, endp, 0) end)
  = Ok ((A ++ le16 (len ks) ++ B ++ concat (map le16 ks)) ++ drop (2 * len ks) F, endp + 2 * len ks, len ks).
Proof.
  intros Hw Hf La Hc Le Hcap Hn. destruct ks as [|x r].
  - subst c2. change (len (@nil N)) with 0. cbn [map concat]. rewrite N.mul_0_r, N.add_0_r, app_nil_r. reflexivity.
  - rewrite (copy_kinds_spec (x :: r) fuel (A ++ c2 ++ B) F K endp Hw Hf Le Hcap Hn). cbn [bind].
    replace ((A ++ c2 ++ B) ++ concat (map le16 (x :: r)) ++ drop (2 * len (x :: r)) F) with (A ++ c2 ++ (B ++ concat (map le16 (x :: r)) ++ drop (2 * len (x :: r)) F))
      by (rewrite <- !app_assoc; reflexivity).
    rewrite (put_at A c2 (le16 (len (x :: r))) _ off La) by (subst c2; rewrite !len_le16; reflexivity). cbn [bind].
    rewrite <- !app_assoc. reflexivity.
Qed.

(* the text *)
Lemma join_members parts tail : join [44] parts ++ 125 :: tail = match parts with [] => 125 :: tail | p :: ps => p ++ members_close ps tail end.
Proof.
  destruct parts as [|p ps]; [reflexivity|]. revert p; induction ps as [|q ps IH]; intros p; [reflexivity|].
  change (join [44] (p :: q :: ps)) with (p ++ [44] ++ join [44] (q :: ps)). rewrite <- !app_assoc. cbn [app members_close]. rewrite IH. reflexivity.
Qed.

(* the as_json direction needs the spelling json_escape chooses *)
Definition tag_ok0 (t : tagspec) : Prop := is_letter (fst t) = true /\ Forall2 escd0 (fst (snd t)) (snd (snd t)).
Lemma tag_ok0_ok t : tag_ok0 t -> tag_ok t.
Proof.
  intros [H1 H2]. split; [exact H1|]. induction H2 as [|s e vs evs H _ IH]; constructor; [apply escd0_escd; exact H|exact IH].
Qed.
Lemma tags_ok0_ok tags : Forall tag_ok0 tags -> Forall tag_ok tags.
Proof. intros H. eapply Forall_impl; [|exact H]. intros t. apply tag_ok0_ok. Qed.

Lemma tag_json_tpart t : tag_ok0 t -> filter_tag_json (tag_of t) = Ok (tpart t).
Proof.
  intros [_ H2]. unfold filter_tag_json, tag_of, tpart, tag_part.
  assert (Hm : map_res json_string (fst (snd t)) = Ok (map jstr (snd (snd t)))).
  { induction H2 as [|s e vs evs [Vs Es] _ IH]; [reflexivity|]. cbn [map_res map]. unfold json_string at 1. rewrite Es. cbn [bind]. rewrite IH. reflexivity. }
  rewrite Hm. cbn [bind]. reflexivity.
Qed.
Lemma tags_json_tparts tags : Forall tag_ok0 tags -> map_res filter_tag_json (map tag_of tags) = Ok (map tpart tags).
Proof.
  induction 1 as [|t r Ht _ IH]; [reflexivity|]. cbn [map map_res]. rewrite (tag_json_tpart t Ht). cbn [bind]. rewrite IH. reflexivity.
Qed.

Definition all_parts (f : afilter) (tags : list tagspec) : list bytes :=
  p_ids (f_ids f) ++ p_authors (f_authors f) ++ p_kinds (f_kinds f) ++ map tpart tags ++ numparts (f_limit f) (f_since f) (f_until f).

Lemma filter_as_json_text f tags : f_tags f = map tag_of tags -> Forall tag_ok0 tags ->
  filter_as_json f = Ok ([123] ++ join [44] (all_parts f tags) ++ [125]).
Proof.
  intros Et Hok. unfold filter_as_json. rewrite Et, (tags_json_tparts tags Hok). cbn [bind]. unfold all_parts, numparts, p_ids, p_authors, p_kinds, p_limit, p_since, p_until, hexlist, declist, hex_item.
  destruct (f_ids f), (f_authors f), (f_kinds f); reflexivity.
Qed.

Definition wf_filter_json (f : afilter) (tags : list tagspec) : Prop :=
  f_tags f = map tag_of tags /\ Forall tag_ok0 tags /\ NoDup (map fst tags) /\
  Forall (fun x => wf_bytes x /\ len x = 32) (f_ids f) /\ Forall (fun x => wf_bytes x /\ len x = 32) (f_authors f) /\
  Forall (fun k => k < 65536) (f_kinds f) /\
  f_limit f < 4294967296 /\ f_since f < 18446744073709551616 /\ f_until f < 18446744073709551616 /\
  len (f_ids f) < 65536 /\ len (f_authors f) < 65536 /\ len (f_kinds f) < 65536 /\
  fits_tags (f_tags f) /\ filter_size f < 4294967296.

Lemma join_length_ge (parts : list bytes) : Forall (fun p => p <> []) parts -> (length parts <= length (join [44%N] parts))%nat.
Proof.
  induction 1 as [|p r Hp _ IH]; [cbn; lia|]. destruct r as [|q r'].
  - cbn [join length]. destruct p; [congruence|cbn [length]; lia].
  - change (join [44%N] (p :: q :: r')) with (p ++ [44%N] ++ join [44%N] (q :: r')). rewrite !app_length. cbn [length] in *. lia.
Qed.

Lemma all_parts_nonempty f tags : Forall (fun p => p <> []) (all_parts f tags).
Proof.
  unfold all_parts, numparts, p_ids, p_authors, p_kinds, p_limit, p_since, p_until.
  repeat (apply Forall_app; split).
  - destruct (f_ids f); repeat constructor; discriminate.
  - destruct (f_authors f); repeat constructor; discriminate.
  - destruct (f_kinds f); repeat constructor; discriminate.
  - apply Forall_forall. intros p Hp. apply in_map_iff in Hp. destruct Hp as [t [<- _]]. unfold tpart, tag_part. discriminate.
  - destruct (f_limit f =? 4294967295); repeat constructor; discriminate.
  - destruct (f_since f =? 0); repeat constructor; discriminate.
  - destruct (f_until f =? 18446744073709551615); repeat constructor; discriminate.
Qed.

Lemma tags_size_of tags : tags_size (map tag_of tags) = 4 + 2 * len tags + sumN (map tag_size (map tag_of tags)).
Proof. unfold tags_size, tags_hdr. rewrite len_map. reflexivity. Qed.

Lemma tag_starts_len tags Rest tail : len (tag_starts tags Rest tail) = len tags.
Proof. induction tags as [|t r IH]; [reflexivity|]. cbn [tag_starts]. rewrite !len_cons, IH. reflexivity. Qed.

Lemma join_part_le (parts : list bytes) p : In p parts -> (length p <= length (join [44%N] parts))%nat.
Proof.
  induction parts as [|q r IH]; intros Hin; [destruct Hin|]. destruct r as [|q2 r2].
  - destruct Hin as [->|[]]. cbn [join]. lia.
  - change (join [44%N] (q :: q2 :: r2)) with (q ++ [44%N] ++ join [44%N] (q2 :: r2)). rewrite !app_length.
    destruct Hin as [->|Hin]; [lia|]. specialize (IH Hin). lia.
Qed.
Lemma hexlist_length ids : (length ids <= length (hexlist ids))%nat.
Proof.
  unfold hexlist. rewrite <- (map_length hex_item ids). apply join_length_ge. apply Forall_forall. intros p Hp.
  apply in_map_iff in Hp. destruct Hp as [x [<- _]]. unfold hex_item. discriminate.
Qed.
Lemma declist_length ks : Forall (fun k => k < 65536) ks -> (length ks <= length (declist ks))%nat.
Proof.
  intros Hk. unfold declist. rewrite <- (map_length dec ks). apply join_length_ge. apply Forall_forall. intros p Hp.
  apply in_map_iff in Hp. destruct Hp as [x [<- Hx]]. rewrite Forall_forall in Hk. apply dec_nonempty.
  assert (65536 < 10 ^ 25) by (vm_compute; reflexivity). specialize (Hk x Hx). lia.
Qed.

Lemma p_ids_bound ids parts : incl (p_ids ids) parts -> (length ids <= length (join [44%N] parts))%nat.
Proof.
  intros Hi. destruct ids as [|i0 ir] eqn:Ei; [cbn; lia|]. rewrite <- Ei in *.
  assert (Hin : In ([34;105;100;115;34;58;91] ++ hexlist ids ++ [93]) parts) by (apply Hi; rewrite Ei; left; reflexivity).
  apply join_part_le in Hin. rewrite !app_length in Hin. pose proof (hexlist_length ids). lia.
Qed.
Lemma p_authors_bound ids parts : incl (p_authors ids) parts -> (length ids <= length (join [44%N] parts))%nat.
Proof.
  intros Hi. destruct ids as [|i0 ir] eqn:Ei; [cbn; lia|]. rewrite <- Ei in *.
  assert (Hin : In ([34;97;117;116;104;111;114;115;34;58;91] ++ hexlist ids ++ [93]) parts) by (apply Hi; rewrite Ei; left; reflexivity).
  apply join_part_le in Hin. rewrite !app_length in Hin. pose proof (hexlist_length ids). lia.
Qed.
Lemma p_kinds_bound ks parts : Forall (fun k => k < 65536) ks -> incl (p_kinds ks) parts -> (length ks <= length (join [44%N] parts))%nat.
Proof.
  intros Wk Hi. pose proof (declist_length ks Wk) as Hd. destruct ks as [|i0 ir] eqn:Ei; [cbn; lia|]. rewrite <- Ei in *.
  assert (Hin : In ([34;107;105;110;100;115;34;58;91] ++ declist ks ++ [93]) parts) by (apply Hi; rewrite Ei; left; reflexivity).
  apply join_part_le in Hin. rewrite !app_length in Hin. lia.
Qed.

Theorem filter_json_roundtrip f tags txt out : wf_filter_json f tags -> filter_size f <= len out ->
  filter_as_json f = Ok txt ->
  filter_from_json txt out = Ok (len txt, enc_filter f, enc_filter f ++ drop (filter_size f) out).
Proof.
  intros (Et & Hok & Hnd & Wi & Wa & Wk & Hl & Hs & Hu & Ni & Na & Nk & Hfit & Hsz) Hcap Hj.
  rewrite (filter_as_json_text f tags Et Hok) in Hj. injection Hj as Etxt.
  pose proof (tags_ok0_ok tags Hok) as Hok1.
  set (parts := all_parts f tags) in *.
  set (ids := f_ids f) in *. set (au := f_authors f) in *. set (ks := f_kinds f) in *.
  set (l := f_limit f) in *. set (s := f_since f) in *. set (u := f_until f) in *.
  assert (Hfs : filter_size f = 32 + 32 * len ids + 32 * len au + 2 * len ks + tags_size (map tag_of tags)).
  { unfold filter_size. fold ids au ks. rewrite Et. reflexivity. }
  rewrite Hfs in Hcap, Hsz. rewrite Et in Hfit. unfold fits_tags in Hfit. rewrite tags_size_of in Hcap, Hsz, Hfit.
  set (S := sumN (map tag_size (map tag_of tags))) in *.
  (* the text *)
  assert (Ebody : txt = 123 :: (join [44] parts ++ [125])) by (rewrite <- Etxt; reflexivity).
  assert (Ltxt : (2 <= length txt)%nat) by (rewrite Ebody; cbn [length]; rewrite app_length; cbn [length]; lia).
  assert (Hparts : (length parts <= length txt)%nat).
  { rewrite Ebody. cbn [length]. rewrite app_length. pose proof (join_length_ge parts (all_parts_nonempty f tags)). lia. }
  (* the buffer *)
  destruct (split_free out 32 ltac:(lia)) as [Eout L32]. remember (take 32 out) as o32 eqn:Eo32. remember (drop 32 out) as R eqn:ER. clear Eo32.
  assert (LR : len R = len out - 32) by (rewrite ER; apply len_drop).
  unfold filter_from_json, parse_json_filter.
  replace (len txt <? 2) with false by (symmetry; apply N.ltb_ge; unfold len; lia).
  rewrite Eout at 1. change (o32 ++ R) with ([] ++ o32 ++ R).
  rewrite (put_at [] o32 filter_header R 0 eq_refl) by (rewrite L32; reflexivity). cbn [bind app].
  rewrite Ebody at 1. rewrite (eat_ws_nonws 123) by reflexivity. cbn [verify_char]. change (123 =? 123) with true. cbv iota. cbn [bind].
  (* first pass *)
  change filter_header with (([0;0;0;0] ++ [0;0] ++ [0;0] ++ [0;0] ++ [0;0]) ++ le32 4294967295 ++ le64 0 ++ le64 18446744073709551615).
  set (a12 := [0;0;0;0] ++ [0;0] ++ [0;0] ++ [0;0] ++ [0;0]).
  set (st0 := mkFl ((a12 ++ le32 4294967295 ++ le64 0 ++ le64 18446744073709551615) ++ R) 0 [] None None None []).
  assert (Hm : filter_members (Datatypes.S (length txt)) st0 (join [44] parts ++ [125]) = filter_members (Datatypes.S (length txt)) st0 (members_close parts [])).
  { rewrite join_members. destruct parts as [|p ps]; [reflexivity|]. cbn [members_close]. rewrite fm_comma. reflexivity. }
  rewrite Hm. clear Hm.
  assert (Hlen : length parts = (length (p_ids ids) + (length (p_authors au) + (length (p_kinds ks) + (length tags + (length (p_limit l) + (length (p_since s) + length (p_until u)))))))%nat).
  { subst parts. unfold all_parts, numparts. fold ids au ks l s u. rewrite !app_length, map_length. lia. }
  set (fuel := (length txt - length parts)%nat).
  (* the arrays are shorter than the text *)
  assert (Hjoin : (length (join [44%N] parts) <= length txt)%nat) by (rewrite Ebody; cbn [length]; rewrite app_length; lia).
  assert (Hfi : (length ids < Datatypes.S (length txt))%nat).
  { assert (Hb := p_ids_bound ids parts). enough (length ids <= length (join [44%N] parts))%nat by lia. apply Hb.
    subst parts. unfold all_parts. fold ids. apply incl_appl. apply incl_refl. }
  assert (Hfa : (length au < Datatypes.S (length txt))%nat).
  { assert (Hb := p_authors_bound au parts). enough (length au <= length (join [44%N] parts))%nat by lia. apply Hb.
    subst parts. unfold all_parts. fold au. apply incl_appr. apply incl_appl. apply incl_refl. }
  assert (Hfk : (length ks < Datatypes.S (length txt))%nat).
  { assert (Hb := p_kinds_bound ks parts Wk). enough (length ks <= length (join [44%N] parts))%nat by lia. apply Hb.
    subst parts. unfold all_parts. fold ks. apply incl_appr. apply incl_appr. apply incl_appl. apply incl_refl. }
  assert (Hfuel : Datatypes.S (length txt) = (length (p_ids ids) + (length (p_authors au) + (length (p_kinds ks) + (length tags + nnum l s u fuel))))%nat)
    by (unfold nnum; subst fuel; lia).
  rewrite Hfuel in Hfi, Hfa, Hfk. rewrite Hfuel.
  destruct (run_ids ids au ks tags l s u st0 fuel [] a12 R Wi Wa Wk Hok1 Hnd) as [st' [Hrun (Si & Sa & Sk & St & So)]];
    try assumption; try (intros L0 _ []); try (cbn [fl_found st0]; lia); try reflexivity.
  subst parts. unfold all_parts. fold ids au ks l s u. rewrite Hrun. cbn [bind]. clear Hrun.
  rewrite Si, Sa, Sk, St, So. subst st0. cbn [fl_start_ids fl_start_authors fl_start_kinds fl_start_tags app].
  (* second pass: ids *)
  replace (a12 ++ le32 l ++ le64 s ++ le64 u ++ R)
    with (([0;0;0;0] ++ [0;0] ++ ([0;0] ++ [0;0] ++ [0;0] ++ le32 l ++ le64 s ++ le64 u)) ++ R) by (subst a12; rewrite <- !app_assoc; reflexivity).
  rewrite (opt_hex_spec ids _ _ [0;0;0;0] [0;0] _ R 4 32 Wi Hfi) by (try reflexivity; try lia; rewrite ?len_app, ?len_le32, ?len_le64; reflexivity).
  cbn [bind].
  (* authors *)
  replace (([0;0;0;0] ++ le16 (len ids) ++ ([0;0] ++ [0;0] ++ [0;0] ++ le32 l ++ le64 s ++ le64 u) ++ concat ids) ++ drop (32 * len ids) R)
    with ((([0;0;0;0] ++ le16 (len ids)) ++ [0;0] ++ ([0;0] ++ [0;0] ++ le32 l ++ le64 s ++ le64 u ++ concat ids)) ++ drop (32 * len ids) R)
    by (rewrite <- !app_assoc; reflexivity).
  assert (Lcid : len (concat ids) = 32 * len ids).
  { apply len_concat_fixed. eapply Forall_impl; [|exact Wi]. intros x [_ H]. exact H. }
  assert (Lcau : len (concat au) = 32 * len au).
  { apply len_concat_fixed. eapply Forall_impl; [|exact Wa]. intros x [_ H]. exact H. }
  rewrite (opt_hex_spec au _ _ ([0;0;0;0] ++ le16 (len ids)) [0;0] _ (drop (32 * len ids) R) 6 (32 + 32 * len ids) Wa Hfa)
    by (try reflexivity; try lia; rewrite ?len_app, ?len_le16, ?len_le32, ?len_le64, ?len_drop, ?Lcid; change (len [0;0;0;0]) with 4; change (len [0;0]) with 2; try reflexivity; lia).
  cbn [bind].
  (* kinds *)
  replace ((([0;0;0;0] ++ le16 (len ids)) ++ le16 (len au) ++ ([0;0] ++ [0;0] ++ le32 l ++ le64 s ++ le64 u ++ concat ids) ++ concat au) ++ drop (32 * len au) (drop (32 * len ids) R))
    with ((([0;0;0;0] ++ le16 (len ids) ++ le16 (len au)) ++ [0;0] ++ ([0;0] ++ le32 l ++ le64 s ++ le64 u ++ concat ids ++ concat au)) ++ drop (32 * len ids + 32 * len au) R)
    by (rewrite <- !app_assoc, drop_drop; reflexivity).
  rewrite (opt_kinds_spec ks _ _ ([0;0;0;0] ++ le16 (len ids) ++ le16 (len au)) [0;0] _ (drop (32 * len ids + 32 * len au) R) 8 (32 + 32 * len ids + 32 * len au) Wk Hfk)
    by (try reflexivity; try lia; rewrite ?len_app, ?len_le16, ?len_le32, ?len_le64, ?len_drop, ?Lcid, ?Lcau; change (len [0;0;0;0]) with 4; change (len [0;0]) with 2; try reflexivity; lia).
  cbn [bind].
  (* tags *)
  set (wts := 32 + 32 * len ids + 32 * len au + 2 * len ks).
  assert (Hw : wts = 32 + 32 * len ids + 32 * len au + 2 * len ks) by reflexivity.
  set (P' := le16 (len ids) ++ le16 (len au) ++ le16 (len ks) ++ [0;0] ++ le32 l ++ le64 s ++ le64 u ++ concat ids ++ concat au ++ concat (map le16 ks)).
  set (F3 := drop (32 * len ids + 32 * len au + 2 * len ks) R).
  replace ((([0;0;0;0] ++ le16 (len ids) ++ le16 (len au)) ++ le16 (len ks) ++ ([0;0] ++ le32 l ++ le64 s ++ le64 u ++ concat ids ++ concat au) ++ concat (map le16 ks)) ++ drop (2 * len ks) (drop (32 * len ids + 32 * len au) R))
    with (([0;0;0;0] ++ P') ++ F3) by (subst P' F3; rewrite <- !app_assoc, drop_drop; reflexivity).
  replace (32 + 32 * len ids + 32 * len au + 2 * len ks) with wts by reflexivity.
  assert (LP : len ([0;0;0;0] ++ P') = wts).
  { subst P' wts. rewrite !len_app, !len_le16, len_le32, !len_le64, Lcid, Lcau, len_concat_le16. change (len [0;0;0;0]) with 4. change (len [0;0]) with 2. lia. }
  assert (LF3 : len F3 = len out - wts) by (subst F3 wts; rewrite len_drop, LR; lia).
  rewrite tag_starts_len.
  destruct (split_free F3 2 ltac:(lia)) as [EF3 Lt2]. remember (take 2 F3) as t2 eqn:Et2. remember (drop 2 F3) as F4 eqn:EF4d. clear Et2.
  assert (LF4 : len F4 = len F3 - 2) by (rewrite EF4d; apply len_drop).
  destruct (split_free F4 2 ltac:(lia)) as [EF4 Ln2]. remember (take 2 F4) as n2 eqn:En2. remember (drop 2 F4) as F5 eqn:EF5d. clear En2.
  assert (LF5 : len F5 = len F3 - 4) by (rewrite EF5d, len_drop; lia).
  destruct (split_free F5 (2 * len tags) ltac:(lia)) as [EF5 Lot]. remember (take (2 * len tags) F5) as ot eqn:Eot. remember (drop (2 * len tags) F5) as F6 eqn:EF6d. clear Eot.
  assert (LF6 : len F6 = len F3 - 4 - 2 * len tags) by (rewrite EF6d, len_drop; lia).
  rewrite EF3 at 1. rewrite EF4 at 1.
  replace (([0;0;0;0] ++ P') ++ t2 ++ n2 ++ F5) with ((([0;0;0;0] ++ P') ++ t2) ++ n2 ++ F5) by (rewrite <- !app_assoc; reflexivity).
  rewrite (put_at (([0;0;0;0] ++ P') ++ t2) n2 (le16 (len tags)) F5 (wts + 2)) by (first [rewrite len_app, LP, Lt2; reflexivity | rewrite len_le16; lia]). cbn [bind].
  rewrite EF5 at 1.
  replace ((([0;0;0;0] ++ P') ++ t2) ++ le16 (len tags) ++ ot ++ F6) with (([0;0;0;0] ++ P') ++ (t2 ++ le16 (len tags)) ++ [] ++ ot ++ [] ++ F6)
    by (cbn [app]; rewrite <- !app_assoc; reflexivity).
  rewrite <- LP at 1 2.
  replace (len ([0;0;0;0] ++ P') + 4 + 2 * len tags) with (len ([0;0;0;0] ++ P') + 4 + 2 * len tags + len (@nil N)) by (change (len (@nil N)) with 0; lia).
  rewrite (copy_tag_fields_spec tags _ [] ([0;0;0;0] ++ P') (t2 ++ le16 (len tags)) [] ot [] F6 0 (len tags) Hok1)
    by (rewrite ?len_app, ?len_le16; try reflexivity; lia).
  rewrite LP. cbn [bind]. rewrite !app_nil_l. change (len (@nil N)) with 0. rewrite !N.add_0_r.
  fold S.
  replace (wts + 4 + 2 * len tags + S - wts) with (4 + 2 * len tags + S) by lia.
  replace (65535 <? 4 + 2 * len tags + S) with false by (symmetry; apply N.ltb_ge; lia).
  replace (([0;0;0;0] ++ P') ++ (t2 ++ le16 (len tags)) ++ concat (map le16 (offsets (4 + 2 * len tags) (map tag_of tags))) ++ concat (map enc_tag (map tag_of tags)) ++ drop S F6)
    with (([0;0;0;0] ++ P') ++ t2 ++ (le16 (len tags) ++ concat (map le16 (offsets (4 + 2 * len tags) (map tag_of tags))) ++ concat (map enc_tag (map tag_of tags)) ++ drop S F6))
    by (rewrite <- !app_assoc; reflexivity).
  rewrite (put_at ([0;0;0;0] ++ P') t2 (le16 (4 + 2 * len tags + S)) _ wts LP) by (rewrite len_le16; lia). cbn [bind].
  replace (4294967295 <? wts + 4 + 2 * len tags + S) with false by (symmetry; apply N.ltb_ge; subst wts; lia).
  replace (([0;0;0;0] ++ P') ++ le16 (4 + 2 * len tags + S) ++ le16 (len tags) ++ concat (map le16 (offsets (4 + 2 * len tags) (map tag_of tags))) ++ concat (map enc_tag (map tag_of tags)) ++ drop S F6)
    with ([] ++ [0;0;0;0] ++ (P' ++ le16 (4 + 2 * len tags + S) ++ le16 (len tags) ++ concat (map le16 (offsets (4 + 2 * len tags) (map tag_of tags))) ++ concat (map enc_tag (map tag_of tags)) ++ drop S F6))
    by (cbn [app]; rewrite <- ?app_assoc; reflexivity).
  rewrite (put_at [] [0;0;0;0] (le32 (wts + 4 + 2 * len tags + S)) _ 0 eq_refl) by (rewrite len_le32; reflexivity). cbn [bind app].
  change (len (@nil N)) with 0. rewrite N.sub_0_r.
  (* the buffer is the encoding followed by the rest *)
  assert (Efs : wts + 4 + 2 * len tags + S = filter_size f) by (rewrite Hfs, tags_size_of; subst wts; fold S; lia).
  assert (Eenc : le32 (wts + 4 + 2 * len tags + S) ++ P' ++ le16 (4 + 2 * len tags + S) ++ le16 (len tags) ++
                 concat (map le16 (offsets (4 + 2 * len tags) (map tag_of tags))) ++ concat (map enc_tag (map tag_of tags)) ++ drop S F6
                 = enc_filter f ++ drop (filter_size f) out).
  { assert (Hd : drop S F6 = drop (filter_size f) out).
    { rewrite EF6d, EF5d, EF4d. subst F3. rewrite ER, !drop_drop. f_equal. rewrite <- Efs. lia. }
    rewrite Hd, Efs. unfold enc_filter. fold ids au ks l s u. rewrite Et. unfold enc_tags, tags_hdr. rewrite len_map, tags_size_of. fold S.
    subst P'. rewrite <- !app_assoc. reflexivity. }
  rewrite Eenc.
  assert (Lenc : len (enc_filter f) = filter_size f).
  { unfold enc_filter, filter_size. fold ids au ks l s u. rewrite !len_app, len_le32, !len_le16, len_le32, !len_le64, Lcid, Lcau, len_concat_le16, len_enc_tags. change (len [0;0]) with 2. lia. }
  rewrite Efs.
  replace (len (enc_filter f ++ drop (filter_size f) out) <? filter_size f) with false
    by (symmetry; apply N.ltb_ge; rewrite len_app, Lenc; lia).
  rewrite <- Lenc at 1. rewrite take_app_len. reflexivity.
Qed.
