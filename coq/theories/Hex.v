(* Hex.v — model of HEX_CHARS / HEX_INVERSE / read_hex! / write_hex! (macros.rs) *)
From Pocket Require Export Bytes.

(* HEX_INVERSE, total over all 256 byte values (bytes >= 128 are not hex digits) *)
Definition hex_inv (c : N) : option N :=
  if (48 <=? c) && (c <=? 57) then Some (c - 48)
  else if (65 <=? c) && (c <=? 70) then Some (c - 55)
  else if (97 <=? c) && (c <=? 102) then Some (c - 87)
  else None.

Definition hex_char (v : N) : N := if v <? 10 then 48 + v else 87 + v.

Fixpoint read_hex_pairs (input : bytes) : res bytes :=
  match input with
  | [] => Ok []
  | h :: l :: rest =>
      match hex_inv h with
      | None => Err EHex
      | Some a =>
          match hex_inv l with
          | None => Err EHex
          | Some b => r <- read_hex_pairs rest ;; Ok (a * 16 + b :: r)
          end
      end
  | [_] => Err EHex
  end.

(* read_hex!(input, output, n): output has length n by construction (assert_eq!) *)
Definition read_hex (input : bytes) (n : N) : res bytes :=
  if len input =? 2 * n then read_hex_pairs input else Err EEnd.

Fixpoint write_hex (bs : bytes) : bytes :=
  match bs with
  | [] => []
  | b :: r => hex_char (b / 16) :: hex_char (b mod 16) :: write_hex r
  end.

Definition lower (c : N) : N := if (65 <=? c) && (c <=? 90) then c + 32 else c.
