From Pocket Require Import Hex.

Lemma list_ind2 {A} (P : list A -> Prop) :
  P [] -> (forall x, P [x]) -> (forall x y l, P l -> P (x :: y :: l)) -> forall l, P l.
Proof.
  intros H0 H1 H2. fix IH 1. intros [|x [|y l]]; [exact H0|apply H1|apply H2, IH].
Qed.

Lemma hex_inv_char v : v < 16 -> hex_inv (hex_char v) = Some v.
Proof.
  intros H. unfold hex_inv, hex_char.
  destruct (N.ltb_spec v 10).
  - destruct (N.leb_spec 48 (48 + v)); [|lia]. destruct (N.leb_spec (48 + v) 57); [|lia].
    cbn [andb]. f_equal. lia.
  - destruct (N.leb_spec 48 (87 + v)); [|lia]. destruct (N.leb_spec (87 + v) 57); [lia|]. cbn [andb].
    destruct (N.leb_spec 65 (87 + v)); [|lia]. destruct (N.leb_spec (87 + v) 70); [lia|]. cbn [andb].
    destruct (N.leb_spec 97 (87 + v)); [|lia]. destruct (N.leb_spec (87 + v) 102); [|lia]. cbn [andb].
    f_equal. lia.
Qed.

Lemma len_write_hex bs : len (write_hex bs) = 2 * len bs.
Proof. induction bs as [|b r IH]; cbn [write_hex]; [reflexivity|]. rewrite !len_cons, IH. lia. Qed.

Lemma read_write_pairs bs : wf_bytes bs -> read_hex_pairs (write_hex bs) = Ok bs.
Proof.
  induction 1 as [|b r Hb _ IH]; cbn [write_hex read_hex_pairs]; [reflexivity|].
  unfold wf_byte in Hb.
  rewrite hex_inv_char by (apply N.div_lt_upper_bound; lia).
  rewrite hex_inv_char by (apply N.mod_lt; lia).
  rewrite IH. cbn [bind]. f_equal. f_equal. lia.
Qed.

Theorem read_write_hex bs : wf_bytes bs -> read_hex (write_hex bs) (len bs) = Ok bs.
Proof.
  intros H. unfold read_hex. rewrite len_write_hex, N.eqb_refl. apply read_write_pairs. exact H.
Qed.

(* every decoded byte is < 256 and the result has half the input length *)
Lemma hex_inv_lt c v : hex_inv c = Some v -> v < 16.
Proof.
  unfold hex_inv.
  destruct (N.leb_spec 48 c), (N.leb_spec c 57); cbn [andb]; try (intros [= <-]; lia);
  destruct (N.leb_spec 65 c), (N.leb_spec c 70); cbn [andb]; try (intros [= <-]; lia);
  destruct (N.leb_spec 97 c), (N.leb_spec c 102); cbn [andb]; try (intros [= <-]; lia); discriminate.
Qed.

Lemma read_hex_pairs_ok input out :
  read_hex_pairs input = Ok out -> wf_bytes out /\ len input = 2 * len out.
Proof.
  revert out. induction input as [|h|h l rest IH] using list_ind2; intros out; cbn [read_hex_pairs].
  - intros [= <-]. split; [constructor|reflexivity].
  - discriminate.
  - destruct (hex_inv h) as [a|] eqn:Ha; [|discriminate].
    destruct (hex_inv l) as [b|] eqn:Hb; [|discriminate].
    destruct (read_hex_pairs rest) as [r| | |] eqn:Hr; cbn [bind]; try discriminate.
    intros [= <-]. destruct (IH r eq_refl) as [W L].
    apply hex_inv_lt in Ha. apply hex_inv_lt in Hb. split.
    + constructor; [unfold wf_byte; lia|exact W].
    + rewrite !len_cons, L. lia.
Qed.

(* total: never Panic / OutOfFuel, for arbitrary bytes (incl. >= 0x80) *)
Theorem read_hex_total input n : read_hex input n <> Panic /\ read_hex input n <> OutOfFuel.
Proof.
  unfold read_hex. destruct (len input =? 2 * n); [|split; discriminate].
  induction input as [|h|h l rest IH] using list_ind2; cbn [read_hex_pairs]; try (split; discriminate).
  destruct (hex_inv h); [|split; discriminate]. destruct (hex_inv l); [|split; discriminate].
  destruct IH as [A B].
  destruct (read_hex_pairs rest); cbn [bind]; split; try discriminate; congruence.
Qed.
