(* Hll.v — model of Hll8 (hll8.rs): 256 one-byte registers, add_element, merge (AddAssign),
   hex import/export, and the integer part of estimate_count.  The floating-point part of the
   estimator is not modelled (see DESIGN.md C20); [estimate_int] is what can panic. *)
From Pocket Require Export Hex.

Definition regs := list N.
Definition hll_new : regs := repeat 0 256.
Definition wf_regs (r : regs) : Prop := length r = 256%nat.

(* u8::leading_zeros *)
Definition lz8 (b : N) : N :=
  if b =? 0 then 8 else if b <? 2 then 7 else if b <? 4 then 6 else if b <? 8 then 5
  else if b <? 16 then 4 else if b <? 32 then 3 else if b <? 64 then 2 else if b <? 128 then 1 else 0.

(* zeros counted over input[offset+1 ..= 31], stopping after the first non-zero byte *)
Fixpoint count_zeros (l : bytes) : N :=
  match l with
  | [] => 0
  | b :: r => let z := lz8 b in if z <? 8 then z else z + count_zeros r
  end.

Fixpoint upd (l : regs) (i : nat) (v : N) : regs :=
  match l, i with
  | [], _ => []
  | x :: r, O => N.max x v :: r
  | x :: r, S i' => x :: upd r i' v
  end.

(* (index, rho) of an element *)
Definition elem_ir (input : bytes) (offset : N) : N * N :=
  (nth (N.to_nat offset) input 0, count_zeros (drop (offset + 1) input) + 1).

Definition add_element (r : regs) (input : bytes) (offset : N) : res regs :=
  if 24 <=? offset then Err ERange else
  let '(index, rho) := elem_ir input offset in
  Ok (upd r (N.to_nat index) rho).

Fixpoint merge (a b : regs) : regs :=
  match a, b with
  | x :: a', y :: b' => N.max x y :: merge a' b'
  | _, _ => []
  end.

Definition from_hex (s : bytes) : res regs := read_hex s 256.
Definition to_hex (r : regs) : bytes := write_hex r.

(* estimate_count: number of zero registers (drives the linear-counting branch) *)
Definition zero_count (r : regs) : N := len (filter (fun c => c =? 0) r).
