From Pocket Require Import Hll HexProofs.

Lemma merge_comm a b : merge a b = merge b a.
Proof. revert b; induction a as [|x a IH]; intros [|y b]; cbn [merge]; auto. rewrite IH, N.max_comm. reflexivity. Qed.
Lemma merge_assoc a b c : merge a (merge b c) = merge (merge a b) c.
Proof.
  revert b c; induction a as [|x a IH]; intros [|y b] [|z c]; cbn [merge]; auto.
  rewrite IH, N.max_assoc. reflexivity.
Qed.
Lemma merge_idem a : merge a a = a.
Proof. induction a as [|x a IH]; cbn [merge]; auto. rewrite IH, N.max_id. reflexivity. Qed.
Lemma merge_length a b : length a = length b -> length (merge a b) = length a.
Proof. revert b; induction a as [|x a IH]; intros [|y b]; cbn [merge length]; intros H; try discriminate; auto. Qed.

Lemma upd_length l i v : length (upd l i v) = length l.
Proof. revert i; induction l as [|x l IH]; intros [|i]; cbn [upd length]; auto. Qed.
Lemma upd_idem l i v : upd (upd l i v) i v = upd l i v.
Proof.
  revert i; induction l as [|x l IH]; intros [|i]; cbn [upd]; auto.
  - f_equal. lia.
  - rewrite IH. reflexivity.
Qed.
Lemma upd_comm l i v j w : upd (upd l i v) j w = upd (upd l j w) i v.
Proof.
  revert i j; induction l as [|x l IH]; intros [|i] [|j]; cbn [upd]; auto.
  - f_equal. lia.
  - rewrite IH. reflexivity.
Qed.
Lemma upd_merge a b i v : length a = length b -> upd (merge a b) i v = merge a (upd b i v).
Proof.
  revert b i; induction a as [|x a IH]; intros [|y b] [|i]; cbn [merge upd length]; auto; try discriminate.
  - intros _. f_equal. lia.
  - intros H. injection H as H. rewrite IH; auto.
Qed.
Lemma merge_zero a : merge a (repeat 0 (length a)) = a.
Proof. induction a as [|x a IH]; cbn [length repeat merge]; auto. rewrite IH. f_equal. lia. Qed.

(* adding elements *)
Definition elem := (bytes * N)%type.
Definition ok_elem (e : elem) : Prop := snd e < 24.
Definition add1 (r : regs) (e : elem) : regs :=
  let '(index, rho) := elem_ir (fst e) (snd e) in upd r (N.to_nat index) rho.
Definition sketch_from (r : regs) (es : list elem) : regs := fold_left add1 es r.
Definition sketch (es : list elem) : regs := sketch_from hll_new es.

Lemma add_element_add1 r e : ok_elem e -> add_element r (fst e) (snd e) = Ok (add1 r e).
Proof.
  intros H. unfold add_element, add1, ok_elem in *.
  destruct (N.leb_spec 24 (snd e)); [lia|]. destruct (elem_ir (fst e) (snd e)). reflexivity.
Qed.
Lemma add_element_range r input offset : 24 <= offset <-> add_element r input offset = Err ERange.
Proof.
  unfold add_element. destruct (N.leb_spec 24 offset); split; intros; auto; try lia.
  destruct (elem_ir input offset). discriminate.
Qed.

Lemma add1_length r e : length (add1 r e) = length r.
Proof. unfold add1. destruct (elem_ir (fst e) (snd e)). apply upd_length. Qed.
Lemma add1_idem r e : add1 (add1 r e) e = add1 r e.
Proof. unfold add1. destruct (elem_ir (fst e) (snd e)). apply upd_idem. Qed.
Lemma add1_comm r e1 e2 : add1 (add1 r e1) e2 = add1 (add1 r e2) e1.
Proof. unfold add1. destruct (elem_ir (fst e1) (snd e1)), (elem_ir (fst e2) (snd e2)). apply upd_comm. Qed.
Lemma add1_merge a b e : length a = length b -> add1 (merge a b) e = merge a (add1 b e).
Proof. intros H. unfold add1. destruct (elem_ir (fst e) (snd e)). apply upd_merge. exact H. Qed.

Lemma sketch_from_length r es : length (sketch_from r es) = length r.
Proof. revert r; induction es as [|e es IH]; intros r; cbn [sketch_from fold_left]; auto. unfold sketch_from in IH. rewrite IH. apply add1_length. Qed.

Lemma sketch_from_merge a b es :
  length a = length b -> sketch_from (merge a b) es = merge a (sketch_from b es).
Proof.
  revert b; induction es as [|e es IH]; intros b H; cbn [sketch_from fold_left]; auto.
  rewrite add1_merge by exact H. unfold sketch_from in IH. apply IH. rewrite add1_length. exact H.
Qed.

Theorem sketch_union A B : sketch (A ++ B) = merge (sketch A) (sketch B).
Proof.
  unfold sketch. unfold sketch_from at 1. rewrite fold_left_app.
  change (fold_left add1 B (fold_left add1 A hll_new)) with (sketch_from (sketch_from hll_new A) B).
  set (sa := sketch_from hll_new A).
  assert (L : length sa = 256%nat) by (unfold sa; rewrite sketch_from_length; reflexivity).
  pose proof (merge_zero sa) as E. rewrite L in E. change (repeat 0 256) with hll_new in E.
  transitivity (sketch_from (merge sa hll_new) B); [rewrite E; reflexivity|].
  apply sketch_from_merge. rewrite L. reflexivity.
Qed.

(* order independence: any permutation of the insertions gives the same sketch *)
From Coq Require Import Permutation.
Theorem sketch_perm r es es' : Permutation es es' -> sketch_from r es = sketch_from r es'.
Proof.
  intros P. revert r. induction P as [|e l l' _ IH|e1 e2 l|l l' l'' _ IH1 _ IH2]; intros r; cbn [sketch_from fold_left]; auto.
  - apply IH.
  - rewrite add1_comm. reflexivity.
  - rewrite IH1. apply IH2.
Qed.
(* idempotence: inserting an element that is already in the sketch changes nothing *)
Theorem sketch_dup r e es : sketch_from r (e :: e :: es) = sketch_from r (e :: es).
Proof. cbn [sketch_from fold_left]. rewrite add1_idem. reflexivity. Qed.

(* rho never overflows a u8: at most 8 * 31 + 1 *)
Lemma lz8_le b : lz8 b <= 8.
Proof. unfold lz8. repeat match goal with |- context [if ?c then _ else _] => destruct c end; lia. Qed.
Lemma count_zeros_le l : count_zeros l <= 8 * len l.
Proof.
  induction l as [|b r IH]; cbn [count_zeros]; [unfold len; cbn [length]; lia|].
  rewrite len_cons. pose proof (lz8_le b). destruct (lz8 b <? 8); lia.
Qed.
Theorem rho_fits_u8 input offset : len input = 32 -> snd (elem_ir input offset) <= 249.
Proof.
  intros L. unfold elem_ir. cbn [snd]. pose proof (count_zeros_le (drop (offset + 1) input)) as H.
  rewrite len_drop, L in H. lia.
Qed.

(* hex export followed by import is the identity on every register state *)
Theorem hex_roundtrip r : wf_regs r -> wf_bytes r -> from_hex (to_hex r) = Ok r.
Proof.
  intros L W. unfold from_hex, to_hex. replace 256 with (len r).
  - apply read_write_hex. exact W.
  - unfold len. rewrite L. reflexivity.
Qed.
Theorem from_hex_total s : from_hex s <> Panic /\ from_hex s <> OutOfFuel.
Proof. apply read_hex_total. Qed.
Theorem from_hex_wf s r : from_hex s = Ok r -> wf_regs r /\ wf_bytes r.
Proof.
  unfold from_hex, read_hex. destruct (N.eqb_spec (len s) (2 * 256)) as [E|]; [|discriminate].
  intros H. apply read_hex_pairs_ok in H. destruct H as [W L]. split; auto.
  unfold wf_regs. unfold len in *. lia.
Qed.

Lemma zero_count_new : zero_count hll_new = 256.
Proof. vm_compute. reflexivity. Qed.
