(* JsonParse.v — models of the hand-written JSON parsers: json/json_parse.rs, parse_json_event
   (event.rs) and parse_json_filter (filter.rs), and of the JSON writers Tags::as_json,
   Event::as_json, Filter::as_json.
   Cursor style: every function takes the REMAINING input and returns the remaining input; the
   consumed count is the length difference.  Where the code revisits a position (deferred content,
   the filter's recorded array starts) the model keeps the suffix at that position.
   The caller's output buffer is a byte list of the caller's length with arbitrary contents;
   [put] is the code's bounds-tested write (BufferTooSmall), [put_raw] a raw slice write (panics
   out of range).  No proofs in this file. *)
From Pocket Require Export Bytes Hex Escape Layout.

Definition put (out : bytes) (off : N) (data : bytes) : res bytes :=
  if len out <? off + len data then Err EBuf
  else Ok (take off out ++ data ++ drop (off + len data) out).
Definition put_raw (out : bytes) (off : N) (data : bytes) : res bytes :=
  if len out <? off + len data then Panic
  else Ok (take off out ++ data ++ drop (off + len data) out).

Definition is_ws (c : N) : bool := (c =? 32) || (c =? 9) || (c =? 10) || (c =? 13).
Fixpoint eat_ws (l : bytes) : bytes :=
  match l with c :: r => if is_ws c then eat_ws r else l | [] => [] end.
Fixpoint eat_ws_commas (l : bytes) : bytes :=
  match l with c :: r => if is_ws c || (c =? 44) then eat_ws_commas r else l | [] => [] end.

Definition verify_char (ch : N) (l : bytes) : res bytes :=
  match l with [] => Err EJson | c :: r => if c =? ch then Ok r else Err EJson end.
Definition peek (l : bytes) : res N := match l with [] => Err EJson | c :: _ => Ok c end.
Definition eat_colon_ws (l : bytes) : res bytes := r <- verify_char 58 (eat_ws l) ;; Ok (eat_ws r).

Definition next_object_field (l : bytes) : res (bool * bytes) :=
  match eat_ws l with
  | [] => Err EJson
  | c :: r => if c =? 125 then Ok (true, r) else if c =? 44 then Ok (false, r) else Err EJson
  end.

Fixpoint starts_with (p l : bytes) : bool :=
  match p, l with
  | [], _ => true
  | x :: p', y :: l' => (x =? y) && starts_with p' l'
  | _ :: _, [] => false
  end.

(* read_id / read_pubkey / read_sig: "<2n hex>" with at least one more byte after the hex *)
Definition read_hex_quoted (n : N) (l : bytes) : res (bytes * bytes) :=
  r <- verify_char 34 l ;;
  if len r <=? 2 * n then Err EJson else
  bs <- read_hex (take (2 * n) r) n ;;
  r2 <- verify_char 34 (drop (2 * n) r) ;;
  Ok (bs, r2).

Definition is_digit (c : N) : bool := (48 <=? c) && (c <=? 57).
Fixpoint read_digits (l : bytes) (value : N) (any : bool) (bound : N) : res (N * bool * bytes) :=
  match l with
  | c :: r => if is_digit c then
                let v := value * 10 + (c - 48) in
                if bound <? v then Err EJson else read_digits r v true bound
              else Ok (value, any, l)
  | [] => Ok (value, any, l)
  end.
Definition read_u64 (l : bytes) : res (N * bytes) :=
  '(v, any, r) <- read_digits l 0 false 18446744073709551615 ;;
  if any then Ok (v, r) else Err EJson.
Definition read_kind (l : bytes) : res (N * bytes) :=
  '(v, any, r) <- read_digits l 0 false 65535 ;;
  if any then Ok (v, r) else Err EJson.

(* ---------- skipping unused values ---------- *)
Fixpoint burn_string (l : bytes) : res bytes :=
  match l with
  | [] => Err EJson
  | c :: r =>
      if c =? 34 then Ok r
      else if c =? 92 then match r with [] => Err EJson | _ :: r2 => burn_string r2 end
      else burn_string r
  end.

Definition is_number_char (c : N) : bool :=
  (c =? 46) || (c =? 43) || (c =? 45) || is_digit c || ((97 <=? c) && (c <=? 102)) || ((65 <=? c) && (c <=? 70))
  || (c =? 95) || (c =? 111) || (c =? 79) || (c =? 120) || (c =? 88) || (c =? 110).
Fixpoint burn_number (l : bytes) : bytes :=
  match l with c :: r => if is_number_char c then burn_number r else l | [] => [] end.
Definition burn_lit (lit : bytes) (l : bytes) : res bytes :=
  if starts_with lit l then Ok (drop (len lit) l) else Err EJson.

Definition MAX_BURN_DEPTH : N := 128.

Fixpoint burn_value (fuel : nat) (depth : N) (l : bytes) {struct fuel} : res bytes :=
  match fuel with
  | O => OutOfFuel
  | S f =>
      if MAX_BURN_DEPTH <? depth then Err EJson else
      match l with
      | [] => Err EJson
      | c :: r =>
          if c =? 34 then burn_string r
          else if c =? 91 then burn_array f (depth + 1) r
          else if c =? 123 then burn_object f (depth + 1) r
          else if c =? 116 then burn_lit [116; 114; 117; 101] l
          else if c =? 102 then burn_lit [102; 97; 108; 115; 101] l
          else if c =? 110 then burn_lit [110; 117; 108; 108] l
          else if (c =? 45) || is_digit c then Ok (burn_number l)
          else Err EJson
      end
  end
with burn_array (fuel : nat) (depth : N) (l : bytes) {struct fuel} : res bytes :=
  match fuel with
  | O => OutOfFuel
  | S f =>
      match eat_ws_commas l with
      | [] => Err EJson
      | c :: r => if c =? 93 then Ok r else
                  r2 <- burn_value f depth (c :: r) ;; burn_array f depth r2
      end
  end
with burn_object (fuel : nat) (depth : N) (l : bytes) {struct fuel} : res bytes :=
  match fuel with
  | O => OutOfFuel
  | S f =>
      match eat_ws_commas l with
      | [] => Err EJson
      | c :: r => if c =? 125 then Ok r else
                  r1 <- verify_char 34 (c :: r) ;;
                  r2 <- burn_string r1 ;;
                  r3 <- eat_colon_ws r2 ;;
                  r4 <- burn_value f depth r3 ;;
                  burn_object f depth r4
      end
  end.

Definition burn_fuel (l : bytes) : nat := (2 * length l + 4)%nat.

(* burn_rest_of_key_and_value: after the key's opening quote *)
Definition burn_member (l : bytes) : res bytes :=
  r1 <- burn_string l ;; r2 <- eat_colon_ws r1 ;; burn_value (burn_fuel l) 0 r2.

(* ---------- tags ---------- *)
(* burn_tag: from after the tag's open bracket to after its close bracket *)
Fixpoint burn_tag_strings (fuel : nat) (l : bytes) : res bytes :=
  match fuel with
  | O => OutOfFuel
  | S f =>
      c <- peek l ;;
      if c =? 44 then
        r <- verify_char 34 (eat_ws (tl l)) ;;
        r <- burn_string r ;;
        burn_tag_strings f (eat_ws r)
      else verify_char 93 l
  end.
Definition burn_tag (l : bytes) : res bytes :=
  let l1 := eat_ws l in
  c <- peek l1 ;;
  if c =? 93 then Ok (tl l1) else
  r <- verify_char 34 l1 ;;
  r <- burn_string r ;;
  burn_tag_strings (S (length l)) (eat_ws r).

Fixpoint count_tags_loop (fuel : nat) (l : bytes) (count : N) : res N :=
  match fuel with
  | O => OutOfFuel
  | S f =>
      c <- peek l ;;
      if c =? 93 then Ok count
      else if c =? 44 then
        r <- verify_char 91 (eat_ws (tl l)) ;;
        r <- burn_tag r ;;
        count_tags_loop f (eat_ws r) (count + 1)
      else Err EJson
  end.
Definition count_tags (l : bytes) : res N :=
  c <- peek l ;;
  if c =? 93 then Ok 0
  else if c =? 91 then
    r <- burn_tag (tl l) ;;
    count_tags_loop (S (length l)) (eat_ws r) 1
  else Err EJson.

(* read_tag: (rest, out, outpos) *)
Fixpoint read_tag_strings (fuel : nat) (l : bytes) (out : bytes) (outpos : N) (num : N)
  : res (bytes * bytes * N * N) :=
  match fuel with
  | O => OutOfFuel
  | S f =>
      if len out <? outpos + 2 then Err EBuf else
      '(inlen, s) <- json_unescape l (len out - (outpos + 2)) ;;
      out1 <- put out (outpos + 2) s ;;
      out2 <- put out1 outpos (le16 (len s)) ;;
      let outpos' := outpos + 2 + len s in
      r <- verify_char 34 (drop inlen l) ;;
      let r := eat_ws r in
      c <- peek r ;;
      if c =? 44 then
        r2 <- verify_char 34 (eat_ws (tl r)) ;;
        read_tag_strings f r2 out2 outpos' (num + 1)
      else if c =? 93 then Ok (tl r, out2, outpos', num)
      else Err EJson
  end.
Definition read_tag (l : bytes) (out : bytes) (outpos : N) : res (bytes * bytes * N) :=
  let countpos := outpos in
  let outpos := outpos + 2 in
  c <- peek l ;;
  if c =? 93 then
    out1 <- put out countpos (le16 0) ;; Ok (tl l, out1, outpos)
  else
    r <- verify_char 34 l ;;
    '(r2, out1, outpos', num) <- read_tag_strings (S (length l)) r out outpos 1 ;;
    out2 <- put out1 countpos (le16 num) ;;
    Ok (r2, out2, outpos').

Fixpoint read_tags_loop (fuel : nat) (l : bytes) (out : bytes) (outpos : N) (tag_num num_tags : N)
  : res (bytes * bytes * N) :=
  match fuel with
  | O => OutOfFuel
  | S f =>
      out1 <- put out (4 + tag_num * 2) (le16 outpos) ;;
      '(r, out2, outpos') <- read_tag l out1 outpos ;;
      let r := eat_ws r in
      c <- peek r ;;
      if c =? 93 then
        if negb (tag_num =? num_tags - 1) then Err EJson else Ok (tl r, out2, outpos')
      else if c =? 44 then
        r2 <- verify_char 91 (eat_ws (tl r)) ;;
        if num_tags <=? tag_num + 1 then Err EJson else
        read_tags_loop f (eat_ws r2) out2 outpos' (tag_num + 1) num_tags
      else Err EJson
  end.

(* read_tags_array: from the outer bracket; (rest, out, size of the tags section) *)
Definition read_tags_array (l : bytes) (out : bytes) : res (bytes * bytes * N) :=
  r <- verify_char 91 l ;;
  let r := eat_ws r in
  if len out <? 4 then Err EBuf else
  num_tags <- count_tags r ;;
  out1 <- put out 2 (le16 num_tags) ;;
  if num_tags =? 0 then
    out2 <- put out1 0 (le16 4) ;;
    r2 <- burn_array (burn_fuel r) 0 r ;;
    Ok (r2, out2, 4)
  else
    r2 <- verify_char 91 r ;;
    let r2 := eat_ws r2 in
    let outpos := 4 + num_tags * 2 in
    if len out <? outpos then Err EBuf else
    '(r3, out2, outpos') <- read_tags_loop (S (length l)) r2 out1 outpos 0 num_tags ;;
    if 65535 <? outpos' then Err EJson else
    out3 <- put out2 0 (le16 outpos') ;;
    Ok (r3, out3, outpos').

(* Tags::from_json *)
Definition tags_from_json (l : bytes) (out : bytes) : res (N * bytes) :=
  '(r, out', size) <- read_tags_array l out ;;
  Ok (len l - len r, take size out').

(* read_content: l at the opening quote *)
Definition read_content (l : bytes) (out : bytes) (after_tags : N) : res (bytes * bytes) :=
  r <- verify_char 34 l ;;
  if len out <? after_tags + 4 then Err EBuf else
  '(inlen, s) <- json_unescape r (len out - (after_tags + 4)) ;;
  out1 <- put out (after_tags + 4) s ;;
  r2 <- verify_char 34 (drop inlen r) ;;
  out2 <- put out1 after_tags (le32 (len s)) ;;
  out3 <- put out2 0 (le32 (after_tags + 4 + len s)) ;;
  Ok (r2, out3).

(* ---------- parse_json_event ---------- *)
Record evst := mkEv {
  ev_out : bytes; ev_complete : N (* bit set *); ev_tags_size : N; ev_content_start : option bytes }.

Definition HAVE_ID := 1. Definition HAVE_PUBKEY := 2. Definition HAVE_SIG := 4. Definition HAVE_CREATED_AT := 8.
Definition HAVE_KIND := 16. Definition HAVE_CONTENT := 32. Definition HAVE_TAGS := 64.
Definition has_bit (c b : N) : bool := N.testbit c (N.log2 b).
Definition set_bit (c b : N) : N := if has_bit c b then c else c + b.

Definition k_id : bytes := [105; 100; 34].
Definition k_sig : bytes := [115; 105; 103; 34].
Definition k_kind : bytes := [107; 105; 110; 100; 34].
Definition k_tags : bytes := [116; 97; 103; 115; 34].
Definition k_pubkey : bytes := [112; 117; 98; 107; 101; 121; 34].
Definition k_content : bytes := [99; 111; 110; 116; 101; 110; 116; 34].
Definition k_created_at : bytes := [99; 114; 101; 97; 116; 101; 100; 95; 97; 116; 34].

(* one member, [l] is just after the key's opening quote *)
Definition event_member (st : evst) (l : bytes) : res (evst * bytes) :=
  let out := ev_out st in
  let c := ev_complete st in
  if starts_with k_id l then
    if has_bit c HAVE_ID then Err EJson else
    r <- eat_colon_ws (drop 3 l) ;;
    '(bs, r2) <- read_hex_quoted 32 r ;;
    out1 <- put_raw out 16 bs ;;
    Ok (mkEv out1 (set_bit c HAVE_ID) (ev_tags_size st) (ev_content_start st), r2)
  else if starts_with k_sig l then
    if has_bit c HAVE_SIG then Err EJson else
    r <- eat_colon_ws (drop 4 l) ;;
    (if len out <? 144 then Err EBuf else
     '(bs, r2) <- read_hex_quoted 64 r ;;
     out1 <- put_raw out 80 bs ;;
     Ok (mkEv out1 (set_bit c HAVE_SIG) (ev_tags_size st) (ev_content_start st), r2))
  else if starts_with k_kind l then
    if has_bit c HAVE_KIND then Err EJson else
    r <- eat_colon_ws (drop 5 l) ;;
    '(k, r2) <- read_kind r ;;
    out1 <- put_raw out 4 (le16 k) ;;
    Ok (mkEv out1 (set_bit c HAVE_KIND) (ev_tags_size st) (ev_content_start st), r2)
  else if starts_with k_tags l then
    if has_bit c HAVE_TAGS then Err EJson else
    r <- eat_colon_ws (drop 5 l) ;;
    (if len out <? 144 then Panic else
     '(r2, tout, tsize) <- read_tags_array r (drop 144 out) ;;
     let out1 := take 144 out ++ tout in
     let c1 := set_bit c HAVE_TAGS in
     match ev_content_start st with
     | Some cs =>
         '(_, out2) <- read_content cs out1 (144 + tsize) ;;
         Ok (mkEv out2 (set_bit c1 HAVE_CONTENT) tsize (ev_content_start st), r2)
     | None => Ok (mkEv out1 c1 tsize (ev_content_start st), r2)
     end)
  else if starts_with k_pubkey l then
    if has_bit c HAVE_PUBKEY then Err EJson else
    r <- eat_colon_ws (drop 7 l) ;;
    '(bs, r2) <- read_hex_quoted 32 r ;;
    out1 <- put_raw out 48 bs ;;
    Ok (mkEv out1 (set_bit c HAVE_PUBKEY) (ev_tags_size st) (ev_content_start st), r2)
  else if starts_with k_content l then
    if has_bit c HAVE_CONTENT then Err EJson else
    r <- eat_colon_ws (drop 8 l) ;;
    if ev_tags_size st =? 0 then
      r1 <- verify_char 34 r ;;
      r2 <- burn_string r1 ;;
      Ok (mkEv out c (ev_tags_size st) (Some r), r2)
    else
      '(r2, out1) <- read_content r out (144 + ev_tags_size st) ;;
      Ok (mkEv out1 (set_bit c HAVE_CONTENT) (ev_tags_size st) (ev_content_start st), r2)
  else if starts_with k_created_at l then
    if has_bit c HAVE_CREATED_AT then Err EJson else
    r <- eat_colon_ws (drop 11 l) ;;
    '(u, r2) <- read_u64 r ;;
    out1 <- put_raw out 8 (le64 u) ;;
    Ok (mkEv out1 (set_bit c HAVE_CREATED_AT) (ev_tags_size st) (ev_content_start st), r2)
  else
    r2 <- burn_member l ;; Ok (st, r2).

Fixpoint event_members (fuel : nat) (st : evst) (l : bytes) : res (evst * bytes) :=
  match fuel with
  | O => OutOfFuel
  | S f =>
      r <- verify_char 34 (eat_ws l) ;;
      '(st1, r1) <- event_member st r ;;
      '(fin, r2) <- next_object_field r1 ;;
      if fin then Ok (st1, r2) else event_members f st1 r2
  end.

(* parse_json_event(input, output) -> (consumed, event length, output buffer) *)
Definition parse_json_event (input : bytes) (out : bytes) : res (N * N * bytes) :=
  if len input <? 204 then Err EJson else
  if len out <? 152 then Err EBuf else
  out0 <- put_raw out 6 [0; 0] ;;
  r <- verify_char 123 (eat_ws input) ;;
  '(st, r2) <- event_members (S (length input)) (mkEv out0 0 0 None) r ;;
  if ev_complete st =? 127 then
    match rd32 (ev_out st) with
    | Some elen => Ok (len input - len r2, elen, ev_out st)
    | None => Panic
    end
  else Err EJson.

(* Event::from_json: the event is output[..outcount] (slicing panics if outcount > len) *)
Definition event_from_json (input : bytes) (out : bytes) : res (N * bytes * bytes) :=
  '(consumed, elen, out') <- parse_json_event input out ;;
  if len out' <? elen then Panic else Ok (consumed, take elen out', out').

(* ---------- parse_json_filter ---------- *)
Record flst := mkFl {
  fl_out : bytes; fl_found : N;
  fl_letters : list N;                 (* tag letters seen (found_tags) *)
  fl_start_ids : option bytes; fl_start_authors : option bytes; fl_start_kinds : option bytes;
  fl_start_tags : list bytes }.        (* suffix at each tag letter, in textual order *)

Definition FL_IDS := 1. Definition FL_AUTHORS := 2. Definition FL_KINDS := 4.
Definition FL_LIMIT := 8. Definition FL_SINCE := 16. Definition FL_UNTIL := 32.

Definition k_ids : bytes := [105; 100; 115; 34].
Definition k_authors : bytes := [97; 117; 116; 104; 111; 114; 115; 34].
Definition k_kinds : bytes := [107; 105; 110; 100; 115; 34].
Definition k_since : bytes := [115; 105; 110; 99; 101; 34].
Definition k_until : bytes := [117; 110; 116; 105; 108; 34].
Definition k_limit : bytes := [108; 105; 109; 105; 116; 34].

Fixpoint skip_to_bracket (l : bytes) : bytes :=
  match l with c :: r => if c =? 93 then l else skip_to_bracket r | [] => [] end.
Definition is_letter (c : N) : bool := ((65 <=? c) && (c <=? 90)) || ((97 <=? c) && (c <=? 122)).

Definition with_out (st : flst) (o : bytes) (f : N) : flst :=
  mkFl o f (fl_letters st) (fl_start_ids st) (fl_start_authors st) (fl_start_kinds st) (fl_start_tags st).

(* one member, [l] just after the key's opening quote *)
Definition filter_member (st : flst) (l : bytes) : res (flst * bytes) :=
  let c := fl_found st in
  if starts_with k_ids l then
    if has_bit c FL_IDS then Err EJson else
    r <- eat_colon_ws (drop 4 l) ;; r <- verify_char 91 r ;;
    r2 <- verify_char 93 (skip_to_bracket r) ;;
    Ok (mkFl (fl_out st) (set_bit c FL_IDS) (fl_letters st) (Some r) (fl_start_authors st) (fl_start_kinds st) (fl_start_tags st), r2)
  else if starts_with k_authors l then
    if has_bit c FL_AUTHORS then Err EJson else
    r <- eat_colon_ws (drop 8 l) ;; r <- verify_char 91 r ;;
    r2 <- verify_char 93 (skip_to_bracket r) ;;
    Ok (mkFl (fl_out st) (set_bit c FL_AUTHORS) (fl_letters st) (fl_start_ids st) (Some r) (fl_start_kinds st) (fl_start_tags st), r2)
  else if starts_with k_kinds l then
    if has_bit c FL_KINDS then Err EJson else
    r <- eat_colon_ws (drop 6 l) ;; r <- verify_char 91 r ;;
    r2 <- verify_char 93 (skip_to_bracket r) ;;
    Ok (mkFl (fl_out st) (set_bit c FL_KINDS) (fl_letters st) (fl_start_ids st) (fl_start_authors st) (Some r) (fl_start_tags st), r2)
  else if starts_with k_since l then
    if has_bit c FL_SINCE then Err EJson else
    r <- eat_colon_ws (drop 6 l) ;;
    '(u, r2) <- read_u64 r ;;
    o <- put (fl_out st) 16 (le64 u) ;;
    Ok (with_out st o (set_bit c FL_SINCE), r2)
  else if starts_with k_until l then
    if has_bit c FL_UNTIL then Err EJson else
    r <- eat_colon_ws (drop 6 l) ;;
    '(u, r2) <- read_u64 r ;;
    o <- put (fl_out st) 24 (le64 u) ;;
    Ok (with_out st o (set_bit c FL_UNTIL), r2)
  else if starts_with k_limit l then
    if has_bit c FL_LIMIT then Err EJson else
    r <- eat_colon_ws (drop 6 l) ;;
    '(u, r2) <- read_u64 r ;;
    o <- put (fl_out st) 12 (le32 (N.min u 4294967295)) ;;
    Ok (with_out st o (set_bit c FL_LIMIT), r2)
  else
    match l with
    | h :: letter :: q :: r =>
        if (h =? 35) && is_letter letter && (q =? 34) then
          if existsb (fun x => x =? letter) (fl_letters st) then Err EJson else
          r1 <- eat_colon_ws r ;; r1 <- verify_char 91 r1 ;;
          r2 <- burn_array (burn_fuel l) 0 r1 ;;
          Ok (mkFl (fl_out st) c (letter :: fl_letters st) (fl_start_ids st) (fl_start_authors st) (fl_start_kinds st)
                   (fl_start_tags st ++ [letter :: q :: r]), r2)
        else r2 <- burn_member l ;; Ok (st, r2)
    | _ => r2 <- burn_member l ;; Ok (st, r2)
    end.

Fixpoint filter_members (fuel : nat) (st : flst) (l : bytes) : res (flst * bytes) :=
  match fuel with
  | O => OutOfFuel
  | S f =>
      let l1 := eat_ws_commas l in
      c <- peek l1 ;;
      if c =? 125 then Ok (st, tl l1) else
      r <- verify_char 34 l1 ;;
      '(st1, r1) <- filter_member st r ;;
      filter_members f st1 r1
  end.

(* second pass over a hex array: (out, end, count) *)
Fixpoint copy_hex32 (fuel : nat) (l : bytes) (out : bytes) (endp num : N) : res (bytes * N * N) :=
  match fuel with
  | O => OutOfFuel
  | S f =>
      let l1 := eat_ws_commas l in
      c <- peek l1 ;;
      if c =? 93 then Ok (out, endp, num) else
      if len out - endp <? 32 then Err EBuf else
      '(bs, r) <- read_hex_quoted 32 l1 ;;
      out1 <- put out endp bs ;;
      if 65535 <=? num then Err EJson else
      copy_hex32 f r out1 (endp + 32) (num + 1)
  end.
Fixpoint copy_kinds (fuel : nat) (l : bytes) (out : bytes) (endp num : N) : res (bytes * N * N) :=
  match fuel with
  | O => OutOfFuel
  | S f =>
      let l1 := eat_ws_commas l in
      c <- peek l1 ;;
      if c =? 93 then Ok (out, endp, num) else
      '(u, r) <- read_u64 l1 ;;
      if 65535 <? u then Err EJson else
      out1 <- put out endp (le16 u) ;;
      if 65535 <=? num then Err EJson else
      copy_kinds f r out1 (endp + 2) (num + 1)
  end.

(* the values of one tag field: (out, end, count) *)
Fixpoint copy_tag_values (fuel : nat) (l : bytes) (out : bytes) (endp count : N) : res (bytes * N * N) :=
  match fuel with
  | O => OutOfFuel
  | S f =>
      let l1 := eat_ws_commas l in
      c <- peek l1 ;;
      if c =? 93 then Ok (out, endp, count) else
      r <- verify_char 34 l1 ;;
      if len out <? endp + 2 then Err EBuf else
      '(inlen, s) <- json_unescape r (len out - (endp + 2)) ;;
      out1 <- put out (endp + 2) s ;;
      out2 <- put out1 endp (le16 (len s)) ;;
      r2 <- verify_char 34 (drop inlen r) ;;
      copy_tag_values f r2 out2 (endp + 2 + len s) (count + 1)
  end.

Fixpoint copy_tag_fields (starts : list bytes) (w : N) (out : bytes) (wts endp : N) : res (bytes * N) :=
  match starts with
  | [] => Ok (out, endp)
  | s :: rest =>
      out1 <- put out (wts + 4 + 2 * w) (le16 (endp - wts)) ;;
      letter <- peek s ;;
      let countindex := endp in
      let endp := endp + 2 in
      out2 <- put out1 endp (le16 1) ;;
      if len out2 <? endp + 3 then Err EBuf else
      out3 <- put_raw out2 (endp + 2) [letter] ;;
      let endp := endp + 3 in
      r <- verify_char 34 (tl s) ;;
      r <- eat_colon_ws r ;;
      r <- verify_char 91 r ;;
      '(out4, endp', count) <- copy_tag_values (S (length s)) r out3 endp 1 ;;
      out5 <- put out4 countindex (le16 count) ;;
      copy_tag_fields rest (w + 1) out5 wts endp'
  end.

Definition filter_header : bytes :=
  [0;0;0;0; 0;0; 0;0; 0;0; 0;0; 255;255;255;255; 0;0;0;0;0;0;0;0; 255;255;255;255;255;255;255;255].

(* parse_json_filter(input, output) -> (consumed, filter length, output buffer) *)
Definition parse_json_filter (input : bytes) (out : bytes) : res (N * N * bytes) :=
  if len input <? 2 then Err EJson else
  out0 <- put out 0 filter_header ;;
  r <- verify_char 123 (eat_ws input) ;;
  '(st, rfin) <- filter_members (S (length input)) (mkFl out0 0 [] None None None []) r ;;
  let fuel := S (length input) in
  '(o1, e1, _) <- (match fl_start_ids st with
                   | Some s => '(o, e, n) <- copy_hex32 fuel s (fl_out st) 32 0 ;; o' <- put o 4 (le16 n) ;; Ok (o', e, n)
                   | None => Ok (fl_out st, 32, 0) end) ;;
  '(o2, e2, _) <- (match fl_start_authors st with
                   | Some s => '(o, e, n) <- copy_hex32 fuel s o1 e1 0 ;; o' <- put o 6 (le16 n) ;; Ok (o', e, n)
                   | None => Ok (o1, e1, 0) end) ;;
  '(o3, e3, _) <- (match fl_start_kinds st with
                   | Some s => '(o, e, n) <- copy_kinds fuel s o2 e2 0 ;; o' <- put o 8 (le16 n) ;; Ok (o', e, n)
                   | None => Ok (o2, e2, 0) end) ;;
  let wts := e3 in
  let ntf := len (fl_start_tags st) in
  o4 <- put o3 (wts + 2) (le16 ntf) ;;
  '(o5, e5) <- copy_tag_fields (fl_start_tags st) 0 o4 wts (e3 + 4 + 2 * ntf) ;;
  if 65535 <? e5 - wts then Err EJson else
  o6 <- put o5 wts (le16 (e5 - wts)) ;;
  if 4294967295 <? e5 then Err EJson else
  o7 <- put o6 0 (le32 e5) ;;
  Ok (len input - len rfin, e5, o7).

Definition filter_from_json (input : bytes) (out : bytes) : res (N * bytes * bytes) :=
  '(consumed, flen, out') <- parse_json_filter input out ;;
  if len out' <? flen then Panic else Ok (consumed, take flen out', out').

(* ---------- writers ---------- *)
Fixpoint dec_digits (fuel : nat) (n : N) (acc : bytes) : bytes :=
  match fuel with
  | O => acc
  | S f => let acc' := (48 + n mod 10) :: acc in if n <? 10 then acc' else dec_digits f (n / 10) acc'
  end.
(* format!("{}", n) for an unsigned integer *)
Definition dec (n : N) : bytes := dec_digits 25 n [].

Fixpoint join (sep : bytes) (l : list bytes) : bytes :=
  match l with [] => [] | [x] => x | x :: r => x ++ sep ++ join sep r end.
Fixpoint map_res {A B} (f : A -> res B) (l : list A) : res (list B) :=
  match l with [] => Ok [] | x :: r => y <- f x ;; ys <- map_res f r ;; Ok (y :: ys) end.

Definition json_string (s : bytes) : res bytes := e <- json_escape s ;; Ok ([34] ++ e ++ [34]).
(* Tags::as_json over the strings of the tags (the binary iteration is Access.tags_iter_all);
   a string that json_escape refuses makes the code's unwrap() panic *)
Definition tags_as_json (ts : atags) : res bytes :=
  match map_res (fun t => match map_res json_string t with
                          | Ok ss => Ok ([91] ++ join [44] ss ++ [93])
                          | _ => Panic end) ts with
  | Ok tgs => Ok ([91] ++ join [44] tgs ++ [93])
  | _ => Panic
  end.

Definition s_id_open : bytes := [123;34;105;100;34;58;34].
Definition s_pubkey : bytes := [34;44;34;112;117;98;107;101;121;34;58;34].
Definition s_kind : bytes := [34;44;34;107;105;110;100;34;58].
Definition s_created : bytes := [44;34;99;114;101;97;116;101;100;95;97;116;34;58].
Definition s_tags : bytes := [44;34;116;97;103;115;34;58].
Definition s_content : bytes := [44;34;99;111;110;116;101;110;116;34;58;34].
Definition s_sig : bytes := [34;44;34;115;105;103;34;58;34].
Definition s_close : bytes := [34;125].

(* Event::as_json over the fields the accessors return *)
Definition event_as_json (e : aevent) : res bytes :=
  tj <- tags_as_json (e_tags e) ;;
  cj <- json_escape (e_content e) ;;
  Ok (s_id_open ++ write_hex (e_id e) ++ s_pubkey ++ write_hex (e_pk e) ++ s_kind ++ dec (e_kind e)
      ++ s_created ++ dec (e_created e) ++ s_tags ++ tj ++ s_content ++ cj ++ s_sig ++ write_hex (e_sig e) ++ s_close).

(* Filter::as_json *)
Definition filter_tag_json (t : list bytes) : res bytes :=
  match t with
  | [] => Ok [93]             (* a tag with no strings writes only the closing bracket *)
  | name :: vals =>
      vs <- map_res json_string vals ;;
      Ok ([34; 35] ++ name ++ [34; 58; 91] ++ join [44] vs ++ [93])
  end.
Definition filter_as_json (f : afilter) : res bytes :=
  let hexlist (l : list bytes) := join [44] (map (fun x => [34] ++ write_hex x ++ [34]) l) in
  let p_ids := match f_ids f with [] => [] | l => [[34;105;100;115;34;58;91] ++ hexlist l ++ [93]] end in
  let p_authors := match f_authors f with [] => [] | l => [[34;97;117;116;104;111;114;115;34;58;91] ++ hexlist l ++ [93]] end in
  let p_kinds := match f_kinds f with [] => [] | l => [[34;107;105;110;100;115;34;58;91] ++ join [44] (map dec l) ++ [93]] end in
  tgs <- map_res filter_tag_json (f_tags f) ;;
  let p_limit := if f_limit f =? 4294967295 then [] else [[34;108;105;109;105;116;34;58] ++ dec (f_limit f)] in
  let p_since := if f_since f =? 0 then [] else [[34;115;105;110;99;101;34;58] ++ dec (f_since f)] in
  let p_until := if f_until f =? 18446744073709551615 then [] else [[34;117;110;116;105;108;34;58] ++ dec (f_until f)] in
  Ok ([123] ++ join [44] (p_ids ++ p_authors ++ p_kinds ++ tgs ++ p_limit ++ p_since ++ p_until) ++ [125]).
