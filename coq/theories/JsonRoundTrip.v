(* JsonRoundTrip.v — parsing what the library serialises gives back the same binary value (C02, C01):
   for every well-formed event e (valid UTF-8 strings, fields within their widths),
   Event::from_json (Event::as_json e) writes exactly enc_event e into the caller's buffer, whatever the
   buffer held before, and consumes the whole text.  Built bottom-up: writes into the buffer (put),
   skipping an escaped string, hex fields, numbers, tag strings, tags, the tag array, the content, the members. *)
From Pocket Require Import JsonParse EscapeProofs EscapeRoundTrip HexProofs NumProofs CanonInj.

(* ---------- writes into the caller's buffer ---------- *)
Lemma put_seg a old new r : len old = len new -> put (a ++ old ++ r) (len a) new = Ok (a ++ new ++ r).
Proof.
  intros Hl. unfold put. rewrite !len_app.
  destruct (N.ltb_spec (len a + (len old + len r)) (len a + len new)); [lia|].
  rewrite take_app_len. f_equal. f_equal. f_equal.
  replace (len a + len new) with (len a + len old) by lia.
  rewrite drop_add_app. rewrite <- (N.add_0_r (len old)). rewrite drop_add_app. reflexivity.
Qed.
Lemma put_raw_seg a old new r : len old = len new -> put_raw (a ++ old ++ r) (len a) new = Ok (a ++ new ++ r).
Proof.
  intros Hl. pose proof (put_seg a old new r Hl) as H. unfold put, put_raw in *.
  destruct (len (a ++ old ++ r) <? len a + len new); [discriminate|exact H].
Qed.

(* a free area of at least n bytes splits into its first n bytes and the rest *)
Lemma split_free (F : bytes) n : n <= len F -> F = take n F ++ drop n F /\ len (take n F) = n.
Proof. intros H. split; [symmetry; apply take_drop_id|]. rewrite len_take. lia. Qed.

(* ---------- skipping an escaped string ---------- *)
Lemma burn_string_esc cps : forall rest, Forall scalar cps -> burn_string (flat_map esc1 cps ++ 34 :: rest) = Ok rest.
Proof.
  induction cps as [|c cps IH]; intros rest Hs; cbn [flat_map app].
  - cbn [burn_string]. reflexivity.
  - inversion Hs as [|? ? [Hns Hmax] Hs']; subst. rewrite <- app_assoc. specialize (IH rest Hs').
    unfold esc1. destruct (is_safe_char c) eqn:Es.
    + (* raw bytes: none of them is a quote or a backslash *)
      assert (Raw : forall bs tl, Forall (fun b => b <> 34 /\ b <> 92) bs -> burn_string (bs ++ tl) = burn_string tl).
      { induction bs as [|b bs IHb]; intros tl Hb; [reflexivity|]. inversion Hb as [|? ? [H1 H2] Hb']; subst. cbn [app burn_string].
        replace (b =? 34) with false by lia. replace (b =? 92) with false by lia. apply IHb. exact Hb'. }
      rewrite Raw; [exact IH|]. unfold is_safe_char in Es. unfold enc.
      repeat match goal with |- context [if ?b then _ else _] => destruct b eqn:? end; repeat constructor; lia.
    + assert (Pair : forall x tl, burn_string ([92; x] ++ tl) = burn_string tl).
      { intros x tl. cbn [app burn_string]. reflexivity. }
      repeat match goal with |- context [if ?a =? ?b then _ else _] => destruct (a =? b) eqn:?; [rewrite Pair; exact IH|] end.
      (* \u00XX *)
      unfold hex4. cbn [app burn_string]. change (92 =? 34) with false. change (92 =? 92) with true. cbv iota.
      assert (Hd : forall d, d < 16 -> (hex_char d =? 34) = false /\ (hex_char d =? 92) = false).
      { intros d Hdl. unfold hex_char. destruct (d <? 10) eqn:E; split; lia. }
      destruct (Hd ((c / 4096) mod 16) ltac:(lia)) as [A1 A2]. destruct (Hd ((c / 256) mod 16) ltac:(lia)) as [B1 B2].
      destruct (Hd ((c / 16) mod 16) ltac:(lia)) as [C1 C2]. destruct (Hd (c mod 16) ltac:(lia)) as [D1 D2].
      rewrite A1, A2, B1, B2, C1, C2, D1, D2. exact IH.
Qed.

Lemma burn_string_escaped s e rest : valid_utf8 s -> json_escape s = Ok e -> burn_string (e ++ 34 :: rest) = Ok rest.
Proof.
  intros [cps [Hs ->]] He. rewrite (json_escape_valid cps Hs) in He. injection He as <-. apply burn_string_esc. exact Hs.
Qed.

(* ---------- hex fields ---------- *)
Lemma read_hex_quoted_spec n bs c rest : wf_bytes bs -> len bs = n ->
  read_hex_quoted n (34 :: write_hex bs ++ 34 :: c :: rest) = Ok (bs, c :: rest).
Proof.
  intros W L. subst n. unfold read_hex_quoted. cbn [verify_char]. change (34 =? 34) with true. cbv iota. cbn [bind].
  pose proof (len_write_hex bs) as Hl.
  destruct (N.leb_spec (len (write_hex bs ++ 34 :: c :: rest)) (2 * len bs)) as [H|H].
  { rewrite len_app, !len_cons in H. lia. }
  rewrite <- Hl, take_app_len, drop_app_len, read_write_hex by exact W. cbn [bind verify_char].
  change (34 =? 34) with true. reflexivity.
Qed.

(* ---------- numbers ---------- *)
Lemma span_digits_app ds c r : Forall (fun x => is_digit x = true) ds -> is_digit c = false ->
  span_digits (ds ++ c :: r) = (ds, c :: r).
Proof.
  intros Hd Hc. induction Hd as [|d ds Hdd _ IH]; cbn [app span_digits]; [rewrite Hc; reflexivity|].
  rewrite Hdd, IH. reflexivity.
Qed.
Lemma dec_nonempty n : n < 10 ^ 25 -> dec n <> [].
Proof.
  intros H. unfold dec. assert (G : forall f m acc, dec_digits (S f) m acc <> []).
  { intros f m acc. cbn [dec_digits]. destruct (m <? 10); [discriminate|].
    clear. revert m acc. induction f as [|f IH]; intros m acc; cbn [dec_digits]; [discriminate|].
    destruct (m / 10 <? 10); [discriminate|apply IH]. }
  apply G.
Qed.
Lemma read_u64_dec n c r : n < 18446744073709551616 -> is_digit c = false -> read_u64 (dec n ++ c :: r) = Ok (n, c :: r).
Proof.
  intros Hn Hc. assert (P : n < 10 ^ 25) by (assert (18446744073709551616 < 10 ^ 25) by (vm_compute; reflexivity); lia).
  destruct (dec_spec n P) as [Hd Hv]. rewrite read_u64_spec, span_digits_app by assumption.
  pose proof (dec_nonempty n P) as Hne. destruct (dec n) as [|d ds] eqn:E; [congruence|]. rewrite Hv.
  destruct (N.leb_spec n 18446744073709551615); [reflexivity|lia].
Qed.
Lemma read_kind_dec n c r : n < 65536 -> is_digit c = false -> read_kind (dec n ++ c :: r) = Ok (n, c :: r).
Proof.
  intros Hn Hc. assert (P : n < 10 ^ 25) by (assert (65536 < 10 ^ 25) by (vm_compute; reflexivity); lia).
  destruct (dec_spec n P) as [Hd Hv]. rewrite read_kind_spec, span_digits_app by assumption.
  pose proof (dec_nonempty n P) as Hne. destruct (dec n) as [|d ds] eqn:E; [congruence|]. rewrite Hv.
  destruct (N.leb_spec n 65535); [reflexivity|lia].
Qed.

(* ---------- the strings of one tag ---------- *)
(* what follows the opening quote of the first string of a tag whose (escaped) strings are [es] *)
Fixpoint strs_text (es : list bytes) (tail : bytes) : bytes :=
  match es with
  | [] => tail
  | e :: r => match r with
              | [] => e ++ 34 :: 93 :: tail
              | _ => e ++ 34 :: 44 :: 34 :: strs_text r tail
              end
  end.

(* [e] is what json_escape writes for [s] *)
Definition escd0 (s e : bytes) : Prop := valid_utf8 s /\ json_escape s = Ok e.
(* [e] is A spelling of [s]: whatever follows its closing quote, json_unescape reads it back as [s] and consumes exactly
   [e], and the string skipper skips exactly [e] and the quote.  json_escape's output is one such spelling; so is every
   other choice of escapes (Spelling.v). *)
Definition escd (s e : bytes) : Prop :=
  (forall rest cap, len s <= cap -> json_unescape (e ++ 34 :: rest) cap = Ok (len e, s)) /\
  (forall rest, burn_string (e ++ 34 :: rest) = Ok rest).
Lemma escd0_escd s e : escd0 s e -> escd s e.
Proof.
  intros [Vs Es]. split.
  - intros rest cap Hc. exact (escape_unescape_roundtrip s e rest cap Vs Es Hc).
  - intros rest. exact (burn_string_escaped s e rest Vs Es).
Qed.

Lemma eat_ws_nonws c r : is_ws c = false -> eat_ws (c :: r) = c :: r.
Proof. intros H. cbn [eat_ws]. rewrite H. reflexivity. Qed.

Lemma read_tag_strings_spec ss : forall es fuel pre F tail num,
  Forall2 escd ss es -> ss <> [] -> (length ss < fuel)%nat ->
  sumN (map str_size ss) <= len F ->
  read_tag_strings fuel (strs_text es tail) (pre ++ F) (len pre) num
  = Ok (tail, pre ++ concat (map enc_str ss) ++ drop (sumN (map str_size ss)) F,
        len pre + sumN (map str_size ss), num + len ss - 1).
Proof.
  induction ss as [|s rest IH]; intros es fuel pre F tail num H2 Hne Hf Hcap; [congruence|].
  inversion H2 as [|? e ? er [Hun Hbu] H2r]; subst. destruct fuel as [|fuel]; [cbn [length] in Hf; lia|].
  cbn [map sumN] in Hcap. unfold str_size in Hcap at 1.
  (* split the free area: 2 bytes for the length, len s bytes for the data *)
  destruct (split_free F 2 ltac:(lia)) as [EF L2]. remember (take 2 F) as f2 eqn:Ef2. remember (drop 2 F) as F1 eqn:EF1d.
  assert (HF1 : len F1 = len F - 2) by (rewrite EF1d; apply len_drop).
  destruct (split_free F1 (len s) ltac:(lia)) as [EF1 Ls]. remember (take (len s) F1) as fs eqn:Efs. remember (drop (len s) F1) as F' eqn:EF'd.
  assert (HF' : F' = drop (2 + len s) F) by (rewrite EF'd, EF1d, drop_drop; reflexivity).
  clear Ef2 Efs EF'd EF1d.
  (* the text *)
  set (cont := match rest with [] => 93 :: tail | _ => 44 :: 34 :: strs_text er tail end).
  assert (Htext : strs_text (e :: er) tail = e ++ 34 :: cont).
  { cbn [strs_text]. subst cont. inversion H2r; subst; reflexivity. }
  rewrite Htext. cbn [read_tag_strings].
  assert (Hlo : len (pre ++ F) = len pre + len F) by apply len_app.
  replace (len (pre ++ F) <? len pre + 2) with false by (symmetry; apply N.ltb_ge; lia).
  rewrite (Hun cont _) by lia. cbn [bind].
  (* data, then length *)
  assert (Hput1 : put (pre ++ F) (len pre + 2) s = Ok (pre ++ f2 ++ s ++ F')).
  { rewrite EF, EF1. replace (pre ++ f2 ++ fs ++ F') with ((pre ++ f2) ++ fs ++ F') by (rewrite <- app_assoc; reflexivity).
    replace (len pre + 2) with (len (pre ++ f2)) by (rewrite len_app; lia).
    rewrite put_seg by exact Ls. rewrite <- app_assoc. reflexivity. }
  rewrite Hput1. cbn [bind].
  rewrite (put_seg pre f2 (le16 (len s)) (s ++ F')) by (rewrite len_le16; exact L2). cbn [bind].
  rewrite drop_app_len. cbn [verify_char]. change (34 =? 34) with true. cbv iota. cbn [bind].
  replace (pre ++ le16 (len s) ++ s ++ F') with ((pre ++ enc_str s) ++ F') by (unfold enc_str; rewrite <- !app_assoc; reflexivity).
  replace (len pre + 2 + len s) with (len (pre ++ enc_str s)) by (rewrite len_app, len_enc_str; unfold str_size; lia).
  destruct rest as [|s1 rest1].
  - (* last string *)
    inversion H2r; subst. subst cont. rewrite eat_ws_nonws by reflexivity. cbn [peek bind]. change (93 =? 44) with false. change (93 =? 93) with true. cbv iota.
    cbn [tl map concat sumN]. rewrite app_nil_r, N.add_0_r, len_app, len_enc_str. unfold str_size.
    rewrite <- HF', <- app_assoc. replace (num + len [s] - 1) with num by (unfold len; cbn [length]; lia). reflexivity.
  - subst cont. rewrite eat_ws_nonws by reflexivity. cbn [peek bind]. change (44 =? 44) with true. cbv iota. cbn [tl].
    rewrite eat_ws_nonws by reflexivity. cbn [verify_char]. change (34 =? 34) with true. cbv iota. cbn [bind].
    rewrite (IH er fuel (pre ++ enc_str s) F' tail (num + 1) H2r ltac:(discriminate) ltac:(cbn [length] in *; lia)).
    2:{ rewrite HF', len_drop. cbn [map sumN] in *. lia. }
    replace (num + 1 + len (s1 :: rest1) - 1) with (num + len (s :: s1 :: rest1) - 1) by (rewrite !len_cons; lia).
    replace (len (pre ++ enc_str s) + sumN (map str_size (s1 :: rest1))) with (len pre + sumN (map str_size (s :: s1 :: rest1)))
      by (rewrite len_app, len_enc_str; cbn [map sumN]; lia).
    replace (drop (sumN (map str_size (s1 :: rest1))) F') with (drop (sumN (map str_size (s :: s1 :: rest1))) F)
      by (rewrite HF', drop_drop; f_equal; cbn [map sumN]; unfold str_size; lia).
    cbn [map concat]. rewrite <- !app_assoc. reflexivity.
Qed.

Lemma strs_text_length es tail : (length es <= length (strs_text es tail))%nat.
Proof.
  induction es as [|e r IH]; cbn [strs_text length]; [lia|]. destruct r as [|e1 r1].
  - rewrite app_length. cbn [length]. lia.
  - rewrite app_length. cbn [length] in *. lia.
Qed.

Lemma F2_length {A B} (R : A -> B -> Prop) l l' : Forall2 R l l' -> length l = length l'.
Proof. induction 1; cbn [length]; congruence. Qed.

(* ---------- one tag ---------- *)
(* the text after the tag's opening bracket *)
Definition tag_text (es : list bytes) (tail : bytes) : bytes :=
  match es with [] => 93 :: tail | _ => 34 :: strs_text es tail end.

Lemma read_tag_spec t es pre F tail : Forall2 escd t es -> tag_size t <= len F ->
  read_tag (tag_text es tail) (pre ++ F) (len pre)
  = Ok (tail, pre ++ enc_tag t ++ drop (tag_size t) F, len pre + tag_size t).
Proof.
  intros H2 Hcap. unfold tag_size in *. unfold read_tag.
  destruct t as [|s rest].
  - inversion H2; subst. clear H2.
    destruct (split_free F 2 ltac:(lia)) as [EF L2]. remember (take 2 F) as f2 eqn:Ef2. remember (drop 2 F) as F1 eqn:EF1d. clear Ef2.
    cbn [tag_text peek bind]. change (93 =? 93) with true. cbv iota.
    rewrite EF at 1. rewrite (put_seg pre f2 (le16 0) F1) by (rewrite len_le16; exact L2). cbn [bind tl].
    unfold enc_tag. cbn [map concat sumN]. rewrite app_nil_r, N.add_0_r.
    change (len (@nil bytes)) with 0. rewrite EF1d. reflexivity.
  - inversion H2 as [|? e ? er Hse H2r]; subst.
    destruct (split_free F 2 ltac:(lia)) as [EF L2]. remember (take 2 F) as f2 eqn:Ef2. remember (drop 2 F) as F1 eqn:EF1d. clear Ef2.
    assert (HF1 : len F1 = len F - 2) by (rewrite EF1d; apply len_drop).
    cbn [tag_text peek bind]. change (34 =? 93) with false. cbv iota.
    cbn [verify_char]. change (34 =? 34) with true. cbv iota. cbn [bind].
    rewrite EF at 1. replace (pre ++ f2 ++ F1) with ((pre ++ f2) ++ F1) by (rewrite <- app_assoc; reflexivity).
    replace (len pre + 2) with (len (pre ++ f2)) by (rewrite len_app; lia).
    rewrite (read_tag_strings_spec (s :: rest) (e :: er) _ (pre ++ f2) F1 tail 1 H2 ltac:(discriminate)).
    2:{ cbn [length]. pose proof (strs_text_length (e :: er) tail) as Hl. apply F2_length in H2. cbn [length] in *. lia. }
    2:{ lia. }
    cbn [bind]. rewrite <- app_assoc.
    rewrite (put_seg pre f2 (le16 (1 + len (s :: rest) - 1)) _) by (rewrite len_le16; exact L2). cbn [bind].
    replace (1 + len (s :: rest) - 1) with (len (s :: rest)) by lia.
    replace (drop (sumN (map str_size (s :: rest))) F1) with (drop (2 + sumN (map str_size (s :: rest))) F) by (rewrite EF1d, drop_drop; reflexivity).
    replace (len (pre ++ f2) + sumN (map str_size (s :: rest))) with (len pre + (2 + sumN (map str_size (s :: rest)))) by (rewrite len_app; lia).
    unfold enc_tag. rewrite <- !app_assoc. reflexivity.
Qed.

(* ---------- the tags of the array ---------- *)
(* the text after the opening bracket of the first tag *)
Fixpoint tags_text (tes : list (list bytes)) (tail : bytes) : bytes :=
  match tes with
  | [] => tail
  | es :: r => match r with
               | [] => tag_text es (93 :: tail)
               | _ => tag_text es (44 :: 91 :: tags_text r tail)
               end
  end.

Lemma tag_text_nonws es tail : exists c r, tag_text es tail = c :: r /\ is_ws c = false.
Proof. destruct es; cbn [tag_text]; eexists _, _; split; reflexivity. Qed.
Lemma tags_text_nonws tes tail : tes <> [] -> exists c r, tags_text tes tail = c :: r /\ is_ws c = false.
Proof. destruct tes as [|es r]; [congruence|]. intros _. cbn [tags_text]. destruct r; apply tag_text_nonws. Qed.
Lemma tag_text_length es tail : (1 <= length (tag_text es tail))%nat.
Proof. destruct es; cbn [tag_text length]; lia. Qed.
Lemma tags_text_length tes tail : (length tes <= length (tags_text tes tail))%nat.
Proof.
  induction tes as [|es r IH]; cbn [tags_text length]; [lia|]. destruct r as [|es1 r1].
  - apply tag_text_length.
  - destruct es as [|e er]; cbn [tag_text length] in *; [lia|].
    assert (G : forall es0 tl0, (length tl0 <= length (strs_text es0 tl0))%nat).
    { induction es0 as [|e0 r0 IH0]; intros tl0; cbn [strs_text]; [lia|]. destruct r0.
      - rewrite app_length. cbn [length]. lia.
      - rewrite app_length. cbn [length]. specialize (IH0 tl0). lia. }
    pose proof (G (e :: er) (44 :: 91 :: tags_text (es1 :: r1) tail)) as Hg. cbn [length] in Hg. lia.
Qed.

Lemma read_tags_loop_spec ts : forall tes fuel h4 od ot D F tail i n,
  Forall2 (Forall2 escd) ts tes -> ts <> [] -> (length ts < fuel)%nat ->
  len h4 = 4 -> len od = 2 * i -> len ot = 2 * len ts -> i + len ts = n ->
  sumN (map tag_size ts) <= len F ->
  read_tags_loop fuel (tags_text tes tail) (h4 ++ od ++ ot ++ D ++ F) (4 + 2 * n + len D) i n
  = Ok (tail,
        h4 ++ (od ++ concat (map le16 (offsets (4 + 2 * n + len D) ts))) ++ (D ++ concat (map enc_tag ts)) ++ drop (sumN (map tag_size ts)) F,
        4 + 2 * n + len D + sumN (map tag_size ts)).
Proof.
  induction ts as [|t rest IH]; intros tes fuel h4 od ot D F tail i n H2 Hne Hf Lh Lod Lot Hin Hcap; [congruence|].
  revert Hin. inversion H2 as [|? es ? ter Hte H2r]; subst. intros Hin. destruct fuel as [|fuel]; [cbn [length] in Hf; lia|].
  cbn [map sumN] in Hcap. rewrite len_cons in Lot, Hin.
  destruct (split_free ot 2 ltac:(lia)) as [Eot Lo2]. remember (take 2 ot) as o2 eqn:Eo2. remember (drop 2 ot) as ot' eqn:Eot'.
  assert (Lot' : len ot' = 2 * len rest) by (rewrite Eot', len_drop; lia). clear Eo2 Eot'.
  set (outpos := 4 + 2 * n + len D) in *.
  set (cont := match rest with [] => 93 :: tail | _ => 44 :: 91 :: tags_text ter tail end).
  assert (Htext : tags_text (es :: ter) tail = tag_text es cont).
  { cbn [tags_text]. subst cont. inversion H2r; subst; reflexivity. }
  rewrite Htext. cbn [read_tags_loop].
  (* the offset slot *)
  rewrite Eot.
  replace (h4 ++ od ++ (o2 ++ ot') ++ D ++ F) with ((h4 ++ od) ++ o2 ++ (ot' ++ D ++ F)) by (rewrite <- !app_assoc; reflexivity).
  replace (4 + i * 2) with (len (h4 ++ od)) by (rewrite len_app; lia).
  rewrite (put_seg (h4 ++ od) o2 (le16 outpos) _) by (rewrite len_le16; exact Lo2). cbn [bind].
  (* the tag *)
  replace ((h4 ++ od) ++ le16 outpos ++ ot' ++ D ++ F) with ((h4 ++ od ++ le16 outpos ++ ot' ++ D) ++ F) by (rewrite <- !app_assoc; reflexivity).
  assert (Lpre : len (h4 ++ od ++ le16 outpos ++ ot' ++ D) = outpos).
  { rewrite !len_app, len_le16. subst outpos. lia. }
  pose proof (read_tag_spec t es (h4 ++ od ++ le16 outpos ++ ot' ++ D) F cont Hte ltac:(lia)) as RT. rewrite Lpre in RT. rewrite RT. clear RT. cbn [bind].
  destruct rest as [|t1 rest1].
  - assert (ter = []) by (inversion H2r; reflexivity). subst ter. subst cont. rewrite eat_ws_nonws by reflexivity. cbn [peek bind]. change (93 =? 93) with true. cbv iota.
    replace (i =? n - 1) with true by (symmetry; apply N.eqb_eq; unfold len in Hin; cbn [length] in Hin; lia).
    cbn [negb tl map concat sumN offsets]. rewrite !app_nil_r, N.add_0_r.
    assert (Eot'n : ot' = []) by (destruct ot'; [reflexivity|unfold len in Lot'; cbn [length] in Lot'; lia]). subst ot'.
    cbn [app]. rewrite <- !app_assoc. fold outpos. reflexivity.
  - subst cont. rewrite eat_ws_nonws by reflexivity. cbn [peek bind]. change (44 =? 93) with false. change (44 =? 44) with true. cbv iota. cbn [tl].
    rewrite eat_ws_nonws by reflexivity. cbn [verify_char]. change (91 =? 91) with true. cbv iota. cbn [bind].
    replace (n <=? i + 1) with false by (symmetry; apply N.leb_gt; rewrite len_cons in Hin; lia).
    destruct (tags_text_nonws ter tail) as [c0 [r0 [Ec0 Hc0]]]; [inversion H2r; discriminate|].
    rewrite Ec0, eat_ws_nonws by exact Hc0. rewrite <- Ec0.
    (* re-shape the buffer for the next round *)
    replace ((h4 ++ od ++ le16 outpos ++ ot' ++ D) ++ enc_tag t ++ drop (tag_size t) F)
      with (h4 ++ (od ++ le16 outpos) ++ ot' ++ (D ++ enc_tag t) ++ drop (tag_size t) F) by (rewrite <- !app_assoc; reflexivity).
    replace (outpos + tag_size t) with (4 + 2 * n + len (D ++ enc_tag t)) by (subst outpos; rewrite len_app, len_enc_tag; lia).
    rewrite (IH ter fuel h4 (od ++ le16 outpos) ot' (D ++ enc_tag t) (drop (tag_size t) F) tail (i + 1) n H2r ltac:(discriminate)).
    + cbn [map concat sumN offsets]. rewrite drop_drop. rewrite !len_app, len_enc_tag. fold outpos.
      replace (4 + 2 * n + (len D + tag_size t)) with (outpos + tag_size t) by (subst outpos; lia).
      rewrite <- !app_assoc. f_equal. f_equal. lia.
    + cbn [length] in *. lia.
    + exact Lh.
    + rewrite len_app, len_le16. lia.
    + exact Lot'.
    + lia.
    + rewrite len_drop. cbn [map sumN] in *. lia.
Qed.

(* ---------- counting the tags (the skipping pass) ---------- *)
Fixpoint cont_after (es : list bytes) (tail : bytes) : bytes :=
  match es with [] => 93 :: tail | e :: r => 44 :: 34 :: e ++ 34 :: cont_after r tail end.
Lemma strs_text_cont e er tail : strs_text (e :: er) tail = e ++ 34 :: cont_after er tail.
Proof.
  revert e; induction er as [|e1 r IH]; intros e; [reflexivity|].
  change (strs_text (e :: e1 :: r) tail) with (e ++ 34 :: 44 :: 34 :: strs_text (e1 :: r) tail). rewrite IH. reflexivity.
Qed.
Lemma cont_after_nonws es tail : exists c r, cont_after es tail = c :: r /\ is_ws c = false.
Proof. destruct es; cbn [cont_after]; eexists _, _; split; reflexivity. Qed.

Lemma burn_tag_strings_spec ss : forall es fuel tail, Forall2 escd ss es -> (length ss < fuel)%nat ->
  burn_tag_strings fuel (cont_after es tail) = Ok tail.
Proof.
  induction ss as [|s rest IH]; intros es fuel tail H2 Hf; inversion H2 as [|? e ? er [Hun Hbu] H2r]; subst;
    (destruct fuel as [|fuel]; [cbn [length] in Hf; lia|]); cbn [cont_after burn_tag_strings peek bind].
  - change (93 =? 44) with false. cbv iota. cbn [verify_char]. change (93 =? 93) with true. reflexivity.
  - change (44 =? 44) with true. cbv iota. cbn [tl]. rewrite eat_ws_nonws by reflexivity. cbn [verify_char]. change (34 =? 34) with true. cbv iota. cbn [bind].
    rewrite (Hbu _). cbn [bind].
    destruct (cont_after_nonws er tail) as [c0 [r0 [E0 H0]]]. rewrite E0, eat_ws_nonws by exact H0. rewrite <- E0.
    apply (IH er fuel tail H2r). cbn [length] in Hf. lia.
Qed.

Lemma burn_tag_spec t es tail : Forall2 escd t es -> burn_tag (tag_text es tail) = Ok tail.
Proof.
  intros H2. unfold burn_tag. destruct (tag_text_nonws es tail) as [c0 [r0 [E0 H0]]]. rewrite E0, eat_ws_nonws by exact H0. rewrite <- E0.
  destruct t as [|s rest]; inversion H2 as [|? e ? er [Hun Hbu] H2r]; subst.
  - cbn [tag_text peek bind]. change (93 =? 93) with true. reflexivity.
  - cbn [tag_text peek bind]. change (34 =? 93) with false. cbv iota. cbn [verify_char]. change (34 =? 34) with true. cbv iota. cbn [bind].
    rewrite strs_text_cont, (Hbu _). cbn [bind].
    destruct (cont_after_nonws er tail) as [c1 [r1 [E1 H1]]]. rewrite E1, eat_ws_nonws by exact H1. rewrite <- E1.
    apply (burn_tag_strings_spec rest er _ tail H2r).
    apply F2_length in H2r. rewrite H2r. cbn [length]. rewrite app_length. cbn [length].
    assert (G : forall es0 tl0, (length es0 <= length (cont_after es0 tl0))%nat).
    { induction es0 as [|e0 r0' IH0]; intros tl0; cbn [cont_after length]; [lia|]. rewrite app_length. cbn [length]. specialize (IH0 tl0). lia. }
    pose proof (G er tail). lia.
Qed.

(* what follows a tag's closing bracket *)
Definition tcont (r : list (list bytes)) (tail : bytes) : bytes :=
  match r with [] => 93 :: tail | _ => 44 :: 91 :: tags_text r tail end.
Lemma tags_text_cons es r tail : tags_text (es :: r) tail = tag_text es (tcont r tail).
Proof. cbn [tags_text]. unfold tcont. destruct r; reflexivity. Qed.
Lemma tcont_nonws r tail : exists c r0, tcont r tail = c :: r0 /\ is_ws c = false.
Proof. destruct r; cbn [tcont]; eexists _, _; split; reflexivity. Qed.

Lemma count_tags_loop_spec ts : forall tes fuel tail count, Forall2 (Forall2 escd) ts tes -> (length ts < fuel)%nat ->
  count_tags_loop fuel (tcont tes tail) count = Ok (count + len ts).
Proof.
  induction ts as [|t rest IH]; intros tes fuel tail count H2 Hf; inversion H2 as [|? es ? ter Hte H2r]; subst;
    (destruct fuel as [|fuel]; [cbn [length] in Hf; lia|]); cbn [tcont count_tags_loop peek bind].
  - change (93 =? 93) with true. cbv iota. f_equal. unfold len. cbn [length]. lia.
  - change (44 =? 93) with false. change (44 =? 44) with true. cbv iota. cbn [tl]. rewrite eat_ws_nonws by reflexivity.
    cbn [verify_char]. change (91 =? 91) with true. cbv iota. cbn [bind].
    rewrite tags_text_cons, (burn_tag_spec t es _ Hte). cbn [bind].
    destruct (tcont_nonws ter tail) as [c0 [r0 [E0 H0]]]. rewrite E0, eat_ws_nonws by exact H0. rewrite <- E0.
    rewrite (IH ter fuel tail (count + 1) H2r) by (cbn [length] in Hf; lia). f_equal. rewrite len_cons. lia.
Qed.

(* the text after the array's opening bracket *)
Definition tags_body (tes : list (list bytes)) (tail : bytes) : bytes :=
  match tes with [] => 93 :: tail | _ => 91 :: tags_text tes tail end.

Lemma count_tags_spec ts tes tail : Forall2 (Forall2 escd) ts tes -> count_tags (tags_body tes tail) = Ok (len ts).
Proof.
  intros H2. unfold count_tags. destruct ts as [|t rest]; inversion H2 as [|? es ? ter Hte H2r]; subst.
  - cbn [tags_body peek bind]. change (93 =? 93) with true. reflexivity.
  - cbn [tags_body peek bind]. change (91 =? 93) with false. change (91 =? 91) with true. cbv iota. cbn [tl].
    rewrite tags_text_cons, (burn_tag_spec t es _ Hte). cbn [bind].
    destruct (tcont_nonws ter tail) as [c0 [r0 [E0 H0]]]. rewrite E0, eat_ws_nonws by exact H0. rewrite <- E0.
    rewrite (count_tags_loop_spec rest ter _ tail 1 H2r).
    + f_equal. rewrite len_cons. reflexivity.
    + apply F2_length in H2r. rewrite H2r. cbn [length]. pose proof (tags_text_length (es :: ter) tail) as Hl. rewrite tags_text_cons in Hl. cbn [length] in Hl. lia.
Qed.

(* ---------- the tag array ---------- *)
Lemma offsets_hdr ts : tags_hdr ts = 4 + 2 * len ts. Proof. reflexivity. Qed.

Lemma read_tags_array_spec ts tes F tail : Forall2 (Forall2 escd) ts tes -> tags_size ts <= len F -> fits_tags ts ->
  read_tags_array (91 :: tags_body tes tail) F = Ok (tail, enc_tags ts ++ drop (tags_size ts) F, tags_size ts).
Proof.
  intros H2 Hcap Hfit. unfold read_tags_array. cbn [verify_char]. change (91 =? 91) with true. cbv iota. cbn [bind].
  assert (Hnw : exists c r, tags_body tes tail = c :: r /\ is_ws c = false) by (destruct tes; cbn [tags_body]; eexists _, _; split; reflexivity).
  destruct Hnw as [c0 [r0 [E0 H0]]]. rewrite E0, eat_ws_nonws by exact H0. rewrite <- E0.
  unfold tags_size, tags_hdr in Hcap.
  replace (len F <? 4) with false by (symmetry; apply N.ltb_ge; lia).
  rewrite (count_tags_spec ts tes tail H2). cbn [bind].
  destruct (split_free F 2 ltac:(lia)) as [EF L2]. remember (take 2 F) as h2 eqn:Eh2. remember (drop 2 F) as F1 eqn:EF1d. clear Eh2.
  assert (LF1 : len F1 = len F - 2) by (rewrite EF1d; apply len_drop).
  destruct (split_free F1 2 ltac:(lia)) as [EF1 Lc2]. remember (take 2 F1) as c2 eqn:Ec2. remember (drop 2 F1) as F2 eqn:EF2d. clear Ec2.
  assert (LF2 : len F2 = len F - 4) by (rewrite EF2d, len_drop; lia).
  assert (HF2 : F2 = drop 4 F) by (rewrite EF2d, EF1d, drop_drop; reflexivity).
  rewrite EF at 1. rewrite EF1 at 1.
  pose proof (put_seg h2 c2 (le16 (len ts)) F2 ltac:(rewrite len_le16; exact Lc2)) as P1. rewrite L2 in P1. rewrite P1. clear P1. cbn [bind].
  destruct ts as [|t rest].
  - assert (tes = []) by (inversion H2; reflexivity). subst tes. change (len (@nil (list bytes)) =? 0) with true. cbv iota.
    pose proof (put_seg [] h2 (le16 4) (le16 (len (@nil (list bytes))) ++ F2) ltac:(rewrite len_le16; exact L2)) as P2. change (len (@nil N)) with 0 in P2. cbn [app] in P2. rewrite P2. clear P2. cbn [bind].
    cbn [tags_body]. unfold burn_fuel. cbn [burn_array eat_ws_commas]. change (is_ws 93 || (93 =? 44)) with false. cbv iota.
    change (93 =? 93) with true. cbv iota.
    unfold enc_tags, tags_size, tags_hdr. cbn [map sumN concat offsets]. change (len (@nil (list bytes))) with 0. cbn [app].
    rewrite HF2. reflexivity.
  - replace (len (t :: rest) =? 0) with false by (symmetry; apply N.eqb_neq; rewrite len_cons; lia).
    inversion H2 as [|? es ? ter Hte H2r]. subst tes. cbn [tags_body verify_char]. change (91 =? 91) with true. cbv iota. cbn [bind].
    destruct (tags_text_nonws (es :: ter) tail ltac:(discriminate)) as [c1 [r1 [E1 Hnw1]]]. rewrite E1, eat_ws_nonws by exact Hnw1. rewrite <- E1.
    set (n := len (t :: rest)) in *.
    replace (len F <? 4 + n * 2) with false by (symmetry; apply N.ltb_ge; lia).
    (* shape the buffer for the loop: header (4), no offsets done, n slots to do, no data yet *)
    destruct (split_free F2 (2 * n) ltac:(lia)) as [EF2 Lot]. remember (take (2 * n) F2) as ot eqn:Eot. remember (drop (2 * n) F2) as F3 eqn:EF3d. clear Eot.
    assert (LF3 : len F3 = len F - 4 - 2 * n) by (rewrite EF3d, len_drop; lia).
    replace (h2 ++ le16 n ++ F2) with ((h2 ++ le16 n) ++ [] ++ ot ++ [] ++ F3) by (cbn [app]; rewrite <- app_assoc, <- EF2; reflexivity).
    replace (4 + n * 2) with (4 + 2 * n + len (@nil N)) by (unfold len; cbn [length]; lia).
    rewrite (read_tags_loop_spec (t :: rest) (es :: ter) _ (h2 ++ le16 n) [] ot [] F3 tail 0 n H2 ltac:(discriminate)).
    + cbn [bind app]. change (len (@nil N)) with 0. rewrite N.add_0_r.
      assert (Hsz : 4 + 2 * n + sumN (map tag_size (t :: rest)) = tags_size (t :: rest)) by (unfold tags_size, tags_hdr; subst n; lia).
      rewrite Hsz. unfold fits_tags in Hfit.
      replace (65535 <? tags_size (t :: rest)) with false by (symmetry; apply N.ltb_ge; lia).
      rewrite <- (app_assoc h2).
      match goal with |- context [put (h2 ++ ?R) 0 ?d] => pose proof (put_seg [] h2 d R ltac:(rewrite len_le16; exact L2)) as P3 end.
      change (len (@nil N)) with 0 in P3. cbn [app] in P3. rewrite P3. clear P3. cbn [bind].
      unfold enc_tags. rewrite offsets_hdr. fold n. rewrite <- !app_assoc.
      replace (drop (sumN (map tag_size (t :: rest))) F3) with (drop (tags_size (t :: rest)) F); [reflexivity|].
      rewrite EF3d, HF2, !drop_drop. f_equal. lia.
    + pose proof (tags_text_length (es :: ter) tail) as Hl. apply F2_length in H2. cbn [length tags_body] in *. lia.
    + rewrite len_app, len_le16. lia.
    + reflexivity.
    + exact Lot.
    + subst n. lia.
    + lia.
Qed.

(* the text tags_as_json writes is the text the lemmas above read *)
Lemma join_strs es tail : es <> [] ->
  join [44] (map (fun e => [34] ++ e ++ [34]) es) ++ 93 :: tail = 34 :: strs_text es tail.
Proof.
  induction es as [|e r IH]; intros Hne; [congruence|]. destruct r as [|e1 r1].
  - cbn [map join strs_text app]. rewrite <- app_assoc. reflexivity.
  - change (join [44] (map (fun e0 => [34] ++ e0 ++ [34]) (e :: e1 :: r1)))
      with (([34] ++ e ++ [34]) ++ [44] ++ join [44] (map (fun e0 => [34] ++ e0 ++ [34]) (e1 :: r1))).
    rewrite <- !app_assoc. rewrite IH by discriminate. reflexivity.
Qed.
Lemma tag_json_text es tail : ([91] ++ join [44] (map (fun e => [34] ++ e ++ [34]) es) ++ [93]) ++ tail = 91 :: tag_text es tail.
Proof.
  destruct es as [|e r]; [reflexivity|]. cbn [app tag_text]. f_equal. rewrite <- app_assoc. cbn [app]. apply join_strs. discriminate.
Qed.
Lemma join_tags tes tail : tes <> [] ->
  join [44] (map (fun es => [91] ++ join [44] (map (fun e => [34] ++ e ++ [34]) es) ++ [93]) tes) ++ 93 :: tail = 91 :: tags_text tes tail.
Proof.
  induction tes as [|es r IH]; intros Hne; [congruence|]. destruct r as [|es1 r1].
  - cbn [map join tags_text]. apply tag_json_text.
  - set (A := [91] ++ join [44] (map (fun e => [34] ++ e ++ [34]) es) ++ [93]).
    set (J := join [44] (map (fun es0 => [91] ++ join [44] (map (fun e => [34] ++ e ++ [34]) es0) ++ [93]) (es1 :: r1))).
    change (join [44] (map (fun es0 => [91] ++ join [44] (map (fun e => [34] ++ e ++ [34]) es0) ++ [93]) (es :: es1 :: r1)))
      with (A ++ [44] ++ J).
    rewrite <- (app_assoc A), <- (app_assoc [44]). subst J. rewrite IH by discriminate.
    change (tags_text (es :: es1 :: r1) tail) with (tag_text es (44 :: 91 :: tags_text (es1 :: r1) tail)).
    subst A. apply (tag_json_text es (44 :: 91 :: tags_text (es1 :: r1) tail)).
Qed.

Definition valid_tags (ts : atags) : Prop := Forall (Forall valid_utf8) ts.

Lemma tags_as_json_text ts : valid_tags ts -> exists tes, Forall2 (Forall2 escd) ts tes /\
  forall tail, exists tj, tags_as_json ts = Ok tj /\ tj ++ tail = 91 :: tags_body tes tail.
Proof.
  intros Hv.
  assert (Hstr : forall t, Forall valid_utf8 t -> exists es, Forall2 escd t es /\ map_res json_string t = Ok (map (fun e => [34] ++ e ++ [34]) es)).
  { induction t as [|s r IH]; intros Ht; [exists []; split; [constructor|reflexivity]|].
    inversion Ht as [|? ? Hs Hr]; subst. destruct (IH Hr) as [es [H2 Hm]].
    destruct (json_escape_succeeds_on_valid s Hs) as [e He]. exists (e :: es). split; [constructor; [apply escd0_escd; split; assumption|exact H2]|].
    cbn [map_res]. unfold json_string at 1. rewrite He. cbn [bind]. rewrite Hm. reflexivity. }
  assert (Htags : exists tes, Forall2 (Forall2 escd) ts tes /\
     map_res (fun t => match map_res json_string t with Ok ss => Ok ([91] ++ join [44] ss ++ [93]) | _ => Panic end) ts
     = Ok (map (fun es => [91] ++ join [44] (map (fun e => [34] ++ e ++ [34]) es) ++ [93]) tes)).
  { induction ts as [|t r IH]; [exists []; split; [constructor|reflexivity]|].
    inversion Hv as [|? ? Ht Hr]; subst. destruct (IH Hr) as [tes [H2 Hm]]. destruct (Hstr t Ht) as [es [H2s Hms]].
    exists (es :: tes). split; [constructor; assumption|]. cbn [map_res]. rewrite Hms. cbn [bind]. rewrite Hm. reflexivity. }
  destruct Htags as [tes [H2 Hm]]. exists tes. split; [exact H2|]. intros tail.
  unfold tags_as_json. rewrite Hm. eexists. split; [reflexivity|].
  destruct tes as [|es r]; [reflexivity|]. cbn [app tags_body]. f_equal. rewrite <- app_assoc. cbn [app]. apply join_tags. discriminate.
Qed.

(* Tags::from_json (Tags::as_json ts) = ts, whatever follows the text and whatever the buffer held *)
Theorem tags_json_roundtrip ts tj tail F : valid_tags ts -> fits_tags ts -> tags_size ts <= len F ->
  tags_as_json ts = Ok tj -> tags_from_json (tj ++ tail) F = Ok (len tj, enc_tags ts).
Proof.
  intros Hv Hfit Hcap Hj. destruct (tags_as_json_text ts Hv) as [tes [H2 Htxt]]. destruct (Htxt tail) as [tj' [Hj' Et]].
  assert (tj' = tj) by congruence. subst tj'. unfold tags_from_json. rewrite Et, (read_tags_array_spec ts tes F tail H2 Hcap Hfit). cbn [bind].
  rewrite <- Et, len_app. f_equal. f_equal; [lia|]. rewrite <- (len_enc_tags ts). apply take_app_len.
Qed.

(* ---------- the content ---------- *)
Lemma put_at a old new r off : len a = off -> len old = len new -> put (a ++ old ++ r) off new = Ok (a ++ new ++ r).
Proof. intros <- H. apply put_seg. exact H. Qed.
Lemma put_raw_at a old new r off : len a = off -> len old = len new -> put_raw (a ++ old ++ r) off new = Ok (a ++ new ++ r).
Proof. intros <- H. apply put_raw_seg. exact H. Qed.

Lemma read_content_spec s e x0 pre F rest after_tags : escd s e -> len x0 = 4 -> len (x0 ++ pre) = after_tags -> 4 + len s <= len F ->
  read_content (34 :: e ++ 34 :: rest) ((x0 ++ pre) ++ F) after_tags
  = Ok (rest, le32 (after_tags + 4 + len s) ++ pre ++ le32 (len s) ++ s ++ drop (4 + len s) F).
Proof.
  intros [Hun Hbu] L0 La Hcap. unfold read_content. cbn [verify_char]. change (34 =? 34) with true. cbv iota. cbn [bind].
  rewrite len_app, La.
  replace (after_tags + len F <? after_tags + 4) with false by (symmetry; apply N.ltb_ge; lia).
  rewrite (Hun rest _) by lia. cbn [bind].
  destruct (split_free F 4 ltac:(lia)) as [EF L4]. remember (take 4 F) as f4 eqn:Ef4. remember (drop 4 F) as F1 eqn:EF1d. clear Ef4.
  assert (LF1 : len F1 = len F - 4) by (rewrite EF1d; apply len_drop).
  destruct (split_free F1 (len s) ltac:(lia)) as [EF1 Ls]. remember (take (len s) F1) as fs eqn:Efs. remember (drop (len s) F1) as F2 eqn:EF2d. clear Efs.
  assert (HF2 : F2 = drop (4 + len s) F) by (rewrite EF2d, EF1d, drop_drop; reflexivity).
  rewrite EF at 1. rewrite EF1 at 1.
  replace ((x0 ++ pre) ++ f4 ++ fs ++ F2) with (((x0 ++ pre) ++ f4) ++ fs ++ F2) by (rewrite <- !app_assoc; reflexivity).
  rewrite (put_at ((x0 ++ pre) ++ f4) fs s F2 (after_tags + 4)) by (try rewrite len_app; lia). cbn [bind].
  rewrite drop_app_len. cbn [verify_char]. change (34 =? 34) with true. cbv iota. cbn [bind].
  replace (((x0 ++ pre) ++ f4) ++ s ++ F2) with ((x0 ++ pre) ++ f4 ++ (s ++ F2)) by (rewrite <- !app_assoc; reflexivity).
  rewrite (put_at (x0 ++ pre) f4 (le32 (len s)) (s ++ F2) after_tags La) by (rewrite len_le32; exact L4). cbn [bind].
  replace ((x0 ++ pre) ++ le32 (len s) ++ s ++ F2) with ([] ++ x0 ++ (pre ++ le32 (len s) ++ s ++ F2)) by (cbn [app]; rewrite <- !app_assoc; reflexivity).
  rewrite (put_at [] x0 (le32 (after_tags + 4 + len s)) _ 0 eq_refl) by (rewrite len_le32; exact L0). cbn [bind app].
  rewrite HF2. reflexivity.
Qed.

(* ---------- the members of an event ---------- *)
Lemma eat_colon_ws_lit c r : is_ws c = false -> eat_colon_ws (58 :: c :: r) = Ok (c :: r).
Proof.
  intros H. unfold eat_colon_ws. rewrite (eat_ws_nonws 58) by reflexivity. cbn [verify_char]. change (58 =? 58) with true. cbv iota. cbn [bind].
  rewrite eat_ws_nonws by exact H. reflexivity.
Qed.

Section Members.
  Variable st : evst.
  Let c := ev_complete st.

  Lemma em_id a old r bs ch rest : wf_bytes bs -> len bs = 32 -> has_bit c HAVE_ID = false ->
    ev_out st = a ++ old ++ r -> len a = 16 -> len old = 32 ->
    event_member st (105 :: 100 :: 34 :: 58 :: 34 :: write_hex bs ++ 34 :: ch :: rest)
    = Ok (mkEv (a ++ bs ++ r) (set_bit c HAVE_ID) (ev_tags_size st) (ev_content_start st), ch :: rest).
  Proof.
    intros W L Hb Eo La Lo. unfold event_member.
    replace (starts_with k_id (105 :: 100 :: 34 :: 58 :: 34 :: write_hex bs ++ 34 :: ch :: rest)) with true by reflexivity.
    fold c. rewrite Hb.
    change (drop 3 (105 :: 100 :: 34 :: 58 :: 34 :: write_hex bs ++ 34 :: ch :: rest)) with (58 :: 34 :: write_hex bs ++ 34 :: ch :: rest).
    rewrite eat_colon_ws_lit by reflexivity. cbn [bind].
    rewrite (read_hex_quoted_spec 32 bs ch rest W L). cbn [bind].
    rewrite Eo, (put_raw_at a old bs r 16 La) by lia. reflexivity.
  Qed.

  Lemma em_pubkey a old r bs ch rest : wf_bytes bs -> len bs = 32 -> has_bit c HAVE_PUBKEY = false ->
    ev_out st = a ++ old ++ r -> len a = 48 -> len old = 32 ->
    event_member st (112 :: 117 :: 98 :: 107 :: 101 :: 121 :: 34 :: 58 :: 34 :: write_hex bs ++ 34 :: ch :: rest)
    = Ok (mkEv (a ++ bs ++ r) (set_bit c HAVE_PUBKEY) (ev_tags_size st) (ev_content_start st), ch :: rest).
  Proof.
    intros W L Hb Eo La Lo. unfold event_member.
    set (txt := 112 :: 117 :: 98 :: 107 :: 101 :: 121 :: 34 :: 58 :: 34 :: write_hex bs ++ 34 :: ch :: rest).
    replace (starts_with k_id txt) with false by reflexivity. replace (starts_with k_sig txt) with false by reflexivity.
    replace (starts_with k_kind txt) with false by reflexivity. replace (starts_with k_tags txt) with false by reflexivity.
    replace (starts_with k_pubkey txt) with true by reflexivity.
    fold c. rewrite Hb. subst txt.
    change (drop 7 (112 :: 117 :: 98 :: 107 :: 101 :: 121 :: 34 :: 58 :: 34 :: write_hex bs ++ 34 :: ch :: rest)) with (58 :: 34 :: write_hex bs ++ 34 :: ch :: rest).
    rewrite eat_colon_ws_lit by reflexivity. cbn [bind].
    rewrite (read_hex_quoted_spec 32 bs ch rest W L). cbn [bind].
    rewrite Eo, (put_raw_at a old bs r 48 La) by lia. reflexivity.
  Qed.

  Lemma em_sig a old r bs ch rest : wf_bytes bs -> len bs = 64 -> has_bit c HAVE_SIG = false ->
    ev_out st = a ++ old ++ r -> len a = 80 -> len old = 64 ->
    event_member st (115 :: 105 :: 103 :: 34 :: 58 :: 34 :: write_hex bs ++ 34 :: ch :: rest)
    = Ok (mkEv (a ++ bs ++ r) (set_bit c HAVE_SIG) (ev_tags_size st) (ev_content_start st), ch :: rest).
  Proof.
    intros W L Hb Eo La Lo. unfold event_member.
    set (txt := 115 :: 105 :: 103 :: 34 :: 58 :: 34 :: write_hex bs ++ 34 :: ch :: rest).
    replace (starts_with k_id txt) with false by reflexivity. replace (starts_with k_sig txt) with true by reflexivity.
    fold c. rewrite Hb. subst txt.
    change (drop 4 (115 :: 105 :: 103 :: 34 :: 58 :: 34 :: write_hex bs ++ 34 :: ch :: rest)) with (58 :: 34 :: write_hex bs ++ 34 :: ch :: rest).
    rewrite eat_colon_ws_lit by reflexivity. cbn [bind].
    replace (len (ev_out st) <? 144) with false by (symmetry; apply N.ltb_ge; rewrite Eo, !len_app; lia).
    rewrite (read_hex_quoted_spec 64 bs ch rest W L). cbn [bind].
    rewrite Eo, (put_raw_at a old bs r 80 La) by lia. reflexivity.
  Qed.

  Lemma em_kind a old r k rest : k < 65536 -> has_bit c HAVE_KIND = false ->
    ev_out st = a ++ old ++ r -> len a = 4 -> len old = 2 ->
    event_member st (107 :: 105 :: 110 :: 100 :: 34 :: 58 :: dec k ++ 44 :: rest)
    = Ok (mkEv (a ++ le16 k ++ r) (set_bit c HAVE_KIND) (ev_tags_size st) (ev_content_start st), 44 :: rest).
  Proof.
    intros Hk Hb Eo La Lo. unfold event_member.
    set (txt := 107 :: 105 :: 110 :: 100 :: 34 :: 58 :: dec k ++ 44 :: rest).
    replace (starts_with k_id txt) with false by reflexivity. replace (starts_with k_sig txt) with false by reflexivity.
    replace (starts_with k_kind txt) with true by reflexivity.
    fold c. rewrite Hb. subst txt.
    change (drop 5 (107 :: 105 :: 110 :: 100 :: 34 :: 58 :: dec k ++ 44 :: rest)) with (58 :: dec k ++ 44 :: rest).
    assert (P : k < 10 ^ 25) by (assert (65536 < 10 ^ 25) by (vm_compute; reflexivity); lia).
    destruct (dec_spec k P) as [Hd _]. pose proof (dec_nonempty k P) as Hne.
    destruct (dec k) as [|d ds] eqn:Ed; [congruence|]. inversion Hd as [|? ? Hdd _]; subst.
    cbn [app]. rewrite eat_colon_ws_lit by (unfold is_digit in Hdd; unfold is_ws; lia). cbn [bind].
    change (d :: ds ++ 44 :: rest) with ((d :: ds) ++ 44 :: rest). rewrite <- Ed, (read_kind_dec k 44 rest Hk eq_refl). cbn [bind].
    rewrite Eo, (put_raw_at a old (le16 k) r 4 La) by (rewrite len_le16; lia). reflexivity.
  Qed.

  Lemma em_created a old r u rest : u < 18446744073709551616 -> has_bit c HAVE_CREATED_AT = false ->
    ev_out st = a ++ old ++ r -> len a = 8 -> len old = 8 ->
    event_member st (99 :: 114 :: 101 :: 97 :: 116 :: 101 :: 100 :: 95 :: 97 :: 116 :: 34 :: 58 :: dec u ++ 44 :: rest)
    = Ok (mkEv (a ++ le64 u ++ r) (set_bit c HAVE_CREATED_AT) (ev_tags_size st) (ev_content_start st), 44 :: rest).
  Proof.
    intros Hu Hb Eo La Lo. unfold event_member.
    set (txt := 99 :: 114 :: 101 :: 97 :: 116 :: 101 :: 100 :: 95 :: 97 :: 116 :: 34 :: 58 :: dec u ++ 44 :: rest).
    replace (starts_with k_id txt) with false by reflexivity. replace (starts_with k_sig txt) with false by reflexivity.
    replace (starts_with k_kind txt) with false by reflexivity. replace (starts_with k_tags txt) with false by reflexivity.
    replace (starts_with k_pubkey txt) with false by reflexivity. replace (starts_with k_content txt) with false by reflexivity.
    replace (starts_with k_created_at txt) with true by reflexivity.
    fold c. rewrite Hb. subst txt.
    change (drop 11 (99 :: 114 :: 101 :: 97 :: 116 :: 101 :: 100 :: 95 :: 97 :: 116 :: 34 :: 58 :: dec u ++ 44 :: rest)) with (58 :: dec u ++ 44 :: rest).
    assert (P : u < 10 ^ 25) by (assert (18446744073709551616 < 10 ^ 25) by (vm_compute; reflexivity); lia).
    destruct (dec_spec u P) as [Hd _]. pose proof (dec_nonempty u P) as Hne.
    destruct (dec u) as [|d ds] eqn:Ed; [congruence|]. inversion Hd as [|? ? Hdd _]; subst.
    cbn [app]. rewrite eat_colon_ws_lit by (unfold is_digit in Hdd; unfold is_ws; lia). cbn [bind].
    change (d :: ds ++ 44 :: rest) with ((d :: ds) ++ 44 :: rest). rewrite <- Ed, (read_u64_dec u 44 rest Hu eq_refl). cbn [bind].
    rewrite Eo, (put_raw_at a old (le64 u) r 8 La) by (rewrite len_le64; lia). reflexivity.
  Qed.

  Lemma em_tags hdr F ts tes tail : Forall2 (Forall2 escd) ts tes -> tags_size ts <= len F -> fits_tags ts ->
    has_bit c HAVE_TAGS = false -> ev_out st = hdr ++ F -> len hdr = 144 -> ev_content_start st = None ->
    event_member st (116 :: 97 :: 103 :: 115 :: 34 :: 58 :: 91 :: tags_body tes tail)
    = Ok (mkEv (hdr ++ enc_tags ts ++ drop (tags_size ts) F) (set_bit c HAVE_TAGS) (tags_size ts) None, tail).
  Proof.
    intros H2 Hcap Hfit Hb Eo Lh Hcs. unfold event_member.
    set (txt := 116 :: 97 :: 103 :: 115 :: 34 :: 58 :: 91 :: tags_body tes tail).
    replace (starts_with k_id txt) with false by reflexivity. replace (starts_with k_sig txt) with false by reflexivity.
    replace (starts_with k_kind txt) with false by reflexivity. replace (starts_with k_tags txt) with true by reflexivity.
    fold c. rewrite Hb. subst txt.
    change (drop 5 (116 :: 97 :: 103 :: 115 :: 34 :: 58 :: 91 :: tags_body tes tail)) with (58 :: 91 :: tags_body tes tail).
    rewrite eat_colon_ws_lit by reflexivity. cbn [bind].
    replace (len (ev_out st) <? 144) with false by (symmetry; apply N.ltb_ge; rewrite Eo, len_app; lia).
    rewrite Eo. rewrite <- Lh at 1. rewrite drop_app_len.
    rewrite (read_tags_array_spec ts tes F tail H2 Hcap Hfit). cbn [bind].
    rewrite <- Lh. rewrite take_app_len. rewrite Hcs. reflexivity.
  Qed.

  Lemma em_content s e x0 pre F rest : escd s e -> len x0 = 4 -> len (x0 ++ pre) = 144 + ev_tags_size st -> 4 + len s <= len F ->
    ev_tags_size st <> 0 -> has_bit c HAVE_CONTENT = false -> ev_out st = (x0 ++ pre) ++ F ->
    event_member st (99 :: 111 :: 110 :: 116 :: 101 :: 110 :: 116 :: 34 :: 58 :: 34 :: e ++ 34 :: rest)
    = Ok (mkEv (le32 (144 + ev_tags_size st + 4 + len s) ++ pre ++ le32 (len s) ++ s ++ drop (4 + len s) F)
               (set_bit c HAVE_CONTENT) (ev_tags_size st) (ev_content_start st), rest).
  Proof.
    intros He L0 La Hcap Hts Hb Eo. unfold event_member.
    set (txt := 99 :: 111 :: 110 :: 116 :: 101 :: 110 :: 116 :: 34 :: 58 :: 34 :: e ++ 34 :: rest).
    replace (starts_with k_id txt) with false by reflexivity. replace (starts_with k_sig txt) with false by reflexivity.
    replace (starts_with k_kind txt) with false by reflexivity. replace (starts_with k_tags txt) with false by reflexivity.
    replace (starts_with k_pubkey txt) with false by reflexivity. replace (starts_with k_content txt) with true by reflexivity.
    fold c. rewrite Hb. subst txt.
    change (drop 8 (99 :: 111 :: 110 :: 116 :: 101 :: 110 :: 116 :: 34 :: 58 :: 34 :: e ++ 34 :: rest)) with (58 :: 34 :: e ++ 34 :: rest).
    rewrite eat_colon_ws_lit by reflexivity. cbn [bind].
    replace (ev_tags_size st =? 0) with false by (symmetry; apply N.eqb_neq; exact Hts).
    rewrite Eo, (read_content_spec s e x0 pre F rest _ He L0 La Hcap). cbn [bind]. reflexivity.
  Qed.
End Members.

(* ---------- the event ---------- *)
Definition wf_event_json (e : aevent) : Prop :=
  wf_bytes (e_id e) /\ len (e_id e) = 32 /\ wf_bytes (e_pk e) /\ len (e_pk e) = 32 /\ wf_bytes (e_sig e) /\ len (e_sig e) = 64 /\
  e_kind e < 65536 /\ e_created e < 18446744073709551616 /\
  valid_tags (e_tags e) /\ fits_tags (e_tags e) /\ valid_utf8 (e_content e) /\ event_size e < 4294967296.

Lemma split_blocks (out : bytes) : 144 <= len out ->
  exists x0 x4 x6 x8 x16 x48 x80 F, out = x0 ++ x4 ++ x6 ++ x8 ++ x16 ++ x48 ++ x80 ++ F /\
    len x0 = 4 /\ len x4 = 2 /\ len x6 = 2 /\ len x8 = 8 /\ len x16 = 32 /\ len x48 = 32 /\ len x80 = 64 /\ F = drop 144 out.
Proof.
  intros H.
  exists (take 4 out), (take 2 (drop 4 out)), (take 2 (drop 6 out)), (take 8 (drop 8 out)), (take 32 (drop 16 out)),
         (take 32 (drop 48 out)), (take 64 (drop 80 out)), (drop 144 out).
  rewrite !len_take, !len_drop. repeat split; try lia.
  rewrite <- (take_drop_id 4 out) at 1. f_equal.
  rewrite <- (take_drop_id 2 (drop 4 out)) at 1. f_equal. rewrite drop_drop. change (4 + 2) with 6.
  rewrite <- (take_drop_id 2 (drop 6 out)) at 1. f_equal. rewrite drop_drop. change (6 + 2) with 8.
  rewrite <- (take_drop_id 8 (drop 8 out)) at 1. f_equal. rewrite drop_drop. change (8 + 8) with 16.
  rewrite <- (take_drop_id 32 (drop 16 out)) at 1. f_equal. rewrite drop_drop. change (16 + 32) with 48.
  rewrite <- (take_drop_id 32 (drop 48 out)) at 1. f_equal. rewrite drop_drop. change (48 + 32) with 80.
  rewrite <- (take_drop_id 64 (drop 80 out)) at 1. f_equal. rewrite drop_drop. reflexivity.
Qed.

Lemma next_field_comma r : next_object_field (44 :: r) = Ok (false, r).
Proof. unfold next_object_field. rewrite eat_ws_nonws by reflexivity. reflexivity. Qed.
Lemma next_field_close r : next_object_field (125 :: r) = Ok (true, r).
Proof. unfold next_object_field. rewrite eat_ws_nonws by reflexivity. reflexivity. Qed.

Lemma tags_size_ge4 ts : 4 <= tags_size ts. Proof. unfold tags_size, tags_hdr. lia. Qed.

Ltac solve_em :=
  cbn [ev_out ev_complete ev_tags_size ev_content_start];
  first [ reflexivity
        | (rewrite <- ?app_assoc; reflexivity)
        | (rewrite ?len_app, ?len_le16, ?len_le32, ?len_le64, ?len_enc_tags, ?len_drop; change (len [0; 0]) with 2; lia) ].

Theorem event_json_roundtrip e txt out : wf_event_json e -> event_size e <= len out ->
  event_as_json e = Ok txt ->
  event_from_json txt out = Ok (len txt, enc_event e, enc_event e ++ drop (event_size e) out).
Proof.
  intros (Wid & Lid & Wpk & Lpk & Wsg & Lsg & Hk & Hc & Vt & Ft & Vc & Hsz) Hcap Hj.
  destruct (tags_as_json_text (e_tags e) Vt) as [tes [H2 Htxt]].
  destruct (json_escape_succeeds_on_valid _ Vc) as [cj Hcj].
  unfold event_as_json in Hj. destruct (Htxt []) as [tj [Htj _]]. rewrite Htj, Hcj in Hj. cbn [bind] in Hj. injection Hj as Etxt.
  pose proof (tags_size_ge4 (e_tags e)) as Hts4. unfold event_size in Hcap, Hsz.
  (* the text, member by member *)
  set (R6 := 34 :: 115 :: 105 :: 103 :: 34 :: 58 :: 34 :: write_hex (e_sig e) ++ 34 :: 125 :: []).
  set (R5 := 34 :: 99 :: 111 :: 110 :: 116 :: 101 :: 110 :: 116 :: 34 :: 58 :: 34 :: cj ++ 34 :: 44 :: R6).
  set (R4 := 34 :: 116 :: 97 :: 103 :: 115 :: 34 :: 58 :: 91 :: tags_body tes (44 :: R5)).
  set (R3 := 34 :: 99 :: 114 :: 101 :: 97 :: 116 :: 101 :: 100 :: 95 :: 97 :: 116 :: 34 :: 58 :: dec (e_created e) ++ 44 :: R4).
  set (R2 := 34 :: 107 :: 105 :: 110 :: 100 :: 34 :: 58 :: dec (e_kind e) ++ 44 :: R3).
  set (R1 := 34 :: 112 :: 117 :: 98 :: 107 :: 101 :: 121 :: 34 :: 58 :: 34 :: write_hex (e_pk e) ++ 34 :: 44 :: R2).
  assert (Shape : txt = 123 :: 34 :: 105 :: 100 :: 34 :: 58 :: 34 :: write_hex (e_id e) ++ 34 :: 44 :: R1).
  { rewrite <- Etxt. destruct (Htxt (44 :: R5)) as [tj' [Htj' Ett]]. assert (tj' = tj) by congruence. subst tj'.
    subst R1 R2 R3 R4. rewrite <- Ett. subst R5 R6.
    unfold s_id_open, s_pubkey, s_kind, s_created, s_tags, s_content, s_sig, s_close. rewrite <- ?app_assoc. cbn [app]. rewrite <- ?app_assoc. cbn [app]. reflexivity. }
  assert (Ltxt : 204 <= len txt).
  { rewrite <- Etxt. unfold s_id_open, s_pubkey, s_kind, s_created, s_tags, s_content, s_sig, s_close.
    repeat (rewrite ?len_cons, ?len_app, ?len_write_hex). rewrite Lid, Lpk, Lsg. change (len (@nil N)) with 0. clear. lia. }
  destruct (split_blocks out ltac:(lia)) as (x0 & x4 & x6 & x8 & x16 & x48 & x80 & F & Eout & L0 & L4 & L6 & L8 & L16 & L48 & L80 & EF).
  assert (LF : len F = len out - 144) by (rewrite EF; apply len_drop).
  unfold event_from_json, parse_json_event.
  replace (len txt <? 204) with false by (symmetry; apply N.ltb_ge; exact Ltxt).
  replace (len out <? 152) with false by (symmetry; apply N.ltb_ge; lia).
  rewrite Eout at 1.
  replace (x0 ++ x4 ++ x6 ++ x8 ++ x16 ++ x48 ++ x80 ++ F) with ((x0 ++ x4) ++ x6 ++ (x8 ++ x16 ++ x48 ++ x80 ++ F)) by (rewrite <- !app_assoc; reflexivity).
  rewrite (put_raw_at (x0 ++ x4) x6 [0; 0] _ 6) by (rewrite ?len_app; change (len [0; 0]) with 2; lia). cbn [bind].
  rewrite Shape at 1. rewrite (eat_ws_nonws 123) by reflexivity. cbn [verify_char]. change (123 =? 123) with true. cbv iota. cbn [bind].
  rewrite Shape at 1. cbn [length].
  (* id *)
  cbn [event_members]. rewrite (eat_ws_nonws 34) by reflexivity. cbn [verify_char]. change (34 =? 34) with true. cbv iota. cbn [bind].
  rewrite (em_id _ ((x0 ++ x4) ++ [0; 0] ++ x8) x16 (x48 ++ x80 ++ F) (e_id e) 44 R1 Wid Lid) by solve_em.
  cbn [bind ev_complete ev_tags_size ev_content_start]. rewrite next_field_comma. cbn [bind].
  (* pubkey *)
  subst R1. cbn [event_members]. rewrite (eat_ws_nonws 34) by reflexivity. cbn [verify_char]. change (34 =? 34) with true. cbv iota. cbn [bind].
  rewrite (em_pubkey _ ((x0 ++ x4) ++ [0; 0] ++ x8 ++ e_id e) x48 (x80 ++ F) (e_pk e) 44 R2 Wpk Lpk) by solve_em.
  cbn [bind ev_complete ev_tags_size ev_content_start]. rewrite next_field_comma. cbn [bind].
  (* kind *)
  subst R2. cbn [event_members]. rewrite (eat_ws_nonws 34) by reflexivity. cbn [verify_char]. change (34 =? 34) with true. cbv iota. cbn [bind].
  rewrite (em_kind _ x0 x4 ([0; 0] ++ x8 ++ e_id e ++ e_pk e ++ x80 ++ F) (e_kind e) R3 Hk) by solve_em.
  cbn [bind ev_complete ev_tags_size ev_content_start]. rewrite next_field_comma. cbn [bind].
  (* created_at *)
  subst R3. cbn [event_members]. rewrite (eat_ws_nonws 34) by reflexivity. cbn [verify_char]. change (34 =? 34) with true. cbv iota. cbn [bind].
  rewrite (em_created _ (x0 ++ le16 (e_kind e) ++ [0; 0]) x8 (e_id e ++ e_pk e ++ x80 ++ F) (e_created e) R4 Hc) by solve_em.
  cbn [bind ev_complete ev_tags_size ev_content_start]. rewrite next_field_comma. cbn [bind].
  (* tags *)
  subst R4. cbn [event_members]. rewrite (eat_ws_nonws 34) by reflexivity. cbn [verify_char]. change (34 =? 34) with true. cbv iota. cbn [bind].
  rewrite (em_tags _ ((x0 ++ le16 (e_kind e) ++ [0; 0]) ++ le64 (e_created e) ++ e_id e ++ e_pk e ++ x80) F (e_tags e) tes (44 :: R5) H2 ltac:(lia) Ft) by solve_em.
  cbn [bind ev_complete ev_tags_size ev_content_start]. rewrite next_field_comma. cbn [bind].
  (* content *)
  subst R5. cbn [event_members]. rewrite (eat_ws_nonws 34) by reflexivity. cbn [verify_char]. change (34 =? 34) with true. cbv iota. cbn [bind].
  rewrite (em_content _ (e_content e) cj x0
             (le16 (e_kind e) ++ [0; 0] ++ le64 (e_created e) ++ e_id e ++ e_pk e ++ x80 ++ enc_tags (e_tags e))
             (drop (tags_size (e_tags e)) F) (44 :: R6) (escd0_escd _ _ (conj Vc Hcj)) L0) by solve_em.
  cbn [bind ev_complete ev_tags_size ev_content_start]. rewrite next_field_comma. cbn [bind].
  (* sig *)
  subst R6. cbn [event_members]. rewrite (eat_ws_nonws 34) by reflexivity. cbn [verify_char]. change (34 =? 34) with true. cbv iota. cbn [bind].
  set (total := 144 + tags_size (e_tags e) + 4 + len (e_content e)).
  rewrite (em_sig _ (le32 total ++ le16 (e_kind e) ++ [0; 0] ++ le64 (e_created e) ++ e_id e ++ e_pk e) x80
             (enc_tags (e_tags e) ++ le32 (len (e_content e)) ++ e_content e ++ drop (4 + len (e_content e)) (drop (tags_size (e_tags e)) F))
             (e_sig e) 125 [] Wsg Lsg) by solve_em.
  cbn [bind ev_complete ev_tags_size ev_content_start]. rewrite next_field_close. cbn [bind].
  (* done: all seven members seen *)
  cbn [ev_complete ev_out].
  replace (set_bit (set_bit (set_bit (set_bit (set_bit (set_bit (set_bit 0 HAVE_ID) HAVE_PUBKEY) HAVE_KIND) HAVE_CREATED_AT) HAVE_TAGS) HAVE_CONTENT) HAVE_SIG =? 127)
    with true by reflexivity. cbv iota. cbn [ev_out].
  rewrite <- !app_assoc. rewrite (rd32_le32 total) by (subst total; lia).
  change (len (@nil N)) with 0. rewrite N.sub_0_r.
  (* the buffer is the encoding followed by what was there *)
  assert (Eenc : le32 total ++ le16 (e_kind e) ++ [0; 0] ++ le64 (e_created e) ++ e_id e ++ e_pk e ++ e_sig e ++
                 enc_tags (e_tags e) ++ le32 (len (e_content e)) ++ e_content e ++ drop (4 + len (e_content e)) (drop (tags_size (e_tags e)) F)
                 = enc_event e ++ drop (event_size e) out).
  { replace (drop (4 + len (e_content e)) (drop (tags_size (e_tags e)) F)) with (drop (event_size e) out)
      by (rewrite EF, !drop_drop; f_equal; unfold event_size; lia).
    unfold enc_event. rewrite <- ?app_assoc. reflexivity. }
  rewrite Eenc.
  assert (Lenc : len (enc_event e ++ drop (event_size e) out) = len out).
  { rewrite len_app, len_drop. unfold enc_event. rewrite !len_app, len_le32, len_le16, len_le64, len_enc_tags, len_le32, Lid, Lpk, Lsg.
    change (len [0; 0]) with 2. unfold event_size. lia. }
  assert (Ltot : total = len (enc_event e)).
  { unfold enc_event. rewrite !len_app, len_le32, len_le16, len_le64, len_enc_tags, len_le32, Lid, Lpk, Lsg. change (len [0; 0]) with 2. subst total. lia. }
  rewrite Ltot. cbn [bind].
  replace (len (enc_event e ++ drop (event_size e) out) <? len (enc_event e)) with false by (symmetry; apply N.ltb_ge; rewrite Lenc, <- Ltot; subst total; lia).
  rewrite take_app_len. reflexivity.
Qed.
