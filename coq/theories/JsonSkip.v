(* JsonSkip.v — the value skipper of the JSON parsers (burn_value / burn_array / burn_object / burn_member,
   used for members the parsers do not know) skips every JSON value: strings in json_escape's spelling, numbers,
   true/false/null, arrays and objects nested to any depth up to the parser's limit of 128 - whatever follows.
   Values are given as trees; [jtext] is their compact JSON text. *)
From Coq Require Import List NArith Lia Bool.
Import ListNotations.
From Pocket Require Import Bytes Layout Codec JsonParse EscapeProofs EscapeRoundTrip HexProofs NumProofs CanonInj JsonRoundTrip FilterRoundTrip.
Open Scope N_scope.
Arguments N.add : simpl never. Arguments N.sub : simpl never. Arguments N.mul : simpl never.
Arguments N.eqb : simpl never. Arguments N.ltb : simpl never. Arguments N.leb : simpl never.

Inductive jtree :=
| JStr (e : bytes)                      (* the text between the quotes *)
| JNum (n : bytes)
| JTrue | JFalse | JNull
| JArr (l : list jtree)
| JObj (l : list (bytes * jtree)).      (* key text between the quotes, value *)

(* items followed by the closing bracket and K; members followed by the closing brace and K *)
Definition atext (tx : jtree -> bytes) : list jtree -> bytes -> bytes :=
  fix go l K := match l with
                | [] => 93 :: K
                | x :: r => tx x ++ (match r with [] => 93 :: K | _ :: _ => 44 :: go r K end)
                end.
Definition otext (tx : jtree -> bytes) : list (bytes * jtree) -> bytes -> bytes :=
  fix go l K := match l with
                | [] => 125 :: K
                | (k, v) :: r => 34 :: k ++ 34 :: 58 :: tx v ++ (match r with [] => 125 :: K | _ :: _ => 44 :: go r K end)
                end.
Fixpoint jtext (t : jtree) : bytes :=
  match t with
  | JStr e => 34 :: e ++ [34]
  | JNum n => n
  | JTrue => [116; 114; 117; 101]
  | JFalse => [102; 97; 108; 115; 101]
  | JNull => [110; 117; 108; 108]
  | JArr l => 91 :: atext jtext l []
  | JObj l => 123 :: otext jtext l []
  end.

(* sizes (fuel) and nesting depth *)
Fixpoint jsize (t : jtree) : nat :=
  match t with
  | JArr l => S (S (fold_right (fun x acc => S (jsize x + acc)) 0%nat l))
  | JObj l => S (S (fold_right (fun kv acc => S (jsize (snd kv) + acc)) 0%nat l))
  | _ => 1%nat
  end.
Fixpoint jdepth (t : jtree) : N :=
  match t with
  | JArr l => 1 + fold_right (fun x acc => N.max (jdepth x) acc) 0 l
  | JObj l => 1 + fold_right (fun kv acc => N.max (jdepth (snd kv)) acc) 0 l
  | _ => 0
  end.

(* well-formed: strings are skippable, numbers start like a number and consist of number characters *)
Definition skippable_str (e : bytes) : Prop := forall K, burn_string (e ++ 34 :: K) = Ok K.
Fixpoint jwf (t : jtree) : Prop :=
  match t with
  | JStr e => skippable_str e
  | JNum n => match n with [] => False | c :: _ => ((c =? 45) || is_digit c = true) end /\ Forall (fun c => is_number_char c = true) n
  | JArr l => (fix all l := match l with [] => True | x :: r => jwf x /\ all r end) l
  | JObj l => (fix all l := match l with [] => True | kv :: r => (skippable_str (fst kv) /\ jwf (snd kv)) /\ all r end) l
  | _ => True
  end.

Lemma escd_skippable s e : escd s e -> skippable_str e.
Proof. intros [_ Hbu] K. apply Hbu. Qed.

(* what may follow a value: anything that is not a number character (a comma, a closing bracket or brace, white space) *)
Definition vfollow (K : bytes) : Prop := exists c r, K = c :: r /\ is_number_char c = false.

Lemma burn_number_run n K : Forall (fun c => is_number_char c = true) n -> vfollow K -> burn_number (n ++ K) = K.
Proof.
  intros Hn [c [r [-> Hc]]]. induction Hn as [|x n Hx _ IH]; cbn [app burn_number].
  - rewrite Hc. reflexivity.
  - rewrite Hx. exact IH.
Qed.

(* a value text starts with a character that is neither white space nor a comma, and is not a closing bracket *)
Lemma jtext_head t : jwf t -> exists c r, jtext t = c :: r /\ is_ws c = false /\ c <> 44 /\ c <> 93 /\ c <> 125.
Proof.
  destruct t as [e|n| | | |l|l]; cbn [jtext jwf]; intros H; try (eexists _, _; repeat split; try reflexivity; lia).
  destruct H as [H _]. destruct n as [|c r]; [destruct H|]. exists c, r. split; [reflexivity|].
  unfold is_digit, is_ws in *. repeat split; lia.
Qed.

Lemma eat_ws_commas_value t K : jwf t -> eat_ws_commas (jtext t ++ K) = jtext t ++ K.
Proof.
  intros H. destruct (jtext_head t H) as [c [r [E [Hw [Hc _]]]]]. rewrite E. cbn [app]. apply eat_ws_commas_stop; assumption.
Qed.

Lemma atext_app tx l K : atext tx l [] ++ K = atext tx l K.
Proof.
  induction l as [|x r IH]; cbn [atext app]; [reflexivity|]. rewrite <- app_assoc. f_equal.
  destruct r as [|y r']; [reflexivity|]. cbn [app]. f_equal. exact IH.
Qed.
Lemma otext_app tx l K : otext tx l [] ++ K = otext tx l K.
Proof.
  induction l as [|[k v] r IH]; cbn [otext app]; [reflexivity|]. rewrite <- !app_assoc. cbn [app]. rewrite <- !app_assoc. do 2 f_equal. cbn [app]. do 2 f_equal.
  f_equal. destruct r as [|y r']; [reflexivity|]. cbn [app]. f_equal. exact IH.
Qed.

Definition asize (l : list jtree) : nat := fold_right (fun x acc => S (jsize x + acc)) 0%nat l.
Definition osize (l : list (bytes * jtree)) : nat := fold_right (fun kv acc => S (jsize (snd kv) + acc)) 0%nat l.
Definition adepth (l : list jtree) : N := fold_right (fun x acc => N.max (jdepth x) acc) 0 l.
Definition odepth (l : list (bytes * jtree)) : N := fold_right (fun kv acc => N.max (jdepth (snd kv)) acc) 0 l.
Definition awf (l : list jtree) : Prop := (fix all l := match l with [] => True | x :: r => jwf x /\ all r end) l.
Definition owf (l : list (bytes * jtree)) : Prop :=
  (fix all l := match l with [] => True | kv :: r => (skippable_str (fst kv) /\ jwf (snd kv)) /\ all r end) l.

(* the three skippers, by induction on the fuel *)
Lemma burn_all fuel :
  (forall t depth K, jwf t -> (jsize t <= fuel)%nat -> depth + jdepth t <= 128 -> vfollow K ->
     burn_value fuel depth (jtext t ++ K) = Ok K) /\
  (forall l depth K, awf l -> (S (asize l) <= fuel)%nat -> depth + adepth l <= 128 ->
     burn_array fuel depth (atext jtext l K) = Ok K) /\
  (forall l depth K, owf l -> (S (osize l) <= fuel)%nat -> depth + odepth l <= 128 ->
     burn_object fuel depth (otext jtext l K) = Ok K).
Proof.
  induction fuel as [|f [IHv [IHa IHo]]].
  - split; [|split].
    + intros t depth K _ Hs. destruct t; cbn [jsize] in Hs; lia.
    + intros l depth K _ Hs. lia.
    + intros l depth K _ Hs. lia.
  - split; [|split].
    + (* a value *)
      intros t depth K Hw Hs Hd HK. cbn [burn_value].
      replace (MAX_BURN_DEPTH <? depth) with false by (symmetry; apply N.ltb_ge; unfold MAX_BURN_DEPTH; lia).
      destruct t as [e|n| | | |l|l]; cbn [jtext app].
      * change (34 =? 34) with true. cbv iota. rewrite <- app_assoc. cbn [app]. apply Hw.
      * cbn [jwf] in Hw. destruct Hw as [Hh Hn]. destruct n as [|c r]; [destruct Hh|]. cbn [app].
        assert (Hc : is_number_char c = true) by (inversion Hn; assumption).
        replace (c =? 34) with false by (symmetry; apply N.eqb_neq; intros ->; discriminate Hc).
        replace (c =? 91) with false by (symmetry; apply N.eqb_neq; intros ->; discriminate Hc).
        replace (c =? 123) with false by (symmetry; apply N.eqb_neq; intros ->; discriminate Hc).
        replace (c =? 116) with false by (symmetry; apply N.eqb_neq; intros ->; discriminate Hc).
        assert (Hc102 : (c =? 102) = true -> False).
        { intros E. apply N.eqb_eq in E. subst c. unfold is_digit in Hh. cbn in Hh. discriminate. }
        destruct (c =? 102) eqn:E102; [exfalso; apply Hc102; reflexivity|].
        assert (Hc110 : (c =? 110) = true -> False).
        { intros E. apply N.eqb_eq in E. subst c. unfold is_digit in Hh. cbn in Hh. discriminate. }
        destruct (c =? 110) eqn:E110; [exfalso; apply Hc110; reflexivity|].
        rewrite Hh. change (c :: r ++ K) with ((c :: r) ++ K). rewrite (burn_number_run (c :: r) K Hn HK). reflexivity.
      * reflexivity.
      * reflexivity.
      * reflexivity.
      * change (91 =? 34) with false. change (91 =? 91) with true. cbv iota. rewrite atext_app.
        cbn [jsize jdepth jwf] in Hs, Hd, Hw. apply IHa; [exact Hw|fold (asize l) in Hs; lia|fold (adepth l) in Hd; lia].
      * change (123 =? 34) with false. change (123 =? 91) with false. change (123 =? 123) with true. cbv iota. rewrite otext_app.
        cbn [jsize jdepth jwf] in Hs, Hd, Hw. apply IHo; [exact Hw|fold (osize l) in Hs; lia|fold (odepth l) in Hd; lia].
    + (* the items of an array *)
      intros l depth K Hw Hs Hd. cbn [burn_array]. destruct l as [|x r]; cbn [atext].
      * rewrite eat_ws_commas_stop by (try reflexivity; lia). change (93 =? 93) with true. reflexivity.
      * cbn [awf] in Hw. destruct Hw as [Hx Hr]. cbn [asize fold_right] in Hs. fold (asize r) in Hs.
        cbn [adepth fold_right] in Hd. fold (adepth r) in Hd.
        rewrite (eat_ws_commas_value x _ Hx). destruct (jtext_head x Hx) as [c [rr [E [_ [_ [H93 _]]]]]]. rewrite E. cbn [app].
        replace (c =? 93) with false by (symmetry; apply N.eqb_neq; exact H93). rewrite app_comm_cons, <- E.
        rewrite (IHv x depth _ Hx ltac:(lia) ltac:(lia)).
        2:{ destruct r; eexists _, _; split; reflexivity. }
        cbn [bind]. destruct r as [|y r'].
        -- destruct f as [|f']; [lia|]. cbn [burn_array]. rewrite eat_ws_commas_stop by (try reflexivity; lia). change (93 =? 93) with true. reflexivity.
        -- assert (Hb : burn_array f depth (44 :: atext jtext (y :: r') K) = burn_array f depth (atext jtext (y :: r') K)).
           { destruct f; [reflexivity|]. cbn [burn_array]. rewrite eat_ws_commas_comma. reflexivity. }
           rewrite Hb. apply IHa; [exact Hr|fold (asize (y :: r')); lia|fold (adepth (y :: r')); lia].
    + (* the members of an object *)
      intros l depth K Hw Hs Hd. cbn [burn_object]. destruct l as [|[k v] r]; cbn [otext].
      * rewrite eat_ws_commas_stop by (try reflexivity; lia). change (125 =? 125) with true. reflexivity.
      * cbn [owf fst snd] in Hw. destruct Hw as [[Hk Hv] Hr]. cbn [osize fold_right snd] in Hs. fold (osize r) in Hs.
        cbn [odepth fold_right snd] in Hd. fold (odepth r) in Hd.
        rewrite eat_ws_commas_stop by (try reflexivity; lia). change (34 =? 125) with false. cbv iota.
        cbn [verify_char]. change (34 =? 34) with true. cbv iota. cbn [bind].
        rewrite (Hk _). cbn [bind].
        destruct (jtext_head v Hv) as [c [rr [E [Hws _]]]].
        rewrite E. cbn [app]. rewrite eat_colon_ws_lit by exact Hws. cbn [bind].
        rewrite app_comm_cons, <- E.
        rewrite (IHv v depth _ Hv ltac:(lia) ltac:(lia)).
        2:{ destruct r; eexists _, _; split; reflexivity. }
        cbn [bind]. destruct r as [|y r'].
        -- destruct f as [|f']; [lia|]. cbn [burn_object]. rewrite eat_ws_commas_stop by (try reflexivity; lia). change (125 =? 125) with true. reflexivity.
        -- assert (Hb : burn_object f depth (44 :: otext jtext (y :: r') K) = burn_object f depth (otext jtext (y :: r') K)).
           { destruct f; [reflexivity|]. cbn [burn_object]. rewrite eat_ws_commas_comma. reflexivity. }
           rewrite Hb. apply IHo; [exact Hr|fold (osize (y :: r')); lia|fold (odepth (y :: r')); lia].
Qed.

Theorem burn_value_skips fuel t depth K : jwf t -> (jsize t <= fuel)%nat -> depth + jdepth t <= 128 -> vfollow K ->
  burn_value fuel depth (jtext t ++ K) = Ok K.
Proof. apply (proj1 (burn_all fuel)). Qed.

(* ---------- the fuel burn_member supplies is enough ---------- *)
Section Ind.
  Variable P : jtree -> Prop.
  Hypothesis Hstr : forall e, P (JStr e).
  Hypothesis Hnum : forall n, P (JNum n).
  Hypothesis Ht : P JTrue.
  Hypothesis Hf : P JFalse.
  Hypothesis Hn : P JNull.
  Hypothesis Harr : forall l, Forall P l -> P (JArr l).
  Hypothesis Hobj : forall l, Forall (fun kv => P (snd kv)) l -> P (JObj l).
  Fixpoint jtree_ind' (t : jtree) : P t :=
    match t with
    | JStr e => Hstr e | JNum n => Hnum n | JTrue => Ht | JFalse => Hf | JNull => Hn
    | JArr l => Harr l ((fix go l : Forall P l := match l with [] => Forall_nil _ | x :: r => Forall_cons x (jtree_ind' x) (go r) end) l)
    | JObj l => Hobj l ((fix go l : Forall (fun kv => P (snd kv)) l :=
                           match l with [] => Forall_nil _ | kv :: r => Forall_cons kv (jtree_ind' (snd kv)) (go r) end) l)
    end.
End Ind.

Lemma awf_Forall l : awf l <-> Forall jwf l.
Proof. induction l as [|x r IH]; cbn [awf]; [split; constructor|]. fold (awf r). rewrite Forall_cons_iff, IH. tauto. Qed.
Lemma owf_Forall l : owf l <-> Forall (fun kv => skippable_str (fst kv) /\ jwf (snd kv)) l.
Proof. induction l as [|x r IH]; cbn [owf]; [split; constructor|]. fold (owf r). rewrite Forall_cons_iff, IH. tauto. Qed.

Lemma jsize_le_text t : jwf t -> (jsize t <= 2 * length (jtext t) /\ 1 <= length (jtext t))%nat.
Proof.
  induction t as [e|n| | | |l IH|l IH] using jtree_ind'; intros Hw; cbn [jsize jtext length]; try (rewrite ?app_length; cbn [length]; lia).
  - cbn [jwf] in Hw. destruct Hw as [Hh _]. destruct n; [destruct Hh|cbn [length]; lia].
  - change (jwf (JArr l)) with (awf l) in Hw. apply awf_Forall in Hw. fold (asize l).
    assert (C : forall K, (asize l + 1 <= 2 * length (atext jtext l K))%nat).
    { intros K. induction l as [|x r IHr]; [cbn [asize fold_right atext length]; lia|].
      inversion IH as [|? ? Hx Hr]; subst. inversion Hw as [|? ? Wx Wr]; subst. destruct (Hx Wx) as [Sx Lx].
      cbn [asize fold_right atext]. fold (asize r). rewrite app_length. destruct r as [|y r'].
      - cbn [asize fold_right length]. lia.
      - specialize (IHr Hr Wr). cbn [length]. cbn [length] in IHr. lia. }
    specialize (C []). lia.
  - change (jwf (JObj l)) with (owf l) in Hw. apply owf_Forall in Hw. fold (osize l).
    assert (C : forall K, (osize l + 1 <= 2 * length (otext jtext l K))%nat).
    { intros K. induction l as [|[k v] r IHr]; [cbn [osize fold_right otext length]; lia|].
      inversion IH as [|? ? Hx Hr]; subst. inversion Hw as [|? ? Wx Wr]; subst. cbn [snd fst] in *. destruct (Hx (proj2 Wx)) as [Sx Lx].
      cbn [osize fold_right otext snd]. fold (osize r). cbn [length]. rewrite !app_length. cbn [length]. rewrite app_length. destruct r as [|y r'].
      - cbn [osize fold_right length]. lia.
      - specialize (IHr Hr Wr). cbn [length]. cbn [length] in IHr. lia. }
    specialize (C []). lia.
Qed.

(* a whole unknown member, after its opening quote: key, closing quote, colon, value - whatever follows *)
Theorem burn_member_skips key v K : skippable_str key -> jwf v -> jdepth v <= 128 -> vfollow K ->
  burn_member (key ++ 34 :: 58 :: jtext v ++ K) = Ok K.
Proof.
  intros Hk Hv Hd HK. unfold burn_member. rewrite (Hk _). cbn [bind].
  destruct (jtext_head v Hv) as [c [rr [E [Hws _]]]]. rewrite E. cbn [app]. rewrite eat_colon_ws_lit by exact Hws. cbn [bind].
  rewrite app_comm_cons, <- E.
  apply burn_value_skips; [exact Hv| |lia|exact HK].
  destruct (jsize_le_text v Hv) as [Hs _]. unfold burn_fuel. rewrite !app_length. cbn [length]. rewrite !app_length.
  assert (length (c :: rr) = length (jtext v)) by (rewrite E; reflexivity). cbn [length] in *. lia.
Qed.

(* white space *)
Definition wsb (w : bytes) : Prop := Forall (fun c => is_ws c = true) w.
Lemma eat_ws_app w c r : wsb w -> is_ws c = false -> eat_ws (w ++ c :: r) = c :: r.
Proof.
  intros Hw Hc. induction Hw as [|x w Hx _ IH]; cbn [app eat_ws]; [rewrite Hc; reflexivity | rewrite Hx; exact IH].
Qed.
Lemma eat_colon_ws_gen w2 w3 c r : wsb w2 -> wsb w3 -> is_ws c = false ->
  eat_colon_ws (w2 ++ 58 :: w3 ++ c :: r) = Ok (c :: r).
Proof.
  intros H2 H3 Hc. unfold eat_colon_ws. rewrite (eat_ws_app w2 58) by (try assumption; reflexivity).
  cbn [verify_char]. change (58 =? 58) with true. cbv iota. cbn [bind]. rewrite eat_ws_app by assumption. reflexivity.
Qed.

(* the same with white space between the key and the colon and between the colon and the value *)
Theorem burn_member_skips_ws key w2 w3 v K : skippable_str key -> wsb w2 -> wsb w3 -> jwf v -> jdepth v <= 128 -> vfollow K ->
  burn_member (key ++ 34 :: w2 ++ 58 :: w3 ++ jtext v ++ K) = Ok K.
Proof.
  intros Hk H2 H3 Hv Hd HK. unfold burn_member. rewrite (Hk _). cbn [bind].
  destruct (jtext_head v Hv) as [c [rr [E [Hws _]]]]. rewrite E. cbn [app]. rewrite eat_colon_ws_gen by assumption. cbn [bind].
  change (c :: rr ++ K) with ((c :: rr) ++ K). rewrite <- E.
  apply burn_value_skips; [exact Hv| |lia|exact HK].
  destruct (jsize_le_text v Hv) as [Hs _]. unfold burn_fuel. rewrite !app_length. cbn [length]. rewrite !app_length. cbn [length]. rewrite !app_length.
  assert (length (c :: rr) = length (jtext v)) by (rewrite E; reflexivity). cbn [length] in *. lia.
Qed.

(* keys without quote or backslash are skippable *)
Lemma plain_skippable key : Forall (fun c => c <> 34 /\ c <> 92) key -> skippable_str key.
Proof.
  intros H K. induction H as [|c r [H1 H2] _ IH]; cbn [app burn_string].
  - change (34 =? 34) with true. reflexivity.
  - replace (c =? 34) with false by (symmetry; apply N.eqb_neq; exact H1).
    replace (c =? 92) with false by (symmetry; apply N.eqb_neq; exact H2). exact IH.
Qed.
