(* KeyOrder.v — the memcmp order of index keys: big-endian fields compare like the numbers they encode,
   so a key P ++ rev_time t ++ id lies in the scanned interval
   [P ++ rev_time until ++ 00..00 , P ++ rev_time since ++ ff..ff] exactly when since <= t <= until
   (for 32-byte ids made of bytes). *)
From Pocket Require Import Keys.

Fixpoint val (l : bytes) : N := match l with [] => 0 | x :: r => x * 256 ^ len r + val r end.

Lemma val_bound l : wf_bytes l -> val l < 256 ^ len l.
Proof.
  induction 1 as [|x r Hx Hr IH]; cbn [val]; [unfold len; cbn; lia|].
  rewrite len_cons. replace (1 + len r) with (N.succ (len r)) by lia. rewrite N.pow_succ_r'.
  unfold wf_byte in Hx. nia.
Qed.

Lemma lex_lt_val a : forall b, length a = length b -> wf_bytes a -> wf_bytes b -> lex_lt a b = (val a <? val b).
Proof.
  induction a as [|x a IH]; intros [|y b] L Wa Wb; cbn [length] in L; try discriminate.
  - reflexivity.
  - inversion Wa as [|? ? Hx Wa']; subst. inversion Wb as [|? ? Hy Wb']; subst.
    cbn [lex_lt val]. assert (Hl : len a = len b) by (unfold len; lia). rewrite Hl.
    pose proof (val_bound a Wa') as Ba. pose proof (val_bound b Wb') as Bb. rewrite Hl in Ba.
    set (P := 256 ^ len b) in *.
    destruct (N.ltb_spec x y) as [H1|H1].
    + symmetry. apply N.ltb_lt. nia.
    + destruct (N.ltb_spec y x) as [H2|H2].
      * symmetry. apply N.ltb_ge. nia.
      * assert (x = y) by lia. subst y. rewrite (IH b) by (auto; lia).
        destruct (N.ltb_spec (val a) (val b)); symmetry; [apply N.ltb_lt|apply N.ltb_ge]; nia.
Qed.

Lemma val_be32 x : x < 4294967296 -> val (be32 x) = x.
Proof. intros H. unfold be32. cbn [val]. unfold len. cbn [length N.of_nat]. change (256 ^ 0) with 1. change (256 ^ 1) with 256.
  change (256 ^ N.pos 2) with 65536. change (256 ^ N.pos 3) with 16777216. lia. Qed.
Lemma wf_be32 x : wf_bytes (be32 x).
Proof. unfold be32. repeat constructor; unfold wf_byte; lia. Qed.
Lemma wf_be64 x : wf_bytes (be64 x).
Proof. unfold be64. apply wf_bytes_app. split; apply wf_be32. Qed.
Lemma len_be64 x : length (be64 x) = 8%nat. Proof. reflexivity. Qed.

Lemma val_app a b : val (a ++ b) = val a * 256 ^ len b + val b.
Proof.
  induction a as [|x a IH]; cbn [app val]; [lia|]. rewrite IH, len_app, N.pow_add_r. lia.
Qed.
Lemma val_be64 x : x < 18446744073709551616 -> val (be64 x) = x.
Proof.
  intros H. unfold be64. rewrite val_app, !val_be32 by lia.
  change (len (be32 (x mod 4294967296))) with 4. change (256 ^ 4) with 4294967296. lia.
Qed.

Lemma lex_lt_be64 a b : a < 18446744073709551616 -> b < 18446744073709551616 -> lex_lt (be64 a) (be64 b) = (a <? b).
Proof. intros Ha Hb. rewrite lex_lt_val by (try apply wf_be64; reflexivity). rewrite !val_be64 by assumption. reflexivity. Qed.

Lemma lex_lt_rev_time s t : s <= U64MAX -> t <= U64MAX -> lex_lt (rev_time s) (rev_time t) = (t <? s).
Proof.
  unfold rev_time, U64MAX. intros Hs Ht. rewrite lex_lt_be64 by lia.
  destruct (N.ltb_spec (18446744073709551615 - s) (18446744073709551615 - t)), (N.ltb_spec t s); try reflexivity; lia.
Qed.

(* ids: 32 bytes *)
Definition wf_id32 (id : bytes) : Prop := length id = 32%nat /\ wf_bytes id.

Lemma lex_ge_zeros l : lex_lt l (repeat 0 (length l)) = false.
Proof. induction l as [|x l IH]; cbn [length repeat lex_lt]; [reflexivity|]. destruct (N.ltb_spec x 0); [lia|]. destruct (N.ltb_spec 0 x); [reflexivity|exact IH]. Qed.
Lemma lex_le_ffs l : wf_bytes l -> lex_lt (repeat 255 (length l)) l = false.
Proof.
  induction 1 as [|x l Hx Hl IH]; cbn [length repeat lex_lt]; [reflexivity|]. unfold wf_byte in Hx.
  destruct (N.ltb_spec 255 x); [lia|]. destruct (N.ltb_spec x 255); [reflexivity|exact IH].
Qed.
Lemma id_ge_zeros id : wf_id32 id -> lex_lt id zeros32 = false.
Proof. intros [L _]. unfold zeros32. rewrite <- L. apply lex_ge_zeros. Qed.
Lemma id_le_ffs id : wf_id32 id -> lex_lt ffs32 id = false.
Proof. intros [L W]. unfold ffs32. rewrite <- L. apply lex_le_ffs. exact W. Qed.

(* comparing  X ++ I  with  Y ++ J  when |X| = |Y| *)
Lemma lex_lt_app_eqlen x y i j : length x = length y ->
  lex_lt (x ++ i) (y ++ j) = if lex_lt x y then true else if lex_lt y x then false else lex_lt i j.
Proof.
  revert y; induction x as [|a x IH]; intros [|b y] L; cbn [length] in L; try discriminate; cbn [app lex_lt].
  - reflexivity.
  - destruct (a <? b); [reflexivity|]. destruct (b <? a); [reflexivity|]. apply IH. lia.
Qed.

(* the window lemma *)
Lemma time_id_in_window since t until id : wf_id32 id -> since <= t -> t <= until -> until <= U64MAX ->
  lex_lt (rev_time t ++ id) (rev_time until ++ zeros32) = false /\
  lex_lt (rev_time since ++ ffs32) (rev_time t ++ id) = false.
Proof.
  intros Wid H1 H2 H3. rewrite !lex_lt_app_eqlen by reflexivity. rewrite !lex_lt_rev_time by lia. split.
  - destruct (N.ltb_spec until t); [lia|]. destruct (N.ltb_spec t until); [reflexivity|]. apply id_ge_zeros. exact Wid.
  - destruct (N.ltb_spec t since); [lia|]. destruct (N.ltb_spec since t); [reflexivity|]. apply id_le_ffs. exact Wid.
Qed.

(* a key  P ++ rev_time t ++ id  is inside the scanned interval of prefix P *)
Lemma key_in_range P since t until id : wf_id32 id -> since <= t -> t <= until -> until <= U64MAX ->
  lex_lt (P ++ rev_time t ++ id) (P ++ rev_time until ++ zeros32) = false /\
  lex_lt (P ++ rev_time since ++ ffs32) (P ++ rev_time t ++ id) = false.
Proof. intros. rewrite !lex_lt_app_same. apply time_id_in_window; assumption. Qed.

(* conversely: inside the interval means inside the window *)
Lemma key_range_window P since t until id : t <= U64MAX -> since <= U64MAX -> until <= U64MAX ->
  lex_lt (P ++ rev_time t ++ id) (P ++ rev_time until ++ zeros32) = false ->
  lex_lt (P ++ rev_time since ++ ffs32) (P ++ rev_time t ++ id) = false ->
  since <= t <= until.
Proof.
  intros Ht Hs Hu. rewrite !lex_lt_app_same, !lex_lt_app_eqlen by reflexivity. rewrite !lex_lt_rev_time by lia.
  destruct (N.ltb_spec until t); [discriminate|]. intros _.
  destruct (N.ltb_spec t since); [discriminate|]. intros _. lia.
Qed.

(* a key between  P ++ u  and  P ++ v  that starts with a block Q of the same length as P starts with P *)
Lemma lex_sandwich_prefix P Q u v w : length P = length Q ->
  lex_lt (Q ++ w) (P ++ u) = false -> lex_lt (P ++ v) (Q ++ w) = false -> P = Q.
Proof.
  intros L H1 H2. rewrite lex_lt_app_eqlen in H1 by (symmetry; exact L). rewrite lex_lt_app_eqlen in H2 by exact L.
  destruct (lex_lt Q P) eqn:E1; [discriminate|]. destruct (lex_lt P Q) eqn:E2; [discriminate|].
  apply lex_total; assumption.
Qed.

Lemma length_pad182 v : length (pad182 v) = 182%nat.
Proof.
  unfold pad182, PADLEN. destruct (N.leb_spec (len v) 182) as [H|H].
  - rewrite app_length, repeat_length. unfold len in *. lia.
  - unfold take. rewrite firstn_length. unfold len in H. lia.
Qed.

Lemma be16_inj a b : a < 65536 -> b < 65536 -> be16 a = be16 b -> a = b.
Proof. unfold be16. intros Ha Hb [= H1 H2]. lia. Qed.

Lemma app_inj_len {A} (a b c d : list A) : length a = length b -> a ++ c = b ++ d -> a = b /\ c = d.
Proof.
  revert b; induction a as [|x a IH]; intros [|y b] Hl H; cbn in *; try lia.
  - split; [reflexivity|exact H].
  - injection H as -> H. destruct (IH b ltac:(lia) H) as [-> ->]. split; reflexivity.
Qed.
